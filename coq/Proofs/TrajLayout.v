(* Proofs about Model/TrajLayout.v: with the code as it is now, every stage
   accepts a trajectory table whatever its index looks like, so every pipeline
   of producers of any length runs and every consumer accepts its result; the
   index layouts reachable from a default-indexed table are five; the pinned
   (pre-fix) code is refuted on the eight producer->consumer pairs of DESIGN F9. *)
From Coq Require Import String Ascii List Bool NArith Lia.
From TP Require Import Model.TrajLayout.
Import ListNotations.
Local Open Scope string_scope.

(* a trajectory table: the columns the stages read *)
Definition traj_cols (s : schema) : Prop :=
  has_col "frame" s = true /\ has_col "particle" s = true /\
  has_col "x" s = true /\ has_col "y" s = true /\ has_col "size" s = true.

Lemma traj_cols_same_cols s i : traj_cols s -> traj_cols {| idx := i; cols := cols s |}.
Proof. exact (fun H => H). Qed.

(* ---- pandas_sort removes the clash it is there to remove ---------------------------- *)
Lemma length_append a b : String.length (a ++ b) = String.length a + String.length b.
Proof. induction a; cbn; [reflexivity|now rewrite IHa]. Qed.

Lemma rename_frame_not_frame n : String.eqb (rename (ByStr "frame") n) "frame" = false.
Proof.
  apply String.eqb_neq. unfold rename. destruct (in_by n (ByStr "frame")) eqn:E.
  - intros H. apply (f_equal String.length) in H. rewrite length_append in H. cbn in H. lia.
  - intros ->. cbn in E. discriminate.
Qed.

Lemma renamed_has_no_frame_level i c :
  has_level "frame" {| idx := map (option_map (rename (ByStr "frame"))) i; cols := c |} = false.
Proof.
  unfold has_level. cbn [idx]. induction i as [|[n|] i IH]; cbn [map existsb option_map is_level].
  - reflexivity.
  - now rewrite rename_frame_not_frame, IH.
  - exact IH.
Qed.

Lemma pandas_sort_fixed b s :
  pandas_sort fixed b s =
  labels (by_keys b) {| idx := map (option_map (rename b)) (idx s); cols := cols s |}.
Proof.
  unfold pandas_sort. destruct (idx s) as [|[n|] [|o l]]; reflexivity.
Qed.

Lemma pandas_sort_frame s :
  has_col "frame" s = true ->
  pandas_sort fixed (ByStr "frame") s =
  Ok {| idx := map (option_map (rename (ByStr "frame"))) (idx s); cols := cols s |}.
Proof.
  intros H. rewrite pandas_sort_fixed. cbn [by_keys labels bind]. unfold label.
  change (has_col "frame" {| idx := map (option_map (rename (ByStr "frame"))) (idx s); cols := cols s |})
    with (has_col "frame" s).
  now rewrite H, renamed_has_no_frame_level.
Qed.

(* ---- what each producer does to the index names -------------------------------------- *)
Definition next_idx (p : producer) (i : list (option name)) : list (option name) :=
  match p with
  | PLink | PLinkPartial => map (option_map (rename (ByStr "frame"))) i
  | PFilterStubs | PFilterClusters => [Some "frame"]
  | PSubtractDrift => [Some "frame"; Some "particle"]
  end.

Lemma getitem_ok c s : has_col c s = true -> getitem c s = Ok s.
Proof. unfold getitem. now intros ->. Qed.

Lemma getitems_ok cs s : (forall c, In c cs -> has_col c s = true) -> getitems cs s = Ok s.
Proof.
  induction cs as [|c cs IH]; intros H; cbn [getitems]; [reflexivity|].
  rewrite getitem_ok by (apply H; now left). cbn [bind]. apply IH. intros; apply H; now right.
Qed.

Lemma label_ok c s : has_col c s = true -> has_level c s = false -> label c s = Ok s.
Proof. unfold label. now intros -> ->. Qed.

Ltac cols_facts H := destruct H as (Hf & Hp & Hx & Hy & Hs).
Ltac in_cols := let c := fresh in let Hc := fresh in
  intros c Hc; cbn in Hc; repeat (destruct Hc as [<-|Hc]; [assumption|]); contradiction.

Lemma compute_drift_accepts s : traj_cols s ->
  st_compute_drift fixed s = Ok {| idx := [Some "frame"]; cols := pos_columns |}.
Proof.
  intros H. cols_facts H.
  unfold st_compute_drift, select. cbn [drift_sorts_copy fixed].
  rewrite getitems_ok by in_cols. reflexivity.
Qed.

Lemma filter_tail s : traj_cols s ->
  reset_index_drop s >>= label "particle" >>= set_index ["frame"] =
  Ok {| idx := [Some "frame"]; cols := cols s |}.
Proof.
  intros H. cols_facts H. unfold reset_index_drop. cbn [bind].
  rewrite label_ok; [|exact Hp|reflexivity]. cbn [bind]. unfold set_index.
  rewrite getitems_ok by in_cols. reflexivity.
Qed.

Theorem producer_accepts p s : traj_cols s ->
  run_producer fixed p s = Ok {| idx := next_idx p (idx s); cols := cols s |}.
Proof.
  intros H. pose proof H as H0. cols_facts H.
  assert (Hadd : forall i, add_col "particle" {| idx := i; cols := cols s |} = Ok {| idx := i; cols := cols s |}).
  { intros i. unfold add_col.
    change (has_col "particle" {| idx := i; cols := cols s |}) with (has_col "particle" s).
    now rewrite Hp. }
  assert (Hlink : st_link fixed s = Ok {| idx := next_idx PLink (idx s); cols := cols s |}).
  { unfold st_link. rewrite getitems_ok by (unfold pos_columns; in_cols). cbn [bind].
    rewrite getitem_ok by exact Hf. cbn [bind].
    rewrite pandas_sort_frame by exact Hf. cbn [bind]. apply Hadd. }
  destruct p; cbn [run_producer next_idx].
  - exact Hlink.
  - exact Hlink.
  - unfold st_filter_stubs. rewrite (getitem_ok "frame") by exact Hf. cbn [bind].
    rewrite (getitem_ok "particle") by exact Hp. cbn [bind]. now apply filter_tail.
  - unfold st_filter_clusters. rewrite (getitem_ok "frame") by exact Hf. cbn [bind].
    rewrite (getitem_ok "particle") by exact Hp. cbn [bind].
    rewrite (getitem_ok "size") by exact Hs. cbn [bind]. now apply filter_tail.
  - unfold st_subtract_drift. rewrite compute_drift_accepts by exact H0. cbn [bind].
    rewrite Hp. unfold set_index. rewrite getitems_ok by in_cols. cbn [bind].
    change (has_level "frame" {| idx := map Some ["frame"; "particle"]; cols := cols s |}) with true.
    cbn iota. cbn [map].
    apply getitems_ok. unfold pos_columns. in_cols.
Qed.

Lemma msd_ok s : traj_cols s -> st_msd fixed s = Ok s.
Proof.
  intros H. cols_facts H. unfold st_msd. rewrite getitem_ok by exact Hf. cbn [bind].
  apply getitems_ok. in_cols.
Qed.

Lemma grouped_msd_ok s : traj_cols s ->
  reset_index_drop s >>= label "particle" >>= st_msd fixed = Ok {| idx := [None]; cols := cols s |}.
Proof.
  intros H. pose proof H as H0. cols_facts H. unfold reset_index_drop. cbn [bind].
  rewrite label_ok; [|exact Hp|reflexivity]. cbn [bind]. apply msd_ok. exact H0.
Qed.

Theorem consumer_accepts c s : traj_cols s -> exists s', run_consumer fixed c s = Ok s'.
Proof.
  intros H. pose proof H as H0. destruct c as [p| | | | | | |]; cbn [run_consumer].
  - eexists. now apply producer_accepts.
  - eexists. now apply compute_drift_accepts.
  - eexists. now apply msd_ok.
  - eexists. unfold st_imsd. cbn [imsd_resets fixed]. rewrite grouped_msd_ok by exact H. reflexivity.
  - eexists. unfold st_emsd. rewrite grouped_msd_ok by exact H. reflexivity.
  - cols_facts H. unfold st_cluster. cbn [cluster_by_values fixed].
    rewrite getitem_ok by exact Hf. cbn [bind].
    rewrite getitems_ok by (unfold pos_columns; in_cols). cbn [bind]. unfold add_col. cbn [bind].
    eexists. reflexivity.
  - cols_facts H. eexists. unfold st_proximity. apply getitems_ok. in_cols.
  - cols_facts H. eexists. unfold st_relate_frames. rewrite (getitem_ok "frame") by exact Hf. cbn [bind].
    rewrite (getitem_ok "particle") by exact Hp. cbn [bind]. apply getitems_ok. in_cols.
Qed.

(* ---- pipelines of any length ---------------------------------------------------------------- *)
Fixpoint pipeline_idx (ps : list producer) (i : list (option name)) : list (option name) :=
  match ps with [] => i | p :: ps' => pipeline_idx ps' (next_idx p i) end.

Theorem pipeline_runs ps : forall s, traj_cols s ->
  run_pipeline fixed ps s = Ok {| idx := pipeline_idx ps (idx s); cols := cols s |}.
Proof.
  induction ps as [|p ps IH]; intros s H; cbn [run_pipeline pipeline_idx].
  - now destruct s.
  - rewrite producer_accepts by exact H. cbn [bind].
    rewrite IH by (apply traj_cols_same_cols; exact H). reflexivity.
Qed.

Theorem compose ps s : traj_cols s ->
  exists s', run_pipeline fixed ps s = Ok s' /\ traj_cols s' /\ cols s' = cols s /\
             forall c, exists r, run_consumer fixed c s' = Ok r.
Proof.
  intros H. eexists. split; [now apply pipeline_runs|]. split; [exact H|]. split; [reflexivity|].
  intros c. apply consumer_accepts. exact H.
Qed.

(* ---- the reachable layouts ---------------------------------------------------------------------- *)
Definition reachable_layouts : list (list (option name)) :=
  [ [None]; [Some "frame"]; [Some "frame"; Some "particle"];
    [Some "frame_index"]; [Some "frame_index"; Some "particle"] ].

Lemma next_idx_reachable p i : In i reachable_layouts -> In (next_idx p i) reachable_layouts.
Proof.
  unfold reachable_layouts. intros H.
  repeat (destruct H as [<-|H]; [destruct p; vm_compute; tauto|]). destruct H.
Qed.

Theorem reachable ps : forall i, In i reachable_layouts -> In (pipeline_idx ps i) reachable_layouts.
Proof.
  induction ps as [|p ps IH]; intros i H; cbn [pipeline_idx]; [exact H|].
  apply IH, next_idx_reachable, H.
Qed.

Theorem reachable_from_default ps s s' :
  traj_cols s -> idx s = [None] -> run_pipeline fixed ps s = Ok s' ->
  In (idx s') reachable_layouts /\ cols s' = cols s.
Proof.
  intros H Hi R. rewrite pipeline_runs in R by exact H. injection R as <-. cbn [idx cols].
  split; [|reflexivity]. apply reachable. rewrite Hi. now left.
Qed.

(* every one of the five is reached (witness pipelines) *)
Theorem all_five_reached :
  map (fun ps => pipeline_idx ps [None])
      [ []; [PFilterStubs]; [PSubtractDrift]; [PFilterStubs; PLink]; [PSubtractDrift; PLink] ]
  = reachable_layouts.
Proof. reflexivity. Qed.

(* ---- the pinned code ---------------------------------------------------------------------------------- *)
Definition default_table : schema :=
  {| idx := [None]; cols := ["y"; "x"; "mass"; "size"; "frame"; "particle"] |}.

Definition pair_outcome (v : version) (pc : producer * consumer) : outcome :=
  run_producer v (fst pc) default_table >>= run_consumer v (snd pc).

Definition all_pairs : list (producer * consumer) :=
  flat_map (fun p => map (fun c => (p, c)) all_consumers) all_producers.

Definition is_ambiguous (o : outcome) : bool := match o with Ambiguous => true | _ => false end.

Definition f9_pairs : list (producer * consumer) :=
  [ (PFilterStubs, CCluster); (PFilterClusters, CCluster);
    (PSubtractDrift, CProd PLink); (PSubtractDrift, CProd PLinkPartial);
    (PSubtractDrift, CProd PSubtractDrift); (PSubtractDrift, CComputeDrift);
    (PSubtractDrift, CImsd); (PSubtractDrift, CCluster) ].

Theorem pinned_refuted :
  filter (fun pc => is_ambiguous (pair_outcome pinned pc)) all_pairs = f9_pairs.
Proof. vm_compute. reflexivity. Qed.

Theorem default_table_is_traj : traj_cols default_table.
Proof. repeat split. Qed.
