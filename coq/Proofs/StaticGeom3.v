(* 3-D edge correction, the regime in which only faces perpendicular to ONE
   coordinate axis are within reach of the sphere (no cap, one cap, or two
   opposite caps; in particular "the sphere crosses at most one face"):
   area_3d_bounded (hence, by Proofs/StaticGen.v, the generated
   py_area_3d_bounded) is the area of the part of the sphere inside the box,
   the area being measured in the axial (Archimedes / Lambert) parametrisation
   about that axis: has_axial_area, Model/StaticGeom3.v.

   Route: (1) for -r < t < r the slice of the sphere at height t along the axis
   is a circle of radius rho = sqrt(r^2 - t^2) <= r, which the four faces
   parallel to the axis (all at distance >= r) cannot reach: the slice is
   entirely inside the box when -lo <= t <= hi and entirely outside otherwise
   (lo, hi = distances of the two faces perpendicular to the axis); (2) so the
   slice measure is 2 PI or 0 and its integral times r is
   2 PI r (min lo r + min hi r); (3) in this regime every edge and corner mask
   of the code is off and the caps give the same number. *)
From Coq Require Import Reals Lra List.
From Coquelicot Require Import Coquelicot.
From TP Require Import Model.StaticGeom Model.StaticGeom2 Model.StaticGeom3 Gen.static_geom.
From TP Require Import Proofs.StaticGeom Proofs.StaticGeom2 Proofs.StaticGen.
Import ListNotations.
Open Scope R_scope.

(* ------------------------------------------------------------------ *)
(* the parametrisation                                                 *)
(* ------------------------------------------------------------------ *)
Lemma rho_bounds r t : 0 < r -> - r <= t <= r -> 0 <= sqrt (r * r - t * t) <= r.
Proof.
  intros Hr Ht. split; [apply sqrt_pos|].
  replace r with (sqrt (r * r)) at 3 by (apply sqrt_square; lra). apply sqrt_le_1_alt. nra.
Qed.

Lemma rho_sqr r t : - r <= t <= r -> sqrt (r * r - t * t) * sqrt (r * r - t * t) = r * r - t * t.
Proof. intros Ht. apply sqrt_sqrt. nra. Qed.

Lemma scaled_trig_bounds rho c r : 0 <= rho <= r -> -1 <= c <= 1 -> - r <= rho * c <= r.
Proof. intros. nra. Qed.

(* the parametrised points are on the sphere *)
Theorem sphere_pt_on_sphere ax r phi t :
  - r <= t <= r ->
  let p := sphere_pt ax r phi t in
  fst (fst p) * fst (fst p) + snd (fst p) * snd (fst p) + snd p * snd p = r * r.
Proof.
  intros Ht. pose proof (rho_sqr r t Ht) as Q. pose proof (sin2_cos2 phi) as SC. unfold Rsqr in SC.
  set (rho := sqrt (r * r - t * t)) in *.
  destruct ax; cbn [sphere_pt fst snd]; fold rho.
  - replace (t * t + rho * cos phi * (rho * cos phi) + rho * sin phi * (rho * sin phi))
      with (t * t + rho * rho * (sin phi * sin phi + cos phi * cos phi)) by ring.
    rewrite SC, Q. ring.
  - replace (rho * sin phi * (rho * sin phi) + t * t + rho * cos phi * (rho * cos phi))
      with (t * t + rho * rho * (sin phi * sin phi + cos phi * cos phi)) by ring.
    rewrite SC, Q. ring.
  - replace (rho * cos phi * (rho * cos phi) + rho * sin phi * (rho * sin phi) + t * t)
      with (t * t + rho * rho * (sin phi * sin phi + cos phi * cos phi)) by ring.
    rewrite SC, Q. ring.
Qed.

Lemma Forall4 (P : R -> Prop) a b c d : List.Forall P [a; b; c; d] -> P a /\ P b /\ P c /\ P d.
Proof.
  intros F. inversion_clear F as [|? ? F1 G]. inversion_clear G as [|? ? F2 H].
  inversion_clear H as [|? ? F3 I]. inversion_clear I as [|? ? F4 _]. tauto.
Qed.

(* ------------------------------------------------------------------ *)
(* (1) slices                                                          *)
(* ------------------------------------------------------------------ *)
Lemma slice_inside_iff ax r cx cy cz x0 x1 y0 y1 z0 z1 phi t :
  0 < r -> - r < t < r ->
  List.Forall (fun h => r <= h) (across ax (cx - x0) (x1 - cx) (cy - y0) (y1 - cy) (cz - z0) (z1 - cz)) ->
  (in_box3 x0 x1 y0 y1 z0 z1 (shift3 cx cy cz (sphere_pt ax r phi t))
   <-> - fst (along ax (cx - x0) (x1 - cx) (cy - y0) (y1 - cy) (cz - z0) (z1 - cz)) <= t
       <= snd (along ax (cx - x0) (x1 - cx) (cy - y0) (y1 - cy) (cz - z0) (z1 - cz))).
Proof.
  intros Hr Ht F.
  assert (Hrho : 0 <= sqrt (r * r - t * t) <= r) by (apply rho_bounds; lra).
  pose proof (scaled_trig_bounds _ (cos phi) r Hrho (COS_bound phi)) as C.
  pose proof (scaled_trig_bounds _ (sin phi) r Hrho (SIN_bound phi)) as S.
  set (rho := sqrt (r * r - t * t)) in *.
  destruct ax; cbn [across] in F; apply Forall4 in F; destruct F as (F1 & F2 & F3 & F4);
    unfold in_box3, shift3; cbn [sphere_pt along fst snd]; fold rho; lra.
Qed.

Lemma full_circle_measure (P : R -> Prop) : (forall phi, P phi) -> has_arc_measure P (2 * PI).
Proof.
  intros H. pose proof PI_RGT_0 as Hpi. exists [(- PI, PI)]. split; [|split].
  - cbn. split; [lra|]. unfold Rmax. destruct (Rle_dec (- PI) PI); lra.
  - intros theta Ht. cbn. split; [intros _; left; lra|intros _; apply H].
  - cbn. unfold Rmax. destruct (Rle_dec 0 (PI - - PI)); lra.
Qed.

Lemma empty_measure (P : R -> Prop) : (forall phi, ~ P phi) -> has_arc_measure P 0.
Proof.
  intros H. pose proof PI_RGT_0 as Hpi. exists []. split; [|split].
  - cbn. lra.
  - intros theta Ht. cbn. split; [apply H|tauto].
  - reflexivity.
Qed.

(* measure of the slice at height t of a slab  -lo <= t <= hi *)
Definition slab_measure (lo hi t : R) : R :=
  if Rle_dec (- lo) t then if Rle_dec t hi then 2 * PI else 0 else 0.

(* ------------------------------------------------------------------ *)
(* (2) the integral                                                    *)
(* ------------------------------------------------------------------ *)
Lemma slab_integral r lo hi :
  0 < r -> 0 <= lo -> 0 <= hi ->
  is_RInt (fun t => r * slab_measure lo hi t) (- r) r (2 * PI * r * (Rmin lo r + Rmin hi r)).
Proof.
  intros Hr Hlo Hhi.
  set (l := Rmin lo r). set (h := Rmin hi r).
  assert (Hl : 0 <= l <= r) by (unfold l, Rmin; destruct (Rle_dec lo r); lra).
  assert (Hh : 0 <= h <= r) by (unfold h, Rmin; destruct (Rle_dec hi r); lra).
  assert (I1 : is_RInt (fun t => r * slab_measure lo hi t) (- r) (- l) ((- l - - r) * 0)).
  { apply is_RInt_const_on; [lra|]. intros x Hx. unfold slab_measure.
    destruct (Rle_dec (- lo) x) as [A|A]; [|ring]. exfalso.
    unfold l, Rmin in Hx. destruct (Rle_dec lo r); lra. }
  assert (I2 : is_RInt (fun t => r * slab_measure lo hi t) (- l) h ((h - - l) * (r * (2 * PI)))).
  { apply is_RInt_const_on; [lra|]. intros x Hx. unfold slab_measure.
    unfold l, h, Rmin in Hx.
    destruct (Rle_dec (- lo) x) as [A|A]; [destruct (Rle_dec x hi) as [B|B]; [reflexivity|]|]; exfalso;
      destruct (Rle_dec lo r), (Rle_dec hi r); lra. }
  assert (I3 : is_RInt (fun t => r * slab_measure lo hi t) h r ((r - h) * 0)).
  { apply is_RInt_const_on; [lra|]. intros x Hx. unfold slab_measure.
    destruct (Rle_dec (- lo) x) as [A|A]; [destruct (Rle_dec x hi) as [B|B]|]; try ring. exfalso.
    unfold h, Rmin in Hx. destruct (Rle_dec hi r); lra. }
  apply is_RInt_val with (plus (plus ((- l - - r) * 0) ((h - - l) * (r * (2 * PI)))) ((r - h) * 0)).
  - exact (is_RInt_Chasles (V := R_NormedModule) _ (- r) h r _ _
             (is_RInt_Chasles (V := R_NormedModule) _ (- r) (- l) h _ _ I1 I2) I3).
  - unfold plus; simpl. ring.
Qed.

(* ------------------------------------------------------------------ *)
(* (3) the code's expression in this regime                            *)
(* ------------------------------------------------------------------ *)
Lemma sq_ge r h : 0 < r -> r <= h -> r * r <= h * h.
Proof. intros. nra. Qed.

Lemma scap_far h r : r <= h -> scap_term h r = 0.
Proof. intros H. unfold scap_term. destruct (Rlt_dec h r); [lra|reflexivity]. Qed.

Lemma scap_min h r : scap_term h r = 2 * PI * r * (r - Rmin h r).
Proof.
  unfold scap_term, sphere_cap_area, Rmin.
  destruct (Rlt_dec h r), (Rle_dec h r); try lra; try ring.
  assert (h = r) by lra. subst. ring.
Qed.

Lemma sedge_far h1 h2 r : 0 < r -> r <= h1 \/ r <= h2 -> sedge_term h1 h2 r = 0.
Proof.
  intros Hr H. unfold sedge_term. destruct (Rlt_dec _ _) as [L|L]; [exfalso|reflexivity].
  pose proof (Rle_0_sqr h1) as A. pose proof (Rle_0_sqr h2) as B. unfold Rsqr in A, B.
  destruct H as [H|H]; pose proof (sq_ge r _ Hr H); lra.
Qed.

Lemma scorner_far h1 h2 h3 r : 0 < r -> r <= h1 \/ r <= h2 \/ r <= h3 -> scorner_term h1 h2 h3 r = 0.
Proof.
  intros Hr H. unfold scorner_term. destruct (Rlt_dec _ _) as [L|L]; [exfalso|reflexivity].
  pose proof (Rle_0_sqr h1) as A. pose proof (Rle_0_sqr h2) as B. pose proof (Rle_0_sqr h3) as C.
  unfold Rsqr in A, B, C.
  destruct H as [H|[H|H]]; pose proof (sq_ge r _ Hr H); lra.
Qed.

Lemma area_3d_one_axis ax r xm xp ym yp zm zp :
  0 < r ->
  List.Forall (fun h => r <= h) (across ax xm xp ym yp zm zp) ->
  area_3d r xm xp ym yp zm zp
  = 2 * PI * r * (Rmin (fst (along ax xm xp ym yp zm zp)) r + Rmin (snd (along ax xm xp ym yp zm zp)) r).
Proof.
  intros Hr F. unfold area_3d.
  destruct ax; cbn [across along fst snd] in *; apply Forall4 in F; destruct F as (F1 & F2 & F3 & F4);
    rewrite ?sedge_far by (auto; tauto); rewrite ?scorner_far by (auto; tauto).
  - rewrite (scap_far ym), (scap_far yp), (scap_far zm), (scap_far zp) by assumption.
    rewrite (scap_min xm), (scap_min xp). ring.
  - rewrite (scap_far xm), (scap_far xp), (scap_far zm), (scap_far zp) by assumption.
    rewrite (scap_min ym), (scap_min yp). ring.
  - rewrite (scap_far xm), (scap_far xp), (scap_far ym), (scap_far yp) by assumption.
    rewrite (scap_min zm), (scap_min zp). ring.
Qed.

(* ------------------------------------------------------------------ *)
(* main theorem                                                        *)
(* ------------------------------------------------------------------ *)
Theorem area_3d_bounded_one_axis ax r cx cy cz x0 x1 y0 y1 z0 z1 :
  0 < r -> in_box3 x0 x1 y0 y1 z0 z1 (cx, cy, cz) ->
  List.Forall (fun h => r <= h) (across ax (cx - x0) (x1 - cx) (cy - y0) (y1 - cy) (cz - z0) (z1 - cz)) ->
  has_axial_area ax r (fun p => in_box3 x0 x1 y0 y1 z0 z1 (shift3 cx cy cz p))
                 (area_3d_bounded r cx cy cz x0 x1 y0 y1 z0 z1).
Proof.
  intros Hr B F. unfold area_3d_bounded. rewrite (area_3d_one_axis ax) by assumption.
  set (lo := fst (along ax (cx - x0) (x1 - cx) (cy - y0) (y1 - cy) (cz - z0) (z1 - cz))).
  set (hi := snd (along ax (cx - x0) (x1 - cx) (cy - y0) (y1 - cy) (cz - z0) (z1 - cz))).
  assert (Hlohi : 0 <= lo /\ 0 <= hi).
  { unfold lo, hi, in_box3 in *. cbn [fst snd] in B. destruct ax; cbn [along fst snd]; lra. }
  exists (slab_measure lo hi). split.
  - intros t Ht. unfold slab_measure.
    destruct (Rle_dec (- lo) t) as [A|A]; [destruct (Rle_dec t hi) as [A'|A']|].
    + apply full_circle_measure. intros phi. apply (slice_inside_iff ax); auto.
    + apply empty_measure. intros phi I. apply (slice_inside_iff ax) in I; auto. fold hi in I. lra.
    + apply empty_measure. intros phi I. apply (slice_inside_iff ax) in I; auto. fold lo in I. lra.
  - apply slab_integral; tauto.
Qed.

(* the same about the generated function, with its NaN mask *)
Theorem gen_area_3d_bounded_one_axis ax r cx cy cz x0 x1 y0 y1 z0 z1 :
  0 < r -> in_box3 x0 x1 y0 y1 z0 z1 (cx, cy, cz) ->
  List.Forall (fun h => r <= h) (across ax (cx - x0) (x1 - cx) (cy - y0) (y1 - cy) (cz - z0) (z1 - cz)) ->
  exists a,
    has_axial_area ax r (fun p => in_box3 x0 x1 y0 y1 z0 z1 (shift3 cx cy cz p)) a /\
    py_area_3d_bounded r cx cy cz x0 x1 y0 y1 z0 z1 = nan_below (/ (10 ^ 7) * r ^ 2) a.
Proof.
  intros Hr B F. exists (area_3d_bounded r cx cy cz x0 x1 y0 y1 z0 z1). split.
  - apply area_3d_bounded_one_axis; auto.
  - apply gen_area_3d_bounded_is_model.
Qed.

(* the axial area is well defined: at most one value per axis and set *)
Theorem axial_area_unique ax r (S : R * R * R -> Prop) a a' :
  0 < r -> has_axial_area ax r S a -> has_axial_area ax r S a' -> a = a'.
Proof.
  intros Hr (m & M & I) (m' & M' & I').
  assert (E : is_RInt (fun t => r * m' t) (- r) r a).
  { apply is_RInt_ext with (f := fun t => r * m t); [|exact I].
    intros t Ht. rewrite Rmin_left, Rmax_right in Ht by lra.
    f_equal. apply (arc_measure_unique _ _ _ (M t Ht) (M' t Ht)). }
  rewrite <- (is_RInt_unique _ _ _ _ E), <- (is_RInt_unique _ _ _ _ I'). reflexivity.
Qed.

(* instances: no face within reach -> the whole sphere, 4 PI r^2, along every
   axis; centre on one face, the others far -> the half sphere *)
Theorem whole_sphere_area ax r : 0 < r -> has_axial_area ax r (fun _ => True) (4 * PI * (r * r)).
Proof.
  intros Hr. exists (fun _ => 2 * PI). split.
  - intros t _. apply full_circle_measure. auto.
  - apply is_RInt_val with ((r - - r) * (r * (2 * PI))); [|ring].
    apply is_RInt_const_on; [lra|]. reflexivity.
Qed.

Theorem area_3d_no_wall r xm xp ym yp zm zp :
  0 < r -> r <= xm -> r <= xp -> r <= ym -> r <= yp -> r <= zm -> r <= zp ->
  area_3d r xm xp ym yp zm zp = 4 * PI * (r * r).
Proof.
  intros Hr A1 A2 A3 A4 A5 A6. rewrite (area_3d_one_axis AZ); [|assumption|cbn; repeat (apply Forall_cons; [assumption|]); apply Forall_nil].
  cbn [along fst snd]. rewrite !Rmin_right by assumption. ring.
Qed.

Theorem area_3d_on_face r big :
  0 < r -> r <= big -> area_3d r big big big big 0 big = 2 * PI * (r * r).
Proof.
  intros Hr A. rewrite (area_3d_one_axis AZ); [|assumption|cbn; repeat (apply Forall_cons; [assumption|]); apply Forall_nil].
  cbn [along fst snd]. rewrite (Rmin_left 0 r), (Rmin_right big r) by lra. ring.
Qed.

Theorem area_3d_single_cap_example :
  List.Forall (fun h => 2 <= h) (across AZ (5 - 0) (10 - 5) (5 - 0) (10 - 5) (5 - 0) (6 - 5)) /\
  area_3d 2 5 5 5 5 5 1 = 2 * PI * 2 * (2 + 1).
Proof.
  split.
  - cbn. repeat (apply Forall_cons; [lra|]). apply Forall_nil.
  - rewrite (area_3d_one_axis AZ); [|lra|cbn; repeat (apply Forall_cons; [lra|]); apply Forall_nil].
    cbn [along fst snd]. rewrite (Rmin_right 5 2), (Rmin_left 1 2) by lra. ring.
Qed.

(* ------------------------------------------------------------------ *)
(* the area element of the axial parametrisation                       *)
(* ------------------------------------------------------------------ *)
(* For -r < t < r the partial derivatives of sphere_pt in phi and t exist and
   their cross product has norm r (squared: r^2): the surface element of the
   parametrisation (phi, t) |-> sphere_pt ax r phi t is  r dphi dt  (Archimedes'
   hat-box theorem in differential form). *)
Lemma rho_derive r t : - r < t < r -> 0 < r ->
  is_derive (fun s => sqrt (r * r - s * s)) t (- t / sqrt (r * r - t * t)).
Proof.
  intros Ht Hr. assert (P : 0 < r * r - t * t) by nra.
  auto_derive; [lra|].
  replace (r * r + - (t * t)) with (r * r - t * t) by ring.
  field. apply Rgt_not_eq. apply sqrt_lt_R0. exact P.
Qed.

Lemma derive_mul_const (f : R -> R) x l c : is_derive f x l -> is_derive (fun s => f s * c) x (l * c).
Proof.
  intros D. apply (is_derive_ext (fun s => c * f s)); [intros s; apply Rmult_comm|].
  rewrite (Rmult_comm l c). apply is_derive_scal. exact D.
Qed.

Theorem axial_area_element ax r phi t :
  0 < r -> - r < t < r ->
  exists dphi dt : R * R * R,
    (is_derive (fun s => X3 (sphere_pt ax r s t)) phi (X3 dphi) /\
     is_derive (fun s => Y3 (sphere_pt ax r s t)) phi (Y3 dphi) /\
     is_derive (fun s => Z3 (sphere_pt ax r s t)) phi (Z3 dphi)) /\
    (is_derive (fun s => X3 (sphere_pt ax r phi s)) t (X3 dt) /\
     is_derive (fun s => Y3 (sphere_pt ax r phi s)) t (Y3 dt) /\
     is_derive (fun s => Z3 (sphere_pt ax r phi s)) t (Z3 dt)) /\
    norm2 (cross3 dphi dt) = r * r.
Proof.
  intros Hr Ht. assert (P : 0 < r * r - t * t) by nra.
  pose proof (sqrt_lt_R0 _ P) as Hrho. pose proof (sqrt_sqrt (r * r - t * t) (Rlt_le _ _ P)) as Q.
  pose proof (sin2_cos2 phi) as SC. unfold Rsqr in SC.
  pose proof (rho_derive r t Ht Hr) as D.
  set (rho := sqrt (r * r - t * t)) in *. set (rho' := - t / rho) in *.
  assert (E : rho * rho' = - t) by (unfold rho'; field; lra).
  destruct ax.
  - exists (0, - (rho * sin phi), rho * cos phi), (1, rho' * cos phi, rho' * sin phi).
    unfold X3, Y3, Z3, sphere_pt; cbn [fst snd]; fold rho.
    split; [split; [|split]|split; [split; [|split]|]].
    + auto_derive; auto; ring.
    + auto_derive; auto; ring.
    + auto_derive; auto; ring.
    + auto_derive; auto; ring.
    + apply derive_mul_const, D.
    + apply derive_mul_const, D.
    + unfold norm2, cross3, X3, Y3, Z3; cbn [fst snd].
      replace (_ + _ + _) with ((rho * rho') * (rho * rho') * (sin phi * sin phi + cos phi * cos phi) * (sin phi * sin phi + cos phi * cos phi)
                                + rho * rho * (sin phi * sin phi + cos phi * cos phi)) by ring.
      rewrite E, SC, Q. ring.
  - exists (rho * cos phi, 0, - (rho * sin phi)), (rho' * sin phi, 1, rho' * cos phi).
    unfold X3, Y3, Z3, sphere_pt; cbn [fst snd]; fold rho.
    split; [split; [|split]|split; [split; [|split]|]].
    + auto_derive; auto; ring.
    + auto_derive; auto; ring.
    + auto_derive; auto; ring.
    + apply derive_mul_const, D.
    + auto_derive; auto; ring.
    + apply derive_mul_const, D.
    + unfold norm2, cross3, X3, Y3, Z3; cbn [fst snd].
      replace (_ + _ + _) with ((rho * rho') * (rho * rho') * (sin phi * sin phi + cos phi * cos phi) * (sin phi * sin phi + cos phi * cos phi)
                                + rho * rho * (sin phi * sin phi + cos phi * cos phi)) by ring.
      rewrite E, SC, Q. ring.
  - exists (- (rho * sin phi), rho * cos phi, 0), (rho' * cos phi, rho' * sin phi, 1).
    unfold X3, Y3, Z3, sphere_pt; cbn [fst snd]; fold rho.
    split; [split; [|split]|split; [split; [|split]|]].
    + auto_derive; auto; ring.
    + auto_derive; auto; ring.
    + auto_derive; auto; ring.
    + apply derive_mul_const, D.
    + apply derive_mul_const, D.
    + auto_derive; auto; ring.
    + unfold norm2, cross3, X3, Y3, Z3; cbn [fst snd].
      replace (_ + _ + _) with ((rho * rho') * (rho * rho') * (sin phi * sin phi + cos phi * cos phi) * (sin phi * sin phi + cos phi * cos phi)
                                + rho * rho * (sin phi * sin phi + cos phi * cos phi)) by ring.
      rewrite E, SC, Q. ring.
Qed.
