(* C20, route T: compute_drift / subtract_drift as GENERATED from trackpy/motion.py (Gen/drift.v,
   tools/py2coq_drift.py -- C18's translation) take part in C20's composition theorems.

   Gen/drift.v is polymorphic in the pandas interface of Model/PyDrift.v; Model/PyDriftSchema.v reads
   that interface on layouts (SchemaDI: index-level names + column labels, exceptions propagated, and
   p_pandas_sort := the generated pandas_sort of Gen/filtering.v).  Proved here, for EVERY schema s:
     gen_drift_compute_schema    py_compute_drift SchemaDI s = st_compute_drift3 fixed s (Model/TrajLayout3.v:
                                 the z-aware layout model), whatever `smoothing`;
     gen_drift_subtract_schema   when compute_drift accepts s, py_subtract_drift returns the model's table,
                                 and the caller's table is s itself unless inplace;
   then the pipeline stages of Proofs/TrajGen.v with the two drift stages REPLACED by Gen/drift.v's
   functions (x_run_producer / x_run_consumer / x_run_pipeline: link via the generated pandas_sort /
   guess_pos_columns, the filters = Gen/filtering.v, compute_drift / subtract_drift = Gen/drift.v)
   equal the z-aware model stage by stage and compose for every trajectory table, with or without z. *)
From Coq Require Import ZArith QArith String List Bool Lia.
From TP Require Import Model.TrajFilter Model.TrajLayout Model.TrajLayout3 Model.TrajData Model.PyFiltering
                       Gen.filtering Model.PyDriftSchema
                       Proofs.TrajFilter Proofs.TrajLayout Proofs.TrajData Proofs.TrajGen Proofs.TrajGen3.
From TP Require Model.PyDrift Gen.drift.
Import ListNotations.
Local Open Scope string_scope.

Lemma gen_drift_guess s : drift.py_guess_pos_columns SchemaDI (ROk s) = guess_pos s.
Proof. unfold drift.py_guess_pos_columns, guess_pos. cbn [SchemaDI PyDrift.p_has_column]. now destruct (has_col "z" s). Qed.

Ltac drift_step :=
  cbn [SchemaDI PyDrift.DataFrame PyDrift.DiffFrame PyDrift.DGroupBy PyDrift.Curve PyDrift.ISeries PyDrift.Mask
       PyDrift.PSeries PyDrift.CSeries PyDrift.p_has_column PyDrift.p_select PyDrift.p_reset_index_drop
       PyDrift.p_pandas_sort PyDrift.p_getitem_int PyDrift.p_diff PyDrift.p_rename_column PyDrift.p_setitem_int
       PyDrift.p_diff_getitem PyDrift.p_eq_int PyDrift.p_mask_and PyDrift.p_loc PyDrift.p_groupby PyDrift.p_gb_mean
       PyDrift.p_rolling_mean PyDrift.p_cumsum PyDrift.p_copy PyDrift.p_set_index_keep PyDrift.p_sort_index_level
       PyDrift.p_columns PyDrift.p_getitem PyDrift.p_curve_getitem PyDrift.p_sub_fill0_level PyDrift.p_setitem
       rbind].

Theorem gen_drift_compute_schema s n :
  drift.py_compute_drift SchemaDI (ROk s) n None = of_outcome (st_compute_drift3 fixed s).
Proof.
  unfold drift.py_compute_drift, st_compute_drift3. cbn [drift_sorts_copy fixed].
  rewrite gen_drift_guess. unfold guess_pos.
  destruct (has_col "z" s); cbn [app]; drift_step; unfold select;
    (destruct (getitems _ s) as [s'| |]; [|destruct (n >? 0)%Z; reflexivity..]);
    destruct (n >? 0)%Z; vm_compute; reflexivity.
Qed.

Lemma compute_drift3_ok_inv s d : st_compute_drift3 fixed s = Ok d -> d = {| idx := [Some "frame"]; cols := guess_pos s |}.
Proof.
  unfold st_compute_drift3. intros H.
  apply bind_ok in H as (fs & _ & H). apply bind_const_ok in H. exact H.
Qed.

(* the loop `for col in drift.columns: traj[col] = traj[col].sub(drift[col], level='frame')` *)
Definition sub_step (is_caller : bool) (drift_ : rschema) : rschema * rschema -> name -> rschema * rschema :=
  fun '(traj, traj_caller) col =>
  let traj := PyDrift.p_setitem SchemaDI traj col
                (PyDrift.p_sub_fill0_level SchemaDI (PyDrift.p_getitem SchemaDI traj col)
                                           (PyDrift.p_curve_getitem SchemaDI drift_ col) "frame") in
  let traj_caller := if is_caller then traj else traj_caller in
  (traj, traj_caller).

Lemma sub_loop b d : forall cs T C,
  (forall c, In c cs -> has_col c d = true) -> (b = true -> C = T) ->
  fold_left (sub_step b (ROk d)) cs (T, C) =
  (rbind T (fun t => of_outcome (getitems cs t)), if b then rbind T (fun t => of_outcome (getitems cs t)) else C).
Proof.
  induction cs as [|c cs IH]; intros T C Hd HC.
  - cbn [fold_left getitems of_outcome]. assert (E : rbind T (fun t => ROk t) = T) by now destruct T.
    rewrite E. destruct b; [now rewrite HC|reflexivity].
  - cbn [fold_left]. unfold sub_step at 2. drift_step. unfold col_check. drift_step.
    rewrite (Hd c) by now left. rewrite IH; [|intros; apply Hd; now right|now destruct b].
    destruct T as [t|e]; cbn [rbind]; [|now destruct b].
    cbn [getitems]. unfold getitem, add_col. destruct (has_col c t) eqn:E; cbn [rbind bind of_outcome].
    + now destruct b.
    + now destruct b.
Qed.

Lemma has_own_cols (d : schema) : forall c, In c (cols d) -> has_col c d = true.
Proof.
  intros c Hc. unfold has_col. apply existsb_exists. exists c. split; [exact Hc|apply String.eqb_refl].
Qed.

Theorem gen_drift_subtract_schema s inplace d :
  st_compute_drift3 fixed s = Ok d ->
  drift.py_subtract_drift SchemaDI (ROk s) None inplace =
  let r := of_outcome ((if has_col "particle" s then TrajLayout.set_index ["frame"; "particle"] s
                        else TrajLayout.set_index ["frame"] s)
                       >>= fun t => if has_level "frame" t then getitems (cols d) t else Missing) in
  (if inplace then r else ROk s, r).
Proof.
  intros Hd. unfold drift.py_subtract_drift. rewrite gen_drift_compute_schema, Hd. cbn [of_outcome].
  destruct inplace; cbn [negb]; drift_step.
  - destruct (has_col "particle" s); cbv beta iota zeta;
      (match goal with |- context [fold_left ?f ?cs ?st] => change f with (sub_step true (ROk d)) end);
      (rewrite sub_loop; [|apply has_own_cols|reflexivity]);
      (match goal with |- context [of_outcome ?o] => destruct o as [t| |] end); cbn [of_outcome rbind bind]; try reflexivity;
      destruct (has_level "frame" t); reflexivity.
  - destruct (has_col "particle" s); cbv beta iota zeta;
      (match goal with |- context [fold_left ?f ?cs ?st] => change f with (sub_step false (ROk d)) end);
      (rewrite sub_loop; [|apply has_own_cols|discriminate]);
      (match goal with |- context [of_outcome ?o] => destruct o as [t| |] end); cbn [of_outcome rbind bind]; try reflexivity;
      destruct (has_level "frame" t); reflexivity.
Qed.

(* =====================================================================================
   the pipeline of generated stages, the drift stages taken from Gen/drift.v
   ===================================================================================== *)
Section XStages.
  Variable a : filter_args.

  (* tp.compute_drift(t): smoothing=0, pos_columns=None *)
  Definition x_compute_drift (s : schema) : res schema := drift.py_compute_drift SchemaDI (ROk s) 0 None.
  (* tp.subtract_drift(t): drift=None, inplace=False; the value returned.  Gen/drift.v has no exception
     monad: `drift = compute_drift(traj)` raising ends the call, which is the rbind written here *)
  Definition x_subtract_drift (s : schema) : res schema :=
    rbind (x_compute_drift s) (fun _ => snd (drift.py_subtract_drift SchemaDI (ROk s) None false)).

  Definition x_run_producer (p : producer) (s : schema) : res schema :=
    match p with
    | PLink | PLinkPartial => g_link s
    | PFilterStubs => py_filter_stubs SchemaI s (a_stub_threshold a)
    | PFilterClusters => py_filter_clusters SchemaI s (a_quantile a) (a_cluster_threshold a)
    | PSubtractDrift => x_subtract_drift s
    end.
  Definition x_run_consumer (c : consumer) (s : schema) : res schema :=
    match c with
    | CProd p => x_run_producer p s
    | CComputeDrift => x_compute_drift s
    | CCluster => g_cluster s
    | c => of_outcome (run_consumer fixed c s)
    end.
  Fixpoint x_run_pipeline (ps : list producer) (s : schema) : res schema :=
    match ps with
    | [] => ROk s
    | p :: ps' => rbind (x_run_producer p s) (x_run_pipeline ps')
    end.

  Lemma x_compute_drift_eq s : x_compute_drift s = of_outcome (st_compute_drift3 fixed s).
  Proof. unfold x_compute_drift. exact (gen_drift_compute_schema s 0). Qed.

  Lemma x_subtract_drift_eq s : x_subtract_drift s = of_outcome (st_subtract_drift3 fixed s).
  Proof.
    unfold x_subtract_drift, st_subtract_drift3. rewrite x_compute_drift_eq.
    destruct (st_compute_drift3 fixed s) as [d| |] eqn:E; cbn [of_outcome rbind bind]; try reflexivity.
    rewrite (gen_drift_subtract_schema s false d E). reflexivity.
  Qed.

  Theorem x_run_producer_eq p s : to_outcome (x_run_producer p s) = Some (run_producer3 fixed p s).
  Proof.
    destruct p; cbn [x_run_producer run_producer3].
    - rewrite g_link_eq3. apply to_of_outcome.
    - rewrite g_link_eq3. apply to_of_outcome.
    - apply gen_filter_stubs_schema.
    - apply gen_filter_clusters_schema.
    - rewrite x_subtract_drift_eq. apply to_of_outcome.
  Qed.

  Theorem x_run_consumer_eq c s : to_outcome (x_run_consumer c s) = Some (run_consumer3 fixed c s).
  Proof.
    destruct c as [p| | | | | | |]; cbn [x_run_consumer run_consumer3]; try apply to_of_outcome.
    - apply x_run_producer_eq.
    - rewrite x_compute_drift_eq. apply to_of_outcome.
  Qed.

  Lemma x_producer_accepts p s : traj_cols s ->
    x_run_producer p s = ROk {| idx := next_idx p (idx s); cols := cols s |}.
  Proof. intros H. apply to_outcome_ok. rewrite x_run_producer_eq. now rewrite producer_accepts3. Qed.

  Theorem x_pipeline_runs ps : forall s, traj_cols s ->
    x_run_pipeline ps s = ROk {| idx := pipeline_idx ps (idx s); cols := cols s |}.
  Proof.
    induction ps as [|p ps IH]; intros s H; cbn [x_run_pipeline pipeline_idx].
    - now destruct s.
    - rewrite x_producer_accepts by assumption. cbn [rbind]. rewrite IH by assumption. reflexivity.
  Qed.

  Theorem x_compose ps s : traj_cols s ->
    exists s', x_run_pipeline ps s = ROk s' /\ traj_cols s' /\ cols s' = cols s /\
               forall c, exists r, x_run_consumer c s' = ROk r.
  Proof.
    intros H. eexists. split; [now apply x_pipeline_runs|]. split; [exact H|]. split; [reflexivity|].
    intros c. destruct (consumer_accepts3 c {| idx := pipeline_idx ps (idx s); cols := cols s |} H) as (r & Hr).
    exists r. apply to_outcome_ok. rewrite x_run_consumer_eq. now rewrite Hr.
  Qed.

  (* the two families of stages are the same functions of the layout *)
  Theorem x_pipeline_is_g_pipeline ps s : traj_cols s -> x_run_pipeline ps s = g_run_pipeline a ps s.
  Proof. intros H. now rewrite x_pipeline_runs, g_pipeline_runs3. Qed.
End XStages.

(* what the generated compute_drift / subtract_drift do to a trajectory table, spelled out *)
Theorem gen_drift_on_traj_table s : traj_cols s ->
  (forall n, drift.py_compute_drift SchemaDI (ROk s) n None
             = ROk {| idx := [Some "frame"]; cols := if has_col "z" s then ["z"; "y"; "x"] else ["y"; "x"] |}) /\
  (forall inplace,
     drift.py_subtract_drift SchemaDI (ROk s) None inplace =
     let r := ROk {| idx := [Some "frame"; Some "particle"]; cols := cols s |} in
     (if inplace then r else ROk s, r)).
Proof.
  intros H. pose proof (compute_drift_accepts3 s H) as E. split.
  - intros n. rewrite gen_drift_compute_schema, E. unfold guess_pos. now destruct (has_col "z" s).
  - intros inplace. rewrite (gen_drift_subtract_schema s inplace _ E).
    pose proof (producer_accepts3 PSubtractDrift s H) as P. cbn [run_producer3 next_idx] in P.
    unfold st_subtract_drift3 in P. rewrite E in P. cbn [bind] in P. cbv zeta. now rewrite P.
Qed.
