(* C20, route T: the link stage as GENERATED from trackpy/linking/linking.py (Gen/coords.v py_link,
   tools/py2coq_coords.py -- C01's translation) in C20's composition.

   Gen/coords.v's tables (Model/PyCoords.v DataFrame) carry column labels, the labels of the columns
   whose dtype is not an integer type, and rows; they carry no index (pandas_sort is the primitive
   pandas_sort_inplace there; its index renaming is Gen/filtering.v's py_pandas_sort, which is what
   the layout stage g_link of Proofs/TrajGen.v calls).  Proved here, for EVERY Linker interface L
   (so for every search_range / memory / strategy) and every table f, pos_columns=None:

     py_link_layout     whenever the generated link returns a table g, g has f's columns plus
                        'particle' (appended when new), 'frame' and 'particle' are integer-typed in g
                        and every other column keeps its dtype class, and f had 'frame' and every
                        position column guess_pos_columns names (z, y, x when f has z);
     py_link_schema     hence for any index i the z-aware layout model's link stage accepts the table
                        (i, f's columns) and returns g's columns (and Gen/filtering.v's renaming of i);
     py_link_refuses    a table lacking 'frame' or a guessed position column is refused with KeyError,
                        exactly when the layout model says Missing;
     py_link_accepts    conversely (Model/Link.v's linker, a non-empty table): when the layout model
                        accepts, the generated link returns such a g or raises SubnetOversizeException
                        -- never a layout error. *)
From Coq Require Import String ZArith List Bool Lia.
From TP Require Import Model.Assign Model.Link Model.LinkTable Model.PyCoords Gen.coords Proofs.Cands Proofs.CoordsGen.
From TP Require Model.TrajLayout Model.TrajLayout3 Proofs.TrajLayout.
Import ListNotations.
Local Open Scope string_scope.

Definition add_particle (cols : list string) : list string :=
  if mem_str "particle" cols then cols else cols ++ ["particle"].
Definition not_label (c c' : string) : bool := negb (String.eqb c' c).

Lemma rbind_ok {A B} (x : res A) (k : A -> res B) b : rbind x k = ROk b -> exists a, x = ROk a /\ k a = ROk b.
Proof. destruct x; cbn; intros H; [eauto|discriminate]. Qed.

Lemma filter_absent c l : mem_str c l = false -> filter (fun c' => negb (String.eqb c' c)) l = l.
Proof.
  induction l as [|x l IH]; cbn; [reflexivity|]. rewrite String.eqb_sym.
  destruct (String.eqb x c) eqn:E; cbn; [discriminate|]. intros H. now rewrite IH.
Qed.

Lemma coords_from_df_refuses f pos tc :
  has_col tc f = true -> forallb (fun c => has_col c f) pos = false -> py_coords_from_df f pos tc = RRaise EKeyError.
Proof. intros Ht Hp. unfold py_coords_from_df, p_getitem, p_getitems. rewrite Ht, Hp. reflexivity. Qed.

Lemma link_iter_propagates (L : LinkerI) e :
  e <> EStopIteration -> py_link_iter L (RRaise e) = RRaise e.
Proof. intros He. unfold py_link_iter, gen_iter, gen_next. cbn [rbind]. unfold gen_body. destruct e; congruence. Qed.

Section LinkLayout.
  Variable L : LinkerI.

  Theorem py_link_layout f g :
    py_link L f None "frame" = ROk g ->
    df_columns g = add_particle (df_columns f) /\
    df_float g = filter (not_label "particle") (filter (not_label "frame") (df_float f)) /\
    forallb (fun c => has_col c f) ("frame" :: guess_pos_columns f) = true.
  Proof.
    unfold py_link. cbn [rbind]. unfold p_copy. intros H.
    apply rbind_ok in H as (tmp1 & H1 & H).
    assert (Hf : has_col "frame" f = true).
    { unfold p_getitem in H1. destruct (has_col "frame" f); [reflexivity|discriminate]. }
    apply rbind_ok in H as (f1 & Hc & H).
    assert (F1 : df_columns f1 = df_columns f /\ df_float f1 = filter (not_label "frame") (df_float f) /\
                 forall c, has_col c f1 = has_col c f).
    { unfold p_getitem in H1. rewrite Hf in H1. inversion H1; subst tmp1; clear H1. cbn [s_int] in Hc.
      destruct (mem_str "frame" (df_float f)) eqn:Em; cbn [negb] in Hc.
      - unfold p_getitem in Hc. rewrite Hf in Hc. cbn [rbind] in Hc.
        apply rbind_ok in Hc as (f1' & Hs & Hc). inversion Hc; subst f1'; clear Hc.
        unfold p_setitem in Hs. cbn [s_values s_astype_int64 s_int] in Hs. rewrite map_length, Nat.eqb_refl, Hf in Hs.
        inversion Hs; subst f1. cbn [df_columns df_float]. unfold has_col. cbn [df_columns]. repeat split; reflexivity.
      - inversion Hc; subst f1. split; [reflexivity|]. split; [|reflexivity].
        symmetry. apply filter_absent. exact Em. }
    destruct F1 as (C1 & D1 & HC1).
    apply rbind_ok in H as (f2 & Hs & H).
    assert (F2 : df_columns f2 = df_columns f /\ df_float f2 = filter (not_label "frame") (df_float f) /\
                 forall c, has_col c f2 = has_col c f).
    { unfold pandas_sort_inplace in Hs. rewrite HC1, Hf in Hs. inversion Hs; subst f2.
      cbn [df_columns df_float]. unfold has_col in *. cbn [df_columns]. rewrite C1. repeat split; assumption. }
    destruct F2 as (C2 & D2 & HC2). cbv zeta in H.
    apply rbind_ok in H as (tmp3 & Hl & H).
    assert (Hpos : forallb (fun c => has_col c f) (guess_pos_columns f) = true).
    { destruct (forallb (fun c => has_col c f) (guess_pos_columns f)) eqn:E; [reflexivity|exfalso].
      rewrite (coords_from_df_refuses f2 (guess_pos_columns f) "frame") in Hl.
      - unfold gen_items_Z, gen_map in Hl. cbn [rbind] in Hl. rewrite (link_iter_propagates L) in Hl; discriminate.
      - now rewrite HC2.
      - rewrite <- E. apply forallb_ext'. intros c. apply HC2. }
    apply rbind_ok in H as (ids & _ & H). apply rbind_ok in H as (g' & Hset & H). inversion H; subst g'; clear H.
    unfold p_setitem_list, p_setitem in Hset. cbn [s_values s_int] in Hset.
    destruct (Nat.eqb (length ids) (length (df_rows f2))); [|discriminate]. inversion Hset; subst g. cbn [df_columns df_float].
    split; [|split].
    - unfold add_particle. rewrite HC2, C2. reflexivity.
    - rewrite D2. reflexivity.
    - cbn [forallb]. now rewrite Hf, Hpos.
  Qed.
End LinkLayout.

(* ---- the same facts in the vocabulary of C20's layout model ----------------------------------- *)
Module TL := TP.Model.TrajLayout.
Module TL3 := TP.Model.TrajLayout3.
Module TLP := TP.Proofs.TrajLayout.

Definition schema_of (i : list (option string)) (f : DataFrame) : TL.schema := {| TL.idx := i; TL.cols := df_columns f |}.

Lemma has_col_schema_of c i f : TL.has_col c (schema_of i f) = has_col c f.
Proof. reflexivity. Qed.
Lemma guess_schema_of i f : TL3.guess_pos (schema_of i f) = guess_pos_columns f.
Proof. reflexivity. Qed.

Lemma getitems_forallb cs s :
  TL.getitems cs s = if forallb (fun c => TL.has_col c s) cs then TL.Ok s else TL.Missing.
Proof.
  induction cs as [|c cs IH]; cbn [TL.getitems forallb]; [reflexivity|].
  unfold TL.getitem. destruct (TL.has_col c s); cbn [TL.bind andb]; [exact IH|reflexivity].
Qed.

(* link's layout stage (Model/TrajLayout3.v) in closed form *)
Lemma st_link3_closed i f :
  TL3.st_link3 TL.fixed (schema_of i f) =
  if forallb (fun c => has_col c f) ("frame" :: guess_pos_columns f)
  then TL.Ok {| TL.idx := map (option_map (TL.rename (TL.ByStr "frame"))) i; TL.cols := add_particle (df_columns f) |}
  else TL.Missing.
Proof.
  unfold TL3.st_link3. rewrite guess_schema_of, getitems_forallb. cbn [forallb].
  change (forallb (fun c => TL.has_col c (schema_of i f)) (guess_pos_columns f))
    with (forallb (fun c => has_col c f) (guess_pos_columns f)).
  destruct (forallb (fun c => has_col c f) (guess_pos_columns f)); cbn [TL.bind]; [|now rewrite andb_false_r].
  unfold TL.getitem. rewrite has_col_schema_of.
  destruct (has_col "frame" f) eqn:Hf; cbn [TL.bind andb]; [|reflexivity].
  rewrite TLP.pandas_sort_frame by exact Hf. cbn [TL.bind]. unfold TL.add_col, add_particle. cbn [TL.idx TL.cols schema_of].
  change (TL.has_col "particle" {| TL.idx := map (option_map (TL.rename (TL.ByStr "frame"))) i; TL.cols := df_columns f |})
    with (mem_str "particle" (df_columns f)).
  now destruct (mem_str "particle" (df_columns f)).
Qed.

Section LinkSchema.
  Variable L : LinkerI.

  Theorem py_link_schema f g i :
    py_link L f None "frame" = ROk g ->
    TL3.st_link3 TL.fixed (schema_of i f) =
    TL.Ok {| TL.idx := map (option_map (TL.rename (TL.ByStr "frame"))) i; TL.cols := df_columns g |}.
  Proof.
    intros H. destruct (py_link_layout L f g H) as (C & _ & P). now rewrite st_link3_closed, P, C.
  Qed.

  Theorem py_link_refuses f i :
    forallb (fun c => has_col c f) ("frame" :: guess_pos_columns f) = false ->
    py_link L f None "frame" = RRaise EKeyError /\ TL3.st_link3 TL.fixed (schema_of i f) = TL.Missing.
  Proof.
    intros P. split; [|now rewrite st_link3_closed, P].
    cbn [forallb] in P. unfold py_link. cbn [rbind]. unfold p_copy, p_getitem at 1.
    destruct (has_col "frame" f) eqn:Hf; [|reflexivity]. cbn [andb] in P. cbn [rbind s_int].
    assert (E : exists f1, (if negb (negb (mem_str "frame" (df_float f)))
                            then rbind (p_getitem f "frame") (fun tmp2 => rbind (p_setitem f "frame" (s_astype_int64 tmp2)) (fun f0 => ROk f0))
                            else ROk f) = ROk f1 /\ forall c, has_col c f1 = has_col c f).
    { destruct (mem_str "frame" (df_float f)); cbn [negb].
      - unfold p_getitem. rewrite Hf. cbn [rbind]. unfold p_setitem. cbn [s_values s_astype_int64 s_int].
        rewrite map_length, Nat.eqb_refl, Hf. cbn [rbind]. eexists. split; [reflexivity|]. intros c. reflexivity.
      - exists f. split; reflexivity. }
    destruct E as (f1 & -> & HC1). cbn [rbind]. unfold pandas_sort_inplace. rewrite HC1, Hf. cbn [rbind].
    rewrite coords_from_df_refuses.
    - unfold gen_items_Z, gen_map. cbn [rbind]. rewrite link_iter_propagates by discriminate. reflexivity.
    - unfold has_col. cbn [df_columns]. exact (eq_trans (HC1 "frame") Hf).
    - rewrite <- P. apply forallb_ext'. intros c. unfold has_col at 1. cbn [df_columns]. apply HC1.
  Qed.
End LinkSchema.

(* with Model/Link.v's linker: a table the layout model accepts is never refused for its layout *)
Theorem py_link_accepts m mem max_size f i s' :
  metric_ok m -> df_rows f <> [] ->
  TL3.st_link3 TL.fixed (schema_of i f) = TL.Ok s' ->
  py_link (model_linker m mem max_size) f None "frame" = RRaise EOversize \/
  exists g, py_link (model_linker m mem max_size) f None "frame" = ROk g /\
            TL.cols s' = df_columns g /\
            df_float g = filter (not_label "particle") (filter (not_label "frame") (df_float f)).
Proof.
  intros Hm Hne Hs. rewrite st_link3_closed in Hs.
  destruct (forallb (fun c => has_col c f) ("frame" :: guess_pos_columns f)) eqn:P; [|discriminate].
  inversion Hs; subst s'; clear Hs. cbn [forallb] in P. apply andb_prop in P as (Hf & Hp).
  assert (Hpart : ~ In "particle" ("frame" :: guess_pos_columns f)).
  { unfold guess_pos_columns. destruct (has_col "z" f); cbn; intuition discriminate. }
  pose proof (py_link_eq m mem max_size f None "frame" Hm Hf Hp Hne Hpart) as E. cbv zeta in E.
  destruct (link_table m mem max_size (rows_of (guess_pos_columns f) "frame" f)) as [out|].
  - right. destruct E as (g & Eg & _). exists g. split; [exact Eg|].
    destruct (py_link_layout _ f g Eg) as (C & D & _). cbn [TL.cols]. now rewrite C, D.
  - left. exact E.
Qed.
