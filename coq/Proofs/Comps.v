(* The subnets computed by [components] partition the sources and pairwise share
   no destination; solving them one by one and concatenating is globally optimal. *)
From Coq Require Import ZArith List Bool Lia Permutation.
From TP Require Import Model.Assign Model.Link Proofs.BnB Proofs.Opt Proofs.Cands.
Import ListNotations.
Open Scope Z_scope.

Lemma shares_false a b : shares a b = false -> forall k, In k a -> In k b -> False.
Proof.
  unfold shares. intros H k Ha Hb.
  assert (existsb (fun x => existsb (Nat.eqb x) b) a = true).
  { apply existsb_exists. exists k. split; [exact Ha|]. apply existsb_exists. exists k. split; [exact Hb|apply Nat.eqb_refl]. }
  congruence.
Qed.

Lemma gdisj_sym g1 g2 : gdisj g1 g2 -> gdisj g2 g1.
Proof. intros H k H1 H2. exact (H k H2 H1). Qed.

Lemma concat_filter_perm {A} (p : list A -> bool) (gs : list (list A)) :
  Permutation (concat (filter p gs) ++ concat (filter (fun g => negb (p g)) gs)) (concat gs).
Proof.
  induction gs as [|g gs IH]; cbn; [constructor|].
  destruct (p g); cbn.
  - rewrite <- app_assoc. apply Permutation_app_head. exact IH.
  - eapply Permutation_trans; [apply Permutation_app_swap_app|]. apply Permutation_app_head. exact IH.
Qed.

(* pairwise disjointness as a symmetric predicate on any two positions *)
Definition pw_disj (gs : list group) : Prop :=
  forall i j g1 g2, i <> j -> nth_error gs i = Some g1 -> nth_error gs j = Some g2 -> gdisj g1 g2.

Lemma pw_disj_all_disj gs : pw_disj gs -> all_disj gs.
Proof.
  induction gs as [|g gs IH]; intros H; constructor.
  - rewrite Forall_forall. intros g' Hg'. apply In_nth_error in Hg'. destruct Hg' as [n Hn].
    apply (H 0%nat (S n)); [lia|reflexivity|exact Hn].
  - apply IH. intros i j g1 g2 Hij H1 H2. apply (H (S i) (S j)); [lia|exact H1|exact H2].
Qed.

Lemma filter_nth_error {A} (p : A -> bool) (l : list A) : forall i x,
  nth_error (filter p l) i = Some x ->
  exists i', nth_error l i' = Some x /\ p x = true /\
    (forall j y, nth_error (filter p l) j = Some y -> i <> j ->
        exists j', nth_error l j' = Some y /\ i' <> j').
Proof.
  induction l as [|a l IH]; intros i x H; cbn in H; [destruct i; discriminate|].
  destruct (p a) eqn:E.
  - destruct i as [|i]; cbn in H.
    + inversion H; subst a. exists 0%nat. split; [reflexivity|split; [exact E|]].
      intros j y Hj Hij. cbn in Hj. rewrite E in Hj. destruct j as [|j]; [congruence|]. cbn in Hj.
      destruct (IH j y Hj) as [j' [Hj' _]]. exists (S j'). split; [exact Hj'|lia].
    + destruct (IH i x H) as [i' [Hi' [Hp Hrest]]]. exists (S i'). split; [exact Hi'|split; [exact Hp|]].
      intros j y Hj Hij. cbn in Hj. rewrite E in Hj. destruct j as [|j]; cbn in Hj.
      * inversion Hj; subst y. exists 0%nat. split; [reflexivity|lia].
      * destruct (Hrest j y Hj) as [j' [Hj' Hne]]; [lia|]. exists (S j'). split; [exact Hj'|lia].
  - destruct (IH i x H) as [i' [Hi' [Hp Hrest]]]. exists (S i'). split; [exact Hi'|split; [exact Hp|]].
    intros j y Hj Hij. cbn in Hj. rewrite E in Hj.
    destruct (Hrest j y Hj Hij) as [j' [Hj' Hne]]. exists (S j'). split; [exact Hj'|lia].
Qed.

Lemma pw_disj_filter p gs : pw_disj gs -> pw_disj (filter p gs).
Proof.
  intros H i j g1 g2 Hij H1 H2.
  destruct (filter_nth_error p gs i g1 H1) as [i' [Hi' [_ Hrest]]].
  destruct (Hrest j g2 H2 Hij) as [j' [Hj' Hne]].
  exact (H i' j' g1 g2 Hne Hi' Hj').
Qed.

Lemma pw_disj_In gs g1 g2 : pw_disj gs -> In g1 gs -> In g2 gs -> g1 = g2 \/ gdisj g1 g2.
Proof.
  intros H H1 H2. apply In_nth_error in H1, H2. destruct H1 as [i Hi], H2 as [j Hj].
  destruct (Nat.eq_dec i j) as [E|E]; [subst j; left; congruence|right; exact (H i j g1 g2 E Hi Hj)].
Qed.

Lemma gdests_concat_in k gs : In k (gdests (concat gs)) -> exists g, In g gs /\ In k (gdests g).
Proof.
  induction gs as [|g gs IH]; cbn; [intros []|]. rewrite gdests_app. intros H. apply in_app_or in H.
  destruct H as [H|H]; [exists g; auto|]. destruct (IH H) as [g' [Hg' Hk]]. exists g'; auto.
Qed.

Lemma add_item_spec gs x :
  pw_disj gs ->
  pw_disj (add_item gs x) /\ Permutation (concat (add_item gs x)) (x :: concat gs).
Proof.
  intros Hd. unfold add_item.
  set (p := fun g => shares (reals (snd x)) (gdests g)).
  split.
  - assert (Hoth : pw_disj (filter (fun g => negb (p g)) gs)) by (apply pw_disj_filter; exact Hd).
    assert (Hnew : forall g, In g (filter (fun g => negb (p g)) gs) -> gdisj (x :: concat (filter p gs)) g).
    { intros g Hg. apply filter_In in Hg. destruct Hg as [Hg Hpg]. apply negb_true_iff in Hpg.
      intros k Hk1 Hk2. change (x :: concat (filter p gs)) with ([x] ++ concat (filter p gs)) in Hk1.
      rewrite gdests_app in Hk1. apply in_app_or in Hk1. destruct Hk1 as [Hk1|Hk1].
      - unfold gdests in Hk1. cbn in Hk1. rewrite app_nil_r in Hk1. exact (shares_false _ _ Hpg k Hk1 Hk2).
      - apply gdests_concat_in in Hk1. destruct Hk1 as [t [Ht Hkt]]. apply filter_In in Ht. destruct Ht as [Ht Hpt].
        destruct (pw_disj_In gs t g Hd Ht Hg) as [E|Hdis]; [subst t; congruence|exact (Hdis k Hkt Hk2)]. }
    intros i j g1 g2 Hij H1 H2. destruct i as [|i], j as [|j]; cbn in H1, H2; try lia.
    + inversion H1; subst g1. apply Hnew. eapply nth_error_In; exact H2.
    + inversion H2; subst g2. apply gdisj_sym. apply Hnew. eapply nth_error_In; exact H1.
    + apply (Hoth i j); [lia|exact H1|exact H2].
  - cbn. apply perm_skip. apply (concat_filter_perm p gs).
Qed.

Theorem components_spec items :
  pw_disj (components items) /\ Permutation (concat (components items)) items.
Proof.
  unfold components.
  assert (Hgen : forall gs, pw_disj gs ->
     pw_disj (fold_left add_item items gs) /\
     Permutation (concat (fold_left add_item items gs)) (items ++ concat gs)).
  { induction items as [|x items IH]; intros gs Hd; cbn.
    - split; [exact Hd|apply Permutation_refl].
    - destruct (add_item_spec gs x Hd) as [Hd' Hp'].
      destruct (IH _ Hd') as [Hd'' Hp'']. split; [exact Hd''|].
      eapply Permutation_trans; [exact Hp''|].
      eapply Permutation_trans; [apply Permutation_app_head; exact Hp'|].
      apply Permutation_sym. apply Permutation_middle. }
  assert (Hnil : pw_disj []) by (intros i j g1 g2 _ H; destruct i; discriminate).
  destruct (Hgen [] Hnil) as [H1 H2].
  split; [exact H1|]. cbn in H2. rewrite app_nil_r in H2. exact H2.
Qed.
