(* C09 -- the tail of locate (duplicate removal, minmass / maxsize, topn) commutes with
   translation and with any axis order, PROVIDED no decision of the tail is a tie; batch
   with a chunked pool is the concatenation tagged with the frames' own numbers. *)
From Coq Require Import ZArith NArith QArith Qabs List Bool Arith Lia Lqa Permutation Sorting.Sorted.
From TP Require Import Model.Dilation Model.COM Model.Equivariance Proofs.COM Proofs.Dilation
     Proofs.Equivariance Proofs.Equivariance2 Proofs.Equivariance3
     Model.COMCheck Model.LocateTail Model.LocateTailSpec Model.LocateWhole Model.LocateWholeCheck Proofs.LocateTail.
Import ListNotations.
Open Scope Q_scope.

(* ============================================================ index / ordered pairs *)
Lemma in_combine_seq : forall {A} (l : list A) s i x,
  In (i, x) (combine (seq s (length l)) l) <-> (s <= i)%nat /\ nth_error l (i - s) = Some x.
Proof.
  intros A l. induction l as [|a t IH]; intros s i x; cbn [length seq combine].
  - split; [intros []|]. intros [_ H]. destruct (i - s)%nat; discriminate.
  - cbn [In]. rewrite IH. split.
    + intros [E|[L H]].
      * inversion E; subst. split; [lia|]. rewrite Nat.sub_diag. reflexivity.
      * split; [lia|]. replace (i - s)%nat with (S (i - S s)) by lia. exact H.
    + intros [L H]. destruct (Nat.eq_dec s i) as [->|Hne].
      * left. rewrite Nat.sub_diag in H. cbn in H. congruence.
      * right. split; [lia|]. replace (i - s)%nat with (S (i - S s)) in H by lia. exact H.
Qed.

Lemma in_index : forall {A} (l : list A) i x, In (i, x) (index l) <-> nth_error l i = Some x.
Proof.
  intros A l i x. unfold index. rewrite in_combine_seq. rewrite Nat.sub_0_r. intuition lia.
Qed.

Lemma in_ordpairs_combine_seq : forall {A} (l : list A) s i x j y,
  In ((i, x), (j, y)) (ordpairs (combine (seq s (length l)) l)) <->
  (s <= i)%nat /\ (i < j)%nat /\ nth_error l (i - s) = Some x /\ nth_error l (j - s) = Some y.
Proof.
  intros A l. induction l as [|a t IH]; intros s i x j y; cbn [length seq combine ordpairs].
  - split; [intros []|]. intros [_ [_ [H _]]]. destruct (i - s)%nat; discriminate.
  - rewrite in_app_iff, in_map_iff, IH. split.
    + intros [[[j' y'] [E H]]|[L [Lij [Hx Hy]]]].
      * inversion E; subst. apply in_combine_seq in H. destruct H as [L H].
        split; [lia|]. split; [lia|]. rewrite Nat.sub_diag. split; [reflexivity|].
        replace (j - i)%nat with (S (j - S i)) by lia. exact H.
      * split; [lia|]. split; [exact Lij|].
        replace (i - s)%nat with (S (i - S s)) by lia. replace (j - s)%nat with (S (j - S s)) by lia. tauto.
    + intros [L [Lij [Hx Hy]]]. destruct (Nat.eq_dec s i) as [->|Hne].
      * left. exists (j, y). rewrite Nat.sub_diag in Hx. cbn in Hx. split; [congruence|].
        apply in_combine_seq. split; [lia|]. replace (j - i)%nat with (S (j - S i)) in Hy by lia. exact Hy.
      * right. split; [lia|]. split; [exact Lij|].
        replace (i - s)%nat with (S (i - S s)) in Hx by lia. replace (j - s)%nat with (S (j - S s)) in Hy by lia. tauto.
Qed.

Lemma in_ordpairs_index : forall {A} (l : list A) i x j y,
  In ((i, x), (j, y)) (ordpairs (index l)) <->
  (i < j)%nat /\ nth_error l i = Some x /\ nth_error l j = Some y.
Proof.
  intros A l i x j y. unfold index. rewrite in_ordpairs_combine_seq. rewrite !Nat.sub_0_r. intuition lia.
Qed.

Lemma in_ordpairs_nth : forall {A} (l : list A) x y,
  In (x, y) (ordpairs l) <-> exists i j, (i < j)%nat /\ nth_error l i = Some x /\ nth_error l j = Some y.
Proof.
  intros A l x y. rewrite <- (map_snd_index l) at 1. rewrite ordpairs_map, in_map_iff. split.
  - intros [[[i x'] [j y']] [E H]]. cbn in E. inversion E; subst.
    apply in_ordpairs_index in H. exists i, j. exact H.
  - intros [i [j H]]. exists ((i, x), (j, y)). split; [reflexivity|]. apply in_ordpairs_index. exact H.
Qed.

Lemma filter_index : forall {A} (g : A -> bool) (h : nat * A -> bool) (l : list A),
  (forall i x, nth_error l i = Some x -> h (i, x) = g x) ->
  map snd (filter h (index l)) = filter g l.
Proof.
  intros A g h l H.
  assert (E : filter h (index l) = filter (fun ix => g (snd ix)) (index l)).
  { apply filter_ext_in. intros [i x] Hin. apply in_index in Hin. cbn. apply H, Hin. }
  rewrite E. clear E H. unfold index. generalize 0%nat.
  induction l as [|a t IH]; intro s; cbn; [reflexivity|].
  destruct (g a); cbn; rewrite IH; reflexivity.
Qed.

(* ==================================================== closeness: symmetric, as a sum *)
Lemma close_sym : forall sep p q, close sep p q = close sep q p.
Proof.
  intros sep p q. rewrite !close_spec.
  assert (E : d2r sep p q == d2r sep q p) by (rewrite !d2r_dist2_sep; apply dist2_sep_sym).
  destruct (Qltb (d2r sep p q) 1) eqn:A; symmetry.
  - apply Qltb_lt. apply Qltb_lt in A. rewrite <- E. exact A.
  - apply Qltb_ge. apply Qltb_ge in A. rewrite <- E. exact A.
Qed.

Lemma Qltb_comp : forall a b a' b', a == a' -> b == b' -> Qltb a b = Qltb a' b'.
Proof.
  intros a b a' b' Ea Eb. destruct (Qltb a' b') eqn:A.
  - apply Qltb_lt. apply Qltb_lt in A. rewrite Ea, Eb. exact A.
  - apply Qltb_ge. apply Qltb_ge in A. rewrite Ea, Eb. exact A.
Qed.

(* ========================================= duplicate removal without ties = a filter *)
Definition NoCloseTie (sep : list Q) (outs : list output) : Prop :=
  ForallOrdPairs (fun x y => close sep (o_pos x) (o_pos y) = true -> ~ out_mass x == out_mass y) outs.
Definition NoMassTie (outs : list output) : Prop :=
  ForallOrdPairs (fun x y => ~ out_mass x == out_mass y) outs.

Lemma no_close_tie_iff : forall sep outs, no_close_tie sep outs = true <-> NoCloseTie sep outs.
Proof.
  intros sep outs. unfold no_close_tie, NoCloseTie. rewrite forallb_forall. split.
  - intro H. apply fop_of_ordpairs. intros x y Hin Hc E. specialize (H (x, y) Hin). cbn in H.
    rewrite Hc in H. apply Qeq_bool_iff in E. rewrite E in H. discriminate.
  - intros H [x y] Hin. cbn. pose proof (ordpairs_of_fop _ _ H x y Hin) as K. cbn beta in K.
    destruct (close sep (o_pos x) (o_pos y)); [|reflexivity].
    destruct (Qeq_bool (out_mass x) (out_mass y)) eqn:E; [|reflexivity].
    apply Qeq_bool_iff in E. exfalso. apply K; [reflexivity|exact E].
Qed.

Lemma no_mass_tie_iff : forall outs, no_mass_tie outs = true <-> NoMassTie outs.
Proof.
  intros outs. unfold no_mass_tie, NoMassTie. rewrite forallb_forall. split.
  - intro H. apply fop_of_ordpairs. intros x y Hin E. specialize (H (x, y) Hin). cbn in H.
    apply Qeq_bool_iff in E. rewrite E in H. discriminate.
  - intros H [x y] Hin. cbn. pose proof (ordpairs_of_fop _ _ H x y Hin) as K. cbn beta in K.
    destruct (Qeq_bool (out_mass x) (out_mass y)) eqn:E; [|reflexivity].
    apply Qeq_bool_iff in E. exfalso. now apply K.
Qed.

(* a row is dominated: some row closer than separation is strictly more massive *)
Definition dominated (sep : list Q) (outs : list output) (x : output) : bool :=
  existsb (fun y => close sep (o_pos x) (o_pos y) && Qltb (out_mass x) (out_mass y)) outs.

Lemma where_close_no_tie : forall sep outs i x,
  existsb (fun s => Qeq_bool s 0) sep = false -> NoCloseTie sep outs ->
  nth_error outs i = Some x ->
  mem i (where_close sep (map (fun o => (o_pos o, out_mass o)) outs)) = dominated sep outs x.
Proof.
  intros sep outs i x Hz Hnt Hi.
  set (f := fun o : output => (o_pos o, out_mass o)).
  assert (Hnt' : forall a b, In (a, b) (ordpairs outs) -> close sep (o_pos a) (o_pos b) = true -> ~ out_mass a == out_mass b)
    by (intros a b Hab; exact (ordpairs_of_fop _ _ Hnt a b Hab)).
  apply eq_true_iff_eq. rewrite mem_In. unfold dominated. rewrite existsb_exists. split.
  - intro Hin. apply where_close_justified in Hin.
    destruct Hin as [xa [xb [Hp [Hc Hk]]]].
    rewrite (index_map f outs), ordpairs_map, in_map_iff in Hp.
    destruct Hp as [[[ia' a'] [ib' b']] [E Hp]]. cbn [fst snd] in E. injection E as <- <-.
    apply in_ordpairs_index in Hp. destruct Hp as [Lab [Ha Hb]].
    unfold i_pos, i_int, i_lab in *. cbn [fst snd f] in *.
    assert (Hne : ~ out_mass a' == out_mass b').
    { apply Hnt'; [|exact Hc]. apply in_ordpairs_nth. exists ia', ib'. auto. }
    destruct Hk as [[-> Hle]|[-> Hle]].
    + rewrite Ha in Hi. inversion Hi; subst. exists b'. split; [eapply nth_error_In; eauto|].
      rewrite Hc. cbn. apply Qltb_lt. apply Qle_lteq in Hle. destruct Hle; [assumption|contradiction].
    + rewrite Hb in Hi. inversion Hi; subst. exists a'. split; [eapply nth_error_In; eauto|].
      rewrite close_sym, Hc. cbn. apply Qltb_lt. apply Qle_lteq in Hle.
      destruct Hle as [|E]; [assumption|]. exfalso. apply Hne. symmetry. exact E.
  - intros [y [Hy Hd]]. apply andb_true_iff in Hd. destruct Hd as [Hc Hl]. apply Qltb_lt in Hl.
    apply In_nth_error in Hy. destruct Hy as [j Hj].
    assert (Hij : i <> j).
    { intros ->. rewrite Hj in Hi. inversion Hi; subst. exact (Qlt_irrefl _ Hl). }
    unfold where_close. rewrite Hz. rewrite nodup_In, in_map_iff.
    rewrite (index_map f outs), ordpairs_map.
    destruct (Nat.lt_ge_cases i j) as [Lij|Lji].
    + exists ((i, f x), (j, f y)). split.
      * cbn [fst snd]. unfold loser, i_int, i_pos, i_lab, f. cbn [fst snd].
        replace (Qltb (out_mass y) (out_mass x)) with false
          by (symmetry; apply Qltb_ge; apply Qlt_le_weak; exact Hl).
        replace (Qeq_bool (out_mass x) (out_mass y)) with false; [reflexivity|].
        symmetry. destruct (Qeq_bool (out_mass x) (out_mass y)) eqn:E; [|reflexivity].
        apply Qeq_bool_iff in E. rewrite E in Hl. exfalso. exact (Qlt_irrefl _ Hl).
      * apply filter_In. split.
        -- apply in_map_iff. exists ((i, x), (j, y)). split; [reflexivity|].
           apply in_ordpairs_index. auto.
        -- cbn [fst snd]. unfold i_pos, f. cbn [fst snd]. exact Hc.
    + assert (Lji' : (j < i)%nat) by lia.
      exists ((j, f y), (i, f x)). split.
      * cbn [fst snd]. unfold loser, i_int, i_pos, i_lab, f. cbn [fst snd].
        replace (Qltb (out_mass x) (out_mass y)) with true by (symmetry; apply Qltb_lt; exact Hl).
        reflexivity.
      * apply filter_In. split.
        -- apply in_map_iff. exists ((j, y), (i, x)). split; [reflexivity|].
           apply in_ordpairs_index. auto.
        -- cbn [fst snd]. unfold i_pos, f. cbn [fst snd]. rewrite close_sym. exact Hc.
Qed.

Theorem dedupe_out_no_tie : forall sep outs,
  NoCloseTie sep outs ->
  dedupe_out sep outs = if forallb (Qltb 0) sep then filter (fun x => negb (dominated sep outs x)) outs else outs.
Proof.
  intros sep outs Hnt. unfold dedupe_out. destruct (forallb (Qltb 0) sep) eqn:Hs; [|reflexivity].
  unfold drop_rows. apply filter_index. intros i x Hi. cbn [fst].
  rewrite (where_close_no_tie sep outs i x (no_zero_sep sep Hs) Hnt Hi). reflexivity.
Qed.

(* ================================================================== list helpers *)
Lemma Forall2_filter : forall {A B} (R : A -> B -> Prop) (f : A -> bool) (g : B -> bool) l l',
  Forall2 R l l' -> (forall a b, R a b -> g b = f a) -> Forall2 R (filter f l) (filter g l').
Proof.
  intros A B R f g l l' H Hfg. induction H as [|a b l l' Hab Hl IH]; cbn; [constructor|].
  rewrite (Hfg a b Hab). destruct (f a); [constructor; assumption|assumption].
Qed.

Lemma existsb_Forall2 : forall {A B} (R : A -> B -> Prop) (f : A -> bool) (g : B -> bool) l l',
  Forall2 R l l' -> (forall a b, R a b -> g b = f a) -> existsb g l' = existsb f l.
Proof.
  intros A B R f g l l' H Hfg. induction H as [|a b l l' Hab Hl IH]; cbn; [reflexivity|].
  rewrite (Hfg a b Hab), IH. reflexivity.
Qed.

Lemma existsb_perm : forall {A} (f : A -> bool) l l', Permutation l l' -> existsb f l = existsb f l'.
Proof.
  intros A f l l' H. induction H; cbn [existsb]; try congruence.
  rewrite !orb_assoc, (orb_comm (f y)). reflexivity.
Qed.

Lemma filter_perm : forall {A} (f : A -> bool) l l', Permutation l l' -> Permutation (filter f l) (filter f l').
Proof.
  intros A f l l' H. induction H; cbn [filter].
  - constructor.
  - destruct (f x); [constructor|]; assumption.
  - destruct (f x), (f y); try apply Permutation_refl. apply perm_swap.
  - eapply Permutation_trans; eassumption.
Qed.

Lemma fop_Forall2 : forall {A B} (R : A -> B -> Prop) (Q1 : A -> A -> Prop) (Q2 : B -> B -> Prop) l l',
  Forall2 R l l' -> (forall a b a' b', R a a' -> R b b' -> Q1 a b -> Q2 a' b') ->
  ForallOrdPairs Q1 l -> ForallOrdPairs Q2 l'.
Proof.
  intros A B R Q1 Q2 l l' H HQ. induction H as [|a a' l l' Ha Hl IH]; intro F; [constructor|].
  inversion F as [|? ? Fa Ft]; subst. constructor; [|apply IH, Ft].
  clear IH F Ft. induction Hl as [|b b' l l' Hb Hl IH]; [constructor|].
  inversion Fa; subst. constructor; [eapply HQ; eauto|]. apply IH. assumption.
Qed.

Lemma Forall2_length : forall {A B} (R : A -> B -> Prop) l l', Forall2 R l l' -> length l = length l'.
Proof. intros A B R l l' H. induction H; cbn; congruence. Qed.

Lemma Forall2_skipn : forall {A B} (R : A -> B -> Prop) n l l', Forall2 R l l' -> Forall2 R (skipn n l) (skipn n l').
Proof.
  intros A B R n. induction n as [|n IH]; intros l l' H; [exact H|].
  destruct H; cbn; [constructor|]. apply IH. assumption.
Qed.

Lemma Forall2_lastn : forall {A B} (R : A -> B -> Prop) n l l', Forall2 R l l' -> Forall2 R (lastn n l) (lastn n l').
Proof.
  intros A B R n l l' H. unfold lastn. destruct n; [exact H|].
  rewrite (Forall2_length _ _ _ H). apply Forall2_skipn, H.
Qed.

Lemma Qle_bool_comp : forall a b a' b', a == a' -> b == b' -> Qle_bool a b = Qle_bool a' b'.
Proof.
  intros a b a' b' Ea Eb. apply eq_true_iff_eq. rewrite !Qle_bool_iff, Ea, Eb. reflexivity.
Qed.

(* ========================================================= topn, generic row type *)
Section TopnRel.
  Variables (A B : Type) (massA : A -> Q) (massB : B -> Q) (S : A -> B -> Prop).
  Hypothesis Smass : forall a b, S a b -> massB b == massA a.

  Lemma g_ins_rel : forall x x' l l', S x x' -> Forall2 S l l' -> Forall2 S (g_ins A massA x l) (g_ins B massB x' l').
  Proof.
    intros x x' l l' Hx H. induction H as [|y y' l l' Hy Hl IH]; cbn; [repeat constructor; exact Hx|].
    rewrite (Qle_bool_comp (massB x') (massB y') _ _ (Smass _ _ Hx) (Smass _ _ Hy)).
    destruct (Qle_bool (massA x) (massA y)); repeat constructor; assumption.
  Qed.

  Lemma g_sort_rel : forall l l', Forall2 S l l' -> Forall2 S (g_sort A massA l) (g_sort B massB l').
  Proof. intros l l' H. induction H; cbn; [constructor|]. apply g_ins_rel; assumption. Qed.

  Lemma g_argmax_rel : forall l l' b b', S b b' -> Forall2 S l l' ->
    S (g_argmax_from A massA b l) (g_argmax_from B massB b' l').
  Proof.
    intros l l' b b' Hb H. revert b b' Hb. induction H as [|y y' l l' Hy Hl IH]; intros b b' Hb; cbn; [exact Hb|].
    rewrite (Qltb_comp (massB b') (massB y') _ _ (Smass _ _ Hb) (Smass _ _ Hy)).
    destruct (Qltb (massA b) (massA y)); apply IH; assumption.
  Qed.

  Lemma g_topn_rel : forall t l l', Forall2 S l l' -> Forall2 S (g_topn A massA t l) (g_topn B massB t l').
  Proof.
    intros t l l' H. unfold g_topn. destruct t as [n|]; [|exact H].
    rewrite <- (Forall2_length _ _ _ H). destruct (length l <=? n)%nat; [exact H|].
    destruct (n =? 1)%nat.
    - destruct H; [constructor|]. constructor; [|constructor]. apply g_argmax_rel; assumption.
    - apply Forall2_lastn, g_sort_rel, H.
  Qed.
End TopnRel.

Section TopnPerm.
  Variables (A : Type) (mass : A -> Q).
  Definition gle (a b : A) : Prop := mass a <= mass b.
  Definition Distinct (l : list A) : Prop := ForallOrdPairs (fun x y => ~ mass x == mass y) l.

  Lemma distinct_in_eq : forall l a b, Distinct l -> In a l -> In b l -> mass a == mass b -> a = b.
  Proof.
    intros l a b H. induction H as [|x t Hx Ht IH]; intros Ha Hb E; [destruct Ha|].
    rewrite Forall_forall in Hx. destruct Ha as [<-|Ha], Hb as [<-|Hb]; auto.
    - exfalso. exact (Hx b Hb E).
    - exfalso. apply (Hx a Ha). symmetry. exact E.
  Qed.

  Lemma distinct_perm : forall l l', Permutation l l' -> Distinct l -> Distinct l'.
  Proof.
    intros l l' P. apply fop_perm; [|exact P]. intros a b H E. apply H. symmetry. exact E.
  Qed.

  Lemma g_ins_perm : forall x l, Permutation (g_ins A mass x l) (x :: l).
  Proof.
    intros x l. induction l as [|y t IH]; cbn; auto.
    destruct (Qle_bool (mass x) (mass y)); auto.
    eapply Permutation_trans; [constructor; exact IH|]. apply perm_swap.
  Qed.

  Lemma g_sort_perm : forall l, Permutation (g_sort A mass l) l.
  Proof.
    induction l as [|x t IH]; cbn; auto.
    eapply Permutation_trans; [apply g_ins_perm|]. constructor. exact IH.
  Qed.

  Lemma g_ins_sorted : forall x l, StronglySorted gle l -> StronglySorted gle (g_ins A mass x l).
  Proof.
    intros x l H. induction H as [|y t Ht IH Hy]; cbn.
    - constructor; constructor.
    - destruct (Qle_bool (mass x) (mass y)) eqn:E.
      + apply Qle_bool_iff in E. constructor.
        * constructor; assumption.
        * constructor; [exact E|].
          rewrite Forall_forall in *. intros z Hz. unfold gle in *.
          eapply Qle_trans; [exact E|]. apply Hy. exact Hz.
      + apply Qle_bool_false_lt in E. constructor; [exact IH|].
        rewrite Forall_forall in *. intros z Hz.
        apply (Permutation_in _ (g_ins_perm x t)) in Hz. destruct Hz as [<-|Hz].
        * unfold gle. apply Qlt_le_weak. exact E.
        * apply Hy. exact Hz.
  Qed.

  Lemma g_sort_sorted : forall l, StronglySorted gle (g_sort A mass l).
  Proof. induction l as [|x t IH]; cbn; [constructor|]. apply g_ins_sorted. exact IH. Qed.

  (* a list without equal masses has ONE ascending arrangement *)
  Lemma sorted_unique : forall l1 l2, StronglySorted gle l1 -> StronglySorted gle l2 ->
    Permutation l1 l2 -> Distinct l1 -> l1 = l2.
  Proof.
    induction l1 as [|a t1 IH]; intros l2 S1 S2 P D.
    - apply Permutation_nil in P. now subst.
    - destruct l2 as [|b t2]; [apply Permutation_sym, Permutation_nil in P; discriminate|].
      inversion S1 as [|? ? S1t F1]; subst. inversion S2 as [|? ? S2t F2]; subst.
      rewrite Forall_forall in F1, F2.
      assert (Hb : In b (a :: t1)) by (eapply Permutation_in; [apply Permutation_sym; exact P|now left]).
      assert (Ha : In a (b :: t2)) by (eapply Permutation_in; [exact P|now left]).
      assert (Lab : mass a <= mass b) by (destruct Hb as [<-|Hb]; [apply Qle_refl|apply F1, Hb]).
      assert (Lba : mass b <= mass a) by (destruct Ha as [<-|Ha]; [apply Qle_refl|apply F2, Ha]).
      assert (E : a = b) by (apply (distinct_in_eq (a :: t1)); auto; [now left|apply Qle_antisym; assumption]).
      subst b. f_equal. apply IH; auto.
      + eapply Permutation_cons_inv. exact P.
      + inversion D; assumption.
  Qed.

  Lemma g_argmax_spec : forall l best,
    In (g_argmax_from A mass best l) (best :: l) /\
    Forall (fun r => gle r (g_argmax_from A mass best l)) (best :: l).
  Proof.
    induction l as [|y t IH]; intro best; cbn [g_argmax_from].
    - split; [now left|]. constructor; [apply Qle_refl|constructor].
    - destruct (Qltb (mass best) (mass y)) eqn:E.
      + apply Qltb_lt in E. destruct (IH y) as [I F]. split; [right; exact I|].
        inversion F as [|? ? Fy Ft]; subst. constructor; [|constructor; assumption].
        unfold gle in *. eapply Qle_trans; [apply Qlt_le_weak; exact E|exact Fy].
      + apply Qltb_ge in E. destruct (IH best) as [I F]. split.
        * destruct I as [I|I]; [left; exact I|right; right; exact I].
        * inversion F as [|? ? Fb Ft]; subst. constructor; [exact Fb|].
          constructor; [|exact Ft]. unfold gle in *. eapply Qle_trans; [exact E|exact Fb].
  Qed.

  Theorem g_topn_perm : forall t l l', Permutation l l' -> Distinct l ->
    Permutation (g_topn A mass t l) (g_topn A mass t l').
  Proof.
    intros t l l' P D. unfold g_topn. destruct t as [n|]; [|exact P].
    rewrite <- (Permutation_length P). destruct (length l <=? n)%nat; [exact P|].
    destruct (n =? 1)%nat.
    - destruct l as [|b t]; destruct l' as [|b' t'];
        try (apply Permutation_length in P; discriminate); [constructor|].
      destruct (g_argmax_spec t b) as [I F]. destruct (g_argmax_spec t' b') as [I' F'].
      rewrite Forall_forall in F, F'.
      assert (I2 : In (g_argmax_from A mass b' t') (b :: t))
        by (eapply Permutation_in; [apply Permutation_sym; exact P|exact I']).
      assert (I3 : In (g_argmax_from A mass b t) (b' :: t')) by (eapply Permutation_in; [exact P|exact I]).
      rewrite (distinct_in_eq (b :: t) _ _ D I I2); [apply Permutation_refl|].
      apply Qle_antisym; [apply F', I3|apply F, I2].
    - rewrite (sorted_unique (g_sort A mass l) (g_sort A mass l')); [apply Permutation_refl| | | |].
      + apply g_sort_sorted.
      + apply g_sort_sorted.
      + eapply Permutation_trans; [apply g_sort_perm|].
        eapply Permutation_trans; [exact P|]. apply Permutation_sym, g_sort_perm.
      + eapply distinct_perm; [apply Permutation_sym, g_sort_perm|exact D].
  Qed.
End TopnPerm.

(* ============================ the tail under a row relation and under a row order *)
Section TailRel.
  Variable R : output -> output -> Prop.
  Variables (sep sep' : list Q) (T : tparams).
  Hypothesis Rmass : forall a b, R a b -> o_mass b = o_mass a.
  Hypothesis Rpass : forall a b, R a b -> pass_out T b = pass_out T a.
  Hypothesis Rclose : forall a b a' b', R a b -> R a' b' ->
    close sep' (o_pos b) (o_pos b') = close sep (o_pos a) (o_pos a').
  Hypothesis Hsep : forallb (Qltb 0) sep' = forallb (Qltb 0) sep.

  Lemma Rmass' : forall a b, R a b -> out_mass b == out_mass a.
  Proof. intros a b H. unfold out_mass. rewrite (Rmass a b H). reflexivity. Qed.

  Lemma NoCloseTie_rel : forall outs rows, Forall2 R outs rows -> NoCloseTie sep outs -> NoCloseTie sep' rows.
  Proof.
    intros outs rows H. apply (fop_Forall2 R _ _ outs rows H).
    intros a b a' b' Ha Hb K Hc E. rewrite (Rclose _ _ _ _ Ha Hb) in Hc. apply (K Hc).
    rewrite <- (Rmass' _ _ Ha), <- (Rmass' _ _ Hb). exact E.
  Qed.

  Lemma NoMassTie_rel : forall outs rows, Forall2 R outs rows -> NoMassTie outs -> NoMassTie rows.
  Proof.
    intros outs rows H. apply (fop_Forall2 R _ _ outs rows H).
    intros a b a' b' Ha Hb K E. apply K. rewrite <- (Rmass' _ _ Ha), <- (Rmass' _ _ Hb). exact E.
  Qed.

  Lemma dominated_rel : forall outs rows x x', Forall2 R outs rows -> R x x' ->
    dominated sep' rows x' = dominated sep outs x.
  Proof.
    intros outs rows x x' H Hx. unfold dominated. apply (existsb_Forall2 R _ _ outs rows H).
    intros a b Hab. rewrite (Rclose _ _ _ _ Hx Hab).
    rewrite (Qltb_comp _ _ _ _ (Rmass' _ _ Hx) (Rmass' _ _ Hab)). reflexivity.
  Qed.

  Lemma dedupe_rel : forall outs rows, Forall2 R outs rows -> NoCloseTie sep outs ->
    Forall2 R (dedupe_out sep outs) (dedupe_out sep' rows).
  Proof.
    intros outs rows H Hnt.
    rewrite (dedupe_out_no_tie sep outs Hnt), (dedupe_out_no_tie sep' rows (NoCloseTie_rel _ _ H Hnt)), Hsep.
    destruct (forallb (Qltb 0) sep); [|exact H].
    apply Forall2_filter; [exact H|]. intros a b Hab. rewrite (dominated_rel outs rows a b H Hab). reflexivity.
  Qed.

  Lemma survivors_rel : forall outs rows, Forall2 R outs rows -> NoCloseTie sep outs ->
    Forall2 R (filter (pass_out T) (dedupe_out sep outs)) (filter (pass_out T) (dedupe_out sep' rows)).
  Proof. intros. apply Forall2_filter; [apply dedupe_rel; assumption|exact Rpass]. Qed.

  Lemma tail_out_rel : forall outs rows, Forall2 R outs rows -> NoCloseTie sep outs ->
    Forall2 R (tail_out sep T outs) (tail_out sep' T rows).
  Proof.
    intros outs rows H Hnt. unfold tail_out.
    apply (g_topn_rel output output out_mass out_mass R Rmass'). apply survivors_rel; assumption.
  Qed.

  Lemma no_tie_rel : forall outs rows, Forall2 R outs rows -> no_tie sep T outs = true -> no_tie sep' T rows = true.
  Proof.
    intros outs rows H Hn. unfold no_tie in *. apply andb_true_iff in Hn. destruct Hn as [H1 H2].
    apply no_close_tie_iff in H1. apply andb_true_iff. split.
    - apply no_close_tie_iff. eapply NoCloseTie_rel; eauto.
    - destruct (t_topn T); [|reflexivity]. apply no_mass_tie_iff. apply no_mass_tie_iff in H2.
      eapply NoMassTie_rel; [|exact H2]. apply survivors_rel; assumption.
  Qed.
End TailRel.

Lemma close_symP : forall sep (x y : output),
  (close sep (o_pos x) (o_pos y) = true -> ~ out_mass x == out_mass y) ->
  (close sep (o_pos y) (o_pos x) = true -> ~ out_mass y == out_mass x).
Proof. intros sep x y H Hc E. rewrite close_sym in Hc. apply (H Hc). symmetry. exact E. Qed.

Lemma dedupe_perm : forall sep outs outs', Permutation outs outs' -> NoCloseTie sep outs ->
  Permutation (dedupe_out sep outs) (dedupe_out sep outs').
Proof.
  intros sep outs outs' P Hnt.
  assert (Hnt' : NoCloseTie sep outs') by (eapply fop_perm; [apply close_symP|exact P|exact Hnt]).
  rewrite (dedupe_out_no_tie sep outs Hnt), (dedupe_out_no_tie sep outs' Hnt').
  destruct (forallb (Qltb 0) sep); [|exact P].
  rewrite (filter_ext _ (fun x => negb (dominated sep outs' x))).
  - apply filter_perm, P.
  - intro x. unfold dominated. rewrite (existsb_perm _ outs outs' P). reflexivity.
Qed.

(* without ties the tail does not depend on the order of refine's table *)
Theorem tail_out_perm : forall sep T outs outs', Permutation outs outs' -> no_tie sep T outs = true ->
  Permutation (tail_out sep T outs) (tail_out sep T outs').
Proof.
  intros sep T outs outs' P Hn. unfold no_tie in Hn. apply andb_true_iff in Hn. destruct Hn as [H1 H2].
  apply no_close_tie_iff in H1. unfold tail_out.
  assert (PS : Permutation (filter (pass_out T) (dedupe_out sep outs)) (filter (pass_out T) (dedupe_out sep outs')))
    by (apply filter_perm, dedupe_perm; assumption).
  destruct (t_topn T) as [n|] eqn:Et; [|exact PS].
  apply g_topn_perm; [exact PS|]. apply no_mass_tie_iff in H2. exact H2.
Qed.

(* the abstract equivariance statement: refine's tables correspond row by row (R) up to
   the row order; without ties, so do the final tables *)
Theorem tail_out_equivariant : forall (R : output -> output -> Prop) sep sep' T,
  (forall a b, R a b -> o_mass b = o_mass a) ->
  (forall a b, R a b -> pass_out T b = pass_out T a) ->
  (forall a b a' b', R a b -> R a' b' -> close sep' (o_pos b) (o_pos b') = close sep (o_pos a) (o_pos a')) ->
  forallb (Qltb 0) sep' = forallb (Qltb 0) sep ->
  forall outs1 outs2 rows,
    no_tie sep T outs1 = true -> Permutation outs2 rows -> Forall2 R outs1 rows ->
    exists rows', Permutation (tail_out sep' T outs2) rows' /\ Forall2 R (tail_out sep T outs1) rows'.
Proof.
  intros R sep sep' T Rm Rp Rc Hs outs1 outs2 rows Hn P H.
  exists (tail_out sep' T rows). split.
  - apply Permutation_sym. apply tail_out_perm; [apply Permutation_sym, P|].
    eapply (no_tie_rel R sep sep' T); eauto.
  - apply (tail_out_rel R sep sep' T); auto.
    unfold no_tie in Hn. apply andb_true_iff in Hn. apply no_close_tie_iff. apply Hn.
Qed.

(* =============================================================== translation *)
Lemma d2r_shift : forall sep p q p' q' (dl : nat -> Q),
  length p' = length p -> length q' = length q ->
  (forall k, (k < length p)%nat -> qx p' k == qx p k + dl k) ->
  (forall k, (k < length q)%nat -> qx q' k == qx q k + dl k) ->
  d2r sep p' q' = d2r sep p q.
Proof.
  induction sep as [|s sep IH]; intros p q p' q' dl Lp Lq Hp Hq; [reflexivity|].
  destruct p as [|a p], p' as [|a' p']; try discriminate; [reflexivity|].
  destruct q as [|b q], q' as [|b' q']; try discriminate; [reflexivity|].
  cbn [d2r]. cbv zeta.
  assert (Ea : a' == a + dl 0%nat) by (apply (Hp 0%nat); cbn; lia).
  assert (Eb : b' == b + dl 0%nat) by (apply (Hq 0%nat); cbn; lia).
  assert (E : Qred (a' / s - b' / s) = Qred (a / s - b / s)).
  { apply Qred_complete. rewrite Ea, Eb. unfold Qdiv. ring. }
  rewrite E. f_equal.
  apply (IH p q p' q' (fun k => dl (S k))).
  - cbn in Lp. lia.
  - cbn in Lq. lia.
  - intros k Hk. apply (Hp (S k)). cbn. lia.
  - intros k Hk. apply (Hq (S k)). cbn. lia.
Qed.

Lemma close_moved : forall sep d a b a' b',
  pos_moved d a a' -> pos_moved d b b' -> close sep a' b' = close sep a b.
Proof.
  intros sep d a b a' b' [La Ha] [Lb Hb]. rewrite !close_spec.
  rewrite (d2r_shift sep a b a' b' (fun k => inject_Z (ix d k))); auto.
Qed.

Lemma pass_out_eq : forall T a b, o_mass b = o_mass a -> out_size b = out_size a \/ t_maxsize T = None ->
  pass_out T b = pass_out T a.
Proof.
  intros T a b Hm Hs. unfold pass_out, passes, to_row, out_mass. cbn [r_mass r_size]. rewrite Hm.
  destruct Hs as [-> | ->]; reflexivity.
Qed.

Section WholeMoved.
  Variable percentile : list Z -> Q.
  Hypothesis percentile_perm : forall l l', Permutation l l' -> percentile l = percentile l'.
  Hypothesis percentile_nonneg : forall l, (forall v, In v l -> (0 <= v)%Z) -> (0 <= percentile l)%Q.

  Theorem locate_whole_moved : forall d im1 im2 P T,
    moved d im1 im2 ->
    length d = length (shape im1) ->
    length (lp_sep P) = length (shape im1) -> length (lp_margin P) = length (shape im1) ->
    length (lp_radius P) = length (shape im1) ->
    Forall (fun s => (1 <= s)%Z) (sizes_of im1 (lp_sep P)) ->
    (forall p, (0 <= pix im1 p)%Z) ->
    content_inside (lp_margin P) im1 -> content_inside (lp_margin P) im2 ->
    content_has_room P d im1 im2 ->
    no_tie (lp_sep P) T (locate_discrete percentile P im1) = true ->
    exists rows, Permutation (locate_whole percentile P T im2) rows /\
                 Forall2 (row_moved d) (locate_whole percentile P T im1) rows.
  Proof.
    intros d im1 im2 P T Hm Hd Hsep Hmg Hrad Hsz Hpos Hin1 Hin2 Hroom Hnt.
    destruct (locate_discrete_moved percentile percentile_perm percentile_nonneg d im1 im2 P
                Hm Hd Hsep Hmg Hrad Hsz Hpos Hin1 Hin2 Hroom) as [rows [Pm F]].
    unfold locate_whole.
    apply (tail_out_equivariant (row_moved d) (lp_sep P) (lp_sep P) T) with (rows := rows); auto.
    - intros a b H. apply H.
    - intros a b [_ [Hmass Hc]]. apply pass_out_eq; [exact Hmass|]. left. unfold out_size. rewrite Hc. reflexivity.
    - intros a b a' b' [Hp _] [Hp' _]. eapply close_moved; eauto.
  Qed.
End WholeMoved.

(* ============================================================ any axis order *)
Lemma list_as_map_nth : forall {A} (def : A) (v : list A) n, length v = n ->
  v = map (fun k => nth k v def) (seq 0 n).
Proof.
  intros A def v n L. apply (nth_ext _ _ def def).
  - rewrite map_length, seq_length. exact L.
  - intros k Hk. rewrite nth_map_seq by lia. reflexivity.
Qed.

Definition d2term (s a b : Q) : Q := Qred (a / s - b / s) * Qred (a / s - b / s).

Lemma d2r_map3 : forall {I} (f g h : I -> Q) (l : list I),
  d2r (map f l) (map g l) (map h l) = fold_right Qplus 0 (map (fun k => d2term (f k) (g k) (h k)) l).
Proof.
  intros I f g h l. induction l as [|k l IH]; [reflexivity|].
  cbn [map d2r fold_right]. cbv zeta. rewrite IH. reflexivity.
Qed.

Lemma d2r_permuted : forall n axes sep p q,
  Permutation axes (seq 0 n) -> length sep = n -> length p = n -> length q = n ->
  d2r (qperm axes sep) (qperm axes p) (qperm axes q) == d2r sep p q.
Proof.
  intros n axes sep p q Hp Ls Lp Lq.
  rewrite (list_as_map_nth 0 sep n Ls) at 2. rewrite (list_as_map_nth 0 p n Lp) at 2.
  rewrite (list_as_map_nth 0 q n Lq) at 2.
  unfold permute. rewrite !d2r_map3. apply qsum_perm. apply Permutation_map. exact Hp.
Qed.

Lemma close_permuted : forall n axes sep p q,
  Permutation axes (seq 0 n) -> length sep = n -> length p = n -> length q = n ->
  close (qperm axes sep) (qperm axes p) (qperm axes q) = close sep p q.
Proof.
  intros n axes sep p q Hp Ls Lp Lq. rewrite !close_spec. apply Qltb_comp; [|reflexivity].
  apply (d2r_permuted n); assumption.
Qed.

Lemma Forall2_and_left : forall {A B} (R : A -> B -> Prop) (Pl : A -> Prop) l l',
  Forall2 R l l' -> Forall Pl l -> Forall2 (fun a b => R a b /\ Pl a) l l'.
Proof.
  intros A B R Pl l l' H. induction H; intro F; [constructor|].
  inversion F; subst. constructor; auto.
Qed.

Lemma Forall2_impl : forall {A B} (R R' : A -> B -> Prop) l l',
  (forall a b, R a b -> R' a b) -> Forall2 R l l' -> Forall2 R' l l'.
Proof. intros A B R R' l l' H F. induction F; constructor; auto. Qed.

Lemma ref_loop_cmi_length : forall pix radius sh thresh mask k c,
  length (r_cmi (ref_loop pix radius sh thresh mask k c)) = length radius.
Proof.
  intros pix radius sh thresh mask k. induction k as [|k IH]; intro c; rewrite ref_loop_unfold; cbv zeta.
  - destruct (all_lt thresh _); cbn [r_cmi]; unfold cmi_of; rewrite map_length, seq_length; reflexivity.
  - destruct (all_lt thresh _); [cbn [r_cmi]; unfold cmi_of; rewrite map_length, seq_length; reflexivity|apply IH].
Qed.

Lemma refine_at_pos_length : forall P im start, length (o_pos (refine_at P im start)) = length (lp_radius P).
Proof.
  intros P im start. unfold refine_at, refine_python, ref_run, ref_output.
  destruct (negb (lp_char P)); cbn [o_pos]; apply ref_loop_cmi_length.
Qed.

Section WholePermuted.
  Variable percentile : list Z -> Q.
  Hypothesis percentile_perm : forall l l', Permutation l l' -> percentile l = percentile l'.

  Theorem locate_whole_axes : forall axes im1 im2 P T,
    Permutation axes (seq 0 (length (shape im1))) -> axes_permuted axes im1 im2 ->
    length (lp_sep P) = length (shape im1) -> length (lp_margin P) = length (shape im1) ->
    length (lp_radius P) = length (shape im1) ->
    Forall (fun s => (1 <= s)%Z) (sizes_of im1 (lp_sep P)) ->
    t_maxsize T = None \/ isotropic (lp_radius P) = true ->
    no_tie (lp_sep P) T (locate_discrete percentile P im1) = true ->
    exists rows, Permutation (locate_whole percentile (lp_perm axes P) T im2) rows /\
                 Forall2 (row_permuted axes) (locate_whole percentile P T im1) rows.
  Proof.
    intros axes im1 im2 P T Hax Hperm Hsep Hmg Hrad Hsz Hms Hnt.
    set (n := length (shape im1)) in *.
    destruct (locate_discrete_axes percentile percentile_perm axes im1 im2 P Hax Hperm Hsep Hmg Hrad Hsz)
      as [rows [Pm F]].
    pose proof (axes_pair_of_permutation n axes Hax) as Hpair.
    set (Pl := fun a : output => length (o_pos a) = n /\
                 (t_maxsize T = None \/ forall sizes sg rm, o_char a = Some (sizes, sg, rm) -> length sizes = 1%nat)).
    assert (FP : Forall Pl (locate_discrete percentile P im1)).
    { apply Forall_forall. intros a Ha. unfold locate_discrete in Ha. apply in_map_iff in Ha.
      destruct Ha as [p [<- _]]. split; [rewrite refine_at_pos_length; exact Hrad|].
      destruct Hms as [Hms|Hiso]; [left; exact Hms|right].
      intros sizes sg rm. apply refine_at_char_isotropic. exact Hiso. }
    pose proof (Forall2_and_left _ Pl _ _ F FP) as F'.
    set (R := fun a b : output => row_permuted axes a b /\ Pl a) in *.
    unfold locate_whole. cbn [lp_perm lp_sep].
    destruct (tail_out_equivariant R (lp_sep P) (qperm axes (lp_sep P)) T) with
      (outs1 := locate_discrete percentile P im1) (outs2 := locate_discrete percentile (lp_perm axes P) im2)
      (rows := rows) as [rows' [P' F'']]; auto.
    - intros a b [[_ [Hm _]] _]. exact Hm.
    - intros a b [[_ [Hm Hc]] [_ Hs]]. apply pass_out_eq; [exact Hm|].
      destruct Hs as [Hs|Hs]; [right; exact Hs|left].
      unfold out_size. destruct (o_char a) as [[[sz sg] rm]|], (o_char b) as [[[sz' sg'] rm']|];
        cbn in Hc; try contradiction; [|reflexivity].
      destruct Hc as [-> _]. rewrite (Hs sz sg rm eq_refl). reflexivity.
    - intros a b a' b' [[Hp _] [La _]] [[Hp' _] [La' _]]. rewrite Hp, Hp'.
      apply (close_permuted n); assumption.
    - apply forallb_perm. apply (permute_as_perm n axes (inv_of axes) Hpair). exact Hsep.
    - exists rows'. split; [exact P'|]. eapply Forall2_impl; [|exact F'']. intros a b H. apply H.
  Qed.
End WholePermuted.

(* ================================= tail_out is the C08 tail (Model/LocateTail) *)
Lemma ins_is_g_ins : forall x l, ins x l = g_ins lrow lmass x l.
Proof. intros x l. induction l as [|y t IH]; cbn; [reflexivity|]. rewrite IH. reflexivity. Qed.
Lemma sort_is_g_sort : forall l, sort_mass l = g_sort lrow lmass l.
Proof. induction l as [|x t IH]; cbn; [reflexivity|]. unfold sort_mass in IH. rewrite IH. apply ins_is_g_ins. Qed.
Lemma argmax_is_g_argmax : forall l b, argmax_from b l = g_argmax_from lrow lmass b l.
Proof. induction l as [|y t IH]; intro b; cbn; [reflexivity|]. rewrite !IH. reflexivity. Qed.
Lemma topn_sel_is_g_topn : forall t l, topn_sel t l = g_topn lrow lmass t l.
Proof.
  intros t l. unfold topn_sel, g_topn. destruct t as [n|]; [|reflexivity].
  destruct (length l <=? n)%nat; [reflexivity|]. destruct (n =? 1)%nat.
  - destruct l; [reflexivity|]. rewrite argmax_is_g_argmax. reflexivity.
  - rewrite sort_is_g_sort. reflexivity.
Qed.

Lemma dedupe_to_row : forall sep outs, dedupe sep (map to_row outs) = map to_row (dedupe_out sep outs).
Proof.
  intros sep outs. unfold dedupe, dedupe_out. destruct (forallb (Qltb 0) sep); [|reflexivity].
  rewrite map_map. cbn [to_row r_pos r_mass].
  generalize (where_close sep (map (fun o => (o_pos o, out_mass o)) outs)). intro W.
  unfold drop_rows. rewrite index_map, filter_map_comm, !map_map. reflexivity.
Qed.

Definition row_of (x : lrow) (o : output) : Prop := snd x = to_row o.

Lemma index_row_of : forall outs s,
  Forall2 row_of (combine (seq s (length outs)) (map to_row outs)) outs.
Proof. induction outs as [|o t IH]; intro s; cbn; constructor; [reflexivity|apply IH]. Qed.

(* the rows tail_out keeps are the rows the C08 model keeps (scale factor 1: integer image) *)
Theorem tail_out_is_C08_tail : forall sep T outs,
  map to_row (tail_out sep T outs) =
  map snd (select (t_minmass T) (t_maxsize T) (t_topn T) (dedupe sep (map to_row outs))).
Proof.
  intros sep T outs. rewrite dedupe_to_row. unfold tail_out, select, sel. rewrite topn_sel_is_g_topn.
  set (cands := dedupe_out sep outs).
  assert (F : Forall2 row_of (g_topn lrow lmass (t_topn T) (filt (t_minmass T) (t_maxsize T) (index (map to_row cands))))
                             (g_topn output out_mass (t_topn T) (filter (pass_out T) cands))).
  { apply (g_topn_rel lrow output lmass out_mass row_of).
    - intros a b H. unfold lmass. rewrite H. reflexivity.
    - unfold filt. apply Forall2_filter.
      + unfold index. rewrite map_length. apply index_row_of.
      + intros a b H. unfold pass_out. rewrite H. reflexivity. }
  induction F as [|a b l l' Hab Hl IH]; cbn; [reflexivity|]. rewrite IH, Hab. reflexivity.
Qed.

(* ===================================================== concrete instances *)
Local Open Scope Z_scope.
(* five peaks: A = 9 at (1,3); B = 7 at (4,3), three pixels from A (closer than the separation
   4, far enough to be a maximum of its own 5x5 box); E = 6 at (1,8); C = 5 at (7,8);
   D = 3 at (8,0) *)
Definition nt_blob (c : list Z) : Z :=
  match c with
  | [1; 3] => 9 | [4; 3] => 7 | [1; 8] => 6 | [7; 8] => 5 | [8; 0] => 3 | _ => 0
  end.
Definition nt_content : image := tab [9; 10] nt_blob.
Definition nt_P : lparams := mkLP [4#1; 4#1]%Q [1; 1] [1; 1] (3 # 5) 3 true.
Definition nt_T : tparams := mkTP (7 # 2)%Q None (Some 2%nat).
Definition nt_im1 : image := embed [20; 21] [4; 5] nt_content.
Definition nt_im2 : image := embed [22; 20] [7; 4] nt_content.
Definition nt_d : list Z := vsub [7; 4] [4; 5].
Definition nt_axes : list nat := [1; 0]%nat.

Lemma nt_blob_nonneg : forall c, 0 <= nt_blob c.
Proof.
  intro c. unfold nt_blob.
  repeat (match goal with |- context [match ?x with _ => _ end] => destruct x end; try lia).
Qed.

Lemma nt_moved_premises :
  moved nt_d nt_im1 nt_im2 /\
  length nt_d = length (shape nt_im1) /\
  length (lp_sep nt_P) = length (shape nt_im1) /\ length (lp_margin nt_P) = length (shape nt_im1) /\
  length (lp_radius nt_P) = length (shape nt_im1) /\
  Forall (fun s => 1 <= s) (sizes_of nt_im1 (lp_sep nt_P)) /\
  (forall p, 0 <= pix nt_im1 p) /\
  content_inside (lp_margin nt_P) nt_im1 /\ content_inside (lp_margin nt_P) nt_im2 /\
  content_has_room nt_P nt_d nt_im1 nt_im2 /\
  no_tie (lp_sep nt_P) nt_T (locate_discrete ex_percentile nt_P nt_im1) = true.
Proof.
  assert (Hw : forall c, pix nt_content c <> 0 -> in_bounds (shape nt_content) c) by (intros c; apply tab_wf).
  assert (H1 : moved nt_d nt_im1 nt_im2).
  { apply embed_moved; try reflexivity. intros c Lc Hc. apply Hw in Hc.
    split; [apply (fitsb_spec [20; 21] [4; 5] [9; 10] [0; 0] c eq_refl Hc)|apply (fitsb_spec [22; 20] [7; 4] [9; 10] [0; 0] c eq_refl Hc)]. }
  assert (H6 : Forall (fun s => 1 <= s) (sizes_of nt_im1 (lp_sep nt_P))).
  { assert (E : sizes_of nt_im1 (lp_sep nt_P) = [5; 5]) by (vm_compute; reflexivity).
    rewrite E. repeat constructor; lia. }
  assert (H7 : forall p, 0 <= pix nt_im1 p) by (apply embed_nonneg, tab_nonneg, nt_blob_nonneg).
  assert (H8 : content_inside (lp_margin nt_P) nt_im1) by (apply embed_content_inside; [reflexivity|exact Hw|reflexivity]).
  assert (H9 : content_inside (lp_margin nt_P) nt_im2) by (apply embed_content_inside; [reflexivity|exact Hw|reflexivity]).
  assert (H10 : content_has_room nt_P nt_d nt_im1 nt_im2) by (apply embed_has_room; try reflexivity; exact Hw).
  assert (H11 : no_tie (lp_sep nt_P) nt_T (locate_discrete ex_percentile nt_P nt_im1) = true) by (vm_compute; reflexivity).
  exact (conj H1 (conj eq_refl (conj eq_refl (conj eq_refl (conj eq_refl (conj H6 (conj H7 (conj H8 (conj H9 (conj H10 H11)))))))))).
Qed.

(* refine's table has five rows; B is dropped as a duplicate of A, D by minmass, C by topn = 2 *)
Lemma nt_instance :
  map o_mass (locate_discrete ex_percentile nt_P nt_im1) = [9; 6; 7; 5; 3] /\
  map o_mass (dedupe_out (lp_sep nt_P) (locate_discrete ex_percentile nt_P nt_im1)) = [9; 6; 5; 3] /\
  locate_whole ex_percentile nt_P nt_T nt_im1 =
    [mkOut [30 # 6; 78 # 6]%Q 6 (Some ([0 # 6]%Q, 6, 6)); mkOut [45 # 9; 72 # 9]%Q 9 (Some ([0 # 9]%Q, 9, 9))] /\
  locate_whole ex_percentile nt_P nt_T nt_im2 =
    [mkOut [48 # 6; 72 # 6]%Q 6 (Some ([0 # 6]%Q, 6, 6)); mkOut [72 # 9; 63 # 9]%Q 9 (Some ([0 # 9]%Q, 9, 9))] /\
  locate_whole ex_percentile (lp_perm nt_axes nt_P) nt_T (transpose_axes nt_axes nt_im1) =
    [mkOut [78 # 6; 30 # 6]%Q 6 (Some ([0 # 6]%Q, 6, 6)); mkOut [72 # 9; 45 # 9]%Q 9 (Some ([0 # 9]%Q, 9, 9))].
Proof. vm_compute. repeat split. Qed.

Lemma nt_axes_premises :
  Permutation nt_axes (seq 0 (length (shape nt_im1))) /\
  axes_permuted nt_axes nt_im1 (transpose_axes nt_axes nt_im1) /\
  length (lp_sep nt_P) = length (shape nt_im1) /\ length (lp_margin nt_P) = length (shape nt_im1) /\
  length (lp_radius nt_P) = length (shape nt_im1) /\
  Forall (fun s => 1 <= s) (sizes_of nt_im1 (lp_sep nt_P)) /\
  (t_maxsize nt_T = None \/ isotropic (lp_radius nt_P) = true) /\
  no_tie (lp_sep nt_P) nt_T (locate_discrete ex_percentile nt_P nt_im1) = true.
Proof.
  assert (Hp : Permutation nt_axes (seq 0 (length (shape nt_im1)))) by (cbn; apply perm_swap).
  split; [exact Hp|]. split.
  { apply transpose_axes_permuted; [exact Hp|]. intros p Hpx. unfold nt_im1 in *. rewrite pix_embed in Hpx.
    cbn [shape embed]. destruct (inb [20; 21] p) eqn:E; [apply inb_iff, E|congruence]. }
  repeat split; try (left; reflexivity); try apply nt_moved_premises.
Qed.

(* ---- the tie: two equal single-pixel peaks at (4,6) and (6,4), mirror images under
   transposition, 2.83 pixels apart with separation 4: equal mass, equal coordinate sum.
   where_close drops the one that comes first in the table -- (4,6) in the image and
   (4,6) again in the transposed image, which is the OTHER peak. *)
Definition tie_blob (c : list Z) : Z := match c with [4; 6] => 9 | [6; 4] => 9 | _ => 0 end.
Definition tie_im : image := tab [11; 11] tie_blob.
Definition tie_T : tparams := mkTP 0%Q None None.

Theorem whole_tie_refuted :
  Permutation nt_axes (seq 0 (length (shape tie_im))) /\
  axes_permuted nt_axes tie_im (transpose_axes nt_axes tie_im) /\
  length (lp_sep nt_P) = length (shape tie_im) /\ length (lp_margin nt_P) = length (shape tie_im) /\
  length (lp_radius nt_P) = length (shape tie_im) /\
  Forall (fun s => 1 <= s) (sizes_of tie_im (lp_sep nt_P)) /\
  (t_maxsize tie_T = None \/ isotropic (lp_radius nt_P) = true) /\
  no_tie (lp_sep nt_P) tie_T (locate_discrete ex_percentile nt_P tie_im) = false /\
  map o_pos (locate_discrete ex_percentile nt_P tie_im) = [[36 # 9; 54 # 9]; [54 # 9; 36 # 9]]%Q /\
  map o_mass (locate_discrete ex_percentile nt_P tie_im) = [9; 9] /\
  map o_pos (locate_whole ex_percentile nt_P tie_T tie_im) = [[54 # 9; 36 # 9]]%Q /\
  map o_pos (locate_whole ex_percentile (lp_perm nt_axes nt_P) tie_T (transpose_axes nt_axes tie_im)) = [[54 # 9; 36 # 9]]%Q /\
  ~ exists rows, Permutation (locate_whole ex_percentile (lp_perm nt_axes nt_P) tie_T (transpose_axes nt_axes tie_im)) rows /\
                 Forall2 (row_permuted nt_axes) (locate_whole ex_percentile nt_P tie_T tie_im) rows.
Proof.
  assert (Hp : Permutation nt_axes (seq 0 (length (shape tie_im)))) by (cbn; apply perm_swap).
  split; [exact Hp|]. split; [apply transpose_axes_permuted; [exact Hp|apply tab_wf]|].
  do 3 (split; [reflexivity|]).
  split. { assert (E : sizes_of tie_im (lp_sep nt_P) = [5; 5]) by (vm_compute; reflexivity). rewrite E. repeat constructor; lia. }
  split; [left; reflexivity|].
  do 5 (split; [vm_compute; reflexivity|]).
  intros [rows [P F]].
  assert (E2 : locate_whole ex_percentile (lp_perm nt_axes nt_P) tie_T (transpose_axes nt_axes tie_im)
               = [mkOut [54 # 9; 36 # 9]%Q 9 (Some ([0 # 9]%Q, 9, 9))]) by (vm_compute; reflexivity).
  assert (E1 : locate_whole ex_percentile nt_P tie_T tie_im
               = [mkOut [54 # 9; 36 # 9]%Q 9 (Some ([0 # 9]%Q, 9, 9))]) by (vm_compute; reflexivity).
  rewrite E2 in P. rewrite E1 in F. apply Permutation_length_1_inv in P. subst rows.
  inversion F as [|? ? ? ? H _]; subst. destruct H as [H _]. cbn in H. discriminate H.
Qed.

(* =========================================================== batch, chunked pool *)
Local Open Scope nat_scope.

(* results by task number: task s, s+1, ... computed by g *)
Fixpoint ires {A B} (s : nat) (g : nat -> A -> B) (xs : list A) : list (option B) :=
  match xs with
  | [] => []
  | x :: t => Some (g s x) :: ires (S s) g t
  end.

Lemma ires_nth : forall {A B} (g : nat -> A -> B) xs s,
  ires s g xs = map (fun i => option_map (g i) (nth_error xs (i - s))) (seq s (length xs)).
Proof.
  intros A B g xs. induction xs as [|x t IH]; intro s; [reflexivity|].
  cbn [ires length seq map]. rewrite Nat.sub_diag. cbn [nth_error option_map]. f_equal.
  rewrite IH. apply map_ext_in. intros i Hi. apply in_seq in Hi.
  replace (i - s) with (S (i - S s)) by lia. reflexivity.
Qed.

Lemma find_task : forall {A B} (g : nat -> A -> B) (xs : list A) i x js,
  nth_error xs i = Some x ->
  find (fun r : nat * B => Nat.eqb (fst r) i)
       (flat_map (fun j => match nth_error xs j with Some y => [(j, g j y)] | None => [] end) js) =
  if existsb (Nat.eqb i) js then Some (i, g i x) else None.
Proof.
  intros A B g xs i x js Hx. induction js as [|j js IH]; [reflexivity|].
  cbn [flat_map existsb]. destruct (Nat.eqb_spec i j) as [<-|Hne].
  - rewrite Hx. cbn. rewrite Nat.eqb_refl. reflexivity.
  - cbn [orb]. destruct (nth_error xs j); cbn; [|exact IH].
    destruct (Nat.eqb_spec j i); [congruence|exact IH].
Qed.

Lemma flat_map_flat_map : forall {A B C} (f : B -> list C) (g : A -> list B) l,
  flat_map (fun x => flat_map f (g x)) l = flat_map f (flat_map g l).
Proof.
  intros A B C f g l. induction l as [|a l IH]; cbn; [reflexivity|]. rewrite flat_map_app, IH. reflexivity.
Qed.

(* a chunked pool hands out exactly the per-task results, whatever the chunk size, the
   completion order of the chunks and the worker each task ran on *)
Theorem run_pool_spec : forall {A B} (c : nat) (csched : list nat) (g : nat -> A -> B) (xs : list A),
  0 < c -> (forall k, k * c < length xs -> In k csched) ->
  run_pool c csched g xs = ires 0 g xs.
Proof.
  intros A B c csched g xs Hc Hs. unfold run_pool. rewrite ires_nth. apply map_ext_in.
  intros i Hi. apply in_seq in Hi. rewrite Nat.sub_0_r.
  destruct (nth_error xs i) as [x|] eqn:Ex; [|apply nth_error_None in Ex; lia].
  rewrite (flat_map_flat_map (fun j => match nth_error xs j with Some y => [(j, g j y)] | None => [] end)
                             (fun k => seq (k * c) c) csched).
  rewrite (find_task g xs i x _ Ex).
  replace (existsb (Nat.eqb i) (flat_map (fun k => seq (k * c) c) csched)) with true; [reflexivity|].
  symmetry. apply existsb_exists. exists i. split; [|apply Nat.eqb_refl].
  apply in_flat_map. exists (i / c).
  pose proof (Nat.div_mod i c ltac:(lia)) as Hd. pose proof (Nat.mod_upper_bound i c ltac:(lia)) as Hm.
  split.
  - apply Hs. nia.
  - apply in_seq. nia.
Qed.

Section BatchPoolProofs.
  Variables frame row : Type.
  Variable locate : frame -> list row.
  Variable frame_no : frame -> option nat.

  Lemma batch_loop_ires : forall (seen : nat -> bool) fs pre acc,
    concat (batch_loop frame row frame_no (pre ++ fs) (length pre)
                       (ires (length pre) (fun i => located frame row locate frame_no (seen i)) fs) acc) =
    concat acc ++ tagged_from frame row locate frame_no (length pre) fs.
  Proof.
    intros seen fs. induction fs as [|f fs IH]; intros pre acc; cbn [ires batch_loop tagged_from].
    - rewrite app_nil_r. reflexivity.
    - assert (E : nth_error (pre ++ f :: fs) (length pre) = Some f).
      { rewrite nth_error_app2 by lia. rewrite Nat.sub_diag. reflexivity. }
      rewrite E. unfold located at 1. cbn [fst snd].
      assert (Tg : (match (if seen (length pre) then frame_no f else None) with
                    | Some k => k
                    | None => match frame_no f with Some k => k | None => length pre end
                    end) = number_of frame frame_no (length pre) f).
      { unfold number_of. destruct (seen (length pre)); destruct (frame_no f); reflexivity. }
      rewrite Tg.
      replace (pre ++ f :: fs) with ((pre ++ [f]) ++ fs) by (rewrite <- app_assoc; reflexivity).
      replace (S (length pre)) with (length (pre ++ [f])) by (rewrite app_length; cbn; lia).
      rewrite IH.
      destruct (map (fun x => (x, number_of frame frame_no (length pre) f)) (locate f)) as [|r0 rs] eqn:Em.
      + reflexivity.
      + rewrite concat_app. cbn [concat]. rewrite app_nil_r, <- app_assoc. reflexivity.
  Qed.

  (* batch over a pool of any size, any chunking: the tagged concatenation *)
  Theorem batch_pool_spec : forall c csched seen frames,
    0 < c -> (forall k, k * c < length frames -> In k csched) ->
    batch_pool frame row locate frame_no c csched seen frames = tagged_from frame row locate frame_no 0 frames.
  Proof.
    intros c csched seen frames Hc Hs. unfold batch_pool. rewrite run_pool_spec by assumption.
    exact (batch_loop_ires seen frames [] []).
  Qed.

  (* when every frame carries a number, the position of a frame in the sequence plays no role *)
  Lemma tagged_from_own : forall (no : frame -> nat) frames i,
    (forall f, In f frames -> frame_no f = Some (no f)) ->
    tagged_from frame row locate frame_no i frames = tagged_own frame row locate no frames.
  Proof.
    intros no frames. induction frames as [|f fs IH]; intros i H; [reflexivity|].
    cbn [tagged_from tagged_own flat_map]. unfold number_of. rewrite (H f (or_introl eq_refl)).
    f_equal. apply IH. intros g Hg. apply H. now right.
  Qed.

  Theorem batch_pool_own_numbers : forall (no : frame -> nat) c csched seen frames,
    0 < c -> (forall k, k * c < length frames -> In k csched) ->
    (forall f, In f frames -> frame_no f = Some (no f)) ->
    batch_pool frame row locate frame_no c csched seen frames = tagged_own frame row locate no frames.
  Proof. intros. rewrite batch_pool_spec by assumption. apply tagged_from_own. assumption. Qed.

  (* same table for any two pools, and for the in-process run *)
  Corollary batch_pool_independent : forall c csched seen c' csched' seen' seen0 frames,
    0 < c -> (forall k, k * c < length frames -> In k csched) ->
    0 < c' -> (forall k, k * c' < length frames -> In k csched') ->
    batch_pool frame row locate frame_no c csched seen frames = batch_pool frame row locate frame_no c' csched' seen' frames /\
    batch_pool frame row locate frame_no c csched seen frames = batch_map frame row locate frame_no seen0 frames.
  Proof.
    intros. rewrite !batch_pool_spec by assumption. split; [reflexivity|]. symmetry. apply batch_map_spec.
  Qed.

  (* a sub-clip of a numbered movie yields exactly the segment of the full movie's table *)
  Corollary batch_pool_subclip : forall (no : frame -> nat) c csched seen c' csched' seen' before clip after,
    0 < c -> (forall k, k * c < length (before ++ clip ++ after) -> In k csched) ->
    0 < c' -> (forall k, k * c' < length clip -> In k csched') ->
    (forall f, In f (before ++ clip ++ after) -> frame_no f = Some (no f)) ->
    batch_pool frame row locate frame_no c csched seen (before ++ clip ++ after) =
    tagged_own frame row locate no before ++
    batch_pool frame row locate frame_no c' csched' seen' clip ++
    tagged_own frame row locate no after.
  Proof.
    intros no c csched seen c' csched' seen' before clip after Hc Hs Hc' Hs' Hno.
    rewrite (batch_pool_own_numbers no c csched seen) by assumption.
    rewrite (batch_pool_own_numbers no c' csched' seen') by
      (try assumption; intros f Hf; apply Hno; apply in_or_app; right; apply in_or_app; left; exact Hf).
    unfold tagged_own. rewrite !flat_map_app. reflexivity.
  Qed.
End BatchPoolProofs.

(* three frames numbered 25, 24, 23 (a reversed sub-clip), two workers, chunks of two
   completing in the order 1, 0, the attribute lost on the way to the second worker *)
Lemma ex_batch_pool :
  batch_pool nat nat (fun n => seq 0 (n - 22)) (fun n => Some n) 2 [1; 0] (fun i => Nat.even i) [25; 24; 23]
  = [(0, 25); (1, 25); (2, 25); (0, 24); (1, 24); (0, 23)].
Proof. vm_compute. reflexivity. Qed.

(* ============================== the correspondence check of vp/props/c09.py is sound *)
Local Open Scope Q_scope.
Definition row_agrees (o : output) (r : list Q * Q) : Prop :=
  Forall2 (fun a b => Qabs (a - b) <= 1 # 1073741824) (o_pos o) (fst r) /\ out_mass o == snd r.

Lemma whole_fold_stuck : forall (l : list (output * (list Q * Q))) (f : N -> output * (list Q * Q) -> N) c,
  (forall acc x, acc <> 0%N -> f acc x = acc) -> c <> 0%N -> fold_left f l c = c.
Proof. intros l f c Hf. induction l as [|x l IH]; intro Hc; cbn; [reflexivity|]. rewrite Hf by exact Hc. apply IH, Hc. Qed.

Lemma whole_fold_sound : forall model rows,
  length model = length rows ->
  fold_left (fun acc (mo : output * (list Q * Q)) =>
               if N.eqb acc 0 then
                 match mo with (o, (pos, mass)) =>
                   if negb (Equivariance.all2 near_pos (o_pos o) pos) then 41%N
                   else if negb (Qeq_bool (out_mass o) mass) then 42%N else 0%N
                 end
               else acc) (combine model rows) 0%N = 0%N ->
  Forall2 row_agrees model rows.
Proof.
  induction model as [|o model IH]; intros [|[pos mass] rows] L H; try discriminate; [constructor|].
  cbn [combine fold_left] in H. cbn [N.eqb] in H.
  destruct (Equivariance.all2 near_pos (o_pos o) pos) eqn:E1; cbn [negb] in H.
  2:{ rewrite whole_fold_stuck in H; [discriminate| |discriminate].
      intros acc x Ha. destruct (N.eqb_spec acc 0); [contradiction|reflexivity]. }
  destruct (Qeq_bool (out_mass o) mass) eqn:E2; cbn [negb] in H.
  2:{ rewrite whole_fold_stuck in H; [discriminate| |discriminate].
      intros acc x Ha. destruct (N.eqb_spec acc 0); [contradiction|reflexivity]. }
  constructor.
  - split; [|apply Qeq_bool_iff, E2]. cbn [fst].
    apply (all2_Forall2 _ _ near_pos); [|exact E1]. intros a b Hn. apply Qle_bool_iff, Hn.
  - apply IH; [cbn in L; lia|exact H].
Qed.

(* code 0: no tie, and locate's table agrees row by row with the model's *)
Theorem check_whole_sound : forall thr P T im rows,
  check_whole thr P T im rows = 0%N ->
  no_tie (lp_sep P) T (locate_discrete (fun _ => thr) P im) = true /\
  Forall2 row_agrees (locate_whole (fun _ => thr) P T im) rows.
Proof.
  intros thr P T im rows H. unfold check_whole in H.
  destruct (existsb _ (find_maxima (fun _ => thr) P im)); [discriminate|].
  fold (locate_discrete (fun _ => thr) P im) in H.
  destruct (no_tie (lp_sep P) T (locate_discrete (fun _ => thr) P im)) eqn:Hn; cbn [negb] in H; [|discriminate].
  destruct (borderline (lp_sep P) (locate_discrete (fun _ => thr) P im)); [discriminate|].
  split; [reflexivity|]. unfold locate_whole.
  destruct (length (tail_out (lp_sep P) T (locate_discrete (fun _ => thr) P im)) =? length rows)%nat eqn:L;
    cbn [negb] in H; [|discriminate].
  apply Nat.eqb_eq in L. apply whole_fold_sound; assumption.
Qed.
