(* Proofs about the composed model of locate (Model/LocatePipe.v): every feature it
   returns lies inside the image -- more precisely inside the mask window of a window
   centre that keeps the distance radius from every border.

   Chain:  a maximum returned by grey_dilation is outside the margin (C06), the margin
   is at least the radius (locate's own formula), so the start window is inside the
   image; shift-and-clip keeps every visited window inside (C07: ref_loop_inv); the
   reported position is the brightness centroid of the last evaluated window (or its
   centre when the window is dark), which for non-negative pixels lies in the window
   -- and locate clips the image at zero before all this (7e846f3, F18), so the pixels
   are non-negative for every integer image; the tail only removes rows (C08:
   tail_output_ok). *)
From Coq Require Import ZArith QArith Qround List Bool Arith Lia Lqa.
From TP Require Import Model.Dilation Model.COM Model.LocateTail Model.LocateTailSpec Model.LocatePipe.
From TP Require Proofs.Dilation Proofs.COM Proofs.LocateTail.
Import ListNotations.
Open Scope Z_scope.

(* ------------------------------------------------------------ small facts *)
Lemma shift_thresh_nonneg : (0 <= shift_thresh)%Q.
Proof. unfold shift_thresh, Qle. cbn. lia. Qed.

Lemma all_some_spec : forall {A} (l : list (option A)) r,
  all_some l = Some r -> l = map Some r.
Proof.
  induction l as [|[x|] t IH]; cbn; intros r H.
  - injection H as <-. reflexivity.
  - destruct (all_some t) as [t'|]; [|discriminate]. injection H as <-.
    cbn. now rewrite (IH t' eq_refl).
  - discriminate.
Qed.

Lemma ix_nth_error : forall (l : list Z) d x, nth_error l d = Some x -> ix l d = x.
Proof. intros l d x H. unfold ix. now apply nth_error_nth. Qed.

(* ------------------------------------------ margin >= radius, start window *)
Lemma margins_length : forall radius sep smooth,
  length sep = length radius -> length smooth = length radius ->
  length (margins radius sep smooth) = length radius.
Proof.
  induction radius as [|r radius IH]; intros [|s sep] [|m smooth] H1 H2; cbn in *; try discriminate; auto.
Qed.

Lemma outside_margins_window : forall radius sep smooth sh p,
  Proofs.Dilation.outside_margin sh (margins radius sep smooth) p ->
  length radius = length sh ->
  length p = length radius /\ window_inside radius sh p.
Proof.
  unfold Proofs.Dilation.outside_margin.
  induction radius as [|r radius IH]; intros sep smooth sh p H L.
  - destruct sh; [|discriminate]. cbn in H. inversion H; subst. split; [reflexivity|].
    intros d Hd. cbn in Hd. lia.
  - destruct sh as [|n sh]; [discriminate|].
    destruct sep as [|s sep]; [cbn in H; inversion H|].
    destruct smooth as [|m smooth]; [cbn in H; inversion H|].
    cbn [margins] in H. inversion H; subst.
    destruct (IH sep smooth sh lc) as [Lp W]; [assumption|cbn in L; lia|].
    split; [cbn; lia|].
    intros d Hd. destruct d as [|d].
    + unfold ix. cbn [nth]. lia.
    + unfold ix. cbn [nth]. apply (W d). cbn in Hd. lia.
Qed.

Section Maxima.
  Variable percentile : list Z -> Q.

  Lemma maxima_start_window : forall L im p,
    length (l_radius L) = length (shape im) ->
    length (l_sep L) = length (shape im) -> length (l_smooth L) = length (shape im) ->
    In p (maxima percentile L im) ->
    length p = length (l_radius L) /\ window_inside (l_radius L) (shape im) p.
  Proof.
    intros L im p Lr Ls Lm H. unfold maxima in H.
    rewrite Proofs.Dilation.gd_nonprecise_eq in H.
    rewrite Proofs.Dilation.convert_to_int_integer in H.
    destruct (not_black im); [destruct H|].
    unfold Proofs.Dilation.gd_core, Proofs.Dilation.eff_margin, local_maxima in H.
    apply filter_In in H. destruct H as [H Hne]. apply filter_In in H. destruct H as [Hc _].
    apply Proofs.Dilation.in_coords in Hc. pose proof (Proofs.Dilation.in_bounds_length _ _ Hc) as Lp.
    apply negb_true_iff in Hne.
    apply Proofs.Dilation.near_edge_false in Hne.
    - apply (outside_margins_window _ _ _ _ _ Hne Lr).
    - lia.
    - rewrite margins_length; lia.
  Qed.
End Maxima.

(* ------------------------------- the centroid of a non-negative window *)
Lemma zsum_weighted_bounds : forall {A} (w g : A -> Z) (K : Z) (l : list A),
  (forall x, In x l -> 0 <= w x /\ 0 <= g x <= K) ->
  0 <= zsum (map w l) /\
  0 <= zsum (map (fun x => w x * g x) l) <= K * zsum (map w l).
Proof.
  intros A w g K l. induction l as [|a t IH]; intros H.
  - cbn. lia.
  - cbn [map zsum fold_right]. fold (zsum (map w t)). fold (zsum (map (fun x => w x * g x) t)).
    destruct (H a (or_introl eq_refl)) as [Hw [Hg0 HgK]].
    destruct IH as [I1 [I2 I3]]; [intros x Hx; apply H; now right|].
    unfold zsum in *. cbn [fold_right]. nia.
Qed.

Section Window.
  Variable pix : list Z -> Z.
  Variable radius : list Z.
  Hypothesis pix_nonneg : forall p, 0 <= pix p.
  Let mask := binary_mask radius.

  Lemma nbh_nonneg : forall c p, 0 <= nbh pix radius mask c p.
  Proof. intros. unfold nbh. destruct (mask p); [apply pix_nonneg|lia]. Qed.

  Lemma moment_bounds : forall c d, (d < length radius)%nat ->
    0 <= nb_sum pix radius mask c /\
    0 <= nb_moment pix radius mask c d <= 2 * ix radius d * nb_sum pix radius mask c.
  Proof.
    intros c d Hd. unfold nb_sum, nb_moment.
    apply (zsum_weighted_bounds (nbh pix radius mask c) (fun p => ix p d) (2 * ix radius d) (COM.box radius)).
    intros p Hp. split; [apply nbh_nonneg|].
    apply Proofs.COM.in_box in Hp. destruct Hp as [_ B]. apply B. exact Hd.
  Qed.

  (* the position reported for the window at c lies within the window, axis by axis *)
  Lemma cmi_in_window : forall c d, (d < length radius)%nat -> 0 <= ix radius d ->
    (inject_Z (ix c d - ix radius d) <= qx (Proofs.COM.cmi_at pix radius c) d
                                      <= inject_Z (ix c d + ix radius d))%Q.
  Proof.
    intros c d Hd Hr. unfold Proofs.COM.cmi_at. cbv zeta. unfold dims, ndim.
    rewrite Proofs.COM.qx_map_seq by exact Hd. rewrite Proofs.COM.qx_map_seq by exact Hd.
    destruct (moment_bounds c d Hd) as [Hs [Hm0 HmK]]. fold mask.
    unfold safe_com. destruct (nb_sum pix radius mask c =? 0) eqn:E.
    - (* dark window: the mask centre *)
      assert (Hq : qx (map inject_Z radius) d = inject_Z (ix radius d)).
      { unfold qx, ix. rewrite nth_indep with (d' := inject_Z 0) by now rewrite map_length.
        apply map_nth. }
      rewrite Hq. unfold Z.sub. rewrite !inject_Z_plus, inject_Z_opp.
      assert (0 <= inject_Z (ix radius d))%Q
        by (change 0%Q with (inject_Z 0); now rewrite <- Zle_Qle).
      split; lra.
    - apply Z.eqb_neq in E. unfold dims, ndim. rewrite Proofs.COM.qx_map_seq by exact Hd.
      assert (Hpos : 0 < nb_sum pix radius mask c) by lia.
      set (s := nb_sum pix radius mask c) in *. set (m := nb_moment pix radius mask c d) in *.
      unfold qdiv.
      assert (Hs' : (0 < inject_Z s)%Q) by (change 0%Q with (inject_Z 0); now rewrite <- Zlt_Qlt).
      assert (H0 : (0 <= inject_Z m / inject_Z s)%Q).
      { apply Qle_shift_div_l; [exact Hs'|]. rewrite Qmult_0_l.
        change 0%Q with (inject_Z 0). now rewrite <- Zle_Qle. }
      assert (H1 : (inject_Z m / inject_Z s <= 2 * inject_Z (ix radius d))%Q).
      { apply Qle_shift_div_r; [exact Hs'|].
        change 2%Q with (inject_Z 2). rewrite <- !inject_Z_mult. rewrite <- Zle_Qle. lia. }
      unfold Z.sub. rewrite !inject_Z_plus, inject_Z_opp.
      split; lra.
  Qed.
End Window.

(* ------------------------------------------------ one refined feature *)
Lemma refine_python_in_window : forall pix rawpix radius shape thresh maxit ch start,
  (forall p, 0 <= pix p) -> Forall (fun r => 0 <= r) radius ->
  length start = length radius -> window_inside radius shape start ->
  in_a_window radius shape (o_pos (refine_python pix rawpix radius shape thresh maxit ch start)).
Proof.
  intros pix rawpix radius shape thresh maxit ch start Hpix Hr Ls Hw.
  unfold refine_python, ref_run.
  destruct (Proofs.COM.ref_loop_inv pix radius shape thresh (pred (iters_of maxit)) start Ls Hw) as [Lc [Wc Hcmi]].
  set (st := ref_loop pix radius shape thresh (binary_mask radius) (pred (iters_of maxit)) start) in *.
  assert (Hpos : o_pos (ref_output pix rawpix radius (binary_mask radius) ch st) = Proofs.COM.cmi_at pix radius (r_rect st)).
  { unfold ref_output. destruct ch; cbn [negb o_pos]; exact Hcmi. }
  rewrite Hpos. exists (r_rect st). split; [exact Lc|]. split; [exact Wc|].
  split.
  - unfold Proofs.COM.cmi_at, dims, ndim. cbv zeta. now rewrite map_length, seq_length.
  - intros d Hd. apply cmi_in_window; [exact Hpix|exact Hd|].
    rewrite Forall_forall in Hr. apply Hr. unfold ix. apply nth_In. exact Hd.
Qed.

Lemma inside_image_nth : forall shape pos,
  length pos = length shape ->
  (forall d, (d < length shape)%nat -> (0 <= qx pos d <= inject_Z (ix shape d) - 1)%Q) ->
  inside_image (map inject_Z shape) pos.
Proof.
  induction shape as [|n shape IH]; intros [|x pos] L H; cbn in L; try discriminate.
  - exact I.
  - cbn [map inside_image]. destruct (H 0%nat) as [H0 H1]; [cbn; lia|].
    unfold qx, ix in H0, H1. cbn [nth] in H0, H1.
    split; [exact H0|]. split; [exact H1|].
    apply IH; [lia|]. intros d Hd. specialize (H (S d)). unfold qx, ix in *. cbn [nth] in H.
    apply H. cbn. lia.
Qed.

Lemma in_a_window_inside : forall radius shape pos,
  length shape = length radius -> in_a_window radius shape pos ->
  inside_image (map inject_Z shape) pos.
Proof.
  intros radius shape pos L [c [Lc [W [Lp B]]]].
  apply inside_image_nth; [lia|].
  intros d Hd. rewrite L in Hd. specialize (W d Hd). specialize (B d Hd).
  destruct B as [B0 B1].
  assert (E0 : (0 <= inject_Z (ix c d - ix radius d))%Q)
    by (change 0%Q with (inject_Z 0); rewrite <- Zle_Qle; lia).
  assert (E1 : (inject_Z (ix c d + ix radius d) <= inject_Z (ix shape d) - 1)%Q).
  { change 1%Q with (inject_Z 1). unfold Qminus. rewrite <- inject_Z_opp, <- inject_Z_plus.
    rewrite <- Zle_Qle. lia. }
  split; [eapply Qle_trans; eassumption|eapply Qle_trans; eassumption].
Qed.

(* ------------------------------------------ the tail invents no position *)
Lemma tail_pos_from_rows : forall P rows x, In x (tail P rows) ->
  exists r, In r rows /\ r_pos (snd (fst x)) = r_pos r.
Proof.
  intros P rows x Hx. unfold tail in Hx. apply in_map_iff in Hx. destruct Hx as [y [<- Hy]].
  cbn [fst snd]. unfold select in Hy. apply Proofs.LocateTail.sel_in in Hy. destruct Hy as [Hy _].
  assert (H : In (snd y) (candidates (p_sep P) (p_sf P) rows)).
  { rewrite <- (Proofs.LocateTail.map_snd_index (candidates _ _ rows)). now apply in_map. }
  unfold candidates in H. apply in_map_iff in H. destruct H as [r [E Hr]].
  exists r. split; [eapply Proofs.LocateTail.dedupe_in; eauto|]. now rewrite <- E.
Qed.

(* ---------------------------------------------------- the whole pipeline *)
Section Locate.
  Variable percentile : list Z -> Q.
  Variable sqrtf : Q -> Q.

  Lemma refine_one_is_python : forall L im raw p o,
    (l_numba L = true -> (2 <= length (l_radius L))%nat /\ Forall (fun r => 1 <= r) (l_radius L)) ->
    refine_one L im raw p = Some o ->
    o = refine_python (pix im) (pix raw) (l_radius L) (shape im) shift_thresh (l_maxit L) (l_char L) p.
  Proof.
    intros L im raw p o Hn H. unfold refine_one in H. destruct (l_numba L).
    - destruct (Hn eq_refl) as [H2 H1].
      rewrite (Proofs.COM.engines_agree _ _ _ _ _ _ _ _ shift_thresh_nonneg H2 H1) in H.
      destruct (ref_nonzero _ _ _ _ _ _ _); [|discriminate]. now injection H as <-.
    - now injection H as <-.
  Qed.

  Theorem locate_on_inside_image : forall L im raw out,
    (forall p, 0 <= pix im p) ->
    Forall (fun r => 0 <= r) (l_radius L) ->
    length (l_radius L) = length (shape im) ->
    length (l_sep L) = length (shape im) -> length (l_smooth L) = length (shape im) ->
    (l_numba L = true -> (2 <= length (l_radius L))%nat /\ Forall (fun r => 1 <= r) (l_radius L)) ->
    locate_on percentile sqrtf L im raw = Some out ->
    Forall (fun x => in_a_window (l_radius L) (shape im) (r_pos (snd (fst x))) /\
                     inside_image (map inject_Z (shape im)) (r_pos (snd (fst x)))) out.
  Proof.
    intros L im raw out Hpix Hr Lr Ls Lm Hn H. unfold locate_on in H.
    destruct (negb (isotropic (l_radius L)) && is_some (l_maxsize L)); [discriminate|].
    destruct (all_some (map (refine_one L im raw) (maxima percentile L im))) as [outs|] eqn:E; [|discriminate].
    apply all_some_spec in E.
    assert (Hin : forall r, In r (map (row_of sqrtf) outs) -> in_a_window (l_radius L) (shape im) (r_pos r)).
    { intros r Hrw. apply in_map_iff in Hrw. destruct Hrw as [o [<- Ho]]. cbn [row_of r_pos].
      assert (Ho' : In (Some o) (map (refine_one L im raw) (maxima percentile L im)))
        by (rewrite E; now apply in_map).
      apply in_map_iff in Ho'. destruct Ho' as [p [Hp Hmax]].
      apply refine_one_is_python in Hp; [|exact Hn]. subst o.
      destruct (maxima_start_window percentile L im p Lr Ls Lm Hmax) as [Lp Wp].
      now apply refine_python_in_window. }
    assert (Hout : forall l, Some (tail (tail_params sqrtf L im raw) (map (row_of sqrtf) outs)) = Some l ->
                   Forall (fun x => in_a_window (l_radius L) (shape im) (r_pos (snd (fst x))) /\
                                    inside_image (map inject_Z (shape im)) (r_pos (snd (fst x)))) l).
    { intros l El. injection El as <-. rewrite Forall_forall. intros x Hx.
      apply tail_pos_from_rows in Hx. destruct Hx as [r [Hrw Ex]]. cbv beta.
      assert (W : in_a_window (l_radius L) (shape im) (r_pos (snd (fst x))))
        by exact (eq_ind_r (fun q => in_a_window (l_radius L) (shape im) q) (Hin r Hrw) Ex).
      split; [exact W|].
      apply (in_a_window_inside (l_radius L)); [lia|exact W]. }
    destruct outs as [|o outs'].
    - injection H as <-. constructor.
    - destruct (negb (l_char L) && is_some (l_maxsize L)); [discriminate|]. now apply Hout.
  Qed.

  (* image.clip(min=0): no negative pixel is left, the shape is the raw image's *)
  Lemma pix_clip0 : forall raw p, pix (clip0 raw) p = Z.max 0 (pix raw p).
  Proof. intros. unfold pix, clip0. cbn [data]. now apply Proofs.Dilation.get_arr_map. Qed.

  (* locate as it is now: every integer image, negative pixels included *)
  Theorem locate_inside_image : forall L raw out,
    Forall (fun r => 0 <= r) (l_radius L) ->
    length (l_radius L) = length (shape raw) ->
    length (l_sep L) = length (shape raw) -> length (l_smooth L) = length (shape raw) ->
    (l_numba L = true -> (2 <= length (l_radius L))%nat /\ Forall (fun r => 1 <= r) (l_radius L)) ->
    locate percentile sqrtf L raw = Some out ->
    Forall (fun x => in_a_window (l_radius L) (shape raw) (r_pos (snd (fst x))) /\
                     inside_image (map inject_Z (shape raw)) (r_pos (snd (fst x)))) out.
  Proof.
    intros L raw out Hr Lr Ls Lm Hn H. unfold locate in H.
    apply (locate_on_inside_image L (clip0 raw) raw out); auto.
    intros p. rewrite pix_clip0. lia.
  Qed.
End Locate.
