(* 2-D edge correction closed: arclen_2d (Model/StaticGeom.v) is r times the
   angular measure of the directions that stay inside the box, for EVERY centre
   in the closed box and EVERY r > 0 (no upper bound on r is needed: the arcs
   cut off by opposite walls never meet because each has half-width <= PI/2, so
   the inclusion-exclusion over four caps and four adjacent corners is exact).

   Route: (1) each wall leaves exactly the directions outside an open arc of
   half-width cut_halfwidth h r around the wall's direction; (2) hence the
   directions inside the box are exactly the four closed quadrant intervals
   [gaps]; (3) the total length of [gaps] times r is the code's expression
   (corner term present iff the two cut-off arcs overlap iff h1^2+h2^2 < r^2);
   (4) the length of a sorted list of intervals is the Riemann integral of the
   indicator of its union (so it is the measure, and is unique). *)
From Coq Require Import Reals Lra List.
From Coquelicot Require Import Coquelicot.
From TP Require Import Model.StaticGeom Model.StaticGeom2 Proofs.StaticGeom.
Import ListNotations.
Open Scope R_scope.

(* ------------------------------------------------------------------ *)
(* trigonometry on [-PI, PI]                                           *)
(* ------------------------------------------------------------------ *)
Lemma cos_lt_acos c t : -1 <= c <= 1 -> 0 <= t <= PI -> (c < cos t <-> t < acos c).
Proof.
  intros Hc Ht. pose proof (acos_bound c) as B. pose proof (cos_acos c Hc) as E.
  set (a := acos c) in *. rewrite <- E. split; intro H.
  - apply cos_decreasing_0 in H; lra.
  - apply cos_decreasing_1; lra.
Qed.

Lemma cos_gt_acos c t : -1 <= c <= 1 -> 0 <= t <= PI -> (cos t < c <-> acos c < t).
Proof.
  intros Hc Ht. pose proof (acos_bound c) as B. pose proof (cos_acos c Hc) as E.
  set (a := acos c) in *. rewrite <- E. split; intro H.
  - apply cos_decreasing_0 in H; lra.
  - apply cos_decreasing_1; lra.
Qed.

Lemma cos_Rabs t : cos (Rabs t) = cos t.
Proof. unfold Rabs. destruct (Rcase_abs t); auto. apply cos_neg. Qed.

Lemma Rabs_range t : - PI <= t <= PI -> 0 <= Rabs t <= PI.
Proof. intros H. unfold Rabs. destruct (Rcase_abs t); lra. Qed.

Lemma sin_nonpos t : - PI <= t <= 0 -> sin t <= 0.
Proof.
  intros H. replace t with (- (- t)) by ring. rewrite sin_neg.
  assert (0 <= sin (- t)) by (apply sin_ge_0; lra). lra.
Qed.

Lemma sin_as_cos t : sin t = cos (t - PI / 2).
Proof. replace (t - PI / 2) with (- (PI / 2 - t)) by ring. rewrite cos_neg, cos_shift. reflexivity. Qed.

Lemma scaled_le h r c : 0 < r -> (r * c <= h <-> ~ h / r < c).
Proof. intros Hr. rewrite <- (scaled_lt h r c Hr). lra. Qed.

Lemma scaled_ge h r c : 0 < r -> (- h <= r * c <-> ~ c < - (h / r)).
Proof.
  intros Hr. assert (E : c < - (h / r) <-> h < r * (- c)).
  { rewrite (scaled_lt h r (- c) Hr). lra. }
  rewrite E. lra.
Qed.

(* ------------------------------------------------------------------ *)
(* the half-width cut off by one wall                                  *)
(* ------------------------------------------------------------------ *)
Lemma acos_ratio_bounds h r : 0 <= h < r -> 0 < acos (h / r) <= PI / 2.
Proof.
  intros H. destruct (ratio_bounds h r H) as [X0 X1]. assert (P := PI_RGT_0). split.
  - apply acos_bound_lt. lra.
  - destruct (Rle_dec (acos (h / r)) (PI / 2)) as [L|L]; auto.
    assert (C : h / r < cos (PI / 2)) by (apply cos_lt_acos; lra).
    rewrite cos_PI2 in C. lra.
Qed.

Lemma cut_halfwidth_bounds h r : 0 <= h -> 0 <= cut_halfwidth h r <= PI / 2.
Proof.
  intros H. assert (P := PI_RGT_0). unfold cut_halfwidth. destruct (Rlt_dec h r).
  - destruct (acos_ratio_bounds h r); lra.
  - lra.
Qed.

(* right wall (direction 0): stays inside iff |theta| >= half-width *)
Lemma wall_right h r t : 0 < r -> 0 <= h -> - PI <= t <= PI ->
  (r * cos t <= h <-> cut_halfwidth h r <= Rabs t).
Proof.
  intros Hr Hh Ht. pose proof (Rabs_range t Ht) as A. unfold cut_halfwidth.
  destruct (Rlt_dec h r) as [L|L].
  - destruct (ratio_bounds h r (conj Hh L)) as [X0 X1].
    rewrite (scaled_le h r (cos t) Hr), <- (cos_Rabs t), (cos_lt_acos (h / r) (Rabs t)) by lra. lra.
  - pose proof (COS_bound t) as [_ C].
    assert (r * cos t <= r * 1) by (apply Rmult_le_compat_l; lra). lra.
Qed.

(* left wall (direction PI): stays inside iff |theta| <= PI - half-width *)
Lemma wall_left h r t : 0 < r -> 0 <= h -> - PI <= t <= PI ->
  (- h <= r * cos t <-> Rabs t <= PI - cut_halfwidth h r).
Proof.
  intros Hr Hh Ht. pose proof (Rabs_range t Ht) as A. unfold cut_halfwidth.
  destruct (Rlt_dec h r) as [L|L].
  - destruct (ratio_bounds h r (conj Hh L)) as [X0 X1].
    rewrite (scaled_ge h r (cos t) Hr), <- (cos_Rabs t), (cos_gt_acos (- (h / r)) (Rabs t)) by lra.
    rewrite acos_opp. lra.
  - pose proof (COS_bound t) as [C _].
    assert (r * -1 <= r * cos t) by (apply Rmult_le_compat_l; lra). lra.
Qed.

(* top wall (direction PI/2) *)
Lemma wall_top h r t : 0 < r -> 0 <= h -> - PI <= t <= PI ->
  (r * sin t <= h <-> t <= PI / 2 - cut_halfwidth h r \/ PI / 2 + cut_halfwidth h r <= t).
Proof.
  intros Hr Hh Ht. pose proof (cut_halfwidth_bounds h r Hh) as B. assert (P := PI_RGT_0).
  destruct (Rlt_dec t (- (PI / 2))) as [Q|Q].
  - assert (S : sin t <= 0) by (apply sin_nonpos; lra).
    assert (r * sin t <= r * 0) by (apply Rmult_le_compat_l; lra). split; intros _; lra.
  - rewrite sin_as_cos, (wall_right h r (t - PI / 2) Hr Hh) by lra.
    unfold Rabs. destruct (Rcase_abs (t - PI / 2)); lra.
Qed.

(* bottom wall (direction -PI/2) *)
Lemma wall_bottom h r t : 0 < r -> 0 <= h -> - PI <= t <= PI ->
  (- h <= r * sin t <-> t <= - (PI / 2) - cut_halfwidth h r \/ - (PI / 2) + cut_halfwidth h r <= t).
Proof.
  intros Hr Hh Ht.
  assert (W := wall_top h r (- t) Hr Hh). rewrite sin_neg in W.
  assert (E : r * - sin t <= h <-> - h <= r * sin t) by lra.
  rewrite <- E, W by lra. lra.
Qed.

(* ------------------------------------------------------------------ *)
(* (2) the directions inside the box are exactly the four gaps          *)
(* ------------------------------------------------------------------ *)
Theorem dir_inside_iff_gaps r hl hr hb ht t :
  0 < r -> 0 <= hl -> 0 <= hr -> 0 <= hb -> 0 <= ht -> - PI < t <= PI ->
  (dir_inside r hl hr hb ht t <-> in_arcs (gaps r hl hr hb ht) t).
Proof.
  intros Hr Hl Hrr Hb Htt Ht. unfold dir_inside, gaps. cbn [in_arcs].
  assert (T : - PI <= t <= PI) by lra.
  rewrite (wall_left hl r t Hr Hl T), (wall_right hr r t Hr Hrr T),
          (wall_bottom hb r t Hr Hb T), (wall_top ht r t Hr Htt T).
  pose proof (cut_halfwidth_bounds hl r Hl). pose proof (cut_halfwidth_bounds hr r Hrr).
  pose proof (cut_halfwidth_bounds hb r Hb). pose proof (cut_halfwidth_bounds ht r Htt).
  unfold Rabs. destruct (Rcase_abs t); lra.
Qed.

Theorem gaps_sorted r hl hr hb ht :
  0 <= hl -> 0 <= hr -> 0 <= hb -> 0 <= ht -> arcs_sorted (- PI) (gaps r hl hr hb ht) PI.
Proof.
  intros Hl Hrr Hb Htt.
  pose proof (cut_halfwidth_bounds hl r Hl). pose proof (cut_halfwidth_bounds hr r Hrr).
  pose proof (cut_halfwidth_bounds hb r Hb). pose proof (cut_halfwidth_bounds ht r Htt).
  unfold gaps. cbn [arcs_sorted]. unfold Rmax.
  repeat match goal with |- context [Rle_dec ?a ?b] => destruct (Rle_dec a b) end; lra.
Qed.

(* ------------------------------------------------------------------ *)
(* (3) the code's expression is r times the length of the gaps          *)
(* ------------------------------------------------------------------ *)
Lemma cap_term_halfwidth h r : cap_term h r = r * (2 * cut_halfwidth h r).
Proof. unfold cap_term, cut_halfwidth, circle_cap_arclen. destruct (Rlt_dec h r); ring. Qed.

Lemma sq_scaled h r : 0 < r -> h * h = (h / r) * (h / r) * (r * r).
Proof. intros Hr. field. lra. Qed.

(* the arcs cut off by two adjacent walls overlap iff the corner is inside the circle *)
Lemma corner_inside_iff h1 h2 r : 0 <= h1 < r -> 0 <= h2 < r ->
  (h1 * h1 + h2 * h2 < r * r <-> PI / 2 < acos (h1 / r) + acos (h2 / r)).
Proof.
  intros H1 H2. assert (Hr : 0 < r) by lra. assert (P := PI_RGT_0).
  destruct (ratio_bounds h1 r H1) as [X0 X1]. destruct (ratio_bounds h2 r H2) as [Y0 Y1].
  destruct (acos_ratio_bounds h1 r H1) as [A0 A1]. destruct (acos_ratio_bounds h2 r H2) as [B0 B1].
  pose proof (cos_acos (h1 / r)) as Ex. pose proof (cos_acos (h2 / r)) as Ey.
  rewrite (sq_scaled h1 r Hr), (sq_scaled h2 r Hr).
  set (x := h1 / r) in *. set (y := h2 / r) in *.
  set (a := acos x) in *. set (b := acos y) in *.
  assert (Cx : cos a = x) by (apply Ex; lra). assert (Cy : cos b = y) by (apply Ey; lra).
  assert (S0 : 0 <= sin b) by (apply sin_ge_0; lra).
  assert (S2 : sin b * sin b + y * y = 1).
  { pose proof (sin2_cos2 b) as Q. unfold Rsqr in Q. rewrite Cy in Q. exact Q. }
  assert (Cs : cos (PI / 2 - b) = sin b) by apply cos_shift.
  assert (RR : 0 < r * r) by (apply Rmult_lt_0_compat; lra).
  assert (M : x * x * (r * r) + y * y * (r * r) < r * r <-> x * x + y * y < 1).
  { split; intro H.
    - apply Rmult_lt_reg_r with (r * r); auto. lra.
    - apply Rmult_lt_compat_r with (r := r * r) in H; auto. lra. }
  rewrite M. split; intro H.
  - (* x < sin b, hence PI/2 - b < a *)
    assert (L : x < sin b).
    { destruct (Rlt_dec x (sin b)); auto.
      assert (sin b * sin b <= x * x) by (apply Rmult_le_compat; lra). lra. }
    rewrite <- Cx, <- Cs in L. apply cos_decreasing_0 in L; lra.
  - assert (L : cos a < cos (PI / 2 - b)) by (apply cos_decreasing_1; lra).
    rewrite Cx, Cs in L.
    assert (x * x < sin b * sin b) by (apply Rmult_le_0_lt_compat; lra). lra.
Qed.

Lemma corner_term_halfwidth h1 h2 r : 0 < r -> 0 <= h1 -> 0 <= h2 ->
  corner_term h1 h2 r = r * Rmax 0 (cut_halfwidth h1 r + cut_halfwidth h2 r - PI / 2).
Proof.
  intros Hr H1 H2. assert (P := PI_RGT_0). unfold corner_term, cut_halfwidth.
  assert (Big : forall h k, 0 <= h -> 0 <= k -> ~ h < r -> ~ h * h + k * k < r * r).
  { intros h k Hh Hk Nh C. assert (r * r <= h * h) by (apply Rmult_le_compat; lra).
    assert (0 <= k * k) by (apply Rmult_le_pos; lra). lra. }
  destruct (Rlt_dec h1 r) as [L1|L1]; destruct (Rlt_dec h2 r) as [L2|L2].
  - pose proof (corner_inside_iff h1 h2 r (conj H1 L1) (conj H2 L2)) as C.
    destruct (ratio_bounds h1 r (conj H1 L1)).
    unfold circle_corner_arclen. rewrite (asin_acos (h1 / r)) by lra.
    destruct C as [C1 C2].
    destruct (Rlt_dec (h1 * h1 + h2 * h2) (r * r)) as [I|I].
    + apply C1 in I. rewrite Rmax_right by lra. ring.
    + assert (N : ~ PI / 2 < acos (h1 / r) + acos (h2 / r)) by (intro N; apply I, C2, N).
      rewrite Rmax_left by lra. ring.
  - destruct (Rlt_dec (h1 * h1 + h2 * h2) (r * r)) as [I|I].
    + exfalso. apply (Big h2 h1 H2 H1 L2). lra.
    + destruct (acos_ratio_bounds h1 r (conj H1 L1)). rewrite Rmax_left by lra. ring.
  - destruct (Rlt_dec (h1 * h1 + h2 * h2) (r * r)) as [I|I].
    + exfalso. apply (Big h1 h2 H1 H2 L1). lra.
    + destruct (acos_ratio_bounds h2 r (conj H2 L2)). rewrite Rmax_left by lra. ring.
  - destruct (Rlt_dec (h1 * h1 + h2 * h2) (r * r)) as [I|I].
    + exfalso. apply (Big h1 h2 H1 H2 L1). lra.
    + rewrite Rmax_left by lra. ring.
Qed.

Theorem arclen_2d_is_gap_length r hl hr hb ht :
  0 < r -> 0 <= hl -> 0 <= hr -> 0 <= hb -> 0 <= ht ->
  arclen_2d r hl hr hb ht = r * arcs_length (gaps r hl hr hb ht).
Proof.
  intros Hr Hl Hrr Hb Htt. unfold arclen_2d, gaps. cbn [arcs_length].
  rewrite !cap_term_halfwidth, !corner_term_halfwidth by assumption.
  set (aL := cut_halfwidth hl r). set (aR := cut_halfwidth hr r).
  set (aB := cut_halfwidth hb r). set (aT := cut_halfwidth ht r).
  match goal with |- ?lhs = _ =>
    replace lhs with (r * (2 * PI - 2 * aL - 2 * aR - 2 * aB - 2 * aT
                           + Rmax 0 (aL + aB - PI / 2) + Rmax 0 (aL + aT - PI / 2)
                           + Rmax 0 (aR + aB - PI / 2) + Rmax 0 (aR + aT - PI / 2))) by ring end.
  f_equal. unfold Rmax.
  repeat match goal with |- context [Rle_dec ?a ?b] => destruct (Rle_dec a b) end; lra.
Qed.

(* ------------------------------------------------------------------ *)
(* (4) length of a sorted interval list = integral of the indicator     *)
(* ------------------------------------------------------------------ *)
Lemma is_RInt_val (f : R -> R) (a b l l' : R) : is_RInt f a b l -> l = l' -> is_RInt f a b l'.
Proof. intros H E. subst. exact H. Qed.

Lemma is_RInt_const_on (f : R -> R) a b c :
  a <= b -> (forall x, a < x < b -> f x = c) -> is_RInt f a b ((b - a) * c).
Proof.
  intros Hab H. apply is_RInt_ext with (f := fun _ => c).
  - intros x Hx. rewrite Rmin_left, Rmax_right in Hx by lra. symmetry. apply H. lra.
  - apply (is_RInt_const a b c).
Qed.

Lemma arcs_sorted_le l : forall lo hi, arcs_sorted lo l hi -> lo <= hi.
Proof.
  induction l as [|[a b] t IH]; intros lo hi S; cbn in S; auto.
  destruct S as [La S]. apply IH in S. pose proof (Rmax_l a b). lra.
Qed.

Lemma in_arcs_bounds l : forall lo hi x, arcs_sorted lo l hi -> in_arcs l x -> lo <= x <= hi.
Proof.
  induction l as [|[a b] t IH]; intros lo hi x S I; cbn in *; [tauto|].
  destruct S as [La S]. pose proof (Rmax_l a b). pose proof (Rmax_r a b).
  pose proof (arcs_sorted_le _ _ _ S). destruct I as [I|I].
  - lra.
  - apply (IH _ _ _ S) in I. lra.
Qed.

Theorem arcs_length_is_integral l : forall lo hi (f : R -> R),
  arcs_sorted lo l hi ->
  (forall x, lo < x < hi -> (in_arcs l x -> f x = 1) /\ (~ in_arcs l x -> f x = 0)) ->
  is_RInt f lo hi (arcs_length l).
Proof.
  induction l as [|[a b] t IH]; intros lo hi f S F.
  - cbn in *. apply is_RInt_val with ((hi - lo) * 0); [|ring].
    apply is_RInt_const_on; auto. intros x Hx. apply (F x Hx). tauto.
  - cbn [arcs_sorted] in S. destruct S as [La S].
    pose proof (Rmax_l a b) as Ma. pose proof (Rmax_r a b) as Mb.
    pose proof (arcs_sorted_le _ _ _ S) as Mh.
    assert (E : Rmax a b - a = Rmax 0 (b - a)).
    { unfold Rmax. destruct (Rle_dec a b), (Rle_dec 0 (b - a)); lra. }
    set (m := Rmax a b) in *.
    assert (I1 : is_RInt f lo a ((a - lo) * 0)).
    { apply is_RInt_const_on; auto. intros x Hx. apply F; [lra|].
      cbn [in_arcs]. intros [C|C]; [lra|]. apply (in_arcs_bounds _ _ _ _ S) in C. lra. }
    assert (I2 : is_RInt f a m ((m - a) * 1)).
    { apply is_RInt_const_on; auto. intros x Hx. apply F; [lra|].
      cbn [in_arcs]. left. unfold m, Rmax in Hx. destruct (Rle_dec a b); lra. }
    assert (I3 : is_RInt f m hi (arcs_length t)).
    { apply IH; auto. intros x Hx. destruct (F x) as [F1 F0]; [lra|]. cbn [in_arcs] in F1, F0.
      split; intro C.
      - apply F1. right. exact C.
      - apply F0. intros [D|D]; [lra|auto]. }
    apply is_RInt_val with (plus (plus ((a - lo) * 0) ((m - a) * 1)) (arcs_length t)).
    + exact (is_RInt_Chasles (V := R_NormedModule) f lo m hi _ _
               (is_RInt_Chasles (V := R_NormedModule) f lo a m _ _ I1 I2) I3).
    + cbn [arcs_length]. unfold plus; simpl. lra.
Qed.

(* the indicator of a finite union of intervals *)
Lemma in_arcs_dec l x : {in_arcs l x} + {~ in_arcs l x}.
Proof.
  induction l as [|[a b] t IH]; cbn.
  - right. tauto.
  - destruct (Rle_dec a x); destruct (Rle_dec x b); destruct IH; (left; lra) || (left; tauto) || (right; lra) || idtac.
    all: try (left; right; assumption).
    all: right; intros [C|C]; [lra|tauto].
Qed.

(* any 0/1 function that is the indicator of P integrates to the measure of P *)
Theorem arc_measure_is_integral (P : R -> Prop) m (f : R -> R) :
  has_arc_measure P m ->
  (forall x, - PI < x < PI -> (P x -> f x = 1) /\ (~ P x -> f x = 0)) ->
  is_RInt f (- PI) PI m.
Proof.
  intros (l & S & Q & E) F. subst m. apply arcs_length_is_integral; auto.
  intros x Hx. destruct (F x Hx) as [F1 F0]. assert (Hx' : - PI < x <= PI) by lra.
  split; intro C.
  - apply F1. apply (Q x Hx'). exact C.
  - apply F0. intro D. apply C. apply (Q x Hx'). exact D.
Qed.

(* the measure does not depend on the interval list chosen to describe P *)
Theorem arc_measure_unique (P : R -> Prop) m m' :
  has_arc_measure P m -> has_arc_measure P m' -> m = m'.
Proof.
  intros H H'. destruct H as (l & S & Q & E).
  set (f := fun x => if in_arcs_dec l x then 1 else 0).
  assert (F : forall x, - PI < x < PI -> (P x -> f x = 1) /\ (~ P x -> f x = 0)).
  { intros x Hx. assert (Hx' : - PI < x <= PI) by lra. unfold f.
    destruct (in_arcs_dec l x) as [I|I]; split; intro C; auto.
    - exfalso. apply C. apply (Q x Hx'). exact I.
    - exfalso. apply I. apply (Q x Hx'). exact C. }
  assert (I1 : is_RInt f (- PI) PI m).
  { apply (arc_measure_is_integral P); auto. exists l. auto. }
  assert (I2 : is_RInt f (- PI) PI m') by (apply (arc_measure_is_integral P); auto).
  pose proof (is_RInt_unique (V := R_CompleteNormedModule) f (- PI) PI m I1) as U1.
  pose proof (is_RInt_unique (V := R_CompleteNormedModule) f (- PI) PI m' I2) as U2.
  rewrite <- U1. exact U2.
Qed.

(* ------------------------------------------------------------------ *)
(* main theorems                                                       *)
(* ------------------------------------------------------------------ *)
Theorem arclen_2d_is_measure r hl hr hb ht :
  0 < r -> 0 <= hl -> 0 <= hr -> 0 <= hb -> 0 <= ht ->
  exists m, has_arc_measure (dir_inside r hl hr hb ht) m /\ arclen_2d r hl hr hb ht = r * m.
Proof.
  intros Hr Hl Hrr Hb Htt. exists (arcs_length (gaps r hl hr hb ht)). split.
  - exists (gaps r hl hr hb ht). split; [apply gaps_sorted; auto|]. split; auto.
    intros t Ht. apply dir_inside_iff_gaps; auto.
  - apply arclen_2d_is_gap_length; auto.
Qed.

Lemma in_box_dir r cx cy x0 x1 y0 y1 t :
  in_box x0 x1 y0 y1 (cx + r * cos t) (cy + r * sin t)
  <-> dir_inside r (cx - x0) (x1 - cx) (cy - y0) (y1 - cy) t.
Proof. unfold in_box, dir_inside. lra. Qed.

(* box form: centre (cx, cy) anywhere in the closed box, any r > 0 *)
Theorem arclen_2d_bounded_is_measure r cx cy x0 x1 y0 y1 :
  0 < r -> in_box x0 x1 y0 y1 cx cy ->
  exists m,
    has_arc_measure (fun t => in_box x0 x1 y0 y1 (cx + r * cos t) (cy + r * sin t)) m /\
    arclen_2d_bounded r cx cy x0 x1 y0 y1 = r * m.
Proof.
  intros Hr [[Bx0 Bx1] [By0 By1]]. unfold arclen_2d_bounded.
  destruct (arclen_2d_is_measure r (cx - x0) (x1 - cx) (cy - y0) (y1 - cy)) as (m & (l & S & Q & E) & A);
    try lra.
  exists m. split; auto. exists l. split; auto. split; auto.
  intros t Ht. rewrite in_box_dir. apply Q. exact Ht.
Qed.

Lemma box_indicator_spec x0 x1 y0 y1 px py :
  (in_box x0 x1 y0 y1 px py -> box_indicator x0 x1 y0 y1 px py = 1) /\
  (~ in_box x0 x1 y0 y1 px py -> box_indicator x0 x1 y0 y1 px py = 0).
Proof.
  unfold in_box, box_indicator, ind_le.
  destruct (Rle_dec x0 px), (Rle_dec px x1), (Rle_dec y0 py), (Rle_dec py y1);
    split; intro H; try ring; exfalso; tauto.
Qed.

(* the length of the part of the circle inside the box, as a Riemann integral
   of the arc-length element r dtheta over the directions inside the box *)
Theorem arclen_2d_bounded_is_integral r cx cy x0 x1 y0 y1 :
  0 < r -> in_box x0 x1 y0 y1 cx cy ->
  is_RInt (fun t => r * box_indicator x0 x1 y0 y1 (cx + r * cos t) (cy + r * sin t))
          (- PI) PI (arclen_2d_bounded r cx cy x0 x1 y0 y1).
Proof.
  intros Hr B. destruct (arclen_2d_bounded_is_measure r cx cy x0 x1 y0 y1 Hr B) as (m & M & A).
  rewrite A.
  apply (is_RInt_scal (fun t => box_indicator x0 x1 y0 y1 (cx + r * cos t) (cy + r * sin t)) (- PI) PI r m).
  apply (arc_measure_is_integral _ m _ M).
  intros x Hx. apply box_indicator_spec.
Qed.

(* instances: no wall within reach -> full circle; centre in a corner -> a quarter *)
Theorem arclen_2d_no_wall r hl hr hb ht :
  0 < r -> r <= hl -> r <= hr -> r <= hb -> r <= ht -> arclen_2d r hl hr hb ht = 2 * PI * r.
Proof.
  intros. rewrite arclen_2d_is_gap_length by lra. unfold gaps, cut_halfwidth. assert (P := PI_RGT_0).
  repeat match goal with |- context [Rlt_dec ?a ?b] => destruct (Rlt_dec a b); try lra end.
  cbn [arcs_length]. unfold Rmax.
  repeat match goal with |- context [Rle_dec ?a ?b] => destruct (Rle_dec a b); try lra end.
Qed.

Theorem corner_quarter_measure r big :
  0 < r -> r <= big ->
  has_arc_measure (fun t => in_box 0 big 0 big (0 + r * cos t) (0 + r * sin t)) (PI / 2).
Proof.
  intros Hr Hb.
  destruct (arclen_2d_bounded_is_measure r 0 0 0 big 0 big Hr) as (m & M & A).
  { unfold in_box. lra. }
  unfold arclen_2d_bounded in A.
  replace (0 - 0) with 0 in A by ring. replace (big - 0) with big in A by ring.
  rewrite arclen_2d_at_corner in A by assumption.
  assert (m = PI / 2).
  { apply Rmult_eq_reg_l with r; lra. }
  subst m. exact M.
Qed.
