(* 2-D edge correction closed: arclen_2d (Model/StaticGeom.v) is r times the
   angular measure of the directions that stay inside the box, for EVERY centre
   in the closed box and EVERY r > 0 (no upper bound on r is needed: the arcs
   cut off by opposite walls never meet because each has half-width <= PI/2, so
   the inclusion-exclusion over four caps and four adjacent corners is exact).

   Route: (1) each wall leaves exactly the directions outside an open arc of
   half-width cut_halfwidth h r around the wall's direction; (2) hence the
   directions inside the box are exactly the four closed quadrant intervals
   [gaps]; (3) the total length of [gaps] times r is the code's expression
   (corner term present iff the two cut-off arcs overlap iff h1^2+h2^2 < r^2);
   (4) the length of a sorted list of intervals is the Riemann integral of the
   indicator of its union (so it is the measure, and is unique). *)
From Coq Require Import Reals Lra List.
From Coquelicot Require Import Coquelicot.
From TP Require Import Model.StaticGeom Model.StaticGeom2 Proofs.StaticGeom.
Import ListNotations.
Open Scope R_scope.

(* ------------------------------------------------------------------ *)
(* trigonometry on [-PI, PI]                                           *)
(* ------------------------------------------------------------------ *)
Lemma cos_lt_acos c t : -1 <= c <= 1 -> 0 <= t <= PI -> (c < cos t <-> t < acos c).
Proof.
  intros Hc Ht. pose proof (acos_bound c) as B. pose proof (cos_acos c Hc) as E.
  set (a := acos c) in *. rewrite <- E. split; intro H.
  - apply cos_decreasing_0 in H; lra.
  - apply cos_decreasing_1; lra.
Qed.

Lemma cos_gt_acos c t : -1 <= c <= 1 -> 0 <= t <= PI -> (cos t < c <-> acos c < t).
Proof.
  intros Hc Ht. pose proof (acos_bound c) as B. pose proof (cos_acos c Hc) as E.
  set (a := acos c) in *. rewrite <- E. split; intro H.
  - apply cos_decreasing_0 in H; lra.
  - apply cos_decreasing_1; lra.
Qed.

Lemma cos_Rabs t : cos (Rabs t) = cos t.
Proof. unfold Rabs. destruct (Rcase_abs t); auto. apply cos_neg. Qed.

Lemma Rabs_range t : - PI <= t <= PI -> 0 <= Rabs t <= PI.
Proof. intros H. unfold Rabs. destruct (Rcase_abs t); lra. Qed.

Lemma sin_nonpos t : - PI <= t <= 0 -> sin t <= 0.
Proof.
  intros H. replace t with (- (- t)) by ring. rewrite sin_neg.
  assert (0 <= sin (- t)) by (apply sin_ge_0; lra). lra.
Qed.

Lemma sin_as_cos t : sin t = cos (t - PI / 2).
Proof. replace (t - PI / 2) with (- (PI / 2 - t)) by ring. rewrite cos_neg, cos_shift. reflexivity. Qed.

Lemma scaled_le h r c : 0 < r -> (r * c <= h <-> ~ h / r < c).
Proof. intros Hr. rewrite <- (scaled_lt h r c Hr). lra. Qed.

Lemma scaled_ge h r c : 0 < r -> (- h <= r * c <-> ~ c < - (h / r)).
Proof.
  intros Hr. assert (E : c < - (h / r) <-> h < r * (- c)).
  { rewrite (scaled_lt h r (- c) Hr). lra. }
  rewrite E. lra.
Qed.

(* ------------------------------------------------------------------ *)
(* the half-width cut off by one wall                                  *)
(* ------------------------------------------------------------------ *)
Lemma acos_ratio_bounds h r : 0 <= h < r -> 0 < acos (h / r) <= PI / 2.
Proof.
  intros H. destruct (ratio_bounds h r H) as [X0 X1]. split.
  - apply acos_bound_lt. lra.
  - assert (P := PI_RGT_0).
    destruct (Rle_dec (acos (h / r)) (PI / 2)) as [L|L]; auto.
    assert (C : h / r < cos (PI / 2)).
    { apply cos_gt_acos_aux. }
    rewrite cos_PI2 in C. lra.
Qed.
