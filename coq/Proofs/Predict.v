From Coq Require Import ZArith List Bool Lia.
From TP Require Import Model.Assign Model.Link Model.Predict.
Import ListNotations.
Open Scope Z_scope.

Lemma shift_nil_l p : shift [] p = p.
Proof. destruct p; reflexivity. Qed.

Lemma d2w_shift w : forall a p q, d2w w (shift a p) (shift a q) = d2w w p q.
Proof.
  induction w as [|wi w IH]; intros a p q; [reflexivity|].
  destruct p as [|x p]; [cbn; reflexivity|]. destruct q as [|y q]; [destruct a; reflexivity|].
  destruct a as [|z a]; [reflexivity|]. cbn. rewrite IH. f_equal. f_equal; lia.
Qed.

Lemma shift_shift v : forall a b p, shift (scale a v) (shift (scale b v) p) = shift (scale (a + b) v) p.
Proof.
  unfold scale. induction v as [|z v IH]; intros a b p; cbn [map]; [rewrite !shift_nil_l; reflexivity|].
  destruct p as [|x p]; [reflexivity|]. cbn [shift]. rewrite IH. f_equal. lia.
Qed.

Lemma real_cands_shift m a sp ds : forall j,
  real_cands m (shift a sp) (map (shift a) ds) j = real_cands m sp ds j.
Proof.
  induction ds as [|d ds IH]; intros j; cbn; [reflexivity|].
  rewrite d2w_shift, IH. reflexivity.
Qed.

Lemma cands_of_shift m nullc a sp ds :
  cands_of m nullc (shift a sp) (map (shift a) ds) = cands_of m nullc sp ds.
Proof. unfold cands_of. rewrite real_cands_shift. reflexivity. Qed.

(* drifted state: every stored position carries the drift of the frame it was seen in *)
Definition drift_src (v : pt) (tags : list Z) (s : src) : src :=
  {| s_lab := s_lab s; s_pos := shift (scale (tag tags (s_seen s)) v) (s_pos s); s_seen := s_seen s |}.
Definition drift_state (v : pt) (tags : list Z) (st : lstate) : lstate :=
  {| live := map (drift_src v tags) (live st); now := now st; next_id := next_id st |}.

Lemma items_of_drift m v tags st ds :
  items_of m (pred_drift v tags) (drift_state v tags st) (map (shift (scale (tag tags (now st)) v)) ds)
  = items_of m no_pred st ds.
Proof.
  unfold items_of. cbn [live now drift_state]. generalize 0%nat.
  induction (live st) as [|s l IH]; intros k; cbn; [reflexivity|].
  rewrite IH. f_equal. f_equal. unfold pred_drift, no_pred. cbn [s_pos s_seen drift_src].
  rewrite shift_shift. replace (tag tags (now st) - tag tags (s_seen s) + tag tags (s_seen s)) with (tag tags (now st)) by lia.
  apply cands_of_shift.
Qed.

Lemma lab_of_drift v tags st i : lab_of (drift_state v tags st) i = lab_of st i.
Proof. unfold lab_of. cbn. rewrite nth_error_map. destruct (nth_error (live st) i); reflexivity. Qed.

Lemma assign_labels_drift v tags st links nd : forall j fresh,
  assign_labels (drift_state v tags st) links nd j fresh = assign_labels st links nd j fresh.
Proof.
  induction nd as [|nd IH]; intros j fresh; cbn; [reflexivity|].
  destruct (source_of links j); rewrite IH; [rewrite lab_of_drift|]; reflexivity.
Qed.

Lemma remembered_drift v tags mem t links : forall l i,
  remembered mem t links i (map (drift_src v tags) l) = map (drift_src v tags) (remembered mem t links i l).
Proof.
  induction l as [|s l IH]; intros i; cbn; [reflexivity|].
  destruct (unlinked_b links i && (t - s_seen s <=? mem)%nat); cbn; rewrite IH; reflexivity.
Qed.

Lemma mk_srcs_drift v tags t : forall labs ds,
  mk_srcs t labs (map (shift (scale (tag tags t) v)) ds) = map (drift_src v tags) (mk_srcs t labs ds).
Proof.
  induction labs as [|lb labs IH]; intros [|d ds]; cbn; try reflexivity. rewrite IH. reflexivity.
Qed.

Theorem link_step_drift m mem max_size v tags st ds :
  link_step m mem max_size (pred_drift v tags) (drift_state v tags st) (map (shift (scale (tag tags (now st)) v)) ds)
  = match link_step m mem max_size no_pred st ds with
    | Ok (st', labs) => Ok (drift_state v tags st', labs)
    | Oversize => Oversize
    end.
Proof.
  unfold link_step, step_links. rewrite items_of_drift.
  destruct (solve_groups max_size (components (items_of m no_pred st ds))) as [links|]; [|reflexivity].
  unfold apply_links. rewrite map_length. rewrite assign_labels_drift.
  cbn [next_id now live drift_state].
  destruct (assign_labels st links (length ds) 0 (next_id st)) as [labs fresh].
  f_equal. f_equal. unfold drift_state. cbn [live now next_id]. f_equal.
  rewrite map_app, remembered_drift, mk_srcs_drift. reflexivity.
Qed.

Theorem run_from_drift m mem max_size v tags : forall frames st,
  run_from m mem max_size (pred_drift v tags) (drift_state v tags st) (drift_frames v tags (now st) frames)
  = run_from m mem max_size no_pred st frames.
Proof.
  induction frames as [|ds rest IH]; intros st; [reflexivity|].
  unfold drift_frames. cbn [mapi_from run_from]. rewrite link_step_drift.
  destruct (link_step m mem max_size no_pred st ds) as [[st' labs]|] eqn:E; [|reflexivity].
  assert (Hnow : now st' = S (now st)).
  { unfold link_step in E. destruct (step_links m max_size no_pred st ds); [|discriminate].
    unfold apply_links in E. destruct (assign_labels _ _ _ _ _). inversion E; reflexivity. }
  fold (drift_frames v tags (S (now st)) rest). rewrite <- Hnow. rewrite IH. reflexivity.
Qed.

(* Linking the drifted movie with the exact-drift predictor gives, label for label,
   the result of linking the undrifted movie without predictor: for every movie,
   drift velocity (any magnitude), frame numbering and memory. *)
Theorem link_iter_drift m mem max_size v tags frames :
  link_iter m mem max_size (pred_drift v tags) (drift_frames v tags 0 frames)
  = link_iter m mem max_size no_pred frames.
Proof.
  destruct frames as [|f0 rest]; [reflexivity|].
  unfold drift_frames. cbn [mapi_from link_iter]. unfold init_state. rewrite map_length.
  fold (drift_frames v tags 1 rest).
  set (st0 := {| live := mk_srcs 0 (seq 0 (length f0)) f0; now := 1; next_id := length f0 |}).
  replace {| live := mk_srcs 0 (seq 0 (length f0)) (map (shift (scale (tag tags 0) v)) f0); now := 1; next_id := length f0 |}
    with (drift_state v tags st0) by (unfold drift_state, st0; cbn; rewrite mk_srcs_drift; reflexivity).
  change 1%nat with (now st0) at 1. rewrite run_from_drift. reflexivity.
Qed.

(* NullPredict: predicting the stored position is definitionally plain linking *)
Theorem null_predict_plain m mem max_size frames :
  link_iter m mem max_size (fun _ s => s_pos s) frames = link_iter m mem max_size no_pred frames.
Proof. reflexivity. Qed.
