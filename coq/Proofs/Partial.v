(* C13: proofs about Model/Partial.v (reconnect_traj_patch / link_partial). *)
From Coq Require Import ZArith List Bool Lia Relations Permutation Sorted.
From TP Require Import Model.Partial Model.PartialSpec Model.PartialCheck.
Import ListNotations.
Open Scope Z_scope.

(* ------------------------------------------------------------------------ *)
(* 0. lists, dicts                                                           *)
(* ------------------------------------------------------------------------ *)
Lemma NoDup_app_iff {A} (l1 l2 : list A) :
  NoDup (l1 ++ l2) <-> NoDup l1 /\ NoDup l2 /\ (forall x, In x l1 -> In x l2 -> False).
Proof.
  induction l1 as [|a l1 IH]; cbn.
  - split; [intros H; repeat split; auto; constructor | tauto].
  - split.
    + intros H. inversion H as [|? ? Hn Hd]; subst. apply IH in Hd as (H1 & H2 & H3).
      repeat split; auto.
      * constructor; auto. intro; apply Hn, in_or_app; auto.
      * intros x [->|Hx] Hx2; [apply Hn, in_or_app; auto | eauto].
    + intros (H1 & H2 & H3). inversion H1 as [|? ? Hn Hd]; subst. constructor.
      * intro Hi. apply in_app_or in Hi as [Hi|Hi]; [auto | eapply H3; eauto].
      * apply IH. repeat split; auto. intros; eapply H3; eauto.
Qed.

Lemma NoDup_map_inj {A B} (f : A -> B) (l : list A) :
  NoDup l -> (forall x y, In x l -> In y l -> f x = f y -> x = y) -> NoDup (map f l).
Proof.
  induction 1 as [|a l Hn Hd IH]; cbn; intros Hinj; constructor.
  - intro Hi. apply in_map_iff in Hi as (y & Hy & Hin).
    assert (y = a) by (apply Hinj; auto). subst; auto.
  - apply IH. intros; apply Hinj; auto.
Qed.

Lemma NoDup_map_filter {A B} (f : A -> B) (p : A -> bool) (l : list A) :
  NoDup (map f l) -> NoDup (map f (filter p l)).
Proof.
  induction l as [|a l IH]; cbn; intros H; auto.
  inversion H as [|? ? Hn Hd]; subst. destruct (p a); cbn; auto.
  constructor; auto. intro Hi; apply Hn.
  apply in_map_iff in Hi as (y & Hy & Hin). apply filter_In in Hin as [Hin _].
  apply in_map_iff; eauto.
Qed.

Lemma NoDup_map_In_eq {A B} (f : A -> B) (l : list A) x y :
  NoDup (map f l) -> In x l -> In y l -> f x = f y -> x = y.
Proof.
  induction l as [|a l IH]; cbn; intros H Hx Hy E; [tauto|].
  inversion H as [|? ? Hn Hd]; subst.
  destruct Hx as [->|Hx], Hy as [->|Hy]; auto.
  - exfalso; apply Hn. rewrite E. apply in_map; auto.
  - exfalso; apply Hn. rewrite <- E. apply in_map; auto.
Qed.

Lemma memZ_In x l : memZ x l = true <-> In x l.
Proof.
  unfold memZ. rewrite existsb_exists. split.
  - intros (y & Hy & E). apply Z.eqb_eq in E. subst; auto.
  - intros H. exists x. split; auto. apply Z.eqb_refl.
Qed.
Lemma memZ_nIn x l : memZ x l = false <-> ~ In x l.
Proof. rewrite <- memZ_In. destruct (memZ x l); split; congruence. Qed.

Lemma get_In m k v : get m k = Some v -> In (k, v) m.
Proof.
  induction m as [|[k' v'] m IH]; cbn; [discriminate|].
  destruct (k =? k') eqn:E; intros H.
  - apply Z.eqb_eq in E. inversion H; subst; auto.
  - auto.
Qed.
Lemma get_None m k : get m k = None <-> ~ In k (map fst m).
Proof.
  induction m as [|[k' v'] m IH]; cbn; [tauto|].
  destruct (k =? k') eqn:E.
  - apply Z.eqb_eq in E. subst. split; [discriminate | intros H; exfalso; auto].
  - apply Z.eqb_neq in E. rewrite IH. split; [intros H [?|?]; [congruence | auto] | tauto].
Qed.
Lemma get_key m k : In k (map fst m) -> exists v, get m k = Some v.
Proof.
  intros H. destruct (get m k) eqn:E; eauto. apply get_None in E. tauto.
Qed.
Lemma get_app m1 m2 k :
  get (m1 ++ m2) k = match get m1 k with Some v => Some v | None => get m2 k end.
Proof.
  induction m1 as [|[k' v'] m1 IH]; cbn; auto. destruct (k =? k'); auto.
Qed.
Lemma put_all_eq kvs : forall m, put_all m kvs = rev kvs ++ m.
Proof.
  unfold put_all. induction kvs as [|[k v] kvs IH]; cbn; intros m; auto.
  rewrite IH. unfold put. cbn. rewrite <- app_assoc. reflexivity.
Qed.
Lemma In_fst {A B} (a : A) (b : B) l : In (a, b) l -> In a (map fst l).
Proof. intros H. apply in_map_iff. exists (a, b); auto. Qed.
Lemma In_snd {A B} (a : A) (b : B) l : In (a, b) l -> In b (map snd l).
Proof. intros H. apply in_map_iff. exists (a, b); auto. Qed.

Lemma combine_In_l {A B} (l1 : list A) : forall (l2 : list B) a b, In (a, b) (combine l1 l2) -> In a l1 /\ In b l2.
Proof. intros; split; [eapply in_combine_l | eapply in_combine_r]; eauto. Qed.
Lemma combine_fun_r {A B} (l1 : list A) : forall (l2 : list B) a b b',
  NoDup l1 -> In (a, b) (combine l1 l2) -> In (a, b') (combine l1 l2) -> b = b'.
Proof.
  induction l1 as [|x l1 IH]; cbn; intros [|y l2] a b b' Hn; cbn; try tauto.
  inversion Hn as [|? ? Hx Hd]; subst.
  intros [E1|H1] [E2|H2].
  - congruence.
  - inversion E1; subst. apply in_combine_l in H2. tauto.
  - inversion E2; subst. apply in_combine_l in H1. tauto.
  - eauto.
Qed.
Lemma combine_fun_l {A B} (l1 : list A) : forall (l2 : list B) a a' b,
  NoDup l2 -> In (a, b) (combine l1 l2) -> In (a', b) (combine l1 l2) -> a = a'.
Proof.
  induction l1 as [|x l1 IH]; cbn; intros [|y l2] a a' b Hn; cbn; try tauto.
  inversion Hn as [|? ? Hx Hd]; subst.
  intros [E1|H1] [E2|H2].
  - congruence.
  - inversion E1; subst. apply in_combine_r in H2. tauto.
  - inversion E2; subst. apply in_combine_r in H1. tauto.
  - eauto.
Qed.
Lemma combine_key_In {A B} (l1 : list A) : forall (l2 : list B) a,
  (length l1 <= length l2)%nat -> In a l1 -> exists b, In (a, b) (combine l1 l2).
Proof.
  induction l1 as [|x l1 IH]; cbn; intros [|y l2] a Hl; cbn in *; try tauto; try lia.
  intros [->|H]; eauto. destruct (IH l2 a) as (b & Hb); auto; try lia. eauto.
Qed.
(* the k-th reborn pair and the k-th fresh id: same id on both sides *)
Lemma combine_pair_both {A B C} (rb : list (A * B)) : forall (X : list A) (ids : list C) a b,
  (length rb <= length ids)%nat -> In (a, b) rb ->
  exists v, In (a, v) (combine (map fst rb ++ X) ids) /\ In (b, v) (combine (map snd rb) ids).
Proof.
  induction rb as [|[a0 b0] rb IH]; cbn; intros X [|y ids] a b Hl; cbn in *; try tauto; try lia.
  intros [E|H].
  - inversion E; subst. eauto.
  - destruct (IH X ids a b) as (v & H1 & H2); auto; try lia. eauto.
Qed.

(* ------------------------------------------------------------------------ *)
(* 1. the fresh-id generator never runs out of fuel                          *)
(* ------------------------------------------------------------------------ *)
Lemma find_fresh_sound used fuel : forall c x,
  find_fresh used c fuel = Some x -> c <= x /\ ~ In x used.
Proof.
  induction fuel as [|k IH]; cbn; intros c x; [discriminate|].
  destruct (memZ c used) eqn:E.
  - intros H. apply IH in H as [H1 H2]. split; [lia | auto].
  - intros H. inversion H; subst. split; [lia | apply memZ_nIn; auto].
Qed.
Lemma find_fresh_none used fuel : forall c,
  find_fresh used c fuel = None -> forall k, (k < fuel)%nat -> In (c + Z.of_nat k) used.
Proof.
  induction fuel as [|f IH]; cbn; intros c H k Hk; [lia|].
  destruct (memZ c used) eqn:E; [|discriminate].
  destruct k as [|k].
  - replace (c + Z.of_nat 0) with c by lia. apply memZ_In; auto.
  - replace (c + Z.of_nat (S k)) with (c + 1 + Z.of_nat k) by lia. apply IH; auto. lia.
Qed.
Lemma find_fresh_total used c : exists x, find_fresh used c (S (length used)) = Some x.
Proof.
  destruct (find_fresh used c (S (length used))) eqn:E; eauto. exfalso.
  pose proof (find_fresh_none _ _ _ E) as H.
  set (l := map (fun k => c + Z.of_nat k) (seq 0 (S (length used)))).
  assert (Hnd : NoDup l).
  { apply NoDup_map_inj; [apply seq_NoDup | intros; lia]. }
  assert (Hincl : incl l used).
  { intros x Hx. apply in_map_iff in Hx as (k & <- & Hk). apply in_seq in Hk. apply H. lia. }
  pose proof (NoDup_incl_length Hnd Hincl) as Hlen.
  unfold l in Hlen. rewrite map_length, seq_length in Hlen. lia.
Qed.
Lemma gen_take_spec used n : forall c,
  exists ids, gen_take used c n = Some ids /\ length ids = n /\ NoDup ids /\
              forall x, In x ids -> c <= x /\ ~ In x used.
Proof.
  induction n as [|n IH]; intros c; cbn [gen_take].
  - exists []. split; [reflexivity|]. split; [reflexivity|]. split; [constructor|]. intros x [].
  - destruct (find_fresh_total used c) as (x & Hx). rewrite Hx.
    destruct (IH (x + 1)) as (ids & -> & Hl & Hnd & Hall).
    apply find_fresh_sound in Hx as [Hc Hu].
    exists (x :: ids). repeat split; cbn; auto.
    + constructor; auto. intro Hi. apply Hall in Hi. lia.
    + destruct H as [<-|H]; [lia | apply Hall in H; lia].
    + destruct H as [<-|H]; [auto | apply Hall in H; tauto].
Qed.

(* ------------------------------------------------------------------------ *)
(* 2. the boundary passes, declaratively                                     *)
(* ------------------------------------------------------------------------ *)
Lemma first_pass_fold l : forall acc,
  (forall po, In po l -> 0 <= snd po) -> fold_left first_step l acc = rev l ++ acc.
Proof.
  induction l as [|[n o] l IH]; cbn; intros acc H; auto.
  assert (0 <= o) by (apply (H (n, o)); auto).
  destruct (o <? 0) eqn:E; [apply Z.ltb_lt in E; lia|].
  rewrite IH by auto. unfold put. rewrite <- app_assoc. reflexivity.
Qed.

Section LastPass.
  Variable mp1 : amap.
  Variable claimed : list Z.
  Definition isA (po : Z * Z) : bool := match get mp1 (fst po) with Some _ => true | None => false end.
  Definition isB (po : Z * Z) : bool := negb (isA po) && memZ (snd po) claimed.
  Definition isC (po : Z * Z) : bool := negb (isA po) && negb (memZ (snd po) claimed).
  Definition av (po : Z * Z) : Z * Z := (snd po, replace_with mp1 (fst po)).

  Lemma last_pass_fold l : forall X MA RB,
    (forall po, In po l -> 0 <= snd po) ->
    NoDup (map fst l) ->
    (forall po, In po l -> ~ In (fst po) (map fst X)) ->
    fold_left (last_step claimed) l (mkl (X ++ mp1) MA RB) =
    mkl (rev (filter isC l) ++ X ++ mp1) (rev (map av (filter isA l)) ++ MA) (RB ++ filter isB l).
  Proof.
    induction l as [|[n o] l IH]; intros X MA RB Hpos Hnd HX.
    - cbn. rewrite app_nil_r. reflexivity.
    - cbn [fold_left last_step].
      assert (0 <= o) by (apply (Hpos (n, o)); cbn; auto).
      destruct (o <? 0) eqn:E; [apply Z.ltb_lt in E; lia|].
      cbn [l_mp l_ma l_rb].
      assert (HgX : get (X ++ mp1) n = get mp1 n).
      { rewrite get_app. assert (Hn : get X n = None) by (apply get_None; apply (HX (n, o)); cbn; auto).
        rewrite Hn. reflexivity. }
      rewrite HgX. inversion Hnd as [|? ? Hn Hd]; subst.
      assert (Hpos' : forall po, In po l -> 0 <= snd po) by (intros; apply Hpos; cbn; auto).
      destruct (get mp1 n) eqn:G.
      + assert (EA : isA (n, o) = true) by (unfold isA; cbn [fst]; rewrite G; auto).
        assert (EB : isB (n, o) = false) by (unfold isB; rewrite EA; auto).
        assert (EC : isC (n, o) = false) by (unfold isC; rewrite EA; auto).
        assert (Eav : av (n, o) = (o, z)) by (unfold av, replace_with; cbn [fst snd]; rewrite G; auto).
        cbn [filter]. rewrite EA, EB, EC.
        rewrite IH; auto; [|intros; apply HX; cbn; auto].
        f_equal. cbn [map rev]. rewrite Eav, <- app_assoc. reflexivity.
      + assert (EA : isA (n, o) = false) by (unfold isA; cbn [fst]; rewrite G; auto).
        destruct (memZ o claimed) eqn:M.
        * assert (EB : isB (n, o) = true) by (unfold isB; rewrite EA; cbn [snd]; rewrite M; auto).
          assert (EC : isC (n, o) = false) by (unfold isC; rewrite EA; cbn [snd]; rewrite M; auto).
          cbn [filter]. rewrite EA, EB, EC.
          rewrite IH; auto; [|intros; apply HX; cbn; auto].
          f_equal. rewrite <- app_assoc. reflexivity.
        * assert (EB : isB (n, o) = false) by (unfold isB; rewrite EA; cbn [snd]; rewrite M; auto).
          assert (EC : isC (n, o) = true) by (unfold isC; rewrite EA; cbn [snd]; rewrite M; auto).
          cbn [filter]. rewrite EA, EB, EC.
          change (put (X ++ mp1) n o) with (((n, o) :: X) ++ mp1).
          rewrite IH; auto.
          -- f_equal. cbn [rev]. rewrite <- !app_assoc. reflexivity.
          -- intros po Hpo Hi. cbn in Hi. destruct Hi as [E'|Hi].
             ++ apply Hn. rewrite E'. apply in_map; auto.
             ++ eapply HX; [right; eauto | auto].
  Qed.
End LastPass.

(* ------------------------------------------------------------------------ *)
(* 3. reconnect_traj_patch under the property's hypotheses                   *)
(* ------------------------------------------------------------------------ *)
Section Reconnect.
  Variable T : list row.
  Variables s e : Z.
  Hypothesis Hse : s < e.
  Hypothesis Hold : valid_old T.
  Hypothesis Hnew : valid_new T s e.
  Hypothesis Hout : untouched_outside T s e.

  Definition pc (r : row) : Z * Z := (part r, oldp r).
  Definition xmp1 : amap := rev (pairs_at s T).
  Definition xclaimed : list Z := map snd xmp1.
  Definition xPL : list (Z * Z) := pairs_at (e - 1) T.
  Definition xRB := filter (isB xmp1 xclaimed) xPL.
  Definition xLC := filter (isC xmp1 xclaimed) xPL.
  Definition xLA := filter (isA xmp1) xPL.
  Definition xst : lstate := mkl (rev xLC ++ xmp1) (rev (map (av xmp1) xLA)) xRB.
  Definition xrem : list Z := remaining_of T s e xst.
  Definition xused : list Z := used_of T s e xst.

  Lemma old_nonneg r : In r T -> 0 <= oldp r.
  Proof. destruct Hold as (H & _). auto. Qed.
  Lemma old_unique r1 r2 : In r1 T -> In r2 T -> frame r1 = frame r2 -> oldp r1 = oldp r2 -> r1 = r2.
  Proof. destruct Hold as (_ & H & _). auto. Qed.
  Lemma old_contig r1 r2 t : In r1 T -> In r2 T -> oldp r1 = oldp r2 -> frame r1 <= t <= frame r2 ->
    exists r, In r T /\ frame r = t /\ oldp r = oldp r1.
  Proof. destruct Hold as (_ & _ & H). eauto. Qed.

  Lemma pairs_at_In i n o :
    In (n, o) (pairs_at i T) <-> exists r, In r T /\ frame r = i /\ part r = n /\ oldp r = o.
  Proof.
    unfold pairs_at. rewrite in_map_iff. split.
    - intros (r & E & Hr). apply filter_In in Hr as [Hr Hf]. apply Z.eqb_eq in Hf.
      inversion E; subst. eauto.
    - intros (r & Hr & Hf & <- & <-). exists r. split; auto. apply filter_In. split; auto.
      apply Z.eqb_eq; auto.
  Qed.

  Lemma first_pass_is : first_pass s T = xmp1.
  Proof.
    unfold first_pass, xmp1. rewrite first_pass_fold, app_nil_r; auto.
    intros [n o] H. apply pairs_at_In in H as (r & Hr & _ & _ & <-). cbn. apply old_nonneg; auto.
  Qed.

  Lemma mp1_In n o : In (n, o) xmp1 <-> exists r, In r T /\ frame r = s /\ part r = n /\ oldp r = o.
  Proof. unfold xmp1. rewrite <- in_rev. apply pairs_at_In. Qed.

  Lemma inside_first r : frame r = s -> inside s e r.
  Proof. unfold inside. lia. Qed.
  Lemma inside_last r : frame r = e - 1 -> inside s e r.
  Proof. unfold inside. lia. Qed.

  Lemma mp1_get_row r : In r T -> frame r = s -> get xmp1 (part r) = Some (oldp r).
  Proof.
    intros Hr Hf. destruct (get_key xmp1 (part r)) as (v & Hv).
    { apply (In_fst _ (oldp r)). apply mp1_In. eauto. }
    rewrite Hv. f_equal. apply get_In, mp1_In in Hv as (r' & Hr' & Hf' & Hp & <-).
    assert (r' = r); [|subst; auto].
    apply Hnew; auto; try apply inside_first; auto. congruence.
  Qed.
  Lemma mp1_get_some n v : get xmp1 n = Some v -> exists r, In r T /\ frame r = s /\ part r = n /\ oldp r = v.
  Proof. intros H. apply get_In, mp1_In in H. auto. Qed.

  Lemma claimed_In o : In o xclaimed <-> exists r, In r T /\ frame r = s /\ oldp r = o.
  Proof.
    unfold xclaimed. rewrite in_map_iff. split.
    - intros ([n o'] & E & H). cbn in E. subst. apply mp1_In in H as (r & ? & ? & ? & ?). eauto.
    - intros (r & Hr & Hf & <-). exists (part r, oldp r). split; auto. apply mp1_In. eauto.
  Qed.

  Lemma PL_In n o : In (n, o) xPL <-> exists r, In r T /\ frame r = e - 1 /\ part r = n /\ oldp r = o.
  Proof. apply pairs_at_In. Qed.

  Hypothesis Hnd : NoDup T.

  Lemma PL_fst_NoDup : NoDup (map fst xPL).
  Proof.
    unfold xPL, pairs_at. rewrite map_map. cbn [fst].
    apply NoDup_map_inj; [apply NoDup_filter; auto|].
    intros x y Hx Hy E. apply filter_In in Hx as [Hx Hfx], Hy as [Hy Hfy].
    apply Z.eqb_eq in Hfx, Hfy. apply Hnew; auto; try apply inside_last; auto. congruence.
  Qed.
  Lemma PL_snd_NoDup : NoDup (map snd xPL).
  Proof.
    unfold xPL, pairs_at. rewrite map_map. cbn [snd].
    apply NoDup_map_inj; [apply NoDup_filter; auto|].
    intros x y Hx Hy E. apply filter_In in Hx as [Hx Hfx], Hy as [Hy Hfy].
    apply Z.eqb_eq in Hfx, Hfy. apply old_unique; auto. congruence.
  Qed.

  Lemma boundary_is : boundary T s e = xst.
  Proof.
    unfold boundary. rewrite first_pass_is. fold xclaimed. fold xPL.
    change (mkl xmp1 [] []) with (mkl ([] ++ xmp1) [] []).
    rewrite last_pass_fold.
    - unfold xst, xLC, xLA, xRB. cbn [app]. rewrite app_nil_r. reflexivity.
    - intros [n o] H. apply PL_In in H as (r & Hr & _ & _ & <-). cbn. apply old_nonneg; auto.
    - apply PL_fst_NoDup.
    - intros po _ [].
  Qed.

  (* a row of the last frame falls in exactly one of the three branches *)
  Lemma PL_row r : In r T -> frame r = e - 1 -> In (pc r) xPL.
  Proof. intros. apply PL_In. exists r. auto. Qed.
  Lemma PL_part_eq n o r : In (n, o) xPL -> In r T -> frame r = e - 1 -> part r = n -> (n, o) = pc r.
  Proof.
    intros H Hr Hf Hp. apply PL_In in H as (r' & Hr' & Hf' & Hp' & <-).
    assert (r' = r); [|subst; reflexivity].
    apply Hnew; auto; try apply inside_last; auto; congruence.
  Qed.
  Lemma PL_old_eq n o r : In (n, o) xPL -> In r T -> frame r = e - 1 -> oldp r = o -> (n, o) = pc r.
  Proof.
    intros H Hr Hf Hp. apply PL_In in H as (r' & Hr' & Hf' & <- & Ho).
    assert (r' = r); [|subst; reflexivity].
    apply old_unique; auto; congruence.
  Qed.

  Lemma rem_In n : In n xrem <->
    (exists r, In r T /\ inside s e r /\ part r = n) /\ get (rev xLC ++ xmp1) n = None /\ ~ In n (map fst xRB).
  Proof.
    unfold xrem, remaining_of. rewrite filter_In, nodup_In, in_map_iff. cbn [l_mp l_rb xst].
    split.
    - intros ((r & <- & Hr) & Hc). apply filter_In in Hr as [Hr Hi].
      apply andb_true_iff in Hc as [H1 H2]. apply negb_true_iff in H1, H2.
      repeat split.
      + exists r. repeat split; auto; unfold in_patch in Hi; apply andb_true_iff in Hi as [A B];
          [apply Z.leb_le in A | apply Z.ltb_lt in B]; lia.
      + destruct (get (rev xLC ++ xmp1) (part r)); [discriminate | reflexivity].
      + apply memZ_nIn; auto.
    - intros ((r & Hr & [Hi1 Hi2] & <-) & Hg & Hn). split.
      + exists r. split; auto. apply filter_In. split; auto. unfold in_patch.
        apply andb_true_iff. split; [apply Z.leb_le | apply Z.ltb_lt]; lia.
      + rewrite Hg. cbn. apply negb_true_iff, memZ_nIn; auto.
  Qed.
  Lemma rem_NoDup : NoDup xrem.
  Proof. unfold xrem, remaining_of. apply NoDup_filter, NoDup_nodup. Qed.

  Lemma used_old r : In r T -> In (oldp r) xused.
  Proof.
    intros H. unfold xused, used_of. apply in_or_app. right. apply in_or_app. left. apply in_map; auto.
  Qed.

  Lemma final_maps_form : exists ids,
    final_maps T s e = Some (rev (combine (map fst xRB ++ xrem) ids) ++ rev xLC ++ xmp1,
                             rev (combine (map snd xRB) ids) ++ rev (map (av xmp1) xLA)) /\
    length ids = (length xRB + length xrem)%nat /\ NoDup ids /\ (forall x, In x ids -> ~ In x xused).
  Proof.
    unfold final_maps. rewrite boundary_is. fold xrem. fold xused. cbn [l_mp l_ma l_rb xst].
    destruct (gen_take_spec xused (length xRB + length xrem) 0) as (ids & -> & Hl & Hn & Hf).
    exists ids. rewrite !put_all_eq. repeat split; auto. intros x Hx. apply Hf in Hx. tauto.
  Qed.
  (* --- the final dictionaries, for any list of fresh ids the generator may yield --- *)
  Variable ids : list Z.
  Hypothesis Hlen : length ids = (length xRB + length xrem)%nat.
  Hypothesis Hids : NoDup ids.
  Hypothesis Hfresh : forall x, In x ids -> ~ In x xused.

  Definition xkeys : list Z := map fst xRB ++ xrem.
  Definition xMP : amap := rev (combine xkeys ids) ++ rev xLC ++ xmp1.
  Definition xMA : amap := rev (combine (map snd xRB) ids) ++ rev (map (av xmp1) xLA).

  Lemma RB_sub po : In po xRB -> In po xPL /\ isB xmp1 xclaimed po = true.
  Proof. unfold xRB. intros H. apply filter_In in H. auto. Qed.
  Lemma LC_sub po : In po xLC -> In po xPL /\ isC xmp1 xclaimed po = true.
  Proof. unfold xLC. intros H. apply filter_In in H. auto. Qed.
  Lemma LA_sub po : In po xLA -> In po xPL /\ isA xmp1 po = true.
  Proof. unfold xLA. intros H. apply filter_In in H. auto. Qed.

  Lemma isB_facts n o : isB xmp1 xclaimed (n, o) = true -> get xmp1 n = None /\ In o xclaimed.
  Proof.
    unfold isB, isA. cbn [fst snd]. intros H. apply andb_true_iff in H as [H1 H2].
    apply memZ_In in H2. destruct (get xmp1 n); [discriminate | auto].
  Qed.
  Lemma isC_facts n o : isC xmp1 xclaimed (n, o) = true -> get xmp1 n = None /\ ~ In o xclaimed.
  Proof.
    unfold isC, isA. cbn [fst snd]. intros H. apply andb_true_iff in H as [H1 H2].
    apply negb_true_iff, memZ_nIn in H2. destruct (get xmp1 n); [discriminate | auto].
  Qed.
  Lemma isA_facts n o : isA xmp1 (n, o) = true -> exists v, get xmp1 n = Some v.
  Proof. unfold isA. cbn [fst]. destruct (get xmp1 n); [eauto | discriminate]. Qed.

  Lemma keys_NoDup : NoDup xkeys.
  Proof.
    unfold xkeys. apply NoDup_app_iff. repeat split.
    - unfold xRB. apply NoDup_map_filter, PL_fst_NoDup.
    - apply rem_NoDup.
    - intros x H1 H2. apply rem_In in H2 as (_ & _ & H2). auto.
  Qed.
  Lemma RB_snd_NoDup : NoDup (map snd xRB).
  Proof. unfold xRB. apply NoDup_map_filter, PL_snd_NoDup. Qed.

  (* where an entry of mapping_patch comes from *)
  Lemma MP_origin n v : In (n, v) xMP ->
    (exists r, In r T /\ frame r = s /\ part r = n /\ oldp r = v /\ In v xclaimed) \/
    (exists r, In r T /\ frame r = e - 1 /\ part r = n /\ oldp r = v /\ get xmp1 n = None /\ ~ In v xclaimed) \/
    (In (n, v) (combine xkeys ids) /\ In v ids).
  Proof.
    unfold xMP. intros H. apply in_app_or in H as [H|H]; [|apply in_app_or in H as [H|H]].
    - apply in_rev in H. right; right. split; auto. eapply in_combine_r; eauto.
    - apply in_rev in H. right; left. apply LC_sub in H as [H1 H2].
      apply isC_facts in H2 as [H2 H3]. apply PL_In in H1 as (r & ? & ? & ? & ?). exists r. auto 10.
    - left. apply mp1_In in H as (r & ? & ? & ? & ?). exists r. repeat split; auto.
      apply claimed_In. eauto.
  Qed.

  Lemma fresh_not_old v r : In v ids -> In r T -> oldp r <> v.
  Proof. intros Hv Hr E. apply (Hfresh v Hv). rewrite <- E. apply used_old; auto. Qed.

  Lemma key_not_first n r : In n xkeys -> In r T -> frame r = s -> part r <> n.
  Proof.
    intros Hn Hr Hf E. pose proof (mp1_get_row r Hr Hf) as G. rewrite E in G.
    unfold xkeys in Hn. apply in_app_or in Hn as [Hn|Hn].
    - apply in_map_iff in Hn as ([n' o] & E' & Hn). cbn in E'. subst n'.
      apply RB_sub in Hn as [_ Hn]. apply isB_facts in Hn as [Hn _]. congruence.
    - apply rem_In in Hn as (_ & Hn & _). rewrite get_app in Hn.
      destruct (get (rev xLC) n); [discriminate | congruence].
  Qed.

  (* K1: a track present in the first frame of the range takes the old id it has there *)
  Lemma MP_first r : In r T -> frame r = s -> get xMP (part r) = Some (oldp r).
  Proof.
    intros Hr Hf. destruct (get_key xMP (part r)) as (v & Hv).
    { unfold xMP. rewrite !map_app. apply in_or_app; right. apply in_or_app; right.
      apply (In_fst _ (oldp r)). apply mp1_In. eauto. }
    rewrite Hv. f_equal. apply get_In, MP_origin in Hv as [H|[H|H]].
    - destruct H as (r' & Hr' & Hf' & Hp & <- & _). f_equal.
      apply Hnew; auto; try apply inside_first; auto; congruence.
    - destruct H as (_ & _ & _ & _ & _ & G & _). rewrite mp1_get_row in G; auto. discriminate.
    - destruct H as [H _]. apply in_combine_l in H. exfalso. eapply key_not_first; eauto.
  Qed.

  Lemma MP_inj n1 n2 v : get xMP n1 = Some v -> get xMP n2 = Some v -> n1 = n2.
  Proof.
    intros H1 H2. apply get_In, MP_origin in H1. apply get_In, MP_origin in H2.
    destruct H1 as [(r1 & Hr1 & Hf1 & Hp1 & Ho1 & Hc1)|[(r1 & Hr1 & Hf1 & Hp1 & Ho1 & _ & Hc1)|[Hk1 Hi1]]];
    destruct H2 as [(r2 & Hr2 & Hf2 & Hp2 & Ho2 & Hc2)|[(r2 & Hr2 & Hf2 & Hp2 & Ho2 & _ & Hc2)|[Hk2 Hi2]]];
      try tauto;
      try (exfalso; eapply fresh_not_old; eauto; fail).
    - assert (r1 = r2) by (apply old_unique; auto; congruence). subst. congruence.
    - assert (r1 = r2) by (apply old_unique; auto; congruence). subst. congruence.
    - exact (combine_fun_l xkeys ids n1 n2 v Hids Hk1 Hk2).
  Qed.

  Lemma MA_origin o v : In (o, v) xMA ->
    (exists n, In (n, o) xRB /\ In (o, v) (combine (map snd xRB) ids)) \/
    (exists n, In (n, o) xLA /\ v = replace_with xmp1 n).
  Proof.
    unfold xMA. intros H. apply in_app_or in H as [H|H]; apply in_rev in H.
    - left. pose proof (in_combine_l _ _ _ _ H) as Hk. apply in_map_iff in Hk as ([n o'] & E & Hk).
      cbn in E. subst. eauto.
    - right. apply in_map_iff in H as ([n o'] & E & H). unfold av in E. cbn in E. inversion E; subst. eauto.
  Qed.

  Lemma len_RB_ids : (length xRB <= length ids)%nat.
  Proof. lia. Qed.

  (* K2: a track present in the last frame; rows after the range that carry its
     old id there end up with the track's final label *)
  Lemma MP_last r : In r T -> frame r = e - 1 ->
    exists v, get xMP (part r) = Some v /\ replace_with xMA (oldp r) = v.
  Proof.
    intros Hr Hf. pose proof (PL_row r Hr Hf) as HPL.
    destruct (isA xmp1 (pc r)) eqn:EA; [|destruct (memZ (oldp r) xclaimed) eqn:EM].
    - (* enters from before the range *)
      apply isA_facts in EA as (v0 & G0).
      destruct (mp1_get_some _ _ G0) as (r0 & Hr0 & Hf0 & Hp0 & Ho0).
      exists v0. split.
      + rewrite <- Hp0, <- Ho0. apply MP_first; auto.
      + unfold replace_with. destruct (get xMA (oldp r)) as [v'|] eqn:G.
        * apply get_In, MA_origin in G as [(n & HB & _)|(n & HA & ->)].
          -- apply RB_sub in HB as [HB1 HB2]. rewrite (PL_old_eq _ _ r HB1) in HB2; auto.
             apply isB_facts in HB2 as [HB2 _]. cbn in G0. congruence.
          -- apply LA_sub in HA as [HA _]. pose proof (PL_old_eq _ _ r HA Hr Hf eq_refl) as E.
             inversion E; subst. unfold replace_with. cbn in G0. rewrite G0. reflexivity.
        * exfalso. apply get_None in G. apply G. unfold xMA. rewrite map_app. apply in_or_app; right.
          rewrite map_rev, <- in_rev, map_map. apply in_map_iff. exists (pc r). split; auto.
          unfold xLA. apply filter_In. split; auto. unfold isA. cbn [pc fst]. rewrite G0. reflexivity.
    - (* reborn *)
      assert (HB : In (pc r) xRB).
      { unfold xRB. apply filter_In. split; auto. unfold isB. rewrite EA. cbn [pc snd negb andb]. auto. }
      destruct (combine_pair_both xRB xrem ids (part r) (oldp r) len_RB_ids HB) as (v & H1 & H2).
      fold xkeys in H1. exists v. split.
      + destruct (get_key xMP (part r)) as (v' & Hv').
        { unfold xMP. rewrite map_app. apply in_or_app; left. rewrite map_rev, <- in_rev.
          eapply In_fst; eauto. }
        rewrite Hv'. f_equal. apply get_In, MP_origin in Hv' as [H|[H|H]].
        * destruct H as (r' & Hr' & Hf' & Hp' & _). exfalso.
          eapply key_not_first; try exact Hf'; eauto. eapply in_combine_l; eauto.
        * destruct H as (r' & Hr' & Hf' & Hp' & Ho' & _ & Hc). exfalso.
          assert (r' = r) by (apply Hnew; auto; try apply inside_last; auto; congruence). subst r'.
          apply Hc. rewrite <- Ho'. apply memZ_In; auto.
        * destruct H as [H _]. exact (combine_fun_r xkeys ids (part r) v' v keys_NoDup H H1).
      + unfold replace_with. destruct (get xMA (oldp r)) as [v'|] eqn:G.
        * apply get_In, MA_origin in G as [(n & _ & HB')|(n & HA & _)].
          -- exact (combine_fun_r _ _ _ _ _ RB_snd_NoDup HB' H2).
          -- apply LA_sub in HA as [HA1 HA2]. rewrite (PL_old_eq _ _ r HA1) in HA2; auto. congruence.
        * exfalso. apply get_None in G. apply G. unfold xMA. rewrite map_app. apply in_or_app; left.
          rewrite map_rev, <- in_rev. eapply In_fst; eauto.
    - (* created inside the range and leaving it: keeps the old id of its last frame *)
      assert (HC : In (pc r) xLC).
      { unfold xLC. apply filter_In. split; auto. unfold isC. rewrite EA. cbn [pc snd negb andb]. rewrite EM. auto. }
      exists (oldp r). split.
      + destruct (get_key xMP (part r)) as (v' & Hv').
        { unfold xMP. rewrite !map_app. apply in_or_app; right. apply in_or_app; left.
          rewrite map_rev, <- in_rev. apply (In_fst _ (oldp r)). exact HC. }
        rewrite Hv'. f_equal. apply get_In, MP_origin in Hv' as [H|[H|H]].
        * destruct H as (r' & Hr' & Hf' & Hp' & _). exfalso.
          pose proof (mp1_get_row r' Hr' Hf') as G. rewrite Hp' in G.
          unfold isA in EA. cbn [pc fst] in EA. rewrite G in EA. discriminate.
        * destruct H as (r' & Hr' & Hf' & Hp' & Ho' & _).
          assert (r' = r) by (apply Hnew; auto; try apply inside_last; auto; congruence). subst; auto.
        * destruct H as [H _]. apply in_combine_l in H. exfalso. unfold xkeys in H.
          apply in_app_or in H as [H|H].
          -- apply in_map_iff in H as ([n o] & E & H). cbn in E. subst n.
             apply RB_sub in H as [H1 H2]. rewrite (PL_part_eq _ _ r H1) in H2; auto.
             unfold isB in H2. rewrite EA in H2. cbn [pc snd negb andb] in H2. congruence.
          -- apply rem_In in H as (_ & H & _). apply get_None in H. apply H.
             rewrite map_app. apply in_or_app; left. rewrite map_rev, <- in_rev.
             apply (In_fst _ (oldp r)). exact HC.
      + unfold replace_with. destruct (get xMA (oldp r)) as [v'|] eqn:G; auto.
        exfalso. apply get_In, MA_origin in G as [(n & HB & _)|(n & HA & _)].
        * apply RB_sub in HB as [HB1 HB2]. rewrite (PL_old_eq _ _ r HB1) in HB2; auto.
          unfold isB in HB2. rewrite EA in HB2. cbn [pc snd negb andb] in HB2. congruence.
        * apply LA_sub in HA as [HA1 HA2]. rewrite (PL_old_eq _ _ r HA1) in HA2; auto. congruence.
  Qed.

  (* every id used inside the range is renamed *)
  Lemma MP_total r : In r T -> inside s e r -> exists v, get xMP (part r) = Some v.
  Proof.
    intros Hr Hi. apply get_key. unfold xMP. rewrite map_app.
    destruct (get (rev xLC ++ xmp1) (part r)) eqn:G.
    - apply in_or_app; right. eapply In_fst. eapply get_In; eauto.
    - apply in_or_app; left. rewrite map_rev, <- in_rev.
      assert (Hk : In (part r) xkeys).
      { unfold xkeys. destruct (in_dec Z.eq_dec (part r) (map fst xRB)) as [Hb|Hb].
        - apply in_or_app; auto.
        - apply in_or_app; right. apply rem_In. repeat split; eauto. }
      destruct (combine_key_In xkeys ids (part r)) as (b & Hb); auto.
      + unfold xkeys. rewrite app_length, map_length. lia.
      + eapply In_fst; eauto.
  Qed.

  Lemma MA_key_row o v : In (o, v) xMA -> exists r, In r T /\ frame r = e - 1 /\ oldp r = o.
  Proof.
    intros H. apply MA_origin in H as [(n & H & _)|(n & H & _)].
    - apply RB_sub in H as [H _]. apply PL_In in H as (r & ? & ? & ? & ?). eauto.
    - apply LA_sub in H as [H _]. apply PL_In in H as (r & ? & ? & ? & ?). eauto.
  Qed.
  (* --- the final label of a row --- *)
  Definition xlab (r : row) : Z := part (relabel s e xMP xMA r).

  Lemma in_patch_iff r : in_patch s e r = true <-> inside s e r.
  Proof.
    unfold in_patch, inside. rewrite andb_true_iff, Z.leb_le, Z.ltb_lt. tauto.
  Qed.
  Lemma zones r : before s r \/ inside s e r \/ after e r.
  Proof. unfold before, inside, after. lia. Qed.

  Lemma lab_before r : In r T -> before s r -> xlab r = oldp r.
  Proof.
    intros Hr Hb. unfold xlab, relabel.
    destruct (in_patch s e r) eqn:E.
    - apply in_patch_iff in E. unfold before, inside in *. lia.
    - destruct (e <=? frame r) eqn:E2.
      + apply Z.leb_le in E2. unfold before in Hb. lia.
      + apply Hout; auto. unfold before, inside in *. lia.
  Qed.
  Lemma lab_inside r : In r T -> inside s e r -> get xMP (part r) = Some (xlab r).
  Proof.
    intros Hr Hi. unfold xlab, relabel. apply in_patch_iff in Hi as E. rewrite E. cbn [set_part part].
    destruct (MP_total r Hr Hi) as (v & Hv). unfold replace_with. rewrite Hv. reflexivity.
  Qed.
  Lemma lab_after r : In r T -> after e r -> xlab r = replace_with xMA (oldp r).
  Proof.
    intros Hr Ha. unfold xlab, relabel.
    destruct (in_patch s e r) eqn:E.
    - apply in_patch_iff in E. unfold after, inside in *. lia.
    - assert (E2 : (e <=? frame r) = true) by (apply Z.leb_le; exact Ha). rewrite E2. cbn [set_part part].
      rewrite Hout; auto. unfold after, inside in *. lia.
  Qed.

  (* a row after the range: either its old track reaches the last frame of the
     range, or the whole old track lies after the range *)
  Lemma after_label r : In r T -> after e r ->
    (exists r', In r' T /\ frame r' = e - 1 /\ oldp r' = oldp r /\ get xMP (part r') = Some (xlab r)) \/
    ((forall r', In r' T -> oldp r' = oldp r -> e <= frame r') /\ xlab r = oldp r).
  Proof.
    intros Hr Ha. rewrite (lab_after r Hr Ha).
    destruct (in_dec Z.eq_dec (oldp r) (map snd xPL)) as [Hi|Hi].
    - left. apply in_map_iff in Hi as ([n o] & E & Hi). cbn in E. subst o.
      apply PL_In in Hi as (r' & Hr' & Hf' & _ & Ho'). exists r'. repeat split; auto.
      destruct (MP_last r' Hr' Hf') as (v & Hv & Hv'). rewrite <- Ho', Hv'. exact Hv.
    - right. assert (Hno : forall r', In r' T -> frame r' = e - 1 -> oldp r' <> oldp r).
      { intros r' Hr' Hf' E. apply Hi. apply in_map_iff. exists (pc r'). split; [exact E|].
        apply PL_row; auto. }
      split.
      + intros r' Hr' Ho'. destruct (Z_lt_le_dec (frame r') e) as [Hlt|]; auto. exfalso.
        destruct (old_contig r' r (e - 1) Hr' Hr Ho') as (r'' & Hr'' & Hf'' & Ho'').
        { unfold after in Ha. lia. }
        apply (Hno r'' Hr'' Hf''). congruence.
      + unfold replace_with. destruct (get xMA (oldp r)) eqn:G; auto. exfalso.
        apply get_In, MA_key_row in G as (r' & Hr' & Hf' & Ho'). eapply Hno; eauto.
  Qed.

  Lemma no_label_from_later_track n r :
    get xMP n = Some (oldp r) -> In r T -> (forall r', In r' T -> oldp r' = oldp r -> e <= frame r') -> False.
  Proof.
    intros G Hr Hall. apply get_In, MP_origin in G as [H|[H|H]].
    - destruct H as (r' & Hr' & Hf' & _ & Ho' & _). apply Hall in Ho'; auto. lia.
    - destruct H as (r' & Hr' & Hf' & _ & Ho' & _). apply Hall in Ho'; auto. lia.
    - destruct H as [_ H]. eapply fresh_not_old; eauto.
  Qed.

  (* --- soundness: joined rows share a label --- *)
  Lemma link1_lab r1 r2 : link1 T s e r1 r2 -> xlab r1 = xlab r2.
  Proof.
    intros H. destruct H as [r1 r2 H1 H2 Z1 Z2 E|r1 r2 H1 H2 Z1 Z2 E|r1 r2 H1 H2 Z1 Z2 E
                             |r1 r2 H1 H2 Z1 Z2 E|r1 r2 H1 H2 Z1 Z2 E].
    - rewrite !lab_before; auto.
    - rewrite !lab_after; auto. congruence.
    - pose proof (lab_inside r1 H1 Z1) as G1. pose proof (lab_inside r2 H2 Z2) as G2.
      rewrite E in G1. congruence.
    - pose proof (lab_inside r1 H1 (inside_first r1 Z1)) as G1.
      rewrite (MP_first r1 H1 Z1) in G1. rewrite (lab_before r2); auto. congruence.
    - pose proof (lab_inside r1 H1 (inside_last r1 Z1)) as G1.
      destruct (MP_last r1 H1 Z1) as (v & Hv & Hv'). rewrite (lab_after r2); auto. congruence.
  Qed.
  Lemma joined_lab r1 r2 : joined T s e r1 r2 -> xlab r1 = xlab r2.
  Proof.
    unfold joined. induction 1; auto using link1_lab; congruence.
  Qed.

  (* --- completeness: rows that share a label are joined --- *)
  Lemma jstep r1 r2 : link1 T s e r1 r2 -> joined T s e r1 r2.
  Proof. apply rst_step. Qed.
  Lemma jsym r1 r2 : joined T s e r1 r2 -> joined T s e r2 r1.
  Proof. apply rst_sym. Qed.
  Lemma jtrans r1 r2 r3 : joined T s e r1 r2 -> joined T s e r2 r3 -> joined T s e r1 r3.
  Proof. apply rst_trans. Qed.

  Lemma C_bb r1 r2 : In r1 T -> In r2 T -> before s r1 -> before s r2 -> xlab r1 = xlab r2 -> joined T s e r1 r2.
  Proof. intros H1 H2 Z1 Z2 E. rewrite !lab_before in E; auto. apply jstep, J_before; auto. Qed.

  Lemma C_ii r1 r2 : In r1 T -> In r2 T -> inside s e r1 -> inside s e r2 -> xlab r1 = xlab r2 -> joined T s e r1 r2.
  Proof.
    intros H1 H2 Z1 Z2 E. apply jstep, J_inside; auto.
    pose proof (lab_inside r1 H1 Z1) as G1. pose proof (lab_inside r2 H2 Z2) as G2.
    rewrite E in G1. eapply MP_inj; eauto.
  Qed.

  Lemma C_bi r1 r2 : In r1 T -> In r2 T -> before s r1 -> inside s e r2 -> xlab r1 = xlab r2 -> joined T s e r1 r2.
  Proof.
    intros H1 H2 Z1 Z2 E. rewrite lab_before in E; auto.
    pose proof (lab_inside r2 H2 Z2) as G2. rewrite <- E in G2.
    apply get_In, MP_origin in G2 as [H|[H|H]].
    - destruct H as (r' & Hr' & Hf' & Hp' & Ho' & _).
      eapply jtrans; [apply jsym, jstep, (J_first T s e r' r1); auto|].
      apply jstep, J_inside; auto. apply inside_first; auto.
    - destruct H as (r' & Hr' & Hf' & _ & Ho' & _ & Hc). exfalso. apply Hc.
      destruct (old_contig r1 r' s H1 Hr') as (r'' & Hr'' & Hf'' & Ho''); auto.
      { unfold before in Z1. lia. }
      apply claimed_In. eauto.
    - destruct H as [_ H]. exfalso. exact (fresh_not_old (oldp r1) r1 H H1 eq_refl).
  Qed.

  Lemma C_ia r1 r2 : In r1 T -> In r2 T -> inside s e r1 -> after e r2 -> xlab r1 = xlab r2 -> joined T s e r1 r2.
  Proof.
    intros H1 H2 Z1 Z2 E. pose proof (lab_inside r1 H1 Z1) as G1. rewrite E in G1.
    destruct (after_label r2 H2 Z2) as [(r' & Hr' & Hf' & Ho' & G')|[Hall El]].
    - eapply jtrans; [apply jstep, (J_inside T s e r1 r'); auto|].
      + apply inside_last; auto.
      + eapply MP_inj; eauto.
      + apply jstep, J_last; auto.
    - exfalso. rewrite El in G1. eapply no_label_from_later_track; eauto.
  Qed.

  Lemma C_ba r1 r2 : In r1 T -> In r2 T -> before s r1 -> after e r2 -> xlab r1 = xlab r2 -> joined T s e r1 r2.
  Proof.
    intros H1 H2 Z1 Z2 E.
    destruct (after_label r2 H2 Z2) as [(r' & Hr' & Hf' & Ho' & G')|[Hall El]].
    - pose proof (lab_inside r' Hr' (inside_last r' Hf')) as G. rewrite G in G'. inversion G' as [E'].
      eapply jtrans; [apply (C_bi r1 r'); auto; try apply inside_last; auto; congruence|].
      apply jstep, J_last; auto.
    - exfalso. rewrite lab_before in E; auto. rewrite El in E.
      apply Hall in E; auto. unfold before in Z1. lia.
  Qed.

  Lemma after_inj r1 r2 : In r1 T -> In r2 T -> after e r1 -> after e r2 -> xlab r1 = xlab r2 -> oldp r1 = oldp r2.
  Proof.
    intros H1 H2 Z1 Z2 E.
    destruct (after_label r1 H1 Z1) as [(r1' & Hr1' & Hf1' & Ho1' & G1')|[Hall1 El1]];
    destruct (after_label r2 H2 Z2) as [(r2' & Hr2' & Hf2' & Ho2' & G2')|[Hall2 El2]].
    - rewrite E in G1'. assert (r1' = r2'); [|subst; congruence].
      apply Hnew; auto; try apply inside_last; auto; try congruence. eapply MP_inj; eauto.
    - exfalso. rewrite E, El2 in G1'. eapply no_label_from_later_track; eauto.
    - exfalso. rewrite <- E, El1 in G2'. eapply no_label_from_later_track; eauto.
    - congruence.
  Qed.
  Lemma C_aa r1 r2 : In r1 T -> In r2 T -> after e r1 -> after e r2 -> xlab r1 = xlab r2 -> joined T s e r1 r2.
  Proof. intros. apply jstep, J_after; auto. apply after_inj; auto. Qed.

  Theorem lab_iff_joined r1 r2 : In r1 T -> In r2 T -> (xlab r1 = xlab r2 <-> joined T s e r1 r2).
  Proof.
    intros H1 H2. split; [|apply joined_lab]. intros E.
    destruct (zones r1) as [Z1|[Z1|Z1]], (zones r2) as [Z2|[Z2|Z2]].
    - apply C_bb; auto.
    - apply C_bi; auto.
    - apply C_ba; auto.
    - apply jsym, C_bi; auto.
    - apply C_ii; auto.
    - apply C_ia; auto.
    - apply jsym, C_ba; auto.
    - apply jsym, C_ia; auto.
    - apply C_aa; auto.
  Qed.

  Theorem lab_unique r1 r2 : In r1 T -> In r2 T -> frame r1 = frame r2 -> xlab r1 = xlab r2 -> r1 = r2.
  Proof.
    intros H1 H2 Ef E.
    destruct (zones r1) as [Z1|[Z1|Z1]].
    - assert (Z2 : before s r2) by (unfold before in *; lia).
      rewrite !lab_before in E; auto. apply old_unique; auto.
    - assert (Z2 : inside s e r2) by (unfold inside in *; lia).
      pose proof (lab_inside r1 H1 Z1) as G1. pose proof (lab_inside r2 H2 Z2) as G2. rewrite E in G1.
      apply Hnew; auto. eapply MP_inj; eauto.
    - assert (Z2 : after e r2) by (unfold after in *; lia).
      apply old_unique; auto. apply after_inj; auto.
  Qed.

  Theorem lab_outside r1 r2 : In r1 T -> In r2 T ->
    (before s r1 /\ before s r2) \/ (after e r1 /\ after e r2) -> (xlab r1 = xlab r2 <-> oldp r1 = oldp r2).
  Proof.
    intros H1 H2 [[Z1 Z2]|[Z1 Z2]].
    - rewrite !lab_before; auto. tauto.
    - split; [apply after_inj; auto|]. intros E. rewrite !lab_after; auto. congruence.
  Qed.
End Reconnect.

(* ------------------------------------------------------------------------ *)
(* 4. reconnect_traj_patch meets the specification                           *)
(* ------------------------------------------------------------------------ *)
Lemma combine_map_In {A B} (g : A -> B) (l : list A) a b :
  In (a, b) (combine l (map g l)) -> In a l /\ b = g a.
Proof.
  induction l as [|x l IH]; cbn; [tauto|]. intros [E|H].
  - inversion E; subst; auto.
  - apply IH in H. tauto.
Qed.

Lemma relabel_keeps s e mp ma r :
  rid (relabel s e mp ma r) = rid r /\ frame (relabel s e mp ma r) = frame r /\
  oldp (relabel s e mp ma r) = oldp r.
Proof. unfold relabel. destruct (in_patch s e r); [|destruct (e <=? frame r)]; cbn; auto. Qed.

Theorem reconnect_correct T s e :
  NoDup (map rid T) -> s < e -> valid_old T -> valid_new T s e -> untouched_outside T s e ->
  exists out, reconnect T s e = POk out /\
    map rid out = map rid T /\ map frame out = map frame T /\ map oldp out = map oldp T /\
    (forall r l, In (r, l) (labelled T (map part out)) -> before s r -> l = oldp r) /\
    labels_unique_per_frame T (map part out) /\
    share_label_iff_joined T s e (map part out) /\
    outside_grouping_kept T s e (map part out).
Proof.
  intros Hrid Hse Hold Hnew Hout.
  assert (Hnd : NoDup T) by (eapply NoDup_map_inv; eauto).
  destruct (final_maps_form T s e Hse Hold Hnew Hnd) as (ids & Hfm & Hlen & Hids & Hfresh).
  unfold reconnect. assert (Elt : (s <? e) = true) by (apply Z.ltb_lt; auto). rewrite Elt. cbn [negb].
  rewrite Hfm. eexists. split; [reflexivity|].
  fold (xkeys T s e). fold (xMP T s e ids). fold (xMA T s e ids).
  rewrite !map_map.
  split; [|split; [|split; [|split; [|split; [|split]]]]].
  - apply map_ext. intros r. apply relabel_keeps.
  - apply map_ext. intros r. apply relabel_keeps.
  - apply map_ext. intros r. apply relabel_keeps.
  - intros r l H Hb. apply combine_map_In in H as [Hr ->].
    apply (lab_before T s e Hse Hout ids Hlen); auto.
  - intros r1 r2 l H1 H2 Ef. apply combine_map_In in H1 as [H1 E1], H2 as [H2 E2].
    apply (lab_unique T s e Hse Hold Hnew Hout Hnd ids Hlen Hids Hfresh); auto.
    unfold xlab. congruence.
  - intros r1 l1 r2 l2 H1 H2. apply combine_map_In in H1 as [H1 ->], H2 as [H2 ->].
    apply (lab_iff_joined T s e Hse Hold Hnew Hout Hnd ids Hlen Hids Hfresh); auto.
  - intros r1 l1 r2 l2 H1 H2 Hz. apply combine_map_In in H1 as [H1 ->], H2 as [H2 ->].
    apply (lab_outside T s e Hse Hold Hnew Hout Hnd ids Hlen Hids Hfresh); auto.
Qed.

(* ------------------------------------------------------------------------ *)
(* 5. the executable checkers are sound                                      *)
(* ------------------------------------------------------------------------ *)
Lemma In_Zrange t a b : In t (Zrange a b) <-> a <= t < b.
Proof.
  unfold Zrange. rewrite in_map_iff. split.
  - intros (k & <- & Hk). apply in_seq in Hk. lia.
  - intros H. exists (Z.to_nat (t - a)). split; [lia|]. apply in_seq. lia.
Qed.

Lemma nodup_nat_sound l : nodup_nat l = true -> NoDup l.
Proof.
  induction l as [|x l IH]; intros H; [constructor|].
  cbn in H. apply andb_true_iff in H as [H1 H2]. constructor; auto.
  intro Hi. apply negb_true_iff in H1. assert (existsb (Nat.eqb x) l = true); [|congruence].
  apply existsb_exists. exists x. split; auto. apply Nat.eqb_refl.
Qed.

Lemma all_pairs_sound p T : all_pairs p T = true -> forall r1 r2, In r1 T -> In r2 T -> p r1 r2 = true.
Proof.
  unfold all_pairs. intros H r1 r2 H1 H2. rewrite forallb_forall in H.
  specialize (H r1 H1). rewrite forallb_forall in H. auto.
Qed.

Lemma hyps_ok_sound T s e : hyps_ok T s e = true ->
  NoDup (map rid T) /\ s < e /\ valid_old T /\ valid_new T s e /\ untouched_outside T s e.
Proof.
  unfold hyps_ok. rewrite !andb_true_iff.
  intros ((((((H1 & H2) & H3) & H4) & H5) & H6) & H7).
  apply nodup_nat_sound in H1. apply Z.ltb_lt in H2.
  assert (Hrid : forall r1 r2, In r1 T -> In r2 T -> Nat.eqb (rid r1) (rid r2) = true -> r1 = r2).
  { intros r1 r2 A B E. apply Nat.eqb_eq in E. eapply NoDup_map_In_eq; eauto. }
  split; auto. split; auto. split; [split; [|split]|split].
  - unfold old_nonnegb in H3. rewrite forallb_forall in H3. intros r Hr. apply Z.leb_le; auto.
  - intros r1 r2 A B Ef Eo. pose proof (all_pairs_sound _ _ H4 r1 r2 A B) as H. cbn in H.
    apply Hrid; auto. apply Z.eqb_eq in Ef, Eo. rewrite Ef, Eo in H. exact H.
  - intros r1 r2 t A B Eo Ht. pose proof (all_pairs_sound _ _ H5 r1 r2 A B) as H. cbn in H.
    apply Z.eqb_eq in Eo. rewrite Eo in H. cbn in H. rewrite forallb_forall in H.
    assert (Hin : In t (Zrange (frame r1) (frame r2 + 1))) by (apply In_Zrange; lia).
    apply H in Hin. apply existsb_exists in Hin as (r & Hr & Hc).
    apply andb_true_iff in Hc as [C1 C2]. apply Z.eqb_eq in C1, C2. eauto.
  - intros r1 r2 A B I1 I2 Ef Ep. pose proof (all_pairs_sound _ _ H6 r1 r2 A B) as H. cbn in H.
    apply Hrid; auto. apply in_patch_iff in I1, I2. apply Z.eqb_eq in Ef, Ep.
    rewrite I1, I2, Ef, Ep in H. exact H.
  - intros r Hr Hi. unfold untouchedb in H7. rewrite forallb_forall in H7. specialize (H7 r Hr).
    apply orb_true_iff in H7 as [H|H]; [apply in_patch_iff in H; tauto | apply Z.eqb_eq; auto].
Qed.

Lemma same_partition_sound l1 l2 : same_partition l1 l2 = true ->
  length l1 = length l2 /\
  forall a1 b1 a2 b2, In (a1, b1) (combine l1 l2) -> In (a2, b2) (combine l1 l2) -> (a1 = a2 <-> b1 = b2).
Proof.
  unfold same_partition. rewrite andb_true_iff. intros [H1 H2]. apply Nat.eqb_eq in H1. split; auto.
  intros a1 b1 a2 b2 A B. rewrite forallb_forall in H2. specialize (H2 _ A).
  rewrite forallb_forall in H2. specialize (H2 _ B). cbn [fst snd] in H2. apply eqb_prop in H2.
  destruct (a1 =? a2) eqn:Ea; destruct (b1 =? b2) eqn:Eb; try discriminate.
  - apply Z.eqb_eq in Ea, Eb. tauto.
  - apply Z.eqb_neq in Ea, Eb. tauto.
Qed.

Lemma combine_through {A} (T : list A) : forall (l1 l2 : list Z) r b,
  length l1 = length l2 -> In (r, b) (combine T l2) ->
  exists a, In (r, a) (combine T l1) /\ In (a, b) (combine l1 l2).
Proof.
  induction T as [|x T IH]; intros [|a1 l1] [|b1 l2] r b Hl H; cbn in *; try tauto; try discriminate.
  destruct H as [E|H].
  - inversion E; subst. eauto.
  - destruct (IH l1 l2 r b) as (a & Ha & Hb); auto. eauto.
Qed.

(* the specification only speaks about which rows share a label *)
Lemma spec_partition_invariant T s e l1 l2 :
  length l1 = length l2 ->
  (forall a1 b1 a2 b2, In (a1, b1) (combine l1 l2) -> In (a2, b2) (combine l1 l2) -> (a1 = a2 <-> b1 = b2)) ->
  labels_unique_per_frame T l1 /\ share_label_iff_joined T s e l1 /\ outside_grouping_kept T s e l1 ->
  labels_unique_per_frame T l2 /\ share_label_iff_joined T s e l2 /\ outside_grouping_kept T s e l2.
Proof.
  intros Hl Hp (U & S & O). unfold labelled in *. split; [|split].
  - intros r1 r2 l A B Ef. unfold labelled in *.
    destruct (combine_through T l1 l2 r1 l Hl A) as (a1 & A1 & A2).
    destruct (combine_through T l1 l2 r2 l Hl B) as (a2 & B1 & B2).
    assert (a1 = a2) by (apply (Hp a1 l a2 l); auto). subst. eapply U; eauto.
  - intros r1 b1 r2 b2 A B. unfold labelled in *.
    destruct (combine_through T l1 l2 r1 b1 Hl A) as (a1 & A1 & A2).
    destruct (combine_through T l1 l2 r2 b2 Hl B) as (a2 & B1 & B2).
    rewrite <- (Hp a1 b1 a2 b2 A2 B2). apply S; auto.
  - intros r1 b1 r2 b2 A B Hz. unfold labelled in *.
    destruct (combine_through T l1 l2 r1 b1 Hl A) as (a1 & A1 & A2).
    destruct (combine_through T l1 l2 r2 b2 Hl B) as (a2 & B1 & B2).
    rewrite <- (Hp a1 b1 a2 b2 A2 B2). apply (O r1 a1 r2 a2); auto.
Qed.

Theorem monitor_sound T s e lab : monitor T s e lab = true ->
  (NoDup (map rid T) /\ s < e /\ valid_old T /\ valid_new T s e /\ untouched_outside T s e) /\
  labels_unique_per_frame T lab /\ share_label_iff_joined T s e lab /\ outside_grouping_kept T s e lab.
Proof.
  unfold monitor. rewrite !andb_true_iff. intros [[H1 H2] H3].
  apply hyps_ok_sound in H1 as Hh. split; auto.
  destruct Hh as (A & B & C & D & E).
  destruct (reconnect_correct T s e A B C D E) as (out & Hrec & _ & _ & _ & _ & U & S & O).
  rewrite Hrec in H3. apply same_partition_sound in H3 as [Hl Hp].
  eapply spec_partition_invariant; eauto.
Qed.

(* ------------------------------------------------------------------------ *)
(* 6. the pinned (pre-fix) reconnect_traj_patch violates the specification   *)
(* ------------------------------------------------------------------------ *)
(* DESIGN 4, F4: old track 5 (x = 0,0,0,10,10,10), old track 7 born in frame 3
   at x = 0.1; link_partial(search_range=2, link_range=(1,5)).  Rows as they are
   after the in-range relinking. *)
Definition F4_table : list row :=
  [mkrow 0 0 5 5; mkrow 1 1 0 5; mkrow 2 2 0 5; mkrow 3 3 1 5; mkrow 6 3 0 7;
   mkrow 4 4 1 5; mkrow 7 4 0 7; mkrow 5 5 5 5; mkrow 8 5 7 7].
(* DESIGN 4, F5: old track 0 lives in frames 1-2 only, a one-frame track is
   created inside the range (1,4) *)
Definition F5_table : list row :=
  [mkrow 0 0 1 1; mkrow 1 1 0 1; mkrow 2 1 1 0; mkrow 3 2 0 1; mkrow 4 2 1 0; mkrow 5 2 2 2;
   mkrow 6 3 0 1; mkrow 7 4 1 1].
(* a range with an empty frame (frame 2) *)
Definition gap_table : list row :=
  [mkrow 0 0 5 5; mkrow 1 0 6 6; mkrow 2 1 0 6; mkrow 3 1 1 5; mkrow 4 3 2 9; mkrow 5 3 3 8;
   mkrow 6 4 8 8; mkrow 7 4 9 9].

Lemma pinned_refuted_collision :
  hyps_ok F4_table 1 5 = true /\
  exists out, reconnect_pinned F4_table 1 5 = POk out /\ ~ labels_unique_per_frame F4_table (map part out).
Proof.
  split; [vm_compute; reflexivity|]. eexists. split; [vm_compute; reflexivity|].
  intros H. specialize (H (mkrow 3 3 1 5) (mkrow 6 3 0 7) 5).
  assert (E : mkrow 3 3 1 5 = mkrow 6 3 0 7); [|discriminate E].
  apply H; cbn; auto 10.
Qed.

Lemma pinned_refuted_fresh :
  hyps_ok F5_table 1 4 = true /\
  exists out, reconnect_pinned F5_table 1 4 = POk out /\ ~ labels_unique_per_frame F5_table (map part out).
Proof.
  split; [vm_compute; reflexivity|]. eexists. split; [vm_compute; reflexivity|].
  intros H. specialize (H (mkrow 4 2 1 0) (mkrow 5 2 2 2) 0).
  assert (E : mkrow 4 2 1 0 = mkrow 5 2 2 2); [|discriminate E].
  apply H; cbn; auto 10.
Qed.
