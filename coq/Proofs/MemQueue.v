(* The mem_set / mem_history queue of Linker.apply_links keeps exactly the sources that
   the age rule of Model/Link.v keeps: after every step, mem_set = the unmatched sources
   last seen at most [memory] steps before the step just made. *)
From Coq Require Import ZArith List Bool Lia Permutation.
From TP Require Import Model.Assign Model.Link Model.MemQueue Proofs.Labels.
Import ListNotations.
Local Open Scope nat_scope.

(* ---- sets of keys ---- *)
Lemma key_eqb_eq a b : key_eqb a b = true <-> a = b.
Proof.
  unfold key_eqb. destruct a as [a1 a2], b as [b1 b2]. cbn. rewrite andb_true_iff, !Nat.eqb_eq. split; [intros [-> ->]; reflexivity|intros E; inversion E; auto].
Qed.
Lemma mem_in_spec k l : mem_in k l = true <-> In k l.
Proof.
  unfold mem_in. rewrite existsb_exists. split.
  - intros [x [Hx E]]. apply key_eqb_eq in E. subst x. exact Hx.
  - intros H. exists k. split; [exact H|apply key_eqb_eq; reflexivity].
Qed.
Lemma minus_spec k a b : In k (minus a b) <-> In k a /\ ~ In k b.
Proof.
  unfold minus. rewrite filter_In, negb_true_iff. split; intros [H1 H2]; split; auto.
  - intros Hb. apply mem_in_spec in Hb. congruence.
  - destruct (mem_in k b) eqn:E; [apply mem_in_spec in E; contradiction|reflexivity].
Qed.

Lemma keys_where_spec f : forall l i k,
  In k (keys_where f i l) <-> exists j s, nth_error l j = Some s /\ f (i + j) = true /\ k = key_of s.
Proof.
  induction l as [|x l IH]; intros i k; cbn.
  - split; [tauto|]. intros [j [s [H _]]]. destruct j; discriminate.
  - destruct (f i) eqn:E.
    + cbn. rewrite IH. split.
      * intros [H|[j [s [Hn [Hf Hk]]]]].
        -- exists 0, x. rewrite Nat.add_0_r. auto.
        -- exists (S j), s. rewrite <- Nat.add_succ_comm. auto.
      * intros [j [s [Hn [Hf Hk]]]]. destruct j as [|j]; cbn in Hn.
        -- inversion Hn; subst. left. reflexivity.
        -- right. exists j, s. rewrite Nat.add_succ_comm. auto.
    + rewrite IH. split.
      * intros [j [s [Hn [Hf Hk]]]]. exists (S j), s. rewrite <- Nat.add_succ_comm. auto.
      * intros [j [s [Hn [Hf Hk]]]]. destruct j as [|j]; cbn in Hn.
        -- inversion Hn; subst. rewrite Nat.add_0_r in Hf. congruence.
        -- exists j, s. rewrite Nat.add_succ_comm. auto.
Qed.

(* ---- links: every source has exactly one entry ---- *)
Definition links_total (st : lstate) (links : list link_t) : Prop :=
  forall i, i < length (live st) -> exists c, In (i, c) links.

Lemma linked_b_spec links i : linked_b links i = true <-> exists d c, In (i, (Some d, c)) links.
Proof.
  unfold linked_b. rewrite existsb_exists. split.
  - intros [[i' [[d|] c]] [Hin Hb]]; cbn in Hb; [|rewrite andb_false_r in Hb; discriminate].
    rewrite andb_true_r in Hb. apply Nat.eqb_eq in Hb. subst i'. eauto.
  - intros [d [c Hin]]. exists (i, (Some d, c)). split; [exact Hin|cbn; rewrite Nat.eqb_refl; reflexivity].
Qed.
Lemma unlinked_b_spec links i : unlinked_b links i = true <-> exists c, In (i, (None, c)) links.
Proof.
  split; [apply unlinked_in|]. intros [c Hin]. unfold unlinked_b. apply existsb_exists.
  exists (i, (None, c)). split; [exact Hin|cbn; rewrite Nat.eqb_refl; reflexivity].
Qed.

Lemma not_both st links i : links_wf st links -> linked_b links i = true -> unlinked_b links i = true -> False.
Proof.
  intros Hwf H1 H2. apply linked_b_spec in H1. apply unlinked_b_spec in H2. destruct H1 as [d [c H1]], H2 as [c' H2].
  assert (E : (i, (Some d, c)) = (i, (None, c'))) by (eapply (NoDup_map_inj fst); [exact (lw_nodup _ _ Hwf)|exact H1|exact H2|reflexivity]).
  inversion E.
Qed.
Lemma one_of st links i : links_total st links -> i < length (live st) -> linked_b links i = true \/ unlinked_b links i = true.
Proof.
  intros Ht Hi. destruct (Ht i Hi) as [[[d|] c] Hin]; [left; apply linked_b_spec; eauto|right; apply unlinked_b_spec; eauto].
Qed.

(* ---- identity of live sources ---- *)
Lemma live_key_inj l i j s1 s2 :
  NoDup (map s_lab l) -> nth_error l i = Some s1 -> nth_error l j = Some s2 -> key_of s1 = key_of s2 -> i = j.
Proof. intros Hn H1 H2 E. eapply (NoDup_map_nth s_lab); eauto. unfold key_of in E. inversion E; reflexivity. Qed.

Lemma remembered_complete mem t links : forall l i j s,
  nth_error l j = Some s -> unlinked_b links (i + j) = true -> (t - s_seen s <= mem) ->
  In s (remembered mem t links i l).
Proof.
  induction l as [|x l IH]; intros i j s Hn Hu Ha; [destruct j; discriminate|].
  cbn. destruct j as [|j]; cbn in Hn.
  - inversion Hn; subst x. rewrite Nat.add_0_r in Hu. rewrite Hu. apply Nat.leb_le in Ha. rewrite Ha. cbn. left; reflexivity.
  - assert (In s (remembered mem t links (S i) l)) by (apply (IH (S i) j s Hn); [rewrite Nat.add_succ_comm; exact Hu|exact Ha]).
    destruct (unlinked_b links i && (t - s_seen x <=? mem)); [right|]; assumption.
Qed.

(* ---- the invariant tying the queue to the linker state ---- *)
Record qinv (mem : nat) (st : lstate) (q : qstate) : Prop := {
  qi_len : length (q_hist q) = mem;
  qi_mem : forall k, In k (q_mem q) <-> exists s, In s (live st) /\ key_of s = k /\ s_seen s + 1 < now st;
  qi_hist : forall i h k, nth_error (q_hist q) i = Some h -> In k h -> snd k + 1 + mem = now st + i;
  qi_old : forall s, In s (live st) -> s_seen s + 1 < now st ->
             now st <= s_seen s + 1 + mem /\
             exists h, nth_error (q_hist q) (s_seen s + 1 + mem - now st) = Some h /\ In (key_of s) h;
  qi_seen : forall s, In s (live st) -> s_seen s + 1 <= now st;
}.

Lemma qinv_init mem ds : qinv mem (fst (init_state ds)) (q_init mem).
Proof.
  unfold init_state, q_init. cbn [fst]. constructor; cbn [q_mem q_hist live now].
  - apply repeat_length.
  - intros k. split; [intros []|]. intros [s [Hs [_ Hlt]]]. destruct (mk_srcs_in _ _ _ _ Hs) as [_ E]. lia.
  - intros i h k Hn Hk. apply nth_error_In in Hn. apply repeat_spec in Hn. subst h. destruct Hk.
  - intros s Hs Hlt. destruct (mk_srcs_in _ _ _ _ Hs) as [_ E]. lia.
  - intros s Hs. destruct (mk_srcs_in _ _ _ _ Hs) as [_ E]. lia.
Qed.

Section Step.
  Variables (st : lstate) (ds : list pt) (links : list link_t) (q : qstate).
  Hypothesis Hnd : NoDup (map s_lab (live st)).
  Hypothesis Hwf : links_wf st links.
  Hypothesis Htot : links_total st links.

  Let t := now st.
  Definition st' (mem : nat) := fst (apply_links mem st ds links).
  Definition q' (mem : nat) := q_step mem (live st) links q.

  Lemma live'_eq mem : exists labs fresh, st' mem = {| live := mk_srcs t labs ds ++ remembered mem t links 0 (live st); now := S t; next_id := fresh |}.
  Proof.
    unfold st', apply_links. destruct (assign_labels st links (length ds) 0 (next_id st)) as [labs fresh]. exists labs, fresh. reflexivity.
  Qed.

  (* a remembered source, with its index *)
  Lemma rem_iff mem s : In s (remembered mem t links 0 (live st)) <->
    exists j, nth_error (live st) j = Some s /\ unlinked_b links j = true /\ t - s_seen s <= mem.
  Proof.
    split.
    - intros H. destruct (remembered_spec _ _ _ _ _ _ H) as [j [Hj [Hu Ha]]]. exists j. cbn in Hu. auto.
    - intros [j [Hj [Hu Ha]]]. apply (remembered_complete mem t links (live st) 0 j s Hj Hu Ha).
  Qed.

  Lemma key_unique s1 s2 : In s1 (live st) -> In s2 (live st) -> key_of s1 = key_of s2 -> s1 = s2.
  Proof.
    intros H1 H2 E. apply In_nth_error in H1, H2. destruct H1 as [i Hi], H2 as [j Hj].
    assert (i = j) by (eapply live_key_inj; eauto). subst j. congruence.
  Qed.

  (* keys of linked / unmatched sources *)
  Lemma in_linked k : In k (keys_where (linked_b links) 0 (live st)) <->
    exists j s, nth_error (live st) j = Some s /\ linked_b links j = true /\ k = key_of s.
  Proof. rewrite keys_where_spec. cbn. tauto. Qed.
  Lemma in_unmatched k : In k (keys_where (unlinked_b links) 0 (live st)) <->
    exists j s, nth_error (live st) j = Some s /\ unlinked_b links j = true /\ k = key_of s.
  Proof. rewrite keys_where_spec. cbn. tauto. Qed.

  (* an unmatched source is not among the linked keys *)
  Lemma unmatched_not_linked j s : nth_error (live st) j = Some s -> unlinked_b links j = true ->
    ~ In (key_of s) (keys_where (linked_b links) 0 (live st)).
  Proof.
    intros Hj Hu Hin. apply in_linked in Hin. destruct Hin as [j2 [s2 [Hj2 [Hl E]]]].
    assert (j = j2) by (eapply live_key_inj; eauto). subst j2. exact (not_both _ _ _ Hwf Hl Hu).
  Qed.

  Lemma old_iff_in_mem mem (Hinv : qinv mem st q) s : In s (live st) -> (In (key_of s) (q_mem q) <-> s_seen s + 1 < t).
  Proof.
    intros Hs. rewrite (qi_mem _ _ _ Hinv). split.
    - intros [s2 [Hs2 [E Hlt]]]. assert (s2 = s) by (apply key_unique; auto). subst s2. exact Hlt.
    - intros Hlt. exists s. auto.
  Qed.

  Theorem q_mem_is_remembered mem (Hinv : qinv mem st q) :
    forall k, In k (q_mem (q' mem)) <-> exists s, In s (remembered mem t links 0 (live st)) /\ key_of s = k.
  Proof.
    intros k. unfold q', q_step.
    set (linked := keys_where (linked_b links) 0 (live st)).
    set (unmatched := keys_where (unlinked_b links) 0 (live st)).
    set (mem1 := minus (q_mem q) linked).
    destruct mem as [|m].
    - (* memory = 0: nothing is ever remembered *)
      cbn [q_mem]. split.
      + intros Hk. unfold mem1 in Hk. apply minus_spec in Hk. destruct Hk as [Hk _].
        apply (qi_mem _ _ _ Hinv) in Hk. destruct Hk as [s [Hs [_ Hlt]]].
        destruct (qi_old _ _ _ Hinv s Hs Hlt) as [Hle _]. fold t in Hlt, Hle. lia.
      + intros [s [Hs _]]. apply rem_iff in Hs. destruct Hs as [j [Hj [_ Ha]]].
        pose proof (qi_seen _ _ _ Hinv s (nth_error_In _ _ Hj)) as Hse. fold t in Hse. lia.
    - cbn [q_mem]. rewrite in_app_iff. split.
      + intros [Hk|Hk].
        * (* stays in mem_set: old, not linked, not popped *)
          apply minus_spec in Hk. destruct Hk as [Hk Hnp]. unfold mem1 in Hk. apply minus_spec in Hk. destruct Hk as [Hk Hnl].
          pose proof Hk as Hk0. apply (qi_mem _ _ _ Hinv) in Hk. destruct Hk as [s [Hs [E Hlt]]]. subst k.
          exists s. split; [|reflexivity]. apply rem_iff.
          destruct (In_nth_error _ _ Hs) as [j Hj]. exists j. split; [exact Hj|].
          assert (Hjlt : j < length (live st)) by (apply nth_error_Some; congruence).
          destruct (one_of _ _ _ Htot Hjlt) as [Hl|Hu].
          -- exfalso. apply Hnl. apply in_linked. exists j, s. auto.
          -- split; [exact Hu|].
             destruct (qi_old _ _ _ Hinv s Hs Hlt) as [Hle [h [Hh Hkh]]]. fold t in Hlt, Hle, Hh.
             destruct (Nat.eq_dec (s_seen s + 1 + S m - t) 0) as [E0|E0]; [|lia].
             exfalso. apply Hnp. rewrite E0 in Hh.
             destruct (q_hist q) as [|h0 hs]; [discriminate|]. cbn in Hh. inversion Hh; subst h0. cbn. exact Hkh.
        * (* newly remembered: an unmatched current-frame point *)
          apply minus_spec in Hk. destruct Hk as [Hk Hn1]. apply in_unmatched in Hk. destruct Hk as [j [s [Hj [Hu E]]]]. subst k.
          exists s. split; [|reflexivity]. apply rem_iff. exists j. split; [exact Hj|split; [exact Hu|]].
          assert (Hs : In s (live st)) by (eapply nth_error_In; exact Hj).
          assert (Hnm : ~ In (key_of s) (q_mem q)).
          { intros Hm. apply Hn1. unfold mem1. apply minus_spec. split; [exact Hm|eapply unmatched_not_linked; eauto]. }
          rewrite (old_iff_in_mem _ Hinv s Hs) in Hnm. pose proof (qi_seen _ _ _ Hinv s Hs) as Hse. fold t in Hse. lia.
      + intros [s [Hs E]]. subst k. apply rem_iff in Hs. destruct Hs as [j [Hj [Hu Ha]]].
        assert (Hs : In s (live st)) by (eapply nth_error_In; exact Hj).
        pose proof (qi_seen _ _ _ Hinv s Hs) as Hse. fold t in Hse.
        destruct (Nat.eq_dec (s_seen s + 1) t) as [Ecur|Eold].
        * right. apply minus_spec. split; [apply in_unmatched; exists j, s; auto|].
          intros H1. unfold mem1 in H1. apply minus_spec in H1. destruct H1 as [H1 _].
          apply (old_iff_in_mem _ Hinv s Hs) in H1. lia.
        * left. assert (Hlt : s_seen s + 1 < t) by lia. apply minus_spec. split.
          -- unfold mem1. apply minus_spec. split; [apply (old_iff_in_mem _ Hinv s Hs); exact Hlt|eapply unmatched_not_linked; eauto].
          -- intros Hp. destruct (q_hist q) as [|h0 hs] eqn:Eh.
             ++ pose proof (qi_len _ _ _ Hinv) as HL. rewrite Eh in HL. discriminate.
             ++ cbn in Hp. assert (Hn0 : nth_error (q_hist q) 0 = Some h0) by (rewrite Eh; reflexivity).
                pose proof (qi_hist _ _ _ Hinv 0 h0 (key_of s) Hn0 Hp) as Hq. cbn in Hq. fold t in Hq. lia.
  Qed.

  (* the queue after the step satisfies the invariant for the new state *)
  Theorem q_step_inv mem (Hinv : qinv mem st q) : qinv mem (st' mem) (q' mem).
  Proof.
    destruct (live'_eq mem) as [labs [fresh Est]].
    pose proof (q_mem_is_remembered mem Hinv) as Hmem.
    assert (Hrem_seen : forall s, In s (remembered mem t links 0 (live st)) -> s_seen s + 1 <= t /\ t - s_seen s <= mem).
    { intros s Hs. apply rem_iff in Hs. destruct Hs as [j [Hj [_ Ha]]].
      pose proof (qi_seen _ _ _ Hinv s (nth_error_In _ _ Hj)) as Hse. fold t in Hse. auto. }
    assert (Hlive' : forall s, In s (live (st' mem)) -> (s_seen s = t) \/ In s (remembered mem t links 0 (live st))).
    { intros s Hs. rewrite Est in Hs. cbn in Hs. apply in_app_or in Hs. destruct Hs as [Hs|Hs]; [left; exact (proj2 (mk_srcs_in _ _ _ _ Hs))|right; exact Hs]. }
    assert (Hnow' : now (st' mem) = S t) by (rewrite Est; reflexivity).
    assert (Hrem_live' : forall s, In s (remembered mem t links 0 (live st)) -> In s (live (st' mem))).
    { intros s Hs. rewrite Est. cbn. apply in_or_app. right. exact Hs. }
    (* the newly remembered keys are current-frame points *)
    assert (Hnew : forall k, In k (minus (keys_where (unlinked_b links) 0 (live st)) (minus (q_mem q) (keys_where (linked_b links) 0 (live st)))) ->
                   snd k + 1 = t).
    { intros k Hk. apply minus_spec in Hk. destruct Hk as [Hk Hn1]. apply in_unmatched in Hk. destruct Hk as [j [s [Hj [Hu E]]]]. subst k.
      assert (Hs : In s (live st)) by (eapply nth_error_In; exact Hj).
      assert (Hnm : ~ In (key_of s) (q_mem q)).
      { intros Hm. apply Hn1. apply minus_spec. split; [exact Hm|eapply unmatched_not_linked; eauto]. }
      rewrite (old_iff_in_mem _ Hinv s Hs) in Hnm. pose proof (qi_seen _ _ _ Hinv s Hs) as Hse. fold t in Hse. cbn. lia. }
    constructor.
    - (* length of the history *)
      unfold q', q_step. destruct mem as [|m]; cbn [q_hist]; [exact (qi_len _ _ _ Hinv)|].
      pose proof (qi_len _ _ _ Hinv) as HL. destruct (q_hist q) as [|h0 hs]; [discriminate|]. cbn in *. rewrite app_length. cbn. lia.
    - (* mem_set = keys of the old points of the new live list *)
      intros k. rewrite Hmem, Hnow'. split.
      + intros [s [Hs E]]. exists s. split; [apply Hrem_live'; exact Hs|split; [exact E|]]. destruct (Hrem_seen s Hs). lia.
      + intros [s [Hs [E Hlt]]]. exists s. split; [|exact E]. destruct (Hlive' s Hs) as [Hc|Hr]; [lia|exact Hr].
    - (* positions in the history *)
      intros i h k Hn Hk. rewrite Hnow'. unfold q', q_step in Hn. destruct mem as [|m]; cbn [q_hist] in Hn.
      + pose proof (qi_len _ _ _ Hinv) as HL. destruct (q_hist q); [destruct i; discriminate|discriminate].
      + pose proof (qi_len _ _ _ Hinv) as HL. destruct (q_hist q) as [|h0 hs] eqn:Eh; [discriminate|]. cbn in Hn, HL.
        destruct (Nat.lt_ge_cases i (length hs)) as [Hi|Hi].
        * rewrite nth_error_app1 in Hn by exact Hi.
          assert (Hn' : nth_error (q_hist q) (S i) = Some h) by (rewrite Eh; exact Hn).
          pose proof (qi_hist _ _ _ Hinv (S i) h k Hn' Hk) as Hq. fold t in Hq. lia.
        * rewrite nth_error_app2 in Hn by exact Hi. destruct (i - length hs) as [|z] eqn:Ez; cbn in Hn; [|destruct z; discriminate].
          inversion Hn; subst h. pose proof (Hnew k Hk). lia.
    - (* every old point of the new live list sits at its position in the history *)
      intros s Hs Hlt. rewrite Hnow' in *. destruct (Hlive' s Hs) as [Hc|Hr]; [lia|].
      destruct (Hrem_seen s Hr) as [Hse Ha]. split; [lia|].
      apply rem_iff in Hr. destruct Hr as [j [Hj [Hu _]]]. assert (Hsl : In s (live st)) by (eapply nth_error_In; exact Hj).
      unfold q', q_step. destruct mem as [|m]; [lia|]. cbn [q_hist].
      pose proof (qi_len _ _ _ Hinv) as HL. destruct (q_hist q) as [|h0 hs] eqn:Eh; [discriminate|]. cbn in HL. cbn [app tl].
      destruct (Nat.eq_dec (s_seen s + 1) t) as [Ecur|Eold].
      + (* current-frame point: it is in the set appended at the end *)
        replace (s_seen s + 1 + S m - S t) with (length hs) by lia.
        eexists. split; [rewrite nth_error_app2 by lia; rewrite Nat.sub_diag; reflexivity|].
        apply minus_spec. split; [apply in_unmatched; exists j, s; auto|].
        intros H1. apply minus_spec in H1. destruct H1 as [H1 _]. apply (old_iff_in_mem _ Hinv s Hsl) in H1. lia.
      + assert (Hlt0 : s_seen s + 1 < t) by lia.
        destruct (qi_old _ _ _ Hinv s Hsl Hlt0) as [Hle [h [Hh Hkh]]]. fold t in Hle, Hh. rewrite Eh in Hh.
        assert (Hpos : s_seen s + 1 + S m - t = S (s_seen s + 1 + S m - S t)) by lia. rewrite Hpos in Hh. cbn in Hh.
        exists h. split; [|exact Hkh]. rewrite nth_error_app1; [exact Hh|]. apply nth_error_Some. congruence.
    - intros s Hs. rewrite Hnow'. destruct (Hlive' s Hs) as [Hc|Hr]; [lia|]. destruct (Hrem_seen s Hr). lia.
  Qed.
End Step.

(* links of the model step give every source exactly one entry *)
Lemma opt_links_total m pred st ds pairs :
  Opt.is_opt (items_of m pred st ds) pairs -> links_total st (map Step.strip pairs).
Proof.
  intros [HP _] i Hi.
  assert (Hseq : Permutation (map fst (map Step.strip pairs)) (seq 0 (length (live st)))).
  { rewrite strip_fst. unfold items_of in HP. rewrite <- (mapi_from_fst (fun i s => cands_of m (mR2 m) (pred (now st) s) ds) (live st) 0).
    apply Permutation_map. exact HP. }
  assert (Hin : In i (map fst (map Step.strip pairs))).
  { eapply Permutation_in; [apply Permutation_sym; exact Hseq|]. apply in_seq. lia. }
  apply in_map_iff in Hin. destruct Hin as [[i' c] [E Hin]]. cbn in E. subst i'. exists c. exact Hin.
Qed.

(* One step of the linker model together with the code's queue: the queue's mem_set is
   exactly the set of sources the model keeps, and the invariant is re-established. *)
Theorem memory_queue_step m mem max_size pred st ds links q :
  Cands.metric_ok m -> state_ok mem st -> qinv mem st q ->
  step_links m max_size pred st ds = Ok links ->
  (forall k, In k (q_mem (q_step mem (live st) links q)) <->
             exists s, In s (remembered mem (now st) links 0 (live st)) /\ key_of s = k) /\
  qinv mem (fst (apply_links mem st ds links)) (q_step mem (live st) links q).
Proof.
  intros Hm [Hnd Hall] Hinv Hl.
  destruct (Step.step_links_spec m max_size pred st ds Hm) as [_ Hspec]. destruct (Hspec links Hl) as [pairs [Hlp Hopt]].
  assert (Hwf : links_wf st links) by (rewrite Hlp; eapply opt_links_wf; exact Hopt).
  assert (Htot : links_total st links) by (rewrite Hlp; eapply opt_links_total; exact Hopt).
  split.
  - exact (q_mem_is_remembered st links q Hnd Hwf Htot mem Hinv).
  - exact (q_step_inv st ds links q Hnd Hwf Htot mem Hinv).
Qed.
