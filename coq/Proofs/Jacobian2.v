(* C15 (gradient, final composition): jacobian(vect) of get_residual is the
   gradient of residual(vect) in the packed optimisation vector.

   Structure
     1. finite-sum algebra over R
     2. vect_to_params is natural in the element type: it commutes with any
        element-wise combination of two vectors (polymorphic, no arithmetic) --
        hence it is affine:  unpack (v + t*w) p0 = unpack v p0 + t * unpack w 0
     3. the array `result` of jacobian() after the loop over disjoint clusters
     4. the direction array unpack w 0 is constant on every cluster in the
        background column (this is where "divide by n_cluster" is justified)
     5. sum exchange: <result, unpack w 0> = sum over clusters of the
        per-cluster derivative of Proofs/Jacobian.cluster_residual_derive
     6. composition with pack_sum_adjoint: the directional derivative of
        residual along any w is <jacobian(v), w>; coordinate directions give
        every partial derivative
     7. the hypotheses on cl_val / cl_row discharged for gauss and ring in all
        four geometries from the generated functions (pixel_gauss, pixel_ring,
        r2_*_dir) *)
From Coq Require Import Reals List Arith Lia Lra Permutation.
From Coquelicot Require Import Coquelicot.
From TP Require Import Gen.fitfun Model.Pack Model.Jacobian Model.Jacobian2
                       Proofs.Pack Proofs.Deriv Proofs.Jacobian.
Import ListNotations.
Open Scope R_scope.

(* ------------------------------------------------------------------ *)
(* 1. finite sums                                                       *)
(* ------------------------------------------------------------------ *)
Lemma sumR_app : forall l1 l2, sumR (l1 ++ l2) = sumR l1 + sumR l2.
Proof. induction l1; intros; simpl; [ring|]. rewrite IHl1. ring. Qed.

Lemma sumR_map_plus : forall {X : Type} (f g : X -> R) l,
  sumR (map (fun x => f x + g x) l) = sumR (map f l) + sumR (map g l).
Proof. induction l; simpl; [ring|]. rewrite IHl. ring. Qed.

Lemma sumR_map_scal : forall {X : Type} c (f : X -> R) l,
  sumR (map (fun x => c * f x) l) = c * sumR (map f l).
Proof. induction l; simpl; [ring|]. rewrite IHl. ring. Qed.

Lemma sumR_map_scal_r : forall {X : Type} c (f : X -> R) l,
  sumR (map (fun x => f x * c) l) = sumR (map f l) * c.
Proof. induction l; simpl; [ring|]. rewrite IHl. ring. Qed.

Lemma sumR_map_ext_in : forall {X : Type} (f g : X -> R) l,
  (forall x, In x l -> f x = g x) -> sumR (map f l) = sumR (map g l).
Proof. intros. f_equal. apply map_ext_in. assumption. Qed.

Lemma sumR_map_zero : forall {X : Type} (l : list X), sumR (map (fun _ => 0) l) = 0.
Proof. induction l; simpl; [reflexivity|]. rewrite IHl. ring. Qed.

Lemma sumR_map_const : forall {X : Type} c (l : list X),
  sumR (map (fun _ => c) l) = INR (length l) * c.
Proof.
  induction l; [simpl; ring|]. cbn [map sumR fold_right length]. fold (sumR (map (fun _ : X => c) l)).
  rewrite IHl, S_INR. ring.
Qed.

Lemma sumR_map_swap : forall {X Y : Type} (f : X -> Y -> R) lx ly,
  sumR (map (fun x => sumR (map (fun y => f x y) ly)) lx)
  = sumR (map (fun y => sumR (map (fun x => f x y) lx)) ly).
Proof.
  intros X Y f lx ly. induction lx as [|a lx IH]; simpl.
  - symmetry. apply sumR_map_zero.
  - rewrite IH. symmetry. apply (sumR_map_plus (fun y => f a y) (fun y => sumR (map (fun x => f x y) lx))).
Qed.

Lemma sumR_perm : forall l l', Permutation l l' -> sumR l = sumR l'.
Proof. induction 1; simpl; try lra. Qed.

Lemma sumR_map_concat : forall {X : Type} (f : X -> R) ls,
  sumR (map f (concat ls)) = sumR (map (fun l => sumR (map f l)) ls).
Proof.
  induction ls as [|l ls IH]; simpl; [reflexivity|]. rewrite map_app, sumR_app, IH. reflexivity.
Qed.

Lemma nth_nil_R : forall i, nth i (@nil R) 0 = 0.
Proof. destruct i; reflexivity. Qed.

Lemma nth_nil_list : forall i, nth i (@nil (list R)) [] = [].
Proof. destruct i; reflexivity. Qed.

(* np.sum(a*b) as an indexed sum over the second array *)
Lemma dot_nth : forall b a, dot a b = sumR (map (fun k => nth k a 0 * nth k b 0) (seq 0 (length b))).
Proof.
  induction b as [|y b IH]; intros [|x a]; try reflexivity.
  - cbn [dot]. rewrite (sumR_map_ext_in _ (fun _ => 0)); [symmetry; apply sumR_map_zero|].
    intros k _. rewrite nth_nil_R. ring.
  - cbn [dot length seq map sumR fold_right nth]. fold (sumR (map (fun k => nth k (x :: a) 0 * nth k (y :: b) 0) (seq 1 (length b)))).
    rewrite <- seq_shift, map_map. cbn [nth]. rewrite <- IH. reflexivity.
Qed.

Lemma mdot_nth : forall D G, mdot G D = sumR (map (fun k => dot (nth k G []) (nth k D [])) (seq 0 (length D))).
Proof.
  induction D as [|d D IH]; intros [|g G]; try reflexivity.
  - cbn [mdot]. rewrite (sumR_map_ext_in _ (fun _ => 0)); [symmetry; apply sumR_map_zero|].
    intros k _. rewrite nth_nil_list. reflexivity.
  - cbn [mdot length seq map sumR fold_right nth].
    fold (sumR (map (fun k => dot (nth k (g :: G) []) (nth k (d :: D) [])) (seq 1 (length D)))).
    rewrite <- seq_shift, map_map. cbn [nth]. rewrite <- IH. reflexivity.
Qed.

Lemma nth_map_seq : forall {B : Type} (F : nat -> B) m k d, (k < m)%nat -> nth k (map F (seq 0 m)) d = F k.
Proof.
  intros B F m k d H. rewrite (nth_indep _ d (F 0%nat)) by (rewrite map_length, seq_length; exact H).
  rewrite map_nth, seq_nth by exact H. reflexivity.
Qed.

Lemma dot_map_scale : forall c g w, dot (map (fun a => a / c) g) w = dot g w / c.
Proof.
  intros c g. induction g as [|a g IH]; intros [|b w]; simpl; try (unfold Rdiv; ring).
  rewrite IH. unfold Rdiv. ring.
Qed.

(* ------------------------------------------------------------------ *)
(* 2. vect_to_params commutes with element-wise combination             *)
(*    (polymorphic: A, B, C arbitrary types, h arbitrary)               *)
(* ------------------------------------------------------------------ *)
Section Natural.
Context {A B C : Type}.
Variable h : A -> B -> C.

Lemma zipw_length : forall (a : list A) (b : list B), length a = length b -> length (zipw h a b) = length a.
Proof. induction a; intros [|y b] H; simpl in *; try discriminate; auto. Qed.

Lemma zipw_app : forall (a1 a2 : list A) (b1 b2 : list B), length a1 = length b1 ->
  zipw h (a1 ++ a2) (b1 ++ b2) = zipw h a1 b1 ++ zipw h a2 b2.
Proof. induction a1; intros a2 [|y b1] b2 H; simpl in *; try discriminate; auto. f_equal. auto. Qed.

Lemma zipw_repeat : forall a b n, zipw h (repeat a n) (repeat b n) = repeat (h a b) n.
Proof. induction n; simpl; auto. f_equal. auto. Qed.

Lemma set_idx_zipw : forall (c : list A) (d : list B) j a b c' d',
  set_idx c j a = Some c' -> set_idx d j b = Some d' ->
  set_idx (zipw h c d) j (h a b) = Some (zipw h c' d').
Proof.
  induction c as [|x c IH]; intros [|y d] [|j] a b c' d' H1 H2; simpl in *; try discriminate.
  - inversion H1; inversion H2; reflexivity.
  - destruct (set_idx c j a) as [c1|] eqn:E1; [|discriminate].
    destruct (set_idx d j b) as [d1|] eqn:E2; [|discriminate].
    simpl in H1, H2. inversion H1; inversion H2; subst.
    rewrite (IH d j a b c1 d1 E1 E2). reflexivity.
Qed.

Lemma set_group_zipw : forall g (c : list A) (d : list B) a b c' d',
  set_group c g a = Some c' -> set_group d g b = Some d' ->
  set_group (zipw h c d) g (h a b) = Some (zipw h c' d').
Proof.
  induction g as [|j g IH]; intros c d a b c' d' H1 H2; simpl in *.
  - inversion H1; inversion H2; reflexivity.
  - destruct (set_idx c j a) as [c1|] eqn:E1; [|discriminate].
    destruct (set_idx d j b) as [d1|] eqn:E2; [|discriminate].
    rewrite (set_idx_zipw c d j a b c1 d1 E1 E2). eauto.
Qed.

Lemma assign_groups_zipw : forall gt (c : list A) (d : list B) vs ws c' d',
  length vs = length ws ->
  assign_groups c gt vs = Some c' -> assign_groups d gt ws = Some d' ->
  assign_groups (zipw h c d) gt (zipw h vs ws) = Some (zipw h c' d').
Proof.
  induction gt as [|g gt IH]; intros c d vs ws c' d' HL H1 H2.
  - simpl in *. inversion H1; inversion H2. destruct (zipw h vs ws); reflexivity.
  - destruct vs as [|a vs], ws as [|b ws]; simpl in HL; try discriminate.
    + simpl in *. inversion H1; inversion H2. reflexivity.
    + simpl in H1, H2. cbn [zipw assign_groups].
      destruct (set_group c g a) as [c1|] eqn:E1; [|discriminate].
      destruct (set_group d g b) as [d1|] eqn:E2; [|discriminate].
      rewrite (set_group_zipw g c d a b c1 d1 E1 E2). apply IH; auto.
Qed.

(* one column: both unpackings succeed and so does the combined one, with the
   combined column *)
Lemma unpack_col_zipw : forall groups n mode (c0 : list A) (d0 : list B) v w r1 r2 r3,
  length c0 = n -> length d0 = n -> mode_wf groups n mode ->
  length v = packed_len_col groups n mode -> length w = packed_len_col groups n mode ->
  exists c d, unpack_col groups n mode (v ++ r1) c0 = Some (c, r1) /\
              unpack_col groups n mode (w ++ r2) d0 = Some (d, r2) /\
              unpack_col groups n mode (zipw h v w ++ r3) (zipw h c0 d0) = Some (zipw h c d, r3) /\
              length c = n /\ length d = n.
Proof.
  intros groups n mode c0 d0 v w r1 r2 r3 HC HD HW HV HVw.
  assert (HZ : length (zipw h v w) = length v) by (apply zipw_length; congruence).
  destruct mode as [|[|m]].
  - simpl in HV, HVw. destruct v; [|discriminate]. destruct w; [|discriminate].
    exists c0, d0. simpl. auto.
  - simpl in HV, HVw. exists v, w. simpl.
    rewrite (firstn_app_exact v r1 n HV), (skipn_app_exact v r1 n HV).
    rewrite (firstn_app_exact w r2 n HVw), (skipn_app_exact w r2 n HVw).
    rewrite (firstn_app_exact (zipw h v w) r3 n) by congruence.
    rewrite (skipn_app_exact (zipw h v w) r3 n) by congruence.
    unfold set_col. rewrite HV, HVw, HZ, HV, Nat.eqb_refl. auto.
  - unfold mode_wf in HW. unfold packed_len_col in HV, HVw. unfold unpack_col.
    destruct (select groups (S (S m))) as [|gt|] eqn:Hs; [| |contradiction].
    + destruct v as [|a [|? ?]]; try discriminate. destruct w as [|b [|? ?]]; try discriminate.
      exists (repeat a n), (repeat b n). cbn [zipw app]. rewrite zipw_repeat, !repeat_length. auto.
    + destruct HW as (HG & ND).
      rewrite (firstn_app_exact v r1 _ HV), (skipn_app_exact v r1 _ HV).
      rewrite (firstn_app_exact w r2 _ HVw), (skipn_app_exact w r2 _ HVw).
      rewrite (firstn_app_exact (zipw h v w) r3 (length gt)) by congruence.
      rewrite (skipn_app_exact (zipw h v w) r3 (length gt)) by congruence.
      destruct (assign_groups_disjoint n gt v c0 HG ND HC HV) as (c' & E1 & L1 & _ & _).
      destruct (assign_groups_disjoint n gt w d0 HG ND HD HVw) as (d' & E2 & L2 & _ & _).
      exists c', d'. rewrite E1, E2.
      rewrite (assign_groups_zipw gt c0 d0 v w c' d') by (auto; congruence). auto.
Qed.

Definition shape (n : nat) {T : Type} (cols : list (list T)) : Prop := List.Forall (fun c => length c = n) cols.

(* all columns *)
Theorem unpack_zipw : forall groups n modes (cs0 : list (list A)) (ds0 : list (list B)) v w r1 r2 r3,
  length modes = length cs0 -> length modes = length ds0 -> shape n cs0 -> shape n ds0 ->
  List.Forall (mode_wf groups n) modes ->
  length v = packed_len groups n modes -> length w = packed_len groups n modes ->
  exists P D, unpack groups n modes (v ++ r1) cs0 = Some (P, r1) /\
              unpack groups n modes (w ++ r2) ds0 = Some (D, r2) /\
              unpack groups n modes (zipw h v w ++ r3) (zipw (zipw h) cs0 ds0) = Some (zipw (zipw h) P D, r3) /\
              shape n P /\ shape n D /\ length P = length modes /\ length D = length modes.
Proof.
  intros groups n modes. induction modes as [|m ms IH]; intros cs0 ds0 v w r1 r2 r3 HLc HLd HSc HSd HW HV HVw.
  - destruct cs0; [|discriminate]. destruct ds0; [|discriminate]. simpl in HV, HVw.
    destruct v; [|discriminate]. destruct w; [|discriminate].
    exists [], []. simpl. repeat split; auto; constructor.
  - destruct cs0 as [|c0 cs0]; [discriminate|]. destruct ds0 as [|d0 ds0]; [discriminate|].
    inversion HSc as [|? ? HC HSc']; subst. inversion HSd as [|? ? HD HSd']; subst.
    inversion HW as [|? ? HWm HW']; subst.
    rewrite packed_len_cons in HV, HVw. set (k := packed_len_col groups (length c0) m) in *.
    assert (Ev : v = firstn k v ++ skipn k v) by (symmetry; apply firstn_skipn).
    assert (Ew : w = firstn k w ++ skipn k w) by (symmetry; apply firstn_skipn).
    assert (Hk : length (firstn k v) = k) by (rewrite firstn_length; lia).
    assert (Hkw : length (firstn k w) = k) by (rewrite firstn_length; lia).
    assert (Hk2 : length (skipn k v) = packed_len groups (length c0) ms) by (rewrite skipn_length; lia).
    assert (Hkw2 : length (skipn k w) = packed_len groups (length c0) ms) by (rewrite skipn_length; lia).
    destruct (unpack_col_zipw groups (length c0) m c0 d0 (firstn k v) (firstn k w)
                (skipn k v ++ r1) (skipn k w ++ r2) (zipw h (skipn k v) (skipn k w) ++ r3)
                eq_refl HD HWm Hk Hkw) as (c & d & U1 & U2 & U3 & Lc & Ld).
    destruct (IH cs0 ds0 (skipn k v) (skipn k w) r1 r2 r3 ltac:(simpl in HLc; lia) ltac:(simpl in HLd; lia)
                HSc' HSd' HW' Hk2 Hkw2) as (P & D & V1 & V2 & V3 & SP & SD & LP & LD).
    exists (c :: P), (d :: D).
    rewrite Ev, Ew.
    rewrite (zipw_app (firstn k v) (skipn k v) (firstn k w) (skipn k w)) by congruence.
    rewrite <- !app_assoc. cbn [unpack zipw]. rewrite U1, U2, U3, V1, V2, V3.
    repeat split; auto; try (constructor; auto); simpl; congruence.
Qed.

End Natural.

(* ------------------------------------------------------------------ *)
(* declarative side conditions                                          *)
(* ------------------------------------------------------------------ *)
(* the clusters partition the rows 0..n-1 into non-empty lists *)
Definition partition (n : nat) (cl : list (list nat)) : Prop :=
  List.Forall (group_ok n) cl /\ NoDup (concat cl) /\ covers n cl.

(* the mode of the background column is compatible with "one background per
   cluster" (residual() reads params[indices[0], 0] only):
   const / global / cluster always are; 'var' only with single-feature
   clusters (FitFunctions.__init__ turns it into 'cluster'); a custom group
   mode when every cluster lies inside one of its groups *)
Definition bg_mode_ok (groups : groups_t) (cl : list (list nat)) (m0 : nat) : Prop :=
  match m0 with
  | 0%nat => True
  | 1%nat => List.Forall (fun c => (length c <= 1)%nat) cl
  | _ => match select groups m0 with
         | TakeOne => True
         | Groups gt => List.Forall (fun c => exists g, In g gt /\ incl c g) cl
         | NoGroups => False
         end
  end.

Lemma in_concat_map : forall {T : Type} (f : T -> list nat) l c i, In c l -> In i (f c) -> In i (concat (map f l)).
Proof. intros. apply in_concat. exists (f c). split; [apply in_map; assumption|assumption]. Qed.

(* ------------------------------------------------------------------ *)
(* 3. the array `result` after the loop over the clusters               *)
(* ------------------------------------------------------------------ *)
Section Written.
Context {X : Type}.
Variable P : list (list R).

Definition written (c : cluster X) (k i : nat) : R :=
  match k with
  | O => grad_bg (cl_pix c) (cl_idx c) (cl_len c) (cl_img c) (bg_of c P) (vals_of c P)
  | S k' => grad_entry (cl_pix c) (cl_idx c) (cl_len c) (cl_img c) (bg_of c P) (vals_of c P)
                       (rows_of c P) i k'
  end.

Lemma fold_write_other : forall (l : list (cluster X)) A k i,
  (forall c, In c l -> ~ In i (cl_idx c)) -> fold_left (jac_write P) l A k i = A k i.
Proof.
  induction l as [|a l IH]; intros A k i H; [reflexivity|]. simpl.
  rewrite IH by (intros c Hc; apply H; right; exact Hc).
  unfold jac_write. destruct (in_dec Nat.eq_dec i (cl_idx a)) as [Hi|Hi]; [|reflexivity].
  exfalso. exact (H a (or_introl eq_refl) Hi).
Qed.

Lemma fold_write_in : forall (l : list (cluster X)) A c k i,
  NoDup (concat (map cl_idx l)) -> In c l -> In i (cl_idx c) ->
  fold_left (jac_write P) l A k i = written c k i.
Proof.
  induction l as [|a l IH]; intros A c k i ND Hc Hi; [contradiction|]. simpl in ND |- *.
  destruct (NoDup_app_split _ _ ND) as [ND' Hdisj].
  destruct Hc as [->|Hc].
  - rewrite fold_write_other.
    + unfold jac_write, written. destruct (in_dec Nat.eq_dec i (cl_idx c)); [destruct k; reflexivity|contradiction].
    + intros c' Hc' Hi'. apply (Hdisj i Hi). eapply in_concat_map; eauto.
  - apply IH; auto.
Qed.
End Written.

(* ------------------------------------------------------------------ *)
(* 4. the background column of the direction array is constant on       *)
(*    every cluster                                                      *)
(* ------------------------------------------------------------------ *)
Lemma nth_repeat_lt : forall (a : R) n i, (i < n)%nat -> nth i (repeat a n) 0 = a.
Proof. intros. apply nth_error_nth. apply nth_error_repeat. assumption. Qed.

Lemma nth_repeat_0 : forall n i, nth i (repeat 0 n) 0 = 0.
Proof. induction n; intros [|i]; simpl; auto. Qed.

Lemma Forall2_in_l : forall {S T : Type} (R2 : S -> T -> Prop) l1 l2 x,
  Forall2 R2 l1 l2 -> In x l1 -> exists y, R2 x y.
Proof.
  intros S T R2 l1 l2 x H. induction H as [|a b l1 l2 Hab H IH]; intros Hin; [contradiction|].
  destruct Hin as [->|Hin]; eauto.
Qed.

Lemma dir_bg_const : forall groups n cl m0 (w0 rest d0 rest' : list R),
  bg_mode_ok groups cl m0 -> mode_wf groups n m0 -> List.Forall (group_ok n) cl ->
  length w0 = packed_len_col groups n m0 ->
  unpack_col groups n m0 (w0 ++ rest) (repeat 0 n) = Some (d0, rest') ->
  forall c i, In c cl -> In i c -> nth i d0 0 = nth (hd 0%nat c) d0 0.
Proof.
  intros groups n cl m0 w0 rest d0 rest' HB HW HG HV HU c i Hc Hi.
  rewrite Forall_forall in HG. destruct (HG c Hc) as [Hne Hrange]. rewrite Forall_forall in Hrange.
  assert (Hhd : In (hd 0%nat c) c) by (destruct c; [congruence|left; reflexivity]).
  destruct m0 as [|[|m]].
  - simpl in HU. inversion HU. rewrite !nth_repeat_0. reflexivity.
  - simpl in HB. rewrite Forall_forall in HB. specialize (HB c Hc).
    destruct c as [|a [|b c]]; [contradiction| |simpl in HB; lia].
    destruct Hi as [->|[]]. reflexivity.
  - unfold mode_wf in HW. unfold bg_mode_ok in HB. unfold packed_len_col in HV. unfold unpack_col in HU.
    destruct (select groups (S (S m))) as [|gt|] eqn:Hs; [| |contradiction].
    + destruct w0 as [|a [|? ?]]; try discriminate. simpl in HU. inversion HU.
      rewrite !nth_repeat_lt by (apply Hrange; assumption). reflexivity.
    + destruct HW as (HGt & ND). rewrite Forall_forall in HB. destruct (HB c Hc) as (g & Hg & Hincl).
      rewrite (firstn_app_exact w0 rest _ HV) in HU.
      destruct (assign_groups_disjoint n gt w0 (repeat 0 n) HGt ND (repeat_length 0 n) HV) as (c' & E & L & F & _).
      rewrite E in HU. inversion HU; subst d0.
      destruct (Forall2_in_l _ _ _ g F Hg) as [v Hv].
      rewrite (nth_error_nth c' i 0 (Hv i (Hincl i Hi))).
      rewrite (nth_error_nth c' _ 0 (Hv _ (Hincl _ Hhd))). reflexivity.
Qed.

(* const, global and cluster are always admissible for the background *)
Lemma bg_mode_ok_builtin : forall groups n m0,
  m0 = 0%nat \/ m0 = 2%nat \/ m0 = 3%nat -> mode_wf groups n m0 ->
  bg_mode_ok groups (cl_groups_of groups n) m0.
Proof.
  intros groups n m0 H HW. destruct H as [H|[H|H]]; subst m0; [exact I|exact I|].
  unfold bg_mode_ok, mode_wf in *. destruct groups as [gs|]; [|exact I].
  simpl in *. destruct gs as [|g0 gs]; [contradiction|]. simpl.
  apply Forall_forall. intros c Hc. exists c. split; [exact Hc|apply incl_refl].
Qed.

(* groups=None: the single cluster np.arange(n) is a partition *)
Lemma partition_none : forall n, (0 < n)%nat -> partition n (cl_groups_of None n).
Proof.
  intros n Hn. unfold partition, cl_groups_of. simpl. rewrite app_nil_r. repeat split.
  - constructor; [|constructor]. split.
    + destruct n; [lia|discriminate].
    + apply Forall_forall. intros j Hj. apply in_seq in Hj. lia.
  - apply seq_NoDup.
  - intros j Hj. simpl. rewrite app_nil_r. apply in_seq. lia.
Qed.

(* ------------------------------------------------------------------ *)
(* 5. sum exchange                                                      *)
(* ------------------------------------------------------------------ *)
(* one cluster: the entries written into `result`, contracted with a
   direction array Df (column, row) whose background column is constant on
   the cluster, give the derivative of cluster_residual_derive *)
Lemma cluster_algebra : forall {X : Type} (pixels : list X) (ind : list nat) (len : R)
    (df : X -> R) (row : nat -> X -> list R) (Df : nat -> nat -> R) (nv' i0 : nat),
  ind <> [] -> (forall i, In i ind -> Df 0%nat i = Df 0%nat i0) ->
  sumR (map (fun i =>
      sumR (map (fun x => -2 * df x) pixels) / (INR (length ind) * len) * Df 0%nat i
      + sumR (map (fun k => sumR (map (fun x => -2 * df x * nth k (row i x) 0) pixels) / len * Df (S k) i)
                  (seq 0 nv'))) ind)
  = sumR (map (fun x => -2 * df x *
        (Df 0%nat i0 + sumR (map (fun i => sumR (map (fun k => nth k (row i x) 0 * Df (S k) i) (seq 0 nv'))) ind)))
        pixels) / len.
Proof.
  intros X pixels ind len df row Df nv' i0 Hne Hc.
  assert (Hn : INR (length ind) <> 0).
  { apply not_0_INR. destruct ind; [congruence|discriminate]. }
  unfold Rdiv. rewrite Rinv_mult. set (il := / len). set (K := seq 0 nv').
  rewrite (sumR_map_plus (fun i => sumR (map (fun x => -2 * df x) pixels) * (/ INR (length ind) * il) * Df 0%nat i)).
  rewrite (sumR_map_ext_in (fun i => sumR (map (fun x => -2 * df x) pixels) * (/ INR (length ind) * il) * Df 0%nat i)
             (fun _ => sumR (map (fun x => -2 * df x) pixels) * (/ INR (length ind) * il) * Df 0%nat i0))
    by (intros i Hi; rewrite (Hc i Hi); reflexivity).
  rewrite sumR_map_const.
  (* right-hand side: distribute *)
  rewrite (sumR_map_ext_in
             (fun x => -2 * df x * (Df 0%nat i0 + sumR (map (fun i => sumR (map (fun k => nth k (row i x) 0 * Df (S k) i) K)) ind)))
             (fun x => (-2 * df x) * Df 0%nat i0
                       + sumR (map (fun i => sumR (map (fun k => -2 * df x * nth k (row i x) 0 * Df (S k) i) K)) ind))).
  2:{ intros x _. rewrite Rmult_plus_distr_l. f_equal.
      rewrite <- sumR_map_scal. apply sumR_map_ext_in. intros i _.
      rewrite <- sumR_map_scal. apply sumR_map_ext_in. intros k _. ring. }
  rewrite (sumR_map_plus (fun x => -2 * df x * Df 0%nat i0)).
  rewrite (sumR_map_scal_r (Df 0%nat i0) (fun x => -2 * df x)).
  (* the double sums *)
  rewrite (sumR_map_swap (fun x i => sumR (map (fun k => -2 * df x * nth k (row i x) 0 * Df (S k) i) K)) pixels ind).
  rewrite (sumR_map_ext_in
             (fun i => sumR (map (fun k => sumR (map (fun x => -2 * df x * nth k (row i x) 0) pixels) * il * Df (S k) i) K))
             (fun i => il * sumR (map (fun x => sumR (map (fun k => -2 * df x * nth k (row i x) 0 * Df (S k) i) K)) pixels))).
  2:{ intros i _.
      rewrite (sumR_map_swap (fun x k => -2 * df x * nth k (row i x) 0 * Df (S k) i) pixels K).
      rewrite <- sumR_map_scal. apply sumR_map_ext_in. intros k _.
      rewrite (sumR_map_scal_r (Df (S k) i) (fun x => -2 * df x * nth k (row i x) 0)). ring. }
  rewrite (sumR_map_scal il). clearbody il.
  repeat match goal with |- context [sumR ?l] => generalize (sumR l); intro end.
  field. exact Hn.
Qed.

Lemma nth_tl_row : forall (D : list (list R)) i k, nth k (tl (row_of D i)) 0 = nth i (nth (S k) D []) 0.
Proof.
  intros [|d D] i k.
  - unfold row_of. cbn [map tl]. rewrite nth_nil_R, nth_nil_list, nth_nil_R. reflexivity.
  - unfold row_of. cbn [map tl nth].
    transitivity (nth k (map (fun c : list R => nth i c 0) D) ((fun c : list R => nth i c 0) [])).
    + cbv beta. rewrite nth_nil_R. reflexivity.
    + exact (map_nth (fun c : list R => nth i c 0) D [] k).
Qed.

Lemma shape_nth : forall n (D : list (list R)) k, shape n D -> (k < length D)%nat -> length (nth k D []) = n.
Proof.
  intros n D k H Hk. unfold shape in H. rewrite Forall_forall in H. apply H. apply nth_In. exact Hk.
Qed.

Section Exchange.
Context {X : Type}.
Variables (cls : list (cluster X)) (n nv' : nat) (P D : list (list R)).

(* the derivative of one cluster's residual along the direction array D *)
Definition cluster_term (c : cluster X) : R :=
  sumR (map (fun x => -2 * diff_at (cl_idx c) (cl_img c) (bg_of c P) (vals_of c P) x
                      * (nth (hd 0%nat (cl_idx c)) (nth 0 D []) 0
                         + sumR (map (fun i => dot (rows_of c P i x) (tl (row_of D i))) (cl_idx c))))
            (cl_pix c)) / cl_len c.

Lemma assemble :
  partition n (map cl_idx cls) -> length D = S nv' -> shape n D ->
  (forall c i, In c cls -> In i (cl_idx c) ->
     nth i (nth 0 D []) 0 = nth (hd 0%nat (cl_idx c)) (nth 0 D []) 0) ->
  mdot (to_cols n (S nv') (jac_arr cls P)) D = sumR (map cluster_term cls).
Proof.
  intros (HG & ND & Hcov) HLD HS Hbg.
  set (A := jac_arr cls P). set (Df := fun k i => nth i (nth k D []) 0).
  rewrite mdot_nth, HLD.
  (* entries *)
  rewrite (sumR_map_ext_in _ (fun k => sumR (map (fun i => A k i * Df k i) (seq 0 n)))).
  2:{ intros k Hk. apply in_seq in Hk. unfold to_cols.
      rewrite nth_map_seq by lia. rewrite dot_nth, (shape_nth n D k HS) by lia.
      apply sumR_map_ext_in. intros i Hi. apply in_seq in Hi.
      rewrite nth_map_seq by lia. reflexivity. }
  (* rows outside, then regroup the rows by cluster *)
  rewrite (sumR_map_swap (fun k i => A k i * Df k i)).
  assert (Hperm : Permutation (seq 0 n) (concat (map cl_idx cls))).
  { apply NoDup_Permutation; [apply seq_NoDup|exact ND|]. intro i. split.
    - intro Hi. apply in_seq in Hi. apply Hcov. lia.
    - intro Hi. apply in_concat in Hi. destruct Hi as (g & Hg & Hi).
      rewrite Forall_forall in HG. destruct (HG g Hg) as [_ Hr]. rewrite Forall_forall in Hr.
      apply in_seq. specialize (Hr i Hi). lia. }
  rewrite (sumR_perm _ _ (Permutation_map _ Hperm)).
  rewrite sumR_map_concat, map_map.
  apply sumR_map_ext_in. intros c Hc.
  assert (Hne : cl_idx c <> []).
  { rewrite Forall_forall in HG. destruct (HG (cl_idx c) (in_map cl_idx cls c Hc)) as [Hne _]. exact Hne. }
  (* what was written for this cluster *)
  rewrite (sumR_map_ext_in _ (fun i =>
      sumR (map (fun x => -2 * diff_at (cl_idx c) (cl_img c) (bg_of c P) (vals_of c P) x) (cl_pix c))
        / (INR (length (cl_idx c)) * cl_len c) * Df 0%nat i
      + sumR (map (fun k => sumR (map (fun x => -2 * diff_at (cl_idx c) (cl_img c) (bg_of c P) (vals_of c P) x
                                                * nth k (rows_of c P i x) 0) (cl_pix c)) / cl_len c * Df (S k) i)
                  (seq 0 nv')))).
  2:{ intros i Hi. cbn [seq map sumR fold_right].
      fold (sumR (map (fun k => A k i * Df k i) (seq 1 nv'))).
      unfold A, jac_arr. rewrite (fold_write_in P cls _ c 0%nat i ND Hc Hi). f_equal.
      rewrite <- seq_shift, map_map. apply sumR_map_ext_in. intros k _.
      rewrite (fold_write_in P cls _ c (S k) i ND Hc Hi). reflexivity. }
  rewrite (cluster_algebra (cl_pix c) (cl_idx c) (cl_len c)
             (diff_at (cl_idx c) (cl_img c) (bg_of c P) (vals_of c P))
             (rows_of c P) Df nv' (hd 0%nat (cl_idx c)) Hne (fun i Hi => Hbg c i Hc Hi)).
  unfold cluster_term. f_equal. apply sumR_map_ext_in. intros x _. f_equal. f_equal.
  apply sumR_map_ext_in. intros i _.
  rewrite dot_nth.
  assert (HL : length (tl (row_of D i)) = nv').
  { unfold row_of. destruct D; [discriminate|]. simpl in *. rewrite map_length. lia. }
  rewrite HL. apply sumR_map_ext_in. intros k _. rewrite nth_tl_row. reflexivity.
Qed.
End Exchange.

(* ------------------------------------------------------------------ *)
(* 6. composition                                                       *)
(* ------------------------------------------------------------------ *)
Lemma is_derive_sumR_in : forall {X : Type} (l : list X) (f : X -> R -> R) (df : X -> R) t0,
  (forall x, In x l -> is_derive (f x) t0 (df x)) ->
  is_derive (fun t => sumR (map (fun x => f x t) l)) t0 (sumR (map df l)).
Proof.
  intros X l f df t0 H. induction l as [|a l IH]; simpl.
  - apply (is_derive_const 0 t0).
  - apply (is_derive_plus (f a) (fun t => sumR (map (fun x => f x t) l)) t0 (df a) _ (H a (or_introl eq_refl))).
    apply IH. intros x Hx. apply H. right. exact Hx.
Qed.

(* cluster_residual_derive, needing differentiability only at the features
   and pixels of the cluster, and with the values at t = 0 named *)
Lemma cluster_residual_derive_in :
  forall {X F : Type} (pixels : list X) (feats : list F) (len : R) (img : X -> R)
         (bgc : R -> R) (dbg : R) (valc : F -> X -> R -> R) (dval : F -> X -> R)
         (bg0 : R) (val0 : F -> X -> R),
  is_derive bgc 0 dbg -> bgc 0 = bg0 ->
  (forall f x, In f feats -> In x pixels -> is_derive (valc f x) 0 (dval f x) /\ valc f x 0 = val0 f x) ->
  is_derive (fun t => cluster_residual pixels feats len img (bgc t) (fun f x => valc f x t)) 0
    (sumR (map (fun x => -2 * diff_at feats img bg0 val0 x
                           * (dbg + sumR (map (fun f => dval f x) feats))) pixels) / len).
Proof.
  intros X F pixels feats len img bgc dbg valc dval bg0 val0 Hb Hb0 Hv.
  unfold cluster_residual, Rdiv.
  apply (is_derive_scal_l (fun t => sumR (map (fun x => diff_at feats img (bgc t) (fun f x0 => valc f x0 t) x ^ 2) pixels)) 0 _ (/ len)).
  apply (is_derive_sumR_in pixels
          (fun x t => diff_at feats img (bgc t) (fun f x0 => valc f x0 t) x ^ 2)
          (fun x => -2 * diff_at feats img bg0 val0 x * (dbg + sumR (map (fun f => dval f x) feats)))).
  intros x Hx. unfold diff_at.
  pose proof (is_derive_sumR_in feats (fun f t => valc f x t) (fun f => dval f x) 0
                (fun f Hf => proj1 (Hv f x Hf Hx))) as Hs.
  rewrite <- Hb0.
  rewrite (sumR_map_ext_in (fun f => val0 f x) (fun f => valc f x 0))
    by (intros f Hf; symmetry; exact (proj2 (Hv f x Hf Hx))).
  set (S := fun t => sumR (map (fun f => valc f x t) feats)) in *.
  change (is_derive (fun t => (img x - bgc t - S t) ^ 2) 0
            (-2 * (img x - bgc 0 - S 0) * (dbg + sumR (map (fun f => dval f x) feats)))).
  auto_derive.
  - split; [exists dbg; exact Hb|]. split; [eexists; exact Hs|]. exact I.
  - match goal with |- context [Derive (fun x0 => bgc x0) 0] =>
      replace (Derive (fun x0 => bgc x0) 0) with dbg by (symmetry; apply is_derive_unique; exact Hb) end.
    match goal with |- context [Derive (fun x0 => S x0) 0] =>
      replace (Derive (fun x0 => S x0) 0) with (sumR (map (fun f => dval f x) feats))
        by (symmetry; apply is_derive_unique; exact Hs) end.
    ring.
Qed.

Lemma cluster_residual_ext : forall {X F : Type} (pixels : list X) (feats : list F) len img bg bg' (val val' : F -> X -> R),
  bg = bg' -> (forall f x, val f x = val' f x) ->
  cluster_residual pixels feats len img bg val = cluster_residual pixels feats len img bg' val'.
Proof.
  intros X F pixels feats len img bg bg' val val' -> H. unfold cluster_residual, diff_at. f_equal.
  apply sumR_map_ext_in. intros x _. f_equal. f_equal. apply sumR_map_ext_in. intros f _. apply H.
Qed.

(* --- straight lines in vector / array space --- *)
Lemma nth_line : forall a b t i, length a = length b -> nth i (line a b t) 0 = nth i a 0 + t * nth i b 0.
Proof.
  unfold line. induction a as [|x a IH]; intros [|y b] t i H; simpl in H; try discriminate.
  - cbn [zipw]. rewrite nth_nil_R. ring.
  - destruct i; simpl; [reflexivity|]. apply IH. lia.
Qed.

Lemma line_0 : forall p dp, length p = length dp -> line p dp 0 = p.
Proof.
  unfold line. induction p as [|x p IH]; intros [|y dp] H; simpl in *; try discriminate; auto.
  f_equal; [ring|]. apply IH. lia.
Qed.

Lemma line_zeros : forall p t, line p (repeat 0 (length p)) t = p.
Proof. unfold line. induction p; intro t; simpl; auto. f_equal; [ring|auto]. Qed.

Lemma line_length : forall p dp t, length p = length dp -> length (line p dp t) = length p.
Proof. intros. unfold line. apply zipw_length. assumption. Qed.

Lemma row_of_line : forall n t (P D : list (list R)) i, shape n P -> shape n D -> length P = length D ->
  row_of (zipw (zipw (fun a b => a + t * b)) P D) i = line (row_of P i) (row_of D i) t.
Proof.
  intros n t. induction P as [|p P IH]; intros [|d D] i HP HD HL; simpl in HL; try discriminate; [reflexivity|].
  inversion HP; inversion HD; subst. unfold row_of, line in *. cbn [zipw map]. f_equal.
  - apply (nth_line p d t i). congruence.
  - apply IH; auto.
Qed.

Lemma zipw_zeros : forall n t (cols0 : list (list R)) (modes : list nat),
  shape n cols0 -> length modes = length cols0 ->
  zipw (zipw (fun a b => a + t * b)) cols0 (map (fun _ => repeat 0 n) modes) = cols0.
Proof.
  intros n t. induction cols0 as [|c cs IH]; intros [|m ms] HS HL; simpl in HL; try discriminate; [reflexivity|].
  inversion HS; subst. cbn [map zipw]. f_equal; [apply (line_zeros c t)|]. apply IH; auto.
Qed.

Lemma upd_length : forall v k s, length (upd v k s) = length v.
Proof. induction v; intros [|k] s; simpl; auto. Qed.

Lemma upd_line : forall v k s, (k < length v)%nat ->
  upd v k s = line v (upd (repeat 0 (length v)) k 1) (s - nth k v 0).
Proof.
  induction v as [|a v IH]; intros k s Hk; simpl in Hk; [lia|].
  destruct k as [|k]; unfold line in *; cbn [length repeat upd zipw nth].
  - f_equal; [ring|]. symmetry. apply (line_zeros v).
  - f_equal; [ring|]. apply IH. lia.
Qed.

Lemma dot_basis : forall g k, (k < length g)%nat -> dot g (upd (repeat 0 (length g)) k 1) = nth k g 0.
Proof.
  induction g as [|a g IH]; intros k Hk; simpl in Hk; [lia|].
  destruct k as [|k]; cbn [length repeat upd dot nth].
  - rewrite dot_zeros. ring.
  - rewrite IH by lia. ring.
Qed.

(* --- vect_from_params(..., operation=np.sum) does not raise on a well-shaped array --- *)
Lemma pack_sum_ok : forall groups n modes (G : list (list R)),
  length modes = length G -> shape n G -> List.Forall (mode_wf groups n) modes ->
  exists g, pack np_sum groups modes G = Some g.
Proof.
  intros groups n modes. induction modes as [|m ms IH]; intros [|c G] HL HS HW; simpl in HL; try discriminate.
  - exists []. reflexivity.
  - inversion HS as [|? ? Hc HS']; subst. inversion HW as [|? ? HWm HW']; subst.
    destruct (IH G ltac:(lia) HS' HW') as [g2 E2].
    assert (exists g1, pack_col np_sum groups m c = Some g1) as [g1 E1].
    { destruct m as [|[|m]]; [eexists; reflexivity|eexists; reflexivity|].
      unfold mode_wf in HWm. unfold pack_col.
      destruct (select groups (S (S m))) as [|gt|]; [eexists; reflexivity| |contradiction].
      destruct HWm as [HG _]. simpl. rewrite (pack_sum_groups c gt HG). eexists; reflexivity. }
    exists (g1 ++ g2). cbn [pack]. rewrite E1, E2. reflexivity.
Qed.

Lemma to_cols_shape : forall n nv A, shape n (to_cols n nv A) /\ length (to_cols n nv A) = nv.
Proof.
  intros. unfold to_cols, shape. split.
  - apply Forall_forall. intros c Hc. apply in_map_iff in Hc. destruct Hc as (k & <- & _).
    rewrite map_length, seq_length. reflexivity.
  - rewrite map_length, seq_length. reflexivity.
Qed.

Lemma unpack_bg_const : forall groups n cl m0 ms (w rest rest' : list R) ds D,
  bg_mode_ok groups cl m0 -> mode_wf groups n m0 -> List.Forall (group_ok n) cl ->
  length w = packed_len groups n (m0 :: ms) ->
  unpack groups n (m0 :: ms) (w ++ rest) (repeat 0 n :: ds) = Some (D, rest') ->
  forall c i, In c cl -> In i c -> nth i (nth 0 D []) 0 = nth (hd 0%nat c) (nth 0 D []) 0.
Proof.
  intros groups n cl m0 ms w rest rest' ds D HB HW HG HV HU.
  cbn [unpack] in HU.
  destruct (unpack_col groups n m0 (w ++ rest) (repeat 0 n)) as [[d0 r]|] eqn:E; [|discriminate].
  destruct (unpack groups n ms r ds) as [[D' r']|]; [|discriminate]. inversion HU; subst. cbn [nth].
  rewrite packed_len_cons in HV. set (k := packed_len_col groups n m0) in *.
  rewrite <- (firstn_skipn k w), <- app_assoc in E.
  eapply dir_bg_const; eauto. rewrite firstn_length. fold k. lia.
Qed.

Section Gradient.
Context {X : Type}.
Variables (cls : list (cluster X)) (groups : groups_t) (n m0 : nat) (ms : list nat)
          (cols0 : list (list R)) (norm : R) (v : list R).
Let modes := m0 :: ms.
Hypothesis HLm : length modes = length cols0.
Hypothesis HS0 : List.Forall (fun c => length c = n) cols0.
Hypothesis HW : List.Forall (mode_wf groups n) modes.
Hypothesis HV : length v = packed_len groups n modes.
Hypothesis Hcl : map cl_idx cls = cl_groups_of groups n.
Hypothesis Hpart : partition n (cl_groups_of groups n).
Hypothesis Hbg : bg_mode_ok groups (cl_groups_of groups n) m0.
(* derivs[j, :, x] is the gradient of the feature's contribution to diff[x]
   in the feature's own parameter row, at the current parameters *)
Hypothesis Hpix : forall P rest, unpack groups n modes v cols0 = Some (P, rest) ->
  forall c i x dp, In c cls -> In i (cl_idx c) -> In x (cl_pix c) -> length dp = length modes ->
  is_derive (fun t => cl_val c i x (line (row_of P i) dp t)) 0
            (dot (cl_row c i x (row_of P i)) (tl dp)).

Let res := residual cls groups n modes cols0 norm.
Let jac := jacobian cls groups n modes cols0 norm.

Theorem gradient_directional :
  exists g, jac v = Some g /\ length g = length v /\
    forall w, length w = length v -> is_derive (fun t => res (line v w t)) 0 (dot g w).
Proof.
  set (zeros := map (fun _ : nat => repeat 0 n) modes).
  assert (HLz : length modes = length zeros) by (unfold zeros; rewrite map_length; reflexivity).
  assert (HSz : shape n zeros).
  { unfold zeros, shape. apply Forall_forall. intros c Hc. apply in_map_iff in Hc.
    destruct Hc as (k & <- & _). apply repeat_length. }
  (* the parameters at v *)
  destruct (pack_unpack None groups n modes cols0 v [] I HLm HS0 HW HV) as (P & UP & SP & _).
  rewrite app_nil_r in UP.
  assert (LP : length P = length modes).
  { destruct (unpack_zipw (fun a b : R => a) groups n modes cols0 zeros v v [] [] [] HLm HLz HS0 HSz HW HV HV)
      as (P' & D' & U1 & _ & _ & _ & _ & LP' & _).
    rewrite app_nil_r in U1. rewrite UP in U1. inversion U1. exact LP'. }
  (* the packed gradient *)
  set (Gm := to_cols n (length modes) (jac_arr cls P)).
  destruct (to_cols_shape n (length modes) (jac_arr cls P)) as [SG LG]. fold Gm in SG, LG.
  destruct (pack_sum_ok groups n modes Gm (eq_sym LG) SG HW) as [g0 EG].
  exists (map (fun a => a / norm) g0).
  assert (Lg0 : length g0 = length v).
  { destruct (pack_sum_adjoint groups n modes Gm v [] g0 (eq_sym LG) SG HW HV EG) as (_ & _ & L & _). exact L. }
  split; [|split].
  - unfold jac, jacobian. rewrite UP. fold Gm. rewrite EG. reflexivity.
  - rewrite map_length. exact Lg0.
  - intros w HLw. assert (HVw : length w = packed_len groups n modes) by congruence.
    (* the direction array *)
    destruct (pack_sum_adjoint groups n modes Gm w [] g0 (eq_sym LG) SG HW HVw EG) as (D & UD & _ & Hadj).
    fold zeros in UD.
    assert (HPD : shape n D /\ length D = length modes /\
                  forall t, unpack groups n modes (line v w t) cols0
                            = Some (zipw (zipw (fun a b => a + t * b)) P D, [])).
    { destruct (unpack_zipw (fun a b : R => a + 0 * b) groups n modes cols0 zeros v w [] [] []
                  HLm HLz HS0 HSz HW HV HVw) as (P' & D' & U1 & U2 & _ & _ & SD & _ & LD).
      rewrite app_nil_r in U1. rewrite UP in U1. rewrite UD in U2. inversion U1; inversion U2; subst P' D'.
      split; [exact SD|]. split; [exact LD|]. intro t.
      destruct (unpack_zipw (fun a b : R => a + t * b) groups n modes cols0 zeros v w [] [] []
                  HLm HLz HS0 HSz HW HV HVw) as (P' & D' & U1' & U2' & U3 & _).
      rewrite app_nil_r in U1'. rewrite UP in U1'. rewrite UD in U2'. inversion U1'; inversion U2'; subst P' D'.
      rewrite app_nil_r in U3. unfold zeros in U3. rewrite (zipw_zeros n t cols0 modes HS0 HLm) in U3. exact U3. }
    destruct HPD as (SD & LD & Hline).
    (* residual along the line, cluster by cluster *)
    apply (is_derive_ext (fun t => sumR (map (fun c =>
               cluster_residual (cl_pix c) (cl_idx c) (cl_len c) (cl_img c)
                 (bg_of c P + t * nth (hd 0%nat (cl_idx c)) (nth 0 D []) 0)
                 (fun i x => cl_val c i x (line (row_of P i) (row_of D i) t))) cls) * / norm)).
    { intro t. unfold res, residual. rewrite (Hline t). unfold residual_at, Rdiv. f_equal.
      apply sumR_map_ext_in. intros c _. apply cluster_residual_ext.
      - unfold bg_of. destruct P as [|p0 P']; [discriminate|]. destruct D as [|d0 D']; [discriminate|].
        cbn [zipw nth]. inversion SP; inversion SD; subst. symmetry. apply (nth_line p0 d0 t). congruence.
      - intros i x. unfold vals_of. rewrite (row_of_line n t P D i SP SD) by congruence. reflexivity. }
    rewrite dot_map_scale. unfold Rdiv.
    apply (is_derive_scal_l (fun t => sumR (map (fun c =>
               cluster_residual (cl_pix c) (cl_idx c) (cl_len c) (cl_img c)
                 (bg_of c P + t * nth (hd 0%nat (cl_idx c)) (nth 0 D []) 0)
                 (fun i x => cl_val c i x (line (row_of P i) (row_of D i) t))) cls)) 0 _ (/ norm)).
    (* <g0, w> = <result, D> = sum of the per-cluster derivatives *)
    rewrite Hadj. unfold Gm. replace (length modes) with (S (length ms)) by reflexivity.
    rewrite (assemble cls n (length ms) P D).
    + apply (is_derive_sumR_in cls
               (fun c t => cluster_residual (cl_pix c) (cl_idx c) (cl_len c) (cl_img c)
                 (bg_of c P + t * nth (hd 0%nat (cl_idx c)) (nth 0 D []) 0)
                 (fun i x => cl_val c i x (line (row_of P i) (row_of D i) t)))
               (cluster_term P D)).
      intros c Hc. unfold cluster_term.
      apply (cluster_residual_derive_in (cl_pix c) (cl_idx c) (cl_len c) (cl_img c)
               (fun t => bg_of c P + t * nth (hd 0%nat (cl_idx c)) (nth 0 D []) 0)
               (nth (hd 0%nat (cl_idx c)) (nth 0 D []) 0)
               (fun i x t => cl_val c i x (line (row_of P i) (row_of D i) t))
               (fun i x => dot (rows_of c P i x) (tl (row_of D i)))
               (bg_of c P) (vals_of c P)).
      * auto_derive; [exact I|ring].
      * ring.
      * intros i x Hi Hx. assert (HLr : length (row_of D i) = length modes)
          by (unfold row_of; rewrite map_length; exact LD).
        split.
        -- exact (Hpix P [] UP c i x (row_of D i) Hc Hi Hx HLr).
        -- unfold vals_of. rewrite line_0; [reflexivity|]. unfold row_of. rewrite !map_length. congruence.
    + rewrite Hcl. exact Hpart.
    + exact LD.
    + exact SD.
    + intros c i Hc Hi. destruct Hpart as (HG & _ & _).
      apply (unpack_bg_const groups n (cl_groups_of groups n) m0 ms w [] [] (map (fun _ => repeat 0 n) ms) D Hbg
               ltac:(inversion HW; assumption) HG HVw UD (cl_idx c) i); [|exact Hi].
      rewrite <- Hcl. apply in_map. exact Hc.
Qed.

(* every partial derivative: component k of the packed vector varies, the
   others are held fixed *)
Theorem gradient_exact :
  exists g, jac v = Some g /\ length g = length v /\
    (forall w, length w = length v -> is_derive (fun t => res (line v w t)) 0 (dot g w)) /\
    (forall k, (k < length v)%nat -> is_derive (fun s => res (upd v k s)) (nth k v 0) (nth k g 0)).
Proof.
  destruct gradient_directional as (g & Hj & Lg & Hd). exists g.
  split; [exact Hj|]. split; [exact Lg|]. split; [exact Hd|].
  intros k Hk. set (e := upd (repeat 0 (length v)) k 1). set (vk := nth k v 0).
  assert (Le : length e = length v) by (unfold e; rewrite upd_length, repeat_length; reflexivity).
  pose proof (Hd e Le) as H0.
  assert (Hg : is_derive (fun s : R => s - vk) vk 1) by (auto_derive; [exact I|ring]).
  replace 0 with (vk - vk) in H0 by ring.
  pose proof (is_derive_comp (fun t => res (line v e t)) (fun s => s - vk) vk _ _ H0 Hg) as Hc.
  apply (is_derive_ext (fun s => res (line v e (s - vk)))).
  - intro s. unfold e, vk. rewrite <- upd_line by exact Hk. reflexivity.
  - replace (nth k g 0) with (scal 1 (dot g e)); [exact Hc|].
    unfold e. rewrite <- Lg, dot_basis by (rewrite Lg; exact Hk).
    unfold scal; simpl; unfold mult; simpl. ring.
Qed.
End Gradient.

(* ------------------------------------------------------------------ *)
(* 7. the built-in model functions satisfy the per-pixel hypothesis     *)
(* ------------------------------------------------------------------ *)
(* a geometry is sound at the position/size slices q satisfying okq when dr2
   is the gradient of r2 there *)
Definition geom_ok (G : geometry) (okq : list R -> Prop) : Prop :=
  forall m q dq, length q = g_np G -> length dq = g_np G -> okq q ->
    is_derive (fun t => g_r2 G m (line q dq t)) 0 (dot (g_dr2 G m q) dq) /\
    length (g_dr2 G m q) = g_np G.

(* admissible slices: every size is non-zero *)
Definition ok_iso2d (q : list R) : Prop := nth 2 q 0 <> 0.
Definition ok_iso3d (q : list R) : Prop := nth 3 q 0 <> 0.
Definition ok_aniso2d (q : list R) : Prop := nth 2 q 0 <> 0 /\ nth 3 q 0 <> 0.
Definition ok_aniso3d (q : list R) : Prop := nth 3 q 0 <> 0 /\ nth 4 q 0 <> 0 /\ nth 5 q 0 <> 0.

Lemma geom_iso2d_ok : geom_ok geom_iso2d ok_iso2d.
Proof.
  intros m q dq Hq Hdq Hok. unfold ok_iso2d in Hok.
  destruct q as [|a0 [|a1 [|a2 [|]]]]; try discriminate.
  destruct dq as [|b0 [|b1 [|b2 [|]]]]; try discriminate.
  unfold geom_iso2d, line. cbn [g_r2 g_dr2 g_np zipw nth] in *. split; [|reflexivity].
  apply r2_isotropic_2d_dir. exact Hok.
Qed.

Lemma geom_iso3d_ok : geom_ok geom_iso3d ok_iso3d.
Proof.
  intros m q dq Hq Hdq Hok. unfold ok_iso3d in Hok.
  destruct q as [|a0 [|a1 [|a2 [|a3 [|]]]]]; try discriminate.
  destruct dq as [|b0 [|b1 [|b2 [|b3 [|]]]]]; try discriminate.
  unfold geom_iso3d, line. cbn [g_r2 g_dr2 g_np zipw nth] in *. split; [|reflexivity].
  apply r2_isotropic_3d_dir. exact Hok.
Qed.

Lemma geom_aniso2d_ok : geom_ok geom_aniso2d ok_aniso2d.
Proof.
  intros m q dq Hq Hdq Hok. unfold ok_aniso2d in Hok.
  destruct q as [|a0 [|a1 [|a2 [|a3 [|]]]]]; try discriminate.
  destruct dq as [|b0 [|b1 [|b2 [|b3 [|]]]]]; try discriminate.
  unfold geom_aniso2d, line. cbn [g_r2 g_dr2 g_np zipw nth] in *. split; [|reflexivity].
  destruct Hok. apply r2_anisotropic_2d_dir; assumption.
Qed.

Lemma geom_aniso3d_ok : geom_ok geom_aniso3d ok_aniso3d.
Proof.
  intros m q dq Hq Hdq Hok. unfold ok_aniso3d in Hok.
  destruct q as [|a0 [|a1 [|a2 [|a3 [|a4 [|a5 [|]]]]]]]; try discriminate.
  destruct dq as [|b0 [|b1 [|b2 [|b3 [|b4 [|b5 [|]]]]]]]; try discriminate.
  unfold geom_aniso3d, line. cbn [g_r2 g_dr2 g_np zipw nth] in *. split; [|reflexivity].
  destruct Hok as (? & ? & ?). apply r2_anisotropic_3d_dir; assumption.
Qed.

Lemma split_last : forall (l : list R) k, length l = S k -> exists q a, l = q ++ [a] /\ length q = k.
Proof.
  intros l k H. destruct (exists_last (l := l)) as (q & a & E); [intro; subst; discriminate|].
  exists q, a. split; [exact E|]. subst l. rewrite app_length in H. simpl in H. lia.
Qed.

(* gauss: rows are (background, signal, <pos>, <size>) *)
Lemma gauss_pixel : forall G okq, geom_ok G okq ->
  forall {X : Type} ndim (mesh : X -> list R) (mask : nat -> X -> bool) i x p dp,
  length p = (2 + g_np G)%nat -> length dp = length p -> okq (geo_slice G p) ->
  is_derive (fun t => gauss_val G ndim mesh mask i x (line p dp t)) 0
            (dot (gauss_row G ndim mesh mask i x p) (tl dp)).
Proof.
  intros G okq HG X ndim mesh mask i x p dp Hp Hdp Hok.
  unfold gauss_val, gauss_row. destruct (mask i x).
  2:{ simpl. apply (is_derive_const 0 0). }
  destruct p as [|b [|s q]]; try discriminate. destruct dp as [|db [|ds dq]]; try discriminate.
  simpl in Hp, Hdp. assert (Hq : length q = g_np G) by lia. assert (Hdq : length dq = g_np G) by lia.
  unfold geo_slice in *. cbn [skipn tl nth] in *.
  rewrite firstn_all2 in Hok by lia. rewrite (firstn_all2 (n := g_np G) q) by lia.
  destruct (HG (mesh x) q dq Hq Hdq Hok) as [Hr2 Hlen].
  apply (is_derive_ext (fun t => (s + t * ds) * gauss_fun (g_r2 G (mesh x) (line q dq t)) ndim)).
  { intro t. unfold line. cbn [zipw skipn nth]. rewrite firstn_all2; [reflexivity|].
    rewrite zipw_length by congruence. lia. }
  pose proof (pixel_gauss (fun t => g_r2 G (mesh x) (line q dq t)) (g_dr2 G (mesh x) q) dq s ds ndim
                ltac:(congruence) Hr2) as H.
  cbv beta in H. rewrite (line_0 q dq) in H by congruence. exact H.
Qed.

(* ring: rows are (background, signal, <pos>, <size>, thickness); the reduced
   radius must be positive (the _safe radius functions drop the pixels within
   1 px of the centre) and the thickness non-zero *)
Lemma ring_pixel : forall G okq, geom_ok G okq ->
  forall {X : Type} ndim (mesh : X -> list R) (mask : nat -> X -> bool) i x p dp,
  length p = (3 + g_np G)%nat -> length dp = length p -> okq (geo_slice G p) ->
  nth (2 + g_np G) p 0 <> 0 ->
  (mask i x = true -> 0 < g_r2 G (mesh x) (geo_slice G p)) ->
  is_derive (fun t => ring_val G ndim mesh mask i x (line p dp t)) 0
            (dot (ring_row G ndim mesh mask i x p) (tl dp)).
Proof.
  intros G okq HG X ndim mesh mask i x p dp Hp Hdp Hok Hth Hpos.
  unfold ring_val, ring_row. destruct (mask i x).
  2:{ simpl. apply (is_derive_const 0 0). }
  specialize (Hpos eq_refl).
  destruct p as [|b [|s p']]; try discriminate. destruct dp as [|db [|ds dp']]; try discriminate.
  simpl in Hp, Hdp.
  destruct (split_last p' (g_np G) ltac:(lia)) as (q & th & -> & Hq).
  destruct (split_last dp' (g_np G) ltac:(lia)) as (dq & dth & -> & Hdq).
  unfold geo_slice in *. cbn [skipn tl] in *.
  assert (Eth : forall (l : list R) a b0 s0, length l = g_np G -> nth (2 + g_np G) (b0 :: s0 :: l ++ [a]) 0 = a).
  { intros l a b0 s0 Hl. change (2 + g_np G)%nat with (S (S (g_np G))). cbn [nth]. rewrite app_nth2 by lia. rewrite Hl, Nat.sub_diag. reflexivity. }
  rewrite Eth in Hth |- * by exact Hq.
  rewrite (firstn_app_exact q [th] _ Hq) in Hok, Hpos |- *.
  destruct (HG (mesh x) q dq Hq Hdq Hok) as [Hr2 Hlen].
  apply (is_derive_ext (fun t => (s + t * ds) * ring_fun (g_r2 G (mesh x) (line q dq t)) (th + t * dth) ndim)).
  { intro t. unfold line. cbn [zipw skipn]. rewrite (zipw_app _ q [th] dq [dth]) by congruence. cbn [zipw].
    rewrite Eth by (rewrite zipw_length; congruence).
    rewrite firstn_app_exact by (rewrite zipw_length; congruence). cbn [nth]. reflexivity. }
  pose proof (pixel_ring (fun t => g_r2 G (mesh x) (line q dq t)) (g_dr2 G (mesh x) q) dq s ds th dth ndim
                ltac:(congruence)) as H.
  cbv beta in H. rewrite (line_0 q dq) in H by congruence. exact (H Hpos Hth Hr2).
Qed.

Lemma unpack_length : forall groups n modes (v : list R) cols P rest,
  unpack groups n modes v cols = Some (P, rest) -> length P = length modes.
Proof.
  intros groups n modes. induction modes as [|m ms IH]; intros v [|c cs] P rest H; simpl in H; try discriminate.
  - inversion H. reflexivity.
  - destruct (unpack_col groups n m v c) as [[c' r]|]; [|discriminate].
    destruct (unpack groups n ms r cs) as [[P' r']|] eqn:E; [|discriminate].
    inversion H; subst. simpl. f_equal. eapply IH; eauto.
Qed.

Section Instances.
Context {X : Type}.
Variables (G : geometry) (okq : list R -> Prop).
Hypothesis HG : geom_ok G okq.
Variables (ndim : R) (mesh : cluster X -> X -> list R) (mask : cluster X -> nat -> X -> bool).
Variables (cls : list (cluster X)) (groups : groups_t) (n m0 : nat) (ms : list nat)
          (cols0 : list (list R)) (norm : R) (v : list R).
Hypothesis HLm : length (m0 :: ms) = length cols0.
Hypothesis HS0 : List.Forall (fun c => length c = n) cols0.
Hypothesis HW : List.Forall (mode_wf groups n) (m0 :: ms).
Hypothesis HV : length v = packed_len groups n (m0 :: ms).
Hypothesis Hcl : map cl_idx cls = cl_groups_of groups n.
Hypothesis Hpart : partition n (cl_groups_of groups n).
Hypothesis Hbg : bg_mode_ok groups (cl_groups_of groups n) m0.

Definition gradient_statement : Prop :=
  exists g, jacobian cls groups n (m0 :: ms) cols0 norm v = Some g /\ length g = length v /\
    (forall w, length w = length v ->
       is_derive (fun t => residual cls groups n (m0 :: ms) cols0 norm (line v w t)) 0 (dot g w)) /\
    (forall k, (k < length v)%nat ->
       is_derive (fun s => residual cls groups n (m0 :: ms) cols0 norm (upd v k s)) (nth k v 0) (nth k g 0)).

Theorem gradient_exact_gauss :
  length ms = (1 + g_np G)%nat ->
  (forall c, In c cls -> cl_val c = gauss_val G ndim (mesh c) (mask c) /\
                         cl_row c = gauss_row G ndim (mesh c) (mask c)) ->
  (forall P rest, unpack groups n (m0 :: ms) v cols0 = Some (P, rest) ->
     forall c i, In c cls -> In i (cl_idx c) -> okq (geo_slice G (row_of P i))) ->
  gradient_statement.
Proof.
  intros Hnv Hmodel Hadm. unfold gradient_statement.
  apply (gradient_exact cls groups n m0 ms cols0 norm v HLm HS0 HW HV Hcl Hpart Hbg).
  intros P rest HU c i x dp Hc Hi Hx Hdp.
  destruct (Hmodel c Hc) as [-> ->].
  assert (HLr : length (row_of P i) = (2 + g_np G)%nat).
  { unfold row_of. rewrite map_length, (unpack_length _ _ _ _ _ _ _ HU). simpl. lia. }
  apply (gauss_pixel G okq HG); [exact HLr| |exact (Hadm P rest HU c i Hc Hi)].
  rewrite HLr, Hdp. simpl. lia.
Qed.

Theorem gradient_exact_ring :
  length ms = (2 + g_np G)%nat ->
  (forall c, In c cls -> cl_val c = ring_val G ndim (mesh c) (mask c) /\
                         cl_row c = ring_row G ndim (mesh c) (mask c)) ->
  (forall P rest, unpack groups n (m0 :: ms) v cols0 = Some (P, rest) ->
     forall c i, In c cls -> In i (cl_idx c) ->
       okq (geo_slice G (row_of P i)) /\ nth (2 + g_np G) (row_of P i) 0 <> 0 /\
       forall x, In x (cl_pix c) -> mask c i x = true -> 0 < g_r2 G (mesh c x) (geo_slice G (row_of P i))) ->
  gradient_statement.
Proof.
  intros Hnv Hmodel Hadm. unfold gradient_statement.
  apply (gradient_exact cls groups n m0 ms cols0 norm v HLm HS0 HW HV Hcl Hpart Hbg).
  intros P rest HU c i x dp Hc Hi Hx Hdp.
  destruct (Hmodel c Hc) as [-> ->].
  assert (HLr : length (row_of P i) = (3 + g_np G)%nat).
  { unfold row_of. rewrite map_length, (unpack_length _ _ _ _ _ _ _ HU). simpl. lia. }
  destruct (Hadm P rest HU c i Hc Hi) as (Hok & Hth & Hpos).
  apply (ring_pixel G okq HG); [exact HLr| |exact Hok|exact Hth|exact (Hpos x Hx)].
  rewrite HLr, Hdp. simpl. lia.
Qed.
End Instances.
