(* C15 (gradient, final composition): jacobian(vect) of get_residual is the
   gradient of residual(vect) in the packed optimisation vector.

   Structure
     1. finite-sum algebra over R
     2. vect_to_params is natural in the element type: it commutes with any
        element-wise combination of two vectors (polymorphic, no arithmetic) --
        hence it is affine:  unpack (v + t*w) p0 = unpack v p0 + t * unpack w 0
     3. the array `result` of jacobian() after the loop over disjoint clusters
     4. the direction array unpack w 0 is constant on every cluster in the
        background column (this is where "divide by n_cluster" is justified)
     5. sum exchange: <result, unpack w 0> = sum over clusters of the
        per-cluster derivative of Proofs/Jacobian.cluster_residual_derive
     6. composition with pack_sum_adjoint: the directional derivative of
        residual along any w is <jacobian(v), w>; coordinate directions give
        every partial derivative
     7. the hypotheses on cl_val / cl_row discharged for gauss and ring in all
        four geometries from the generated functions (pixel_gauss, pixel_ring,
        r2_*_dir) *)
From Coq Require Import Reals List Arith Lia Lra Permutation.
From Coquelicot Require Import Coquelicot.
From TP Require Import Gen.fitfun Model.Pack Model.Jacobian Model.Jacobian2
                       Proofs.Pack Proofs.Deriv Proofs.Jacobian.
Import ListNotations.
Open Scope R_scope.

(* ------------------------------------------------------------------ *)
(* 1. finite sums                                                       *)
(* ------------------------------------------------------------------ *)
Lemma sumR_app : forall l1 l2, sumR (l1 ++ l2) = sumR l1 + sumR l2.
Proof. induction l1; intros; simpl; [ring|]. rewrite IHl1. ring. Qed.

Lemma sumR_map_plus : forall {X : Type} (f g : X -> R) l,
  sumR (map (fun x => f x + g x) l) = sumR (map f l) + sumR (map g l).
Proof. induction l; simpl; [ring|]. rewrite IHl. ring. Qed.

Lemma sumR_map_scal : forall {X : Type} c (f : X -> R) l,
  sumR (map (fun x => c * f x) l) = c * sumR (map f l).
Proof. induction l; simpl; [ring|]. rewrite IHl. ring. Qed.

Lemma sumR_map_scal_r : forall {X : Type} c (f : X -> R) l,
  sumR (map (fun x => f x * c) l) = sumR (map f l) * c.
Proof. induction l; simpl; [ring|]. rewrite IHl. ring. Qed.

Lemma sumR_map_ext_in : forall {X : Type} (f g : X -> R) l,
  (forall x, In x l -> f x = g x) -> sumR (map f l) = sumR (map g l).
Proof. intros. f_equal. apply map_ext_in. assumption. Qed.

Lemma sumR_map_zero : forall {X : Type} (l : list X), sumR (map (fun _ => 0) l) = 0.
Proof. induction l; simpl; [reflexivity|]. rewrite IHl. ring. Qed.

Lemma sumR_map_const : forall {X : Type} c (l : list X),
  sumR (map (fun _ => c) l) = INR (length l) * c.
Proof.
  induction l; [simpl; ring|]. cbn [map sumR fold_right length]. fold (sumR (map (fun _ : X => c) l)).
  rewrite IHl, S_INR. ring.
Qed.

Lemma sumR_map_swap : forall {X Y : Type} (f : X -> Y -> R) lx ly,
  sumR (map (fun x => sumR (map (fun y => f x y) ly)) lx)
  = sumR (map (fun y => sumR (map (fun x => f x y) lx)) ly).
Proof.
  intros X Y f lx ly. induction lx as [|a lx IH]; simpl.
  - symmetry. apply sumR_map_zero.
  - rewrite IH. symmetry. apply (sumR_map_plus (fun y => f a y) (fun y => sumR (map (fun x => f x y) lx))).
Qed.

Lemma sumR_perm : forall l l', Permutation l l' -> sumR l = sumR l'.
Proof. induction 1; simpl; try lra. Qed.

Lemma sumR_map_concat : forall {X : Type} (f : X -> R) ls,
  sumR (map f (concat ls)) = sumR (map (fun l => sumR (map f l)) ls).
Proof.
  induction ls as [|l ls IH]; simpl; [reflexivity|]. rewrite map_app, sumR_app, IH. reflexivity.
Qed.

Lemma nth_nil_R : forall i, nth i (@nil R) 0 = 0.
Proof. destruct i; reflexivity. Qed.

Lemma nth_nil_list : forall i, nth i (@nil (list R)) [] = [].
Proof. destruct i; reflexivity. Qed.

(* np.sum(a*b) as an indexed sum over the second array *)
Lemma dot_nth : forall b a, dot a b = sumR (map (fun k => nth k a 0 * nth k b 0) (seq 0 (length b))).
Proof.
  induction b as [|y b IH]; intros [|x a]; try reflexivity.
  - cbn [dot]. rewrite (sumR_map_ext_in _ (fun _ => 0)); [symmetry; apply sumR_map_zero|].
    intros k _. rewrite nth_nil_R. ring.
  - cbn [dot length seq map sumR fold_right nth]. fold (sumR (map (fun k => nth k (x :: a) 0 * nth k (y :: b) 0) (seq 1 (length b)))).
    rewrite <- seq_shift, map_map. cbn [nth]. rewrite <- IH. reflexivity.
Qed.

Lemma mdot_nth : forall D G, mdot G D = sumR (map (fun k => dot (nth k G []) (nth k D [])) (seq 0 (length D))).
Proof.
  induction D as [|d D IH]; intros [|g G]; try reflexivity.
  - cbn [mdot]. rewrite (sumR_map_ext_in _ (fun _ => 0)); [symmetry; apply sumR_map_zero|].
    intros k _. rewrite nth_nil_list. reflexivity.
  - cbn [mdot length seq map sumR fold_right nth].
    fold (sumR (map (fun k => dot (nth k (g :: G) []) (nth k (d :: D) [])) (seq 1 (length D)))).
    rewrite <- seq_shift, map_map. cbn [nth]. rewrite <- IH. reflexivity.
Qed.

Lemma nth_map_seq : forall {B : Type} (F : nat -> B) m k d, (k < m)%nat -> nth k (map F (seq 0 m)) d = F k.
Proof.
  intros B F m k d H. rewrite (nth_indep _ d (F 0%nat)) by (rewrite map_length, seq_length; exact H).
  rewrite map_nth, seq_nth by exact H. reflexivity.
Qed.

Lemma dot_map_scale : forall c g w, dot (map (fun a => a / c) g) w = dot g w / c.
Proof.
  intros c g. induction g as [|a g IH]; intros [|b w]; simpl; try (unfold Rdiv; ring).
  rewrite IH. unfold Rdiv. ring.
Qed.

(* ------------------------------------------------------------------ *)
(* 2. vect_to_params commutes with element-wise combination             *)
(*    (polymorphic: A, B, C arbitrary types, h arbitrary)               *)
(* ------------------------------------------------------------------ *)
Section Natural.
Context {A B C : Type}.
Variable h : A -> B -> C.

Lemma zipw_length : forall (a : list A) (b : list B), length a = length b -> length (zipw h a b) = length a.
Proof. induction a; intros [|y b] H; simpl in *; try discriminate; auto. Qed.

Lemma zipw_app : forall (a1 a2 : list A) (b1 b2 : list B), length a1 = length b1 ->
  zipw h (a1 ++ a2) (b1 ++ b2) = zipw h a1 b1 ++ zipw h a2 b2.
Proof. induction a1; intros a2 [|y b1] b2 H; simpl in *; try discriminate; auto. f_equal. auto. Qed.

Lemma zipw_repeat : forall a b n, zipw h (repeat a n) (repeat b n) = repeat (h a b) n.
Proof. induction n; simpl; auto. f_equal. auto. Qed.

Lemma set_idx_zipw : forall (c : list A) (d : list B) j a b c' d',
  set_idx c j a = Some c' -> set_idx d j b = Some d' ->
  set_idx (zipw h c d) j (h a b) = Some (zipw h c' d').
Proof.
  induction c as [|x c IH]; intros [|y d] [|j] a b c' d' H1 H2; simpl in *; try discriminate.
  - inversion H1; inversion H2; reflexivity.
  - destruct (set_idx c j a) as [c1|] eqn:E1; [|discriminate].
    destruct (set_idx d j b) as [d1|] eqn:E2; [|discriminate].
    simpl in H1, H2. inversion H1; inversion H2; subst.
    rewrite (IH d j a b c1 d1 E1 E2). reflexivity.
Qed.

Lemma set_group_zipw : forall g (c : list A) (d : list B) a b c' d',
  set_group c g a = Some c' -> set_group d g b = Some d' ->
  set_group (zipw h c d) g (h a b) = Some (zipw h c' d').
Proof.
  induction g as [|j g IH]; intros c d a b c' d' H1 H2; simpl in *.
  - inversion H1; inversion H2; reflexivity.
  - destruct (set_idx c j a) as [c1|] eqn:E1; [|discriminate].
    destruct (set_idx d j b) as [d1|] eqn:E2; [|discriminate].
    rewrite (set_idx_zipw c d j a b c1 d1 E1 E2). eauto.
Qed.

Lemma assign_groups_zipw : forall gt (c : list A) (d : list B) vs ws c' d',
  length vs = length ws ->
  assign_groups c gt vs = Some c' -> assign_groups d gt ws = Some d' ->
  assign_groups (zipw h c d) gt (zipw h vs ws) = Some (zipw h c' d').
Proof.
  induction gt as [|g gt IH]; intros c d vs ws c' d' HL H1 H2.
  - simpl in *. inversion H1; inversion H2. destruct (zipw h vs ws); reflexivity.
  - destruct vs as [|a vs], ws as [|b ws]; simpl in HL; try discriminate.
    + simpl in *. inversion H1; inversion H2. reflexivity.
    + simpl in H1, H2. cbn [zipw assign_groups].
      destruct (set_group c g a) as [c1|] eqn:E1; [|discriminate].
      destruct (set_group d g b) as [d1|] eqn:E2; [|discriminate].
      rewrite (set_group_zipw g c d a b c1 d1 E1 E2). apply IH; auto.
Qed.

(* one column: both unpackings succeed and so does the combined one, with the
   combined column *)
Lemma unpack_col_zipw : forall groups n mode (c0 : list A) (d0 : list B) v w r1 r2 r3,
  length c0 = n -> length d0 = n -> mode_wf groups n mode ->
  length v = packed_len_col groups n mode -> length w = packed_len_col groups n mode ->
  exists c d, unpack_col groups n mode (v ++ r1) c0 = Some (c, r1) /\
              unpack_col groups n mode (w ++ r2) d0 = Some (d, r2) /\
              unpack_col groups n mode (zipw h v w ++ r3) (zipw h c0 d0) = Some (zipw h c d, r3) /\
              length c = n /\ length d = n.
Proof.
  intros groups n mode c0 d0 v w r1 r2 r3 HC HD HW HV HVw.
  assert (HZ : length (zipw h v w) = length v) by (apply zipw_length; congruence).
  destruct mode as [|[|m]].
  - simpl in HV, HVw. destruct v; [|discriminate]. destruct w; [|discriminate].
    exists c0, d0. simpl. auto.
  - simpl in HV, HVw. exists v, w. simpl.
    rewrite (firstn_app_exact v r1 n HV), (skipn_app_exact v r1 n HV).
    rewrite (firstn_app_exact w r2 n HVw), (skipn_app_exact w r2 n HVw).
    rewrite (firstn_app_exact (zipw h v w) r3 n) by congruence.
    rewrite (skipn_app_exact (zipw h v w) r3 n) by congruence.
    unfold set_col. rewrite HV, HVw, HZ, HV, Nat.eqb_refl. auto.
  - unfold mode_wf in HW. unfold packed_len_col in HV, HVw. unfold unpack_col.
    destruct (select groups (S (S m))) as [|gt|] eqn:Hs; [| |contradiction].
    + destruct v as [|a [|? ?]]; try discriminate. destruct w as [|b [|? ?]]; try discriminate.
      exists (repeat a n), (repeat b n). cbn [zipw app]. rewrite zipw_repeat, !repeat_length. auto.
    + destruct HW as (HG & ND).
      rewrite (firstn_app_exact v r1 _ HV), (skipn_app_exact v r1 _ HV).
      rewrite (firstn_app_exact w r2 _ HVw), (skipn_app_exact w r2 _ HVw).
      rewrite (firstn_app_exact (zipw h v w) r3 (length gt)) by congruence.
      rewrite (skipn_app_exact (zipw h v w) r3 (length gt)) by congruence.
      destruct (assign_groups_disjoint n gt v c0 HG ND HC HV) as (c' & E1 & L1 & _ & _).
      destruct (assign_groups_disjoint n gt w d0 HG ND HD HVw) as (d' & E2 & L2 & _ & _).
      exists c', d'. rewrite E1, E2.
      rewrite (assign_groups_zipw gt c0 d0 v w c' d') by (auto; congruence). auto.
Qed.

Definition shape (n : nat) {T : Type} (cols : list (list T)) : Prop := List.Forall (fun c => length c = n) cols.

(* all columns *)
Theorem unpack_zipw : forall groups n modes (cs0 : list (list A)) (ds0 : list (list B)) v w r1 r2 r3,
  length modes = length cs0 -> length modes = length ds0 -> shape n cs0 -> shape n ds0 ->
  List.Forall (mode_wf groups n) modes ->
  length v = packed_len groups n modes -> length w = packed_len groups n modes ->
  exists P D, unpack groups n modes (v ++ r1) cs0 = Some (P, r1) /\
              unpack groups n modes (w ++ r2) ds0 = Some (D, r2) /\
              unpack groups n modes (zipw h v w ++ r3) (zipw (zipw h) cs0 ds0) = Some (zipw (zipw h) P D, r3) /\
              shape n P /\ shape n D /\ length P = length modes /\ length D = length modes.
Proof.
  intros groups n modes. induction modes as [|m ms IH]; intros cs0 ds0 v w r1 r2 r3 HLc HLd HSc HSd HW HV HVw.
  - destruct cs0; [|discriminate]. destruct ds0; [|discriminate]. simpl in HV, HVw.
    destruct v; [|discriminate]. destruct w; [|discriminate].
    exists [], []. simpl. repeat split; auto; constructor.
  - destruct cs0 as [|c0 cs0]; [discriminate|]. destruct ds0 as [|d0 ds0]; [discriminate|].
    inversion HSc as [|? ? HC HSc']; subst. inversion HSd as [|? ? HD HSd']; subst.
    inversion HW as [|? ? HWm HW']; subst.
    rewrite packed_len_cons in HV, HVw. set (k := packed_len_col groups (length c0) m) in *.
    assert (Ev : v = firstn k v ++ skipn k v) by (symmetry; apply firstn_skipn).
    assert (Ew : w = firstn k w ++ skipn k w) by (symmetry; apply firstn_skipn).
    assert (Hk : length (firstn k v) = k) by (rewrite firstn_length; lia).
    assert (Hkw : length (firstn k w) = k) by (rewrite firstn_length; lia).
    assert (Hk2 : length (skipn k v) = packed_len groups (length c0) ms) by (rewrite skipn_length; lia).
    assert (Hkw2 : length (skipn k w) = packed_len groups (length c0) ms) by (rewrite skipn_length; lia).
    destruct (unpack_col_zipw groups (length c0) m c0 d0 (firstn k v) (firstn k w)
                (skipn k v ++ r1) (skipn k w ++ r2) (zipw h (skipn k v) (skipn k w) ++ r3)
                eq_refl HD HWm Hk Hkw) as (c & d & U1 & U2 & U3 & Lc & Ld).
    destruct (IH cs0 ds0 (skipn k v) (skipn k w) r1 r2 r3 ltac:(simpl in HLc; lia) ltac:(simpl in HLd; lia)
                HSc' HSd' HW' Hk2 Hkw2) as (P & D & V1 & V2 & V3 & SP & SD & LP & LD).
    exists (c :: P), (d :: D).
    rewrite Ev, Ew.
    rewrite (zipw_app (firstn k v) (skipn k v) (firstn k w) (skipn k w)) by congruence.
    rewrite <- !app_assoc. cbn [unpack zipw]. rewrite U1, U2, U3, V1, V2, V3.
    repeat split; auto; try (constructor; auto); simpl; congruence.
Qed.

End Natural.
