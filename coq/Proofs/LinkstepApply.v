(* Gen/linkstep.py_Linker_apply_links (GENERATED from trackpy Linker.apply_links) against the
   hand-written models: label bookkeeping of Model/Link.v (source_of, lab_of, assign_labels)
   and the memory queue of Model/MemQueue.v (q_step).

   gen_apply_links_spec: on a link list (spl, dpl) without (None, None) pairs, with distinct
   destinations and in-range sources, the generated code terminates normally; every destination
   gets the track id of its source, or a fresh id (counter + rank among the births in the order
   of the list); the counter advances by the number of births; mem_set / mem_history are, as
   SETS of keys, those of q_step; forward_cands of the listed sources are emptied; nothing else
   changes.
   gen_apply_links_labels_sorted: when the births come in destination order, the ids read off
   in destination order are those of assign_labels. *)
From Coq Require Import ZArith List Bool Arith Lia Permutation Sorted.
From TP Require Import Model.Assign Model.Link Model.MemQueue Model.SubnetMerge Model.PyLinker
                       Model.PyLinkstep Gen.linkstep Proofs.MemQueue.
Import ListNotations.
Local Open Scope nat_scope.

Definition links_of (spl dpl : list (option nat)) : list link_t :=
  flat_map (fun sd : option nat * option nat =>
              match fst sd with Some s => [(s, (snd sd, 0%Z))] | None => [] end) (combine spl dpl).
Definition births (spl dpl : list (option nat)) : list nat :=
  flat_map (fun sd : option nat * option nat =>
              match sd with (None, Some d) => [d] | _ => [] end) (combine spl dpl).
(* position of the first occurrence *)
Fixpoint index_of (x : nat) (l : list nat) : nat :=
  match l with [] => 0 | y :: l' => if Nat.eqb x y then 0 else S (index_of x l') end.

(* the same on a list of pairs *)
Definition lnk (l : list (option nat * option nat)) : list link_t :=
  flat_map (fun sd : option nat * option nat =>
              match fst sd with Some s => [(s, (snd sd, 0%Z))] | None => [] end) l.
Definition brt (l : list (option nat * option nat)) : list nat :=
  flat_map (fun sd : option nat * option nat =>
              match sd with (None, Some d) => [d] | _ => [] end) l.

(* ---------- small facts ---------- *)
Lemma ofor_ext {A S V : Type} (b1 b2 : A -> S -> oc S V) :
  (forall x s, b1 x s = b2 x s) -> forall l s, ofor b1 l s = ofor b2 l s.
Proof.
  intros H. induction l as [|x l IH]; intros s; cbn [ofor]; [reflexivity|].
  rewrite H. destruct (b2 x s); auto.
Qed.

Lemma somes_in {A : Type} (x : A) l : In (Some x) l <-> In x (somes l).
Proof.
  induction l as [|[y|] l IH]; cbn [somes In]; [tauto| |].
  - rewrite <- IH. split; intros [E|H]; auto; left; congruence.
  - rewrite <- IH. split; [intros [E|H]; [discriminate|auto]|auto].
Qed.

Lemma combine_maps {A B : Type} : forall (a : list A) (b : list B), length a = length b ->
  map fst (combine a b) = a /\ map snd (combine a b) = b.
Proof.
  induction a as [|x a IH]; intros [|y b] H; cbn in *; try discriminate; [auto|].
  destruct (IH b) as [E1 E2]; [congruence|]. rewrite E1, E2. auto.
Qed.

Lemma pset_in_spec x s : pset_in x s = true <-> In (key_of x) (map key_of s).
Proof. unfold pset_in. apply mem_in_spec. Qed.

Lemma filter_keys kx s k :
  In k (map key_of (filter (fun y => negb (key_eqb kx (key_of y))) s)) <-> In k (map key_of s) /\ k <> kx.
Proof.
  rewrite !in_map_iff. split.
  - intros [y [E Hy]]. apply filter_In in Hy. destruct Hy as [Hy Hb]. split; [exists y; auto|].
    intros ->. apply negb_true_iff in Hb. assert (key_eqb kx (key_of y) = true) by (apply key_eqb_eq; auto). congruence.
  - intros [[y [E Hy]] Hne]. exists y. split; [exact E|]. apply filter_In. split; [exact Hy|].
    apply negb_true_iff. destruct (key_eqb kx (key_of y)) eqn:Eb; [|reflexivity].
    apply key_eqb_eq in Eb. congruence.
Qed.

Lemma pset_add_keys x s k : In k (map key_of (pset_add x s)) <-> In k (map key_of s) \/ k = key_of x.
Proof.
  unfold pset_add. destruct (pset_in x s) eqn:E.
  - apply pset_in_spec in E. split; [auto|]. intros [H| ->]; auto.
  - rewrite map_app, in_app_iff. cbn [map In]. split; intros [H|H]; auto.
    + destruct H as [H|[]]. auto.
Qed.

Lemma pset_minus_keys a b k : In k (map key_of (pset_minus a b)) <-> In k (map key_of a) /\ ~ In k (map key_of b).
Proof.
  unfold pset_minus. split.
  - intros H. apply in_map_iff in H. destruct H as [y [E Hy]].
    apply filter_In in Hy. destruct Hy as [Hy Hb]. split; [apply in_map_iff; exists y; auto|].
    intros Hk. subst k. apply pset_in_spec in Hk. rewrite Hk in Hb. discriminate.
  - intros [H Hn]. apply in_map_iff in H. destruct H as [y [E Hy]].
    apply in_map_iff. exists y. split; [exact E|]. apply filter_In. split; [exact Hy|].
    apply negb_true_iff. destruct (pset_in y b) eqn:Eb; [|reflexivity].
    apply pset_in_spec in Eb. subst k. contradiction.
Qed.

Lemma pset_union_keys a b k : In k (map key_of (pset_union a b)) <-> In k (map key_of a) \/ In k (map key_of b).
Proof.
  unfold pset_union. rewrite map_app, in_app_iff, pset_minus_keys. split; [tauto|].
  intros [A|B]; [tauto|]. destruct (mem_in k (map key_of a)) eqn:E.
  - left. apply mem_in_spec. exact E.
  - right. split; [exact B|]. intros H. apply mem_in_spec in H. congruence.
Qed.

(* ---------- one iteration of the loop, in closed form ---------- *)
Definition stepf (it : option nat * option nat) (st : lk * list src) : oc (lk * list src) unit :=
  let '(w, nms) := st in
  match it with
  | (Some s, Some d) =>
      match track_add_point w s d with
      | None => ORaise XException
      | Some w1 =>
        if mem_set_in w1 s
        then match mem_set_remove w1 s with
             | None => ORaise XKeyError
             | Some w2 => ONormal (set_forward_cands w2 s [], nms)
             end
        else ONormal (set_forward_cands w1 s [], nms)
      end
  | (Some s, None) => ONormal (set_forward_cands w s [], pset_add (src_at w s) nms)
  | (None, dp) =>
      match track_new w dp with None => ORaise XException | Some w1 => ONormal (w1, nms) end
  end.

(* what the loop leaves alone *)
Definition frame (w1 w : lk) : Prop :=
  k_srcs w1 = k_srcs w /\ k_dests w1 = k_dests w /\ k_now w1 = k_now w /\ k_mst w1 = k_mst w /\
  k_memory w1 = k_memory w /\ k_max_size w1 = k_max_size w /\ k_R2 w1 = k_R2 w /\
  k_includes_lost w1 = k_includes_lost w /\ k_mem_history w1 = k_mem_history w.
Lemma frame_refl w : frame w w.
Proof. unfold frame. repeat split. Qed.
Lemma frame_trans a b c : frame a b -> frame b c -> frame a c.
Proof. unfold frame. intuition congruence. Qed.

Ltac proj_simpl :=
  unfold set_forward_cands, set_fc, set_mem_set, set_dtrack, set_counter, set_mem_history in *;
  cbn [k_srcs k_dests k_now k_fc k_mst k_includes_lost k_dtrack k_mem_set k_mem_history k_memory
       k_counter k_max_size k_R2] in *.

Lemma step_SS w nms s d :
  alook d (k_dtrack w) = None ->
  exists w1, stepf (Some s, Some d) (w, nms) = ONormal (w1, nms) /\
    k_dtrack w1 = aset d (s_lab (src_at w s)) (k_dtrack w) /\
    k_counter w1 = k_counter w /\
    (forall k, In k (map key_of (k_mem_set w1)) <-> In k (map key_of (k_mem_set w)) /\ k <> key_of (src_at w s)) /\
    k_fc w1 = fset s [] (k_fc w) /\ frame w1 w.
Proof.
  intros H. unfold stepf, track_add_point. rewrite H.
  destruct (mem_set_in (set_dtrack w (aset d (s_lab (src_at w s)) (k_dtrack w))) s) eqn:E.
  - unfold mem_set_remove, pset_remove. unfold mem_set_in in E. rewrite E. cbn [option_map].
    eexists. split; [reflexivity|]. unfold src_at, frame in *. proj_simpl.
    split; [reflexivity|]. split; [reflexivity|]. split; [intros k; apply filter_keys|].
    split; [reflexivity|]. repeat split.
  - eexists. split; [reflexivity|]. unfold mem_set_in, src_at, frame in *. proj_simpl.
    split; [reflexivity|]. split; [reflexivity|]. split; [|split; [reflexivity|repeat split]].
    intros k. split; [|tauto]. intros Hk. split; [exact Hk|].
    intros Ek. subst k. apply pset_in_spec in Hk. congruence.
Qed.

Lemma step_NS w nms d :
  alook d (k_dtrack w) = None ->
  exists w1, stepf (None, Some d) (w, nms) = ONormal (w1, nms) /\
    k_dtrack w1 = aset d (k_counter w) (k_dtrack w) /\
    k_counter w1 = S (k_counter w) /\ k_mem_set w1 = k_mem_set w /\
    k_fc w1 = k_fc w /\ frame w1 w.
Proof.
  intros H. unfold stepf, track_new. rewrite H. eexists. split; [reflexivity|].
  unfold frame. proj_simpl. repeat split; reflexivity.
Qed.

(* ---------- links / births of a list of pairs ---------- *)
Definition sat (srcs : list src) (i : nat) : src := nth i srcs dummy_src.
Lemma src_at_sat w srcs s : k_srcs w = srcs -> src_at w s = sat srcs s.
Proof. intros <-. reflexivity. Qed.

Lemma lnk_cons sp dp l :
  lnk ((sp, dp) :: l) = match sp with Some s => (s, (dp, 0%Z)) :: lnk l | None => lnk l end.
Proof. unfold lnk. cbn [flat_map fst snd]. destruct sp; reflexivity. Qed.
Lemma brt_cons sp dp l :
  brt ((sp, dp) :: l) = match sp, dp with None, Some d => d :: brt l | _, _ => brt l end.
Proof. unfold brt. cbn [flat_map]. destruct sp, dp; reflexivity. Qed.

Lemma source_of_lnk_in l j i : source_of (lnk l) j = Some i -> In (Some i, Some j) l.
Proof.
  induction l as [|[sp dp] l IH]; [discriminate|]. rewrite lnk_cons.
  destruct sp as [s|]; [|intros H; right; auto].
  destruct dp as [d|]; cbn [source_of]; [|intros H; right; auto].
  destruct (Nat.eqb_spec d j) as [->|Hne]; [intros E; inversion E; left; reflexivity|intros H; right; auto].
Qed.
Lemma source_of_lnk_none l j : source_of (lnk l) j = None -> forall i, ~ In (Some i, Some j) l.
Proof.
  induction l as [|[sp dp] l IH]; [intros _ i []|]. rewrite lnk_cons.
  destruct sp as [s|].
  - destruct dp as [d|]; cbn [source_of].
    + destruct (Nat.eqb_spec d j) as [->|Hne]; [discriminate|].
      intros H i [E|Hin]; [inversion E; congruence|exact (IH H i Hin)].
    + intros H i [E|Hin]; [discriminate|exact (IH H i Hin)].
  - intros H i [E|Hin]; [discriminate|exact (IH H i Hin)].
Qed.
Lemma in_brt l j : In j (brt l) <-> In (None, Some j) l.
Proof.
  induction l as [|[sp dp] l IH]; [cbn; tauto|]. rewrite brt_cons. cbn [In].
  destruct sp as [s|]; [rewrite IH; split; [auto|intros [E|H]; [discriminate|auto]]|].
  destruct dp as [d|]; cbn [In]; rewrite IH.
  - split; intros [E|H]; auto; left; congruence.
  - split; [auto|intros [E|H]; [discriminate|auto]].
Qed.
Lemma in_lnk l i dp c : In (i, (dp, c)) (lnk l) <-> In (Some i, dp) l /\ c = 0%Z.
Proof.
  induction l as [|[sp dp0] l IH]; [cbn; tauto|]. rewrite lnk_cons. cbn [In].
  destruct sp as [s|]; cbn [In]; rewrite IH.
  - split.
    + intros [E|[H1 H2]]; [inversion E; subst; auto|auto].
    + intros [[E|H1] H2]; [inversion E; subst; auto|auto].
  - split; [intros [H1 H2]; auto|intros [[E|H1] H2]; [discriminate|auto]].
Qed.
Lemma in_pair_somes (l : list (option nat * option nat)) s dp :
  In (Some s, dp) l -> In s (somes (map fst l)).
Proof. intros H. apply somes_in. apply (in_map fst) in H. exact H. Qed.
Lemma in_pair_somes_snd (l : list (option nat * option nat)) sp d :
  In (sp, Some d) l -> In d (somes (map snd l)).
Proof. intros H. apply somes_in. apply (in_map snd) in H. exact H. Qed.

(* ---------- the loop ---------- *)
Definition loop_post (srcs : list src) (l : list (option nat * option nat))
           (w : lk) (nms : list src) (w' : lk) (nms' : list src) : Prop :=
  k_counter w' = k_counter w + length (brt l) /\
  (forall j, In j (somes (map snd l)) ->
     alook j (k_dtrack w') = Some (match source_of (lnk l) j with
                                   | Some i => s_lab (sat srcs i)
                                   | None => k_counter w + index_of j (brt l) end)) /\
  (forall j, ~ In j (somes (map snd l)) -> alook j (k_dtrack w') = alook j (k_dtrack w)) /\
  (forall k, In k (map key_of (k_mem_set w')) <->
             In k (map key_of (k_mem_set w)) /\
             ~ (exists s d, In (Some s, Some d) l /\ key_of (sat srcs s) = k)) /\
  (forall k, In k (map key_of nms') <->
             In k (map key_of nms) \/ (exists s, In (Some s, None) l /\ key_of (sat srcs s) = k)) /\
  (forall p, fget p (k_fc w') = if existsb (Nat.eqb p) (somes (map fst l)) then [] else fget p (k_fc w)) /\
  frame w' w.

Lemma loop_spec srcs : forall l w nms,
  k_srcs w = srcs ->
  (forall sd, In sd l -> sd <> (None, None)) ->
  NoDup (somes (map snd l)) ->
  (forall d, In d (somes (map snd l)) -> alook d (k_dtrack w) = None) ->
  exists w' nms', ofor stepf l (w, nms) = ONormal (w', nms') /\ loop_post srcs l w nms w' nms'.
Proof.
  induction l as [|[sp dp] l IH]; intros w nms Hs Hnn Hnd Hfree.
  - exists w, nms. split; [reflexivity|]. unfold loop_post. cbn [brt lnk flat_map map somes length existsb In].
    split; [lia|]. split; [intros j []|]. split; [reflexivity|].
    split; [intros k; split; [intros H; split; [exact H|intros (s & d & [] & _)]|tauto]|].
    split; [intros k; split; [auto|intros [H|(s & [] & _)]; exact H]|].
    split; [reflexivity|apply frame_refl].
  - assert (Hnn' : forall sd, In sd l -> sd <> (None, None)) by (intros sd H; apply Hnn; right; exact H).
    destruct sp as [s|]; destruct dp as [d|].
    + (* a link *)
      cbn [map fst snd somes] in Hnd, Hfree. apply NoDup_cons_iff in Hnd. destruct Hnd as [Hd Hnd].
      destruct (step_SS w nms s d (Hfree d (or_introl eq_refl)))
        as (w1 & Hstep & Hdt1 & Hc1 & Hms1 & Hfc1 & Hfr1).
      rewrite (src_at_sat _ _ _ Hs) in Hdt1, Hms1.
      assert (Hs1 : k_srcs w1 = srcs) by (rewrite (proj1 Hfr1); exact Hs).
      destruct (IH w1 nms Hs1 Hnn' Hnd) as (w' & nms' & Hrun & Hc & Hin & Hnin & Hms & Hnm & Hfc & Hfr).
      { intros d' Hd'. rewrite Hdt1. cbn [alook aset].
        destruct (Nat.eqb_spec d' d) as [->|Hne]; [contradiction|]. apply Hfree. right. exact Hd'. }
      exists w', nms'. split; [cbn [ofor]; rewrite Hstep; exact Hrun|].
      unfold loop_post. rewrite lnk_cons, brt_cons. cbn [map fst snd somes].
      split; [rewrite Hc, Hc1; reflexivity|].
      split.
      { intros j Hj. cbn [source_of]. destruct (Nat.eqb_spec d j) as [->|Hne].
        - rewrite (Hnin j Hd), Hdt1. cbn [alook aset]. rewrite Nat.eqb_refl. reflexivity.
        - destruct Hj as [E|Hj]; [congruence|]. rewrite (Hin j Hj), Hc1. reflexivity. }
      split.
      { intros j Hj. cbn [In] in Hj. rewrite Hnin by tauto. rewrite Hdt1. cbn [alook aset].
        destruct (Nat.eqb_spec j d) as [->|Hne]; [tauto|reflexivity]. }
      split.
      { intros k. rewrite Hms, Hms1. split.
        - intros [[A B] C]. split; [exact A|]. intros (s' & d' & [E|I] & K).
          + inversion E; subst. apply B. reflexivity.
          + apply C. exists s', d'. auto.
        - intros [A B]. split; [split; [exact A|]|].
          + intros E. apply B. exists s, d. split; [left; reflexivity|auto].
          + intros (s' & d' & I & K). apply B. exists s', d'. split; [right; exact I|exact K]. }
      split.
      { intros k. rewrite Hnm. split; (intros [A|(s' & I & K)]; [left; exact A|right; exists s'; split; [|exact K]]).
        - right. exact I.
        - destruct I as [E|I]; [discriminate|exact I]. }
      split.
      { intros p. rewrite Hfc, Hfc1. cbn [fget fset existsb].
        destruct (Nat.eqb p s); cbn [orb]; [destruct (existsb _ _); reflexivity|reflexivity]. }
      exact (frame_trans _ _ _ Hfr Hfr1).
    + (* an unmatched source *)
      cbn [map fst snd somes] in Hnd, Hfree.
      set (w1 := set_forward_cands w s []).
      assert (Hs1 : k_srcs w1 = srcs) by exact Hs.
      destruct (IH w1 (pset_add (src_at w s) nms) Hs1 Hnn' Hnd Hfree)
        as (w' & nms' & Hrun & Hc & Hin & Hnin & Hms & Hnm & Hfc & Hfr).
      exists w', nms'. split; [cbn [ofor stepf]; exact Hrun|].
      rewrite (src_at_sat _ _ _ Hs) in Hnm.
      unfold loop_post. rewrite lnk_cons, brt_cons. cbn [map fst snd somes].
      split; [exact Hc|].
      split; [intros j Hj; cbn [source_of]; exact (Hin j Hj)|].
      split; [exact Hnin|].
      split.
      { intros k. rewrite Hms. change (k_mem_set w1) with (k_mem_set w). split; (intros [A B]; split; [exact A|]).
        - intros (s' & d' & [E|I] & K); [discriminate|]. apply B. exists s', d'. auto.
        - intros (s' & d' & I & K). apply B. exists s', d'. split; [right; exact I|exact K]. }
      split.
      { intros k. rewrite Hnm, pset_add_keys. split.
        - intros [[A|E]|(s' & I & K)]; [left; exact A| |].
          + right. exists s. split; [left; reflexivity|auto].
          + right. exists s'. split; [right; exact I|exact K].
        - intros [A|(s' & [E|I] & K)]; [left; left; exact A| |].
          + inversion E; subst. left. right. reflexivity.
          + right. exists s'. auto. }
      split.
      { intros p. rewrite Hfc. change (k_fc w1) with (fset s [] (k_fc w)). cbn [fget fset existsb].
        destruct (Nat.eqb p s); cbn [orb]; [destruct (existsb _ _); reflexivity|reflexivity]. }
      exact Hfr.
    + (* a birth *)
      cbn [map fst snd somes] in Hnd, Hfree. apply NoDup_cons_iff in Hnd. destruct Hnd as [Hd Hnd].
      destruct (step_NS w nms d (Hfree d (or_introl eq_refl)))
        as (w1 & Hstep & Hdt1 & Hc1 & Hms1 & Hfc1 & Hfr1).
      assert (Hs1 : k_srcs w1 = srcs) by (rewrite (proj1 Hfr1); exact Hs).
      destruct (IH w1 nms Hs1 Hnn' Hnd) as (w' & nms' & Hrun & Hc & Hin & Hnin & Hms & Hnm & Hfc & Hfr).
      { intros d' Hd'. rewrite Hdt1. cbn [alook aset].
        destruct (Nat.eqb_spec d' d) as [->|Hne]; [contradiction|]. apply Hfree. right. exact Hd'. }
      exists w', nms'. split; [cbn [ofor]; rewrite Hstep; exact Hrun|].
      unfold loop_post. rewrite lnk_cons, brt_cons. cbn [map fst snd somes].
      split; [rewrite Hc, Hc1; cbn [length]; lia|].
      split.
      { intros j Hj. cbn [index_of]. destruct (Nat.eqb_spec j d) as [->|Hne].
        - rewrite (Hnin d Hd), Hdt1. cbn [alook aset]. rewrite Nat.eqb_refl.
          destruct (source_of (lnk l) d) as [i|] eqn:Eso.
          + exfalso. apply Hd. eapply in_pair_somes_snd. apply source_of_lnk_in. exact Eso.
          + rewrite Nat.add_0_r. reflexivity.
        - destruct Hj as [E|Hj]; [congruence|]. rewrite (Hin j Hj), Hc1.
          destruct (source_of (lnk l) j); [reflexivity|]. f_equal. lia. }
      split.
      { intros j Hj. cbn [In] in Hj. rewrite Hnin by tauto. rewrite Hdt1. cbn [alook aset].
        destruct (Nat.eqb_spec j d) as [->|Hne]; [tauto|reflexivity]. }
      split.
      { intros k. rewrite Hms, Hms1. split; (intros [A B]; split; [exact A|]).
        - intros (s' & d' & [E|I] & K); [discriminate|]. apply B. exists s', d'. auto.
        - intros (s' & d' & I & K). apply B. exists s', d'. split; [right; exact I|exact K]. }
      split.
      { intros k. rewrite Hnm. split; (intros [A|(s' & I & K)]; [left; exact A|right; exists s'; split; [|exact K]]).
        - right. exact I.
        - destruct I as [E|I]; [discriminate|exact I]. }
      split; [intros p; rewrite Hfc, Hfc1; reflexivity|].
      exact (frame_trans _ _ _ Hfr Hfr1).
    + exfalso. apply (Hnn (None, None)); [left; reflexivity|reflexivity].
Qed.

(* ---------- the generated function: loop, then the memory queue ---------- *)
Definition final_of (w1 : lk) (nms1 : list src) : fres lk unit :=
  if 0 <? k_memory w1 then
    let new := pset_minus nms1 (k_mem_set w1) in
    match k_mem_history w1 ++ [new] with
    | [] => FFail XIndexError
    | h :: r =>
      let w2 := set_mem_history (set_mem_history w1 (k_mem_history w1 ++ [new])) r in
      let w3 := set_mem_set w2 (pset_minus (k_mem_set w2) h) in
      FDone (set_mem_set w3 (pset_union (k_mem_set w3) new)) tt
    end
  else FDone w1 tt.

Lemma py_run w spl dpl w1 nms1 :
  ofor stepf (combine spl dpl) (w, []) = ONormal (w1, nms1) ->
  py_Linker_apply_links w spl dpl = final_of w1 nms1.
Proof.
  intros Hrun. unfold py_Linker_apply_links.
  match goal with |- context [ofor ?b _ _] => rewrite (ofor_ext b stepf) end.
  - rewrite Hrun. cbn [obind]. unfold final_of.
    destruct (0 <? k_memory w1); [|reflexivity].
    unfold history_pop0. cbn [k_mem_history set_mem_history].
    destruct (k_mem_history w1 ++ [pset_minus nms1 (k_mem_set w1)]); reflexivity.
  - intros [sp dp] [w0 n0]. unfold stepf. cbn [fst snd].
    destruct sp as [s|], dp as [d|]; cbn [obind].
    + destruct (track_add_point w0 s d) as [w3|]; [|reflexivity].
      destruct (mem_set_in w3 s); [|reflexivity].
      destruct (mem_set_remove w3 s); reflexivity.
    + reflexivity.
    + destruct (track_new w0 (Some d)); reflexivity.
    + destruct (track_new w0 None); reflexivity.
Qed.

(* ---------- the generated sets and the sets of q_step ---------- *)
Lemma linked_bridge srcs l k :
  (forall s, In s (somes (map fst l)) -> s < length srcs) ->
  ((exists s d, In (Some s, Some d) l /\ key_of (sat srcs s) = k) <->
   In k (keys_where (linked_b (lnk l)) 0 srcs)).
Proof.
  intros Hr. rewrite keys_where_spec. cbn [Nat.add]. split.
  - intros (s & d & Hin & E). exists s, (sat srcs s).
    split; [apply nth_error_nth'; apply Hr; eapply in_pair_somes; exact Hin|].
    split; [|auto]. apply linked_b_spec. exists d, 0%Z. apply in_lnk. auto.
  - intros (j & s0 & Hn & Hl & E). apply linked_b_spec in Hl. destruct Hl as (d & c & Hl).
    apply in_lnk in Hl. exists j, d. split; [tauto|]. unfold sat. rewrite (nth_error_nth _ _ _ Hn). auto.
Qed.
Lemma unlinked_bridge srcs l k :
  (forall s, In s (somes (map fst l)) -> s < length srcs) ->
  ((exists s, In (Some s, None) l /\ key_of (sat srcs s) = k) <->
   In k (keys_where (unlinked_b (lnk l)) 0 srcs)).
Proof.
  intros Hr. rewrite keys_where_spec. cbn [Nat.add]. split.
  - intros (s & Hin & E). exists s, (sat srcs s).
    split; [apply nth_error_nth'; apply Hr; eapply in_pair_somes; exact Hin|].
    split; [|auto]. apply unlinked_b_spec. exists 0%Z. apply in_lnk. auto.
  - intros (j & s0 & Hn & Hl & E). apply unlinked_b_spec in Hl. destruct Hl as (c & Hl).
    apply in_lnk in Hl. exists j. split; [tauto|]. unfold sat. rewrite (nth_error_nth _ _ _ Hn). auto.
Qed.

Lemma lab_of_sat st i : s_lab (sat (live st) i) = lab_of st i.
Proof.
  unfold lab_of, sat. destruct (nth_error (live st) i) eqn:E.
  - rewrite (nth_error_nth _ _ _ E). reflexivity.
  - apply nth_error_None in E. rewrite nth_overflow by lia. reflexivity.
Qed.

Lemma Forall2_keys_refl (r : list (list src)) :
  Forall2 (fun (a : list src) (b : list Model.MemQueue.key) => forall k, In k (map key_of a) <-> In k b)
          r (map (map key_of) r).
Proof. induction r; cbn [map]; constructor; [tauto|assumption]. Qed.

Theorem gen_apply_links_spec : forall (w : lk) (spl dpl : list (option nat)) (st : lstate) (q : qstate),
  k_srcs w = live st -> k_dtrack w = [] ->
  q_mem q = map key_of (k_mem_set w) -> q_hist q = map (map key_of) (k_mem_history w) ->
  (k_memory w <= length (k_mem_history w))%nat ->
  length spl = length dpl ->
  (forall sd, In sd (combine spl dpl) -> sd <> (None, None)) ->
  NoDup (somes spl) -> (forall s, In s (somes spl) -> (s < length (live st))%nat) ->
  NoDup (somes dpl) ->
  NoDup (map key_of (live st)) ->
  exists w', py_Linker_apply_links w spl dpl = FDone w' tt /\
    k_counter w' = (k_counter w + length (births spl dpl))%nat /\
    (forall j, In j (somes dpl) ->
       alook j (k_dtrack w') = Some (match source_of (links_of spl dpl) j with
                                     | Some i => lab_of st i
                                     | None => (k_counter w + index_of j (births spl dpl))%nat end)) /\
    (forall j, ~ In j (somes dpl) -> alook j (k_dtrack w') = None) /\
    (forall k, In k (map key_of (k_mem_set w')) <-> In k (q_mem (q_step (k_memory w) (live st) (links_of spl dpl) q))) /\
    Forall2 (fun (a : list src) (b : list Model.MemQueue.key) => forall k, In k (map key_of a) <-> In k b)
            (k_mem_history w') (q_hist (q_step (k_memory w) (live st) (links_of spl dpl) q)) /\
    (forall p, get_forward_cands w' p = if existsb (Nat.eqb p) (somes spl) then [] else get_forward_cands w p) /\
    k_srcs w' = k_srcs w /\ k_dests w' = k_dests w /\ k_now w' = k_now w /\ k_mst w' = k_mst w /\
    k_memory w' = k_memory w /\ k_max_size w' = k_max_size w /\ k_R2 w' = k_R2 w /\ k_includes_lost w' = k_includes_lost w.
Proof.
  intros w spl dpl st q Hsrcs Hdt Hqm Hqh Hmemlen Hlen Hnn _ Hrange Hndd _.
  change (links_of spl dpl) with (lnk (combine spl dpl)).
  change (births spl dpl) with (brt (combine spl dpl)).
  destruct (combine_maps spl dpl Hlen) as [Efst Esnd].
  set (l := combine spl dpl) in *.
  assert (Hndd' : NoDup (somes (map snd l))) by (rewrite Esnd; exact Hndd).
  assert (Hrange' : forall s, In s (somes (map fst l)) -> s < length (live st)) by (rewrite Efst; exact Hrange).
  destruct (loop_spec (live st) l w [] Hsrcs Hnn Hndd')
    as (w1 & nms1 & Hrun & Hc & Hin & Hnin & Hms & Hnm & Hfc & Hfr).
  { intros d _. rewrite Hdt. reflexivity. }
  rewrite Esnd in Hin, Hnin. rewrite Efst in Hfc.
  destruct Hfr as (F1 & F2 & F3 & F4 & F5 & F6 & F7 & F8 & F9).
  (* the sets after the loop, against the first half of q_step *)
  assert (Hmem1 : forall k, In k (map key_of (k_mem_set w1)) <->
                            In k (minus (q_mem q) (keys_where (linked_b (lnk l)) 0 (live st)))).
  { intros k. rewrite Hms, minus_spec, Hqm, (linked_bridge (live st) l k Hrange'). tauto. }
  assert (Hnew : forall k, In k (map key_of (pset_minus nms1 (k_mem_set w1))) <->
                           In k (minus (keys_where (unlinked_b (lnk l)) 0 (live st))
                                       (minus (q_mem q) (keys_where (linked_b (lnk l)) 0 (live st))))).
  { intros k. rewrite pset_minus_keys, minus_spec, Hnm, Hmem1, (unlinked_bridge (live st) l k Hrange').
    cbn [map In]. tauto. }
  assert (Hlab : forall j, In j (somes dpl) ->
            alook j (k_dtrack w1) = Some (match source_of (lnk l) j with
                                          | Some i => lab_of st i
                                          | None => k_counter w + index_of j (brt l) end)).
  { intros j Hj. rewrite (Hin j Hj). destruct (source_of (lnk l) j); [rewrite lab_of_sat|]; reflexivity. }
  assert (Hnone : forall j, ~ In j (somes dpl) -> alook j (k_dtrack w1) = None).
  { intros j Hj. rewrite (Hnin j Hj), Hdt. reflexivity. }
  rewrite (py_run _ _ _ _ _ Hrun). unfold final_of. rewrite F5.
  unfold q_step. destruct (k_memory w) as [|m] eqn:Em.
  - (* memory = 0 *)
    cbn [Nat.ltb Nat.leb]. exists w1. split; [reflexivity|]. cbn [q_mem q_hist].
    split; [exact Hc|]. split; [exact Hlab|]. split; [exact Hnone|]. split; [exact Hmem1|].
    split; [rewrite F9, Hqh; apply Forall2_keys_refl|].
    split; [exact Hfc|]. repeat split; assumption.
  - (* memory > 0: the history is not empty *)
    cbn [Nat.ltb Nat.leb]. rewrite F9.
    destruct (k_mem_history w) as [|h r] eqn:Eh; [cbn [length] in Hmemlen; lia|].
    cbn [app]. eexists. split; [reflexivity|]. rewrite Hqh. cbn [map app hd tl q_mem q_hist].
    proj_simpl.
    split; [exact Hc|]. split; [exact Hlab|]. split; [exact Hnone|].
    split.
    { intros k. rewrite pset_union_keys, in_app_iff, minus_spec, pset_minus_keys, Hmem1, Hnew. tauto. }
    split.
    { apply Forall2_app; [apply Forall2_keys_refl|]. constructor; [exact Hnew|constructor]. }
    split; [exact Hfc|]. repeat split; assumption.
Qed.

(* ---------- births in destination order: the ids are those of assign_labels ---------- *)
Lemma track_ids_map m (f : nat -> nat) : forall l,
  (forall j, In j l -> alook j m = Some (f j)) -> track_ids m l = Some (map f l).
Proof.
  induction l as [|d l IH]; intros H; [reflexivity|]. cbn [track_ids map].
  rewrite (H d (or_introl eq_refl)), IH; [reflexivity|]. intros j Hj. apply H. right. exact Hj.
Qed.

Lemma assign_labels_closed st links : forall nd j0 B fresh,
  StronglySorted lt B ->
  (forall b, In b B -> j0 <= b < j0 + nd) ->
  (forall j, j0 <= j < j0 + nd -> (source_of links j = None <-> In j B)) ->
  assign_labels st links nd j0 fresh =
    (map (fun j => match source_of links j with
                   | Some i => lab_of st i
                   | None => fresh + index_of j B end) (seq j0 nd),
     fresh + length B).
Proof.
  induction nd as [|nd IH]; intros j0 B fresh Hs Hb Hiff.
  - destruct B as [|b B]; [cbn; f_equal; lia|]. exfalso. specialize (Hb b (or_introl eq_refl)). lia.
  - cbn [assign_labels seq map]. destruct (source_of links j0) as [i|] eqn:E.
    + rewrite (IH (S j0) B fresh Hs); [reflexivity| |].
      * intros b Hin. specialize (Hb b Hin). assert (b <> j0); [|lia].
        intros ->. apply (Hiff j0) in Hin; [congruence|lia].
      * intros j Hj. apply Hiff. lia.
    + assert (Hj0 : In j0 B) by (apply Hiff; [lia|exact E]).
      destruct B as [|b0 B']; [destruct Hj0|].
      apply StronglySorted_inv in Hs. destruct Hs as [Hs Hall].
      rewrite Forall_forall in Hall.
      assert (b0 = j0).
      { destruct Hj0 as [E0|Hin]; [exact E0|]. specialize (Hall j0 Hin).
        specialize (Hb b0 (or_introl eq_refl)). lia. }
      subst b0.
      rewrite (IH (S j0) B' (S fresh) Hs).
      * cbn [index_of length]. rewrite Nat.eqb_refl. f_equal; [|lia]. f_equal; [lia|].
        apply map_ext_in. intros j Hj. apply in_seq in Hj.
        destruct (source_of links j); [reflexivity|].
        destruct (Nat.eqb_spec j j0); lia.
      * intros b Hin. specialize (Hall b Hin). specialize (Hb b (or_intror Hin)). lia.
      * intros j Hj. rewrite Hiff by lia. cbn [In]. split; [intros [E0|H]; [lia|exact H]|auto].
Qed.

Lemma same_dest_same_source : forall (l : list (option nat * option nat)) a b j,
  NoDup (somes (map snd l)) -> In (a, Some j) l -> In (b, Some j) l -> a = b.
Proof.
  induction l as [|[sp dp] l IH]; intros a b j Hnd Ha Hb; [destruct Ha|].
  cbn [map snd somes] in Hnd.
  destruct Ha as [Ea|Ha], Hb as [Eb|Hb].
  - congruence.
  - inversion Ea; subst. cbn [somes] in Hnd. apply NoDup_cons_iff in Hnd.
    exfalso. apply (proj1 Hnd). eapply in_pair_somes_snd. exact Hb.
  - inversion Eb; subst. cbn [somes] in Hnd. apply NoDup_cons_iff in Hnd.
    exfalso. apply (proj1 Hnd). eapply in_pair_somes_snd. exact Ha.
  - destruct dp; [apply NoDup_cons_iff in Hnd; destruct Hnd as [_ Hnd]|]; eapply IH; eauto.
Qed.

Lemma births_iff (l : list (option nat * option nat)) j :
  NoDup (somes (map snd l)) -> In j (somes (map snd l)) ->
  (source_of (lnk l) j = None <-> In j (brt l)).
Proof.
  intros Hnd Hj. rewrite in_brt. split.
  - intros Hso. apply somes_in in Hj. apply in_map_iff in Hj. destruct Hj as [[sp dp] [E Hin]].
    cbn [snd] in E. subst dp. destruct sp as [i|]; [|exact Hin].
    exfalso. exact (source_of_lnk_none l j Hso i Hin).
  - intros Hin. destruct (source_of (lnk l) j) as [i|] eqn:Eso; [|reflexivity].
    apply source_of_lnk_in in Eso. pose proof (same_dest_same_source l _ _ j Hnd Eso Hin). discriminate.
Qed.

Theorem gen_apply_links_labels_sorted : forall (w : lk) (spl dpl : list (option nat)) (st : lstate) (q : qstate) (nd : nat),
  k_srcs w = live st -> k_dtrack w = [] ->
  q_mem q = map key_of (k_mem_set w) -> q_hist q = map (map key_of) (k_mem_history w) ->
  (k_memory w <= length (k_mem_history w))%nat ->
  length spl = length dpl ->
  (forall sd, In sd (combine spl dpl) -> sd <> (None, None)) ->
  NoDup (somes spl) -> (forall s, In s (somes spl) -> (s < length (live st))%nat) ->
  NoDup (somes dpl) ->
  NoDup (map key_of (live st)) ->
  Permutation (somes dpl) (seq 0 nd) ->
  Sorted lt (births spl dpl) ->
  exists w', py_Linker_apply_links w spl dpl = FDone w' tt /\
    track_ids (k_dtrack w') (seq 0 nd) = Some (fst (assign_labels st (links_of spl dpl) nd 0 (k_counter w))) /\
    k_counter w' = snd (assign_labels st (links_of spl dpl) nd 0 (k_counter w)).
Proof.
  intros w spl dpl st q nd H1 H2 H3 H4 H5 Hlen H7 H8 H9 Hndd H11 Hperm Hsort.
  destruct (gen_apply_links_spec w spl dpl st q H1 H2 H3 H4 H5 Hlen H7 H8 H9 Hndd H11)
    as (w' & Hrun & Hc & Hin & _).
  exists w'. split; [exact Hrun|].
  destruct (combine_maps spl dpl Hlen) as [_ Esnd].
  assert (Hdest : forall j, In j (somes dpl) <-> j < nd).
  { intros j. split; intros H.
    - apply (Permutation_in _ Hperm) in H. apply in_seq in H. lia.
    - apply (Permutation_in _ (Permutation_sym Hperm)). apply in_seq. lia. }
  rewrite (assign_labels_closed st (links_of spl dpl) nd 0 (births spl dpl) (k_counter w)).
  - cbn [fst snd]. split; [|exact Hc]. apply track_ids_map.
    intros j Hj. apply in_seq in Hj. apply Hin. apply Hdest. lia.
  - apply Sorted_StronglySorted; [|exact Hsort]. intros a b c; apply Nat.lt_trans.
  - intros b Hb. cut (b < nd); [lia|]. apply Hdest.
    change (births spl dpl) with (brt (combine spl dpl)) in Hb. apply in_brt in Hb.
    rewrite <- Esnd. eapply in_pair_somes_snd. exact Hb.
  - intros j Hj. change (links_of spl dpl) with (lnk (combine spl dpl)).
    change (births spl dpl) with (brt (combine spl dpl)).
    apply births_iff; rewrite Esnd; [exact Hndd|]. apply Hdest. lia.
Qed.

(* ---------- the hypotheses are satisfiable (a link, a birth, an unmatched source, a remembered
   source that is linked again; memory = 2) ---------- *)
Definition ex_s0 : src := {| s_lab := 5; s_pos := [0%Z]; s_seen := 3 |}.
Definition ex_s1 : src := {| s_lab := 7; s_pos := [9%Z]; s_seen := 3 |}.
Definition ex_s2 : src := {| s_lab := 2; s_pos := [4%Z]; s_seen := 1 |}.
Definition ex_w : lk :=
  mk_lk [ex_s0; ex_s1; ex_s2] [[1%Z]; [2%Z]; [3%Z]] 4 [(0, [(Some 1, 1%Z)])]
        {| subs := []; ssub := []; dsub := [] |} false [] [ex_s2] [[ex_s2]; []] 2 10 30 25%Z.
Definition ex_spl : list (option nat) := [Some 0; None; Some 1; Some 2].
Definition ex_dpl : list (option nat) := [Some 1; Some 0; None; Some 2].
Definition ex_st : lstate := {| live := [ex_s0; ex_s1; ex_s2]; now := 4; next_id := 10 |}.
Definition ex_q : qstate := {| q_mem := [(2, 1)]; q_hist := [[(2, 1)]; []] |}.

Example gen_apply_links_hyps_satisfiable :
  k_srcs ex_w = live ex_st /\ k_dtrack ex_w = [] /\
  q_mem ex_q = map key_of (k_mem_set ex_w) /\ q_hist ex_q = map (map key_of) (k_mem_history ex_w) /\
  (k_memory ex_w <= length (k_mem_history ex_w))%nat /\
  length ex_spl = length ex_dpl /\
  (forall sd, In sd (combine ex_spl ex_dpl) -> sd <> (None, None)) /\
  NoDup (somes ex_spl) /\ (forall s, In s (somes ex_spl) -> (s < length (live ex_st))%nat) /\
  NoDup (somes ex_dpl) /\
  NoDup (map key_of (live ex_st)) /\
  Permutation (somes ex_dpl) (seq 0 3) /\
  Sorted lt (births ex_spl ex_dpl).
Proof.
  repeat match goal with |- _ /\ _ => split end; try reflexivity.
  - cbn. intros sd H. repeat (destruct H as [<-|H]; [discriminate|]). destruct H.
  - cbn. repeat constructor; cbn; intuition discriminate.
  - cbn. intros s H. repeat (destruct H as [<-|H]; [lia|]). destruct H.
  - cbn. repeat constructor; cbn; intuition discriminate.
  - cbn. repeat constructor; cbn; intuition discriminate.
  - cbn. apply perm_swap.
  - cbn. repeat constructor.
Qed.
Example gen_apply_links_example_run :
  match py_Linker_apply_links ex_w ex_spl ex_dpl with
  | FDone w' _ => track_ids (k_dtrack w') [0; 1; 2] = Some [10; 5; 2] /\ k_counter w' = 11 /\
                  map key_of (k_mem_set w') = [(7, 3)] /\
                  map (map key_of) (k_mem_history w') = [[]; [(7, 3)]]
  | FFail _ => False
  end.
Proof. vm_compute. repeat split. Qed.

Print Assumptions gen_apply_links_spec.
Print Assumptions gen_apply_links_labels_sorted.
