(* Route T for the explicit-stack solver: the function GENERATED from the current source
   text of nonrecursive_link (Gen/iterative.v, by tools/py2coq_iterative.py) computes, for
   every input, what the hand-written stack machine of Model/Iterative.v computes with both
   switches off - hence (Proofs/Iterative.v) the recursive solver's answer, an optimum.

     nr_body_sim            one machine step = one or two iterations of the generated loop body
     nr_loop_unwind         the generated `while j >= 0` loop from any well-formed stack, with
                            2 * cost_stk fuel, ends with the machine's final incumbent
     py_nonrecursive_link_machine / _solve / _optimal   the whole generated def *)
From Coq Require Import ZArith List Bool Arith Lia.
From TP Require Import Model.Assign Model.Link Model.Iterative Proofs.BnB Proofs.Iterative
     Model.PyLinker Model.PyIterative Gen.iterative Model.IterGenCheck.
Import ListNotations.
Open Scope Z_scope.

(* ---------- the loop of the generated def, named ---------- *)
Definition nr_cond : nrl -> bool :=
  ltac:(let t := eval cbv delta [py_nonrecursive_link] in py_nonrecursive_link in
        match t with context [while_loop _ ?c ?b] => exact c end).
Definition nr_body : nrl -> outcome nrl nr_result :=
  ltac:(let t := eval cbv delta [py_nonrecursive_link] in py_nonrecursive_link in
        match t with context [while_loop _ ?c ?b] => exact b end).

(* ---------- small facts about the shared vocabulary (Model/PyLinker.v); stated here so that this
   file does not depend on the other generated file Gen/linker_core.v ---------- *)
Definition bsum_of (b : best_t) : zinf := option_map fst b.
Definition klen (x : spoint) : nat := length (forward_cands x).

Lemma gt_inf_exceeds v b : gt_inf v (bsum_of b) = exceeds v b.
Proof. destruct b as [[bv bp]|]; reflexivity. Qed.

Lemma deque_pop_append {A : Type} (d : list A) x : deque_pop (deque_append d x) = Some d.
Proof.
  unfold deque_pop, deque_append. destruct (d ++ [x]) eqn:E.
  - destruct d; discriminate.
  - rewrite <- E. rewrite removelast_last. reflexivity.
Qed.

Lemma insert_key_length {A : Type} (k : A -> nat) x l : length (insert_key k x l) = Datatypes.S (length l).
Proof. induction l as [|y l IH]; cbn; [reflexivity|]. destruct (k x <=? k y)%nat; cbn; [reflexivity|]. rewrite IH. reflexivity. Qed.
Lemma sort_key_length {A : Type} (k : A -> nat) l : length (sort_key k l) = length l.
Proof.
  induction l as [|x l IH]; [reflexivity|].
  change (sort_key k (x :: l)) with (insert_key k x (sort_key k l)).
  rewrite insert_key_length, IH. reflexivity.
Qed.
Lemma insert_key_perm {A : Type} (k : A -> nat) x l : Permutation.Permutation (insert_key k x l) (x :: l).
Proof.
  induction l as [|y l IH]; cbn; [apply Permutation.Permutation_refl|].
  destruct (k x <=? k y)%nat; [apply Permutation.Permutation_refl|].
  eapply Permutation.perm_trans; [apply Permutation.perm_skip; exact IH|apply Permutation.perm_swap].
Qed.
Lemma sort_key_perm {A : Type} (k : A -> nat) l : Permutation.Permutation (sort_key k l) l.
Proof.
  induction l as [|x l IH]; [constructor|].
  change (sort_key k (x :: l)) with (insert_key k x (sort_key k l)).
  eapply Permutation.perm_trans; [apply insert_key_perm|apply Permutation.perm_skip; exact IH].
Qed.

(* ---------- Python indexing ---------- *)
Lemma py_index_last {A : Type} (l : list A) x : py_index (l ++ [x]) (-1) = Some x.
Proof.
  unfold py_index, py_pos. rewrite app_length. cbn [length].
  destruct (0 <=? -1) eqn:E; [discriminate|].
  destruct (- Z.of_nat (length l + 1) <=? -1) eqn:E2; [|apply Z.leb_gt in E2; lia].
  replace (Z.to_nat (Z.of_nat (length l + 1) + -1)) with (length l) by lia.
  rewrite nth_error_app2 by lia. rewrite Nat.sub_diag. reflexivity.
Qed.

Lemma set_nth_last {A : Type} (l : list A) x v : set_nth (l ++ [x]) (length l) v = l ++ [v].
Proof. induction l as [|a l IH]; cbn; [reflexivity|]. rewrite IH. reflexivity. Qed.

Lemma py_set_index_last {A : Type} (l : list A) x v : py_set_index (l ++ [x]) (-1) v = Some (l ++ [v]).
Proof.
  unfold py_set_index, py_pos. rewrite app_length. cbn [length].
  destruct (0 <=? -1) eqn:E; [discriminate|].
  destruct (- Z.of_nat (length l + 1) <=? -1) eqn:E2; [|apply Z.leb_gt in E2; lia].
  replace (Z.to_nat (Z.of_nat (length l + 1) + -1)) with (length l) by lia.
  rewrite set_nth_last. reflexivity.
Qed.

Lemma py_index_nat {A : Type} (l : list A) (i : nat) : py_index l (Z.of_nat i) = nth_error l i.
Proof.
  unfold py_index, py_pos.
  destruct (0 <=? Z.of_nat i) eqn:E; [|apply Z.leb_gt in E; lia].
  destruct (Z.of_nat i <? Z.of_nat (length l)) eqn:E2.
  - rewrite Nat2Z.id. reflexivity.
  - apply Z.ltb_ge in E2. symmetry. apply nth_error_None. lia.
Qed.

Lemma deque_pop_snoc {A : Type} (l : list A) x : deque_pop (l ++ [x]) = Some l.
Proof. apply (deque_pop_append l x). Qed.

Lemma py_len_app {A : Type} (l m : list A) : py_len (l ++ m) = py_len l + py_len m.
Proof. unfold py_len. rewrite app_length. lia. Qed.
Lemma py_len_cons {A : Type} (x : A) l : py_len (x :: l) = 1 + py_len l.
Proof. unfold py_len. cbn [length]. lia. Qed.
Lemma py_len_nonneg {A : Type} (l : list A) : 0 <= py_len l.
Proof. unfold py_len. lia. Qed.

(* ---------- how the Python locals represent a machine state ---------- *)
Definition taken_of (path : list cand) : list nat := fold_right (fun dc t => add_taken (fst dc) t) [] path.
Definition bback_of (b : best_t) : option (list (option nat)) :=
  option_map (fun va : Z * list cand => map fst (snd va)) b.

(* k_stack (bottom first): the cursor of level i is the number of candidates of source i
   already consumed *)
Fixpoint ks_of (A : list (list cand)) (stk : list level) : list Z :=
  match stk with
  | [] => []
  | lv :: below => ks_of A below ++ [py_len (nth (length below) A []) - py_len (l_cs lv)]
  end.
Definition sums_of (stk : list level) : list Z := rev (map l_cur stk).
Definition back_of (stk : list level) : list (option nat) :=
  match stk with [] => [] | lv :: _ => rev (map fst (l_path lv)) end.

(* the locals at the top of an iteration, for the machine state (stk, best); S = the sorted
   source_list, A = cand_list_list *)
Definition conc (S : list spoint) (A : list (list cand)) (stk : list level) (best : best_t) : nrl :=
  mk_nrl S (py_len A) (ks_of A stk) (py_len stk - 1) (back_of stk) (sums_of stk)
         (bsum_of best) (bback_of best) A (map py_len A).

(* a machine stack that the search can reach on the sources A *)
Fixpoint wf (A : list (list cand)) (stk : list level) : Prop :=
  match stk with
  | [] => True
  | lv :: below =>
    (exists pre, nth_error A (length below) = Some (pre ++ l_cs lv)) /\
    l_rest lv = skipn (Datatypes.S (length below)) A /\
    length (l_path lv) = length below /\
    l_taken lv = taken_of (l_path lv) /\
    match below with [] => True | lb :: _ => exists x, l_path lv = x :: l_path lb end /\
    wf A below
  end.

Lemma deque_in_taken d path :
  match d with Some v => deque_in (Some v) (rev (map fst path)) | None => false end = taken_b d (taken_of path).
Proof.
  destruct d as [v|]; [|reflexivity]. unfold deque_in, taken_b.
  induction path as [|[d' c'] path IH]; [reflexivity|].
  cbn [map fst rev taken_of fold_right]. rewrite existsb_app. fold (taken_of path). rewrite IH.
  destruct d' as [w|]; cbn [add_taken existsb opt_eqb]; [|rewrite orb_false_r; reflexivity].
  rewrite orb_false_r. apply orb_comm.
Qed.

Lemma leaf_improve_back v p b :
  (if lt_inf v (bsum_of b) then (Some v, Some (map fst (rev p))) else (bsum_of b, bback_of b))
  = (bsum_of (improve_t false v p b), bback_of (improve_t false v p b)).
Proof.
  destruct b as [[bv bp]|]; cbn; [|reflexivity].
  destruct (v <? bv); reflexivity.
Qed.

Ltac nrm :=
  unfold set_nr_source_list, set_nr_MAX, set_nr_k_stack, set_nr_j, set_nr_cur_back, set_nr_cur_sum_stack,
         set_nr_best_sum, set_nr_best_back, set_nr_cand_list_list, set_nr_cand_lens;
  cbn [nr_source_list nr_MAX nr_k_stack nr_j nr_cur_back nr_cur_sum_stack nr_best_sum nr_best_back
       nr_cand_list_list nr_cand_lens bind fst snd py_list deque_append].

(* "go up": j -= 1; k_stack.pop(); cur_sum_stack.pop(); if j >= 0: cur_back.pop() *)
Lemma back_of_pop lv below :
  match below with [] => True | lb :: _ => exists x, l_path lv = x :: l_path lb end ->
  length (l_path lv) = length below ->
  ((0 <=? Z.of_nat (length below) - 1) = true /\ deque_pop (rev (map fst (l_path lv))) = Some (back_of below)) \/
  ((0 <=? Z.of_nat (length below) - 1) = false /\ rev (map fst (l_path lv)) = back_of below).
Proof.
  intros Hc Hl. destruct below as [|lb below'].
  - right. split; [reflexivity|]. destruct (l_path lv); [reflexivity|discriminate].
  - left. destruct Hc as [x Hx]. rewrite Hx. cbn [map rev back_of length]. split.
    + apply Z.leb_le. lia.
    + apply deque_pop_snoc.
Qed.

(* ---------- one iteration of the generated loop body ---------- *)
Lemma conc_cons S A lv below best pre :
  nth_error A (length below) = Some (pre ++ l_cs lv) ->
  conc S A (lv :: below) best =
  mk_nrl S (py_len A) (ks_of A below ++ [py_len pre]) (Z.of_nat (length below)) (rev (map fst (l_path lv)))
         (sums_of below ++ [l_cur lv]) (bsum_of best) (bback_of best) A (map py_len A).
Proof.
  intros Hn. unfold conc. f_equal.
  - cbn [ks_of]. rewrite (nth_error_nth _ _ _ Hn), py_len_app. f_equal. f_equal. lia.
  - rewrite py_len_cons. unfold py_len. lia.
Qed.


Lemma below_lt_A {T : Type} (A : list T) (below : list level) x : nth_error A (length below) = Some x -> (py_len A <=? Z.of_nat (length below)) = false.
Proof.
  intros Hn. apply Z.leb_gt. unfold py_len.
  assert (H : nth_error A (length below) <> None) by congruence. apply nth_error_Some in H. lia.
Qed.

(* the three "go up" exits of the loop body leave the locals of the stack without its top level *)
Ltac go_up lv below Hchain Hlen :=
  rewrite !deque_pop_snoc; nrm;
  destruct (back_of_pop lv below Hchain Hlen) as [[E1 E2]|[E1 E2]]; rewrite E1; [rewrite E2|]; nrm;
  unfold conc; rewrite <- ?E2; reflexivity.

Lemma step_empty S A lv below best :
  wf A (lv :: below) -> l_cs lv = [] ->
  nr_body (conc S A (lv :: below) best) = Continue (conc S A below best).
Proof.
  intros Hwf Hcs. destruct Hwf as [[pre Hn] [Hrest [Hlen [Htk [Hchain Hwf]]]]].
  rewrite (conc_cons _ _ _ _ _ _ Hn).
  unfold nr_body. nrm.
  rewrite py_index_last, (below_lt_A _ _ _ Hn). nrm.
  rewrite py_index_last, py_index_nat, (map_nth_error py_len _ _ Hn).
  rewrite Hcs, app_nil_r, Z.leb_refl.
  go_up lv below Hchain Hlen.
Qed.

Definition lv_next (lv : level) (cs' : list cand) : level :=
  {| l_cs := cs'; l_rest := l_rest lv; l_taken := l_taken lv; l_cur := l_cur lv; l_path := l_path lv |}.


(* the locals after the last source has been given a destination: one more level (j = MAX)
   whose only job is to record the leaf *)
Definition leaf_st (S : list spoint) (A : list (list cand)) (stk : list level) (best : best_t) (d : option nat) (tmp : Z) : nrl :=
  mk_nrl S (py_len A) (ks_of A stk ++ [0]) (py_len stk) (back_of stk ++ [d]) (sums_of stk ++ [tmp])
         (bsum_of best) (bback_of best) A (map py_len A).

Lemma nth_error_pre {T : Type} (pre : list T) x l : nth_error (pre ++ x :: l) (length pre) = Some x.
Proof. rewrite nth_error_app2 by lia. rewrite Nat.sub_diag. reflexivity. Qed.

Lemma step_cons S A cs' rest taken cur path d c below best :
  let lv := {| l_cs := (d, c) :: cs'; l_rest := rest; l_taken := taken; l_cur := cur; l_path := path |} in
  let lv' := {| l_cs := cs'; l_rest := rest; l_taken := taken; l_cur := cur; l_path := path |} in
  wf A (lv :: below) ->
  nr_body (conc S A (lv :: below) best) =
  if exceeds (cur + c) best then Continue (conc S A below best)
  else if taken_b d taken then Continue (conc S A (lv' :: below) best)
  else match rest with
       | [] => Normal (leaf_st S A (lv' :: below) best d (cur + c))
       | cs2 :: rest2 =>
         Normal (conc S A ({| l_cs := cs2; l_rest := rest2; l_taken := add_taken d taken; l_cur := cur + c; l_path := (d, c) :: path |}
                            :: lv' :: below) best)
       end.
Proof.
  intros lv lv' Hwf. destruct Hwf as [[pre Hn] [Hrest [Hlen [Htk [Hchain Hwf]]]]].
  cbn [l_cs l_rest l_taken l_cur l_path lv] in Hn, Hrest, Hlen, Htk.
  assert (Hn' : nth_error A (length below) = Some ((pre ++ [(d, c)]) ++ l_cs lv')) by (rewrite <- app_assoc; exact Hn).
  rewrite (conc_cons _ _ lv _ _ _ Hn).
  unfold nr_body. nrm.
  rewrite py_index_last, (below_lt_A _ _ _ Hn). nrm.
  rewrite py_index_last, py_index_nat, (map_nth_error py_len _ _ Hn).
  assert (E : (py_len (pre ++ (d, c) :: cs') <=? py_len pre) = false).
  { apply Z.leb_gt. unfold py_len. rewrite app_length. cbn [length]. lia. }
  rewrite E. nrm. rewrite py_index_nat, Hn. unfold py_len at 1. rewrite py_index_nat, nth_error_pre. nrm.
  change (l_cur lv) with cur.
  rewrite gt_inf_exceeds. destruct (exceeds (cur + c) best).
  { go_up lv below Hchain Hlen. }
  change (l_path lv) with path.
  nrm. rewrite py_index_last, py_set_index_last. nrm.
  rewrite deque_in_taken, <- Htk.
  assert (Ek : ks_of A below ++ [py_len pre + 1] = ks_of A (lv' :: below)).
  { cbn [ks_of]. rewrite (nth_error_nth _ _ _ Hn'). rewrite !py_len_app, py_len_cons. cbn [l_cs lv']. f_equal. f_equal.
    unfold py_len. cbn [length]. lia. }
  destruct (taken_b d taken).
  { rewrite (conc_cons _ _ lv' _ _ _ Hn'). rewrite py_len_app. reflexivity. }
  nrm. rewrite Ek.
  destruct rest as [|cs2 rest2].
  - unfold leaf_st. f_equal. f_equal. rewrite py_len_cons. unfold py_len. lia.
  - set (nlv := {| l_cs := cs2; l_rest := rest2; l_taken := add_taken d taken; l_cur := cur + c; l_path := (d, c) :: path |}).
    assert (Hn2 : nth_error A (length (lv' :: below)) = Some ([] ++ l_cs nlv)).
    { cbn [length app nlv l_cs]. clear - Hrest. revert Hrest. generalize (Datatypes.S (length below)). intros n.
      revert A. induction n as [|n IH]; intros [|a A] H; cbn in *; try discriminate; [inversion H; reflexivity|apply IH; exact H]. }
    rewrite (conc_cons _ _ nlv _ _ _ Hn2). f_equal. f_equal.
    cbn [length]. lia.
Qed.

Lemma skipn_nil_len {T : Type} (A : list T) n : skipn n A = [] -> (length A <= n)%nat.
Proof.
  revert A. induction n as [|n IH]; intros [|a A] H; cbn in *; try lia; [discriminate|]. apply IH in H. lia.
Qed.

Lemma step_leaf S A lv' below best d c :
  wf A (lv' :: below) -> l_rest lv' = [] ->
  nr_body (leaf_st S A (lv' :: below) best d (l_cur lv' + c)) =
  Continue (conc S A (lv' :: below) (improve_t false (l_cur lv' + c) ((d, c) :: l_path lv') best)).
Proof.
  intros Hwf Hr. destruct Hwf as [[pre Hn] [Hrest [Hlen [Htk [Hchain Hwf]]]]].
  assert (HA : py_len A = py_len (lv' :: below)).
  { rewrite Hr in Hrest. symmetry in Hrest. apply skipn_nil_len in Hrest.
    assert (H : nth_error A (length below) <> None) by congruence. apply nth_error_Some in H.
    unfold py_len. cbn [length]. lia. }
  unfold leaf_st, nr_body. nrm.
  rewrite py_index_last, HA, Z.leb_refl.
  pose proof (leaf_improve_back (l_cur lv' + c) ((d, c) :: l_path lv') best) as Hli.
  destruct (lt_inf (l_cur lv' + c) (bsum_of best)); injection Hli as H1 H2; nrm;
    rewrite !deque_pop_snoc; nrm; unfold conc; rewrite <- H1, <- H2, HA; try reflexivity.
  cbn [rev map fst back_of]. rewrite map_app, map_rev. reflexivity.
Qed.

Lemma skipn_cons_nth {T : Type} (A : list T) : forall n x r, skipn n A = x :: r -> nth_error A n = Some x /\ skipn (Datatypes.S n) A = r.
Proof.
  induction A as [|a A IH]; intros [|n] x r H; cbn in *; try discriminate.
  - inversion H; subst. split; reflexivity.
  - apply IH. exact H.
Qed.

Lemma wf_mstep A stk best : wf A stk -> wf A (fst (mstep false false (stk, best))).
Proof.
  destruct stk as [|lv below]; [intros; exact I|].
  intros Hwf. pose proof Hwf as Hwf0. destruct Hwf as [[pre Hn] [Hrest [Hlen [Htk [Hchain Hwf]]]]].
  destruct lv as [cs rest taken cur path]. cbn [l_cs l_rest l_taken l_cur l_path] in *.
  unfold mstep. cbn [l_cs l_rest l_taken l_cur l_path].
  destruct cs as [|[d c] cs']; [exact Hwf|].
  destruct (exceeds (cur + c) best); [exact Hwf|].
  assert (Hwf' : wf A ({| l_cs := cs'; l_rest := rest; l_taken := taken; l_cur := cur; l_path := path |} :: below)).
  { cbn [wf l_cs l_rest l_taken l_cur l_path]. repeat split; try assumption.
    exists (pre ++ [(d, c)]). rewrite <- app_assoc. exact Hn. }
  destruct (taken_b d taken); [exact Hwf'|].
  destruct rest as [|cs2 rest2]; [exact Hwf'|].
  symmetry in Hrest. apply skipn_cons_nth in Hrest. destruct Hrest as [Hn2 Hr2].
  cbn [fst]. cbn [wf l_cs l_rest l_taken l_cur l_path length] in Hwf' |- *.
  refine (conj _ (conj _ (conj _ (conj _ (conj _ Hwf'))))).
  - exists []. exact Hn2.
  - symmetry. exact Hr2.
  - f_equal. exact Hlen.
  - rewrite Htk. reflexivity.
  - eexists. reflexivity.
Qed.

(* ---------- the loop ---------- *)
Lemma while_loop_step {St R : Type} (cond : St -> bool) (body : St -> outcome St R) f s :
  cond s = true ->
  while_loop (Datatypes.S f) cond body s =
  match body s with
  | Normal s' => while_loop f cond body s'
  | Continue s' => while_loop f cond body s'
  | Break s' => Normal s'
  | Return v => Return v
  | Raise e => Raise e
  end.
Proof. intros H. cbn [while_loop]. rewrite H. reflexivity. Qed.

Lemma while_loop_exit {St R : Type} (cond : St -> bool) (body : St -> outcome St R) f s :
  cond s = false -> while_loop f cond body s = Normal s.
Proof. intros H. destruct f; cbn [while_loop]; rewrite H; reflexivity. Qed.

Lemma nr_cond_cons S A lv below best : nr_cond (conc S A (lv :: below) best) = true.
Proof. unfold nr_cond, conc. cbn [nr_j]. apply Z.leb_le. rewrite py_len_cons. pose proof (py_len_nonneg below). lia. Qed.
Lemma nr_cond_nil S A best : nr_cond (conc S A [] best) = false.
Proof. reflexivity. Qed.
Lemma nr_cond_leaf S A stk best d tmp : nr_cond (leaf_st S A stk best d tmp) = true.
Proof. unfold nr_cond, leaf_st. cbn [nr_j]. apply Z.leb_le. apply py_len_nonneg. Qed.

(* one machine step = one iteration of the generated loop, two when the step records a leaf *)
Lemma nr_body_sim S A lv below best f :
  wf A (lv :: below) ->
  exists f', (f <= f')%nat /\
    while_loop (Datatypes.S (Datatypes.S f)) nr_cond nr_body (conc S A (lv :: below) best)
    = while_loop f' nr_cond nr_body (conc S A (fst (mstep false false (lv :: below, best)))
                                             (snd (mstep false false (lv :: below, best)))).
Proof.
  intros Hwf. rewrite while_loop_step by apply nr_cond_cons.
  destruct lv as [cs rest taken cur path]. destruct cs as [|[d c] cs'].
  - exists (Datatypes.S f). split; [lia|]. rewrite step_empty by (try exact Hwf; reflexivity). reflexivity.
  - rewrite step_cons by exact Hwf. unfold mstep. cbn [l_cs l_rest l_taken l_cur l_path].
    destruct (exceeds (cur + c) best); [exists (Datatypes.S f); split; [lia|reflexivity]|].
    destruct (taken_b d taken); [exists (Datatypes.S f); split; [lia|reflexivity]|].
    destruct rest as [|cs2 rest2]; [|exists (Datatypes.S f); split; [lia|reflexivity]].
    exists f. split; [lia|]. rewrite while_loop_step by apply nr_cond_leaf.
    set (lv' := {| l_cs := cs'; l_rest := []; l_taken := taken; l_cur := cur; l_path := path |}).
    assert (Hwf' : wf A (lv' :: below)).
    { apply (wf_mstep A _ None) in Hwf. unfold mstep in Hwf. cbn [l_cs l_rest l_taken l_cur l_path exceeds] in Hwf.
      destruct (taken_b d taken); exact Hwf. }
    change cur with (l_cur lv') at 1. rewrite step_leaf by (try exact Hwf'; reflexivity). reflexivity.
Qed.

Lemma cost_stk_pos lv below : (0 < cost_stk (lv :: below))%nat.
Proof. cbn [cost_stk fold_right]. unfold cost_lv. lia. Qed.

(* the generated `while j >= 0` loop, started on the locals of any reachable machine state
   with 2 * cost_stk fuel, ends (never OutOfFuel, never IndexError) with the empty stack
   and the machine's final incumbent *)
Theorem nr_loop_unwind S A : forall n fuel stk best,
  wf A stk -> (cost_stk stk <= n)%nat -> (2 * n <= fuel)%nat ->
  while_loop fuel nr_cond nr_body (conc S A stk best) = Normal (conc S A [] (unwind false false (stk, best))).
Proof.
  induction n as [|n IH]; intros fuel stk best Hwf Hc Hf.
  - destruct stk as [|lv below]; [|pose proof (cost_stk_pos lv below); lia].
    rewrite while_loop_exit by apply nr_cond_nil. reflexivity.
  - destruct stk as [|lv below]; [rewrite while_loop_exit by apply nr_cond_nil; reflexivity|].
    destruct fuel as [|[|f]]; try lia.
    destruct (nr_body_sim S A lv below best f Hwf) as [f' [Hf' E]]. rewrite E.
    rewrite <- (mstep_unwind false false (lv :: below, best)).
    destruct (mstep false false (lv :: below, best)) as [stk' best'] eqn:Em. cbn [fst snd].
    apply IH.
    + pose proof (wf_mstep A (lv :: below) best Hwf) as H. rewrite Em in H. exact H.
    + pose proof (mstep_decreases false false (lv :: below) best ltac:(discriminate)) as H. rewrite Em in H. cbn [fst] in H. lia.
    + lia.
Qed.

(* ---------- the whole def ---------- *)


Ltac nr_init :=
  unfold py_nonrecursive_link; fold nr_cond; fold nr_body;
  cbv beta iota zeta delta [blank_nrl py_list set_nr_source_list set_nr_MAX set_nr_k_stack set_nr_j set_nr_cur_back
    set_nr_cur_sum_stack set_nr_best_sum set_nr_best_back set_nr_cand_list_list set_nr_cand_lens
    nr_source_list nr_MAX nr_k_stack nr_j nr_cur_back nr_cur_sum_stack nr_best_sum nr_best_back nr_cand_list_list nr_cand_lens].

Theorem py_nonrecursive_link_oversize fuel (s_sn : list spoint) ms :
  ms < py_len s_sn -> py_nonrecursive_link fuel s_sn ms = Fail SubnetOversizeException.
Proof.
  intros H. nr_init. unfold py_len in *. rewrite sort_key_length.
  destruct (Z.ltb_spec ms (Z.of_nat (length s_sn))); [reflexivity|lia].
Qed.

(* an empty subnet: the leaf is recorded at once and cur_back.pop() raises on the empty deque *)
Theorem py_nonrecursive_link_empty fuel ms :
  0 <= ms -> py_nonrecursive_link (Datatypes.S fuel) [] ms = Fail IndexError.
Proof.
  intros H. nr_init. cbn [sort_key fold_right py_len length Z.of_nat].
  destruct (Z.ltb_spec ms 0); [lia|]. cbn [bind].
  rewrite while_loop_step by reflexivity. reflexivity.
Qed.

Theorem py_nonrecursive_link_machine fuel (s_sn : list spoint) ms :
  let S := sort_key klen s_sn in
  let A := map snd S in
  s_sn <> [] -> py_len s_sn <= ms -> (nr_fuel s_sn <= fuel)%nat ->
  exists b, mrun false false (cost_full A) (minit A) = Some b /\
            py_nonrecursive_link fuel s_sn ms = Done (Some (S, bback_of b)).
Proof.
  intros S A Hne Hms Hf.
  exists (unwind false false (minit A)). split.
  { apply mrun_terminates. destruct A as [|cs rest]; cbn; [lia|]. unfold cost_lv. cbn [l_cs l_rest]. lia. }
  nr_init.
  change (sort_key (fun x : spoint => length (forward_cands x)) s_sn) with S.
  assert (HS : length S = length s_sn) by apply sort_key_length.
  unfold py_len at 1. rewrite HS.
  destruct (Z.ltb_spec ms (Z.of_nat (length s_sn))); [unfold py_len in Hms; lia|]. cbn [bind].
  change (map (fun c : spoint => forward_cands c) S) with A.
  assert (HL : length A = length s_sn) by (unfold A; rewrite map_length; exact HS).
  destruct A as [|cs rest] eqn:EA.
  { exfalso. apply Hne. destruct s_sn; [reflexivity|discriminate]. }
  rewrite <- EA.
  set (lv0 := {| l_cs := cs; l_rest := rest; l_taken := []; l_cur := 0; l_path := [] |}).
  assert (Hwf : wf A [lv0]).
  { cbn [wf length]. rewrite EA. repeat split. exists []. reflexivity. }
  match goal with |- context [while_loop fuel _ _ ?s] =>
    replace s with (conc S A [lv0] None) end.
  2:{ unfold conc. f_equal.
      - unfold py_len, A. rewrite map_length. reflexivity.
      - cbn [ks_of length app]. rewrite EA. cbn [nth l_cs lv0]. rewrite Z.sub_diag. reflexivity. }
  match goal with |- context [bind ?w _] => change w with (while_loop fuel nr_cond nr_body (conc S A [lv0] None)) end.
  rewrite (nr_loop_unwind S A (cost_full A) fuel [lv0] None Hwf).
  - cbn [bind]. unfold conc. cbn [nr_source_list nr_best_back fn_end_v]. unfold minit. rewrite EA. reflexivity.
  - rewrite EA. cbn [cost_stk fold_right]. unfold cost_lv. cbn [l_cs l_rest lv0 cost_full]. lia.
  - exact Hf.
Qed.

(* ... hence the recursive solver's answer (Proofs/Iterative.v: the machine with both switches
   off is Model.Assign.solve), tie-breaking included *)
Theorem py_nonrecursive_link_solve fuel (s_sn : list spoint) ms :
  let S := sort_key klen s_sn in
  s_sn <> [] -> py_len s_sn <= ms -> (nr_fuel s_sn <= fuel)%nat ->
  py_nonrecursive_link fuel s_sn ms = Done (Some (S, bback_of (solve (map snd S)))).
Proof.
  intros S Hne Hms Hf.
  destruct (py_nonrecursive_link_machine fuel s_sn ms Hne Hms Hf) as [b [Hb Hr]].
  fold S in Hb, Hr. rewrite Hr.
  assert (HA : map snd S <> []).
  { intros E. apply Hne.
    assert (HL : length s_sn = length (map snd S)) by (rewrite map_length; symmetry; apply sort_key_length).
    rewrite E in HL. destruct s_sn; [reflexivity|discriminate]. }
  pose proof (nonrecursive_is_recursive (map snd S) HA) as Hs. unfold nonrecursive_link in Hs.
  rewrite Hs in Hb. injection Hb as Hb. subst b. reflexivity.
Qed.

Lemma sorted_sources_ok (s_sn : list spoint) (P : list cand -> Prop) :
  Forall P (map snd s_sn) -> Forall P (map snd (sort_key klen s_sn)).
Proof.
  intros HF. rewrite Forall_forall in *. intros cs Hin. apply HF.
  eapply Permutation.Permutation_in; [apply Permutation.Permutation_map; apply sort_key_perm|exact Hin].
Qed.

(* ... an optimum: whatever the generated def returns is a one-to-one assignment of the
   (stably sorted) sources of minimal total cost *)
Theorem py_nonrecursive_link_optimal fuel (s_sn : list spoint) ms S' back :
  s_sn <> [] -> py_len s_sn <= ms -> (nr_fuel s_sn <= fuel)%nat ->
  nonneg (map snd s_sn) -> Forall sorted (map snd s_sn) ->
  py_nonrecursive_link fuel s_sn ms = Done (Some (S', Some back)) ->
  Permutation.Permutation S' s_sn /\
  exists a, back = map fst a /\ completion (map snd S') [] a /\
            (forall sigma, completion (map snd S') [] sigma -> total a <= total sigma).
Proof.
  intros Hne Hms Hf Hn Hs Hr.
  rewrite (py_nonrecursive_link_solve fuel s_sn ms Hne Hms Hf) in Hr.
  injection Hr as HS Hb. subst S'. split; [apply sort_key_perm|].
  destruct (solve (map snd (sort_key klen s_sn))) as [[v a]|] eqn:Es; [|discriminate].
  cbn in Hb. injection Hb as Hb. exists a. split; [symmetry; exact Hb|].
  destruct (solve_optimal _ _ _ (sorted_sources_ok _ _ Hn) (sorted_sources_ok _ _ Hs) Es) as [Hc [Ht Ho]].
  split; [exact Hc|]. intros sigma Hsig. rewrite <- Ht. apply Ho. exact Hsig.
Qed.

(* ... and total: with the null link among every source's candidates (as trackpy builds them) the
   generated def returns an assignment - no exception, no exhausted fuel *)
Theorem py_nonrecursive_link_finds fuel (s_sn : list spoint) ms :
  s_sn <> [] -> py_len s_sn <= ms -> (nr_fuel s_sn <= fuel)%nat ->
  nonneg (map snd s_sn) -> Forall sorted (map snd s_sn) ->
  Forall (fun cs => exists c, In (None, c) cs) (map snd s_sn) ->
  exists back, py_nonrecursive_link fuel s_sn ms = Done (Some (sort_key klen s_sn, Some back)).
Proof.
  intros Hne Hms Hf Hn Hs Hnull.
  rewrite (py_nonrecursive_link_solve fuel s_sn ms Hne Hms Hf).
  destruct (solve_some (map snd (sort_key klen s_sn))) as [v [a Hsol]]; try (apply sorted_sources_ok; assumption).
  rewrite Hsol. eexists. reflexivity.
Qed.
