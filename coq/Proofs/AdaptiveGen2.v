(* Route T, composition: the GENERATED split_subnet (Gen/adaptive.py_split_subnet, callee assign_subnet = the
   model) satisfies the split_subnet hypothesis of Proofs/AdaptiveGen.py_adaptive_asplit for the pure
   splitter Model/Adaptive2.py_splitter, so the generated adaptive_link_wrap over the generated
   split_subnet IS asplit_g (py_splitter) -- no hypothesis on split_subnet left.

     gen_split_spec              the SP hypothesis, proved for the generated split_subnet
     py_splitter_prunes          py_splitter's parts are made of pruned sources (splitter_prunes)
     py_splitter_components      its parts with a source are the groups of Link.components on the pruned
                                 sources that kept a candidate (same sources, same destinations)
     gen_adaptive_is_asplit_g    generated wrapper over generated split_subnet = asplit_g (py_splitter) *)
From Coq Require Import ZArith List Bool Arith Lia Permutation.
From TP Require Import Model.Assign Model.Link Model.LinkCheck Model.Adaptive Model.SubnetMerge Model.SplitSubnet
     Model.Strategies Model.PyAdaptive Model.Adaptive2 Gen.adaptive
     Proofs.BnB Proofs.Opt Proofs.Cands Proofs.Comps Proofs.Step Proofs.SubnetMerge Proofs.SplitMerge Proofs.SplitIndep Proofs.Adaptive Proofs.AdaptiveGen.
Import ListNotations.

Lemma take_le_ext (f g : cand -> bool) l : (forall c, f c = g c) -> take_le f l = take_le g l.
Proof. intros H. induction l as [|c l IH]; cbn; [reflexivity|]. rewrite H, IH. reflexivity. Qed.

Lemma fold_step_none l : fold_left step_o l None = None.
Proof. induction l; cbn; auto. Qed.
Lemma fold_split_none l : fold_left split_src l None = None.
Proof. induction l; cbn; auto. Qed.

Definition all_real (cs : list cand) : Prop := Forall (fun dc : cand => is_real dc = true) cs.

Lemma assign_all_fold s cs : all_real cs -> forall m,
  assign_all s cs m = fold_left step_o (map (pair s) (reals cs)) (Some m).
Proof.
  induction 1 as [|[[d|] c] cs Hr _ IH]; intros m; cbn [assign_all]; [reflexivity| |discriminate].
  change (reals ((Some d, c) :: cs)) with (d :: reals cs). cbn [map fold_left step_o].
  destruct (assign_subnet m (s, d)) as [m'|]; [apply IH|]. symmetry. apply fold_step_none.
Qed.

Lemma take_le_incl le cs c : In c (take_le le cs) -> In c cs.
Proof. induction cs as [|x cs IH]; cbn; [tauto|]. destruct (le x); cbn; [|tauto]. intros [E|H]; auto. Qed.
Lemma take_le_real le cs : all_real cs -> all_real (take_le le cs).
Proof. unfold all_real. rewrite !Forall_forall. intros H c Hc. apply H. eapply take_le_incl. exact Hc. Qed.
Lemma in_reals d cs : In d (reals cs) <-> exists c, In (Some d, c) cs.
Proof.
  unfold reals. rewrite in_flat_map. split.
  - intros [[[k|] c] [Hin Hd]]; cbn in Hd; [|destruct Hd]. destruct Hd as [E|[]]. subst k. exists c. exact Hin.
  - intros [c Hin]. exists (Some d, c). split; [exact Hin|left; reflexivity].
Qed.
Lemma reals_take_incl le cs d : In d (reals (take_le le cs)) -> In d (reals cs).
Proof. rewrite !in_reals. intros [c H]. exists c. eapply take_le_incl. exact H. Qed.

(* an entry beyond the range appended at the end (the null candidate of the recursive linkers) is cut again *)
Lemma take_le_app_beyond le cs x : le x = false -> take_le le (cs ++ [x]) = take_le le cs.
Proof. intros H. induction cs as [|c cs IH]; cbn; [rewrite H; reflexivity|]. destruct (le c); [rewrite IH|]; reflexivity. Qed.

(* take_le on a sorted list is the model's filter (prune) *)
Lemma take_le_filter a R2 k cs : (0 <= den a k)%Z -> sorted cs ->
  take_le (le_lvl a R2 k) cs = filter (fun dc : cand => (snd dc * den a k <=? R2 * num a k)%Z) cs.
Proof.
  intros Hd. induction 1 as [|dc l Hle _ IH]; cbn [take_le filter]; [reflexivity|].
  unfold le_lvl at 1. destruct (snd dc * den a k <=? R2 * num a k)%Z eqn:E; [rewrite IH; reflexivity|].
  symmetry. apply Z.leb_gt in E.
  assert (Hall : Forall (fun x : cand => (snd x * den a k <=? R2 * num a k)%Z = false) l).
  { rewrite Forall_forall in *. intros x Hx. apply Z.leb_gt. specialize (Hle x Hx). nia. }
  clear -Hall. induction Hall as [|x l Hx _ IH]; cbn; [reflexivity|]. rewrite Hx. exact IH.
Qed.

(* ---- forward_cands maps ---- *)
Lemma fc_get_set_eq s cs m : fc_get s (fc_set s cs m) = cs.
Proof. unfold fc_set. cbn. rewrite Nat.eqb_refl. reflexivity. Qed.
Lemma fc_get_set_ne s s' cs m : s' <> s -> fc_get s' (fc_set s cs m) = fc_get s' m.
Proof. intros H. unfold fc_set. cbn. destruct (Nat.eqb_spec s' s); [contradiction|reflexivity]. Qed.

Definition prune_fc (le : cand -> bool) (ss : list nat) (fc : fcmap) : fcmap :=
  fold_left (fun f s => fc_set s (take_le le (fc_get s f)) f) ss fc.

Lemma prune_fc_out le ss : forall fc s, ~ In s ss -> fc_get s (prune_fc le ss fc) = fc_get s fc.
Proof.
  induction ss as [|x ss IH]; intros fc s Hn; cbn; [reflexivity|].
  unfold prune_fc in IH. rewrite IH by (intros H; apply Hn; right; exact H).
  apply fc_get_set_ne. intros E. apply Hn. left. auto.
Qed.
Lemma prune_fc_in le ss : forall fc s, NoDup ss -> In s ss -> fc_get s (prune_fc le ss fc) = take_le le (fc_get s fc).
Proof.
  induction ss as [|x ss IH]; intros fc s Hnd Hin; [destruct Hin|]. inversion Hnd as [|? ? Hx Hnd']; subst. cbn.
  destruct (Nat.eq_dec s x) as [E|E].
  - subst x. fold (prune_fc le ss (fc_set s (take_le le (fc_get s fc)) fc)). rewrite prune_fc_out by exact Hx. apply fc_get_set_eq.
  - destruct Hin as [Hin|Hin]; [congruence|]. fold (prune_fc le ss (fc_set x (take_le le (fc_get x fc)) fc)).
    rewrite IH by assumption. rewrite fc_get_set_ne by exact E. reflexivity.
Qed.

Lemma fc_get_map_in (f : nat -> list cand) ss s : In s ss -> fc_get s (map (fun x => (x, f x)) ss) = f s.
Proof.
  induction ss as [|x ss IH]; intros Hin; [destruct Hin|]. cbn. destruct (Nat.eqb_spec s x) as [E|E]; [subst; reflexivity|].
  destruct Hin as [Hin|Hin]; [congruence|]. apply IH. exact Hin.
Qed.

(* ---- msplit_src, source by source = the fold of Model/SplitSubnet ---- *)
Lemma msplit_src_spec le : forall ss fc m, NoDup ss -> (forall s, In s ss -> all_real (take_le le (fc_get s fc))) ->
  msplit_src le ss fc m =
  option_map (fun m' => (prune_fc le ss fc, m'))
             (fold_left split_src (map (fun s => (s, reals (take_le le (fc_get s fc)))) ss) (Some m)).
Proof.
  induction ss as [|s ss IH]; intros fc m Hnd Hr; [reflexivity|]. inversion Hnd as [|? ? Hs Hnd']; subst.
  cbn [msplit_src map fold_left]. unfold split_src at 2. cbn [fst snd].
  rewrite assign_all_fold by (apply Hr; left; reflexivity).
  destruct (fold_left step_o (map (pair s) (reals (take_le le (fc_get s fc)))) (Some (clear_src m s))) as [m'|].
  - rewrite IH; [|exact Hnd'|].
    + f_equal. f_equal. apply map_ext_in. intros x Hx. rewrite fc_get_set_ne; [reflexivity|]. intros E. subst x. contradiction.
    + intros x Hx. rewrite fc_get_set_ne; [apply Hr; right; exact Hx|]. intros E. subst x. contradiction.
  - rewrite fold_split_none. reflexivity.
Qed.

(* entries at different positions of a dictionary with distinct keys *)
Lemma fop_values (R : sets -> sets -> Prop) (l : list sn) :
  NoDup (map fst l) ->
  (forall i j v w, i <> j -> sfind i l = Some v -> sfind j l = Some w -> R v w) ->
  ForallOrdPairs R (map snd l).
Proof.
  intros Hnd H.
  assert (G : forall l0 : list sn, NoDup (map fst l0) -> (forall i j v w, i <> j -> In (i, v) l0 -> In (j, w) l0 -> R v w) -> ForallOrdPairs R (map snd l0)).
  { induction l0 as [|[i v] l0 IH]; intros Hnd0 H0; cbn; [constructor|]. inversion Hnd0 as [|? ? Hi Hnd1]; subst. constructor.
    - rewrite Forall_forall. intros w Hw. apply in_map_iff in Hw. destruct Hw as [[j w'] [E Hj]]. cbn in E. subst w'.
      apply (H0 i j); [|left; reflexivity|right; exact Hj]. intros E. subst j. apply Hi. apply in_map_iff. exists (i, w). auto.
    - apply IH; [exact Hnd1|]. intros a b x y Hab Ha Hb. apply (H0 a b); auto; right; assumption. }
  apply G; [exact Hnd|].
  intros i j v w Hij Hi Hj. apply (H i j); [exact Hij| |]; apply (sfind_In _ _ l Hnd); assumption.
Qed.

Section GenSplit.
Variable num : Type.
Variable ops : num_ops num.
Variable a : acfg.
Variable R2 : Z.
Variable lvl : nat -> num.
(* dist <= range_k agrees with the model's integer comparison (third ladder hypothesis) *)
Hypothesis dist_lvl : forall d c k, n_dist_le ops c (lvl k) = le_lvl a R2 k (d, c).
Variable A : mst -> nat -> nat -> mresult.
Hypothesis A_spec : forall m s d,
  match A m s d with MDone m' => assign_subnet m (s, d) = Some m' | MFail _ => assign_subnet m (s, d) = None end.

(* what split_subnet needs of a subnet: distinct sources, distinct destinations, every candidate destination in
   the destination set, no null candidate in the lists (the subnet linker adds and removes its own) *)
Definition subnet_wf (g : group) (ds : list nat) : Prop :=
  NoDup (map fst g) /\ NoDup ds /\ (forall it d, In it g -> In d (reals (snd it)) -> In d ds) /\
  Forall (fun it : item => all_real (snd it)) g.

Lemma grp_fst h ss : map fst (grp h ss) = ss.
Proof. unfold grp. rewrite map_map. cbn. apply map_id. Qed.

(* hs = the heap split_subnet is called on: the heap h the subnet linker was called on, possibly changed by the linker
   before it raised (the recursive linkers append their null candidate (None, search_range)), as long as cutting the
   candidate lists at the new range gives the same lists and the other sources are untouched *)
Theorem gen_split_spec_fc h hs ss ds k : subnet_wf (grp h ss) ds ->
  (forall s, In s ss -> take_le (le_lvl a R2 (S k)) (fc_get s (h_fc hs)) = take_le (le_lvl a R2 (S k)) (fc_get s (h_fc h))) ->
  same_fc_outside ss h hs ->
  exists h' parts, py_split_subnet num ops A hs ss ds (lvl (S k)) = Done h' parts /\
    map (fun p : sets => (grp h' (fst p), snd p)) parts = fst (py_splitter a R2 (S k) (grp h ss) ds) /\
    same_fc_outside ss h h' /\
    (forall p, In p parts -> incl (fst p) ss) /\
    ForallOrdPairs (fun p q : sets => forall s, In s (fst p) -> ~ In s (fst q)) parts /\
    Forall (fun p : sets => subnet_wf (grp h' (fst p)) (snd p)) parts /\
    (forall s, In s ss -> fc_get s (h_fc h') = take_le (le_lvl a R2 (S k)) (fc_get s (h_fc h))).
Proof.
  intros [Hnd [Hndd [Hcl Hreal]]] Hcut Hout. rewrite grp_fst in Hnd.
  set (le := fun dc : cand => n_dist_le ops (snd dc) (lvl (S k))).
  set (lem := le_lvl a R2 (S k)).
  assert (Hle : forall cs, take_le le cs = take_le lem cs).
  { intros cs. apply take_le_ext. intros [d c]. unfold le, lem. cbn [snd]. apply dist_lvl. }
  set (fc := h_fc h). set (fcs := h_fc hs).
  set (g' := map (take_item a R2 (S k)) (grp h ss)).
  assert (Eg' : g' = map (fun s => (s, take_le lem (fc_get s fc))) ss).
  { unfold g', grp. rewrite map_map. reflexivity. }
  assert (Hedges : edges_of_group g' = map (fun s => (s, reals (take_le le (fc_get s fc)))) ss).
  { rewrite Eg'. unfold edges_of_group. rewrite map_map. cbn [fst snd]. apply map_ext. intros s. rewrite Hle. reflexivity. }
  assert (Hrs : forall s, In s ss -> all_real (fc_get s fc)).
  { intros s Hs. rewrite Forall_forall in Hreal. apply (Hreal (s, fc_get s fc)). unfold grp. apply in_map_iff. exists s. auto. }
  assert (Hcuts : forall s, In s ss -> take_le le (fc_get s fcs) = take_le le (fc_get s fc)).
  { intros s Hs. rewrite !Hle. apply Hcut. exact Hs. }
  assert (Hrs' : forall s, In s ss -> all_real (take_le le (fc_get s fcs))).
  { intros s Hs. rewrite Hcuts by exact Hs. apply take_le_real. apply Hrs. exact Hs. }
  assert (Hg'fst : map fst g' = ss) by (rewrite Eg', map_map; cbn; apply map_id).
  assert (Hcl' : forall it d, In it g' -> In d (reals (snd it)) -> In d ds).
  { intros it d Hit Hd. unfold g' in Hit. apply in_map_iff in Hit. destruct Hit as [it0 [E H0]]. subst it.
    unfold take_item in Hd. cbn [snd] in Hd. apply reals_take_incl in Hd. eapply Hcl; eassumption. }
  assert (Hndg : NoDup (map fst g')) by (rewrite Hg'fst; exact Hnd).
  assert (Hcl2 : forall s dl d, In (s, dl) (edges_of_group g') -> In d dl -> In d ds).
  { intros s dl d Hin Hd. unfold edges_of_group in Hin. apply in_map_iff in Hin. destruct Hin as [it [E Hit]].
    injection E as E1 E2. rewrite <- E2 in Hd. eapply Hcl'; eassumption. }
  (* the dictionary: total, and independent of the stale attributes *)
  destruct (split_dict_total (h_sn hs) ds (edges_of_group g')) as [st' Hst'].
  { exact Hndd. }
  { unfold edges_of_group. rewrite map_map. cbn [fst]. exact Hndg. }
  { exact Hcl2. }
  pose proof (split_dict_stale_indep (h_sn hs) empty_mst ds (edges_of_group g') Hndd) as Hind.
  rewrite Hst' in Hind.
  assert (Hind' : option_map subs (Some st') = option_map subs (split_dict empty_mst ds (edges_of_group g'))).
  { apply Hind. exact Hcl2. }
  destruct (split_dict empty_mst ds (edges_of_group g')) as [ste|] eqn:Este; [|discriminate]. cbn in Hind'. inversion Hind' as [Hsubs].
  (* the generated function *)
  pose proof (py_split_subnet_msplit num ops A A_spec (lvl (S k)) hs ss ds) as Hgen. fold le in Hgen.
  unfold msplit in Hgen. fold fcs in Hgen.
  rewrite (msplit_src_spec le ss fcs _ Hnd Hrs') in Hgen.
  assert (Hedges' : map (fun s => (s, reals (take_le le (fc_get s fcs)))) ss = edges_of_group g').
  { rewrite Hedges. apply map_ext_in. intros s Hs. rewrite Hcuts by exact Hs. reflexivity. }
  rewrite Hedges' in Hgen.
  change (fold_left split_src (edges_of_group g') (Some (reset_dests 0 ds (set_subs (h_sn hs) []))))
    with (split_dict (h_sn hs) ds (edges_of_group g')) in Hgen.
  rewrite Hst' in Hgen. cbn [option_map] in Hgen.
  exists (mk_heap (prune_fc le ss fcs) st'), (map snd (subs st')). split; [exact Hgen|].
  (* facts about the dictionary *)
  destruct (split_dict_components (h_sn hs) ds g' st' Hndd Hndg Hcl') as [C1 [C2 [C3 [C4 [C5 C6]]]]].
  { exact Hst'. }
  assert (Hparts : forall p, In p (map snd (subs st')) -> exists i, sfind i (subs st') = Some p).
  { intros p Hp. apply in_map_iff in Hp. destruct Hp as [[i v] [E Hi]]. cbn in E. subst v. exists i. apply (sfind_In i p _ C3). exact Hi. }
  assert (Hsub : forall p, In p (map snd (subs st')) -> incl (fst p) ss).
  { intros [sp dp] Hp. destruct (Hparts _ Hp) as [i Hi]. destruct (C4 i sp dp Hi) as [_ [_ [_ [_ Hincl]]]].
    intros s Hs. cbn [fst] in Hs. specialize (Hincl s Hs). rewrite <- Hg'fst. apply in_map_iff in Hincl.
    destruct Hincl as [it [E Hit]]. apply filter_In in Hit. apply in_map_iff. exists it. tauto. }
  assert (Hfc' : forall s, In s ss -> fc_get s (prune_fc le ss fcs) = fc_get s g').
  { intros s Hs. rewrite prune_fc_in by assumption. rewrite Hcuts by exact Hs.
    rewrite Eg', (fc_get_map_in (fun x => take_le lem (fc_get x fc))) by exact Hs. apply Hle. }
  split; [|split; [|split; [|split; [|split]]]].
  - unfold py_splitter. fold g'. rewrite Este. cbn [fst]. rewrite <- Hsubs.
    apply map_ext_in. intros p Hp. unfold part_of, grp, cands_in. cbn [h_fc]. f_equal.
    apply map_ext_in. intros s Hs. rewrite Hfc'; [reflexivity|]. apply (Hsub p Hp). exact Hs.
  - intros s Hs. cbn [h_fc]. rewrite prune_fc_out by exact Hs. apply Hout. exact Hs.
  - exact Hsub.
  - apply fop_values; [exact C3|]. intros i j v w Hij Hv Hw s Hs1 Hs2.
    destruct (split_dict_inv (h_sn hs) ds (edges_of_group g')) as [st2 [E2 I2]].
    { exact Hndd. }
    { unfold edges_of_group. rewrite map_map. cbn [fst]. exact Hndg. }
    { exact Hcl2. }
    rewrite Hst' in E2. inversion E2; subst st2.
    pose proof (j_sub _ _ _ _ I2 i v (inl s) Hv Hs1) as Ha. pose proof (j_sub _ _ _ _ I2 j w (inl s) Hw Hs2) as Hb. congruence.
  - rewrite Forall_forall. intros [sp dp] Hp. destruct (Hparts _ Hp) as [i Hi].
    destruct (C4 i sp dp Hi) as [N1 [N2 [_ [_ _]]]]. cbn [fst snd].
    unfold subnet_wf. rewrite grp_fst. split; [exact N1|split; [exact N2|split]].
    + intros it d Hit Hd. unfold grp in Hit. apply in_map_iff in Hit. destruct Hit as [s [E Hs]]. subst it. cbn [h_fc snd] in Hd.
      assert (Hss : In s ss) by (apply (Hsub (sp, dp) Hp); exact Hs).
      rewrite Hfc' in Hd by exact Hss.
      apply (C6 i sp dp (s, fc_get s g') d Hi); [|exact Hs|exact Hd].
      rewrite Eg'. rewrite (fc_get_map_in (fun x => take_le lem (fc_get x fc))) by exact Hss. apply in_map_iff. exists s. auto.
    + rewrite Forall_forall. intros it Hit. unfold grp in Hit. apply in_map_iff in Hit. destruct Hit as [s [E Hs]]. subst it. cbn [h_fc snd].
      assert (Hss : In s ss) by (apply (Hsub (sp, dp) Hp); exact Hs).
      rewrite prune_fc_in by assumption. apply Hrs'. exact Hss.
  - intros s Hs. cbn [h_fc]. rewrite prune_fc_in by assumption. rewrite Hcuts by exact Hs. apply Hle.
Qed.

(* in the shape of the split_subnet hypothesis of py_adaptive_asplit *)
Theorem gen_split_spec h hs ss ds k : subnet_wf (grp h ss) ds ->
  (forall s, In s ss -> take_le (le_lvl a R2 (S k)) (fc_get s (h_fc hs)) = take_le (le_lvl a R2 (S k)) (fc_get s (h_fc h))) ->
  same_fc_outside ss h hs ->
  exists h' parts, py_split_subnet num ops A hs ss ds (lvl (S k)) = Done h' parts /\
    map (fun p : sets => (grp h' (fst p), snd p)) parts = fst (py_splitter a R2 (S k) (grp h ss) ds) /\
    same_fc_outside ss h h' /\
    (forall p, In p parts -> incl (fst p) ss) /\
    ForallOrdPairs (fun p q : sets => forall s, In s (fst p) -> ~ In s (fst q)) parts /\
    Forall (fun p : sets => subnet_wf (grp h' (fst p)) (snd p)) parts.
Proof.
  intros HP Hc Ho. destruct (gen_split_spec_fc h hs ss ds k HP Hc Ho) as [h' [parts [H1 [H2 [H3 [H4 [H5 [H6 _]]]]]]]].
  exists h', parts. repeat split; assumption.
Qed.

(* ---- the generated adaptive_link_wrap over the generated split_subnet = asplit_g (py_splitter) ---- *)
Section Composed.
Variable stop step : num.
Hypothesis mul_lvl : forall k, n_mul ops (lvl k) step = lvl (S k).
Hypothesis le_stop : forall k, n_le ops (lvl k) stop = at_stop a k.
Variable kw : Type.
Variable kwargs : kw.
Variable SL : heap -> list nat -> list nat -> num -> kw -> fresult pairs.
Variable slv : nat -> group -> list (nat * option nat).
Variable slh : nat -> heap -> list nat -> heap.
(* the subnet linker raises SubnetOversizeException exactly above the limit; the heap slh k h ss it leaves then may
   differ from h in the candidate lists of ITS sources, by entries beyond the next range only (subnet_linker_drop:
   slh = h; the recursive linkers: the null candidate (None, search_range) appended, which is beyond
   search_range * adaptive_step for adaptive_step < 1) *)
Hypothesis SL_spec : forall h ss ds k,
  if (a_max a <? length ss)%nat then SL h ss ds (lvl k) kwargs = Fail (slh k h ss) SubnetOversizeException
  else exists r, SL h ss ds (lvl k) kwargs = Done h r /\ wf_pairs r /\ links_of r = slv k (grp h ss).
Hypothesis slh_cut : forall k h ss s, In s ss ->
  take_le (le_lvl a R2 (S k)) (fc_get s (h_fc (slh k h ss))) = take_le (le_lvl a R2 (S k)) (fc_get s (h_fc h)).
Hypothesis slh_frame : forall k h ss, same_fc_outside ss h (slh k h ss).

Theorem gen_adaptive_is_asplit_g : forall fuel h ss ds k,
  at_stop a (fuel + k) = true -> subnet_wf (grp h ss) ds ->
  exists h', same_fc_outside ss h h' /\
    match asplit_g (py_splitter a R2) fuel a k (grp h ss) ds with
    | Oversize => py_adaptive_link_wrap num ops kw SL (py_split_subnet num ops A) (S fuel) h ss ds (lvl k) (Some stop) step kwargs
                  = Fail h' SubnetOversizeException
    | Ok ls => exists r, py_adaptive_link_wrap num ops kw SL (py_split_subnet num ops A) (S fuel) h ss ds (lvl k) (Some stop) step kwargs = Done h' r /\
                         wf_pairs r /\ links_of r = flat_map (leaf_links slv) ls
    end.
Proof.
  apply (py_adaptive_asplit num ops a lvl stop step mul_lvl le_stop kw kwargs SL (py_split_subnet num ops A)
           (py_splitter a R2) slv slh subnet_wf SL_spec slh_frame).
  intros h ss ds k HP. apply gen_split_spec; [exact HP|intros s Hs; apply slh_cut; exact Hs|apply slh_frame].
Qed.
End Composed.
End GenSplit.

(* ================= facts about the pure splitter py_splitter ================= *)
Definition massign (m : mst) (s d : nat) : mresult :=
  match assign_subnet m (s, d) with Some m' => MDone m' | None => MFail KeyError end.
Lemma massign_spec : forall m s d,
  match massign m s d with MDone m' => assign_subnet m (s, d) = Some m' | MFail _ => assign_subnet m (s, d) = None end.
Proof. intros m s d. unfold massign. destruct (assign_subnet m (s, d)); reflexivity. Qed.

Lemma fc_get_in (g : group) s cs : NoDup (map fst g) -> In (s, cs) g -> fc_get s g = cs.
Proof.
  induction g as [|[s0 c0] g IH]; intros Hnd Hin; [destruct Hin|]. inversion Hnd as [|? ? Hn Hnd']; subst. cbn.
  destruct (Nat.eqb_spec s s0) as [E|E].
  - subst s0. destruct Hin as [Hin|Hin]; [congruence|]. exfalso. apply Hn. apply in_map_iff. exists (s, cs). auto.
  - destruct Hin as [Hin|Hin]; [congruence|]. apply IH; assumption.
Qed.
Lemma grp_self (g : group) m : NoDup (map fst g) -> grp (mk_heap g m) (map fst g) = g.
Proof.
  intros Hnd. unfold grp. cbn [h_fc]. rewrite map_map.
  rewrite <- (map_id g) at 2. apply map_ext_in. intros [s cs] Hin. cbn [fst]. rewrite (fc_get_in g s cs Hnd Hin). reflexivity.
Qed.

Lemma den_nonneg a k : (0 <= den a k)%Z.
Proof. unfold den. rewrite Z.pow_twice_r. apply Z.square_nonneg. Qed.

Lemma take_item_prune a R2 k it : real_item it -> take_item a R2 k it = prune a R2 k it.
Proof. intros [Hs _]. unfold take_item, prune. f_equal. apply take_le_filter; [apply den_nonneg|exact Hs]. Qed.

Lemma has_cands_reals (it : item) : all_real (snd it) -> has_cands it = has_reals it.
Proof.
  unfold has_cands, has_reals. destruct (snd it) as [|[[d|] c] cs]; intros H; [reflexivity|reflexivity|].
  inversion H as [|? ? Hx _]; subst. discriminate.
Qed.

Section PySplitterFacts.
Variable a : acfg.
Variable R2 : Z.

Definition lvl_ops : num_ops nat := mk_ops nat (fun x _ => S x) (fun _ _ => false) (fun c k => le_lvl a R2 k (None, c)).

(* every part is again a well-formed subnet, made of sources of g with their candidate lists cut at the range *)
Theorem py_splitter_parts g ds k : subnet_wf g ds ->
  forall p, In p (fst (py_splitter a R2 (S k) g ds)) ->
  subnet_wf (fst p) (snd p) /\ (forall it, In it (fst p) -> exists it0, In it0 g /\ it = take_item a R2 (S k) it0).
Proof.
  intros HP p Hp. pose proof HP as [Hnd _].
  set (h := mk_heap g empty_mst). set (ss := map fst g).
  assert (Eg : grp h ss = g) by (apply grp_self; exact Hnd).
  rewrite <- Eg in HP.
  destruct (gen_split_spec_fc nat lvl_ops a R2 (fun k => k) (fun d c k => eq_refl) massign massign_spec h h ss ds k HP
              (fun s _ => eq_refl) (fun s _ => eq_refl))
    as [h' [parts [_ [Hmap [_ [Hincl [_ [Hpre Hfc]]]]]]]].
  rewrite Eg in Hmap. rewrite <- Hmap in Hp. apply in_map_iff in Hp. destruct Hp as [q [E Hq]]. subst p. cbn [fst snd].
  split.
  - rewrite Forall_forall in Hpre. apply (Hpre q Hq).
  - intros it Hit. unfold grp in Hit. apply in_map_iff in Hit. destruct Hit as [s [E Hs]]. subst it.
    assert (Hss : In s ss) by (apply (Hincl q Hq); exact Hs).
    rewrite (Hfc s Hss). unfold ss in Hss. apply in_map_iff in Hss. destruct Hss as [[s0 cs] [E Hin]]. cbn in E. subst s0.
    exists (s, cs). split; [exact Hin|]. unfold take_item. cbn [fst snd h h_fc]. rewrite (fc_get_in g s cs Hnd Hin). reflexivity.
Qed.

(* C12_no_long_link / C12_leaves_wellformed for the splitter split_subnet computes *)
Theorem asplit_g_py_leaves : forall fuel k g ds ls,
  subnet_wf g ds -> Forall real_item g -> Forall (within a R2 k) g ->
  asplit_g (py_splitter a R2) fuel a k g ds = Ok ls ->
  Forall (leaf_within a R2) ls /\ Forall leaf_real ls.
Proof.
  induction fuel as [|fuel IH]; intros k g ds ls HP Hr Hw H; cbn in H.
  - destruct (length g <=? a_max a)%nat; [inversion H; subst; split; repeat constructor; assumption|].
    destruct (at_stop a k); [discriminate|]. inversion H; subst. split; repeat constructor.
  - destruct (length g <=? a_max a)%nat; [inversion H; subst; split; repeat constructor; assumption|].
    destruct (at_stop a k); [discriminate|].
    destruct (seq_res_g_ok _ _ _ _ H) as [_ [_ HPp]].
    assert (Hboth : Forall (fun lf => leaf_within a R2 lf /\ leaf_real lf) ls).
    { apply HPp.
      - intros p lp Hp Ep. destruct (py_splitter_parts g ds k HP p Hp) as [HPre Hit].
        assert (Hpr : Forall real_item (fst p)).
        { rewrite Forall_forall. intros it Hi. destruct (Hit it Hi) as [it0 [H0 E]]. subst it.
          rewrite Forall_forall in Hr. rewrite take_item_prune by (apply Hr; exact H0). apply prune_real. apply Hr. exact H0. }
        assert (Hpw : Forall (within a R2 (S k)) (fst p)).
        { rewrite Forall_forall. intros it Hi. destruct (Hit it Hi) as [it0 [H0 E]]. subst it.
          rewrite Forall_forall in Hr. rewrite take_item_prune by (apply Hr; exact H0). apply prune_within. }
        destruct (IH _ _ _ _ HPre Hpr Hpw Ep) as [A1 B1]. rewrite Forall_forall in *. intros lf Hlf. split; auto.
      - rewrite Forall_forall. intros x Hx. apply in_map_iff in Hx. destruct Hx as [i [E _]]. subst x. split; exact I. }
    split; rewrite Forall_forall in *; intros lf Hlf; apply (Hboth lf Hlf).
Qed.

(* ... hence every leaf reached through split_subnet's splitter is solved optimally with its reduced range as the
   cost of not linking (C12_leaf_solved_optimally applies to it) *)
Theorem asplit_g_py_leaf_optimal : forall fuel k g ds ls,
  acfg_ok a -> (0 <= R2)%Z -> subnet_wf g ds -> Forall real_item g -> Forall (within a R2 k) g ->
  asplit_g (py_splitter a R2) fuel a k g ds = Ok ls ->
  forall k' g', In (Leaf k' g') ls ->
  exists pairs, solve_leaf a R2 (Leaf k' g') = map strip pairs /\ is_opt (leaf_items a R2 k' g') pairs.
Proof.
  intros fuel k g ds ls Ha HR HP Hr Hw H k' g' Hin.
  destruct (asplit_g_py_leaves fuel k g ds ls HP Hr Hw H) as [A1 B1]. rewrite Forall_forall in A1, B1.
  apply leaf_solved_optimally; [exact Ha|exact HR|exact (B1 _ Hin)|exact (A1 _ Hin)].
Qed.

(* split_subnet's parts that have a source ARE the model's parts (Link.components on the pruned sources that kept
   a candidate): same sources with the same candidate lists, same destinations -- as partitions (the order of the
   parts and of the sources inside a part is the dictionary's, not add_item's) *)
Theorem py_splitter_components g ds k : subnet_wf g ds -> Forall real_item g ->
  let ps := fst (py_splitter a R2 k g ds) in
  let ms := fst (model_splitter a R2 k g ds) in
  (forall p, In p ps -> fst p <> [] ->
     exists gm, In (gm, []) ms /\ Permutation (fst p) gm /\ (forall d, In d (snd p) <-> In d (gdests gm))) /\
  (forall gm, In (gm, []) ms ->
     exists p, In p ps /\ Permutation (fst p) gm /\ (forall d, In d (snd p) <-> In d (gdests gm))).
Proof.
  intros [Hnd [Hndd [Hcl Hreal]]] Hri. cbn zeta.
  set (g' := map (take_item a R2 k) g).
  assert (Eg' : map (prune a R2 k) g = g').
  { unfold g'. apply map_ext_in. intros it Hit. symmetry. apply take_item_prune. rewrite Forall_forall in Hri. apply Hri. exact Hit. }
  assert (Hfst : map fst g' = map fst g) by (unfold g'; rewrite map_map; reflexivity).
  assert (Hndg : NoDup (map fst g')) by (rewrite Hfst; exact Hnd).
  assert (Hreal' : Forall (fun it : item => all_real (snd it)) g').
  { unfold g'. rewrite Forall_forall in *. intros it Hit. apply in_map_iff in Hit. destruct Hit as [it0 [E H0]]. subst it.
    unfold take_item. cbn [snd]. apply take_le_real. apply Hreal. exact H0. }
  assert (Hcl' : forall it d, In it g' -> In d (reals (snd it)) -> In d ds).
  { intros it d Hit Hd. unfold g' in Hit. apply in_map_iff in Hit. destruct Hit as [it0 [E H0]]. subst it.
    unfold take_item in Hd. cbn [snd] in Hd. apply reals_take_incl in Hd. eapply Hcl; eassumption. }
  assert (Hfil : filter has_cands g' = filter has_reals g').
  { apply filter_ext_in. intros it Hit. apply has_cands_reals. rewrite Forall_forall in Hreal'. apply Hreal'. exact Hit. }
  assert (Hms : forall gm, In (gm, @nil nat) (fst (model_splitter a R2 k g ds)) <-> In gm (components (filter has_reals g'))).
  { intros gm. unfold model_splitter. cbn [fst]. rewrite Eg', Hfil. rewrite in_map_iff. split.
    - intros [x [E Hx]]. inversion E; subst. exact Hx.
    - intros Hx. exists gm. auto. }
  unfold py_splitter. fold g'.
  destruct (split_dict empty_mst ds (edges_of_group g')) as [ste|] eqn:Este.
  2:{ exfalso. destruct (split_dict_total empty_mst ds (edges_of_group g')) as [st' Hst'].
      - exact Hndd.
      - unfold edges_of_group. rewrite map_map. cbn [fst]. exact Hndg.
      - intros s dl d Hin Hd. unfold edges_of_group in Hin. apply in_map_iff in Hin. destruct Hin as [it [E Hit]].
        injection E as E1 E2. rewrite <- E2 in Hd. eapply Hcl'; eassumption.
      - rewrite Hst' in Este. discriminate. }
  destruct (split_dict_components empty_mst ds g' ste Hndd Hndg Hcl' Este) as [C1 [C2 [C3 _]]].
  cbn [fst].
  assert (Hback : forall gm, In gm (components (filter has_reals g')) ->
            map (fun s => (s, cands_in g' s)) (map fst gm) = gm).
  { intros gm Hgm. rewrite map_map. rewrite <- (map_id gm) at 2. apply map_ext_in. intros [s cs] Hin. cbn [fst]. unfold cands_in.
    rewrite (fc_get_in g' s cs Hndg); [reflexivity|].
    assert (Hin' : In (s, cs) (filter has_reals g')) by (eapply comps_incl; eassumption). apply filter_In in Hin'. tauto. }
  split.
  - intros p Hp Hne. apply in_map_iff in Hp. destruct Hp as [[sp dp] [E Hv]]. subst p. unfold part_of in *. cbn [fst snd] in *.
    apply in_map_iff in Hv. destruct Hv as [[i v] [E Hi]]. cbn in E. subst v.
    apply (sfind_In i (sp, dp) _ C3) in Hi.
    assert (Hsp : sp <> []) by (intros E; subst sp; apply Hne; reflexivity).
    destruct (C1 i sp dp Hi Hsp) as [gm [Hgm [Hperm Hd]]].
    exists gm. split; [apply Hms; exact Hgm|]. split; [|exact Hd].
    rewrite <- (Hback gm Hgm). apply Permutation_map. exact Hperm.
  - intros gm Hgm. apply Hms in Hgm. destruct (C2 gm Hgm) as [i [sp [dp [Hi [Hperm Hd]]]]].
    exists (part_of g' (sp, dp)). split.
    + apply in_map_iff. exists (sp, dp). split; [reflexivity|]. apply in_map_iff. exists (i, (sp, dp)). split; [reflexivity|].
      apply (sfind_In i (sp, dp) _ C3). exact Hi.
    + unfold part_of. cbn [fst snd]. split; [|exact Hd].
      rewrite <- (Hback gm Hgm). apply Permutation_map. exact Hperm.
Qed.
End PySplitterFacts.
