From Coq Require Import ZArith NArith List Bool Lia Permutation.
From TP Require Import Model.Assign Model.Link Model.LinkCheck Model.Adaptive
     Proofs.BnB Proofs.Opt Proofs.Cands Proofs.Comps Proofs.Step.
Import ListNotations.
Open Scope Z_scope.

(* ---- (a) nothing oversize: adaptive linking is plain linking ---- *)
Lemma asplit_fits fuel a R2 k g : (length g <= a_max a)%nat -> asplit fuel a R2 k g = Ok [Leaf k g].
Proof. intros H. apply Nat.leb_le in H. destruct fuel; cbn; rewrite H; reflexivity. Qed.

Lemma num0 a : num a 0 = 1. Proof. reflexivity. Qed.
Lemma den0 a : den a 0 = 1. Proof. reflexivity. Qed.

Lemma filter_true {A} (p : A -> bool) l : Forall (fun x => p x = true) l -> filter p l = l.
Proof. induction 1 as [|x l Hx _ IH]; cbn; [reflexivity|]. rewrite Hx, IH. reflexivity. Qed.

Lemma real_cands_real m sp ds : forall j, Forall (fun x => is_real x = true) (real_cands m sp ds j).
Proof. induction ds as [|d ds IH]; intros j; cbn; [constructor|]. destruct (_ <=? _); [constructor; [reflexivity|apply IH]|apply IH]. Qed.

Lemma map_id_cost (l : list cand) : map (fun dc : cand => (fst dc, snd dc * 1)) l = l.
Proof. induction l as [|[d c] l IH]; cbn; [reflexivity|]. rewrite IH, Z.mul_1_r. reflexivity. Qed.

Lemma leaf_item_level0 a m sp ds (i : nat) :
  let it := (i, cands_of m (mR2 m) sp ds) in
  (fst (strip_null it), map (fun dc : cand => (fst dc, snd dc * den a 0)) (snd (strip_null it)) ++ [(None, mR2 m * num a 0)]) = it.
Proof.
  intros it. unfold it, strip_null. cbn [fst snd]. unfold cands_of. rewrite filter_app. cbn [filter is_real fst]. rewrite app_nil_r.
  rewrite filter_true.
  - rewrite den0, num0, map_id_cost, Z.mul_1_r. reflexivity.
  - eapply Forall_perm; [apply Permutation_sym, sort_c_perm|apply real_cands_real].
Qed.

Definition geo_item (m : metric) (it : item) : Prop := exists sp ds, snd it = cands_of m (mR2 m) sp ds.

Lemma leaf_items_level0 a m g : Forall (geo_item m) g -> leaf_items a (mR2 m) 0 (map strip_null g) = g.
Proof.
  induction 1 as [|[i cs] g [sp [ds Hcs]] _ IH]; [reflexivity|]. cbn [snd] in Hcs. subst cs.
  unfold leaf_items in *. cbn [map]. f_equal; [apply (leaf_item_level0 a m sp ds i)|exact IH].
Qed.

Lemma solve_group_max_irrelevant max1 max2 g :
  (length g <= max1)%nat -> (length g <= max2)%nat -> solve_group max1 g = solve_group max2 g.
Proof.
  intros H1 H2. unfold solve_group.
  assert (E1 : (max1 <? length g)%nat = false) by (apply Nat.ltb_ge; exact H1).
  assert (E2 : (max2 <? length g)%nat = false) by (apply Nat.ltb_ge; exact H2).
  rewrite E1, E2. reflexivity.
Qed.

Lemma solve_group_ok_when_fits max g : Forall item_ok g -> (length g <= max)%nat -> exists l, solve_group max g = Ok l.
Proof.
  intros Hok Hle. destruct (solve_group_spec max g Hok) as [Ho _].
  destruct (solve_group max g) as [l|] eqn:E; [eauto|]. exfalso. destruct Ho as [Ho _]. specialize (Ho eq_refl). lia.
Qed.

Theorem adaptive_plain_when_fits_groups fuel a m gs :
  Forall (Forall (geo_item m)) gs -> Forall (Forall item_ok) gs ->
  Forall (fun g => (length g <= a_max a)%nat) gs ->
  match asplit_all fuel a (mR2 m) gs with
  | Ok ls => Ok (flat_map (solve_leaf a (mR2 m)) ls)
  | Oversize => Oversize
  end = solve_groups (a_max a) gs.
Proof.
  induction gs as [|g gs IH]; intros Hgeo Hok Hfit; [reflexivity|].
  inversion Hgeo as [|? ? Hg Hgeo']; inversion Hok as [|? ? Hokg Hok']; inversion Hfit as [|? ? Hfg Hfit']; subst.
  cbn [asplit_all solve_groups]. rewrite asplit_fits by (rewrite map_length; exact Hfg).
  specialize (IH Hgeo' Hok' Hfit').
  destruct (asplit_all fuel a (mR2 m) gs) as [ls|]; destruct (solve_groups (a_max a) gs) as [lr|]; try discriminate.
  - cbn [app flat_map]. unfold solve_leaf at 1. rewrite map_length, leaf_items_level0 by exact Hg.
    rewrite (solve_group_max_irrelevant (length g) (a_max a) g (le_n _) Hfg).
    destruct (solve_group_ok_when_fits (a_max a) g Hokg Hfg) as [l Hl]. rewrite Hl.
    inversion IH. reflexivity.
  - destruct (solve_group_ok_when_fits (a_max a) g Hokg Hfg) as [l Hl]. rewrite Hl. reflexivity.
Qed.

Lemma items_of_geo m pred st ds : Forall (geo_item m) (items_of m pred st ds).
Proof. unfold items_of. apply mapi_from_Forall. intros j s. exists (pred (now st) s), ds. reflexivity. Qed.

(* With adaptive_stop set, whenever no subnet exceeds the adaptive size limit the step is
   exactly the plain step (run with that limit). *)
Theorem adaptive_plain_when_fits fuel a m pred st ds :
  metric_ok m ->
  Forall (fun g => (length g <= a_max a)%nat) (components (items_of m pred st ds)) ->
  astep_links fuel a m pred st ds = step_links m (a_max a) pred st ds.
Proof.
  intros Hm Hfit. unfold astep_links, astep_leaves, step_links.
  destruct (components_spec (items_of m pred st ds)) as [_ Hp].
  apply adaptive_plain_when_fits_groups; [| |exact Hfit].
  - apply Forall_concat_inv. eapply Forall_perm; [apply Permutation_sym; exact Hp|apply items_of_geo].
  - apply Forall_concat_inv. eapply Forall_perm; [apply Permutation_sym; exact Hp|apply items_of_ok; exact Hm].
Qed.

(* ---- lemmas about seq_res ---- *)
Lemma seq_res_ok f ps tl ls :
  seq_res f ps tl = Ok ls ->
  (forall p, In p ps -> exists lp, f p = Ok lp /\ incl lp ls) /\ incl tl ls /\
  (forall (P : aleaf -> Prop), (forall p lp, In p ps -> f p = Ok lp -> Forall P lp) -> Forall P tl -> Forall P ls).
Proof.
  revert ls. induction ps as [|p ps IH]; intros ls H; cbn in H.
  - inversion H; subst. split; [intros p []|split; [apply incl_refl|intros P _ Ht; exact Ht]].
  - destruct (f p) as [l|] eqn:Ep; [|discriminate]. destruct (seq_res f ps tl) as [l'|] eqn:Er; [|discriminate].
    inversion H; subst ls. destruct (IH l' eq_refl) as [I1 [I2 I3]]. split; [|split].
    + intros q [E|Hq]; [subst q; exists l; split; [exact Ep|apply incl_appl, incl_refl]|].
      destruct (I1 q Hq) as [lq [E1 E2]]. exists lq. split; [exact E1|apply incl_appr; exact E2].
    + apply incl_appr. exact I2.
    + intros P HP Ht. apply Forall_app. split; [apply (HP p l (or_introl eq_refl) Ep)|].
      apply I3; [intros q lq Hq; apply HP; right; exact Hq|exact Ht].
Qed.

Lemma seq_res_oversize f ps tl : seq_res f ps tl = Oversize -> exists p, In p ps /\ f p = Oversize.
Proof.
  induction ps as [|p ps IH]; intros H; cbn in H; [discriminate|].
  destruct (f p) as [l|] eqn:Ep; [|exists p; split; [left; reflexivity|exact Ep]].
  destruct (seq_res f ps tl) as [l'|] eqn:Er; [discriminate|].
  destruct (IH eq_refl) as [q [Hq Eq]]. exists q. split; [right; exact Hq|exact Eq].
Qed.

Lemma parts_items a R2 k g it p :
  In p (components (filter has_cands (map (prune a R2 (S k)) g))) -> In it p ->
  exists it0, In it0 g /\ it = prune a R2 (S k) it0.
Proof.
  intros Hp Hit. destruct (components_spec (filter has_cands (map (prune a R2 (S k)) g))) as [_ Hperm].
  assert (Hin : In it (filter has_cands (map (prune a R2 (S k)) g))).
  { eapply Permutation_in; [exact Hperm|]. apply in_concat. exists p. auto. }
  apply filter_In in Hin. destruct Hin as [Hin _]. apply in_map_iff in Hin. destruct Hin as [it0 [E H0]]. exists it0. auto.
Qed.

(* ---- (b) every leaf only contains candidates within the range in force ---- *)
Definition within (a : acfg) (R2 : Z) (k : nat) (it : item) : Prop :=
  Forall (fun dc : cand => snd dc * den a k <= R2 * num a k) (snd it).
Definition leaf_within (a : acfg) (R2 : Z) (lf : aleaf) : Prop :=
  match lf with Leaf k g => Forall (within a R2 k) g | _ => True end.

Lemma prune_within a R2 k it : within a R2 k (prune a R2 k it).
Proof.
  unfold within, prune. cbn. rewrite Forall_forall. intros dc H. apply filter_In in H. destruct H as [_ H]. apply Z.leb_le. exact H.
Qed.

Lemma dropped_trivial (P : aleaf -> Prop) (l : list item) : (forall i, P (Dropped i)) -> Forall P (map (fun it : item => Dropped (fst it)) l).
Proof. intros H. rewrite Forall_forall. intros x Hx. apply in_map_iff in Hx. destruct Hx as [y [E _]]. subst x. apply H. Qed.

Theorem asplit_leaves_within a R2 : forall fuel k g ls,
  Forall (within a R2 k) g -> asplit fuel a R2 k g = Ok ls -> Forall (leaf_within a R2) ls.
Proof.
  induction fuel as [|fuel IH]; intros k g ls Hw H; cbn in H.
  - destruct (length g <=? a_max a)%nat; [inversion H; subst; repeat constructor; exact Hw|].
    destruct (at_stop a k); [discriminate|]. inversion H; subst. repeat constructor.
  - destruct (length g <=? a_max a)%nat; [inversion H; subst; repeat constructor; exact Hw|].
    destruct (at_stop a k); [discriminate|].
    destruct (seq_res_ok _ _ _ _ H) as [_ [_ HP]]. apply HP.
    + intros p lp Hp Ep. eapply IH; [|exact Ep].
      rewrite Forall_forall. intros it Hit. destruct (parts_items _ _ _ _ _ _ Hp Hit) as [it0 [_ E]]. subst it. apply prune_within.
    + apply dropped_trivial. intros i. exact I.
Qed.

(* ---- (c) each leaf is solved optimally with its reduced range as the cost of not linking ---- *)
Definition real_item (it : item) : Prop :=
  sorted (snd it) /\ Forall (fun dc : cand => 0 <= snd dc) (snd it) /\ Forall (fun dc => is_real dc = true) (snd it).

Definition acfg_ok (a : acfg) : Prop := 0 < a_p a /\ 0 < a_q a.

Lemma pow_pos_z b e : 0 < b -> 0 < Z.pow b (2 * Z.of_nat e).
Proof. intros H. apply Z.pow_pos_nonneg; lia. Qed.

Lemma sorted_filter (p : cand -> bool) l : sorted l -> sorted (filter p l).
Proof.
  induction 1 as [|dc l Hle _ IH]; cbn; [constructor|]. destruct (p dc); [|exact IH].
  constructor; [|exact IH]. rewrite Forall_forall in *. intros x Hx. apply filter_In in Hx. apply Hle. tauto.
Qed.

Lemma Forall_filter {A} (P : A -> Prop) (p : A -> bool) l : Forall P l -> Forall P (filter p l).
Proof. intros H. rewrite Forall_forall in *. intros x Hx. apply filter_In in Hx. apply H. tauto. Qed.

Lemma prune_real a R2 k it : real_item it -> real_item (prune a R2 k it).
Proof. intros [H1 [H2 H3]]. unfold real_item, prune. cbn. repeat split; [apply sorted_filter|apply Forall_filter|apply Forall_filter]; assumption. Qed.

Lemma strip_null_real m it : geo_item m it -> metric_ok m -> real_item (strip_null it).
Proof.
  intros [sp [ds E]] Hm. unfold real_item, strip_null. cbn. rewrite E. repeat split.
  - apply sorted_filter. apply cands_of_sorted.
  - apply Forall_filter. apply cands_of_nonneg. exact Hm.
  - rewrite Forall_forall. intros x Hx. apply filter_In in Hx. tauto.
Qed.

Lemma sorted_scale (f : Z) (l : list cand) : 0 < f -> sorted l -> sorted (map (fun dc : cand => (fst dc, snd dc * f)) l).
Proof.
  intros Hf. induction 1 as [|dc l Hle _ IH]; cbn; [constructor|]. constructor; [|exact IH].
  rewrite Forall_forall in *. intros x Hx. apply in_map_iff in Hx. destruct Hx as [y [E Hy]]. subst x. cbn. specialize (Hle y Hy). nia.
Qed.

Lemma leaf_item_ok a R2 k it :
  acfg_ok a -> 0 <= R2 -> real_item it -> within a R2 k it ->
  item_ok (fst it, map (fun dc : cand => (fst dc, snd dc * den a k)) (snd it) ++ [(None, R2 * num a k)]).
Proof.
  intros [Hp Hq] HR [Hs [Hn Hr]] Hw. unfold item_ok. cbn [snd].
  assert (Hden : 0 < den a k) by (apply pow_pos_z; exact Hq).
  assert (Hnum : 0 < num a k) by (apply pow_pos_z; exact Hp).
  split; [|split].
  - apply sorted_app_last; [apply sorted_scale; assumption|].
    rewrite Forall_forall. intros x Hx. apply in_map_iff in Hx. destruct Hx as [y [E Hy]]. subst x. cbn.
    unfold within in Hw. rewrite Forall_forall in Hw. exact (Hw y Hy).
  - apply Forall_app. split.
    + rewrite Forall_forall in *. intros x Hx. apply in_map_iff in Hx. destruct Hx as [y [E Hy]]. subst x. cbn. specialize (Hn y Hy). nia.
    + constructor; [cbn; nia|constructor].
  - exists (R2 * num a k). apply in_or_app. right. left. reflexivity.
Qed.

Definition leaf_real (lf : aleaf) : Prop := match lf with Leaf _ g => Forall real_item g | _ => True end.

Theorem asplit_leaves_real a R2 : forall fuel k g ls,
  Forall real_item g -> asplit fuel a R2 k g = Ok ls -> Forall leaf_real ls.
Proof.
  induction fuel as [|fuel IH]; intros k g ls Hw H; cbn in H.
  - destruct (length g <=? a_max a)%nat; [inversion H; subst; repeat constructor; exact Hw|].
    destruct (at_stop a k); [discriminate|]. inversion H; subst. repeat constructor.
  - destruct (length g <=? a_max a)%nat; [inversion H; subst; repeat constructor; exact Hw|].
    destruct (at_stop a k); [discriminate|].
    destruct (seq_res_ok _ _ _ _ H) as [_ [_ HP]]. apply HP.
    + intros p lp Hp Ep. eapply IH; [|exact Ep].
      rewrite Forall_forall. intros it Hit. destruct (parts_items _ _ _ _ _ _ Hp Hit) as [it0 [H0 E]]. subst it. apply prune_real.
      rewrite Forall_forall in Hw. apply Hw. exact H0.
    + apply dropped_trivial. intros i. exact I.
Qed.

(* Every sub-group is solved optimally, the cost of leaving a source unlinked being the
   square of the reduced range in force for that sub-group. *)
Theorem leaf_solved_optimally a R2 k g :
  acfg_ok a -> 0 <= R2 -> Forall real_item g -> Forall (within a R2 k) g ->
  exists pairs, solve_leaf a R2 (Leaf k g) = map strip pairs /\ is_opt (leaf_items a R2 k g) pairs.
Proof.
  intros Ha HR Hr Hw. unfold solve_leaf.
  assert (Hok : Forall item_ok (leaf_items a R2 k g)).
  { unfold leaf_items. rewrite Forall_forall. intros x Hx. apply in_map_iff in Hx. destruct Hx as [it [E Hit]]. subst x.
    rewrite Forall_forall in Hr, Hw. apply leaf_item_ok; auto. }
  assert (Hlen : length (leaf_items a R2 k g) = length g) by (unfold leaf_items; apply map_length).
  destruct (solve_group_spec (length g) (leaf_items a R2 k g) Hok) as [Ho Hk].
  destruct (solve_group (length g) (leaf_items a R2 k g)) as [l|] eqn:E.
  - exact (Hk l eq_refl).
  - exfalso. destruct Ho as [Ho _]. specialize (Ho eq_refl). lia.
Qed.

(* ---- (d) when the split gives up ---- *)
(* groups met while splitting: the start group, and every part of an oversize group that
   has not yet reached the stop *)
Inductive reach (a : acfg) (R2 : Z) : nat -> group -> nat -> group -> Prop :=
| reach_here k g : reach a R2 k g k g
| reach_part k g p k' g' :
    (a_max a < length g)%nat -> at_stop a k = false ->
    In p (components (filter has_cands (map (prune a R2 (S k)) g))) ->
    reach a R2 (S k) p k' g' -> reach a R2 k g k' g'.

(* SubnetOversizeException is raised only when a still-oversize group has reached a range
   at or below adaptive_stop *)
Theorem asplit_raise_sound a R2 : forall fuel k g,
  asplit fuel a R2 k g = Oversize ->
  exists k' g', reach a R2 k g k' g' /\ (a_max a < length g')%nat /\ at_stop a k' = true.
Proof.
  induction fuel as [|fuel IH]; intros k g H; cbn in H.
  - destruct (length g <=? a_max a)%nat eqn:El; [discriminate|]. apply Nat.leb_gt in El.
    destruct (at_stop a k) eqn:Es; [|discriminate]. exists k, g. split; [constructor|auto].
  - destruct (length g <=? a_max a)%nat eqn:El; [discriminate|]. apply Nat.leb_gt in El.
    destruct (at_stop a k) eqn:Es; [exists k, g; split; [constructor|auto]|].
    destruct (seq_res_oversize _ _ _ H) as [p [Hin Hov]]. destruct (IH _ _ Hov) as [k' [g' [Hr [Hl Hs]]]].
    exists k', g'. split; [eapply reach_part; eauto|auto].
Qed.

(* ... and conversely: when it returns (without running out of fuel), no oversize group met
   on the way was at or below the stop.  Together: raise exactly when. *)
Theorem asplit_ok_complete a R2 : forall fuel k g ls,
  asplit fuel a R2 k g = Ok ls -> ~ In OutOfFuel ls ->
  forall k' g', reach a R2 k g k' g' -> (a_max a < length g')%nat -> at_stop a k' = false.
Proof.
  induction fuel as [|fuel IH]; intros k g ls H Hnf k' g' Hr Hl.
  - cbn in H. destruct (length g <=? a_max a)%nat eqn:El.
    + apply Nat.leb_le in El. inversion Hr; subst; lia.
    + destruct (at_stop a k) eqn:Es; [discriminate|]. inversion H; subst. exfalso. apply Hnf. left; reflexivity.
  - cbn in H. destruct (length g <=? a_max a)%nat eqn:El.
    + apply Nat.leb_le in El. inversion Hr; subst; lia.
    + destruct (at_stop a k) eqn:Es; [discriminate|].
      inversion Hr as [|? ? p ? ? Hov Hst Hin Hr']; subst; [exact Es|].
      destruct (seq_res_ok _ _ _ _ H) as [Hall _]. destruct (Hall p Hin) as [lp [Ep Hincl]].
      eapply IH; [exact Ep|intros Hf; apply Hnf; apply Hincl; exact Hf|exact Hr'|exact Hl].
Qed.

(* ---- (e) fuel: the split always reaches the stop, so OutOfFuel never appears ---- *)
Lemma bernoulli p : 0 < p -> forall k : nat, Z.pow p (Z.of_nat k) + Z.of_nat k * Z.pow p (Z.of_nat k - 1) <= Z.pow (p + 1) (Z.of_nat k) \/ k = 0%nat.
Proof.
  intros Hp k. destruct k as [|k]; [right; reflexivity|left].
  induction k as [|k IH].
  - change (Z.of_nat 1) with 1. rewrite !Z.pow_1_r. replace (1 - 1) with 0 by lia. rewrite Z.pow_0_r. lia.
  - replace (Z.of_nat (S (S k))) with (Z.of_nat (S k) + 1) by lia.
    rewrite !Z.pow_add_r, !Z.pow_1_r by lia.
    replace (Z.of_nat (S k) + 1 - 1) with (Z.of_nat (S k)) by lia.
    assert (Hpk : 0 < p ^ Z.of_nat (S k)) by (apply Z.pow_pos_nonneg; lia).
    assert (Hsplit : p ^ Z.of_nat (S k) = p * p ^ (Z.of_nat (S k) - 1)).
    { replace (Z.of_nat (S k)) with ((Z.of_nat (S k) - 1) + 1) at 1 by lia. rewrite Z.pow_add_r, Z.pow_1_r by lia. ring. }
    assert (Hq : 0 <= p ^ (Z.of_nat (S k) - 1)) by (apply Z.pow_nonneg; lia).
    nia.
Qed.

Lemma stop_reached a : 0 < a_p a -> a_p a < a_q a -> 0 < a_sn a -> 0 < a_sd a ->
  at_stop a (Z.to_nat (a_p a * a_sd a)) = true.
Proof.
  intros Hp Hpq Hsn Hsd. unfold at_stop. apply Z.leb_le.
  set (K := Z.to_nat (a_p a * a_sd a)). assert (HK : Z.of_nat K = a_p a * a_sd a) by (unfold K; rewrite Z2Nat.id; nia).
  assert (HKpos : (K <> 0)%nat) by (intros E; rewrite E in HK; cbn in HK; nia).
  destruct (bernoulli (a_p a) Hp K) as [Hb|E]; [|contradiction].
  assert (Hmono : (a_p a + 1) ^ Z.of_nat K <= a_q a ^ Z.of_nat K) by (apply Z.pow_le_mono_l; lia).
  assert (Hsplit : a_p a ^ Z.of_nat K = a_p a * a_p a ^ (Z.of_nat K - 1)).
  { replace (Z.of_nat K) with ((Z.of_nat K - 1) + 1) at 1 by lia. rewrite Z.pow_add_r, Z.pow_1_r by lia. ring. }
  assert (Hq : 0 < a_p a ^ (Z.of_nat K - 1)) by (apply Z.pow_pos_nonneg; lia).
  assert (Hqk : 0 < a_q a ^ Z.of_nat K) by (apply Z.pow_pos_nonneg; lia).
  (* q^K >= p^K + K p^(K-1) = p^(K-1) (p + p sd) >= p^(K-1) p sd = p^K sd *)
  set (P := a_p a ^ (Z.of_nat K - 1)) in *. set (Q := a_q a ^ Z.of_nat K) in *. set (A := (a_p a + 1) ^ Z.of_nat K) in *.
  rewrite Hsplit in Hb |- *.
  assert (H1 : a_p a * P * a_sd a <= Q).
  { assert (H2 : a_p a * P + Z.of_nat K * P <= Q) by lia. rewrite HK in H2.
    assert (H3 : 0 <= a_p a * P) by nia. replace (a_p a * P * a_sd a) with (a_p a * a_sd a * P) by ring. lia. }
  assert (H4 : Q <= a_sn a * Q) by nia. lia.
Qed.

Lemma at_stop_mono a k k' : 0 < a_p a -> a_p a < a_q a -> 0 < a_sn a -> 0 < a_sd a ->
  (k <= k')%nat -> at_stop a k = true -> at_stop a k' = true.
Proof.
  intros Hp Hpq Hsn Hsd Hle H. unfold at_stop in *. apply Z.leb_le in H. apply Z.leb_le.
  replace (Z.of_nat k') with (Z.of_nat k + Z.of_nat (k' - k)) by lia. rewrite !Z.pow_add_r by lia.
  set (d := Z.of_nat (k' - k)).
  assert (Hd : a_p a ^ d <= a_q a ^ d) by (apply Z.pow_le_mono_l; lia).
  assert (Hpd : 0 < a_p a ^ d) by (apply Z.pow_pos_nonneg; unfold d; lia).
  assert (Hpk : 0 < a_p a ^ Z.of_nat k) by (apply Z.pow_pos_nonneg; lia).
  assert (Hqk : 0 < a_q a ^ Z.of_nat k) by (apply Z.pow_pos_nonneg; lia).
  nia.
Qed.

Theorem asplit_no_out_of_fuel a R2 : 0 < a_p a -> a_p a < a_q a -> 0 < a_sn a -> 0 < a_sd a ->
  forall fuel k g ls, (Z.to_nat (a_p a * a_sd a) < fuel + k)%nat ->
  asplit fuel a R2 k g = Ok ls -> ~ In OutOfFuel ls.
Proof.
  intros Hp Hpq Hsn Hsd. set (K := Z.to_nat (a_p a * a_sd a)).
  induction fuel as [|fuel IH]; intros k g ls Hf H; cbn in H.
  - destruct (length g <=? a_max a)%nat; [inversion H; subst; intros [E|[]]; discriminate|].
    assert (Hs : at_stop a k = true) by (eapply (at_stop_mono a K k); try assumption; [lia|apply stop_reached; assumption]).
    rewrite Hs in H. discriminate.
  - destruct (length g <=? a_max a)%nat; [inversion H; subst; intros [E|[]]; discriminate|].
    destruct (at_stop a k); [discriminate|].
    destruct (seq_res_ok _ _ _ _ H) as [_ [_ HP]].
    assert (HF : Forall (fun lf => lf <> OutOfFuel) ls).
    { apply HP.
      - intros p lp Hp' Ep. rewrite Forall_forall. intros lf Hlf E. subst lf. eapply (IH (S k) p lp); [lia|exact Ep|exact Hlf].
      - apply dropped_trivial. intros i; discriminate. }
    rewrite Forall_forall in HF. intros Hin. exact (HF _ Hin eq_refl).
Qed.
