From Coq Require Import ZArith NArith List Bool Lia Permutation.
From TP Require Import Model.Assign Model.Link Model.LinkCheck Model.Adaptive
     Proofs.BnB Proofs.Opt Proofs.Cands Proofs.Comps Proofs.Step.
Import ListNotations.
Open Scope Z_scope.

(* ---- (a) nothing oversize: adaptive linking is plain linking ---- *)
Lemma asplit_fits fuel a R2 k g : (length g <= a_max a)%nat -> asplit fuel a R2 k g = Ok [Leaf k g].
Proof. intros H. apply Nat.leb_le in H. destruct fuel; cbn; rewrite H; reflexivity. Qed.

Lemma num0 a : num a 0 = 1. Proof. reflexivity. Qed.
Lemma den0 a : den a 0 = 1. Proof. reflexivity. Qed.

Lemma filter_true {A} (p : A -> bool) l : Forall (fun x => p x = true) l -> filter p l = l.
Proof. induction 1 as [|x l Hx _ IH]; cbn; [reflexivity|]. rewrite Hx, IH. reflexivity. Qed.

Lemma real_cands_real m sp ds : forall j, Forall (fun x => is_real x = true) (real_cands m sp ds j).
Proof. induction ds as [|d ds IH]; intros j; cbn; [constructor|]. destruct (_ <=? _); [constructor; [reflexivity|apply IH]|apply IH]. Qed.

Lemma map_id_cost (l : list cand) : map (fun dc : cand => (fst dc, snd dc * 1)) l = l.
Proof. induction l as [|[d c] l IH]; cbn; [reflexivity|]. rewrite IH, Z.mul_1_r. reflexivity. Qed.

Lemma leaf_item_level0 a m sp ds (i : nat) :
  let it := (i, cands_of m (mR2 m) sp ds) in
  (fst (strip_null it), map (fun dc : cand => (fst dc, snd dc * den a 0)) (snd (strip_null it)) ++ [(None, mR2 m * num a 0)]) = it.
Proof.
  intros it. unfold it, strip_null. cbn [fst snd]. unfold cands_of. rewrite filter_app. cbn [filter is_real fst]. rewrite app_nil_r.
  rewrite filter_true.
  - rewrite den0, num0, map_id_cost, Z.mul_1_r. reflexivity.
  - eapply Forall_perm; [apply Permutation_sym, sort_c_perm|apply real_cands_real].
Qed.

Definition geo_item (m : metric) (it : item) : Prop := exists sp ds, snd it = cands_of m (mR2 m) sp ds.

Lemma leaf_items_level0 a m g : Forall (geo_item m) g -> leaf_items a (mR2 m) 0 (map strip_null g) = g.
Proof.
  induction 1 as [|[i cs] g [sp [ds Hcs]] _ IH]; [reflexivity|]. cbn [snd] in Hcs. subst cs.
  unfold leaf_items in *. cbn [map]. f_equal; [apply (leaf_item_level0 a m sp ds i)|exact IH].
Qed.

Lemma solve_group_max_irrelevant max1 max2 g :
  (length g <= max1)%nat -> (length g <= max2)%nat -> solve_group max1 g = solve_group max2 g.
Proof.
  intros H1 H2. unfold solve_group.
  assert (E1 : (max1 <? length g)%nat = false) by (apply Nat.ltb_ge; exact H1).
  assert (E2 : (max2 <? length g)%nat = false) by (apply Nat.ltb_ge; exact H2).
  rewrite E1, E2. reflexivity.
Qed.

Lemma solve_group_ok_when_fits max g : Forall item_ok g -> (length g <= max)%nat -> exists l, solve_group max g = Ok l.
Proof.
  intros Hok Hle. destruct (solve_group_spec max g Hok) as [Ho _].
  destruct (solve_group max g) as [l|] eqn:E; [eauto|]. exfalso. destruct Ho as [Ho _]. specialize (Ho eq_refl). lia.
Qed.

Theorem adaptive_plain_when_fits_groups fuel a m gs :
  Forall (Forall (geo_item m)) gs -> Forall (Forall item_ok) gs ->
  Forall (fun g => (length g <= a_max a)%nat) gs ->
  match asplit_all fuel a (mR2 m) gs with
  | Ok ls => Ok (flat_map (solve_leaf a (mR2 m)) ls)
  | Oversize => Oversize
  end = solve_groups (a_max a) gs.
Proof.
  induction gs as [|g gs IH]; intros Hgeo Hok Hfit; [reflexivity|].
  inversion Hgeo as [|? ? Hg Hgeo']; inversion Hok as [|? ? Hokg Hok']; inversion Hfit as [|? ? Hfg Hfit']; subst.
  cbn [asplit_all solve_groups]. rewrite asplit_fits by (rewrite map_length; exact Hfg).
  specialize (IH Hgeo' Hok' Hfit').
  destruct (asplit_all fuel a (mR2 m) gs) as [ls|]; destruct (solve_groups (a_max a) gs) as [lr|]; try discriminate.
  - cbn [app flat_map]. unfold solve_leaf at 1. rewrite map_length, leaf_items_level0 by exact Hg.
    rewrite (solve_group_max_irrelevant (length g) (a_max a) g (le_n _) Hfg).
    destruct (solve_group_ok_when_fits (a_max a) g Hokg Hfg) as [l Hl]. rewrite Hl.
    inversion IH. reflexivity.
  - destruct (solve_group_ok_when_fits (a_max a) g Hokg Hfg) as [l Hl]. rewrite Hl. reflexivity.
Qed.

Lemma items_of_geo m pred st ds : Forall (geo_item m) (items_of m pred st ds).
Proof. unfold items_of. apply mapi_from_Forall. intros j s. exists (pred (now st) s), ds. reflexivity. Qed.

(* With adaptive_stop set, whenever no subnet exceeds the adaptive size limit the step is
   exactly the plain step (run with that limit). *)
Theorem adaptive_plain_when_fits fuel a m pred st ds :
  metric_ok m ->
  Forall (fun g => (length g <= a_max a)%nat) (components (items_of m pred st ds)) ->
  astep_links fuel a m pred st ds = step_links m (a_max a) pred st ds.
Proof.
  intros Hm Hfit. unfold astep_links, astep_leaves, step_links.
  destruct (components_spec (items_of m pred st ds)) as [_ Hp].
  apply adaptive_plain_when_fits_groups; [| |exact Hfit].
  - apply Forall_concat_inv. eapply Forall_perm; [apply Permutation_sym; exact Hp|apply items_of_geo].
  - apply Forall_concat_inv. eapply Forall_perm; [apply Permutation_sym; exact Hp|apply items_of_ok; exact Hm].
Qed.

(* ---- (b) every leaf only contains candidates within the range in force ---- *)
Definition within (a : acfg) (R2 : Z) (k : nat) (it : item) : Prop :=
  Forall (fun dc : cand => snd dc * den a k <= R2 * num a k) (snd it).
Definition leaf_within (a : acfg) (R2 : Z) (lf : aleaf) : Prop :=
  match lf with Leaf k g => Forall (within a R2 k) g | _ => True end.

Lemma prune_within a R2 k it : within a R2 k (prune a R2 k it).
Proof.
  unfold within, prune. cbn. rewrite Forall_forall. intros dc H. apply filter_In in H. destruct H as [_ H]. apply Z.leb_le. exact H.
Qed.

Theorem asplit_leaves_within a R2 : forall fuel k g ls,
  Forall (within a R2 k) g -> asplit fuel a R2 k g = Ok ls -> Forall (leaf_within a R2) ls.
Proof.
  induction fuel as [|fuel IH]; intros k g ls Hw H; cbn in H.
  - destruct (length g <=? a_max a)%nat; [inversion H; subst; repeat constructor; exact Hw|].
    destruct (at_stop a k); [discriminate|]. inversion H; subst. repeat constructor.
  - destruct (length g <=? a_max a)%nat; [inversion H; subst; repeat constructor; exact Hw|].
    destruct (at_stop a k); [discriminate|].
    set (g' := map (prune a R2 (S k)) g) in *.
    set (dropped := map (fun it : item => Dropped (fst it)) (filter (fun it => negb (has_cands it)) g')) in *.
    assert (Hparts : Forall (Forall (within a R2 (S k))) (components (filter has_cands g'))).
    { apply Forall_concat_inv. destruct (components_spec (filter has_cands g')) as [_ Hp].
      eapply Forall_perm; [apply Permutation_sym; exact Hp|].
      rewrite Forall_forall. intros it Hit. apply filter_In in Hit. destruct Hit as [Hit _].
      unfold g' in Hit. apply in_map_iff in Hit. destruct Hit as [it0 [E _]]. subst it. apply prune_within. }
    revert ls H. generalize (components (filter has_cands g')) Hparts. clear Hparts.
    intros parts. induction 1 as [|p ps Hp _ IHps]; intros ls H.
    + inversion H; subst. unfold dropped. rewrite Forall_forall. intros lf Hlf. apply in_map_iff in Hlf. destruct Hlf as [x [E _]]. subst lf. exact I.
    + destruct (asplit fuel a R2 (S k) p) as [l|] eqn:El; [|discriminate].
      match type of H with context [match ?X with _ => _ end] => destruct X as [l'|] eqn:Ego; [|discriminate] end.
      inversion H; subst ls. apply Forall_app. split; [eapply IH; eassumption|apply IHps; reflexivity].
Qed.
