(* Trajectory-level soundness of the monitor (C01 as stated): if [check_run] accepts the
   labels an implementation produced for a movie (no predictor), then every frame is
   labelled without repetition and any two CONSECUTIVE observations of one label are at
   most memory+1 frames and at most search_range apart. *)
From Coq Require Import ZArith NArith List Bool Lia.
From TP Require Import Model.Assign Model.Link Model.LinkCheck Proofs.Labels Proofs.Monitor.
Import ListNotations.
Local Open Scope nat_scope.

(* label L sits at position j of frame t, whose point is p *)
Definition occ (frames : list (list pt)) (out : list (list nat)) (t j L : nat) (p : pt) : Prop :=
  exists labs ds, nth_error out t = Some labs /\ nth_error frames t = Some ds /\
                  nth_error labs j = Some L /\ nth_error ds j = Some p.
Definition occurs (out : list (list nat)) (t L : nat) : Prop :=
  exists labs, nth_error out t = Some labs /\ In L labs.

Lemma nodup_b_spec l : nodup_b l = true -> NoDup l.
Proof.
  induction l as [|x l IH]; cbn; intros H; [constructor|].
  apply andb_true_iff in H. destruct H as [H1 H2]. apply negb_true_iff in H1. constructor; [|apply IH; exact H2].
  intros Hin. assert (existsb (Nat.eqb x) l = true) by (apply existsb_exists; exists x; split; [exact Hin|apply Nat.eqb_refl]). congruence.
Qed.

Lemma find_lab_first labs L : forall j0, NoDup labs -> forall j, nth_error labs j = Some L -> find_lab labs L j0 = Some (j0 + j).
Proof.
  induction labs as [|x labs IH]; intros j0 Hn j Hj; [destruct j; discriminate|].
  inversion Hn as [|? ? Hx Hn']; subst. destruct j as [|j]; cbn in *.
  - inversion Hj; subst x. rewrite Nat.eqb_refl, Nat.add_0_r. reflexivity.
  - destruct (Nat.eqb x L) eqn:E.
    + apply Nat.eqb_eq in E. subst x. exfalso. apply Hx. eapply nth_error_In; exact Hj.
    + rewrite (IH (S j0) Hn' j Hj). f_equal. lia.
Qed.

Lemma find_lab_none labs L j0 : ~ In L labs -> find_lab labs L j0 = None.
Proof.
  revert j0; induction labs as [|x labs IH]; intros j0 H; [reflexivity|]. cbn.
  destruct (Nat.eqb x L) eqn:E; [apply Nat.eqb_eq in E; subst; exfalso; apply H; left; reflexivity|].
  apply IH. intros Hin; apply H; right; exact Hin.
Qed.

Lemma max_list_ge l x : In x l -> x <= max_list l.
Proof. unfold max_list. induction l as [|a l IH]; intros H; [destruct H|]. cbn [fold_right]. destruct H as [H|H]; [subst; lia|specialize (IH H); lia]. Qed.

(* the invariant carried through the run: [t] frames have been processed, prefixes [fr]/[ou] *)
Record tinv (m : metric) (mem : nat) (fr : list (list pt)) (ou : list (list nat)) (st : lstate) : Prop := {
  ti_now : now st = length ou;
  ti_len : length fr = length ou;
  ti_nodup : NoDup (map s_lab (live st));
  ti_live : forall s, In s (live st) ->
      s_seen s < now st /\ now st - s_seen s <= mem + 1 /\
      (exists j, occ fr ou (s_seen s) j (s_lab s) (s_pos s)) /\
      (forall u, s_seen s < u < now st -> ~ occurs ou u (s_lab s));
  ti_old : forall u L, occurs ou u L -> L < next_id st;
}.

Definition pairs_ok (m : metric) (mem : nat) (fr : list (list pt)) (ou : list (list nat)) : Prop :=
  Forall2 (fun ds labs => length labs = length ds /\ NoDup labs) fr ou /\
  forall t1 t2 j1 j2 L p1 p2, t1 < t2 -> occ fr ou t1 j1 L p1 -> occ fr ou t2 j2 L p2 ->
    (forall u, t1 < u < t2 -> ~ occurs ou u L) ->
    t2 - t1 <= mem + 1 /\ (d2w (mw m) p1 p2 <= mR2 m)%Z.

Lemma occ_app fr ou ds labs t j L p : length fr = length ou ->
  occ (fr ++ [ds]) (ou ++ [labs]) t j L p <->
  (occ fr ou t j L p \/ (t = length ou /\ nth_error labs j = Some L /\ nth_error ds j = Some p)).
Proof.
  intros HL. unfold occ. split.
  - intros [labs' [ds' [H1 [H2 [H3 H4]]]]].
    destruct (Nat.lt_ge_cases t (length ou)) as [Hlt|Hge].
    + left. rewrite nth_error_app1 in H1 by exact Hlt. rewrite nth_error_app1 in H2 by lia. eauto 6.
    + right. rewrite nth_error_app2 in H1 by exact Hge. rewrite nth_error_app2 in H2 by lia. rewrite HL in H2.
      destruct (t - length ou) as [|z] eqn:E; cbn in H1, H2; [|destruct z; discriminate].
      inversion H1; inversion H2; subst. split; [lia|auto].
  - intros [[labs' [ds' [H1 [H2 [H3 H4]]]]]|[Et [H3 H4]]].
    + exists labs', ds'. assert (t < length ou) by (apply nth_error_Some; congruence).
      rewrite nth_error_app1 by assumption. rewrite nth_error_app1 by lia. auto.
    + subst t. exists labs, ds. rewrite nth_error_app2 by lia. rewrite nth_error_app2 by lia. rewrite HL, Nat.sub_diag. cbn. auto.
Qed.

Lemma occurs_app ou labs u L :
  occurs (ou ++ [labs]) u L <-> (occurs ou u L \/ (u = length ou /\ In L labs)).
Proof.
  unfold occurs. split.
  - intros [labs' [H1 H2]]. destruct (Nat.lt_ge_cases u (length ou)) as [Hlt|Hge].
    + left. rewrite nth_error_app1 in H1 by exact Hlt. eauto.
    + right. rewrite nth_error_app2 in H1 by exact Hge. destruct (u - length ou) as [|z] eqn:E; cbn in H1; [|destruct z; discriminate].
      inversion H1; subst. split; [lia|exact H2].
  - intros [[labs' [H1 H2]]|[Eu H2]].
    + exists labs'. assert (u < length ou) by (apply nth_error_Some; congruence). rewrite nth_error_app1 by assumption. auto.
    + subst u. exists labs. rewrite nth_error_app2 by lia. rewrite Nat.sub_diag. auto.
Qed.

Lemma occ_occurs fr ou t j L p : occ fr ou t j L p -> occurs ou t L.
Proof. intros [labs [ds [H1 [_ [H3 _]]]]]. exists labs. split; [exact H1|eapply nth_error_In; exact H3]. Qed.

Lemma occurs_lt ou u L : occurs ou u L -> u < length ou.
Proof. intros [labs [H _]]. apply nth_error_Some. congruence. Qed.

(* one accepted step extends the invariant and the pair property *)
Lemma step_extends m mem max_size fr ou st ds labs st' :
  tinv m mem fr ou st -> pairs_ok m mem fr ou ->
  check_step m mem max_size no_pred st ds labs = (0%N, st') ->
  tinv m mem (fr ++ [ds]) (ou ++ [labs]) st' /\ pairs_ok m mem (fr ++ [ds]) (ou ++ [labs]).
Proof.
  intros Hinv [HF Hpairs] H. unfold check_step in H.
  set (links := links_of_labels m no_pred st ds labs) in *.
  destruct (Nat.eqb (length labs) (length ds)) eqn:EL; cbn in H; [|inversion H]. apply Nat.eqb_eq in EL.
  destruct (nodup_b labs) eqn:ENd; cbn in H; [|inversion H]. apply nodup_b_spec in ENd.
  destruct (born_fresh st labs) eqn:EB; cbn in H; [|inversion H].
  destruct (links_in_range m links) eqn:ER; cbn in H; [|inversion H].
  assert (Hst' : st' = resync mem st ds labs links).
  { destruct (step_links m max_size no_pred st ds) as [opt|]; [|inversion H].
    destruct (links_total opt <? links_total links)%Z; [inversion H|]. destruct (links_total links <? links_total opt)%Z; inversion H; reflexivity. }
  clear H. pose proof (ti_now _ _ _ _ _ Hinv) as Hnow. pose proof (ti_len _ _ _ _ _ Hinv) as Hlen.
  (* a label of the new frame is either a live source's label, linked within range, or brand new *)
  assert (Hborn : forall L, In L labs -> (exists s, In s (live st) /\ s_lab s = L) \/ next_id st <= L).
  { intros L HL. unfold born_fresh in EB. rewrite forallb_forall in EB. specialize (EB L HL). apply orb_true_iff in EB.
    destruct EB as [E|E]; [left|right; apply Nat.leb_le; exact E].
    apply existsb_exists in E. destruct E as [s [Hs E]]. apply Nat.eqb_eq in E. eauto. }
  assert (Hlink : forall s j p, In s (live st) -> nth_error labs j = Some (s_lab s) -> nth_error ds j = Some p ->
                  (d2w (mw m) (s_pos s) p <= mR2 m)%Z).
  { intros s j p Hs Hj Hp. destruct (In_nth_error _ _ Hs) as [i Hi].
    assert (Hin : In (i, (Some j, d2w (mw m) (s_pos s) p)) links).
    { unfold links. rewrite links_of_labels_eq.
      pose proof (mapi_from_nth (fun i s => (i, choice m no_pred st ds labs s)) (live st) 0 i s Hi) as Hn.
      apply nth_error_In in Hn. cbn in Hn. unfold choice in Hn. rewrite (find_lab_first labs (s_lab s) 0 ENd j Hj) in Hn. cbn in Hn.
      unfold no_pred in Hn. rewrite (nth_error_nth _ _ _ Hp) in Hn. exact Hn. }
    eapply links_in_range_spec; eassumption. }
  split.
  - (* the invariant for the resynced state *)
    subst st'. constructor; cbn [resync live now next_id].
    + rewrite app_length, Hnow. cbn. lia.
    + rewrite !app_length. cbn. lia.
    + rewrite map_app, mk_srcs_labs by exact EL. apply Opt.NoDup_app_intro; [exact ENd|apply remembered_nodup; exact (ti_nodup _ _ _ _ _ Hinv)|].
      intros L H1 H2. apply in_map_iff in H2. destruct H2 as [s [E Hs]]. destruct (remembered_spec _ _ _ _ _ _ Hs) as [k [Hk [Hu _]]]. cbn in Hu.
      (* an unlinked source's label does not occur in the new frame *)
      destruct (unlinked_in _ _ Hu) as [c Hc]. unfold links in Hc. rewrite links_of_labels_eq in Hc.
      apply mapi_from_in in Hc. destruct Hc as [i [s2 [Hi E2]]]. cbn in E2. inversion E2 as [[Ei Ech]]. subst i.
      assert (s2 = s) by congruence. subst s2. unfold choice in Ech.
      destruct (find_lab labs (s_lab s) 0) as [j|] eqn:Ef; [discriminate|].
      apply In_nth_error in H1. destruct H1 as [j Hj]. rewrite <- E in Hj.
      rewrite (find_lab_first labs (s_lab s) 0 ENd j Hj) in Ef. discriminate.
    + intros s Hs. apply in_app_or in Hs. destruct Hs as [Hs|Hs].
      * (* a point of the new frame *)
        destruct (mk_srcs_in _ _ _ _ Hs) as [HinL Hseen]. rewrite Hseen, Hnow.
        split; [lia|split; [lia|split]].
        -- (* it occurs at its own position *)
           assert (Hex : exists j, nth_error labs j = Some (s_lab s) /\ nth_error ds j = Some (s_pos s)).
           { clear - Hs. revert ds Hs. induction labs as [|lb labs IH]; intros [|d ds] Hs; cbn in Hs; try destruct Hs.
             - subst s. exists 0. cbn. auto.
             - destruct (IH ds H) as [j [H1 H2]]. exists (S j). auto. }
           destruct Hex as [j [Hj Hp]]. exists j. apply occ_app; [exact Hlen|]. right. auto.
        -- intros u Hu. lia.
      * (* a remembered source *)
        destruct (remembered_spec _ _ _ _ _ _ Hs) as [k [Hk [Hu Ha]]]. cbn in Hu.
        destruct (ti_live _ _ _ _ _ Hinv s (nth_error_In _ _ Hk)) as [H1 [H2 [[j Hocc] H4]]]. rewrite Hnow in *.
        split; [lia|split; [lia|split]].
        -- exists j. apply occ_app; [exact Hlen|]. left. exact Hocc.
        -- intros u Huu Hoc. apply occurs_app in Hoc. destruct Hoc as [Hoc|[Eu HinL]].
           ++ pose proof (occurs_lt _ _ _ Hoc). apply (H4 u); [lia|exact Hoc].
           ++ (* unlinked: its label is not in the new frame *)
              destruct (unlinked_in _ _ Hu) as [c Hc]. unfold links in Hc. rewrite links_of_labels_eq in Hc.
              apply mapi_from_in in Hc. destruct Hc as [i [s2 [Hi E2]]]. cbn in E2. inversion E2 as [[Ei Ech]]. subst i.
              assert (s2 = s) by congruence. subst s2. unfold choice in Ech.
              destruct (find_lab labs (s_lab s) 0) as [j'|] eqn:Ef; [discriminate|].
              apply In_nth_error in HinL. destruct HinL as [j' Hj']. rewrite (find_lab_first labs (s_lab s) 0 ENd j' Hj') in Ef. discriminate.
    + intros u L Hoc. apply occurs_app in Hoc. destruct Hoc as [Hoc|[_ HinL]].
      * pose proof (ti_old _ _ _ _ _ Hinv u L Hoc). lia.
      * destruct labs as [|l0 labs']; [destruct HinL|]. pose proof (max_list_ge _ _ HinL). lia.
  - (* pairs *)
    split; [apply Forall2_app; [exact HF|constructor; [split; [exact EL|exact ENd]|constructor]]|].
    intros t1 t2 j1 j2 L p1 p2 Hlt O1 O2 Hno.
    apply occ_app in O1; [|exact Hlen]. apply occ_app in O2; [|exact Hlen].
    destruct O2 as [O2|[Et2 [Hj2 Hp2]]].
    + (* both in the old prefix *)
      destruct O1 as [O1|[Et1 _]]; [|pose proof (occurs_lt _ _ _ (occ_occurs _ _ _ _ _ _ O2)); lia].
      apply (Hpairs t1 t2 j1 j2 L p1 p2 Hlt O1 O2). intros u Hu Hoc. apply (Hno u Hu). apply occurs_app. left. exact Hoc.
    + (* the second observation is in the new frame *)
      subst t2. destruct O1 as [O1|[Et1 _]]; [|lia].
      pose proof (occ_occurs _ _ _ _ _ _ O1) as Hoc1.
      destruct (Hborn L (nth_error_In _ _ Hj2)) as [[s [Hs El]]|Hnew].
      * destruct (ti_live _ _ _ _ _ Hinv s Hs) as [H1 [H2 [[j Hocc] H4]]]. rewrite Hnow in *. subst L.
        (* the source's last observation is t1 *)
        assert (Eseen : s_seen s = t1).
        { destruct (Nat.lt_trichotomy (s_seen s) t1) as [Hl|[He|Hg]]; [|exact He|].
          - exfalso. apply (H4 t1); [lia|exact Hoc1].
          - exfalso. apply (Hno (s_seen s)); [lia|]. apply occurs_app. left. exact (occ_occurs _ _ _ _ _ _ Hocc). }
        rewrite Eseen in *. split; [lia|].
        (* same frame, same label, labels unique => same position *)
        destruct O1 as [labs1 [ds1 [A1 [A2 [A3 A4]]]]]. destruct Hocc as [labs1' [ds1' [B1 [B2 [B3 B4]]]]].
        assert (labs1' = labs1) by congruence. assert (ds1' = ds1) by congruence. subst labs1' ds1'.
        assert (Hnd1 : NoDup labs1).
        { clear - HF A1 A2. revert ou t1 A1 A2 HF. induction fr as [|d fr IH]; intros ou t1 A1 A2 HF; [destruct t1; discriminate|].
          inversion HF as [|? l ? ou' [_ Hn] HF']; subst. destruct t1 as [|t1]; cbn in *; [inversion A1; subst; exact Hn|eapply IH; eauto]. }
        assert (j = j1) by (rewrite NoDup_nth_error in Hnd1; apply Hnd1; [apply nth_error_Some; congruence|congruence]). subst j.
        assert (s_pos s = p1) by congruence. subst p1.
        exact (Hlink s j2 p2 Hs Hj2 Hp2).
      * exfalso. pose proof (ti_old _ _ _ _ _ Hinv t1 L Hoc1). lia.
Qed.

Lemma check_run_from_sound m mem max_size : forall rest outs fr ou st,
  tinv m mem fr ou st -> pairs_ok m mem fr ou ->
  check_run_from m mem max_size no_pred st rest (map Labels outs) = 0%N ->
  pairs_ok m mem (fr ++ rest) (ou ++ outs).
Proof.
  induction rest as [|ds rest IH]; intros outs fr ou st Hinv Hp H.
  - destruct outs as [|o outs]; [rewrite !app_nil_r; exact Hp|cbn in H; discriminate].
  - destruct outs as [|labs outs]; [cbn in H; discriminate|]. cbn [map check_run_from] in H.
    destruct (check_step m mem max_size no_pred st ds labs) as [c st'] eqn:E.
    destruct (N.eqb c 0) eqn:Ec; [|apply N.eqb_neq in Ec; congruence]. apply N.eqb_eq in Ec. subst c.
    destruct (step_extends _ _ _ _ _ _ _ _ _ Hinv Hp E) as [Hinv' Hp'].
    specialize (IH outs (fr ++ [ds]) (ou ++ [labs]) st' Hinv' Hp' H).
    rewrite <- !app_assoc in IH. exact IH.
Qed.

Lemma mk_srcs_nth t : forall labs ds s, length labs = length ds -> In s (mk_srcs t labs ds) ->
  exists j, nth_error labs j = Some (s_lab s) /\ nth_error ds j = Some (s_pos s).
Proof.
  induction labs as [|lb labs IH]; intros [|d ds] s HL Hs; cbn in *; try destruct Hs; try discriminate.
  - subst s. exists 0. cbn. auto.
  - destruct (IH ds s ltac:(lia) H) as [j [H1 H2]]. exists (S j). auto.
Qed.

(* A labelling of a whole movie accepted by the monitor satisfies C01's statement: every
   frame labelled without repetition; consecutive observations of a trajectory at most
   memory+1 frames and at most search_range apart. *)
Theorem check_run_trajectories m mem max_size frames out :
  check_run m mem max_size no_pred frames (map Labels out) = 0%N -> pairs_ok m mem frames out.
Proof.
  intros H. destruct frames as [|f0 rest]; destruct out as [|l0 outs]; cbn in H; try discriminate.
  - split; [constructor|]. intros t1 t2 j1 j2 L p1 p2 _ [labs [ds [H1 _]]]. destruct t1; discriminate.
  - destruct (Nat.eqb (length l0) (length f0)) eqn:EL; cbn in H; [|discriminate]. apply Nat.eqb_eq in EL.
    destruct (nodup_b l0) eqn:ENd; cbn in H; [|discriminate]. apply nodup_b_spec in ENd.
    apply (check_run_from_sound m mem max_size rest outs [f0] [l0] (init_of_labels f0 l0)); [| |exact H].
    + constructor; cbn [init_of_labels live now next_id length].
      * reflexivity.
      * reflexivity.
      * rewrite mk_srcs_labs by exact EL. exact ENd.
      * intros s Hs. destruct (mk_srcs_in _ _ _ _ Hs) as [_ Hseen]. rewrite Hseen.
        split; [lia|split; [lia|split]].
        -- destruct (mk_srcs_nth 0 l0 f0 s EL Hs) as [j [H1 H2]]. exists j. exists l0, f0. auto.
        -- intros u Hu. lia.
      * intros u L [labs [H1 H2]]. destruct u as [|u]; cbn in H1; [|destruct u; discriminate]. inversion H1; subst labs.
        destruct l0 as [|a l0']; [destruct H2|]. pose proof (max_list_ge _ _ H2). lia.
    + split; [constructor; [split; [exact EL|exact ENd]|constructor]|].
      intros t1 t2 j1 j2 L p1 p2 Hlt _ [labs [ds [H1 _]]]. destruct t2 as [|t2]; [lia|]. cbn in H1. destruct t2; discriminate.
Qed.
