(* Proofs about Model/StaticCluster.v: the relabel-union of Clusters.add computes
   the connected components of the pair graph; cluster_size gives component
   sizes; cluster_iter never reuses an id; proximity is the distance to the
   nearest other point. *)
From Coq Require Import ZArith List Bool Arith Lia Permutation Sorted.
From TP Require Import Model.StaticCluster.
Import ListNotations.

(* ------------------------------------------------------------------ *)
(* chains                                                              *)
(* ------------------------------------------------------------------ *)
(* b is reachable from a by a chain of steps, each along adj in either
   direction *)
Inductive connected (adj : nat -> nat -> Prop) : nat -> nat -> Prop :=
| conn_refl : forall a, connected adj a a
| conn_step : forall a b c, connected adj a b -> adj b c \/ adj c b -> connected adj a c.

Lemma conn_trans adj a b c : connected adj a b -> connected adj b c -> connected adj a c.
Proof.
  intros H1 H2. revert H1. induction H2; intros; auto.
  eapply conn_step; [apply IHconnected; auto|auto].
Qed.

Lemma conn_one adj a b : adj a b \/ adj b a -> connected adj a b.
Proof. intros. eapply conn_step; [apply conn_refl|auto]. Qed.

Lemma conn_sym adj a b : connected adj a b -> connected adj b a.
Proof.
  induction 1; [apply conn_refl|].
  eapply conn_trans; [|eassumption]. apply conn_one. tauto.
Qed.

Lemma conn_mono (adj adj' : nat -> nat -> Prop) :
  (forall u v, adj u v -> connected adj' u v) ->
  forall a b, connected adj a b -> connected adj' a b.
Proof.
  intros H a b C. induction C; [apply conn_refl|].
  eapply conn_trans; [eassumption|].
  destruct H0 as [E|E]; [|apply conn_sym]; auto.
Qed.

Definition adjE (E : list (nat * nat)) (u v : nat) : Prop := In (u, v) E.

Lemma conn_nil a b : connected (adjE []) a b -> a = b.
Proof. induction 1; auto. destruct H0 as [[]|[]]. Qed.

Lemma conn_add E a b x y :
  connected (adjE (E ++ [(a, b)])) x y <->
  connected (adjE E) x y \/ (connected (adjE E) x a /\ connected (adjE E) b y)
  \/ (connected (adjE E) x b /\ connected (adjE E) a y).
Proof.
  assert (M : forall u v, connected (adjE E) u v -> connected (adjE (E ++ [(a, b)])) u v).
  { apply conn_mono. intros u v Huv. apply conn_one. left. unfold adjE in *. apply in_or_app; auto. }
  assert (AB : connected (adjE (E ++ [(a, b)])) a b).
  { apply conn_one. left. unfold adjE. apply in_or_app. right. left. reflexivity. }
  split.
  - induction 1 as [x|x y z C IH St].
    + left. apply conn_refl.
    + assert (St' : (adjE E y z \/ adjE E z y) \/ (y = a /\ z = b) \/ (y = b /\ z = a)).
      { unfold adjE in *. destruct St as [St|St]; apply in_app_or in St; destruct St as [St|St].
        - left; left; auto.
        - right. destruct St as [St|[]]. inversion St. subst. left. auto.
        - left; right; auto.
        - right. destruct St as [St|[]]. inversion St. subst. right. auto. }
      destruct St' as [St'|[[-> ->]|[-> ->]]].
      * destruct IH as [IH|[[I1 I2]|[I1 I2]]].
        -- left. eapply conn_step; eauto.
        -- right; left. split; auto. eapply conn_step; eauto.
        -- right; right. split; auto. eapply conn_step; eauto.
      * destruct IH as [IH|[[I1 I2]|[I1 I2]]].
        -- right; left. split; auto. apply conn_refl.
        -- right; left. split; auto. apply conn_refl.
        -- left. auto.
      * destruct IH as [IH|[[I1 I2]|[I1 I2]]].
        -- right; right. split; auto. apply conn_refl.
        -- left. auto.
        -- right; right. split; auto. apply conn_refl.
  - intros [H|[[H1 H2]|[H1 H2]]].
    + auto.
    + eapply conn_trans; [apply M; eassumption|]. eapply conn_trans; [apply AB|]. auto.
    + eapply conn_trans; [apply M; eassumption|]. eapply conn_trans; [apply conn_sym, AB|]. auto.
Qed.

(* ------------------------------------------------------------------ *)
(* list / dict helpers                                                 *)
(* ------------------------------------------------------------------ *)
Lemma set_nth_length {A} i (x : A) l : length (set_nth i x l) = length l.
Proof. revert i; induction l; intros [|i]; simpl; auto. Qed.

Lemma set_nth_same {A} i (x d : A) l : i < length l -> nth i (set_nth i x l) d = x.
Proof. revert i; induction l; intros [|i] H; simpl in *; try lia; auto. apply IHl. lia. Qed.

Lemma set_nth_other {A} i j (x d : A) l : i <> j -> nth j (set_nth i x l) d = nth j l d.
Proof.
  revert i j; induction l; intros [|i] [|j] H; simpl; auto; try lia.
Qed.

Lemma fold_set_length {A} (v : A) s l :
  length (fold_left (fun r f => set_nth f v r) s l) = length l.
Proof. revert l; induction s; simpl; intros; auto. rewrite IHs. apply set_nth_length. Qed.

Lemma fold_set_out {A} (v d : A) s l g :
  ~ In g s -> nth g (fold_left (fun r f => set_nth f v r) s l) d = nth g l d.
Proof.
  revert l; induction s; simpl; intros; auto.
  rewrite IHs by tauto. apply set_nth_other. intro; subst; tauto.
Qed.

Lemma fold_set_in {A} (v d : A) s l g :
  In g s -> g < length l -> nth g (fold_left (fun r f => set_nth f v r) s l) d = v.
Proof.
  revert l; induction s; simpl; intros l H L; [tauto|].
  destruct (in_dec Nat.eq_dec g s) as [I|I].
  - apply IHs; auto. rewrite set_nth_length. auto.
  - destruct H as [->|H]; [|tauto]. rewrite fold_set_out by auto. apply set_nth_same. auto.
Qed.

Lemma set_key_keys k v d : In k (map fst d) -> map fst (set_key k v d) = map fst d.
Proof.
  induction d as [|[k' v'] d]; simpl; [tauto|]. intros H.
  destruct (k =? k') eqn:E.
  - apply Nat.eqb_eq in E. subst. reflexivity.
  - apply Nat.eqb_neq in E. simpl. f_equal. apply IHd. destruct H; [congruence|auto].
Qed.

Lemma set_key_in k0 v d k s :
  NoDup (map fst d) ->
  (In (k, s) (set_key k0 v d) <-> (k = k0 /\ s = v) \/ (k <> k0 /\ In (k, s) d)).
Proof.
  induction d as [|[k' v'] d]; simpl; intros ND.
  - split.
    + intros [H|[]]. inversion H. auto.
    + intros [[-> ->]|[_ []]]. auto.
  - inversion ND as [|? ? NI ND']; subst.
    destruct (k0 =? k') eqn:E.
    + apply Nat.eqb_eq in E. subst k'. simpl. split.
      * intros [H|H]; [inversion H; auto|]. right. split; auto.
        intro; subst. apply NI. change k0 with (fst (k0, s)). apply in_map. auto.
      * intros [[-> ->]|[N [H|H]]]; auto. inversion H. congruence.
    + apply Nat.eqb_neq in E. simpl. rewrite IHd by auto. split.
      * intros [H|[H|[N H]]]; auto. inversion H; subst. right. split; auto.
      * intros [H|[N [H|H]]]; auto.
Qed.

Lemma del_key_in k0 d k s : In (k, s) (del_key k0 d) <-> k <> k0 /\ In (k, s) d.
Proof.
  unfold del_key. rewrite filter_In. simpl. rewrite negb_true_iff, Nat.eqb_neq. tauto.
Qed.

Lemma del_key_keys k0 d k : In k (map fst (del_key k0 d)) <-> k <> k0 /\ In k (map fst d).
Proof.
  rewrite !in_map_iff. split.
  - intros [[k' s] [<- H]]. apply del_key_in in H. simpl. split; [tauto|]. exists (k', s). tauto.
  - intros [N [[k' s] [<- H]]]. exists (k', s). split; auto. apply del_key_in. auto.
Qed.

Lemma del_key_NoDup k0 d : NoDup (map fst d) -> NoDup (map fst (del_key k0 d)).
Proof.
  induction d as [|[k v] d]; simpl; intros ND; [constructor|].
  inversion ND; subst. destruct (negb (k =? k0)); simpl; auto.
  constructor; auto. rewrite del_key_keys. tauto.
Qed.

Lemma lookup_in k s d : NoDup (map fst d) -> In (k, s) d -> lookup k d = s.
Proof.
  induction d as [|[k' v'] d]; simpl; intros ND H; [tauto|].
  inversion ND; subst. destruct H as [H|H].
  - inversion H; subst. rewrite Nat.eqb_refl. auto.
  - destruct (k =? k') eqn:E; auto. apply Nat.eqb_eq in E. subst.
    exfalso. apply H2. change k' with (fst (k', s)). apply in_map. auto.
Qed.

Lemma key_has_value k (d : list (nat * list nat)) : In k (map fst d) -> exists s, In (k, s) d.
Proof. rewrite in_map_iff. intros [[k' s] [<- H]]. exists s. auto. Qed.

Lemma NoDup_app_disj {A} (l1 l2 : list A) :
  NoDup l1 -> NoDup l2 -> (forall x, In x l1 -> ~ In x l2) -> NoDup (l1 ++ l2).
Proof.
  induction l1; simpl; intros N1 N2 D; auto.
  inversion N1; subst. constructor.
  - rewrite in_app_iff. intros [I|I]; [tauto|]. apply (D a); auto.
  - apply IHl1; auto.
Qed.

(* ------------------------------------------------------------------ *)
(* invariant of the Clusters object                                    *)
(* ------------------------------------------------------------------ *)
Definition idof (c : clusters) (f : nat) : nat := nth f (pos_ids c) 0.

Record WF (n : nat) (c : clusters) : Prop := {
  wf_len : length (pos_ids c) = n;
  wf_keys : NoDup (map fst (cl c));
  wf_sets : forall k s, In (k, s) (cl c) ->
            NoDup s /\ forall f, In f s <-> f < n /\ idof c f = k;
  wf_cover : forall f, f < n -> In (idof c f) (map fst (cl c)) }.

Lemma WF_init n : WF n (init n).
Proof.
  constructor; simpl.
  - apply seq_length.
  - rewrite map_map. simpl. rewrite map_id. apply seq_NoDup.
  - intros k s H. apply in_map_iff in H. destruct H as [i [H Hi]]. inversion H; subst.
    apply in_seq in Hi. split; [repeat constructor; simpl; tauto|].
    intros f. unfold idof. simpl. split.
    + intros [<-|[]]. split; [lia|]. rewrite seq_nth by lia. lia.
    + intros [L E]. rewrite seq_nth in E by lia. left. lia.
  - intros f L. unfold idof. simpl. rewrite seq_nth by lia. rewrite map_map. simpl. rewrite map_id.
    apply in_seq. lia.
Qed.

(* effect of add on the ids: every feature labelled i2 becomes i1 *)
Lemma add_spec n c a b :
  WF n c -> a < n -> b < n ->
  WF n (add c a b) /\
  forall g, g < n ->
    idof (add c a b) g = if idof c g =? idof c b then idof c a else idof c g.
Proof.
  intros W La Lb. unfold add. fold (idof c a) (idof c b).
  destruct (idof c a =? idof c b) eqn:E.
  - split; auto. intros g Lg. apply Nat.eqb_eq in E.
    destruct (idof c g =? idof c b) eqn:E2; auto. apply Nat.eqb_eq in E2. congruence.
  - apply Nat.eqb_neq in E.
    set (i1 := idof c a) in *. set (i2 := idof c b) in *.
    destruct W as [WL WK WS WC].
    destruct (key_has_value i1 (cl c) (WC a La)) as [s1 H1].
    destruct (key_has_value i2 (cl c) (WC b Lb)) as [s2 H2].
    rewrite (lookup_in _ _ _ WK H1), (lookup_in _ _ _ WK H2).
    destruct (WS _ _ H1) as [ND1 M1]. destruct (WS _ _ H2) as [ND2 M2].
    assert (IDS : forall g, g < n ->
              nth g (fold_left (fun ids f => set_nth f i1 ids) s2 (pos_ids c)) 0
              = if idof c g =? i2 then i1 else idof c g).
    { intros g Lg. destruct (idof c g =? i2) eqn:E2.
      - apply Nat.eqb_eq in E2. apply fold_set_in; [apply M2; auto|lia].
      - apply Nat.eqb_neq in E2. rewrite fold_set_out; auto. intro I. apply M2 in I. tauto. }
    split; [|exact IDS].
    constructor; simpl.
    + rewrite fold_set_length. auto.
    + apply del_key_NoDup. rewrite set_key_keys; auto. fold i1. apply WC. auto.
    + intros k s H. apply del_key_in in H. destruct H as [Nk H].
      apply set_key_in in H; auto.
      destruct H as [[-> ->]|[Nk1 H]].
      * split.
        -- apply NoDup_app_disj; auto. intros x I1 I2. apply M1 in I1. apply M2 in I2.
           destruct I1, I2. congruence.
        -- intros f. rewrite in_app_iff, M1, M2. unfold idof at 3. simpl.
           split.
           ++ intros [[L Ef]|[L Ef]]; split; auto; rewrite IDS by auto.
              ** rewrite Ef. destruct (i1 =? i2) eqn:E3; auto.
              ** rewrite Ef, Nat.eqb_refl. auto.
           ++ intros [L Ef]. rewrite IDS in Ef by auto.
              destruct (idof c f =? i2) eqn:E3; [apply Nat.eqb_eq in E3|]; auto.
      * destruct (WS _ _ H) as [NDs Ms]. split; auto.
        intros f. rewrite Ms. unfold idof at 2. simpl. split.
        -- intros [L Ef]. split; auto. rewrite IDS by auto.
           destruct (idof c f =? i2) eqn:E3; auto. apply Nat.eqb_eq in E3. congruence.
        -- intros [L Ef]. split; auto. rewrite IDS in Ef by auto.
           destruct (idof c f =? i2) eqn:E3; auto. congruence.
    + intros f L. unfold idof. simpl. rewrite IDS by auto.
      apply del_key_keys. rewrite set_key_keys by (apply WC; auto).
      destruct (idof c f =? i2) eqn:E3.
      * split; auto. apply WC. auto.
      * apply Nat.eqb_neq in E3. split; auto.
Qed.

(* ------------------------------------------------------------------ *)
(* from_pairs computes the connected components                        *)
(* ------------------------------------------------------------------ *)
Definition CONN (n : nat) (c : clusters) (E : list (nat * nat)) : Prop :=
  forall x y, x < n -> y < n -> (idof c x = idof c y <-> connected (adjE E) x y).

Lemma add_conn n c E a b :
  WF n c -> CONN n c E -> a < n -> b < n ->
  WF n (add c a b) /\ CONN n (add c a b) (E ++ [(a, b)]).
Proof.
  intros W C La Lb. destruct (add_spec n c a b W La Lb) as [W' IDS].
  split; auto. intros x y Lx Ly. rewrite conn_add, !IDS by auto.
  rewrite <- (C x y), <- (C x a), <- (C b y), <- (C x b), <- (C a y) by auto.
  destruct (Nat.eqb_spec (idof c x) (idof c b)) as [E1|E1];
  destruct (Nat.eqb_spec (idof c y) (idof c b)) as [E2|E2]; intuition congruence.
Qed.

Lemma fold_add_conn n pairs : forall c E,
  WF n c -> CONN n c E -> (forall a b, In (a, b) pairs -> a < n /\ b < n) ->
  WF n (fold_left (fun c ab => add c (fst ab) (snd ab)) pairs c) /\
  CONN n (fold_left (fun c ab => add c (fst ab) (snd ab)) pairs c) (E ++ pairs).
Proof.
  induction pairs as [|[a b] pairs IH]; simpl; intros c E W C R.
  - rewrite app_nil_r. auto.
  - destruct (R a b (or_introl eq_refl)) as [La Lb].
    destruct (add_conn n c E a b W C La Lb) as [W' C'].
    specialize (IH _ _ W' C'). rewrite <- app_assoc in IH. simpl in IH. apply IH.
    intros; apply R; auto.
Qed.

Lemma from_pairs_inv n pairs :
  (forall a b, In (a, b) pairs -> a < n /\ b < n) ->
  WF n (from_pairs pairs n) /\ CONN n (from_pairs pairs n) pairs.
Proof.
  intros R. unfold from_pairs.
  apply (fold_add_conn n pairs (init n) []); auto using WF_init.
  intros x y Lx Ly. unfold idof. simpl. rewrite !seq_nth by lia. simpl. split.
  - intros ->. apply conn_refl.
  - apply conn_nil.
Qed.

Theorem from_pairs_connected n pairs :
  (forall a b, In (a, b) pairs -> a < n /\ b < n) ->
  forall x y, x < n -> y < n ->
    (nth x (pos_ids (from_pairs pairs n)) 0 = nth y (pos_ids (from_pairs pairs n)) 0
     <-> connected (fun u v => In (u, v) pairs) x y).
Proof. intros R. apply (proj2 (from_pairs_inv n pairs R)). Qed.

(* ------------------------------------------------------------------ *)
(* cluster_size                                                        *)
(* ------------------------------------------------------------------ *)
Definition size_fold (d : list (nat * list nat)) (res : list (option nat)) :=
  fold_left (fun res kv => fold_left (fun r f => set_nth f (Some (length (snd kv))) r) (snd kv) res) d res.

Lemma size_fold_length d : forall res, length (size_fold d res) = length res.
Proof.
  unfold size_fold. induction d; simpl; intros; auto. rewrite IHd. apply fold_set_length.
Qed.

Lemma size_fold_some d : forall res f,
  f < length res -> (exists k s, In (k, s) d /\ In f s) ->
  exists k s, In (k, s) d /\ In f s /\ nth f (size_fold d res) None = Some (length s).
Proof.
  induction d as [|[k0 s0] d IH] using rev_ind; intros res f L [k [s [H I]]]; [destruct H|].
  unfold size_fold. rewrite fold_left_app. simpl. fold (size_fold d res).
  destruct (in_dec Nat.eq_dec f s0) as [I0|I0].
  - exists k0, s0. split; [apply in_or_app; right; left; auto|]. split; auto.
    apply fold_set_in; auto. rewrite size_fold_length. auto.
  - rewrite fold_set_out by auto.
    apply in_app_or in H. destruct H as [H|[H|[]]]; [|inversion H; subst; tauto].
    destruct (IH res f L) as [k' [s' [H' [I' E']]]]; [exists k, s; auto|].
    exists k', s'. split; [apply in_or_app; auto|]. auto.
Qed.

Theorem cluster_size_component n pairs :
  (forall a b, In (a, b) pairs -> a < n /\ b < n) ->
  forall f, f < n ->
    exists comp, NoDup comp /\
      (forall g, In g comp <-> g < n /\ connected (fun u v => In (u, v) pairs) f g) /\
      nth f (cluster_size (from_pairs pairs n)) None = Some (length comp).
Proof.
  intros R f L. destruct (from_pairs_inv n pairs R) as [W C].
  set (c := from_pairs pairs n) in *.
  destruct (key_has_value _ _ (wf_cover n c W f L)) as [s H].
  destruct (wf_sets n c W _ _ H) as [ND M].
  assert (I : In f s) by (apply M; auto).
  destruct (size_fold_some (cl c) (repeat None (length (pos_ids c))) f) as [k' [s' [H' [I' E']]]].
  { rewrite repeat_length, (wf_len n c W). auto. }
  { eauto. }
  destruct (wf_sets n c W _ _ H') as [ND' M'].
  exists s'. split; auto. split; auto.
  intros g. rewrite M'. apply M' in I'. destruct I' as [_ Ek].
  split; intros [Lg X]; split; auto.
  - apply (C f g); auto. congruence.
  - apply (C f g) in X; auto. congruence.
Qed.

(* ------------------------------------------------------------------ *)
(* geometry: pairs = the features within separation                     *)
(* ------------------------------------------------------------------ *)
Definition near (w : list Z) (R2 : Z) (pts : list pt) (i j : nat) : Prop :=
  i < length pts /\ j < length pts /\ (d2w w (nth i pts []) (nth j pts []) <= R2)%Z.

(* what cKDTree.query_pairs is taken to return, as a set, in any order and
   either orientation *)
Definition is_near_pairs (w : list Z) (R2 : Z) (pts : list pt) (pairs : list (nat * nat)) : Prop :=
  (forall i j, In (i, j) pairs -> near w R2 pts i j) /\
  (forall i j, near w R2 pts i j -> i <> j -> In (i, j) pairs \/ In (j, i) pairs).

Lemma near_pairs_conn w R2 pts pairs x y :
  is_near_pairs w R2 pts pairs ->
  (connected (fun u v => In (u, v) pairs) x y <-> connected (near w R2 pts) x y).
Proof.
  intros [P1 P2]. split; apply conn_mono; intros u v H.
  - apply conn_one. left. auto.
  - destruct (Nat.eq_dec u v) as [->|N]; [apply conn_refl|].
    apply conn_one. destruct (P2 u v H N); auto.
Qed.

Theorem cluster_labels_geometric w R2 pts pairs :
  is_near_pairs w R2 pts pairs ->
  let c := from_pairs pairs (length pts) in
  forall x y, x < length pts -> y < length pts ->
    (nth x (pos_ids c) 0 = nth y (pos_ids c) 0 <-> connected (near w R2 pts) x y).
Proof.
  intros P c x y Lx Ly. unfold c. rewrite from_pairs_connected; auto.
  - apply near_pairs_conn; auto.
  - intros a b H. apply (proj1 P) in H. unfold near in H. tauto.
Qed.

Theorem cluster_sizes_geometric w R2 pts pairs :
  is_near_pairs w R2 pts pairs ->
  forall f, f < length pts ->
    exists comp, NoDup comp /\
      (forall g, In g comp <-> g < length pts /\ connected (near w R2 pts) f g) /\
      nth f (cluster_size (from_pairs pairs (length pts))) None = Some (length comp).
Proof.
  intros P f L.
  destruct (cluster_size_component (length pts) pairs) with (f := f) as [comp [ND [M E]]]; auto.
  - intros a b H. apply (proj1 P) in H. unfold near in H. tauto.
  - exists comp. split; auto. split; auto. intros g. rewrite M.
    rewrite (near_pairs_conn w R2 pts pairs f g P). tauto.
Qed.

Lemma all_pairs_in w R2 pts i j :
  In (i, j) (all_pairs w R2 pts) <-> i < j /\ near w R2 pts i j.
Proof.
  unfold all_pairs, near, nearb. rewrite in_flat_map. split.
  - intros [i' [Hi H]]. apply in_map_iff in H. destruct H as [j' [E H]]. inversion E; subst.
    apply filter_In in H. destruct H as [Hj H]. apply andb_true_iff in H. destruct H as [H1 H2].
    apply Nat.ltb_lt in H1. apply Z.leb_le in H2. apply in_seq in Hi. apply in_seq in Hj.
    repeat split; auto; lia.
  - intros [L [Li [Lj D]]]. exists i. split; [apply in_seq; lia|].
    apply in_map_iff. exists j. split; auto. apply filter_In. split; [apply in_seq; lia|].
    apply andb_true_iff. split; [apply Nat.ltb_lt; auto|apply Z.leb_le; auto].
Qed.

Lemma d2w_sym w : forall p q, d2w w p q = d2w w q p.
Proof.
  induction w; intros [|x p] [|y q]; simpl; auto. rewrite IHw. ring.
Qed.

Lemma all_pairs_near w R2 pts : is_near_pairs w R2 pts (all_pairs w R2 pts).
Proof.
  split.
  - intros i j H. apply all_pairs_in in H. tauto.
  - intros i j H N. destruct (Nat.lt_ge_cases i j).
    + left. apply all_pairs_in. auto.
    + right. apply all_pairs_in. split; [lia|]. unfold near in *. rewrite d2w_sym. tauto.
Qed.

(* ------------------------------------------------------------------ *)
(* ids across frames                                                   *)
(* ------------------------------------------------------------------ *)
Lemma add_length c a b : length (pos_ids (add c a b)) = length (pos_ids c).
Proof.
  unfold add. destruct (_ =? _); auto. simpl. apply fold_set_length.
Qed.

Lemma from_pairs_length pairs n : length (pos_ids (from_pairs pairs n)) = n.
Proof.
  unfold from_pairs.
  assert (A : forall c, length (pos_ids (fold_left (fun c ab => add c (fst ab) (snd ab)) pairs c))
                        = length (pos_ids c)).
  { induction pairs; simpl; intros; auto. rewrite IHpairs. apply add_length. }
  rewrite A. simpl. apply seq_length.
Qed.

Lemma next_id_grows pairs n next :
  0 < n -> next <= list_max (map (fun i => i + next) (pos_ids (from_pairs pairs n))) + 1.
Proof.
  intros L. assert (E := from_pairs_length pairs n).
  destruct (pos_ids (from_pairs pairs n)) as [|y l]; simpl in *; [lia|].
  assert (M := Nat.le_max_l (y + next) (list_max (map (fun i => i + next) l))).
  unfold list_max in *. lia.
Qed.

(* groupby never yields an empty frame *)
Definition nonempty_frames (fs : list (nat * list (nat * nat))) : Prop :=
  Forall (fun f => 0 < fst f) fs.

Lemma cluster_frames_ge fs : nonempty_frames fs -> forall next i x,
  In x (fst (nth i (cluster_frames next fs) ([], []))) -> next <= x.
Proof.
  induction fs as [|[n pairs] fs IH]; simpl; intros NE next i x H.
  - destruct i; destruct H.
  - inversion NE; subst. simpl in *. destruct i as [|i]; simpl in H.
    + apply in_map_iff in H. destruct H as [y [<- _]]. lia.
    + apply IH in H; auto. assert (G := next_id_grows pairs n next H2). lia.
Qed.

Theorem cluster_ids_not_reused fs : nonempty_frames fs -> forall next i j x,
  i <> j ->
  In x (fst (nth i (cluster_frames next fs) ([], []))) ->
  In x (fst (nth j (cluster_frames next fs) ([], []))) -> False.
Proof.
  assert (A : forall fs, nonempty_frames fs -> forall next i j x, i < j ->
    In x (fst (nth i (cluster_frames next fs) ([], []))) ->
    In x (fst (nth j (cluster_frames next fs) ([], []))) -> False).
  { clear fs. induction fs as [|[n pairs] fs IH]; simpl; intros NE next i j x L Hi Hj.
    - destruct i; destruct Hi.
    - inversion NE; subst. destruct j as [|j]; [lia|]. destruct i as [|i]; simpl in *.
      + apply cluster_frames_ge in Hj; auto.
        set (ids := map (fun i => i + next) (pos_ids (from_pairs pairs n))) in *.
        assert (F : Forall (fun k => k <= list_max ids) ids) by (apply list_max_le; lia).
        rewrite Forall_forall in F. apply F in Hi. lia.
      + eapply (IH H2 _ i j); eauto. lia. }
  intros NE next i j x N Hi Hj. destruct (Nat.lt_ge_cases i j).
  - eapply A; eauto.
  - eapply (A fs NE next j i); eauto. lia.
Qed.

(* labels inside a frame are the model ids shifted by a constant *)
Lemma cluster_frames_nth fs : forall next k n pairs,
  nth_error fs k = Some (n, pairs) ->
  exists off, nth k (cluster_frames next fs) ([], [])
              = (map (fun i => i + off) (pos_ids (from_pairs pairs n)), cluster_size (from_pairs pairs n)).
Proof.
  induction fs as [|[n0 p0] fs IH]; intros next [|k] n pairs H; simpl in *; try discriminate.
  - inversion H; subst. eauto.
  - eapply IH; eauto.
Qed.

(* ------------------------------------------------------------------ *)
(* soundness of the monitor                                            *)
(* ------------------------------------------------------------------ *)
Lemma same_partition_sound n l1 l2 :
  same_partition n l1 l2 = true ->
  forall i j, i < n -> j < n -> (nth i l1 0 = nth j l1 0 <-> nth i l2 0 = nth j l2 0).
Proof.
  unfold same_partition. rewrite forallb_forall. intros H i j Li Lj.
  specialize (H i). rewrite forallb_forall in H.
  assert (E := H (proj2 (in_seq n 0 i) (conj (Nat.le_0_l _) Li)) j (proj2 (in_seq n 0 j) (conj (Nat.le_0_l _) Lj))).
  apply eqb_prop in E. rewrite <- !Nat.eqb_eq. rewrite E. tauto.
Qed.

Lemma list_eqb_opt_sound : forall l1 l2, list_eqb opt_eqb l1 l2 = true -> l1 = l2.
Proof.
  induction l1 as [|x l1 IH]; intros [|y l2]; simpl; intros H; try discriminate; auto.
  apply andb_true_iff in H. destruct H as [H1 H2]. f_equal; auto.
  destruct x, y; simpl in H1; try discriminate; auto. apply Nat.eqb_eq in H1. congruence.
Qed.

Theorem check_frame_sound w R2 pts labels sizes :
  check_frame w R2 pts labels sizes = 0%N ->
  (forall x y, x < length pts -> y < length pts ->
     (nth x labels 0 = nth y labels 0 <-> connected (near w R2 pts) x y)) /\
  (forall f, f < length pts ->
     exists comp, NoDup comp /\
       (forall g, In g comp <-> g < length pts /\ connected (near w R2 pts) f g) /\
       nth_error sizes f = Some (length comp)).
Proof.
  unfold check_frame.
  destruct (negb ((length labels =? length pts) && (length sizes =? length pts))) eqn:E0; [discriminate|].
  destruct (negb (same_partition _ _ _)) eqn:E1; [discriminate|].
  destruct (negb (list_eqb _ _ _)) eqn:E2; [discriminate|]. intros _.
  apply negb_false_iff in E0, E1, E2. apply andb_true_iff in E0. destruct E0 as [_ L2]. apply Nat.eqb_eq in L2.
  split.
  - intros x y Lx Ly. rewrite (same_partition_sound _ _ _ E1 x y Lx Ly).
    apply (cluster_labels_geometric w R2 pts _ (all_pairs_near w R2 pts)); auto.
  - intros f L. apply list_eqb_opt_sound in E2.
    destruct (cluster_sizes_geometric w R2 pts _ (all_pairs_near w R2 pts) f L) as [comp [ND [M E]]].
    exists comp. split; auto. split; auto. rewrite <- E2 in E.
    assert (Lf : f < length sizes) by lia.
    rewrite (nth_indep _ None (Some 0)) in E by (rewrite map_length; auto).
    rewrite map_nth in E. rewrite (nth_error_nth' sizes 0 Lf). congruence.
Qed.

(* ------------------------------------------------------------------ *)
(* proximity                                                           *)
(* ------------------------------------------------------------------ *)
Open Scope Z_scope.

Lemma insertZ_perm x l : Permutation (x :: l) (insertZ x l).
Proof.
  induction l as [|y l IH]; simpl; auto.
  destruct (x <=? y); auto. eapply perm_trans; [apply perm_swap|]. auto.
Qed.

Lemma insertZ_sorted x l : StronglySorted Z.le l -> StronglySorted Z.le (insertZ x l).
Proof.
  induction 1 as [|y l S IH F]; simpl.
  - repeat constructor.
  - destruct (x <=? y) eqn:E.
    + apply Z.leb_le in E. constructor; [constructor; auto|].
      constructor; auto. eapply Forall_impl; [|exact F]. simpl. intros; lia.
    + apply Z.leb_gt in E. constructor; auto.
      eapply Permutation_Forall; [apply insertZ_perm|]. constructor; auto. lia.
Qed.

Lemma sortZ_perm l : Permutation l (sortZ l).
Proof.
  induction l; simpl; auto. eapply perm_trans; [|apply insertZ_perm]. auto.
Qed.

Lemma sortZ_sorted l : StronglySorted Z.le (sortZ l).
Proof. induction l; simpl; [constructor|apply insertZ_sorted; auto]. Qed.

Lemma d2_nonneg_gen (u : pt) : forall p q, 0 <= d2w (map (fun _ => 1) u) p q.
Proof.
  induction u; intros [|x p] [|y q]; cbn [d2w map]; try lia.
  specialize (IHu p q). assert (0 <= (x - y) * (x - y)) by apply Z.square_nonneg. lia.
Qed.

Lemma d2_self_gen (u : pt) : forall p, d2w (map (fun _ => 1) u) p p = 0.
Proof.
  induction u; intros [|x p]; cbn [d2w map]; auto. rewrite IHu. replace (x - x) with 0 by lia. lia.
Qed.

Lemma d2_nonneg p q : 0 <= d2 p q.
Proof. apply d2_nonneg_gen. Qed.
Lemma d2_self p : d2 p p = 0.
Proof. apply d2_self_gen. Qed.

(* entry 1 of the ascending distance list is the minimum over the OTHER points *)
Lemma second_of_sorted (l rest : list Z) :
  StronglySorted Z.le l -> Permutation l (0 :: rest) -> Forall (fun x => 0 <= x) rest ->
  match nth_error l 1 with
  | None => rest = []
  | Some m => In m rest /\ forall x, In x rest -> m <= x
  end.
Proof.
  intros S P F.
  destruct l as [|h t]; [apply Permutation_nil in P; discriminate|].
  inversion S as [|? ? St Fh]; subst.
  assert (h = 0).
  { assert (I0 : In 0 (h :: t)) by (eapply Permutation_in; [apply Permutation_sym; eauto|left; auto]).
    assert (Ih : In h (0 :: rest)) by (eapply Permutation_in; [eauto|left; auto]).
    rewrite Forall_forall in F, Fh.
    destruct I0 as [|I0]; auto. apply Fh in I0.
    destruct Ih as [|Ih]; auto. apply F in Ih. lia. }
  subst h. apply Permutation_cons_inv in P. simpl.
  destruct t as [|m t]; simpl.
  - apply Permutation_nil in P. auto.
  - split.
    + eapply Permutation_in; [eauto|left; auto].
    + intros x I. apply Permutation_sym in P. eapply Permutation_in in I; [|eauto].
      inversion St; subst. destruct I as [<-|I]; [lia|]. rewrite Forall_forall in H2. auto.
Qed.

Theorem proximity_nearest_other pts i p :
  nth_error pts i = Some p ->
  let others := firstn i pts ++ skipn (S i) pts in
  exists r, nth_error (proximity2 pts) i = Some r /\
    match r with
    | None => others = []
    | Some m => (exists q, In q others /\ m = d2 p q) /\ forall q, In q others -> m <= d2 p q
    end.
Proof.
  intros H others. unfold proximity2.
  exists (nth_error (sortZ (map (d2 p) pts)) 1). split.
  - apply map_nth_error with (f := fun p => nth_error (sortZ (map (d2 p) pts)) 1) in H. auto.
  - assert (E : pts = firstn i pts ++ p :: skipn (S i) pts).
    { clear others. revert i H. induction pts as [|a pts IH]; intros [|i] H; simpl in *; try discriminate.
      - inversion H; auto.
      - f_equal. apply IH. auto. }
    assert (P : Permutation (sortZ (map (d2 p) pts)) (0 :: map (d2 p) others)).
    { eapply perm_trans; [apply Permutation_sym, sortZ_perm|].
      rewrite E at 1. unfold others. rewrite !map_app. simpl. rewrite d2_self.
      apply Permutation_sym, Permutation_middle. }
    assert (F : Forall (fun x => 0 <= x) (map (d2 p) others)).
    { apply Forall_forall. intros x I. apply in_map_iff in I. destruct I as [q [<- _]]. apply d2_nonneg. }
    assert (X := second_of_sorted _ _ (sortZ_sorted _) P F).
    destruct (nth_error (sortZ (map (d2 p) pts)) 1) as [m|].
    + destruct X as [I M]. split.
      * apply in_map_iff in I. destruct I as [q [Eq I]]. eauto.
      * intros q I'. apply M. apply in_map. auto.
    + apply map_eq_nil in X. auto.
Qed.
