(* The pruned recursive subnet search returns a cheapest one-to-one assignment. *)
From Coq Require Import ZArith List Bool Lia Permutation.
From TP Require Import Model.Assign.
Import ListNotations.
Open Scope Z_scope.

Lemma search_cons cs rest taken cur path best :
  search (cs :: rest) taken cur path best = loop rest taken cur path cs best.
Proof. reflexivity. Qed.

(* a completion picks one candidate per source, real destinations pairwise distinct and not taken *)
Inductive completion : list (list cand) -> list nat -> list cand -> Prop :=
| comp_nil taken : completion [] taken []
| comp_cons cs rest taken d c sigma :
    In (d, c) cs -> taken_b d taken = false ->
    completion rest (add_taken d taken) sigma ->
    completion (cs :: rest) taken ((d, c) :: sigma).

Definition value_le (b : best_t) (v : Z) : Prop :=
  match b with None => False | Some (bv, _) => bv <= v end.

Definition nonneg (srcs : list (list cand)) := Forall (Forall (fun dc : cand => 0 <= snd dc)) srcs.
Inductive sorted : list cand -> Prop :=
| s_nil : sorted []
| s_cons dc l : Forall (fun x : cand => snd dc <= snd x) l -> sorted l -> sorted (dc :: l).

Lemma total_cons d c sigma : total ((d, c) :: sigma) = c + total sigma.
Proof. reflexivity. Qed.
Lemma total_nil : total [] = 0. Proof. reflexivity. Qed.
Lemma total_app a b : total (a ++ b) = total a + total b.
Proof. induction a as [|[d c] a IH]; [reflexivity|]. cbn [app]. rewrite !total_cons, IH. lia. Qed.

Lemma total_nonneg srcs taken sigma :
  nonneg srcs -> completion srcs taken sigma -> 0 <= total sigma.
Proof.
  intros Hn Hc. induction Hc as [|cs rest taken d c sigma Hin Ht Hc IH]; [rewrite total_nil; lia|rewrite total_cons].
  inversion Hn as [|? ? Hcs Hrest]; subst.
  rewrite Forall_forall in Hcs. specialize (Hcs _ Hin). cbn in Hcs.
  specialize (IH Hrest). lia.
Qed.

Definition mono (b b' : best_t) : Prop := forall v, value_le b v -> value_le b' v.

Lemma improve_mono v p b : mono b (improve v p b).
Proof.
  unfold mono, improve, value_le. destruct b as [[bv bp]|]; [|tauto].
  intros w Hw. cbn in *. destruct (v <? bv) eqn:E; cbn in *; [apply Z.ltb_lt in E; lia | exact Hw].
Qed.

Lemma search_mono srcs : forall taken cur path best, mono best (search srcs taken cur path best).
Proof.
  induction srcs as [|cs rest IH]; intros taken cur path best.
  - cbn. apply improve_mono.
  - rewrite search_cons. revert best.
    induction cs as [|[d c] cs' IHcs]; intros best; cbn.
    + intros v Hv; exact Hv.
    + destruct (exceeds (cur + c) best); [intros v Hv; exact Hv|].
      destruct (taken_b d taken); [apply IHcs|].
      intros v Hv. apply IHcs. apply IH. exact Hv.
Qed.

(* main: the result is at most the cost of every completion *)
Theorem search_le_all srcs :
  nonneg srcs -> Forall sorted srcs ->
  forall taken cur path best sigma,
    completion srcs taken sigma ->
    value_le (search srcs taken cur path best) (cur + total sigma).
Proof.
  induction srcs as [|cs rest IH]; intros Hn Hs taken cur path best sigma Hc.
  - inversion Hc; subst. cbn. unfold improve.
    destruct best as [[bv bp]|]; cbn; [|lia].
    destruct (cur <? bv) eqn:E; cbn; [lia | apply Z.ltb_ge in E; lia].
  - inversion Hn as [|? ? Hncs Hnrest]; subst.
    inversion Hs as [|? ? Hscs Hsrest]; subst.
    inversion Hc as [|? ? ? d c sig Hin Ht Hrest]; subst.
    rewrite search_cons. rewrite total_cons.
    assert (Htn : 0 <= total sig) by (eapply total_nonneg; eassumption).
    clear Hc Hn Hs. revert best Hin.
    induction cs as [|[d0 c0] cs' IHcs]; intros best Hin; [inversion Hin|].
    inversion Hscs as [|? ? Hle Hs']; subst.
    inversion Hncs as [|? ? Hn0 Hn']; subst. cbn in Hn0.
    cbn [loop].
    destruct (exceeds (cur + c0) best) eqn:Eex.
    + assert (c0 <= c).
      { destruct Hin as [Heq|Hin]; [inversion Heq; lia|].
        rewrite Forall_forall in Hle. specialize (Hle _ Hin). cbn in Hle. exact Hle. }
      unfold exceeds in Eex. destruct best as [[bv bp]|]; [|discriminate].
      apply Z.ltb_lt in Eex. cbn. lia.
    + destruct Hin as [Heq|Hin].
      * inversion Heq; subst d0 c0. rewrite Ht.
        pose proof (search_mono (cs' :: rest) taken cur path) as Hm.
        setoid_rewrite search_cons in Hm. apply Hm.
        replace (cur + (c + total sig)) with ((cur + c) + total sig) by lia.
        apply IH; assumption.
      * destruct (taken_b d0 taken); apply IHcs; assumption.
Qed.

(* the result, when it differs from the incoming best, is a real completion with that cost *)
Theorem search_sound srcs :
  forall taken cur path best v a,
    search srcs taken cur path best = Some (v, a) ->
    best = Some (v, a) \/
    exists sigma, completion srcs taken sigma /\ v = cur + total sigma /\
                  a = rev path ++ sigma.
Proof.
  induction srcs as [|cs rest IH]; intros taken cur path best v a H.
  - cbn in H. unfold improve in H. destruct best as [[bv bp]|].
    + destruct (cur <? bv); [|left; exact H].
      inversion H; subst. right. exists []. repeat split; [constructor|cbn; lia|cbn; now rewrite app_nil_r].
    + inversion H; subst. right. exists []. repeat split; [constructor|cbn; lia|cbn; now rewrite app_nil_r].
  - rewrite search_cons in H.
    assert (Hgen: forall cs0, incl cs0 cs -> forall best, loop rest taken cur path cs0 best = Some (v, a) ->
      best = Some (v, a) \/ exists sigma, completion (cs :: rest) taken sigma /\ v = cur + total sigma /\
                  a = rev path ++ sigma).
    { clear H best. induction cs0 as [|[d c] cs' IHcs]; intros Hincl best H.
      - cbn in H. left; exact H.
      - cbn [loop] in H. destruct (exceeds (cur + c) best); [left; exact H|].
        assert (Hincl' : incl cs' cs) by (intros x Hx; apply Hincl; right; exact Hx).
        destruct (taken_b d taken) eqn:Et; [apply IHcs; assumption|].
        destruct (IHcs Hincl' _ H) as [Hb|Hex]; [|right; exact Hex].
        destruct (IH _ _ _ _ _ _ Hb) as [Hb'|[sigma [Hc [Hv Ha]]]]; [left; exact Hb'|].
        right. exists ((d, c) :: sigma). split; [|split].
        + constructor; [apply Hincl; left; reflexivity|exact Et|exact Hc].
        + rewrite total_cons. lia.
        + rewrite Ha. cbn. rewrite <- app_assoc. reflexivity. }
    apply (Hgen cs (incl_refl cs) best H).
Qed.

(* a null link in every candidate list makes a completion exist, so [solve] never returns None *)
Lemma completion_exists srcs taken :
  Forall (fun cs => exists c, In (None, c) cs) srcs -> exists sigma, completion srcs taken sigma.
Proof.
  induction 1 as [|cs rest [c Hc] _ IH] in taken |- *; [exists []; constructor|].
  destruct (IH taken) as [sigma Hs]. exists ((None, c) :: sigma). constructor; auto.
Qed.

Corollary solve_optimal srcs v a :
  nonneg srcs -> Forall sorted srcs ->
  solve srcs = Some (v, a) ->
  completion srcs [] a /\ v = total a /\
  (forall sigma, completion srcs [] sigma -> v <= total sigma).
Proof.
  unfold solve. intros Hn Hs H. split; [|split].
  - destruct (search_sound _ _ _ _ _ _ _ H) as [Hb|[sigma [Hc [Hv Ha]]]]; [discriminate|].
    cbn in Ha. subst a. exact Hc.
  - destruct (search_sound _ _ _ _ _ _ _ H) as [Hb|[sigma [Hc [Hv Ha]]]]; [discriminate|].
    cbn in Ha. subst a. lia.
  - intros sigma Hc. pose proof (search_le_all srcs Hn Hs [] 0 [] None sigma Hc) as Hle.
    rewrite H in Hle. cbn in Hle. lia.
Qed.

Corollary solve_some srcs :
  nonneg srcs -> Forall sorted srcs ->
  Forall (fun cs => exists c, In (None, c) cs) srcs -> exists v a, solve srcs = Some (v, a).
Proof.
  intros Hn Hs Hnull. destruct (completion_exists srcs [] Hnull) as [sigma Hc].
  pose proof (search_le_all srcs Hn Hs [] 0 [] None sigma Hc) as Hle.
  unfold solve. destruct (search srcs [] 0 [] None) as [[v a]|]; [eauto|contradiction].
Qed.

(* ---- symmetric form of [completion] ---- *)
Lemma taken_b_false_iff d taken :
  taken_b d taken = false <-> (forall k, d = Some k -> ~ In k taken).
Proof.
  destruct d as [k|]; cbn.
  - split.
    + intros H k' Hk' Hin. inversion Hk'; subst k'.
      assert (existsb (Nat.eqb k) taken = true) by (apply existsb_exists; exists k; split; [exact Hin|apply Nat.eqb_refl]).
      congruence.
    + intros H. destruct (existsb (Nat.eqb k) taken) eqn:E; [|reflexivity].
      apply existsb_exists in E. destruct E as [x [Hx Hxk]]. apply Nat.eqb_eq in Hxk. subst x.
      exfalso. exact (H k eq_refl Hx).
  - split; [intros _ k Hk; discriminate|reflexivity].
Qed.

Lemma reals_cons d c sigma : reals ((d, c) :: sigma) = match d with Some k => [k] | None => [] end ++ reals sigma.
Proof. reflexivity. Qed.
Lemma reals_app a b : reals (a ++ b) = reals a ++ reals b.
Proof. unfold reals. apply flat_map_app. Qed.

Lemma completion_iff srcs : forall taken sigma,
  completion srcs taken sigma <->
  (Forall2 (fun cs dc => In dc cs) srcs sigma /\ NoDup (reals sigma) /\
   forall k, In k (reals sigma) -> ~ In k taken).
Proof.
  induction srcs as [|cs rest IH]; intros taken sigma; split.
  - intros H; inversion H; subst. repeat split; [constructor|constructor|intros k []].
  - intros [H _]. inversion H; subst. constructor.
  - intros H. inversion H as [|? ? ? d c sig Hin Ht Hrest]; subst.
    apply IH in Hrest. destruct Hrest as [HF [HN HD]].
    rewrite taken_b_false_iff in Ht.
    split; [constructor; assumption|]. rewrite reals_cons.
    destruct d as [k|]; cbn [app].
    + split.
      * constructor; [|exact HN]. intros Hk. apply (HD k Hk). left; reflexivity.
      * intros k' [Hk'|Hk']; [subst k'; apply Ht; reflexivity|].
        intros Hin'. apply (HD k' Hk'). right; exact Hin'.
    + split; [exact HN|]. intros k Hk. apply (HD k Hk).
  - intros [HF [HN HD]]. inversion HF as [|? [d c] ? sig Hin HF']; subst.
    rewrite reals_cons in HN, HD.
    constructor; [exact Hin| |].
    + apply taken_b_false_iff. intros k Hk; subst d. apply HD. cbn. left; reflexivity.
    + apply IH. split; [exact HF'|]. destruct d as [k|]; cbn [app] in *.
      * inversion HN as [|? ? Hnk HN']; subst. split; [exact HN'|].
        intros k' Hk' [Heq|Hin']; [subst k'; contradiction|].
        apply (HD k'); [right; exact Hk'|exact Hin'].
      * split; [exact HN|]. intros k Hk. apply HD. exact Hk.
Qed.
