(* Proofs for C06: grey_dilation returns exactly the admissible local maxima;
   where_close / drop_close discard exactly the beaten members of close pairs. *)
From Coq Require Import ZArith QArith Qround List Bool Arith Lia Permutation.
From TP Require Import Model.Dilation.
Import ListNotations.
Open Scope Z_scope.

(* ================================================================= Spec *)
Inductive Forall3 {A B C} (R : A -> B -> C -> Prop) : list A -> list B -> list C -> Prop :=
| Forall3_nil : Forall3 R [] [] []
| Forall3_cons : forall a b c la lb lc,
    R a b c -> Forall3 R la lb lc -> Forall3 R (a :: la) (b :: lb) (c :: lc).

(* p is an index tuple of an array of shape sh *)
Definition in_bounds (sh p : list Z) : Prop := Forall2 (fun n i => 0 <= i < n) sh p.

(* q lies in the (reflected) box of the given per-axis sizes around p *)
Definition in_box (sizes p q : list Z) : Prop :=
  Forall3 (fun s i j => i - (s - 1) / 2 <= j <= i + s / 2) sizes p q.

(* p keeps the distance margin from both ends of every axis *)
Definition outside_margin (sh margin p : list Z) : Prop :=
  Forall3 (fun n m i => m <= i <= n - m - 1) sh margin p.

(* the admissible local maxima of an integer image *)
Definition admissible (im : image) (sizes margin : list Z) (thr : Q) (p : list Z) : Prop :=
  in_bounds (shape im) p /\
  (thr < inject_Z (pix im p))%Q /\
  (forall q, in_box sizes p q -> pix im q <= pix im p) /\
  outside_margin (shape im) margin p.

(* ======================================================= list utilities *)
Lemma in_zint : forall lo hi x, In x (zint lo hi) <-> lo <= x <= hi.
Proof.
  intros lo hi x. unfold zint. rewrite in_map_iff. split.
  - intros [k [<- Hk]]. apply in_seq in Hk. lia.
  - intros H. exists (Z.to_nat (x - lo)). split; [lia|]. apply in_seq. lia.
Qed.

Lemma nodup_zint : forall lo hi, NoDup (zint lo hi).
Proof.
  intros. unfold zint. apply FinFun.Injective_map_NoDup; [|apply seq_NoDup].
  intros a b H. lia.
Qed.

Lemma nodup_app_intro : forall {A} (l1 l2 : list A),
  NoDup l1 -> NoDup l2 -> (forall x, In x l1 -> In x l2 -> False) -> NoDup (l1 ++ l2).
Proof.
  induction l1 as [|a l1 IH]; intros l2 H1 H2 Hd; cbn; auto.
  inversion H1; subst. constructor.
  - rewrite in_app_iff. intros [H|H]; [tauto|]. eapply Hd; [left; reflexivity|exact H].
  - apply IH; auto. intros x Hx. apply Hd. right; exact Hx.
Qed.

Lemma nodup_flat_map : forall {A B} (f : A -> list B) (l : list A),
  NoDup l -> (forall x, In x l -> NoDup (f x)) ->
  (forall x y z, In x l -> In y l -> x <> y -> In z (f x) -> In z (f y) -> False) ->
  NoDup (flat_map f l).
Proof.
  induction l as [|a l IH]; intros Hn Hf Hd; cbn; [constructor|].
  inversion Hn; subst. apply nodup_app_intro.
  - apply Hf. left; reflexivity.
  - apply IH; auto.
    + intros x Hx. apply Hf. right; exact Hx.
    + intros x y z Hx Hy. apply Hd; right; assumption.
  - intros z Hz1 Hz2. apply in_flat_map in Hz2. destruct Hz2 as [y [Hy Hzy]].
    apply (Hd a y z); auto; [left; reflexivity | right; exact Hy | congruence].
Qed.

Lemma in_prod_ranges : forall rs c,
  In c (prod_ranges rs) <-> Forall2 (fun r i => fst r <= i <= snd r) rs c.
Proof.
  induction rs as [|r rs IH]; intros c; cbn.
  - split.
    + intros [<-|[]]. constructor.
    + intros H. inversion H. left; reflexivity.
  - rewrite in_flat_map. split.
    + intros [i [Hi Hc]]. apply in_map_iff in Hc. destruct Hc as [c' [<- Hc']].
      constructor; [apply in_zint; exact Hi | apply IH; exact Hc'].
    + intros H. inversion H; subst. exists y. split; [apply in_zint; assumption|].
      apply in_map. apply IH. assumption.
Qed.

Lemma nodup_prod_ranges : forall rs, NoDup (prod_ranges rs).
Proof.
  induction rs as [|r rs IH]; cbn.
  - constructor; [intros []|constructor].
  - apply nodup_flat_map.
    + apply nodup_zint.
    + intros x _. apply FinFun.Injective_map_NoDup; [|exact IH]. intros a b H. congruence.
    + intros x y z _ _ Hxy Hx Hy. apply in_map_iff in Hx, Hy.
      destruct Hx as [? [<- _]]. destruct Hy as [? [E _]]. congruence.
Qed.

Lemma in_coords : forall sh c, In c (coords sh) <-> in_bounds sh c.
Proof.
  intros sh c. unfold coords, in_bounds. rewrite in_prod_ranges.
  revert c. induction sh as [|n sh IH]; intros c; cbn.
  - split; intros H; inversion H; constructor.
  - split; intros H; inversion H; subst; constructor; cbn in *; try lia; apply IH; assumption.
Qed.

Lemma nodup_coords : forall sh, NoDup (coords sh).
Proof. intros. apply nodup_prod_ranges. Qed.

Lemma in_bounds_length : forall sh c, in_bounds sh c -> length c = length sh.
Proof. intros sh c H. induction H; cbn; congruence. Qed.

Lemma in_box_iff : forall sizes p q, length sizes = length p ->
  (In q (box sizes p) <-> in_box sizes p q).
Proof.
  unfold box, in_box. intros sizes p q HL. rewrite in_prod_ranges.
  revert p q HL. induction sizes as [|s sizes IH]; intros [|i p] q HL; cbn in HL; try discriminate; cbn.
  - split; intros H; inversion H; constructor.
  - split; intros H; inversion H; subst; cbn in *.
    + constructor; [lia|]. apply IH; [lia|assumption].
    + constructor; [cbn; lia|]. apply IH; [lia|assumption].
Qed.

Lemma in_box_self : forall sizes p, length sizes = length p ->
  Forall (fun s => 1 <= s) sizes -> in_box sizes p p.
Proof.
  unfold in_box. induction sizes as [|s sizes IH]; intros [|i p] HL Hs; cbn in HL; try discriminate.
  - constructor.
  - inversion Hs; subst. constructor; [|apply IH; [lia|assumption]].
    assert (0 <= (s - 1) / 2) by (apply Z.div_pos; lia).
    assert (0 <= s / 2) by (apply Z.div_pos; lia). lia.
Qed.

Lemma near_edge_false : forall sh margin p,
  length sh = length p -> length margin = length p ->
  (near_edge sh margin p = false <-> outside_margin sh margin p).
Proof.
  unfold outside_margin. intros sh margin p. revert sh margin.
  induction p as [|i p IH]; intros [|n sh] [|m margin] H1 H2; cbn in H1, H2; try discriminate.
  - cbn. split; [constructor|reflexivity].
  - cbn [near_edge]. rewrite !orb_false_iff, IH by lia. rewrite !Z.ltb_ge. split.
    + intros [[? ?] ?]. constructor; [lia|assumption].
    + intros H. inversion H; subst. repeat split; try lia. assumption.
Qed.

(* ---------------------------------------------------------------- max *)
Lemma max_of_ge_init : forall vs v, v <= max_of v vs.
Proof.
  unfold max_of. induction vs as [|x vs IH]; intros v; cbn; [lia|].
  specialize (IH (Z.max v x)). lia.
Qed.

Lemma max_of_spec : forall vs v,
  In (max_of v vs) (v :: vs) /\ (forall x, In x (v :: vs) -> x <= max_of v vs).
Proof.
  unfold max_of. induction vs as [|x vs IH]; intros v; cbn.
  - split; [left; reflexivity|]. intros y [<-|[]]. lia.
  - destruct (IH (Z.max v x)) as [Hin Hub]. cbn in Hin. split.
    + destruct Hin as [E|Hin]; [|right; right; exact Hin].
      destruct (Z.max_spec v x) as [[_ E']|[_ E']]; rewrite E' in *; [right; left|left]; exact E.
    + intros y [<-|[<-|Hy]].
      * pose proof (Hub (Z.max v x) (or_introl eq_refl)). lia.
      * pose proof (Hub (Z.max v x) (or_introl eq_refl)). lia.
      * apply Hub. right; exact Hy.
Qed.

(* ------------------------------------------------------------ masks *)
Lemma mask_select_map : forall {A B} (f : A -> bool) (g : A -> B) (l : list A),
  mask_select (map f l) (map g l) = map g (filter f l).
Proof.
  unfold mask_select. induction l as [|a l IH]; cbn; [reflexivity|].
  destruct (f a); cbn; rewrite IH; reflexivity.
Qed.

Lemma mask_select_self : forall {A} (f : A -> bool) (l : list A),
  mask_select (map f l) l = filter f l.
Proof.
  intros. rewrite <- (map_id l) at 2. rewrite mask_select_map. apply map_id.
Qed.

(* ============================================ local maxima (precise=False) *)
Lemma gt_thr_iff : forall t v, gt_thr t v = true <-> (t < inject_Z v)%Q.
Proof.
  intros [n d] v. unfold gt_thr, Qlt, inject_Z. cbn. rewrite Z.ltb_lt. lia.
Qed.

Lemma is_maximum_iff : forall a sizes t p,
  length sizes = length p -> Forall (fun s => 1 <= s) sizes ->
  (is_maximum a sizes t p = true <->
   (t < inject_Z (get a p))%Q /\ forall q, in_box sizes p q -> get a q <= get a p).
Proof.
  intros a sizes t p HL Hs. unfold is_maximum.
  pose proof (in_box_self sizes p HL Hs) as Hself.
  destruct (gt_thr t (get a p)) eqn:Eg.
  2:{ split; [discriminate|]. intros [H _]. apply gt_thr_iff in H. congruence. }
  apply gt_thr_iff in Eg. rewrite Z.eqb_eq. unfold dilation_at.
  destruct (map (get a) (box sizes p)) as [|v vs] eqn:Em.
  { apply (in_box_iff sizes p p HL) in Hself. apply (in_map (get a)) in Hself.
    rewrite Em in Hself. destruct Hself. }
  destruct (max_of_spec vs v) as [Hin Hub]. rewrite <- Em in Hin, Hub.
  split.
  - intros E. split; [exact Eg|]. intros q Hq. rewrite E. apply Hub.
    apply in_map. apply in_box_iff; assumption.
  - intros [_ H]. apply in_map_iff in Hin. destruct Hin as [q [Eq Hq]].
    apply in_box_iff in Hq; [|assumption]. specialize (H q Hq).
    assert (get a p <= max_of v vs).
    { apply Hub. apply in_map. apply in_box_iff; assumption. }
    lia.
Qed.

Section GD.
  Variable percentile : list Z -> Q.

  Definition eff_margin (margin : option (list Z)) (sep : list Q) : list Z :=
    match margin with Some m => m | None => default_margin sep end.

  Definition sizes_of (im : image) (sep : list Q) : list Z :=
    map (box_size (Z.of_nat (length (shape im)))) sep.

  (* the function without its early returns *)
  Definition gd_core (im : image) (sep : list Q) (mg : list Z) : list (list Z) :=
    filter (fun p => negb (near_edge (shape im) mg p))
           (local_maxima im (sizes_of im sep) (percentile (not_black im))).

  Lemma gd_nonprecise_eq : forall is_float im0 sep margin,
    let im := convert_to_int is_float im0 in
    grey_dilation percentile is_float im0 sep margin false =
    match not_black im with [] => [] | _ => gd_core im sep (eff_margin margin sep) end.
  Proof.
    intros. unfold grey_dilation. fold im. fold (eff_margin margin sep).
    unfold gd_core, sizes_of.
    destruct (not_black im) as [|nb0 nbs] eqn:Enb; [reflexivity|].
    set (pos0 := local_maxima im _ _).
    rewrite mask_select_self.
    destruct pos0 as [|p0 ps]; [reflexivity|].
    destruct (filter _ (p0 :: ps)); reflexivity.
  Qed.

  Lemma np_delete_nil : forall {A} idx, @np_delete A [] idx = [].
  Proof. reflexivity. Qed.

  Lemma gd_precise_eq : forall is_float im0 sep margin,
    let im := convert_to_int is_float im0 in
    let pos := grey_dilation percentile is_float im0 sep margin false in
    grey_dilation percentile is_float im0 sep margin true =
    drop_close (map inject_Z) pos sep (Some (map (pix im) pos)).
  Proof.
    intros. subst pos. rewrite gd_nonprecise_eq. fold im.
    unfold grey_dilation. fold im. fold (eff_margin margin sep).
    unfold gd_core, sizes_of.
    destruct (not_black im) as [|nb0 nbs] eqn:Enb; [reflexivity|].
    set (pos0 := local_maxima im _ _).
    rewrite mask_select_self, mask_select_map.
    destruct pos0 as [|p0 ps]; [reflexivity|].
    destruct (filter _ (p0 :: ps)); reflexivity.
  Qed.

  Theorem maxima_exact : forall is_float im0 sep margin p,
    let im := convert_to_int is_float im0 in
    let mg := eff_margin margin sep in
    length sep = length (shape im) -> length mg = length (shape im) ->
    Forall (fun s => 1 <= s) (sizes_of im sep) ->
    (In p (grey_dilation percentile is_float im0 sep margin false) <->
     not_black im <> [] /\
     admissible im (sizes_of im sep) mg (percentile (not_black im)) p).
  Proof.
    intros is_float im0 sep margin p im mg HLs HLm Hsz.
    rewrite gd_nonprecise_eq. fold im. fold mg.
    destruct (not_black im) as [|nb0 nbs] eqn:Enb.
    { split; [intros []|intros [H _]; congruence]. }
    rewrite <- Enb. unfold gd_core, local_maxima, admissible, pix.
    rewrite !filter_In, in_coords, negb_true_iff. split.
    - intros [[Hb Hm] Hne].
      pose proof (in_bounds_length _ _ Hb) as HLp.
      apply is_maximum_iff in Hm; [|unfold sizes_of; rewrite map_length; lia|assumption].
      apply near_edge_false in Hne; [|lia|lia].
      split; [congruence|]. tauto.
    - intros [_ [Hb [Ht [Hm Ho]]]].
      pose proof (in_bounds_length _ _ Hb) as HLp.
      split; [split; [assumption|]|].
      + apply is_maximum_iff; [unfold sizes_of; rewrite map_length; lia|assumption|tauto].
      + apply near_edge_false; [lia|lia|assumption].
  Qed.

  Theorem maxima_nodup : forall is_float im0 sep margin,
    NoDup (grey_dilation percentile is_float im0 sep margin false).
  Proof.
    intros. rewrite gd_nonprecise_eq.
    destruct (not_black _); [constructor|].
    unfold gd_core, local_maxima. apply NoDup_filter, NoDup_filter, nodup_coords.
  Qed.
End GD.

(* ===================================================== where_close spec *)
Open Scope Q_scope.

(* squared Euclidean distance and coordinate sum, written plainly *)
Fixpoint sqdist (a b : list Q) : Q :=
  match a, b with
  | x :: a', y :: b' => (x - y) * (x - y) + sqdist a' b'
  | _, _ => 0
  end.

Fixpoint total (a : list Q) : Q :=
  match a with
  | [] => 0
  | x :: a' => x + total a'
  end.

(* p and q are closer than the separation: after dividing every coordinate by
   the separation along its axis, their distance is below 1 *)
Definition closer_than_sep (sep p q : list Q) : Prop :=
  sqdist (rescale_pos p sep) (rescale_pos q sep) < 1.

(* feature j beats feature k: brighter; at equal brightness the larger rescaled
   coordinate sum; at equal sums the later one *)
Definition beats (sep : list Q) (pos : list (list Q)) (inten : nat -> Z) (j k : nat) : Prop :=
  let sj := total (rescale_pos (nth j pos []) sep) in
  let sk := total (rescale_pos (nth k pos []) sep) in
  (inten k < inten j)%Z \/
  (inten j = inten k /\ (sk < sj \/ (sj == sk /\ (k < j)%nat))).

Definition inten_of (intensity : option (list Z)) (i : nat) : Z :=
  match intensity with None => 0%Z | Some ints => nth i ints 0%Z end.

Lemma dist2_sqdist : forall a b, dist2 a b == sqdist a b.
Proof.
  induction a as [|x a IH]; intros [|y b]; cbn [dist2 sqdist]; try reflexivity.
  rewrite Qred_correct, IH. reflexivity.
Qed.

Lemma qsum_total : forall a, qsum a == total a.
Proof.
  induction a as [|x a IH]; cbn [qsum total]; [reflexivity|]. rewrite Qred_correct, IH. reflexivity.
Qed.

Lemma sqdist_sym : forall a b, sqdist a b == sqdist b a.
Proof.
  induction a as [|x a IH]; intros [|y b]; cbn [sqdist]; try reflexivity.
  rewrite IH. ring.
Qed.

Lemma Qlt_b_iff : forall x y, Qlt_b x y = true <-> x < y.
Proof.
  intros x y. unfold Qlt_b. rewrite negb_true_iff. split.
  - intros H. apply Qnot_le_lt. intros Hle. apply Qle_bool_iff in Hle. congruence.
  - intros H. destruct (Qle_bool y x) eqn:E; [|reflexivity].
    apply Qle_bool_iff in E. exfalso. exact (Qlt_not_le _ _ H E).
Qed.

Lemma close_b_iff : forall a b, close_b a b = true <-> sqdist a b < 1.
Proof. intros. unfold close_b. rewrite Qlt_b_iff, dist2_sqdist. reflexivity. Qed.

Close Scope Q_scope.
Open Scope nat_scope.

Lemma in_all_pairs : forall n i j, In (i, j) (all_pairs n) <-> i < j < n.
Proof.
  intros n i j. unfold all_pairs. rewrite in_flat_map. split.
  - intros [i' [Hi H]]. apply in_map_iff in H. destruct H as [j' [E Hj]].
    inversion E; subst. apply in_seq in Hi, Hj. lia.
  - intros H. exists i. split; [apply in_seq; lia|]. apply in_map. apply in_seq. lia.
Qed.

Lemma in_insert_uniq : forall x y l, In y (insert_uniq x l) <-> y = x \/ In y l.
Proof.
  induction l as [|z l IH]; cbn [insert_uniq In]; [intuition congruence|].
  destruct (x <? z) eqn:E1; [cbn; intuition congruence|].
  destruct (x =? z) eqn:E2.
  - apply Nat.eqb_eq in E2. subst. cbn. split; [tauto|]. intros [H|H]; [left; congruence|exact H].
  - cbn. rewrite IH. split; [tauto|]. intros [H|[H|H]]; tauto.
Qed.

Lemma in_np_unique : forall y l, In y (np_unique l) <-> In y l.
Proof.
  unfold np_unique. induction l as [|x l IH]; cbn; [reflexivity|].
  rewrite in_insert_uniq, IH. intuition congruence.
Qed.

Lemma in_combine_seq : forall {A} (l : list A) s i x,
  In (i, x) (combine (seq s (length l)) l) <-> s <= i /\ nth_error l (i - s) = Some x.
Proof.
  induction l as [|a l IH]; intros s i x; cbn [length seq combine In].
  - split; [intros []|]. intros [_ H]. destruct (i - s); discriminate.
  - rewrite IH. split.
    + intros [E|[Hle Hn]].
      * inversion E; subst. replace (i - i) with 0 by lia. split; [lia|reflexivity].
      * split; [lia|]. replace (i - s) with (S (i - S s)) by lia. exact Hn.
    + intros [Hle Hn]. destruct (Nat.eq_dec i s) as [->|Hne].
      * replace (s - s) with 0 in Hn by lia. cbn in Hn. left. congruence.
      * right. split; [lia|]. replace (i - s) with (S (i - S s)) in Hn by lia. exact Hn.
Qed.

Lemma existsb_eqb_in : forall i idx, existsb (Nat.eqb i) idx = true <-> In i idx.
Proof.
  intros. rewrite existsb_exists. split.
  - intros [x [Hx E]]. apply Nat.eqb_eq in E. subst. exact Hx.
  - intros H. exists i. split; [exact H|apply Nat.eqb_refl].
Qed.

Lemma in_np_delete : forall {A} (l : list A) idx x,
  In x (np_delete l idx) <-> exists i, nth_error l i = Some x /\ ~ In i idx.
Proof.
  intros A l idx x. unfold np_delete. rewrite in_map_iff. split.
  - intros [[i y] [E H]]. cbn in E. subst y. apply filter_In in H. destruct H as [Hin Hb].
    apply in_combine_seq in Hin. destruct Hin as [_ Hn]. rewrite Nat.sub_0_r in Hn.
    exists i. split; [exact Hn|]. cbn in Hb. apply negb_true_iff in Hb.
    intros Hi. apply existsb_eqb_in in Hi. congruence.
  - intros [i [Hn Hi]]. exists (i, x). split; [reflexivity|]. apply filter_In. split.
    + apply in_combine_seq. rewrite Nat.sub_0_r. split; [lia|exact Hn].
    + cbn. apply negb_true_iff. destruct (existsb (Nat.eqb i) idx) eqn:E; [|reflexivity].
      apply existsb_eqb_in in E. contradiction.
Qed.

Section WhereClose.
  Variables (pos : list (list Q)) (sep : list Q) (intensity : option (list Z)).
  Hypothesis sep_nz : Forall (fun s => ~ (s == 0)%Q) sep.

  Local Notation rs := (map (fun p => rescale_pos p sep) pos).
  Local Notation inten := (inten_of intensity).

  Lemma nth_rs : forall i, nth i rs [] = rescale_pos (nth i pos []) sep.
  Proof.
    intros i.
    change (@nil Q) with (rescale_pos [] sep) at 1.
    apply (map_nth (fun p => rescale_pos p sep)).
  Qed.

  Lemma sum_gt_iff : forall i0 i1,
    sum_gt rs i0 i1 = true <-> (total (nth i1 rs []) < total (nth i0 rs []))%Q.
  Proof. intros. unfold sum_gt. rewrite Qlt_b_iff, !qsum_total. reflexivity. Qed.

  Definition by_position (ij : nat * nat) : nat :=
    if sum_gt rs (fst ij) (snd ij) then snd ij else fst ij.

  (* the per-pair decision of where_close *)
  Definition decide (ij : nat * nat) : nat :=
    match intensity with
    | None => by_position ij
    | Some ints =>
        let i0 := nth (fst ij) ints 0%Z in
        let i1 := nth (snd ij) ints 0%Z in
        let d := if (i1 <? i0)%Z then snd ij else fst ij in
        if (i0 =? i1)%Z then by_position ij else d
    end.

  Lemma by_position_cases : forall (I : nat -> Z) i j, i < j -> I i = I j ->
    (by_position (i, j) = j /\ beats sep pos I i j) \/
    (by_position (i, j) = i /\ beats sep pos I j i).
  Proof.
    intros I i j Hij HI. unfold by_position, beats. cbn [fst snd].
    rewrite <- !nth_rs.
    destruct (sum_gt rs i j) eqn:E.
    - left. split; [reflexivity|]. apply sum_gt_iff in E. right. split; [exact HI|]. left. exact E.
    - right. split; [reflexivity|]. right. split; [symmetry; exact HI|].
      assert (Hle : (total (nth i rs []) <= total (nth j rs []))%Q).
      { apply Qnot_lt_le. intros H. apply sum_gt_iff in H. congruence. }
      apply Qle_lt_or_eq in Hle. destruct Hle as [H|H]; [left; exact H|right].
      split; [symmetry; exact H|exact Hij].
  Qed.

  Lemma decide_cases : forall i j, i < j ->
    (decide (i, j) = j /\ beats sep pos inten i j) \/
    (decide (i, j) = i /\ beats sep pos inten j i).
  Proof.
    intros i j Hij. unfold decide. destruct intensity as [ints|] eqn:EI.
    - cbn [fst snd].
      destruct (nth i ints 0 =? nth j ints 0)%Z eqn:Eeq.
      + apply Z.eqb_eq in Eeq. apply by_position_cases; [exact Hij|].
        unfold inten_of. exact Eeq.
      + apply Z.eqb_neq in Eeq.
        destruct (nth j ints 0 <? nth i ints 0)%Z eqn:Elt.
        * left. split; [reflexivity|]. left. unfold inten_of.
          apply Z.ltb_lt. exact Elt.
        * right. split; [reflexivity|]. left. unfold inten_of.
          apply Z.ltb_ge in Elt. lia.
    - apply by_position_cases; [exact Hij|]. reflexivity.
  Qed.

  Lemma beats_asym : forall j k, beats sep pos inten j k -> beats sep pos inten k j -> False.
  Proof.
    unfold beats. intros j k [H1|[E1 [H1|[Q1 H1]]]] [H2|[E2 [H2|[Q2 H2]]]]; try lia.
    - exact (Qlt_irrefl _ (Qlt_trans _ _ _ H1 H2)).
    - rewrite Q2 in H1. exact (Qlt_irrefl _ H1).
    - rewrite Q1 in H2. exact (Qlt_irrefl _ H2).
  Qed.

  Lemma beats_total : forall j k, j <> k -> beats sep pos inten j k \/ beats sep pos inten k j.
  Proof.
    unfold beats. intros j k Hjk.
    destruct (Z.lt_total (inten j) (inten k)) as [H|[H|H]]; [right; left; exact H| |left; left; exact H].
    destruct (Q_dec (total (rescale_pos (nth j pos []) sep)) (total (rescale_pos (nth k pos []) sep)))
      as [[Hq|Hq]|Hq].
    - right. right. split; [symmetry; exact H|left; exact Hq].
    - left. right. split; [exact H|left; exact Hq].
    - destruct (Nat.lt_total j k) as [L|[L|L]]; [|contradiction|].
      + right. right. split; [symmetry; exact H|]. right. split; [symmetry; exact Hq|exact L].
      + left. right. split; [exact H|]. right. split; [exact Hq|exact L].
  Qed.

  Lemma where_close_eq :
    where_close pos sep intensity = np_unique (map decide (query_pairs rs)).
  Proof.
    unfold where_close.
    destruct pos as [|p0 ps] eqn:Ep.
    { reflexivity. }
    rewrite <- Ep in *.
    assert (Hnz : existsb (fun s => Qeq_bool s 0) sep = false).
    { clear - sep_nz. induction sep as [|s l IH]; [reflexivity|]. inversion sep_nz; subst.
      cbn. rewrite IH by assumption. destruct (Qeq_bool s 0) eqn:E; [|reflexivity].
      apply Qeq_bool_iff in E. contradiction. }
    rewrite Hnz.
    destruct (query_pairs rs) as [|d ds] eqn:Ed; [reflexivity|].
    rewrite <- Ed. unfold decide, by_position.
    destruct intensity; reflexivity.
  Qed.

  Lemma in_query_pairs : forall i j,
    In (i, j) (query_pairs rs) <->
    i < j < length pos /\ closer_than_sep sep (nth i pos []) (nth j pos []).
  Proof.
    intros i j. unfold query_pairs. rewrite filter_In, in_all_pairs. cbn [fst snd].
    rewrite map_length. rewrite close_b_iff, !nth_rs. reflexivity.
  Qed.

  Lemma closer_sym : forall p q, closer_than_sep sep p q -> closer_than_sep sep q p.
  Proof. unfold closer_than_sep. intros p q H. rewrite sqdist_sym. exact H. Qed.

  (* where_close returns exactly the features that have a close neighbour beating them *)
  Theorem where_close_spec : forall k,
    In k (where_close pos sep intensity) <->
    k < length pos /\
    exists j, j < length pos /\ j <> k /\
              closer_than_sep sep (nth j pos []) (nth k pos []) /\
              beats sep pos inten j k.
  Proof.
    intros k. rewrite where_close_eq, in_np_unique, in_map_iff. split.
    - intros [[i j] [Ed Hin]]. apply in_query_pairs in Hin. destruct Hin as [Hij Hc].
      destruct (decide_cases i j) as [[E B]|[E B]]; [lia| |]; rewrite E in Ed; subst k.
      + split; [lia|]. exists i. repeat split; try lia; assumption.
      + split; [lia|]. exists j. repeat split; try lia; [apply closer_sym|]; assumption.
    - intros [Hk [j [Hj [Hjk [Hc B]]]]].
      destruct (Nat.lt_total j k) as [L|[L|L]]; [|contradiction|].
      + exists (j, k). split; [|apply in_query_pairs; split; [lia|exact Hc]].
        destruct (decide_cases j k L) as [[E _]|[_ B']]; [exact E|].
        exfalso. exact (beats_asym _ _ B B').
      + exists (k, j). split; [|apply in_query_pairs; split; [lia|apply closer_sym; exact Hc]].
        destruct (decide_cases k j L) as [[_ B']|[E _]]; [|exact E].
        exfalso. exact (beats_asym _ _ B B').
  Qed.
End WhereClose.

(* ============================================================ drop_close *)
Section DropClose.
  Context {A : Type}.
  Variables (inj : A -> list Q) (bright : A -> Z) (pos : list A) (sep : list Q).
  Hypothesis sep_nz : Forall (fun s => ~ (s == 0)%Q) sep.

  Local Notation dropped := (where_close (map inj pos) sep (Some (map bright pos))).
  Local Notation survivors := (drop_close inj pos sep (Some (map bright pos))).

  Lemma in_survivors : forall x,
    In x survivors <-> exists i, nth_error pos i = Some x /\ ~ In i dropped.
  Proof. intros. unfold drop_close. apply in_np_delete. Qed.

  Lemma nth_inj : forall i x, nth_error pos i = Some x -> nth i (map inj pos) [] = inj x.
  Proof.
    intros i x H. apply nth_error_nth. apply map_nth_error. exact H.
  Qed.

  Lemma nth_bright : forall i x, nth_error pos i = Some x ->
    inten_of (Some (map bright pos)) i = bright x.
  Proof.
    intros i x H. unfold inten_of. apply nth_error_nth. apply map_nth_error. exact H.
  Qed.

  Lemma nth_error_lt : forall i x, nth_error pos i = Some x -> i < length pos.
  Proof. intros i x H. apply nth_error_Some. congruence. Qed.

  Theorem survivors_subset : forall x, In x survivors -> In x pos.
  Proof.
    intros x H. apply in_survivors in H. destruct H as [i [H _]].
    eapply nth_error_In; exact H.
  Qed.

  Theorem survivors_separated : forall x y,
    In x survivors -> In y survivors -> x <> y -> ~ closer_than_sep sep (inj x) (inj y).
  Proof.
    intros x y Hx Hy Hxy Hc.
    apply in_survivors in Hx, Hy. destruct Hx as [i [Hi Hni]]. destruct Hy as [j [Hj Hnj]].
    assert (Hij : i <> j) by (intros ->; congruence).
    pose proof (nth_error_lt _ _ Hi) as Li. pose proof (nth_error_lt _ _ Hj) as Lj.
    destruct (beats_total (map inj pos) sep (Some (map bright pos)) i j Hij) as [B|B].
    - apply Hnj. apply where_close_spec; [exact sep_nz|]. rewrite map_length.
      split; [exact Lj|]. exists i. repeat split; try assumption.
      rewrite (nth_inj _ _ Hi), (nth_inj _ _ Hj). exact Hc.
    - apply Hni. apply where_close_spec; [exact sep_nz|]. rewrite map_length.
      split; [exact Li|]. exists j. repeat split; try assumption; [congruence|].
      rewrite (nth_inj _ _ Hi), (nth_inj _ _ Hj). apply closer_sym. exact Hc.
  Qed.

  Theorem discards_justified : forall x,
    NoDup pos -> In x pos -> ~ In x survivors ->
    exists y, In y pos /\ y <> x /\ closer_than_sep sep (inj y) (inj x) /\ (bright x <= bright y)%Z.
  Proof.
    intros x Hnd Hx Hns. apply In_nth_error in Hx. destruct Hx as [i Hi].
    destruct (in_dec Nat.eq_dec i dropped) as [Hd|Hd].
    2:{ exfalso. apply Hns. apply in_survivors. exists i. split; assumption. }
    apply where_close_spec in Hd; [|exact sep_nz]. rewrite map_length in Hd.
    destruct Hd as [Li [j [Lj [Hji [Hc B]]]]].
    destruct (nth_error pos j) as [y|] eqn:Hj; [|apply nth_error_None in Hj; lia].
    exists y. split; [eapply nth_error_In; exact Hj|]. split.
    - intros ->. apply Hji. apply (proj1 (NoDup_nth_error pos) Hnd); [exact Lj|congruence].
    - rewrite (nth_inj _ _ Hi), (nth_inj _ _ Hj) in Hc. split; [exact Hc|].
      unfold beats in B. rewrite (nth_bright _ _ Hi), (nth_bright _ _ Hj) in B.
      destruct B as [B|[B _]]; lia.
  Qed.
End DropClose.

(* ============================================ grey_dilation, precise=True *)
Close Scope nat_scope.
Open Scope Z_scope.

Section GDPrecise.
  Variable percentile : list Z -> Q.
  Variables (is_float : bool) (im0 : image) (sep : list Q) (margin : option (list Z)).
  Hypothesis sep_nz : Forall (fun s => ~ (s == 0)%Q) sep.

  Local Notation im := (convert_to_int is_float im0).
  Local Notation candidates := (grey_dilation percentile is_float im0 sep margin false).
  Local Notation result := (grey_dilation percentile is_float im0 sep margin true).

  Theorem precise_subset : forall p, In p result -> In p candidates.
  Proof. intros p. rewrite gd_precise_eq. apply survivors_subset. Qed.

  Theorem precise_separated : forall p q,
    In p result -> In q result -> p <> q ->
    ~ closer_than_sep sep (map inject_Z p) (map inject_Z q).
  Proof. intros p q. rewrite gd_precise_eq. apply survivors_separated. exact sep_nz. Qed.

  Theorem precise_justified : forall p,
    In p candidates -> ~ In p result ->
    exists q, In q candidates /\ q <> p /\
              closer_than_sep sep (map inject_Z q) (map inject_Z p) /\
              pix im p <= pix im q.
  Proof.
    intros p. rewrite gd_precise_eq. apply discards_justified; [exact sep_nz|].
    apply maxima_nodup.
  Qed.

  (* exactly: candidate number i (row-major order) is kept iff no close candidate beats it *)
  Theorem precise_exact : forall i p,
    nth_error candidates i = Some p -> NoDup candidates ->
    (In p result <->
     ~ exists j, (j < length candidates)%nat /\ j <> i /\
         closer_than_sep sep (nth j (map (map inject_Z) candidates) []) (map inject_Z p) /\
         beats sep (map (map inject_Z) candidates) (inten_of (Some (map (pix im) candidates))) j i).
  Proof.
    intros i p Hi Hnd. rewrite gd_precise_eq. rewrite in_survivors.
    pose proof (nth_error_lt _ _ _ Hi) as Li. split.
    - intros [i' [Hi' Hn]] [j [Lj [Hji [Hc B]]]].
      assert (i' = i).
      { apply (proj1 (NoDup_nth_error _) Hnd); [eapply nth_error_lt; exact Hi'|congruence]. }
      subst i'. apply Hn. apply where_close_spec; [exact sep_nz|]. rewrite map_length.
      split; [exact Li|]. exists j. repeat split; try assumption.
      rewrite (nth_inj _ _ _ _ Hi). exact Hc.
    - intros H. exists i. split; [exact Hi|]. intros Hd. apply H.
      apply where_close_spec in Hd; [|exact sep_nz]. rewrite map_length in Hd.
      destruct Hd as [_ [j [Lj [Hji [Hc B]]]]]. exists j. repeat split; try assumption.
      rewrite (nth_inj _ _ _ _ Hi) in Hc. exact Hc.
  Qed.
End GDPrecise.

(* ================================================================ sizes *)
Lemma box_size_spec : forall ndim s, 0 < ndim ->
  let k := box_size ndim s in
  0 <= k /\
  k * k * ndim * (QDen s * QDen s) <= 4 * (Qnum s * Qnum s) < (k + 1) * (k + 1) * ndim * (QDen s * QDen s).
Proof.
  intros ndim s Hn k. unfold box_size in k.
  set (N := 4 * (Qnum s * Qnum s)) in *. set (D := ndim * (QDen s * QDen s)) in *.
  assert (HD : 0 < D) by (unfold D; nia).
  assert (HN : 0 <= N) by (unfold N; nia).
  assert (Hx : 0 <= N / D) by (apply Z.div_pos; lia).
  pose proof (Z.sqrt_spec (N / D) Hx) as Hs. fold k in Hs. cbv zeta in Hs.
  pose proof (Z.mul_div_le N D HD). pose proof (Z.mul_succ_div_gt N D HD).
  assert (0 <= k) by (apply Z.sqrt_nonneg).
  split; [assumption|].
  replace (k * k * ndim * (QDen s * QDen s)) with (k * k * D) by (unfold D; ring).
  replace ((k + 1) * (k + 1) * ndim * (QDen s * QDen s)) with ((k + 1) * (k + 1) * D) by (unfold D; ring).
  split; nia.
Qed.

(* ======================================================= convert_to_int *)
Lemma get_arr_map : forall f, f 0 = 0 -> forall c a, get (arr_map f a) c = f (get a c).
Proof.
  intros f Hf. induction c as [|i c IH]; intros [v|l]; cbn; try (symmetry; exact Hf); try reflexivity.
  destruct (i <? 0); [symmetry; exact Hf|].
  rewrite nth_error_map. destruct (nth_error l (Z.to_nat i)); cbn; [apply IH|symmetry; exact Hf].
Qed.

Lemma rescale_zero : forall vmax, rescale vmax 0 = 0.
Proof. intros. unfold rescale. destruct (0 <? vmax); reflexivity. Qed.

Theorem image_max_spec : forall im m, image_max im = Some m ->
  (exists c, in_bounds (shape im) c /\ pix im c = m) /\
  (forall c, in_bounds (shape im) c -> pix im c <= m).
Proof.
  intros im m. unfold image_max.
  destruct (map (pix im) (coords (shape im))) as [|v vs] eqn:E; [discriminate|].
  intros H. inversion H; subst. destruct (max_of_spec vs v) as [Hin Hub]. rewrite <- E in Hin, Hub.
  split.
  - apply in_map_iff in Hin. destruct Hin as [c [Ec Hc]]. exists c. split; [apply in_coords; exact Hc|exact Ec].
  - intros c Hc. apply Hub. apply in_map. apply in_coords. exact Hc.
Qed.

Theorem convert_to_int_spec : forall im vmax, image_max im = Some vmax ->
  shape (convert_to_int true im) = shape im /\
  forall c, pix (convert_to_int true im) c = rescale vmax (pix im c).
Proof.
  intros im vmax H. unfold convert_to_int. rewrite H. cbn. split; [reflexivity|].
  intros c. unfold pix. cbn. apply get_arr_map. apply rescale_zero.
Qed.

Theorem convert_to_int_integer : forall im, convert_to_int false im = im.
Proof. reflexivity. Qed.

(* ====================================== isotropic separation, plain form *)
Open Scope Q_scope.
Lemma sqdist_rescale_iso : forall s, ~ s == 0 -> forall n p q,
  length p = n -> length q = n ->
  sqdist (rescale_pos p (repeat s n)) (rescale_pos q (repeat s n)) * (s * s) == sqdist p q.
Proof.
  intros s Hs. induction n as [|n IH]; intros [|x p] [|y q] Hp Hq; cbn in Hp, Hq; try discriminate.
  - cbn. ring.
  - cbn [repeat rescale_pos sqdist]. rewrite <- (IH p q) by lia. field. exact Hs.
Qed.

Theorem closer_than_sep_iso : forall s n p q, 0 < s ->
  length p = n -> length q = n ->
  (closer_than_sep (repeat s n) p q <-> sqdist p q < s * s).
Proof.
  intros s n p q Hs Hp Hq. unfold closer_than_sep.
  assert (Hnz : ~ s == 0) by (intros E; rewrite E in Hs; exact (Qlt_irrefl _ Hs)).
  rewrite <- (sqdist_rescale_iso s Hnz n p q Hp Hq).
  assert (Hss : 0 < s * s) by (apply Qmult_lt_0_compat; exact Hs).
  split; intros H.
  - setoid_replace (s * s) with (1 * (s * s)) at 2 by ring. apply Qmult_lt_r; assumption.
  - setoid_replace (s * s) with (1 * (s * s)) in H at 2 by ring. apply Qmult_lt_r in H; assumption.
Qed.
Close Scope Q_scope.

Theorem drop_close_exact : forall (pos : list (list Q)) sep intensity x,
  In x (drop_close (fun p => p) pos sep intensity) <->
  exists i, nth_error pos i = Some x /\ ~ In i (where_close pos sep intensity).
Proof. intros. unfold drop_close. rewrite map_id. apply in_np_delete. Qed.

(* =========================================== soundness of the monitors *)
From TP Require Import Model.DilationCheck.

Lemma eqb_pt_iff : forall a b, eqb_pt a b = true <-> a = b.
Proof.
  induction a as [|x a IH]; intros [|y b]; cbn; try (split; [discriminate|congruence]).
  - split; reflexivity.
  - rewrite andb_true_iff, Z.eqb_eq, IH. split; [intros [-> ->]; reflexivity|intros E; inversion E; auto].
Qed.

Lemma mem_pt_iff : forall p l, mem_pt p l = true <-> In p l.
Proof.
  intros p l. unfold mem_pt. rewrite existsb_exists. split.
  - intros [x [Hx E]]. apply eqb_pt_iff in E. subst. exact Hx.
  - intros H. exists p. split; [exact H|apply eqb_pt_iff; reflexivity].
Qed.

Lemma nodup_pts_sound : forall l, nodup_pts l = true -> NoDup l.
Proof.
  induction l as [|x l IH]; cbn; intros H; [constructor|].
  apply andb_true_iff in H. destruct H as [H1 H2]. constructor; [|apply IH; exact H2].
  intros Hin. apply mem_pt_iff in Hin. rewrite Hin in H1. discriminate.
Qed.

Lemma close_pts_iff : forall sep p q,
  close_pts sep p q = true <-> closer_than_sep sep (map inject_Z p) (map inject_Z q).
Proof. intros. unfold close_pts, closer_than_sep. apply close_b_iff. Qed.

Lemma eqb_pts_iff : forall a b, eqb_pts a b = true <-> a = b.
Proof.
  induction a as [|x a IH]; intros [|y b]; cbn; try (split; [discriminate|congruence]).
  - split; reflexivity.
  - rewrite andb_true_iff, eqb_pt_iff, IH. split; [intros [-> ->]; reflexivity|intros E; inversion E; auto].
Qed.

Lemma existsb_false_forall : forall {A} (f : A -> bool) l,
  existsb f l = false -> forall x, In x l -> f x = false.
Proof.
  intros A f l H x Hx. destruct (f x) eqn:E; [|reflexivity].
  assert (existsb f l = true) by (apply existsb_exists; exists x; auto). congruence.
Qed.

(* the precise=True monitor accepts only outputs that satisfy the three clauses of the property *)
Theorem check_precise_sound : forall im sep cands out,
  check_precise im sep cands out = 0%N ->
  (forall p, In p out -> In p cands) /\ NoDup out /\
  (forall p q, In p out -> In q out -> p <> q ->
               ~ closer_than_sep sep (map inject_Z p) (map inject_Z q)) /\
  (forall p, In p cands -> ~ In p out ->
     exists q, In q cands /\ q <> p /\
               closer_than_sep sep (map inject_Z q) (map inject_Z p) /\ pix im p <= pix im q).
Proof.
  intros im sep cands out. unfold check_precise.
  destruct (forallb _ out && nodup_pts out) eqn:E1; cbn [negb]; [|discriminate].
  destruct (existsb _ out) eqn:E2; [discriminate|].
  destruct (existsb _ cands) eqn:E3; [discriminate|]. intros _.
  apply andb_true_iff in E1. destruct E1 as [Hsub Hnd].
  rewrite forallb_forall in Hsub. repeat split.
  - intros p Hp. apply mem_pt_iff. apply Hsub. exact Hp.
  - apply nodup_pts_sound. exact Hnd.
  - intros p q Hp Hq Hpq Hc.
    pose proof (existsb_false_forall _ _ E2 p Hp) as H. cbn beta in H.
    pose proof (existsb_false_forall _ _ H q Hq) as H'. cbn beta in H'.
    apply close_pts_iff in Hc. rewrite Hc, andb_true_r in H'.
    apply negb_false_iff in H'. apply eqb_pt_iff in H'. contradiction.
  - intros p Hp Hnp.
    pose proof (existsb_false_forall _ _ E3 p Hp) as H. cbn beta in H.
    apply andb_false_iff in H. destruct H as [H|H].
    + apply negb_false_iff in H. apply mem_pt_iff in H. contradiction.
    + apply negb_false_iff in H. apply existsb_exists in H. destruct H as [q [Hq H]].
      apply andb_true_iff in H. destruct H as [H H3]. apply andb_true_iff in H. destruct H as [H1 H2].
      exists q. repeat split.
      * exact Hq.
      * intros ->. apply negb_true_iff in H1. rewrite (proj2 (eqb_pt_iff p p) eq_refl) in H1. discriminate.
      * apply close_pts_iff. exact H2.
      * apply Z.leb_le. exact H3.
Qed.

(* the whole-case monitor: code 0 means the implementation's output is, as a set,
   the model's result (precise=False), resp. is the model's list (precise=True) *)
Theorem check_gd_sound : forall is_float im0 sep margin thr precise out,
  check_gd is_float im0 sep margin thr precise out = 0%N ->
  forall p, In p out <-> In p (grey_dilation (fun _ => thr) is_float im0 sep margin precise).
Proof.
  intros is_float im0 sep margin thr precise out. unfold check_gd. destruct precise.
  - destruct (check_precise _ sep _ out); [|discriminate].
    destruct (eqb_pts out _) eqn:E; [|discriminate]. apply eqb_pts_iff in E. rewrite <- E. tauto.
  - destruct (existsb _ out) eqn:E1; [discriminate|].
    destruct (existsb _ (grey_dilation _ _ _ _ _ false)) eqn:E2; [discriminate|]. intros _ p. split; intros Hp.
    + pose proof (existsb_false_forall _ _ E1 p Hp) as H. cbn beta in H.
      apply negb_false_iff in H. apply mem_pt_iff. exact H.
    + pose proof (existsb_false_forall _ _ E2 p Hp) as H. cbn beta in H.
      apply negb_false_iff in H. apply mem_pt_iff. exact H.
Qed.

(* accepted precise=False outputs are exactly the admissible local maxima *)
Corollary monitor_maxima_exact : forall is_float im0 sep margin thr out p,
  let im := convert_to_int is_float im0 in
  let mg := eff_margin margin sep in
  check_gd is_float im0 sep margin thr false out = 0%N ->
  length sep = length (shape im) -> length mg = length (shape im) ->
  Forall (fun s => 1 <= s) (sizes_of im sep) ->
  (In p out <-> not_black im <> [] /\ admissible im (sizes_of im sep) mg thr p).
Proof.
  intros is_float im0 sep margin thr out p im mg Hc H1 H2 H3.
  rewrite (check_gd_sound _ _ _ _ _ _ _ Hc p).
  apply (maxima_exact (fun _ => thr)); assumption.
Qed.
