(* C13, route T: the functions generated from trackpy/linking/partial.py
   (Gen/partial.v) equal the hand-written model (Model/Partial.v), and the C13
   theorems hold of them, for every iteration order of the Python set
   `remaining`. *)
From Coq Require Import ZArith List Bool Lia Permutation Sorted.
From TP Require Import Model.Partial Model.PartialSpec Model.PartialCheck Model.PyPartial Model.Partial2.
From TP Require Import Proofs.Partial Proofs.PartialTable.
From TP Require Gen.partial.
Import ListNotations.
Open Scope Z_scope.

Notation gen_reconnect := TP.Gen.partial.reconnect_traj_patch.
Notation gen_link_partial := TP.Gen.partial.link_partial.
Notation loop1 := TP.Gen.partial.reconnect_traj_patch_loop1.
Notation loop2 := TP.Gen.partial.reconnect_traj_patch_loop2.
Notation loop3 := TP.Gen.partial.reconnect_traj_patch_loop3.
Notation loop4 := TP.Gen.partial.reconnect_traj_patch_loop4.
Notation lp_loop1 := TP.Gen.partial.link_partial_loop1.

(* ------------------------------------------------------------------------ *)
(* 1. the vocabulary                                                         *)
(* ------------------------------------------------------------------------ *)
Lemma select_map {A} (p : A -> bool) l : select (map p l) l = filter p l.
Proof. induction l as [|a l IH]; cbn; auto. destruct (p a); rewrite IH; auto. Qed.

Lemma loc_pairs_eq f i : loc_pairs f (mask_eq f i) = pairs_at i f.
Proof. unfold loc_pairs, mask_eq, pairs_at. rewrite select_map. reflexivity. Qed.

Lemma mask_in_patch f s e : mask_and (mask_ge f s) (mask_lt f e) = map (in_patch s e) f.
Proof. unfold mask_and, mask_ge, mask_lt. induction f as [|r f IH]; cbn; auto. rewrite IH. reflexivity. Qed.

Lemma loc_particle_map p f : loc_particle f (map p f) = map part (filter p f).
Proof. unfold loc_particle. rewrite select_map. reflexivity. Qed.

Lemma loc_set_map (p : row -> bool) (g : Z -> Z) f :
  loc_set_particle f (map p f) (map g (loc_particle f (map p f)))
  = POk (map (fun r => if p r then set_part r (g (part r)) else r) f).
Proof.
  unfold loc_particle. induction f as [|r f IH]; cbn; auto.
  destruct (p r); cbn; rewrite IH; reflexivity.
Qed.

Lemma loc_set_assign i t : forall ids,
  loc_set_particle t (mask_eq t i) ids
  = match assign_mask i ids t with Some t' => POk t' | None => PRaises EValue end.
Proof.
  unfold mask_eq. induction t as [|r t IH]; intros ids; cbn.
  - destruct ids; reflexivity.
  - destruct (frame r =? i).
    + destruct ids as [|v vs]; [reflexivity|]. rewrite IH. destruct (assign_mask i vs t); reflexivity.
    + rewrite IH. destruct (assign_mask i ids t); reflexivity.
Qed.

(* dict against association list *)
Lemma get_d_set d k v k' : get (d_set d k v) k' = if k' =? k then Some v else get d k'.
Proof.
  induction d as [|[k0 v0] d IH]; cbn.
  - destruct (k' =? k); reflexivity.
  - destruct (k =? k0) eqn:E; cbn.
    + apply Z.eqb_eq in E. subst k0. destruct (k' =? k); reflexivity.
    + rewrite IH. destruct (k' =? k0) eqn:E2; auto.
      destruct (k' =? k) eqn:E3; auto. apply Z.eqb_eq in E2, E3. apply Z.eqb_neq in E. congruence.
Qed.
Lemma get_put m k v k' : get (put m k v) k' = if k' =? k then Some v else get m k'.
Proof. reflexivity. Qed.
Lemma d_set_fresh d k v : ~ In k (map fst d) -> d_set d k v = d ++ [(k, v)].
Proof.
  induction d as [|[k0 v0] d IH]; cbn; intros H; auto.
  destruct (k =? k0) eqn:E; [apply Z.eqb_eq in E; subst; exfalso; apply H; auto|]. rewrite IH; auto.
Qed.
Lemma d_set_values d k v x : In x (map snd (d_set d k v)) -> x = v \/ In x (map snd d).
Proof.
  induction d as [|[k0 v0] d IH]; cbn; [intuition congruence|].
  destruct (k =? k0); cbn; [intuition congruence|]. intros [H|H]; auto. apply IH in H. tauto.
Qed.
Lemma get_rev m k : NoDup (map fst m) -> get (rev m) k = get m k.
Proof.
  induction m as [|[k0 v0] m IH]; cbn; intros H; auto. inversion H; subst.
  rewrite get_app, IH by auto. cbn.
  destruct (k =? k0) eqn:E.
  - apply Z.eqb_eq in E. subst. assert (G : get m k0 = None) by (apply get_None; auto). rewrite G. reflexivity.
  - destruct (get m k); reflexivity.
Qed.
Lemma keys_rev (m : amap) k : In k (map fst (rev m)) <-> In k (map fst m).
Proof. rewrite map_rev, <- in_rev. tauto. Qed.
Lemma vals_rev (m : amap) v : In v (map snd (rev m)) <-> In v (map snd m).
Proof. rewrite map_rev, <- in_rev. tauto. Qed.

Lemma memZ_ext l1 l2 : (forall z, In z l1 <-> In z l2) -> forall x, memZ x l1 = memZ x l2.
Proof.
  intros H x. destruct (memZ x l2) eqn:E.
  - apply memZ_In. apply H. apply memZ_In; auto.
  - apply memZ_nIn. intro Hx. apply H in Hx. apply memZ_nIn in E. auto.
Qed.
Lemma s_of_In l x : In x (s_of l) <-> In x l.
Proof. unfold s_of. apply nodup_In. Qed.
Lemma s_union_In a b x : In x (s_union a b) <-> In x a \/ In x b.
Proof. unfold s_union. rewrite nodup_In, in_app_iff. tauto. Qed.

Lemma relabel_ext s e mp ma mp' ma' r :
  (forall k, get mp k = get mp' k) -> (forall k, get ma k = get ma' k) ->
  relabel s e mp ma r = relabel s e mp' ma' r.
Proof. intros H1 H2. unfold relabel, replace_with. rewrite H1, H2. reflexivity. Qed.

Definition dsetkv (d : dict) (kv : Z * Z) : dict := d_set d (fst kv) (snd kv).
Lemma get_fold_dset kvs : forall d m, (forall k, get d k = get m k) ->
  forall k, get (fold_left dsetkv kvs d) k = get (put_all m kvs) k.
Proof.
  unfold put_all. induction kvs as [|[k0 v0] kvs IH]; cbn; intros d m H k; auto.
  apply IH. intros k'. unfold dsetkv, put. cbn. rewrite get_d_set, H. reflexivity.
Qed.

Lemma combine_app {A B} (a1 : list A) : forall (b1 : list B) a2 b2, length a1 = length b1 ->
  combine (a1 ++ a2) (b1 ++ b2) = combine a1 b1 ++ combine a2 b2.
Proof. induction a1; intros [|y b1] a2 b2 H; cbn in *; try discriminate; auto. rewrite IHa1; auto. Qed.
Lemma combine_app_short {A B} (a : list A) : forall (x y : list B), length a = length x ->
  combine a (x ++ y) = combine a x.
Proof. induction a; intros [|x0 x] y H; cbn in *; try discriminate; auto. rewrite IHa; auto. Qed.

(* ------------------------------------------------------------------------ *)
(* 2. the fresh-id generator                                                  *)
(* ------------------------------------------------------------------------ *)
Lemma find_fresh_equiv u1 u2 f1 : forall f2 c x1 x2, (forall z, In z u1 <-> In z u2) ->
  find_fresh u1 c f1 = Some x1 -> find_fresh u2 c f2 = Some x2 -> x1 = x2.
Proof.
  induction f1 as [|f1 IH]; intros [|f2] c x1 x2 H; cbn; try discriminate.
  rewrite (memZ_ext u1 u2 H c). destruct (memZ c u2).
  - apply IH; auto.
  - congruence.
Qed.
Lemma find_fresh_full_equiv u1 u2 c : (forall z, In z u1 <-> In z u2) ->
  find_fresh u1 c (S (length u1)) = find_fresh u2 c (S (length u2)).
Proof.
  intros H. destruct (find_fresh_total u1 c) as (x1 & E1), (find_fresh_total u2 c) as (x2 & E2).
  rewrite E1, E2. f_equal. eapply find_fresh_equiv; eauto.
Qed.
Lemma gen_take_equiv u1 u2 n : (forall z, In z u1 <-> In z u2) -> forall c, gen_take u1 c n = gen_take u2 c n.
Proof.
  intros H. induction n as [|n IH]; intros c; cbn [gen_take]; auto.
  rewrite (find_fresh_full_equiv u1 u2 c H). destruct (find_fresh u2 c (S (length u2))); auto. rewrite IH. reflexivity.
Qed.

Fixpoint cnt_after (c : Z) (ids : list Z) : Z :=
  match ids with [] => c | x :: l => cnt_after (x + 1) l end.

Lemma gen_take_app u n m : forall c,
  gen_take u c (n + m) =
  match gen_take u c n with
  | None => None
  | Some ids => match gen_take u (cnt_after c ids) m with None => None | Some ids' => Some (ids ++ ids') end
  end.
Proof.
  induction n as [|n IH]; intros c.
  - cbn [gen_take Nat.add cnt_after]. destruct (gen_take u c m); reflexivity.
  - cbn [gen_take Nat.add]. destruct (find_fresh u c (S (length u))) as [x|]; auto.
    rewrite IH. destruct (gen_take u (x + 1) n) as [ids|]; auto. cbn [cnt_after].
    destruct (gen_take u (cnt_after (x + 1) ids) m); reflexivity.
Qed.
Lemma gen_take_length u n : forall c ids, gen_take u c n = Some ids -> length ids = n.
Proof.
  induction n as [|n IH]; intros c ids; cbn [gen_take]; [intros H; inversion H; reflexivity|].
  destruct (find_fresh u c (S (length u))); [|discriminate].
  destruct (gen_take u (z + 1) n) eqn:E; [|discriminate]. intros H; inversion H; subst. cbn. f_equal. eauto.
Qed.

Lemma loop3_spec U rb : forall d a c,
  foldM loop3 rb (d, a, mkgen U c) =
  match gen_take U c (length rb) with
  | None => PRaises EFuel
  | Some ids => POk (fold_left dsetkv (combine (map fst rb) ids) d,
                     fold_left dsetkv (combine (map snd rb) ids) a, mkgen U (cnt_after c ids))
  end.
Proof.
  induction rb as [|[n o] rb IH]; intros d a c; cbn [foldM length gen_take map combine fold_left cnt_after]; auto.
  unfold loop3 at 1. unfold g_next. cbn [g_used g_cnt].
  destruct (find_fresh U c (S (length U))) as [x|]; cbn [bind]; auto.
  rewrite IH. destruct (gen_take U (x + 1) (length rb)); reflexivity.
Qed.
Lemma loop4_spec U l : forall d c,
  foldM loop4 l (d, mkgen U c) =
  match gen_take U c (length l) with
  | None => PRaises EFuel
  | Some ids => POk (fold_left dsetkv (combine l ids) d, mkgen U (cnt_after c ids))
  end.
Proof.
  induction l as [|n l IH]; intros d c; cbn [foldM length gen_take map combine fold_left cnt_after]; auto.
  unfold loop4 at 1. unfold g_next. cbn [g_used g_cnt].
  destruct (find_fresh U c (S (length U))) as [x|]; cbn [bind]; auto.
  rewrite IH. destruct (gen_take U (x + 1) (length l)); reflexivity.
Qed.

(* ------------------------------------------------------------------------ *)
(* 3. the two boundary loops: Python dicts against the model's lists          *)
(* ------------------------------------------------------------------------ *)
Definition nn (po : Z * Z) : bool := negb (snd po <? 0).

Lemma first_step_fold l : forall m, fold_left first_step l m = rev (filter nn l) ++ m.
Proof.
  induction l as [|[n o] l IH]; intros m; cbn [fold_left filter]; auto.
  unfold first_step at 2, nn at 1. cbn [snd]. destruct (o <? 0); cbn [negb].
  - apply IH.
  - rewrite IH. unfold put. cbn [rev]. rewrite <- app_assoc. reflexivity.
Qed.

Lemma loop1_fold l : forall m, NoDup (map fst (rev (filter nn l) ++ m)) ->
  fold_left loop1 l (rev m) = rev (fold_left first_step l m).
Proof.
  induction l as [|[n o] l IH]; intros m H; cbn [fold_left]; auto.
  unfold loop1 at 2, first_step at 2. cbn [filter] in H. unfold nn at 1 in H. cbn [snd] in H.
  destruct (o <? 0); cbn [negb] in H.
  - apply IH; auto.
  - cbn [rev] in H. rewrite <- app_assoc in H. cbn [app] in H.
    assert (Hn : ~ In n (map fst (rev m))).
    { rewrite keys_rev. rewrite map_app in H. cbn [map fst] in H. apply NoDup_remove_2 in H.
      intro Hi. apply H. apply in_or_app; auto. }
    rewrite d_set_fresh by auto. change (rev m ++ [(n, o)]) with (rev ((n, o) :: m)).
    apply IH. exact H.
Qed.

Record inv2 (g : dict * dict * list (Z * Z)) (st : lstate) : Prop := mkinv2 {
  i_mp : fst (fst g) = rev (l_mp st);
  i_nd : NoDup (map fst (l_mp st));
  i_rb : snd g = l_rb st;
  i_ma : forall k, get (snd (fst g)) k = get (l_ma st) k;
  i_v1 : incl (map snd (snd (fst g))) (map snd (l_mp st));
  i_v2 : incl (map snd (l_ma st)) (map snd (l_mp st)) }.

Lemma loop2_step cg cm g st po : (forall z, memZ z cg = memZ z cm) -> inv2 g st ->
  inv2 (loop2 cg g po) (last_step cm st po).
Proof.
  intros Hc [I1 I2 I3 I4 I5 I6]. destruct g as [[dmp dma] rb], po as [n o]. cbn [fst snd] in *. subst dmp rb.
  unfold loop2, last_step. destruct (o <? 0); [constructor; auto|].
  unfold d_mem, d_lookup. rewrite (get_rev _ n I2).
  destruct (get (l_mp st) n) as [v|] eqn:G.
  - constructor; cbn [fst snd l_mp l_ma l_rb]; auto.
    + intros k. rewrite get_d_set, get_put, I4. reflexivity.
    + intros x Hx. apply d_set_values in Hx as [->|Hx]; auto. eapply In_snd, get_In; eauto.
    + intros x [<-|Hx]; auto. eapply In_snd, get_In; eauto.
  - unfold s_mem. rewrite Hc. destruct (memZ o cm).
    + constructor; cbn [fst snd l_mp l_ma l_rb]; auto.
    + assert (Hn : ~ In n (map fst (l_mp st))) by (apply get_None; auto).
      constructor; cbn [fst snd l_mp l_ma l_rb]; auto.
      * rewrite d_set_fresh by (rewrite keys_rev; auto). reflexivity.
      * cbn. constructor; auto.
      * cbn. apply incl_tl; auto.
      * cbn. apply incl_tl; auto.
Qed.
Lemma loop2_fold cg cm l : (forall z, memZ z cg = memZ z cm) -> forall g st, inv2 g st ->
  inv2 (fold_left (loop2 cg) l g) (fold_left (last_step cm) l st).
Proof.
  intros Hc. induction l as [|po l IH]; intros g st H; cbn [fold_left]; auto.
  apply IH. apply loop2_step; auto.
Qed.

Lemma filter_filter {A} (p q : A -> bool) l : filter q (filter p l) = filter (fun x => p x && q x) l.
Proof.
  induction l as [|a l IH]; cbn; auto. destruct (p a); cbn; [destruct (q a)|]; rewrite IH; auto.
Qed.

(* ------------------------------------------------------------------------ *)
(* 4. reconnect_traj_patch (generated) = reconnect_ord (model)               *)
(* ------------------------------------------------------------------------ *)
Lemma final_relabel T s e dmp dma mp ma :
  (forall k, get dmp k = get mp k) -> (forall k, get dma k = get ma k) ->
  bind (loc_set_particle T (map (in_patch s e) T) (series_replace dmp (loc_particle T (map (in_patch s e) T)))) (fun f =>
  bind (loc_set_particle f (mask_ge f e) (series_replace dma (loc_particle f (mask_ge f e)))) (fun f => POk f))
  = POk (map (relabel s e mp ma) T).
Proof.
  intros H1 H2. unfold series_replace. rewrite loc_set_map. cbn [bind]. unfold mask_ge. rewrite loc_set_map. cbn [bind].
  f_equal. rewrite map_map. apply map_ext. intros r. unfold relabel, replace_with.
  destruct (in_patch s e r) eqn:E.
  - cbn [frame set_part part]. unfold in_patch in E. apply andb_true_iff in E as [_ E]. apply Z.ltb_lt in E.
    assert (E2 : (e <=? frame r) = false) by (apply Z.leb_gt; auto). rewrite E2, H1. reflexivity.
  - destruct (e <=? frame r); auto. rewrite H2. reflexivity.
Qed.

Theorem gen_reconnect_eq ord T s e :
  (forall l, Permutation (ord l) l) -> first_ids_unique T s ->
  gen_reconnect ord T (s, e) = reconnect_ord ord T s e.
Proof.
  intros Hord H1.
  unfold TP.Gen.partial.reconnect_traj_patch, reconnect_ord.
  destruct (s <? e) eqn:Ese; cbn [negb]; [|reflexivity].
  cbv zeta. rewrite !loc_pairs_eq, !mask_in_patch.
  assert (Hmp1 : fold_left loop1 (pairs_at s T) d_empty = rev (first_pass s T)).
  { unfold first_pass. apply (loop1_fold (pairs_at s T) []). rewrite app_nil_r, map_rev. apply NoDup_rev. exact H1. }
  rewrite Hmp1.
  set (mp1 := first_pass s T).
  assert (Hnd1 : NoDup (map fst mp1)).
  { unfold mp1, first_pass. rewrite first_step_fold, app_nil_r, map_rev. apply NoDup_rev. exact H1. }
  assert (Hc : forall z, memZ z (s_of (d_values (rev mp1))) = memZ z (map snd mp1)).
  { apply memZ_ext. intros z. rewrite s_of_In. unfold d_values. apply vals_rev. }
  assert (HI0 : inv2 (rev mp1, d_empty, []) (mkl mp1 [] [])).
  { constructor; cbn; auto; intros x []. }
  match goal with |- context [fold_left (loop2 ?c) ?l ?g] =>
    pose proof (loop2_fold c _ l Hc g _ HI0) as HI;
    change (fold_left (last_step (map snd mp1)) l (mkl mp1 [] [])) with (boundary T s e) in HI;
    set (g3 := fold_left (loop2 c) l g) in *; clearbody g3; destruct g3 as [[dmp dma] rb]
  end.
  cbv beta iota. unfold final_maps_ord. set (st := boundary T s e) in *.
  destruct HI as [I1 I2 I3 I4 I5 I6]. cbn [fst snd] in I1, I3, I4, I5. subst dmp rb.
  assert (Hrem : s_diff (s_diff (s_of (loc_particle T (map (in_patch s e) T))) (s_of (d_keys (rev (l_mp st)))))
                        (s_of (map fst (l_rb st))) = remaining_of T s e st).
  { unfold remaining_of, s_diff, s_of. rewrite loc_particle_map, filter_filter. apply filter_ext. intros n. f_equal; f_equal.
    - destruct (get (l_mp st) n) eqn:G.
      + apply memZ_In. rewrite nodup_In. unfold d_keys. rewrite keys_rev. eapply In_fst, get_In; eauto.
      + apply memZ_nIn. rewrite nodup_In. unfold d_keys. rewrite keys_rev. apply get_None; auto.
    - apply memZ_ext. intros z. apply nodup_In. }
  rewrite Hrem. set (rem := remaining_of T s e st).
  assert (Hget : forall k, get (rev (l_mp st)) k = get (l_mp st) k) by (intros; apply get_rev; auto).
  destruct (negb (isnil rem) || negb (isnil (l_rb st))) eqn:G.
  - set (Ug := s_union _ _).
    assert (HU : forall z, In z Ug <-> In z (used_of T s e st)).
    { intros z. unfold Ug, used_of. rewrite !s_union_In, !s_of_In, !in_app_iff. unfold d_values, col_old, mask_not.
      rewrite vals_rev, map_map, loc_particle_map. specialize (I5 z). specialize (I6 z). tauto. }
    unfold g_new. rewrite loop3_spec, (gen_take_equiv _ _ _ HU), gen_take_app.
    destruct (gen_take (used_of T s e st) 0 (length (l_rb st))) as [ids1|] eqn:E1; cbn [bind]; [|reflexivity].
    unfold s_iter. rewrite loop4_spec, (gen_take_equiv _ _ _ HU).
    destruct (gen_take (used_of T s e st) (cnt_after 0 ids1) (length (ord rem))) as [ids2|] eqn:E2; cbn [bind]; [|reflexivity].
    apply gen_take_length in E1.
    apply final_relabel.
    + intros k. rewrite combine_app by (rewrite map_length; auto).
      unfold put_all. rewrite fold_left_app. apply get_fold_dset. apply get_fold_dset. exact Hget.
    + intros k. rewrite combine_app_short by (rewrite map_length; auto). apply get_fold_dset. exact I4.
  - apply orb_false_iff in G as [G1 G2]. apply negb_false_iff in G1, G2.
    destruct rem eqn:Er; [|discriminate]. destruct (l_rb st) eqn:Erb; [|discriminate].
    assert (Eo : ord [] = []) by (apply Permutation_nil; symmetry; apply Hord).
    rewrite Eo. cbn [length Nat.add gen_take app map combine put_all fold_left bind].
    apply final_relabel; auto.
Qed.

Lemma reconnect_ord_id T s e : reconnect_ord (fun l => l) T s e = reconnect T s e.
Proof. reflexivity. Qed.

(* reconnect_traj_patch as generated, with the model's own iteration order *)
Theorem gen_reconnect_eq_model T s e :
  first_ids_unique T s -> gen_reconnect (fun l => l) T (s, e) = reconnect T s e.
Proof. intros H. rewrite gen_reconnect_eq; auto. Qed.

(* ------------------------------------------------------------------------ *)
(* 5. the specification holds for every iteration order of `remaining`       *)
(* ------------------------------------------------------------------------ *)
Lemma perm_combine_ex {A B} (l l' : list A) : Permutation l l' -> forall m : list B, length m = length l ->
  exists m', Permutation m m' /\ Permutation (combine l m) (combine l' m').
Proof.
  induction 1 as [|x l l' H IH|x y l|l l' l'' H1 IH1 H2 IH2]; intros m Hm.
  - destruct m; [|discriminate]. exists []. split; constructor.
  - destruct m as [|b m]; [discriminate|]. destruct (IH m) as (m' & P1 & P2); [cbn in Hm; lia|].
    exists (b :: m'). split; cbn; constructor; auto.
  - destruct m as [|b1 [|b2 m]]; try discriminate. exists (b2 :: b1 :: m). split; cbn; apply perm_swap.
  - destruct (IH1 m Hm) as (m1 & P1 & P2).
    destruct (IH2 m1) as (m2 & P3 & P4).
    { rewrite <- (Permutation_length P1), Hm. apply Permutation_length; auto. }
    exists m2. split; eapply perm_trans; eauto.
Qed.

Lemma get_perm m m' k : Permutation m m' -> NoDup (map fst m) -> get m k = get m' k.
Proof.
  induction 1 as [|[k0 v0] l l' H IH|[k1 v1] [k2 v2] l|l l' l'' H1 IH1 H2 IH2]; intros Hnd; auto.
  - cbn. inversion Hnd; subst. rewrite IH; auto.
  - cbn. destruct (k =? k2) eqn:E2, (k =? k1) eqn:E1; auto.
    apply Z.eqb_eq in E1, E2. subst. inversion Hnd; subst. exfalso. apply H1. cbn. auto.
  - rewrite IH1, IH2; auto. eapply Permutation_NoDup; [|exact Hnd]. apply Permutation_map; auto.
Qed.

Lemma combine_keys_NoDup {A B} (l1 : list A) : forall (l2 : list B), NoDup l1 -> NoDup (map fst (combine l1 l2)).
Proof.
  induction l1 as [|a l1 IH]; intros [|b l2] H; cbn; try constructor.
  - inversion H; subst. intro Hi. apply in_map_iff in Hi as ([a' b'] & E & Hi). cbn in E. subst.
    apply in_combine_l in Hi. auto.
  - inversion H; auto.
Qed.

Theorem reconnect_ord_correct ord T s e :
  (forall l, Permutation (ord l) l) ->
  NoDup (map rid T) -> s < e -> valid_old T -> valid_new T s e -> untouched_outside T s e ->
  exists out, reconnect_ord ord T s e = POk out /\
    map rid out = map rid T /\ map frame out = map frame T /\ map oldp out = map oldp T /\
    (forall r l, In (r, l) (labelled T (map part out)) -> before s r -> l = oldp r) /\
    labels_unique_per_frame T (map part out) /\
    share_label_iff_joined T s e (map part out) /\
    outside_grouping_kept T s e (map part out).
Proof.
  intros Hord Hrid Hse Hold Hnew Hout.
  assert (Hnd : NoDup T) by (eapply NoDup_map_inv; eauto).
  unfold reconnect_ord, final_maps_ord.
  assert (Elt : (s <? e) = true) by (apply Z.ltb_lt; auto). rewrite Elt. cbn [negb].
  rewrite (boundary_is T s e Hse Hold Hnew Hnd).
  fold (xrem T s e). fold (xused T s e). cbn [l_mp l_ma l_rb xst].
  set (rem' := ord (xrem T s e)). assert (Hp : Permutation rem' (xrem T s e)) by apply Hord.
  destruct (gen_take_spec (xused T s e) (length (xRB T s e) + length rem') 0) as (ids & -> & Hl & Hn & Hf).
  set (n := length (xRB T s e)) in *.
  set (ids1 := firstn n ids). set (ids2 := skipn n ids).
  assert (Eids : ids = ids1 ++ ids2) by (symmetry; apply firstn_skipn).
  assert (L1 : length ids1 = n) by (apply firstn_length_le; lia).
  assert (L2 : length ids2 = length rem').
  { assert (length ids = (length ids1 + length ids2)%nat) by (rewrite Eids at 1; apply app_length). lia. }
  destruct (perm_combine_ex rem' (xrem T s e) Hp ids2 L2) as (ids2' & Hp2 & Hpc).
  set (ids' := ids1 ++ ids2').
  assert (Hpi : Permutation ids ids') by (rewrite Eids; apply Permutation_app_head; auto).
  assert (Hlen' : length ids' = (length (xRB T s e) + length (xrem T s e))%nat).
  { rewrite <- (Permutation_length Hpi), Hl, (Permutation_length Hp). reflexivity. }
  assert (Hids' : NoDup ids') by (eapply Permutation_NoDup; eauto).
  assert (Hfresh' : forall x, In x ids' -> ~ In x (xused T s e)).
  { intros x Hx. apply (Hf x). eapply Permutation_in; [symmetry; exact Hpi | exact Hx]. }
  eexists. split; [reflexivity|].
  match goal with |- context [map (relabel s e ?mp ?ma) T] =>
    assert (Hmap : map (relabel s e mp ma) T = map (relabel s e (xMP T s e ids') (xMA T s e ids')) T) end.
  { apply map_ext. intros r. apply relabel_ext; intros k.
    - rewrite put_all_eq. unfold xMP. rewrite !get_app.
      assert (G : get (rev (combine (map fst (xRB T s e) ++ rem') ids)) k = get (rev (combine (xkeys T s e) ids')) k);
        [|rewrite G; reflexivity].
      apply get_perm.
      + eapply perm_trans; [symmetry; apply Permutation_rev|]. eapply perm_trans; [|apply Permutation_rev].
        unfold xkeys, ids'. rewrite Eids, !combine_app by (rewrite map_length; auto).
        apply Permutation_app_head; auto.
      + rewrite map_rev. apply NoDup_rev. apply combine_keys_NoDup.
        eapply Permutation_NoDup; [|apply (keys_NoDup T s e Hse Hnew Hnd)].
        unfold xkeys. apply Permutation_app_head. symmetry; auto.
    - rewrite put_all_eq. unfold xMA, ids'. rewrite Eids, !combine_app_short by (rewrite map_length; auto).
      reflexivity. }
  rewrite Hmap, !map_map.
  split; [|split; [|split; [|split; [|split; [|split]]]]].
  - apply map_ext. intros r. apply relabel_keeps.
  - apply map_ext. intros r. apply relabel_keeps.
  - apply map_ext. intros r. apply relabel_keeps.
  - intros r l H Hb. apply combine_map_In in H as [Hr ->].
    apply (lab_before T s e Hse Hout ids' Hlen'); auto.
  - intros r1 r2 l H1 H2 Ef. apply combine_map_In in H1 as [H1 E1], H2 as [H2 E2].
    apply (lab_unique T s e Hse Hold Hnew Hout Hnd ids' Hlen' Hids' Hfresh'); auto.
    unfold xlab. congruence.
  - intros r1 l1 r2 l2 H1 H2. apply combine_map_In in H1 as [H1 ->], H2 as [H2 ->].
    apply (lab_iff_joined T s e Hse Hold Hnew Hout Hnd ids' Hlen' Hids' Hfresh'); auto.
  - intros r1 l1 r2 l2 H1 H2 Hz. apply combine_map_In in H1 as [H1 ->], H2 as [H2 ->].
    apply (lab_outside T s e Hse Hold Hnew Hout Hnd ids' Hlen' Hids' Hfresh'); auto.
Qed.

Lemma first_ids_unique_of T s e : s < e -> NoDup T -> valid_new T s e -> first_ids_unique T s.
Proof.
  intros Hse Hnd Hnew. unfold first_ids_unique, pairs_at. apply NoDup_map_filter. rewrite map_map. cbn [fst].
  apply NoDup_map_inj; [apply NoDup_filter; auto|].
  intros x y Hx Hy E. apply filter_In in Hx as [Hx Hfx], Hy as [Hy Hfy]. apply Z.eqb_eq in Hfx, Hfy.
  apply Hnew; auto; unfold inside; try lia.
Qed.

(* the C13 theorem about reconnect_traj_patch, for the generated function and
   every iteration order of the set `remaining` *)
Theorem gen_reconnect_correct ord T s e :
  (forall l, Permutation (ord l) l) ->
  NoDup (map rid T) -> s < e -> valid_old T -> valid_new T s e -> untouched_outside T s e ->
  exists out, gen_reconnect ord T (s, e) = POk out /\
    map rid out = map rid T /\ map frame out = map frame T /\ map oldp out = map oldp T /\
    (forall r l, In (r, l) (labelled T (map part out)) -> before s r -> l = oldp r) /\
    labels_unique_per_frame T (map part out) /\
    share_label_iff_joined T s e (map part out) /\
    outside_grouping_kept T s e (map part out).
Proof.
  intros Hord Hrid Hse Hold Hnew Hout.
  rewrite gen_reconnect_eq; auto.
  - apply reconnect_ord_correct; auto.
  - eapply first_ids_unique_of; eauto. eapply NoDup_map_inv; eauto.
Qed.

(* ------------------------------------------------------------------------ *)
(* 6. link_partial (generated)                                               *)
(* ------------------------------------------------------------------------ *)
Lemma Zrange_nil s e : (s <? e) = false -> Zrange s e = [].
Proof. intros H. apply Z.ltb_ge in H. unfold Zrange. replace (Z.to_nat (e - s)) with 0%nat by lia. reflexivity. Qed.
Lemma Zrange_cons s e : (s <? e) = true -> exists x l, Zrange s e = x :: l.
Proof.
  intros H. apply Z.ltb_lt in H. unfold Zrange. destruct (Z.to_nat (e - s)) eqn:E; [lia|]. cbn. eauto.
Qed.

Lemma relink_foldM linker frames : forall t,
  foldM lp_loop1 (map (fun i => (i, linker i)) frames) t
  = match relink frames linker t with Some t' => POk t' | None => PRaises EValue end.
Proof.
  induction frames as [|i fs IH]; intros t; cbn [map foldM relink]; auto.
  unfold lp_loop1 at 1. destruct (linker i) as [|z l] eqn:E; cbn [isnil bind].
  - apply IH.
  - rewrite loc_set_assign. destruct (assign_mask i (z :: l) t); cbn [bind]; auto.
Qed.

Theorem gen_link_partial_unfold ord linker f a b :
  gen_link_partial ord linker f (a, b)
  = link_partial2 (fun t s e => gen_reconnect ord t (s, e)) f (a, b) linker.
Proof.
  unfold TP.Gen.partial.link_partial, link_partial2, frame_span, col_min, col_max.
  destruct (map frame f) as [|x xs]; cbn [bind]; auto.
  unfold patch2. cbn [fst snd]. destruct (a <? b); cbn [negb]; auto.
  cbv zeta. unfold clamp. cbn [fst snd]. rewrite !Z.gtb_ltb.
  set (lo := fold_left Z.min xs x). set (hi := fold_left Z.max xs x + 1).
  set (s := if a <? lo then lo else a). set (e := if hi <? b then hi else b).
  cbn [andb]. unfold copy_particle_to_old.
  destruct (s <? e) eqn:Ese; cbn [negb].
  - destruct (Zrange_cons s e Ese) as (i0 & fs & EZ). rewrite EZ. unfold link_iter_frames. rewrite <- EZ. cbn [bind].
    destruct ((lo <? s) || (e <? hi)); cbv beta iota; rewrite relink_foldM;
      (destruct (relink (Zrange s e) linker _); cbn [bind]; [|reflexivity]).
    + destruct (gen_reconnect ord l (s, e)); reflexivity.
    + reflexivity.
  - rewrite (Zrange_nil s e Ese). destruct ((lo <? s) || (e <? hi)); reflexivity.
Qed.

Lemma copy_old_id f t : (forall r, In r f -> oldp r = part r) -> (forall r, In r t -> In r f) ->
  map (fun r => set_old r (part r)) t = t.
Proof.
  intros Hwf Hin. rewrite <- (map_id t) at 2. apply map_ext_in. intros r Hr. destruct r as [i fr p o].
  unfold set_old. cbn. f_equal. specialize (Hwf _ (Hin _ Hr)). cbn in Hwf. auto.
Qed.

Lemma link_partial2_model f lr linker : (forall r, In r f -> oldp r = part r) ->
  link_partial2 reconnect f lr linker = Model.Partial.link_partial f lr linker.
Proof.
  intros Hwf. unfold link_partial2, Model.Partial.link_partial. destruct (frame_span f) as [[lo hi]|]; auto.
  unfold patch2, patch. destruct (negb (fst lr <? snd lr)); auto. destruct (clamp lo hi lr) as [s e]. cbv zeta.
  rewrite (copy_old_id f (sort_rows f) Hwf) by (intros r; apply Permutation_in, sort_rows_perm).
  destruct ((lo <? s) || (e <? hi)); reflexivity.
Qed.

(* link_partial as generated, with the model's own iteration order, is the model *)
Theorem gen_link_partial_eq_model f a b linker :
  (forall r, In r f -> oldp r = part r) ->
  (forall lo hi T, frame_span f = Some (lo, hi) -> relinked lo hi (sort_rows f) (a, b) linker = Some T ->
                   first_ids_unique T (fst (clamp lo hi (a, b)))) ->
  gen_link_partial (fun l => l) linker f (a, b) = Model.Partial.link_partial f (a, b) linker.
Proof.
  intros Hwf H1. rewrite gen_link_partial_unfold, <- link_partial2_model by auto.
  unfold link_partial2. destruct (frame_span f) as [[lo hi]|] eqn:Hspan; auto.
  specialize (H1 lo hi). unfold relinked in H1. unfold patch2.
  destruct (negb (fst (a, b) <? snd (a, b))); auto. destruct (clamp lo hi (a, b)) as [s e]. cbv zeta. cbn [fst] in H1.
  rewrite (copy_old_id f (sort_rows f) Hwf) in * by (intros r; apply Permutation_in, sort_rows_perm).
  destruct ((lo <? s) || (e <? hi)); auto. destruct (negb (s <? e)); auto.
  destruct (relink (Zrange s e) linker (sort_rows f)) as [t2|]; auto.
  apply gen_reconnect_eq_model. apply H1; auto.
Qed.

(* the C13 theorem about link_partial, for the generated function and every
   iteration order of the set `remaining` (proof: as Proofs/PartialTable.v,
   link_partial_correct, with the generated reconnect_traj_patch) *)
Theorem gen_link_partial_correct ord f a b linker lo hi :
  (forall l, Permutation (ord l) l) ->
  frame_span f = Some (lo, hi) -> a < b -> a < hi -> lo < b ->
  NoDup (map rid f) -> (forall r, In r f -> oldp r = part r) -> valid_old f ->
  valid_linker f (Z.max a lo) (Z.min b hi) linker ->
  exists T out,
    relinked lo hi (sort_rows f) (a, b) linker = Some T /\
    gen_link_partial ord linker f (a, b) = POk out /\
    Permutation (map key_out T) (map key_out f) /\
    StronglySorted Z.le (map frame T) /\
    (forall i, Z.max a lo <= i < Z.min b hi -> map part (filter (fun r => frame r =? i) T) = linker i) /\
    untouched_outside T (Z.max a lo) (Z.min b hi) /\
    map key_out out = map key_out T /\
    (forall r l, In (r, l) (labelled T (map part out)) -> before (Z.max a lo) r -> l = oldp r) /\
    labels_unique_per_frame T (map part out) /\
    share_label_iff_joined T (Z.max a lo) (Z.min b hi) (map part out) /\
    outside_grouping_kept T (Z.max a lo) (Z.min b hi) (map part out).
Proof.
  intros Hord Hspan Hab Hahi Hlob Hrid Hwf Hold Hlink.
  set (s := Z.max a lo) in *. set (e := Z.min b hi) in *.
  destruct (frame_span_bounds f lo hi Hspan) as [Hlohi Hbnd].
  assert (Hse : s < e) by (unfold s, e; lia).
  set (t := sort_rows f).
  assert (Hperm : Permutation t f) by apply sort_rows_perm.
  assert (Hin1 : forall r, In r t -> In r f) by (intros r; apply Permutation_in; auto).
  assert (Hin2 : forall r, In r f -> In r t) by (intros r; apply Permutation_in; symmetry; auto).
  assert (Ht1 : map (fun r => set_old r (part r)) t = t) by (eapply copy_old_id; eauto).
  assert (Hclamp : clamp lo hi (a, b) = (s, e)).
  { unfold clamp, s, e. f_equal.
    - destruct (a <? lo) eqn:E; [apply Z.ltb_lt in E | apply Z.ltb_ge in E]; lia.
    - destruct (hi <? b) eqn:E; [apply Z.ltb_lt in E | apply Z.ltb_ge in E]; lia. }
  destruct (relink_spec (Zrange s e) linker t (Zrange_NoDup s e)) as (T & HR & HF & HM).
  { intros i Hi. apply In_Zrange in Hi. destruct (Hlink i Hi) as [_ L]. rewrite L.
    apply filter_len_perm. symmetry; auto. }
  assert (HridT : map rid T = map rid t).
  { apply (upd_map rid _ _ _) with (2 := HF). intros r r' (U & _). auto. }
  assert (HndT : NoDup (map rid T)).
  { rewrite HridT. eapply Permutation_NoDup; [|exact Hrid]. apply Permutation_map. symmetry; auto. }
  assert (HndT' : NoDup T) by (eapply NoDup_map_inv; eauto).
  assert (HoldT : valid_old T).
  { eapply valid_old_transfer; eauto. eapply valid_old_perm; eauto. }
  assert (HM' : forall i, s <= i < e -> map part (filter (fun r => frame r =? i) T) = linker i).
  { intros i Hi. apply HM, In_Zrange; auto. }
  assert (HnewT : valid_new T s e).
  { intros r1 r2 H1 H2 I1 I2 Ef Ep.
    assert (Hnd : NoDup (map part (filter (fun r => frame r =? frame r1) T))).
    { rewrite HM' by exact I1. apply Hlink; auto. }
    eapply NoDup_map_In_eq; eauto; apply filter_In; split; auto; apply Z.eqb_eq; auto. }
  assert (HoutT : untouched_outside T s e).
  { intros r' Hr' Hni. destruct (Forall2_In_r _ _ _ _ HF Hr') as (r & Hr & (U1 & U2 & U3 & U4)).
    rewrite U4, U3; [symmetry; auto|]. rewrite In_Zrange, <- U2. exact Hni. }
  exists T.
  assert (Hrel : relinked lo hi t (a, b) linker = Some T).
  { unfold relinked. rewrite Hclamp, Ht1. exact HR. }
  assert (Hkeys : Permutation (map key_out T) (map key_out f)).
  { rewrite (upd_keys _ _ _ HF). apply Permutation_map; auto. }
  assert (Hsorted : StronglySorted Z.le (map frame T)).
  { rewrite (upd_map frame _ _ _) with (2 := HF); [|intros r r' (_ & U & _); auto].
    apply sorted_map, sort_rows_sorted. }
  rewrite gen_link_partial_unfold. unfold link_partial2. rewrite Hspan. fold t. unfold patch2. cbn [fst snd].
  assert (Eab : (a <? b) = true) by (apply Z.ltb_lt; auto). rewrite Eab. cbn [negb].
  rewrite Hclamp. cbv zeta. rewrite Ht1.
  assert (Ese : (s <? e) = true) by (apply Z.ltb_lt; auto). rewrite Ese. cbn [negb].
  destruct ((lo <? s) || (e <? hi))%bool eqn:Epart; rewrite HR.
  - destruct (gen_reconnect_correct ord T s e Hord HndT Hse HoldT HnewT HoutT)
      as (out & Hrec & O1 & O2 & O3 & O4 & O5 & O6 & O7).
    exists out. repeat (split; [assumption|]). split; [|auto].
    unfold key_out. clear - O1 O2 O3.
    revert out O1 O2 O3. induction T as [|x T IH]; intros [|y out]; cbn; intros; try discriminate; auto.
    inversion O1; inversion O2; inversion O3. f_equal; auto; congruence.
  - apply orb_false_iff in Epart as [E1 E2]. apply Z.ltb_ge in E1, E2.
    assert (Hall : forall r, In r T -> inside s e r).
    { intros r' Hr'. destruct (Forall2_In_r _ _ _ _ HF Hr') as (r & Hr & (_ & U2 & _)).
      unfold inside. rewrite U2. specialize (Hbnd r (Hin1 r Hr)). unfold s, e in *. lia. }
    destruct (all_inside_spec T s e Hall HnewT) as (S1 & S2 & S3).
    exists T. split; [assumption|]. split; [reflexivity|]. repeat (split; [assumption|]). split; [reflexivity|]. split; [|auto].
    intros r l H Hb. unfold labelled in H. apply combine_map_In in H as [H _]. apply Hall in H.
    unfold before, inside in *. lia.
Qed.

(* under the hypotheses of C13_link_partial the side condition of
   gen_link_partial_eq_model holds: link_iter's ids of the first frame are distinct *)
Theorem gen_link_partial_eq_model_valid f a b linker lo hi :
  frame_span f = Some (lo, hi) -> a < b -> a < hi -> lo < b ->
  NoDup (map rid f) -> (forall r, In r f -> oldp r = part r) -> valid_old f ->
  valid_linker f (Z.max a lo) (Z.min b hi) linker ->
  gen_link_partial (fun l => l) linker f (a, b) = Model.Partial.link_partial f (a, b) linker.
Proof.
  intros Hspan Hab Hahi Hlob Hrid Hwf Hold Hlink.
  apply gen_link_partial_eq_model; auto.
  intros lo' hi' T Hs Hr. rewrite Hspan in Hs. inversion Hs; subst lo' hi'.
  destruct (link_partial_correct f a b linker lo hi Hspan Hab Hahi Hlob Hrid Hwf Hold Hlink)
    as (T' & out & Hrel & _ & _ & _ & HM & _).
  rewrite Hrel in Hr. inversion Hr; subst T'.
  destruct (frame_span_bounds f lo hi Hspan) as [Hlohi _].
  assert (Es : fst (clamp lo hi (a, b)) = Z.max a lo).
  { unfold clamp. cbn [fst]. destruct (a <? lo) eqn:E; [apply Z.ltb_lt in E | apply Z.ltb_ge in E]; lia. }
  rewrite Es. unfold first_ids_unique. apply NoDup_map_filter. unfold pairs_at. rewrite map_map. cbn [fst].
  assert (Hi : Z.max a lo <= Z.max a lo < Z.min b hi) by lia.
  change (map (fun x : row => part x)) with (map part). rewrite (HM _ Hi). apply Hlink; auto.
Qed.
