From Coq Require Import ZArith List Bool Lia Permutation Sorted.
From TP Require Import Model.Assign Model.Link Model.LinkTable Proofs.Cands Proofs.Labels.
Import ListNotations.
Open Scope Z_scope.

Lemma zmin_le l d : zmin_list l d <= d /\ forall x, In x l -> zmin_list l d <= x.
Proof. unfold zmin_list. induction l as [|a l [IH1 IH2]]; cbn [fold_right]; [split; [lia|intros x []]|]. split; [lia|]. intros x [H|H]; [subst; lia|specialize (IH2 x H); lia]. Qed.
Lemma zmax_ge l d : d <= zmax_list l d /\ forall x, In x l -> x <= zmax_list l d.
Proof. unfold zmax_list. induction l as [|a l [IH1 IH2]]; cbn [fold_right]; [split; [lia|intros x []]|]. split; [lia|]. intros x [H|H]; [subst; lia|specialize (IH2 x H); lia]. Qed.

Lemma filter_split_perm {A} (p q r : A -> bool) l :
  (forall x, In x l -> p x = q x || r x) -> (forall x, In x l -> q x = true -> r x = false) ->
  Permutation (filter q l ++ filter r l) (filter p l).
Proof.
  induction l as [|a l IH]; intros H1 H2; cbn; [constructor|].
  assert (IH' : Permutation (filter q l ++ filter r l) (filter p l)).
  { apply IH; intros x Hx; [apply H1|apply H2]; right; exact Hx. }
  rewrite (H1 a (or_introl eq_refl)). destruct (q a) eqn:Eq.
  - rewrite (H2 a (or_introl eq_refl) Eq). cbn. apply perm_skip. exact IH'.
  - destruct (r a); cbn; [|exact IH'].
    eapply Permutation_trans; [apply Permutation_sym, Permutation_middle|]. apply perm_skip. exact IH'.
Qed.

(* rows whose frame lies in [t, t+n) *)
Lemma frames_from_perm rows : forall n t,
  Permutation (concat (frames_from t n rows))
              (filter (fun r => (t <=? r_frame r) && (r_frame r <? t + Z.of_nat n)) rows).
Proof.
  induction n as [|n IH]; intros t.
  - cbn [frames_from concat]. replace (filter _ rows) with (@nil row); [constructor|].
    symmetry. induction rows as [|r rows IHr]; cbn [filter]; [reflexivity|].
    destruct (t <=? r_frame r) eqn:E1, (r_frame r <? t + Z.of_nat 0) eqn:E2; cbn [andb]; try exact IHr.
    apply Z.leb_le in E1. apply Z.ltb_lt in E2. lia.
  - cbn [frames_from concat]. eapply Permutation_trans; [apply Permutation_app_head; apply IH|].
    unfold rows_at. apply filter_split_perm.
    + intros r _. rewrite Nat2Z.inj_succ.
      destruct (r_frame r =? t) eqn:E0, (t + 1 <=? r_frame r) eqn:E1, (r_frame r <? t + 1 + Z.of_nat n) eqn:E2,
               (t <=? r_frame r) eqn:E3, (r_frame r <? t + Z.succ (Z.of_nat n)) eqn:E4; cbn [andb orb]; try reflexivity; exfalso;
      repeat match goal with
             | H : (_ =? _) = true |- _ => apply Z.eqb_eq in H
             | H : (_ =? _) = false |- _ => apply Z.eqb_neq in H
             | H : (_ <=? _) = true |- _ => apply Z.leb_le in H
             | H : (_ <=? _) = false |- _ => apply Z.leb_gt in H
             | H : (_ <? _) = true |- _ => apply Z.ltb_lt in H
             | H : (_ <? _) = false |- _ => apply Z.ltb_ge in H
             end; lia.
    + intros r _ E0. apply Z.eqb_eq in E0. apply andb_false_iff. left. apply Z.leb_gt. lia.
Qed.

Lemma filter_all {A} (p : A -> bool) l : (forall x, In x l -> p x = true) -> filter p l = l.
Proof. induction l as [|a l IH]; intros H; cbn; [reflexivity|]. rewrite (H a (or_introl eq_refl)). f_equal. apply IH. intros x Hx. apply H. right; exact Hx. Qed.

(* every input row appears exactly once in the frames handed to the linker *)
Theorem table_frames_perm rows : Permutation (concat (table_frames rows)) rows.
Proof.
  destruct rows as [|r0 rows']; [constructor|]. unfold table_frames.
  set (rows := r0 :: rows'). set (ts := map r_frame rows).
  set (lo := zmin_list ts (r_frame r0)). set (hi := zmax_list ts (r_frame r0)).
  eapply Permutation_trans; [apply frames_from_perm|].
  rewrite filter_all; [apply Permutation_refl|].
  intros r Hr. assert (Hin : In (r_frame r) ts) by (apply in_map; exact Hr).
  destruct (zmin_le ts (r_frame r0)) as [Hl1 Hl2]. destruct (zmax_ge ts (r_frame r0)) as [Hh1 Hh2].
  specialize (Hl2 _ Hin). specialize (Hh2 _ Hin). fold lo in Hl1, Hl2. fold hi in Hh1, Hh2.
  apply andb_true_iff. split; [apply Z.leb_le; lia|apply Z.ltb_lt]. rewrite Z2Nat.id by lia. lia.
Qed.

(* rows come out ordered by frame; within a frame in their input order *)
Lemma frames_from_frame rows : forall n t k fr r,
  nth_error (frames_from t n rows) k = Some fr -> In r fr -> r_frame r = t + Z.of_nat k.
Proof.
  induction n as [|n IH]; intros t k fr r Hk Hr; [destruct k; discriminate|].
  destruct k as [|k]; cbn in Hk.
  - inversion Hk; subst fr. unfold rows_at in Hr. apply filter_In in Hr. destruct Hr as [_ Hr]. apply Z.eqb_eq in Hr. lia.
  - rewrite (IH _ _ _ _ Hk Hr). lia.
Qed.

Theorem link_table_rows m mem max_size rows out :
  metric_ok m -> link_table m mem max_size rows = Ok out ->
  Permutation (map fst out) rows /\ length out = length rows.
Proof.
  intros Hm H. unfold link_table in H.
  destruct (link_iter m mem max_size no_pred (map (map r_pos) (table_frames rows))) as [labs|] eqn:E; [|discriminate].
  inversion H; subst out. clear H.
  pose proof (link_iter_valid _ _ _ _ _ _ Hm E) as Hv.
  assert (Hlen : length (concat (table_frames rows)) = length (concat labs)).
  { clear E. revert Hv. generalize (table_frames rows). intros fr. revert labs.
    induction fr as [|f fr IH]; intros labs Hv; inversion Hv as [|? lb ? labs' Hfv Hrest]; subst; cbn; [reflexivity|].
    rewrite !app_length. destruct Hfv as [HL _]. rewrite map_length in HL.
    rewrite (IH _ Hrest). lia. }
  split.
  - rewrite Opt.combine_map_fst by exact Hlen. apply table_frames_perm.
  - rewrite combine_length, <- Hlen, Nat.min_id. apply Permutation_length. apply table_frames_perm.
Qed.
