(* Proofs about the model of locate's tail (property C08). *)
From Coq Require Import QArith Qabs List Bool Arith Lia Lqa Permutation Sorting.Sorted NArith.
From TP Require Import Model.LocateTail Model.LocateTailSpec Model.LocateTailCheck.
Import ListNotations.
Open Scope Q_scope.

(* ------------------------------------------------------------ Q helpers *)
Lemma Qltb_lt : forall a b, Qltb a b = true <-> a < b.
Proof.
  intros a b. unfold Qltb. rewrite negb_true_iff. split; intro H.
  - apply Qnot_le_lt. intro L. apply Qle_bool_iff in L. congruence.
  - destruct (Qle_bool b a) eqn:E; auto. apply Qle_bool_iff in E.
    exfalso. eapply Qlt_not_le; eauto.
Qed.

Lemma Qltb_ge : forall a b, Qltb a b = false <-> b <= a.
Proof.
  intros a b. unfold Qltb. rewrite negb_false_iff. apply Qle_bool_iff.
Qed.

Lemma Qle_bool_false_lt : forall a b, Qle_bool a b = false -> b < a.
Proof.
  intros a b H. apply Qnot_le_lt. intro L. apply Qle_bool_iff in L. congruence.
Qed.

Lemma passes_keeps : forall mm ms r, passes mm ms r = true <-> keeps mm ms r.
Proof.
  intros mm ms r. unfold passes, keeps. rewrite andb_true_iff, Qltb_lt.
  destruct ms as [s|]; [rewrite Qltb_lt|]; intuition.
Qed.

(* --------------------------------------------------------- list helpers *)
Lemma filter_filter_impl : forall {A} (f g : A -> bool) l,
  (forall x, f x = true -> g x = true) -> filter f (filter g l) = filter f l.
Proof.
  intros A f g l H. induction l as [|x t IH]; cbn; auto.
  destruct (g x) eqn:G; cbn.
  - rewrite IH. reflexivity.
  - destruct (f x) eqn:F; auto. apply H in F. congruence.
Qed.

Lemma filter_partition_perm : forall {A} (f : A -> bool) l,
  Permutation (filter f l ++ filter (fun x => negb (f x)) l) l.
Proof.
  intros A f l. induction l as [|x t IH]; cbn; auto.
  destruct (f x); cbn.
  - constructor. exact IH.
  - eapply Permutation_trans; [apply Permutation_sym, Permutation_middle|].
    constructor. exact IH.
Qed.

Lemma map_snd_index : forall {A} (l : list A), map snd (index l) = l.
Proof.
  intros A l. unfold index. generalize 0%nat.
  induction l as [|x t IH]; intro k; cbn; auto. now rewrite IH.
Qed.

(* ------------------------------------------------------------- sorting *)
Definition mle (a b : lrow) : Prop := lmass a <= lmass b.

Lemma ins_perm : forall x l, Permutation (ins x l) (x :: l).
Proof.
  intros x l. induction l as [|y t IH]; cbn; auto.
  destruct (Qle_bool (lmass x) (lmass y)); auto.
  eapply Permutation_trans; [constructor; exact IH|]. apply perm_swap.
Qed.

Lemma sort_perm : forall l, Permutation (sort_mass l) l.
Proof.
  induction l as [|x t IH]; cbn; auto.
  eapply Permutation_trans; [apply ins_perm|]. constructor. exact IH.
Qed.

Lemma ins_sorted : forall x l, StronglySorted mle l -> StronglySorted mle (ins x l).
Proof.
  intros x l H. induction H as [|y t Ht IH Hy]; cbn.
  - constructor; constructor.
  - destruct (Qle_bool (lmass x) (lmass y)) eqn:E.
    + apply Qle_bool_iff in E. constructor.
      * constructor; assumption.
      * constructor; [exact E|].
        rewrite Forall_forall in *. intros z Hz. unfold mle in *.
        eapply Qle_trans; [exact E|]. apply Hy. exact Hz.
    + apply Qle_bool_false_lt in E. constructor; [exact IH|].
      rewrite Forall_forall in *. intros z Hz.
      apply (Permutation_in _ (ins_perm x t)) in Hz. destruct Hz as [<-|Hz].
      * unfold mle. apply Qlt_le_weak. exact E.
      * apply Hy. exact Hz.
Qed.

Lemma sort_sorted : forall l, StronglySorted mle (sort_mass l).
Proof.
  induction l as [|x t IH]; cbn; [constructor|]. apply ins_sorted. exact IH.
Qed.

Lemma sorted_app_le : forall l1 l2, StronglySorted mle (l1 ++ l2) ->
  forall a b, In a l1 -> In b l2 -> mle a b.
Proof.
  induction l1 as [|x t IH]; intros l2 H a b Ha Hb; [contradiction|].
  cbn in H. inversion H as [|? ? Ht Hx]; subst.
  destruct Ha as [<-|Ha].
  - rewrite Forall_forall in Hx. apply Hx. apply in_or_app. now right.
  - eapply IH; eauto.
Qed.

(* np.argmax: the result is an element, the rest is untouched, nothing is heavier *)
Lemma argmax_spec : forall l best,
  exists rest, Permutation (argmax_from best l :: rest) (best :: l) /\
               Forall (fun r => mle r (argmax_from best l)) (best :: l).
Proof.
  induction l as [|y t IH]; intro best; cbn.
  - exists []. split; auto. constructor; [apply Qle_refl|constructor].
  - destruct (Qltb (lmass best) (lmass y)) eqn:E.
    + apply Qltb_lt in E. destruct (IH y) as [rest [P F]].
      exists (best :: rest). split.
      * eapply Permutation_trans; [apply perm_swap|]. constructor. exact P.
      * inversion F as [|? ? Fy Ft]; subst. constructor; [|constructor; assumption].
        unfold mle in *. eapply Qle_trans; [apply Qlt_le_weak; exact E|exact Fy].
    + apply Qltb_ge in E. destruct (IH best) as [rest [P F]].
      exists (y :: rest). split.
      * eapply Permutation_trans; [apply perm_swap|].
        eapply Permutation_trans; [constructor; exact P|]. apply perm_swap.
      * inversion F as [|? ? Fb Ft]; subst. constructor; [exact Fb|].
        constructor; [|exact Ft]. unfold mle in *. eapply Qle_trans; [exact E|exact Fb].
Qed.

(* ------------------------------------------------- filter + topn = spec *)
(* statement on labelled rows: [out ++ removed] is [l], out passes, and the
   topn clause *)
Definition lkeeps mm ms (x : lrow) : Prop := keeps mm ms (snd x).

Lemma topn_sel_spec : forall n l, n <> Some 0%nat ->
  exists removed, Permutation (topn_sel n l ++ removed) l /\
    match n with
    | None => removed = []
    | Some k => (length (topn_sel n l) <= k)%nat /\
                (forall r, In r removed ->
                   length (topn_sel n l) = k /\ Forall (fun o => mle r o) (topn_sel n l))
    end.
Proof.
  intros n l Hn. destruct n as [k|]; cbn.
  2:{ exists []. rewrite app_nil_r. auto. }
  destruct (length l <=? k)%nat eqn:E.
  - apply Nat.leb_le in E. exists []. rewrite app_nil_r. split; [apply Permutation_refl|].
    split; [exact E|]. intros r [].
  - apply Nat.leb_gt in E. destruct (k =? 1)%nat eqn:K1.
    + apply Nat.eqb_eq in K1. subst k. destruct l as [|b t]; [cbn in E; lia|].
      destruct (argmax_spec t b) as [rest [P F]]. exists rest. split; [exact P|].
      split; [cbn; lia|]. intros r Hr. split; [reflexivity|].
      constructor; [|constructor]. rewrite Forall_forall in F. apply F.
      eapply Permutation_in; [exact P|]. now right.
    + apply Nat.eqb_neq in K1.
      assert (k <> 0)%nat by (intro; subst; apply Hn; reflexivity).
      unfold lastn. destruct k as [|k']; [congruence|]. set (k := S k') in *.
      set (s := sort_mass l). assert (Ls : length s = length l)
        by (apply Permutation_length, sort_perm).
      exists (firstn (length s - k) s). split; [|split].
      * eapply Permutation_trans; [apply Permutation_app_comm|].
        rewrite firstn_skipn. apply sort_perm.
      * rewrite skipn_length. lia.
      * intros r Hr. split; [rewrite skipn_length; lia|].
        rewrite Forall_forall. intros o Ho.
        eapply sorted_app_le; [|exact Hr|exact Ho].
        rewrite firstn_skipn. apply sort_sorted.
Qed.

Lemma sel_spec_l : forall mm ms n l, n <> Some 0%nat ->
  exists removed, Permutation (sel mm ms n l ++ removed) l /\
    Forall (lkeeps mm ms) (sel mm ms n l) /\
    match n with
    | None => Forall (fun r => ~ lkeeps mm ms r) removed
    | Some k => (length (sel mm ms n l) <= k)%nat /\
                (forall r, In r removed -> lkeeps mm ms r ->
                   length (sel mm ms n l) = k /\ Forall (fun o => mle r o) (sel mm ms n l))
    end.
Proof.
  intros mm ms n l Hn. unfold sel.
  set (F := filt mm ms l).
  set (rej := filter (fun x => negb (passes mm ms (snd x))) l).
  assert (PF : Permutation (F ++ rej) l) by apply filter_partition_perm.
  assert (Frej : forall r, In r rej -> ~ lkeeps mm ms r).
  { intros r Hr K. apply filter_In in Hr. destruct Hr as [_ Hr].
    apply passes_keeps in K. rewrite K in Hr. discriminate. }
  assert (FF : forall r, In r F -> lkeeps mm ms r).
  { intros r Hr. apply filter_In in Hr. apply passes_keeps. apply Hr. }
  destruct (topn_sel_spec n F Hn) as [rem [P C]].
  exists (rem ++ rej). split; [|split].
  - rewrite app_assoc. eapply Permutation_trans; [|exact PF].
    apply Permutation_app_tail. exact P.
  - rewrite Forall_forall. intros r Hr. apply FF.
    eapply Permutation_in; [exact P|]. apply in_or_app. now left.
  - destruct n as [k|].
    + destruct C as [C1 C2]. split; [exact C1|]. intros r Hr K.
      apply in_app_or in Hr. destruct Hr as [Hr|Hr]; [now apply C2|].
      exfalso. eapply Frej; eauto.
    + subst rem. cbn. rewrite Forall_forall. exact Frej.
Qed.

Theorem sel_spec : forall mm ms n l, n <> Some 0%nat ->
  selection_of mm ms n (map snd l) (map snd (sel mm ms n l)).
Proof.
  intros mm ms n l Hn. destruct (sel_spec_l mm ms n l Hn) as [rem [P [K C]]].
  exists (map snd rem). split; [|split].
  - rewrite <- map_app. apply Permutation_map. exact P.
  - rewrite Forall_forall in *. intros r Hr. apply in_map_iff in Hr.
    destruct Hr as [x [<- Hx]]. apply K. exact Hx.
  - destruct n as [k|].
    + destruct C as [C1 C2]. rewrite map_length. split; [exact C1|].
      intros r Hr Kr. apply in_map_iff in Hr. destruct Hr as [x [<- Hx]].
      destruct (C2 x Hx Kr) as [L F]. split; [exact L|].
      rewrite Forall_forall in *. intros o Ho. apply in_map_iff in Ho.
      destruct Ho as [y [<- Hy]]. apply (F y Hy).
    + rewrite Forall_forall in *. intros r Hr. apply in_map_iff in Hr.
      destruct Hr as [x [<- Hx]]. apply C. exact Hx.
Qed.

Theorem select_spec : forall mm ms n rows, n <> Some 0%nat ->
  selection_of mm ms n rows (map snd (select mm ms n rows)).
Proof.
  intros. unfold select. rewrite <- (map_snd_index rows) at 1. now apply sel_spec.
Qed.

(* topn = 0 really is outside the property: a[-0:] is the whole array *)
Lemma topn_zero_returns_everything : forall l, l <> [] ->
  length (topn_sel (Some 0%nat) l) = length l.
Proof.
  intros l Hl. cbn. destruct l as [|x t]; [congruence|]. cbn [length Nat.leb].
  change (length (sort_mass (x :: t)) = length (x :: t)).
  apply Permutation_length, sort_perm.
Qed.

(* --------------------------------------------------------- restriction *)
Definition size_le (a b : option Q) : Prop :=      (* None = no limit = +infinity *)
  match a, b with
  | _, None => True
  | None, Some _ => False
  | Some x, Some y => x <= y
  end.

Lemma passes_mono : forall mm0 ms0 mm1 ms1 r,
  mm0 <= mm1 -> size_le ms1 ms0 -> passes mm1 ms1 r = true -> passes mm0 ms0 r = true.
Proof.
  intros mm0 ms0 mm1 ms1 r Hm Hs H. apply passes_keeps in H. apply passes_keeps.
  destruct H as [H1 H2]. split.
  - eapply Qle_lt_trans; eauto.
  - destruct ms0 as [s0|]; auto. destruct ms1 as [s1|]; cbn in Hs; [|contradiction].
    eapply Qlt_le_trans; eauto.
Qed.

(* running the tail with stricter filters / a topn gives the same table as
   applying them to the table obtained with the laxer filters *)
Theorem sel_restriction : forall mm0 ms0 mm1 ms1 n l,
  mm0 <= mm1 -> size_le ms1 ms0 ->
  sel mm1 ms1 n (sel mm0 ms0 None l) = sel mm1 ms1 n l.
Proof.
  intros. unfold sel. cbn [topn_sel]. unfold filt. f_equal.
  apply filter_filter_impl. intros x Hx. eapply passes_mono; eauto.
Qed.

(* ------------------------------------------------------ ordered pairs *)
Lemma ordpairs_in_l : forall {A} (l : list A) x y, In (x, y) (ordpairs l) -> In x l /\ In y l.
Proof.
  induction l as [|a t IH]; intros x y H; cbn in H; [contradiction|].
  apply in_app_or in H. destruct H as [H|H].
  - apply in_map_iff in H. destruct H as [z [E Hz]]. inversion E; subst. cbn; auto.
  - apply IH in H. cbn; tauto.
Qed.

Lemma fop_of_ordpairs : forall {A} (R : A -> A -> Prop) l,
  (forall x y, In (x, y) (ordpairs l) -> R x y) -> ForallOrdPairs R l.
Proof.
  induction l as [|a t IH]; intro H; constructor.
  - rewrite Forall_forall. intros y Hy. apply H. cbn. apply in_or_app. left.
    apply in_map. exact Hy.
  - apply IH. intros x y Hxy. apply H. cbn. apply in_or_app. now right.
Qed.

Lemma ordpairs_of_fop : forall {A} (R : A -> A -> Prop) l,
  ForallOrdPairs R l -> forall x y, In (x, y) (ordpairs l) -> R x y.
Proof.
  induction 1 as [|a t Ha Ht IH]; intros x y H; cbn in H; [contradiction|].
  apply in_app_or in H. destruct H as [H|H].
  - apply in_map_iff in H. destruct H as [z [E Hz]]. inversion E; subst.
    rewrite Forall_forall in Ha. now apply Ha.
  - now apply IH.
Qed.

Lemma ordpairs_filter_in : forall {A} (f : A -> bool) l x y,
  In (x, y) (ordpairs (filter f l)) -> In (x, y) (ordpairs l) /\ f x = true /\ f y = true.
Proof.
  induction l as [|a t IH]; intros x y H; cbn in H; [contradiction|].
  destruct (f a) eqn:Fa.
  - cbn in H. apply in_app_or in H. destruct H as [H|H].
    + apply in_map_iff in H. destruct H as [z [E Hz]]. inversion E; subst.
      apply filter_In in Hz. destruct Hz as [Hz Fz]. repeat split; auto.
      cbn. apply in_or_app. left. now apply in_map.
    + apply IH in H. destruct H as [H1 H2]. split; auto. cbn. apply in_or_app. now right.
  - apply IH in H. destruct H as [H1 H2]. split; auto. cbn. apply in_or_app. now right.
Qed.

Lemma ordpairs_map : forall {A B} (g : A -> B) l,
  ordpairs (map g l) = map (fun xy => (g (fst xy), g (snd xy))) (ordpairs l).
Proof.
  induction l as [|a t IH]; cbn; auto.
  rewrite map_app, IH, !map_map. reflexivity.
Qed.

Lemma fop_map : forall {A B} (g : A -> B) (R : B -> B -> Prop) l,
  ForallOrdPairs (fun a b => R (g a) (g b)) l -> ForallOrdPairs R (map g l).
Proof.
  induction 1 as [|a t Ha Ht IH]; cbn; constructor; auto.
  rewrite Forall_forall in *. intros y Hy. apply in_map_iff in Hy.
  destruct Hy as [z [<- Hz]]. now apply Ha.
Qed.

Lemma fop_app_l : forall {A} (R : A -> A -> Prop) l1 l2,
  ForallOrdPairs R (l1 ++ l2) -> ForallOrdPairs R l1.
Proof.
  induction l1 as [|a t IH]; intros l2 H; [constructor|].
  cbn in H. inversion H as [|? ? Ha Ht]; subst. constructor.
  - rewrite Forall_forall in *. intros y Hy. apply Ha. apply in_or_app. now left.
  - eapply IH; eauto.
Qed.

Lemma fop_perm : forall {A} (R : A -> A -> Prop) l l',
  (forall a b, R a b -> R b a) -> Permutation l l' -> ForallOrdPairs R l -> ForallOrdPairs R l'.
Proof.
  intros A R l l' Sym P. induction P as [|x l l' P IH|x y l|l l' l'' P1 IH1 P2 IH2]; intro H; auto.
  - inversion H as [|? ? Hx Hl]; subst. constructor; auto.
    rewrite Forall_forall in *. intros z Hz. apply Hx.
    eapply Permutation_in; [apply Permutation_sym; exact P|exact Hz].
  - inversion H as [|? ? Hy Hl]; subst. inversion Hl as [|? ? Hx Hl']; subst.
    inversion Hy as [|? ? Hyx Hyl]; subst.
    constructor; [constructor; auto|constructor; auto].
Qed.

Lemma fop_nth : forall {A} (R : A -> A -> Prop) l,
  (forall a b, R a b -> R b a) -> ForallOrdPairs R l ->
  forall i j a b, i <> j -> nth_error l i = Some a -> nth_error l j = Some b -> R a b.
Proof.
  intros A R l Sym H. induction H as [|x t Hx Ht IH]; intros i j a b Hij Hi Hj.
  - destruct i; discriminate.
  - rewrite Forall_forall in Hx. destruct i as [|i], j as [|j]; cbn in Hi, Hj.
    + congruence.
    + inversion Hi; subst. apply Hx. eapply nth_error_In; eauto.
    + inversion Hj; subst. apply Sym. apply Hx. eapply nth_error_In; eauto.
    + eapply IH; [|eauto|eauto]. congruence.
Qed.

(* -------------------------------------------------- distance, two forms *)
Lemma d2r_dist2_sep : forall sep p q, d2r sep p q == dist2_sep sep p q.
Proof.
  induction sep as [|s sep IH]; intros p q; cbn [d2r dist2_sep]; [reflexivity|].
  destruct p as [|a p]; [reflexivity|]. destruct q as [|b q]; [reflexivity|].
  cbv zeta. generalize (Qred_correct (a / s - b / s)).
  generalize (Qred (a / s - b / s)). intros r E.
  assert (E' : r == (a - b) / s) by (eapply Qeq_trans; [exact E|unfold Qdiv; ring]).
  apply Qplus_comp; [apply Qmult_comp; exact E'|apply IH].
Qed.

Lemma dist2_sep_sym : forall sep p q, dist2_sep sep p q == dist2_sep sep q p.
Proof.
  induction sep as [|s sep IH]; intros p q; cbn; [reflexivity|].
  destruct p as [|a p], q as [|b q]; try reflexivity.
  rewrite IH. unfold Qdiv. ring.
Qed.

Lemma d2r_nonneg : forall sep p q, 0 <= d2r sep p q.
Proof.
  induction sep as [|s sep IH]; intros p q; cbn [d2r]; [apply Qle_refl|].
  destruct p as [|a p]; [apply Qle_refl|]. destruct q as [|b q]; [apply Qle_refl|].
  cbv zeta. specialize (IH p q). generalize dependent (d2r sep p q).
  generalize (Qred (a / s - b / s)). intros r t Ht. nra.
Qed.

(* the early exit of [close] does not change the predicate *)
Lemma close_spec : forall sep p q, close sep p q = Qltb (d2r sep p q) 1.
Proof.
  intros sep p q. unfold close.
  destruct sep as [|s sep]; [reflexivity|]. destruct p as [|a p]; [reflexivity|].
  destruct q as [|b q]; [reflexivity|].
  destruct (Qle_bool 1 (Qabs (a / s - b / s))) eqn:E; [|reflexivity].
  symmetry. apply Qltb_ge. apply Qle_bool_iff in E. cbn [d2r]. cbv zeta.
  pose proof (d2r_nonneg sep p q) as Hn. generalize dependent (d2r sep p q).
  generalize (Qred_correct (a / s - b / s)). generalize (Qred (a / s - b / s)).
  generalize dependent (a / s - b / s). intros d E r Er t Ht.
  revert E. apply Qabs_case; intros; nra.
Qed.

Definition far (sep : list Q) (a b : row) : Prop := ~ dist2_sep sep (r_pos a) (r_pos b) < 1.

Lemma far_sym : forall sep a b, far sep a b -> far sep b a.
Proof. unfold far. intros sep a b H. now rewrite dist2_sep_sym. Qed.

Lemma close_false_far : forall sep a b, close sep (r_pos a) (r_pos b) = false -> far sep a b.
Proof.
  unfold far. intros sep a b H. rewrite close_spec in H. apply Qltb_ge in H.
  rewrite d2r_dist2_sep in H. now apply Qle_not_lt.
Qed.

Lemma far_close_false : forall sep a b, far sep a b -> close sep (r_pos a) (r_pos b) = false.
Proof.
  unfold far. intros sep a b H. rewrite close_spec. apply Qltb_ge.
  rewrite d2r_dist2_sep. now apply Qnot_lt_le.
Qed.

(* ------------------------------------------------------------- dedupe *)
Lemma index_map : forall {A B} (g : A -> B) (l : list A),
  index (map g l) = map (fun x => (fst x, g (snd x))) (index l).
Proof.
  intros A B g l. unfold index. rewrite map_length. generalize 0%nat.
  induction l as [|x t IH]; intro k; cbn; auto. now rewrite IH.
Qed.

Lemma loser_cases : forall sep x y, loser sep x y = i_lab x \/ loser sep x y = i_lab y.
Proof.
  intros sep x y. unfold loser.
  destruct (Qltb (i_int y) (i_int x)); auto.
  destruct (Qeq_bool (i_int x) (i_int y)); auto.
  destruct (Qltb (psum sep (i_pos y)) (psum sep (i_pos x))); auto.
Qed.

Lemma mem_In : forall k l, mem k l = true <-> In k l.
Proof.
  intros k l. unfold mem. rewrite existsb_exists. split.
  - intros [x [Hx E]]. apply Nat.eqb_eq in E. now subst.
  - intro H. exists k. split; auto. apply Nat.eqb_refl.
Qed.

Lemma no_zero_sep : forall sep, forallb (Qltb 0) sep = true ->
  existsb (fun s => Qeq_bool s 0) sep = false.
Proof.
  induction sep as [|s t IH]; cbn; auto. intro H. apply andb_true_iff in H.
  destruct H as [H1 H2]. rewrite (IH H2), orb_false_r.
  apply Qltb_lt in H1. destruct (Qeq_bool s 0) eqn:E; auto.
  apply Qeq_bool_iff in E. rewrite E in H1. exfalso. eapply Qlt_irrefl; eauto.
Qed.

(* of every close pair of the table, where_close marks one member *)
Lemma where_close_marks : forall sep (rows : list row) x y,
  existsb (fun s => Qeq_bool s 0) sep = false ->
  In (x, y) (ordpairs (index rows)) ->
  close sep (r_pos (snd x)) (r_pos (snd y)) = true ->
  let drop := where_close sep (map (fun r => (r_pos r, r_mass r)) rows) in
  In (fst x) drop \/ In (fst y) drop.
Proof.
  intros sep rows x y Z Hxy Hc drop. subst drop. unfold where_close. rewrite Z.
  set (g := fun x : nat * row => (fst x, (fun r => (r_pos r, r_mass r)) (snd x))).
  rewrite (index_map (fun r => (r_pos r, r_mass r)) rows). fold g.
  rewrite ordpairs_map.
  assert (Hin : In (g x, g y)
            (filter (fun xy : item * item => close sep (i_pos (fst xy)) (i_pos (snd xy)))
               (map (fun xy => (g (fst xy), g (snd xy))) (ordpairs (index rows))))).
  { apply filter_In. split.
    - apply in_map_iff. exists (x, y). split; auto.
    - cbn. exact Hc. }
  pose proof (in_map (fun xy : item * item => loser sep (fst xy) (snd xy)) _ _ Hin) as Hl.
  cbn [fst snd] in Hl. apply (nodup_In Nat.eq_dec) in Hl.
  destruct (loser_cases sep (g x) (g y)) as [E|E]; rewrite E in Hl; [left|right]; exact Hl.
Qed.

Theorem dedupe_separated : forall sep rows,
  forallb (Qltb 0) sep = true -> ForallOrdPairs (far sep) (dedupe sep rows).
Proof.
  intros sep rows Hs. unfold dedupe. rewrite Hs. unfold drop_rows.
  set (drop := where_close sep (map (fun r => (r_pos r, r_mass r)) rows)).
  apply fop_map. apply fop_of_ordpairs. intros x y Hxy.
  apply ordpairs_filter_in in Hxy. destruct Hxy as [Hin [Kx Ky]].
  apply close_false_far. destruct (close sep (r_pos (snd x)) (r_pos (snd y))) eqn:C; auto.
  exfalso. apply negb_true_iff in Kx, Ky.
  destruct (where_close_marks sep rows x y (no_zero_sep sep Hs) Hin C) as [H|H];
    apply mem_In in H; fold drop in H; congruence.
Qed.

(* dedupe only removes rows *)
Lemma drop_rows_sub : forall {A} labels (rows : list A),
  exists removed, Permutation (drop_rows labels rows ++ removed) rows.
Proof.
  intros A labels rows. unfold drop_rows.
  exists (map snd (filter (fun x => negb (negb (mem (fst x) labels))) (index rows))).
  rewrite <- map_app. rewrite <- (map_snd_index rows) at 3.
  apply Permutation_map. apply filter_partition_perm.
Qed.

(* ------------------------------------------------- rows only get removed *)
Lemma topn_sel_sub : forall n l, exists removed, Permutation (topn_sel n l ++ removed) l.
Proof.
  intros n l. destruct n as [[|k]|].
  - exists []. rewrite app_nil_r. cbn. destruct (length l <=? 0)%nat; [apply Permutation_refl|].
    cbn. apply sort_perm.
  - destruct (topn_sel_spec (Some (S k)) l) as [rem [P _]]; [discriminate|]. now exists rem.
  - exists []. rewrite app_nil_r. apply Permutation_refl.
Qed.

Lemma sel_in : forall mm ms n l x, In x (sel mm ms n l) -> In x l /\ passes mm ms (snd x) = true.
Proof.
  intros mm ms n l x H. unfold sel in H. destruct (topn_sel_sub n (filt mm ms l)) as [rem P].
  assert (In x (filt mm ms l)).
  { eapply Permutation_in; [exact P|]. apply in_or_app. now left. }
  unfold filt in H0. apply filter_In in H0. exact H0.
Qed.

Lemma sel_sub : forall mm ms n l, exists removed, Permutation (sel mm ms n l ++ removed) l.
Proof.
  intros mm ms n l. unfold sel. destruct (topn_sel_sub n (filt mm ms l)) as [rem P].
  exists (rem ++ filter (fun x => negb (passes mm ms (snd x))) l).
  rewrite app_assoc. eapply Permutation_trans; [apply Permutation_app_tail; exact P|].
  apply filter_partition_perm.
Qed.

Lemma dedupe_in : forall sep rows r, In r (dedupe sep rows) -> In r rows.
Proof.
  intros sep rows r H. unfold dedupe in H. destruct (forallb (Qltb 0) sep); auto.
  destruct (drop_rows_sub (where_close sep (map (fun r => (r_pos r, r_mass r)) rows)) rows) as [rem P].
  eapply Permutation_in; [exact P|]. apply in_or_app. now left.
Qed.

(* --------------------------------------------------------------------- ep *)
Theorem ep_one_not_negative : forall noise black npx c raw,
  ep_not_negative (ep_one noise black npx c raw).
Proof.
  intros. unfold ep_one, ep_raw.
  destruct noise as [nz|]; [|exact I]. destruct black as [bl|]; [|exact I].
  destruct (Qeq_bool (raw - npx * bl) 0).
  - destruct (Qltb 0 (nz * c)); [exact I|]. destruct (Qltb (nz * c) 0); exact I.
  - cbn. destruct (Qltb (nz / (raw - npx * bl) * c) 0) eqn:E; [exact I|].
    cbn. now apply Qltb_ge.
Qed.

Lemma Qinv_nonzero : forall x, ~ x == 0 -> ~ / x == 0.
Proof.
  intros x Hx H. apply (Qmult_inv_r x) in Hx. rewrite H in Hx.
  rewrite Qmult_0_r in Hx. discriminate.
Qed.

(* with a positive measured noise and the (positive) geometric factor the
   reported value is NaN, +inf or strictly positive *)
Theorem ep_one_positive : forall nz black npx c raw,
  0 < nz -> 0 < c -> ep_positive_or_nan (ep_one (Some nz) black npx c raw).
Proof.
  intros nz black npx c raw Hn Hc. unfold ep_one, ep_raw.
  destruct black as [bl|]; [|exact I].
  destruct (Qeq_bool (raw - npx * bl) 0) eqn:M.
  - assert (P : 0 < nz * c) by (apply Qmult_lt_0_compat; assumption).
    apply Qltb_lt in P. rewrite P. exact I.
  - cbn. destruct (Qltb (nz / (raw - npx * bl) * c) 0) eqn:E; [exact I|].
    cbn. apply Qltb_ge in E. apply Qle_lteq in E. destruct E as [E|E]; [exact E|].
    exfalso. symmetry in E. apply Qmult_integral in E. destruct E as [E|E].
    + unfold Qdiv in E. apply Qmult_integral in E. destruct E as [E|E].
      * rewrite E in Hn. eapply Qlt_irrefl; eauto.
      * revert E. apply Qinv_nonzero. intro Z. apply Qeq_bool_iff in Z. congruence.
    + rewrite E in Hc. eapply Qlt_irrefl; eauto.
Qed.

(* the model never produces -inf *)
Lemma ep_one_not_ninf : forall noise black npx c raw, ep_one noise black npx c raw <> FNInf.
Proof.
  intros. pose proof (ep_one_not_negative noise black npx c raw) as H.
  intro E. rewrite E in H. exact H.
Qed.

(* the code before fix b5d1a4f reported negative static errors: e.g. noise 1,
   black level 10 over 5 mask pixels, raw_mass 40 *)
Theorem ep_old_refuted : exists noise black npx c raw,
  0 < noise /\ 0 < c /\ ~ ep_not_negative (ep_one_old (Some noise) (Some black) npx c raw).
Proof.
  exists 1, 10, 5, 1, 40. split; [reflexivity|]. split; [reflexivity|].
  vm_compute. intro H. apply H. reflexivity.
Qed.

(* ------------------------------------------------------ the whole tail *)
Definition out_rows (P : params) (rows : list row) : list (row * list fval) :=
  map (fun x => (snd (fst x), snd x)) (tail P rows).

Lemma out_rows_eq : forall P rows,
  out_rows P rows =
  map (fun x : lrow => (snd x, ep_row (p_noise P) (p_black P) (p_npx P) (p_cs P) (snd x)))
      (select (p_minmass P) (p_maxsize P) (p_topn P) (candidates (p_sep P) (p_sf P) rows)).
Proof. intros. unfold out_rows, tail. rewrite map_map. reflexivity. Qed.

Lemma out_rows_fst : forall P rows,
  map fst (out_rows P rows) =
  map snd (select (p_minmass P) (p_maxsize P) (p_topn P) (candidates (p_sep P) (p_sf P) rows)).
Proof. intros. rewrite out_rows_eq, map_map. reflexivity. Qed.

Lemma forall_pos_forallb : forall sep, Forall (fun s => 0 < s) sep -> forallb (Qltb 0) sep = true.
Proof.
  intros sep H. apply forallb_forall. rewrite Forall_forall in H. intros s Hs.
  apply Qltb_lt. now apply H.
Qed.

Lemma candidates_separated : forall sep sf rows,
  Forall (fun s => 0 < s) sep -> ForallOrdPairs (far sep) (candidates sep sf rows).
Proof.
  intros sep sf rows Hs. unfold candidates. apply fop_map.
  apply (dedupe_separated sep rows (forall_pos_forallb sep Hs)).
Qed.

Theorem tail_selection : forall P rows, p_topn P <> Some 0%nat ->
  selection_of (p_minmass P) (p_maxsize P) (p_topn P)
               (candidates (p_sep P) (p_sf P) rows) (map fst (out_rows P rows)).
Proof. intros. rewrite out_rows_fst. now apply select_spec. Qed.

Theorem tail_separated : forall P rows,
  Forall (fun s => 0 < s) (p_sep P) -> separated (p_sep P) (map fst (out_rows P rows)).
Proof.
  intros P rows Hs. rewrite out_rows_fst. unfold select.
  set (C := candidates (p_sep P) (p_sf P) rows).
  destruct (sel_sub (p_minmass P) (p_maxsize P) (p_topn P) (index C)) as [rem Pm].
  assert (F : ForallOrdPairs (far (p_sep P)) (map snd (sel (p_minmass P) (p_maxsize P) (p_topn P) (index C)))).
  { apply (fop_app_l _ _ (map snd rem)). rewrite <- map_app.
    eapply fop_perm; [apply far_sym| |].
    - apply Permutation_sym. apply Permutation_map. exact Pm.
    - rewrite map_snd_index. now apply candidates_separated. }
  unfold separated. intros i j a b Hij Hi Hj.
  exact (fop_nth (far (p_sep P)) _ (far_sym (p_sep P)) F i j a b Hij Hi Hj).
Qed.

Theorem tail_output_ok : forall shape P rows,
  Forall (fun r => inside_image shape (r_pos r)) rows ->
  output_ok shape (p_sep P) (p_minmass P) (p_maxsize P) (out_rows P rows).
Proof.
  intros shape P rows Hin. unfold output_ok. rewrite out_rows_eq.
  repeat split.
  - rewrite Forall_forall. intros x Hx. apply in_map_iff in Hx. destruct Hx as [y [<- Hy]].
    cbn. apply passes_keeps. unfold select in Hy. apply sel_in in Hy. apply Hy.
  - rewrite Forall_forall. intros x Hx. apply in_map_iff in Hx. destruct Hx as [y [<- Hy]].
    cbn. unfold select in Hy. apply sel_in in Hy. destruct Hy as [Hy _].
    assert (In (snd y) (candidates (p_sep P) (p_sf P) rows)).
    { rewrite <- (map_snd_index (candidates _ _ rows)). now apply in_map. }
    unfold candidates in H. apply in_map_iff in H. destruct H as [r [E Hr]].
    rewrite <- E. cbn. rewrite Forall_forall in Hin. apply Hin. eapply dedupe_in; eauto.
  - intro Hs. rewrite <- out_rows_eq. now apply tail_separated.
  - rewrite Forall_forall. intros x Hx. apply in_map_iff in Hx. destruct Hx as [y [<- Hy]].
    cbn. unfold ep_row. rewrite Forall_forall. intros v Hv. apply in_map_iff in Hv.
    destruct Hv as [c [<- _]]. apply ep_one_not_negative.
Qed.

(* with positive measured noise and positive geometric factors every reported
   ep is a positive number, +inf or NaN *)
Theorem tail_ep_positive : forall P rows nz,
  p_noise P = Some nz -> 0 < nz -> Forall (fun c => 0 < c) (p_cs P) ->
  Forall (fun x => Forall ep_positive_or_nan (snd x)) (out_rows P rows).
Proof.
  intros P rows nz Hn Hz Hc. rewrite out_rows_eq. rewrite Forall_forall.
  intros x Hx. apply in_map_iff in Hx. destruct Hx as [y [<- _]]. cbn.
  unfold ep_row. rewrite Forall_forall. intros v Hv. apply in_map_iff in Hv.
  destruct Hv as [c [<- Hcin]]. rewrite Hn. apply ep_one_positive; auto.
  rewrite Forall_forall in Hc. now apply Hc.
Qed.

(* raising minmass, lowering maxsize, setting topn: the new table is a
   selection of the OLD TABLE (not merely of the candidates), every kept row
   carries exactly the values (ep included) it had *)
Theorem tail_restriction : forall sep sf noise black npx cs mm0 ms0 mm1 ms1 n rows,
  mm0 <= mm1 -> size_le ms1 ms0 -> n <> Some 0%nat ->
  let P0 := mkparams sep sf mm0 ms0 None noise black npx cs in
  let P1 := mkparams sep sf mm1 ms1 n noise black npx cs in
  selection_of mm1 ms1 n (map fst (out_rows P0 rows)) (map fst (out_rows P1 rows)) /\
  exists removed, Permutation (out_rows P1 rows ++ removed) (out_rows P0 rows).
Proof.
  intros sep sf noise black npx cs mm0 ms0 mm1 ms1 n rows Hm Hs Hn P0 P1.
  rewrite !out_rows_fst, !out_rows_eq. subst P0 P1. cbn [p_sep p_sf p_minmass p_maxsize p_topn p_noise p_black p_npx p_cs].
  set (C := candidates sep sf rows). unfold select.
  rewrite <- (sel_restriction mm0 ms0 mm1 ms1 n (index C) Hm Hs).
  set (B := sel mm0 ms0 None (index C)). split.
  - now apply sel_spec.
  - destruct (sel_sub mm1 ms1 n B) as [rem Pm].
    exists (map (fun x : lrow => (snd x, ep_row noise black npx cs (snd x))) rem).
    rewrite <- map_app. apply Permutation_map. exact Pm.
Qed.

(* ------------------------------------------------ soundness of the monitor *)
Lemma inside_b_sound : forall shape p, inside_b shape p = true -> inside_image shape p.
Proof.
  induction shape as [|n t IH]; intros [|x p] H; cbn in *; try discriminate; auto.
  apply andb_true_iff in H. destruct H as [H H3]. apply andb_true_iff in H.
  destruct H as [H1 H2]. apply Qle_bool_iff in H1, H2. auto.
Qed.

Lemma all_ordpairs_b_fop : forall {A} (f : A -> A -> bool) l,
  all_ordpairs_b f l = true -> ForallOrdPairs (fun a b => f a b = true) l.
Proof.
  induction l as [|x t IH]; intro H; [constructor|]. cbn in H.
  apply andb_true_iff in H. destruct H as [H1 H2]. constructor; auto.
  rewrite Forall_forall. rewrite forallb_forall in H1. exact H1.
Qed.

Lemma fop_impl : forall {A} (R R' : A -> A -> Prop) l,
  (forall a b, R a b -> R' a b) -> ForallOrdPairs R l -> ForallOrdPairs R' l.
Proof.
  intros A R R' l H. induction 1; constructor; auto.
  eapply Forall_impl; [|eassumption]. intros; now apply H.
Qed.

Lemma ep_ok_b_sound : forall v, ep_ok_b false v = true -> ep_not_negative v.
Proof.
  destruct v; cbn; intro H; try discriminate; auto. now apply Qle_bool_iff.
Qed.

Lemma size_ok_b_sound : forall ms r, size_ok_b ms r = true ->
  match ms with None => True | Some s => r_size r < s end.
Proof. destruct ms; cbn; intros; auto. now apply Qltb_lt. Qed.

Theorem monitor_sound : forall shape sep mm ms np out,
  monitor shape sep mm ms np out = 0%N -> output_ok shape sep mm ms out.
Proof.
  intros shape sep mm ms np out. unfold monitor.
  destruct (forallb (fun x => Qltb mm (r_mass (fst x))) out) eqn:E1; cbn [negb]; [|discriminate].
  destruct (forallb (fun x => size_ok_b ms (fst x)) out) eqn:E2; cbn [negb]; [|discriminate].
  destruct (forallb (fun x => inside_b shape (r_pos (fst x))) out) eqn:E3; cbn [negb]; [|discriminate].
  destruct (forallb (Qltb 0) sep && negb (all_ordpairs_b (fun a b => negb (close sep (r_pos a) (r_pos b))) (map fst out))) eqn:E4; [discriminate|].
  destruct (forallb (fun x => forallb (ep_ok_b false) (snd x)) out) eqn:E5; cbn [negb]; [|discriminate].
  intros _. rewrite forallb_forall in E1, E2, E3, E5. unfold output_ok. repeat split.
  - rewrite Forall_forall. intros x Hx. split.
    + apply Qltb_lt. now apply E1.
    + apply size_ok_b_sound. now apply E2.
  - rewrite Forall_forall. intros x Hx. apply inside_b_sound. now apply E3.
  - intro Hs. rewrite (forall_pos_forallb sep Hs) in E4. cbn in E4.
    apply negb_false_iff in E4. apply all_ordpairs_b_fop in E4.
    assert (F : ForallOrdPairs (far sep) (map fst out)).
    { eapply fop_impl; [|exact E4]. intros a b H. apply negb_true_iff in H.
      now apply close_false_far. }
    unfold separated. intros i j a b Hij Hi Hj.
    exact (fop_nth (far sep) _ (far_sym sep) F i j a b Hij Hi Hj).
  - rewrite Forall_forall. intros x Hx. rewrite Forall_forall. intros v Hv.
    apply ep_ok_b_sound. specialize (E5 x Hx). rewrite forallb_forall in E5. now apply E5.
Qed.

(* --------------------------------------------- soundness of check_mask *)
Lemma select_mask_perm : forall {A} (mask : list bool) (l : list A),
  length mask = length l ->
  Permutation (select_mask mask l ++ select_mask (map negb mask) l) l.
Proof.
  induction mask as [|b m IH]; intros [|x l] H; cbn in *; try discriminate; auto.
  injection H as H. destruct b; cbn.
  - constructor. now apply IH.
  - eapply Permutation_trans; [apply Permutation_sym, Permutation_middle|].
    constructor. now apply IH.
Qed.

Theorem check_mask_sound : forall mm ms n cands mask,
  check_mask mm ms n cands mask = 0%N ->
  selection_of mm ms n cands (select_mask mask cands).
Proof.
  intros mm ms n cands mask. unfold check_mask.
  destruct (length mask =? length cands)%nat eqn:L; cbn [negb]; [|discriminate].
  apply Nat.eqb_eq in L.
  set (kept := select_mask mask cands). set (removed := select_mask (map negb mask) cands).
  destruct (forallb (fun r => Qltb mm (r_mass r)) kept) eqn:E1; cbn [negb]; [|discriminate].
  destruct (forallb (size_ok_b ms) kept) eqn:E2; cbn [negb]; [|discriminate].
  rewrite forallb_forall in E1, E2.
  assert (K : Forall (keeps mm ms) kept).
  { rewrite Forall_forall. intros r Hr. split; [apply Qltb_lt; now apply E1|].
    apply size_ok_b_sound. now apply E2. }
  assert (Lost : forall r, In r removed -> keeps mm ms r ->
                 In r (filter (passes mm ms) removed)).
  { intros r Hr Kr. apply filter_In. split; auto. now apply passes_keeps. }
  intro H. exists removed. split; [now apply select_mask_perm|]. split; [exact K|].
  destruct n as [k|].
  - destruct (length kept <=? k)%nat eqn:E3; cbn [negb] in H; [|discriminate].
    apply Nat.leb_le in E3. split; [exact E3|]. intros r Hr Kr.
    specialize (Lost r Hr Kr).
    destruct (filter (passes mm ms) removed) as [|z lost] eqn:EL; [contradiction|].
    destruct (length kept =? k)%nat eqn:E4; cbn [negb] in H; [|discriminate].
    apply Nat.eqb_eq in E4. split; [exact E4|].
    destruct (forallb (fun r0 => forallb (fun o => Qle_bool (r_mass r0) (r_mass o)) kept) (z :: lost)) eqn:E5;
      [|discriminate].
    rewrite forallb_forall in E5. specialize (E5 r Lost). rewrite forallb_forall in E5.
    rewrite Forall_forall. intros o Ho. apply Qle_bool_iff. now apply E5.
  - rewrite Forall_forall. intros r Hr Kr. specialize (Lost r Hr Kr).
    destruct (filter (passes mm ms) removed); [contradiction|discriminate].
Qed.

(* ---------------------------- the anisotropic ep frame before fix 151b10e *)
(* three features, minmass removes the first; the default-indexed ep frame is
   joined by label: label 0 carries an ep but no feature, the feature at
   label 1 gets the ep computed for the feature at label 2, the feature at
   label 2 gets none, and the table has three lines for two kept features *)
Definition aniso_P : params :=
  mkparams [4; 6] 1 50 None None (Some 1) (Some 0) 10 [1; 2].
Definition aniso_rows : list row :=
  [ mkrow [10; 10] 40 0 40; mkrow [10; 30] 100 0 100; mkrow [30; 10] 200 0 200 ].

Theorem aniso_old_refuted :
  map (fun x => (fst (fst x), match snd (fst x) with Some r => Some (r_raw r) | None => None end, snd x))
      (tail_old_aniso aniso_P aniso_rows)
  = [ (2%nat, Some 200, None);
      (0%nat, None, Some [FVal (1 # 100); FVal (2 # 100)]);
      (1%nat, Some 100, Some [FVal (1 # 200); FVal (2 # 200)]) ]
  /\ map (fun x => (r_raw (snd (fst x)), snd x)) (tail aniso_P aniso_rows)
  = [ (100, [FVal (1 # 100); FVal (2 # 100)]); (200, [FVal (1 # 200); FVal (2 # 200)]) ].
Proof. split; vm_compute; reflexivity. Qed.

(* ------------------------------- where_close only drops for a reason *)
(* every index marked by where_close belongs to a pair closer than separation
   whose other member is at least as bright ("the one with the lowest
   intensity is dropped") *)
Theorem where_close_justified : forall sep pts k,
  In k (where_close sep pts) ->
  exists x y, In (x, y) (ordpairs (index pts)) /\
    close sep (i_pos x) (i_pos y) = true /\
    ((k = i_lab x /\ i_int x <= i_int y) \/ (k = i_lab y /\ i_int y <= i_int x)).
Proof.
  intros sep pts k H. unfold where_close in H.
  destruct (existsb (fun s => Qeq_bool s 0) sep); [contradiction|].
  rewrite nodup_In in H. apply in_map_iff in H.
  destruct H as [[x y] [E Hin]]. apply filter_In in Hin. destruct Hin as [Hin Hc].
  cbn [fst snd] in *. exists x, y. split; [exact Hin|]. split; [exact Hc|].
  unfold loser in E.
  destruct (Qltb (i_int y) (i_int x)) eqn:L1.
  - right. split; [now symmetry|]. apply Qltb_lt in L1. now apply Qlt_le_weak.
  - apply Qltb_ge in L1. destruct (Qeq_bool (i_int x) (i_int y)) eqn:Eq.
    + apply Qeq_bool_iff in Eq.
      destruct (Qltb (psum sep (i_pos y)) (psum sep (i_pos x))).
      * right. split; [now symmetry|]. rewrite Eq. apply Qle_refl.
      * left. split; [now symmetry|exact L1].
    + left. split; [now symmetry|exact L1].
Qed.
