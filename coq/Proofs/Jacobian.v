(* C15 (gradient): chain rule through the reduced radius, per-pixel assembly
   of `derivs`, sum rule over pixels/features of one cluster, and the packed
   gradient as the transpose of vect_to_params. *)
From Coq Require Import Reals List Lra Lia.
From Coquelicot Require Import Coquelicot.
From TP Require Import Gen.fitfun Model.Pack Model.Jacobian Proofs.Pack Proofs.Deriv.
Import ListNotations.
Open Scope R_scope.

(* ------------------------------------------------------------------ *)
(* dot-product algebra                                                  *)
(* ------------------------------------------------------------------ *)
Lemma dot_scale2 : forall s k l p, dot (map (fun d => s * (k * d)) l) p = s * (k * dot l p).
Proof.
  intros s k l. induction l as [|a l IH]; intros [|b p]; simpl; try ring.
  rewrite IH. ring.
Qed.

Lemma dot_scale : forall s l p, dot (map (fun d => s * d) l) p = s * dot l p.
Proof.
  intros s l. induction l as [|a l IH]; intros [|b p]; simpl; try ring.
  rewrite IH. ring.
Qed.

Lemma dot_app : forall a b c d, length a = length c -> dot (a ++ b) (c ++ d) = dot a c + dot b d.
Proof.
  induction a as [|x a IH]; intros b [|y c] d HL; simpl in *; try discriminate; try ring.
  rewrite IH by lia. ring.
Qed.

Lemma dot_nil_r : forall a, dot a [] = 0.
Proof. destruct a; reflexivity. Qed.

(* ------------------------------------------------------------------ *)
(* reduced radius along a straight line in parameter space              *)
(* ------------------------------------------------------------------ *)
Lemma r2_isotropic_2d_dir : forall y x cy cx size dcy dcx dsize, size <> 0 ->
  is_derive (fun t => r2_isotropic_2d y x (cy + t * dcy) (cx + t * dcx) (size + t * dsize)) 0
            (dot (dr2_isotropic_2d y x cy cx size) [dcy; dcx; dsize]).
Proof.
  intros. unfold r2_isotropic_2d, dr2_isotropic_2d, dot.
  auto_derive; [rewrite Rmult_0_l, Rplus_0_r; repeat split; auto|].
  rewrite !Rmult_0_l, !Rplus_0_r. field; auto.
Qed.

Lemma r2_isotropic_3d_dir : forall z y x cz cy cx size dcz dcy dcx dsize, size <> 0 ->
  is_derive (fun t => r2_isotropic_3d z y x (cz + t * dcz) (cy + t * dcy) (cx + t * dcx) (size + t * dsize)) 0
            (dot (dr2_isotropic_3d z y x cz cy cx size) [dcz; dcy; dcx; dsize]).
Proof.
  intros. unfold r2_isotropic_3d, dr2_isotropic_3d, dot.
  auto_derive; [rewrite Rmult_0_l, Rplus_0_r; repeat split; auto|].
  rewrite !Rmult_0_l, !Rplus_0_r. field; auto.
Qed.

Lemma r2_anisotropic_2d_dir : forall y x cy cx sy sx dcy dcx dsy dsx, sy <> 0 -> sx <> 0 ->
  is_derive (fun t => r2_anisotropic_2d y x (cy + t * dcy) (cx + t * dcx) (sy + t * dsy) (sx + t * dsx)) 0
            (dot (dr2_anisotropic_2d y x cy cx sy sx) [dcy; dcx; dsy; dsx]).
Proof.
  intros. unfold r2_anisotropic_2d, dr2_anisotropic_2d, dot.
  auto_derive; [rewrite !Rmult_0_l, !Rplus_0_r; repeat split; auto|].
  rewrite !Rmult_0_l, !Rplus_0_r. field; auto.
Qed.

Lemma r2_anisotropic_3d_dir : forall z y x cz cy cx sz sy sx dcz dcy dcx dsz dsy dsx,
  sz <> 0 -> sy <> 0 -> sx <> 0 ->
  is_derive (fun t => r2_anisotropic_3d z y x (cz + t * dcz) (cy + t * dcy) (cx + t * dcx)
                                        (sz + t * dsz) (sy + t * dsy) (sx + t * dsx)) 0
            (dot (dr2_anisotropic_3d z y x cz cy cx sz sy sx) [dcz; dcy; dcx; dsz; dsy; dsx]).
Proof.
  intros. unfold r2_anisotropic_3d, dr2_anisotropic_3d, dot.
  auto_derive; [rewrite !Rmult_0_l, !Rplus_0_r; repeat split; auto|].
  rewrite !Rmult_0_l, !Rplus_0_r. field; auto.
Qed.

(* ------------------------------------------------------------------ *)
(* one pixel of one feature: signal * model(r2, extra) along a line     *)
(* `r2c t` is the reduced radius of the pixel along the line, with      *)
(* derivative  dr2dx . dp  (one of the four lemmas above)               *)
(* ------------------------------------------------------------------ *)
Lemma pixel_gauss : forall (r2c : R -> R) dr2dx dp s ds ndim,
  length dr2dx = length dp ->
  is_derive r2c 0 (dot dr2dx dp) ->
  is_derive (fun t => (s + t * ds) * gauss_fun (r2c t) ndim) 0
            (dot (derivs_row s (gauss_dfun (r2c 0) ndim) dr2dx) (ds :: dp)).
Proof.
  intros r2c dr2dx dp s ds ndim HL H.
  unfold derivs_row. cbn [dot]. 
  replace (tl (snd (gauss_dfun (r2c 0) ndim))) with (@nil R) by reflexivity.
  cbn [map]. rewrite app_nil_r, dot_scale2.
  unfold gauss_fun, gauss_dfun. cbn [fst snd nth].
  auto_derive; [exists (dot dr2dx dp); exact H|].
  match goal with |- context [Derive ?f 0] =>
      replace (Derive f 0) with (dot dr2dx dp) by (symmetry; apply is_derive_unique; exact H) end.
  rewrite !Rmult_0_l, !Rplus_0_r. generalize (dot dr2dx dp). intro q. exp_field.
Qed.

Lemma pixel_ring : forall (r2c : R -> R) dr2dx dp s ds th dth ndim,
  length dr2dx = length dp -> 0 < r2c 0 -> th <> 0 ->
  is_derive r2c 0 (dot dr2dx dp) ->
  is_derive (fun t => (s + t * ds) * ring_fun (r2c t) (th + t * dth) ndim) 0
            (dot (derivs_row s (ring_dfun (r2c 0) th ndim) dr2dx) (ds :: dp ++ [dth])).
Proof.
  intros r2c dr2dx dp s ds th dth ndim HL Hr Ht H.
  assert (Hs : sqrt (r2c 0) <> 0) by (apply Rgt_not_eq, sqrt_lt_R0; exact Hr).
  unfold derivs_row. cbn [dot].
  rewrite dot_app by (rewrite map_length; exact HL). rewrite dot_scale2.
  unfold ring_fun, ring_dfun. cbn [fst snd nth tl map dot].
  auto_derive.
  - rewrite !Rmult_0_l, !Rplus_0_r. repeat split; auto. exists (dot dr2dx dp); exact H.
  - match goal with |- context [Derive ?f 0] =>
      replace (Derive f 0) with (dot dr2dx dp) by (symmetry; apply is_derive_unique; exact H) end.
    rewrite !Rmult_0_l, !Rplus_0_r. generalize (dot dr2dx dp). intro q.
    generalize dependent (r2c 0). intros r Hr Hs. exp_field.
Qed.

(* ------------------------------------------------------------------ *)
(* sum rule over the pixels and features of one cluster                 *)
(* ------------------------------------------------------------------ *)
Lemma is_derive_sumR : forall {X : Type} (l : list X) (f : X -> R -> R) (df : X -> R) t0,
  (forall x, is_derive (f x) t0 (df x)) ->
  is_derive (fun t => sumR (map (fun x => f x t) l)) t0 (sumR (map df l)).
Proof.
  intros X l f df t0 H. induction l as [|a l IH]; simpl.
  - apply (is_derive_const 0 t0).
  - apply (is_derive_plus (f a) (fun t => sumR (map (fun x => f x t) l)) t0 (df a) _ (H a) IH).
Qed.

(* residual() of one cluster along any differentiable curve of parameters:
   bgc t = background, valc f x t = masked signal*model of feature f at pixel x.
   Its derivative is sum_x -2*diff[x]*(bg' + sum_f val'[f,x]) / len(image):
   exactly the quantity jacobian() accumulates in np.nansum(-2*diff*derivs)/len
   and np.nansum(-2*diff)/len *)
Theorem cluster_residual_derive :
  forall {X F : Type} (pixels : list X) (feats : list F) (len : R) (img : X -> R)
         (bgc : R -> R) (dbg : R) (valc : F -> X -> R -> R) (dval : F -> X -> R),
  is_derive bgc 0 dbg ->
  (forall f x, is_derive (valc f x) 0 (dval f x)) ->
  is_derive (fun t => cluster_residual pixels feats len img (bgc t) (fun f x => valc f x t)) 0
    (sumR (map (fun x => -2 * diff_at feats img (bgc 0) (fun f x => valc f x 0) x
                           * (dbg + sumR (map (fun f => dval f x) feats))) pixels) / len).
Proof.
  intros X F pixels feats len img bgc dbg valc dval Hb Hv.
  unfold cluster_residual, Rdiv.
  apply (is_derive_scal_l (fun t => sumR (map (fun x => diff_at feats img (bgc t) (fun f x0 => valc f x0 t) x ^ 2) pixels)) 0 _ (/ len)).
  apply (is_derive_sumR pixels
          (fun x t => diff_at feats img (bgc t) (fun f x0 => valc f x0 t) x ^ 2)
          (fun x => -2 * diff_at feats img (bgc 0) (fun f x0 => valc f x0 0) x * (dbg + sumR (map (fun f => dval f x) feats)))).
  intro x. unfold diff_at.
  pose proof (is_derive_sumR feats (fun f t => valc f x t) (fun f => dval f x) 0 (fun f => Hv f x)) as Hs.
  set (S := fun t => sumR (map (fun f => valc f x t) feats)) in *.
  change (is_derive (fun t => (img x - bgc t - S t) ^ 2) 0
            (-2 * (img x - bgc 0 - S 0) * (dbg + sumR (map (fun f => dval f x) feats)))).
  auto_derive.
  - split; [exists dbg; exact Hb|]. split; [eexists; exact Hs|]. exact I.
  - match goal with |- context [Derive (fun x0 => bgc x0) 0] =>
      replace (Derive (fun x0 => bgc x0) 0) with dbg by (symmetry; apply is_derive_unique; exact Hb) end.
    match goal with |- context [Derive (fun x0 => S x0) 0] =>
      replace (Derive (fun x0 => S x0) 0) with (sumR (map (fun f => dval f x) feats))
        by (symmetry; apply is_derive_unique; exact Hs) end.
    ring.
Qed.

(* ------------------------------------------------------------------ *)
(* the packed gradient is the transpose of vect_to_params               *)
(* ------------------------------------------------------------------ *)
Lemma dot_zeros : forall G n, dot G (repeat 0 n) = 0.
Proof. induction G as [|a G IH]; intros [|n]; simpl; try ring. rewrite IH. ring. Qed.

Lemma dot_repeat : forall G a, dot G (repeat a (length G)) = a * sumR G.
Proof. induction G as [|x G IH]; intro a; simpl; [ring|]. rewrite IH. ring. Qed.

Lemma set_idx_length : forall (c : list R) j v c', set_idx c j v = Some c' -> length c' = length c.
Proof.
  induction c as [|a c IH]; intros [|j] v c' H; simpl in H; try discriminate.
  - inversion H. reflexivity.
  - destruct (set_idx c j v) eqn:E; simpl in H; [|discriminate]. inversion H. simpl. f_equal. eauto.
Qed.

Lemma set_idx_nth_other : forall (c : list R) j v c' i, set_idx c j v = Some c' -> i <> j ->
  nth i c' 0 = nth i c 0.
Proof.
  induction c as [|a c IH]; intros [|j] v c' i H Hi; simpl in H; try discriminate.
  - inversion H. destruct i; [congruence|reflexivity].
  - destruct (set_idx c j v) eqn:E; simpl in H; [|discriminate]. inversion H.
    destruct i; simpl; auto. eapply IH; eauto.
Qed.

Lemma set_idx_dot : forall (c : list R) j v c' G, set_idx c j v = Some c' -> length G = length c ->
  dot G c' = dot G c + nth j G 0 * (v - nth j c 0).
Proof.
  induction c as [|a c IH]; intros [|j] v c' [|b G] H HL; simpl in H, HL; try discriminate.
  - inversion H. simpl. ring.
  - destruct (set_idx c j v) eqn:E; simpl in H; [|discriminate]. inversion H. simpl.
    rewrite (IH j v l G E) by lia. ring.
Qed.

Lemma set_group_length : forall g (c : list R) v c', set_group c g v = Some c' -> length c' = length c.
Proof.
  induction g as [|j g IH]; intros c v c' H; simpl in H.
  - inversion H. reflexivity.
  - destruct (set_idx c j v) eqn:E; [|discriminate].
    rewrite (IH _ _ _ H). eapply set_idx_length; eauto.
Qed.

Lemma set_group_nth_other : forall g (c : list R) v c' i, set_group c g v = Some c' -> ~ In i g ->
  nth i c' 0 = nth i c 0.
Proof.
  induction g as [|j g IH]; intros c v c' i H Hi; simpl in H.
  - inversion H. reflexivity.
  - destruct (set_idx c j v) eqn:E; [|discriminate].
    rewrite (IH _ _ _ i H) by (intro; apply Hi; right; assumption).
    eapply set_idx_nth_other; eauto. intro; apply Hi; left; congruence.
Qed.

Lemma set_group_dot : forall g (c : list R) v c' G, NoDup g ->
  set_group c g v = Some c' -> length G = length c ->
  (forall i, In i g -> nth i c 0 = 0) ->
  dot G c' = dot G c + v * sumR (map (fun j => nth j G 0) g).
Proof.
  induction g as [|j g IH]; intros c v c' G ND H HL HZ; simpl in H.
  - inversion H. simpl. ring.
  - inversion ND as [|? ? Hj ND']; subst.
    destruct (set_idx c j v) as [c1|] eqn:E; [|discriminate].
    rewrite (IH c1 v c' G ND' H).
    + rewrite (set_idx_dot c j v c1 G E HL). rewrite (HZ j (or_introl eq_refl)). simpl. ring.
    + rewrite (set_idx_length _ _ _ _ E). exact HL.
    + intros i Hi. rewrite (set_idx_nth_other c j v c1 i E) by (intro; subst; contradiction).
      apply HZ. right. exact Hi.
Qed.

Lemma assign_groups_dot : forall gt vals (c : list R) c' G, NoDup (concat gt) ->
  assign_groups c gt vals = Some c' -> length G = length c -> length vals = length gt ->
  (forall i, In i (concat gt) -> nth i c 0 = 0) ->
  dot G c' = dot G c + dot (map (fun g => sumR (map (fun j => nth j G 0) g)) gt) vals.
Proof.
  induction gt as [|g gt IH]; intros vals c c' G ND H HL HV HZ.
  - destruct vals; [|discriminate]. simpl in H. inversion H. simpl. ring.
  - destruct vals as [|v vals]; [discriminate|]. simpl in H, ND.
    destruct (NoDup_app_split g (concat gt) ND) as [ND2 Hdisj].
    assert (NDg : NoDup g).
    { clear - ND. induction g as [|x g IHg]; [constructor|]. simpl in ND. inversion ND; subst.
      constructor; [intro; apply H1; apply in_or_app; left; assumption|auto]. }
    destruct (set_group c g v) as [c1|] eqn:E; [|discriminate].
    rewrite (IH vals c1 c' G ND2 H).
    + rewrite (set_group_dot g c v c1 G NDg E HL).
      * simpl. ring.
      * intros i Hi. apply HZ. simpl. apply in_or_app. left. exact Hi.
    + rewrite (set_group_length _ _ _ _ E). exact HL.
    + simpl in HV. lia.
    + intros i Hi. rewrite (set_group_nth_other g c v c1 i E).
      * apply HZ. simpl. apply in_or_app. right. exact Hi.
      * intro Hg. exact (Hdisj i Hg Hi).
Qed.

Lemma gather_nth : forall (G : list R) g, List.Forall (fun j : nat => lt j (length G)) g ->
  gather G g = Some (map (fun j => nth j G 0) g).
Proof.
  intros G g H. unfold gather. induction H as [|j g Hj H IH]; [reflexivity|].
  simpl. rewrite IH. destruct (nth_error G j) eqn:E.
  - rewrite (nth_error_nth G j 0 E). reflexivity.
  - apply nth_error_None in E. lia.
Qed.

Lemma pack_sum_groups : forall (G : list R) gt, List.Forall (group_ok (length G)) gt ->
  opt_map (fun g => match gather G g with Some vals => Some (sumR vals) | None => None end) gt
  = Some (map (fun g => sumR (map (fun j => nth j G 0) g)) gt).
Proof.
  intros G gt H. induction H as [|g gt [_ Hg] H IH]; [reflexivity|].
  simpl. rewrite IH, (gather_nth G g Hg). reflexivity.
Qed.

(* one column *)
Lemma adjoint_col : forall groups n mode (G w rest g : list R),
  length G = n -> mode_wf groups n mode -> length w = packed_len_col groups n mode ->
  pack_col np_sum groups mode G = Some g ->
  exists c', unpack_col groups n mode (w ++ rest) (repeat 0 n) = Some (c', rest) /\
             length g = length w /\ dot g w = dot G c'.
Proof.
  intros groups n mode G w rest g HL HW HV HP.
  destruct mode as [|[|m]].
  - simpl in HV, HP. destruct w; [|discriminate]. inversion HP. exists (repeat 0 n). simpl.
    rewrite dot_zeros. auto.
  - simpl in HV, HP. inversion HP; subst g. exists w. simpl.
    rewrite (firstn_app_exact w rest n HV), (skipn_app_exact w rest n HV).
    unfold set_col. rewrite HV, Nat.eqb_refl. split; [reflexivity|]. split; [congruence|reflexivity].
  - unfold mode_wf in HW. unfold packed_len_col in HV. unfold pack_col in HP. unfold unpack_col.
    destruct (select groups (S (S m))) as [|gt|] eqn:Hs; [| |contradiction].
    + destruct w as [|a [|? ?]]; try discriminate. simpl in HP. inversion HP; subst g.
      exists (repeat a n). split; [reflexivity|]. split; [reflexivity|].
      rewrite <- HL, dot_repeat. simpl. ring.
    + destruct HW as (HG & ND). rewrite <- HL in HG. simpl in HP.
      rewrite (pack_sum_groups G gt HG) in HP. inversion HP; subst g.
      rewrite (firstn_app_exact w rest _ HV), (skipn_app_exact w rest _ HV).
      rewrite HL in HG.
      destruct (assign_groups_disjoint n gt w (repeat 0 n) HG ND (repeat_length 0 n) HV) as (c' & E & L & _ & _).
      exists c'. rewrite E. split; [reflexivity|]. split; [rewrite map_length; congruence|].
      rewrite (assign_groups_dot gt w (repeat 0 n) c' G ND E).
      * rewrite dot_zeros. ring.
      * rewrite repeat_length. exact HL.
      * exact HV.
      * intros i _. clear. revert i. induction n; destruct i; simpl; auto.
Qed.

(* jacobian() returns vect_from_params(result, modes, groups, operation=np.sum):
   for every direction w of the optimisation vector,
       <pack_sum(Gm), w>  =  <Gm, unpack(w, 0)>      (sum over all array entries),
   i.e. summing the per-entry derivatives over each group is exactly the chain
   rule through vect_to_params (which copies w[k] into every entry of group k). *)
Theorem pack_sum_adjoint : forall groups n modes (Gm : list (list R)) (w rest g : list R),
  length modes = length Gm -> List.Forall (fun c => length c = n) Gm ->
  List.Forall (mode_wf groups n) modes -> length w = packed_len groups n modes ->
  pack np_sum groups modes Gm = Some g ->
  exists D, unpack groups n modes (w ++ rest) (map (fun _ => repeat 0 n) modes) = Some (D, rest) /\
            length g = length w /\ dot g w = mdot Gm D.
Proof.
  intros groups n modes. induction modes as [|m ms IH]; intros Gm w rest g HLm HS HW HV HP.
  - destruct Gm; [|discriminate]. simpl in HV, HP. destruct w; [|discriminate]. inversion HP.
    exists []. simpl. auto.
  - destruct Gm as [|G Gm]; [discriminate|].
    inversion HS as [|? ? HL HS']; subst. inversion HW as [|? ? HWm HW']; subst.
    rewrite packed_len_cons in HV. cbn [pack] in HP.
    destruct (pack_col np_sum groups m G) as [g1|] eqn:P1; [|discriminate].
    destruct (pack np_sum groups ms Gm) as [g2|] eqn:P2; [|discriminate]. inversion HP; subst g.
    set (k := packed_len_col groups (length G) m) in *.
    assert (Hv : w = firstn k w ++ skipn k w) by (symmetry; apply firstn_skipn).
    assert (Hk : length (firstn k w) = k) by (rewrite firstn_length; lia).
    assert (Hk2 : length (skipn k w) = packed_len groups (length G) ms) by (rewrite skipn_length; lia).
    destruct (adjoint_col groups (length G) m G (firstn k w) (skipn k w ++ rest) g1 eq_refl HWm Hk P1)
      as (c' & U1 & L1 & D1).
    destruct (IH Gm (skipn k w) rest g2 ltac:(simpl in HLm; lia) HS' HW' Hk2 P2) as (D & U2 & L2 & D2).
    exists (c' :: D). rewrite Hv at 1. rewrite <- app_assoc. cbn [map unpack]. rewrite U1, U2.
    split; [reflexivity|]. split.
    + rewrite app_length, L1, L2, <- app_length, <- Hv. reflexivity.
    + rewrite Hv at 1. rewrite (dot_app g1 g2 _ _ L1), D1, D2. reflexivity.
Qed.
