(* C15, route T: the generated jacobian closure is Model/Jacobian2.v's jacobian;
   C15_gradient_exact for the generated closures. *)
From Coq Require Import Reals List Arith Lia Bool FunctionalExtensionality.
From TP Require Import Gen.fitfun Model.Pack Model.Jacobian Model.Jacobian2 Model.PyFitpack Gen.fitpack
                       Proofs.Pack Proofs.Jacobian Proofs.Jacobian2 Proofs.FitpackGen Proofs.FitpackGen2.
Import ListNotations.
Open Scope R_scope.

Lemma nth_list_set_eq : forall {T : Type} (l : list T) j v d, (j < length l)%nat -> nth j (list_set l j v) d = v.
Proof. induction l as [|a l IH]; intros j v d H; simpl in H; [lia|]. destruct j; simpl; [reflexivity|]. apply IH. lia. Qed.
Lemma nth_list_set_neq : forall {T : Type} (l : list T) j i v d, j <> i -> nth i (list_set l j v) d = nth i l d.
Proof. induction l as [|a l IH]; intros j i v d H; simpl; [reflexivity|]. destruct j, i; simpl; try reflexivity; [congruence|]. apply IH. congruence. Qed.
Lemma list_set_oob : forall {T : Type} (l : list T) j v, (length l <= j)%nat -> list_set l j v = l.
Proof. induction l as [|a l IH]; intros j v H; simpl; [reflexivity|]. destruct j; simpl in *; [lia|]. f_equal. apply IH. lia. Qed.
Lemma list_set_length : forall {T : Type} (l : list T) j v, length (list_set l j v) = length l.
Proof. induction l as [|a l IH]; intros j v; simpl; [reflexivity|]. destruct j; simpl; [reflexivity|]. f_equal. apply IH. Qed.

Lemma d3_upd_upd : forall {X : Type} (D : list (X -> list R)) j f g,
  d3_upd (d3_upd D j f) j g = d3_upd D j (fun r => g (f r)).
Proof.
  intros X D j f g. unfold d3_upd. destruct (lt_dec j (length D)) as [H|H].
  - rewrite nth_list_set_eq by exact H. apply list_set_twice.
  - rewrite !list_set_oob; try lia; try reflexivity. rewrite list_set_oob; lia.
Qed.

Lemma skipn_repeat_add : forall {T : Type} (z : T) a b, skipn a (repeat z (a + b)) = repeat z b.
Proof. induction a; simpl; auto. Qed.

Lemma list_as_map_nth : forall {T : Type} (l : list T) d, l = map (fun k => nth k l d) (seq 0 (length l)).
Proof.
  induction l as [|a l IH]; intro d; simpl; [reflexivity|]. f_equal.
  rewrite <- seq_shift, map_map. apply IH.
Qed.

(* generic: a loop over enumerate(l) that rewrites entry j of a list of |l| equal entries *)
Lemma fold_enum_upd : forall {X T : Type} (g : T -> (X -> list R) -> X -> list R) z (l : list T) pre,
  fold_left (fun D jt => d3_upd D (fst jt) (g (snd jt))) (combine (seq (length pre) (length l)) l) (pre ++ repeat z (length l))
  = pre ++ map (fun t => g t z) l.
Proof.
  intros X T g z l. induction l as [|t l IH]; intro pre; simpl; [reflexivity|].
  unfold d3_upd at 2. rewrite nth_middle, list_set_app.
  specialize (IH (pre ++ [g t z])). rewrite app_length in IH. simpl in IH. rewrite Nat.add_1_r, <- !app_assoc in IH. simpl in IH.
  exact IH.
Qed.

Lemma fold_pair : forall {S1 S2 I : Type} (f1 : S1 -> I -> S1) (f2 : S2 -> I -> S2) l a b,
  fold_left (fun st i => (f1 (fst st) i, f2 (snd st) i)) l (a, b) = (fold_left f1 l a, fold_left f2 l b).
Proof. intros S1 S2 I f1 f2 l. induction l as [|i l IH]; intros a b; simpl; [reflexivity|]. apply IH. Qed.

Lemma fold_left_snd : forall {S J I : Type} (f : S -> I -> S) (l : list (J * I)) a,
  fold_left (fun s ji => f s (snd ji)) l a = fold_left f (map snd l) a.
Proof. intros S J I f l. induction l as [|i l IH]; intro a; simpl; [reflexivity|]. apply IH. Qed.

Lemma map_snd_combine_seq : forall {T : Type} (l : list T) k, map snd (combine (seq k (length l)) l) = l.
Proof. induction l as [|a l IH]; intro k; simpl; [reflexivity|]. f_equal. apply IH. Qed.

Section Jac.
Context {X : Type}.
Variables (r2_fun : list R -> list R -> R) (dr2_fun : list R -> list R -> list R)
          (model_fun : R -> list R -> R -> R) (model_dfun : R -> list R -> R -> R * list R)
          (fp : list String.string) (ndim : R) (dr2_len dfun_len : nat).
Let nfp := length fp.
Hypothesis Hfst : forall r e nd, fst (model_dfun r e nd) = model_fun r e nd.
Hypothesis Hdfun : forall r e nd, length (snd (model_dfun r e nd)) = dfun_len.
Hypothesis Hdr2 : forall m p, length (dr2_fun m p) = dr2_len.
Hypothesis Hassert : dfun_len = (nfp + 1)%nat.
Variable P : list (list R).
Variable nv1 : nat.                      (* n_vars - 1 *)
Hypothesis Hshape : nv1 = (1 + dr2_len + nfp)%nat.

(* the three stores into derivs[j] of one loop iteration *)
Definition rowupd (mesh : X -> list R) (im : nat * (X -> bool)) (r : X -> list R) : X -> list R :=
  fun x =>
    let p := row_of P (fst im) in
    let md := model_dfun (r2_fun (mesh x) p) (py_last p nfp) ndim in
    let r1 := if snd im x then splice (r x) 0 1 [fst md] else r x in
    let r2 := if snd im x then splice r1 1 (1 + dr2_len) (map (fun d => nth 1 p 0 * d) (map (fun d => nth 0 (snd md) 0 * d) (dr2_fun (mesh x) p))) else r1 in
    if (0 <? nfp)%nat then (if snd im x then splice r2 (length r2 - nfp) (length r2) (map (fun d => nth 1 p 0 * d) (tl (snd md))) else r2)
    else r2.

Lemma jacobian_loop2_pure : forall mesh n_ d D j im,
  get_residual_jacobian_loop2 R_ops r2_fun mesh P dr2_fun model_dfun ndim nfp n_ dfun_len dr2_len (d, D) (j, im)
  = POk (sub1 r2_fun model_fun fp ndim P mesh d im, d3_upd D j (rowupd mesh im)).
Proof.
  intros mesh n_ d D j [i m]. unfold get_residual_jacobian_loop2. cbv beta zeta iota.
  rewrite Hassert, Nat.eqb_refl. cbn [negb].
  assert (Hd : parr_masked_sub R_ops d m
                 (fun x => n_mul R_ops (arr_item R_ops P i 1)
                             (fst (model_dfun (r2_fun (mesh x) (arr_row R_ops P i)) (py_last (arr_row R_ops P i) nfp) ndim)))
               = sub1 r2_fun model_fun fp ndim P mesh d (i, m)).
  { unfold parr_masked_sub, sub1. apply functional_extensionality. intro x. cbn [fst snd n_sub n_mul R_ops].
    rewrite Hfst, nth_row_of. reflexivity. }
  rewrite Hd. unfold d3_set, d3_set_last. rewrite !d3_upd_upd.
  destruct (0 <? nfp)%nat eqn:E; cbv iota.
  - apply f_equal. apply f_equal. apply f_equal.
    apply functional_extensionality. intro r. apply functional_extensionality. intro x.
    unfold rowupd. cbn [fst snd n_mul n_zero R_ops]. rewrite E. unfold arr_item. rewrite <- nth_row_of. reflexivity.
  - apply f_equal. apply f_equal. apply f_equal.
    apply functional_extensionality. intro r. apply functional_extensionality. intro x.
    unfold rowupd. cbn [fst snd n_mul n_zero R_ops]. rewrite E. unfold arr_item. rewrite <- nth_row_of. reflexivity.
Qed.

(* the row the loop leaves in derivs[j, :, x], from zeros: derivs_row under the mask *)
Lemma rowupd_zeros : forall mesh i (m : X -> bool) x,
  rowupd mesh (i, m) (fun _ => repeat 0 nv1) x
  = if m x then derivs_row (nth 1 (row_of P i) 0)
                           (model_dfun (r2_fun (mesh x) (row_of P i)) (py_last (row_of P i) nfp) ndim)
                           (dr2_fun (mesh x) (row_of P i))
    else repeat 0 nv1.
Proof.
  intros mesh i m x. unfold rowupd. cbn [fst snd]. destruct (m x); [|destruct (0 <? nfp)%nat; reflexivity].
  set (p := row_of P i). set (md := model_dfun (r2_fun (mesh x) p) (py_last p nfp) ndim).
  set (V2 := map (fun d => nth 1 p 0 * d) (map (fun d => nth 0 (snd md) 0 * d) (dr2_fun (mesh x) p))).
  assert (L2 : length V2 = dr2_len) by (unfold V2; rewrite !map_length; apply Hdr2).
  assert (Ltl : length (tl (snd md)) = nfp).
  { pose proof (Hdfun (r2_fun (mesh x) p) (py_last p nfp) ndim) as H. fold md in H. rewrite Hassert in H.
    destruct (snd md); simpl in *; lia. }
  rewrite Hshape. unfold splice. change (firstn 0 _) with (@nil R). cbn [app].
  replace (1 + dr2_len + nfp)%nat with (S (dr2_len + nfp)) by lia. cbn [repeat skipn firstn].
  change (skipn (1 + dr2_len) (fst md :: repeat 0 (dr2_len + nfp))) with (skipn dr2_len (repeat 0 (dr2_len + nfp))).
  rewrite skipn_repeat_add. cbn [app].
  unfold derivs_row. fold md.
  assert (EV : map (fun d : R => nth 1 p 0 * (nth 0 (snd md) 0 * d)) (dr2_fun (mesh x) p) = V2)
    by (unfold V2; rewrite map_map; reflexivity).
  rewrite EV.
  destruct (0 <? nfp)%nat eqn:E.
  - set (r2 := fst md :: V2 ++ repeat 0 nfp).
    assert (Lr2 : length r2 = (S dr2_len + nfp)%nat) by (unfold r2; simpl; rewrite app_length, repeat_length, L2; reflexivity).
    rewrite Lr2. replace (S dr2_len + nfp - nfp)%nat with (S dr2_len) by lia.
    rewrite skipn_all2 by lia. rewrite app_nil_r. unfold r2.
    change (fst md :: V2 ++ repeat 0 nfp) with ((fst md :: V2) ++ repeat 0 nfp).
    rewrite (firstn_app_exact (fst md :: V2) (repeat 0 nfp) (S dr2_len)) by (simpl; rewrite L2; reflexivity).
    reflexivity.
  - apply Nat.ltb_ge in E. assert (H0 : nfp = 0%nat) by lia.
    destruct (tl (snd md)); [|simpl in Ltl; lia]. rewrite H0. reflexivity.
Qed.


(* ---- one cluster: result[indices, 1:] = ..., result[indices, 0] = ... ---- *)
Definition asf (C : list (list R)) (k i : nat) : R := nth i (nth k C []) 0.

Lemma jacobian_inner : forall n_ n_vars indices image mesh masks_cl,
  NoDup indices -> length masks_cl = length indices -> nv1 = (n_vars - 1)%nat ->
  foldM (get_residual_jacobian_loop2 R_ops r2_fun mesh P dr2_fun model_dfun ndim nfp n_ dfun_len dr2_len)
        (enumerate (combine indices masks_cl))
        (fun x => n_sub R_ops (im_val image x) (arr_item R_ops P (hd 0%nat indices) 0), d3_zeros R_ops (length indices) (n_vars - 1))
  = POk (fun x => diff_at indices (im_val image) (bg_of (cluster_of r2_fun dr2_fun model_fun model_dfun fp ndim (indices, image, mesh, masks_cl)) P)
                          (vals_of (cluster_of r2_fun dr2_fun model_fun model_dfun fp ndim (indices, image, mesh, masks_cl)) P) x,
         map (fun im => rowupd mesh im (fun _ => repeat 0 nv1)) (combine indices masks_cl)).
Proof.
  intros n_ n_vars indices image mesh masks_cl ND HL Hnv.
  rewrite (foldM_pure _ (fun st jim => (sub1 r2_fun model_fun fp ndim P mesh (fst st) (snd jim),
                                        d3_upd (snd st) (fst jim) (rowupd mesh (snd jim))))).
  2:{ intros [d D] [j im] _. apply jacobian_loop2_pure. }
  f_equal. unfold enumerate.
  rewrite (fold_pair (fun d (jim : nat * (nat * (X -> bool))) => sub1 r2_fun model_fun fp ndim P mesh d (snd jim))
                     (fun D (jim : nat * (nat * (X -> bool))) => d3_upd D (fst jim) (rowupd mesh (snd jim)))).
  f_equal.
  - rewrite (fold_left_snd (sub1 r2_fun model_fun fp ndim P mesh)), map_snd_combine_seq.
    apply functional_extensionality. intro x.
    apply (diff_after r2_fun dr2_fun model_fun model_dfun fp ndim P indices image mesh masks_cl x ND HL).
  - unfold d3_zeros. cbn [n_zero R_ops]. rewrite <- Hnv.
    assert (HLc : length indices = length (combine indices masks_cl)) by (rewrite combine_length; lia).
    rewrite HLc.
    exact (fold_enum_upd (fun im => rowupd mesh im) (fun _ => repeat 0 nv1) (combine indices masks_cl) []).
Qed.

Lemma scatter_length : forall idx (vals : list R) col, length (col_scatter col idx vals) = length col.
Proof.
  intros idx vals. unfold col_scatter. generalize (combine idx vals). intro l.
  induction l as [|a l IH]; intro col; simpl; [reflexivity|]. rewrite IH, list_set_length. reflexivity.
Qed.

Lemma scatter_nth : forall (G : nat -> R) idx col i, (i < length col)%nat ->
  nth i (col_scatter col idx (map G idx)) 0 = if in_dec Nat.eq_dec i idx then G i else nth i col 0.
Proof.
  intros G idx. induction idx as [|a idx IH]; intros col i Hi; [reflexivity|].
  unfold col_scatter. simpl combine. simpl fold_left. fold (col_scatter (list_set col a (G a)) idx (map G idx)).
  rewrite IH by (rewrite list_set_length; exact Hi).
  destruct (in_dec Nat.eq_dec i idx) as [Hin|Hn]; destruct (in_dec Nat.eq_dec i (a :: idx)) as [Hin'|Hn']; try reflexivity.
  - exfalso. apply Hn'. right. exact Hin.
  - destruct Hin' as [->|Hin']; [|contradiction]. apply nth_list_set_eq. exact Hi.
  - apply nth_list_set_neq. intro; subst. apply Hn'. left. reflexivity.
Qed.

Lemma nth_map_combine_seq : forall {T U : Type} (F : nat * T -> U) (l : list T) s k d d',
  (k < length l)%nat -> nth k (map F (combine (seq s (length l)) l)) d = F ((s + k)%nat, nth k l d').
Proof.
  intros T U F l. induction l as [|a l IH]; intros s k d d' H; simpl in H; [lia|].
  destruct k; simpl.
  - rewrite Nat.add_0_r. reflexivity.
  - rewrite (IH (S s) k d d') by lia. f_equal. f_equal. lia.
Qed.

Lemma jacobian_loop1_spec : forall n n_ n_vars result (it : list nat * image R X * (X -> list R) * list (X -> bool)),
  item_ok it -> shape n result -> length result = n_vars -> n_vars = S nv1 ->
  exists result',
    get_residual_jacobian_loop1 R_ops P n_vars r2_fun dr2_fun model_dfun ndim nfp n_ dfun_len dr2_len result it = POk result' /\
    shape n result' /\ length result' = n_vars /\
    forall k i, (k < n_vars)%nat -> (i < n)%nat ->
      asf result' k i = jac_write P (asf result) (cluster_of r2_fun dr2_fun model_fun model_dfun fp ndim it) k i.
Proof.
  intros n n_ n_vars result [[[indices image] mesh] masks_cl] [ND HL] HS HLr Hnv.
  assert (Hnv1 : nv1 = (n_vars - 1)%nat) by lia.
  unfold get_residual_jacobian_loop1. cbv beta zeta iota.
  rewrite (jacobian_inner n_ n_vars indices image mesh masks_cl ND HL Hnv1). cbn [bind].
  set (c := cluster_of r2_fun dr2_fun model_fun model_dfun fp ndim (indices, image, mesh, masks_cl)).
  set (dN := fun x => diff_at indices (im_val image) (bg_of c P) (vals_of c P) x).
  destruct result as [|c0 cs]; [simpl in HLr; lia|].
  assert (Hcs : length cs = nv1) by (simpl in HLr; lia).
  pose proof (Forall_inv HS) as Hc0. pose proof (Forall_inv_tail HS) as Hcs'. cbv beta in Hc0.
  eexists. split; [reflexivity|].
  unfold arr_set_rows_from1, arr_set_rows_col0.
  match goal with |- context [map ?F (enumerate cs)] => assert (Len : length (map F (enumerate cs)) = nv1) end.
  { rewrite map_length. unfold enumerate. rewrite combine_length, seq_length. lia. }
  split; [|split].
  - constructor; [rewrite scatter_length; exact Hc0|].
    apply Forall_forall. intros col Hin. apply in_map_iff in Hin. destruct Hin as ([k col0] & <- & Hin).
    rewrite scatter_length. unfold enumerate in Hin. apply in_combine_r in Hin.
    rewrite Forall_forall in Hcs'. apply Hcs'. exact Hin.
  - cbn [length]. rewrite Len. lia.
  - intros k i Hk Hi. unfold asf, jac_write. destruct k as [|k'].
    + cbn [nth]. rewrite (scatter_nth (fun _ => _)) by lia. fold c. cbn [cl_idx c cluster_of].
      destruct (in_dec Nat.eq_dec i indices); [|reflexivity].
      unfold grad_bg. cbn [n_div n_of_nat n_mul n_of_Z R_ops cl_pix cl_len cl_img c cluster_of]. unfold np_nansum.
      cbn [n_add n_zero R_ops]. rewrite mult_INR. reflexivity.
    + cbn [nth]. unfold enumerate. rewrite (nth_map_combine_seq _ cs 0 k' [] []) by lia. cbn [fst snd Nat.add].
      assert (Hk' : (k' < nv1)%nat) by lia.
      rewrite <- Hnv1.
      unfold mat_div, d3_nansum_axis2. rewrite !map_map.
      set (V := fun (i : nat) (m : X -> bool) =>
                  np_nansum R_ops (im_live image)
                    (fun x => n_mul R_ops (n_mul R_ops (n_of_Z R_ops (-2)) (dN x))
                                (nth k' (rowupd mesh (i, m) (fun _ => repeat 0 nv1) x) (n_zero R_ops)))
                  / n_of_nat R_ops (im_len image)).
      rewrite (map_ext _ (fun im : nat * (X -> bool) => V (fst im) (snd im))).
      2:{ intros [i0 m0]. cbn [fst snd]. unfold V. rewrite map_map. rewrite (nth_map_seq _ nv1 k' _ Hk'). reflexivity. }
      rewrite (map_combine_mask_for V indices masks_cl ND HL).
      rewrite (scatter_nth (fun i => V i (mask_for indices masks_cl i))) by (rewrite (shape_nth n cs k') by (assumption || lia); exact Hi).
      unfold V.
      fold c. cbn [cl_idx c cluster_of].
      destruct (in_dec Nat.eq_dec i indices); [|reflexivity].
      unfold grad_entry, np_nansum. cbn [n_add n_zero n_mul n_of_Z n_of_nat R_ops cl_pix cl_len cl_img c cluster_of].
      f_equal. change (fold_right Rplus 0) with sumR. f_equal. apply map_ext. intro x.
      rewrite rowupd_zeros. unfold rows_of. cbn [cl_row c cluster_of]. unfold py_row. fold nfp.
      destruct (mask_for indices masks_cl i x); [reflexivity|]. rewrite nth_repeat_0, nth_nil_R. reflexivity.
Qed.

End Jac.

(* ---- vect_to_params returns an array of the shape of params_const ---- *)
Lemma assign_groups_length : forall gt (c : list R) vals c', assign_groups c gt vals = Some c' -> length c' = length c.
Proof.
  induction gt as [|g gt IH]; intros c vals c' H; simpl in H.
  - inversion H. reflexivity.
  - destruct vals as [|v vals]; [inversion H; reflexivity|].
    destruct (set_group c g v) as [c1|] eqn:E; [|discriminate].
    rewrite (IH _ _ _ H). eapply set_group_length; eauto.
Qed.

Lemma unpack_col_shape : forall groups n m (rest c c' rest' : list R),
  length c = n -> unpack_col groups n m rest c = Some (c', rest') -> length c' = n.
Proof.
  intros groups n m rest c c' rest' Hc H. unfold unpack_col in H.
  destruct m as [|[|m]].
  - injection H as <- _. exact Hc.
  - destruct (set_col n (firstn n rest)) as [c1|] eqn:E; [|discriminate]. injection H as <- _.
    unfold set_col in E. destruct (length (firstn n rest) =? n)%nat eqn:EL.
    + injection E as <-. apply Nat.eqb_eq in EL. exact EL.
    + destruct (firstn n rest) as [|a [|? ?]]; try discriminate. injection E as <-. apply repeat_length.
  - destruct (select groups (S (S m))) as [|gt|]; [| |discriminate].
    + destruct rest; [discriminate|]. injection H as <- _. apply repeat_length.
    + destruct (assign_groups c gt (firstn (length gt) rest)) as [c1|] eqn:E; [|discriminate]. injection H as <- _.
      rewrite (assign_groups_length _ _ _ _ E). exact Hc.
Qed.

Lemma unpack_shape : forall groups n modes (v : list R) cols P rest,
  shape n cols -> unpack groups n modes v cols = Some (P, rest) -> shape n P.
Proof.
  intros groups n modes. induction modes as [|m ms IH]; intros v [|c cs] P rest HS H; simpl in H; try discriminate.
  - inversion H. constructor.
  - destruct (unpack_col groups n m v c) as [[c' r]|] eqn:Ec; [|discriminate].
    destruct (unpack groups n ms r cs) as [[P' r']|] eqn:E; [|discriminate].
    injection H as <- _. constructor.
    + eapply unpack_col_shape; [|exact Ec]. exact (Forall_inv HS).
    + eapply IH; [|exact E]. exact (Forall_inv_tail HS).
Qed.

Lemma jac_write_range : forall {X : Type} (P : list (list R)) (c : cluster X) A B nv n,
  (forall k i, (k < nv)%nat -> (i < n)%nat -> A k i = B k i) ->
  forall k i, (k < nv)%nat -> (i < n)%nat -> jac_write P A c k i = jac_write P B c k i.
Proof. intros X P c A B nv n H k i Hk Hi. unfold jac_write. destruct (in_dec Nat.eq_dec i (cl_idx c)); auto. Qed.

Lemma fold_jac_range : forall {X : Type} (P : list (list R)) (cls : list (cluster X)) A B nv n,
  (forall k i, (k < nv)%nat -> (i < n)%nat -> A k i = B k i) ->
  forall k i, (k < nv)%nat -> (i < n)%nat -> fold_left (jac_write P) cls A k i = fold_left (jac_write P) cls B k i.
Proof.
  intros X P cls. induction cls as [|c cls IH]; intros A B nv n H k i Hk Hi; simpl; [auto|].
  apply (IH _ _ nv n); auto. apply jac_write_range. exact H.
Qed.

Lemma to_cols_asf : forall n nv (C : list (list R)) A,
  shape n C -> length C = nv -> (forall k i, (k < nv)%nat -> (i < n)%nat -> asf C k i = A k i) -> to_cols n nv A = C.
Proof.
  intros n nv C A HS HL H. unfold to_cols. subst nv.
  transitivity (map (fun k => nth k C []) (seq 0 (length C))); [|symmetry; apply list_as_map_nth].
  apply map_ext_in. intros k Hk. apply in_seq in Hk.
  rewrite (list_as_map_nth (nth k C []) 0). rewrite (shape_nth n C k HS) by lia.
  apply map_ext_in. intros i Hi. apply in_seq in Hi. symmetry. apply H; lia.
Qed.

Section JacMain.
Context {X : Type}.
Variables (r2_fun : list R -> list R -> R) (dr2_fun : list R -> list R -> list R)
          (model_fun : R -> list R -> R -> R) (model_dfun : R -> list R -> R -> R * list R)
          (fp : list String.string) (ndim : R) (dr2_len dfun_len : nat).
Hypothesis Hfst : forall r e nd, fst (model_dfun r e nd) = model_fun r e nd.
Hypothesis Hdfun : forall r e nd, length (snd (model_dfun r e nd)) = dfun_len.
Hypothesis Hdr2 : forall m p, length (dr2_fun m p) = dr2_len.
Hypothesis Hassert : dfun_len = (length fp + 1)%nat.
Variables (images : list (image R X)) (meshes : list (X -> list R)) (masks : list (list (X -> bool)))
          (n : nat) (cols0 : list (list R)) (groups : groups_t) (norm : R) (modes : list nat).

Lemma jacobian_fold : forall P nv1 n_ n_vars (items : list (list nat * image R X * (X -> list R) * list (X -> bool))) result,
  nv1 = (1 + dr2_len + length fp)%nat ->
  Forall item_ok items -> shape n result -> length result = n_vars -> n_vars = S nv1 ->
  exists R',
    foldM (get_residual_jacobian_loop1 R_ops P n_vars r2_fun dr2_fun model_dfun ndim (length fp) n_ dfun_len dr2_len) items result = POk R' /\
    shape n R' /\ length R' = n_vars /\
    forall k i, (k < n_vars)%nat -> (i < n)%nat ->
      asf R' k i = fold_left (jac_write P) (map (cluster_of r2_fun dr2_fun model_fun model_dfun fp ndim) items) (asf result) k i.
Proof.
  intros P nv1 n_ n_vars items. induction items as [|it items IH]; intros result Hs Hok HS HL Hnv.
  - exists result. simpl. auto.
  - destruct (jacobian_loop1_spec r2_fun dr2_fun model_fun model_dfun fp ndim dr2_len dfun_len Hfst Hdfun Hdr2 Hassert P nv1 Hs
                n n_ n_vars result it (Forall_inv Hok) HS HL Hnv) as (r1 & E1 & S1 & L1 & A1).
    destruct (IH r1 Hs (Forall_inv_tail Hok) S1 L1 Hnv) as (R' & E & S' & L' & A').
    exists R'. cbn [foldM]. rewrite E1. cbn [bind]. split; [exact E|]. split; [exact S'|]. split; [exact L'|].
    intros k i Hk Hi. rewrite (A' k i Hk Hi). cbn [map fold_left].
    apply (fold_jac_range P _ _ _ n_vars n); auto.
Qed.

(* jacobian(vect), generated = the model's jacobian (an exception is None).
   Shape hypotheses: params_const is n x len(modes) and the parameter row is
   (background, signal, <len(dr2dx) position/size columns>, <model parameters>);
   model_dfun returns (model_fun, n_fun_params + 1 derivatives), dr2_fun returns dr2_len rows. *)
Theorem gen_jacobian_eq : forall v,
  modes <> [] -> Forall item_ok (py_items images meshes masks n groups) ->
  length modes = length cols0 -> shape n cols0 -> length modes = (2 + dr2_len + length fp)%nat ->
  pres_opt (get_residual_jacobian R_ops r2_fun dr2_fun model_fun model_dfun fp ndim modes dr2_len dfun_len
                                  images meshes masks n cols0 groups norm v)
  = jacobian (py_clusters r2_fun dr2_fun model_fun model_dfun fp ndim images meshes masks n groups) groups n modes cols0 norm v.
Proof.
  intros v Hne Hok HLm HS0 Hlen. unfold get_residual_jacobian. cbv beta zeta iota.
  rewrite cl_groups_eq. cbn [bind n_isnan R_ops]. rewrite existsb_never.
  pose proof (gen_vect_to_params_eq n cols0 modes groups v Hne) as HU. unfold jacobian.
  destruct (unpack groups n modes v cols0) as [[P rest]|] eqn:EU; destruct (vect_to_params v n cols0 modes groups) as [P'|e]; simpl in HU;
    try discriminate; [|reflexivity].
  injection HU as ->. cbn [bind].
  pose proof (unpack_shape _ _ _ _ _ _ _ HS0 EU) as HSP. pose proof (Proofs.Jacobian2.unpack_length _ _ _ _ _ _ _ EU) as HLP.
  destruct (jacobian_fold P (1 + dr2_len + length fp)%nat n (length cols0) (py_items images meshes masks n groups) P eq_refl Hok HSP
              ltac:(lia) ltac:(lia)) as (R' & E & S' & L' & A').
  fold (py_items images meshes masks n groups). rewrite E. cbn [bind].
  assert (HT : to_cols n (length modes) (jac_arr (py_clusters r2_fun dr2_fun model_fun model_dfun fp ndim images meshes masks n groups) P) = R').
  { apply to_cols_asf; [exact S'|lia|]. intros k i Hk Hi. rewrite A' by lia. reflexivity. }
  rewrite HT.
  pose proof (gen_vect_from_params_eq n R' modes groups (np_sum_op R_ops) Hne) as HF.
  change (np_sum_op R_ops) with np_sum in *.
  destruct (vect_from_params n R' modes groups np_sum) as [g|e]; simpl in HF; rewrite <- HF; reflexivity.
Qed.

End JacMain.

(* ------------------------------------------------------------------ *)
(* C15_gradient_exact for the generated closures                         *)
(* ------------------------------------------------------------------ *)
From Coquelicot Require Import Coquelicot.

(* the value residual(vect) returns (0 when it raises, as Model/Jacobian2.v's residual) *)
Definition pres_val (x : pres R) : R := match x with POk r => r | PRaise _ => 0 end.

Lemma zip4_idx : forall {X : Type} (F : list nat * image R X * (X -> list R) * list (X -> bool) -> cluster X)
    (a : list (list nat)) (b : list (image R X)) (c : list (X -> list R)) (d : list (list (X -> bool))),
  (forall it, cl_idx (F it) = fst (fst (fst it))) ->
  length b = length a -> length c = length a -> length d = length a ->
  map cl_idx (map F (zip4 a b c d)) = a.
Proof.
  intros X F a. induction a as [|x a IH]; intros b c d HF Hb Hc Hd; [destruct b, c, d; reflexivity|].
  destruct b as [|y b], c as [|z c], d as [|w d]; try discriminate. simpl. rewrite HF. simpl. f_equal.
  apply IH; auto.
Qed.

Section GenGradient.
Context {X : Type}.
Variables (r2_fun : list R -> list R -> R) (dr2_fun : list R -> list R -> list R)
          (model_fun : R -> list R -> R -> R) (model_dfun : R -> list R -> R -> R * list R)
          (fp : list String.string) (ndim : R) (dr2_len dfun_len : nat).
Hypothesis Hfst : forall r e nd, fst (model_dfun r e nd) = model_fun r e nd.
Hypothesis Hdfun : forall r e nd, length (snd (model_dfun r e nd)) = dfun_len.
Hypothesis Hdr2 : forall m p, length (dr2_fun m p) = dr2_len.
Hypothesis Hassert : dfun_len = (length fp + 1)%nat.
Variables (images : list (image R X)) (meshes : list (X -> list R)) (masks : list (list (X -> bool)))
          (n : nat) (cols0 : list (list R)) (groups : groups_t) (norm : R) (m0 : nat) (ms : list nat) (v : list R).
Let modes := m0 :: ms.
Let cls := py_clusters r2_fun dr2_fun model_fun model_dfun fp ndim images meshes masks n groups.
Let gen_residual := get_residual_residual R_ops r2_fun dr2_fun model_fun model_dfun fp ndim modes dr2_len dfun_len
                                          images meshes masks n cols0 groups norm.
Let gen_jacobian := get_residual_jacobian R_ops r2_fun dr2_fun model_fun model_dfun fp ndim modes dr2_len dfun_len
                                          images meshes masks n cols0 groups norm.
Hypothesis Hitems : List.Forall item_ok (py_items images meshes masks n groups).

Lemma gen_residual_val : forall u, pres_val (gen_residual u) = residual cls groups n modes cols0 norm u.
Proof.
  intro u. pose proof (gen_residual_eq r2_fun dr2_fun model_fun model_dfun fp ndim dr2_len dfun_len
                         images meshes masks n cols0 groups norm modes u ltac:(discriminate) Hitems) as H.
  unfold gen_residual, cls. unfold residual in *.
  destruct (unpack groups n modes u cols0) as [[P rest]|].
  - rewrite H. reflexivity.
  - destruct H as (e & ->). reflexivity.
Qed.

Theorem gen_gradient_exact :
  length modes = length cols0 -> List.Forall (fun c => length c = n) cols0 ->
  List.Forall (mode_wf groups n) modes -> length v = packed_len groups n modes ->
  length images = length (cl_groups_of groups n) -> length meshes = length (cl_groups_of groups n) ->
  length masks = length (cl_groups_of groups n) ->
  partition n (cl_groups_of groups n) -> bg_mode_ok groups (cl_groups_of groups n) m0 ->
  length modes = (2 + dr2_len + length fp)%nat ->
  (forall P rest, unpack groups n modes v cols0 = Some (P, rest) ->
     forall c i x dp, In c cls -> In i (cl_idx c) -> In x (cl_pix c) -> length dp = length modes ->
     is_derive (fun t => cl_val c i x (line (row_of P i) dp t)) 0 (dot (cl_row c i x (row_of P i)) (tl dp))) ->
  exists g, gen_jacobian v = POk g /\ length g = length v /\
    (forall w, length w = length v -> is_derive (fun t => pres_val (gen_residual (line v w t))) 0 (dot g w)) /\
    (forall k, (k < length v)%nat -> is_derive (fun s => pres_val (gen_residual (upd v k s))) (nth k v 0) (nth k g 0)).
Proof.
  intros HLm HS0 HW HV Hi1 Hi2 Hi3 Hpart Hbg Hlen Hpix.
  assert (Hcl : map cl_idx cls = cl_groups_of groups n).
  { unfold cls, py_clusters, py_items. apply zip4_idx; auto. intros [[[a b] c] d]. reflexivity. }
  destruct (gradient_exact cls groups n m0 ms cols0 norm v HLm HS0 HW HV Hcl Hpart Hbg Hpix) as (g & Hj & Lg & Hw & Hk).
  exists g. split; [|split; [exact Lg|split]].
  - apply pres_opt_some. unfold gen_jacobian.
    rewrite (gen_jacobian_eq r2_fun dr2_fun model_fun model_dfun fp ndim dr2_len dfun_len Hfst Hdfun Hdr2 Hassert
               images meshes masks n cols0 groups norm modes v ltac:(discriminate) Hitems HLm HS0 Hlen).
    exact Hj.
  - intros w Lw. apply (is_derive_ext (fun t => residual cls groups n modes cols0 norm (line v w t))).
    + intro t. symmetry. apply gen_residual_val.
    + apply Hw. exact Lw.
  - intros k Hk'. apply (is_derive_ext (fun s => residual cls groups n modes cols0 norm (upd v k s))).
    + intro s. symmetry. apply gen_residual_val.
    + apply Hk. exact Hk'.
Qed.

End GenGradient.
