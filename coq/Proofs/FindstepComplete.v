(* C14 -- COMPLETENESS for the model of the code (Model/FindLink3.v: find_step_gs, the subnets an
   argument, only the CLAIMED relocated points enter the frame) and hence for the generated step.

   Part A: under the hypotheses of the completeness theorem of Proofs/FindLink2.v every relocated point
           is claimed by a link of its own subnet; group_step_c then does what group_step does
           (coupling of the two accumulators), for raw source points in ANY subnet.
   Part B: one step on ANY partition [gs] of the source points (find_step_gs_complete: the statement
           of FindLink2.find_step_complete, generalised from find_groups to gs).
   Part C: tracks invariant, induction over the frames, detect-then-link, for any grouping that
           partitions the source points -- in particular code_groups / gen_grouping. *)
From Coq Require Import ZArith NArith QArith List Bool Arith Lia Permutation.
From TP Require Import Model.Assign Model.Link Model.LinkCheck Model.Dilation Model.DilationCheck
     Model.FindLink Model.FindLinkCheck Model.FindLink2 Model.FindLink3
     Proofs.BnB Proofs.Opt Proofs.Cands Proofs.Comps Proofs.Step Proofs.Labels Proofs.Dilation
     Proofs.FindLink Proofs.FindLink2 Proofs.FindstepSafe.
Import ListNotations.
Open Scope Z_scope.

(* ===================================================== small list lemmas *)
Lemma keep_all {A} (f : nat -> bool) : forall (ids : list nat) (l : list A),
  length ids = length l -> (forall x, In x ids -> f x = true) -> keep (map f ids) l = l.
Proof.
  induction ids as [|i ids IH]; intros [|y l] HL Hf; cbn in *; try discriminate; [reflexivity|].
  rewrite (Hf i (or_introl eq_refl)). f_equal. apply IH; [lia|]. intros x Hx. apply Hf. right. exact Hx.
Qed.

Lemma index_of_seq : forall n s j, (s <= j < s + n)%nat -> index_of j (seq s n) = Some (j - s)%nat.
Proof.
  induction n as [|n IH]; intros s j H; [lia|]. cbn [seq index_of].
  destruct (Nat.eqb s j) eqn:E.
  - apply Nat.eqb_eq in E. subst. f_equal. lia.
  - apply Nat.eqb_neq in E. rewrite IH by lia. cbn. f_equal. lia.
Qed.

Lemma pos_of_id_seq nds n j : (j < nds + n)%nat -> pos_of_id nds (seq nds n) j = j.
Proof.
  intros H. unfold pos_of_id. destruct (j <? nds)%nat eqn:E; [reflexivity|]. apply Nat.ltb_ge in E.
  rewrite index_of_seq by lia. lia.
Qed.

Lemma group_step_unfold m max_size pred rel st ds a g :
  group_step m max_size pred rel st ds a g =
  match solve_group max_size (map (ext_item m pred st ds (new_of m pred rel st ds g (a_added a))
                                            (length ds + length (a_added a))) g) with
  | Oversize => Oversize
  | Ok l => Ok {| a_added := a_added a ++ new_of m pred rel st ds g (a_added a); a_links := a_links a ++ l |}
  end.
Proof. reflexivity. Qed.

Lemma group_step_c_unfold m max_size pred rel st ds a g :
  group_step_c m max_size pred rel st ds a g =
  let new := new_of m pred rel st ds g (c_added a) in
  match solve_group max_size (map (ext_item m pred st ds new (c_next a)) g) with
  | Oversize => Oversize
  | Ok l =>
    let mask := map (claimed_b l) (seq (c_next a) (length new)) in
    Ok {| c_added := c_added a ++ keep mask new;
          c_ids := c_ids a ++ keep mask (seq (c_next a) (length new));
          c_next := (c_next a + length new)%nat;
          c_links := c_links a ++ l |}
  end.
Proof. reflexivity. Qed.

(* ============================================ Part A / B: one step on any partition *)
Section StepGs.
  Variables (m : metric) (mem max_size : nat) (rel : reloc_fn) (st : lstate) (ds B : list pt).
  Local Notation N := (length (live st)).
  Local Notation Pn := (src_pos no_pred st).
  Variable Tn : nat -> pt.
  (* the hypotheses of Section Step2 of Proofs/FindLink2.v, verbatim *)
  Hypothesis HB : NoDup B.
  Hypothesis R1 : forall a, (a < N)%nat -> In (Tn a) B /\ d2w (mw m) (Pn a) (Tn a) <= mR2 m.
  Hypothesis R2 : forall a q, (a < N)%nat -> In q B -> d2w (mw m) (Pn a) q <= mR2 m -> q = Tn a.
  Hypothesis R3 : forall a a', (a < N)%nat -> (a' < N)%nat -> Tn a = Tn a' -> a = a'.
  Hypothesis Hds : NoDup ds /\ incl ds B.
  Hypothesis Hrel : forall pos known,
    (forall p, In p pos -> exists a, (a < N)%nat /\ p = Pn a) -> NoDup pos ->
    incl known B -> NoDup known ->
    unknown_in_range m B pos known <> [] ->
    Permutation (filter (in_range_any m pos) (rel pos known (length (unknown_in_range m B pos known))))
                (unknown_in_range m B pos known).
  Hypothesis R4 : forall q, In q B -> exists a, (a < N)%nat /\ Tn a = q.

  (* ---- raw source points (Model/FindLink3.raw_items) against the items of Model/Link.items_of ---- *)
  Definition raw_of (a : nat) : item := (a, real_cands m (Pn a) ds 0).
  (* a source point of a subnet, in either form (raw, or with sorted candidates and the null link): a live
     source with the destinations of its item *)
  Definition svalid_it (it : item) : Prop :=
    (fst it < N)%nat /\ reals (snd it) = reals (snd (item_of m st ds (fst it))).
  Definition rvalid (g : group) : Prop := (forall it, In it g -> svalid_it it) /\ NoDup (map fst g).
  Definition norm (g : group) : group := map (fun it : item => item_of m st ds (fst it)) g.

  Lemma raw_reals a : (a < N)%nat -> reals (snd (raw_of a)) = reals (snd (item_of m st ds a)).
  Proof.
    intros Ha. destruct Hds as [Hnd Hin]. destruct (item_reals m st ds B Tn R1 R2 Hds a Ha) as [H1 H2].
    unfold raw_of. cbn [snd].
    destruct (in_dec (list_eq_dec Z.eq_dec) (Tn a) ds) as [Hi|Hn].
    - destruct (In_nth_error _ _ Hi) as [k Hk]. rewrite (H1 k Hk).
      rewrite (rc_present m st B Tn R1 R2 a Ha ds 0 k Hin Hnd Hk). reflexivity.
    - rewrite (H2 Hn). rewrite (rc_absent m st B Tn R2 a Ha ds 0 Hin Hn). reflexivity.
  Qed.

  Lemma raw_items_valid it : In it (raw_items m no_pred st ds) -> svalid_it it.
  Proof.
    unfold raw_items. intros H. apply mapi_from_in in H. destruct H as [i [s [Hn E]]]. cbn in E.
    assert (Hi : (i < N)%nat) by (apply nth_error_Some; congruence).
    assert (E' : it = raw_of i) by (subst it; unfold raw_of, src_pos; rewrite Hn; reflexivity).
    rewrite E'. split; [exact Hi|]. apply raw_reals. exact Hi.
  Qed.

  Lemma items_valid it : In it (items_of m no_pred st ds) -> svalid_it it.
  Proof. intros H. destruct (items_char m st ds it H) as [a [Ha ->]]. split; [exact Ha|reflexivity]. Qed.

  Lemma norm_fst g : map fst (norm g) = map fst g.
  Proof. unfold norm. rewrite map_map. apply map_ext. intros it. reflexivity. Qed.

  Lemma norm_valid g : rvalid g -> gvalid m st ds (norm g).
  Proof.
    intros [Hv Hn]. split; [|rewrite norm_fst; exact Hn].
    intros it Hit. unfold norm in Hit. apply in_map_iff in Hit. destruct Hit as [it0 [<- Hit0]].
    destruct (Hv it0 Hit0) as [Ha _]. exists (fst it0). split; [exact Ha|reflexivity].
  Qed.

  Lemma norm_gdests g : rvalid g -> gdests (norm g) = gdests g.
  Proof.
    intros [Hv _]. unfold gdests, norm. induction g as [|it g IH]; [reflexivity|]. cbn [map flat_map].
    rewrite IH by (intros x Hx; apply Hv; right; exact Hx). f_equal.
    destruct (Hv it (or_introl eq_refl)) as [_ E]. symmetry. exact E.
  Qed.

  Lemma norm_shortage g : rvalid g -> shortage (norm g) = shortage g.
  Proof. intros Hg. unfold shortage. rewrite (norm_gdests g Hg). unfold norm. rewrite map_length. reflexivity. Qed.

  Lemma norm_pos g : pos_of no_pred st (norm g) = pos_of no_pred st g.
  Proof. unfold pos_of, norm. rewrite map_map. apply map_ext. intros it. reflexivity. Qed.

  Lemma norm_new g added : rvalid g -> new_of m no_pred rel st ds (norm g) added = new_of m no_pred rel st ds g added.
  Proof. intros Hg. unfold new_of. rewrite (norm_shortage g Hg), norm_pos. reflexivity. Qed.

  Lemma norm_ext new base g :
    map (ext_item m no_pred st ds new base) (norm g) = map (ext_item m no_pred st ds new base) g.
  Proof. unfold norm. rewrite map_map. apply map_ext. intros it. reflexivity. Qed.

  (* ---- the two accumulators ---- *)
  Definition coupled (c : cacc) (a : acc) : Prop :=
    c_added c = a_added a /\ c_links c = a_links a /\
    c_next c = (length ds + length (a_added a))%nat /\ c_ids c = seq (length ds) (length (a_added a)).

  (* (a) every relocated point of the subnet is claimed by a link of the subnet *)
  Lemma all_claimed a new l :
    acc_inv st ds B Tn a ->
    acc_inv st ds B Tn {| a_added := a_added a ++ new; a_links := a_links a ++ l |} ->
    forall j, In j (seq (length ds + length (a_added a)) (length new)) -> claimed_b l j = true.
  Proof.
    intros [I1 [_ [_ _]]] [J1 [J2 [J3 _]]] j Hj. cbn [a_added a_links] in *. apply in_seq in Hj.
    set (base := (length ds + length (a_added a))%nat) in *.
    destruct (nth_error new (j - base)) as [x|] eqn:Ex; [|apply nth_error_None in Ex; lia].
    assert (Hxj : nth_error (ds ++ a_added a ++ new) j = Some x).
    { rewrite app_assoc. rewrite nth_error_app2 by (rewrite app_length; fold base; lia).
      rewrite app_length. fold base. exact Ex. }
    destruct (J2 x (in_or_app _ _ _ (or_intror (nth_error_In _ _ Ex)))) as [i [Hi [HiN Exi]]].
    apply in_map_iff in Hi. destruct Hi as [[i' c] [E Hin]]. cbn in E. subst i'.
    destruct (J1 i c Hin) as [j' [cc [Ec Hj']]].
    assert (j' = j).
    { rewrite NoDup_nth_error in J3. apply J3; [eapply nth_some_lt; exact Hj'|]. rewrite Hj', Hxj, Exi. reflexivity. }
    subst j'. apply in_app_or in Hin. destruct Hin as [Hin|Hin].
    - exfalso. destruct (I1 i c Hin) as [j2 [cc2 [Ec2 Hj2]]]. rewrite Ec in Ec2. inversion Ec2; subst j2 cc2.
      pose proof (nth_some_lt _ _ _ Hj2) as Hlt. rewrite app_length in Hlt. fold base in Hlt. lia.
    - unfold claimed_b. apply existsb_exists. exists (i, c). split; [exact Hin|]. rewrite Ec. cbn. apply Nat.eqb_refl.
  Qed.

  Lemma group_step_c_complete c a g :
    coupled c a -> acc_inv st ds B Tn a -> rvalid g ->
    (forall it, In it g -> ~ In (fst it) (map fst (a_links a))) ->
    (length g <= max_size)%nat ->
    exists c' a', group_step_c m max_size no_pred rel st ds c g = Ok c' /\
                  group_step m max_size no_pred rel st ds a g = Ok a' /\ coupled c' a' /\
                  acc_inv st ds B Tn a' /\
                  Permutation (map fst (a_links a')) (map fst (a_links a) ++ map fst g).
  Proof.
    intros [C1 [C2 [C3 C4]]] Hinv Hg Hfresh Hlen.
    assert (Hfresh' : forall it, In it (norm g) -> ~ In (fst it) (map fst (a_links a))).
    { intros it Hit. unfold norm in Hit. apply in_map_iff in Hit. destruct Hit as [it0 [<- Hit0]]. exact (Hfresh it0 Hit0). }
    assert (Hlen' : (length (norm g) <= max_size)%nat) by (unfold norm; rewrite map_length; exact Hlen).
    destruct (group_step_complete m max_size rel st ds B Tn HB R1 R2 R3 Hds Hrel a (norm g) Hinv (norm_valid g Hg) Hfresh' Hlen')
      as [a' [E [Hinv' Hp]]].
    rewrite group_step_unfold, (norm_new g (a_added a) Hg), norm_ext in E.
    assert (Eg : group_step m max_size no_pred rel st ds a g = Ok a') by (rewrite group_step_unfold; exact E).
    rewrite group_step_c_unfold. cbv zeta. rewrite C1, C3.
    set (new := new_of m no_pred rel st ds g (a_added a)) in *.
    destruct (solve_group max_size (map (ext_item m no_pred st ds new (length ds + length (a_added a))) g)) as [l|]; [|discriminate].
    inversion E as [Ea']. clear E. rewrite <- Ea' in Hinv'.
    pose proof (all_claimed a new l Hinv Hinv') as Hcl.
    rewrite (keep_all (claimed_b l) (seq (length ds + length (a_added a)) (length new)) new (seq_length _ _) Hcl).
    rewrite (keep_all (claimed_b l) (seq (length ds + length (a_added a)) (length new)) (seq (length ds + length (a_added a)) (length new)) eq_refl Hcl).
    eexists. exists a'. split; [reflexivity|]. split; [exact Eg|]. rewrite <- Ea'. split; [|split; [exact Hinv'|]].
    - unfold coupled. cbn [c_added c_links c_next c_ids a_added a_links]. rewrite C2, C4, app_length.
      split; [reflexivity|split; [reflexivity|split; [lia|]]]. rewrite seq_app. reflexivity.
    - rewrite <- Ea' in Hp. rewrite norm_fst in Hp. exact Hp.
  Qed.

  Lemma groups_run_c_complete : forall gs c a,
    coupled c a -> acc_inv st ds B Tn a ->
    (forall it, In it (concat gs) -> svalid_it it) ->
    NoDup (map fst (a_links a) ++ map fst (concat gs)) -> (forall g, In g gs -> (length g <= max_size)%nat) ->
    exists c' a', groups_run_c m max_size no_pred rel st ds c gs = Ok c' /\
                  groups_run m max_size no_pred rel st ds a gs = Ok a' /\ coupled c' a' /\ acc_inv st ds B Tn a' /\
                  Permutation (map fst (a_links a')) (map fst (a_links a) ++ map fst (concat gs)).
  Proof.
    induction gs as [|g gs IH]; intros c a Hc Ha Hit Hnd Hlen.
    - exists c, a. cbn. rewrite app_nil_r. split; [reflexivity|split; [reflexivity|split; [exact Hc|split; [exact Ha|apply Permutation_refl]]]].
    - cbn [concat] in *. rewrite map_app in Hnd.
      assert (Hg : rvalid g).
      { split; [intros it Hin; apply Hit; apply in_or_app; left; exact Hin|].
        eapply NoDup_app_l. eapply NoDup_app_r. exact Hnd. }
      assert (Hfresh : forall it, In it g -> ~ In (fst it) (map fst (a_links a))).
      { intros it Hin Hx. eapply (NoDup_app_disj _ _ (fst it) Hnd); [exact Hx|]. apply in_or_app. left. apply in_map. exact Hin. }
      destruct (group_step_c_complete c a g Hc Ha Hg Hfresh (Hlen g (or_introl eq_refl))) as [c1 [a1 [E1 [G1 [Hc1 [Ha1 Hp1]]]]]].
      assert (Hnd1 : NoDup (map fst (a_links a1) ++ map fst (concat gs))).
      { eapply Permutation_NoDup; [|rewrite app_assoc in Hnd; exact Hnd]. apply Permutation_app_tail. apply Permutation_sym. exact Hp1. }
      destruct (IH c1 a1 Hc1 Ha1 (fun it Hin => Hit it (in_or_app _ _ _ (or_intror Hin))) Hnd1 (fun g0 Hin => Hlen g0 (or_intror Hin)))
        as [c2 [a2 [E2 [G2 [Hc2 [Ha2 Hp2]]]]]].
      exists c2, a2. cbn [groups_run_c groups_run]. rewrite E1, G1. split; [exact E2|split; [exact G2|split; [exact Hc2|split; [exact Ha2|]]]].
      eapply Permutation_trans; [exact Hp2|]. rewrite map_app, app_assoc. apply Permutation_app_tail. exact Hp1.
  Qed.

  (* the links are already read against the final frame: nothing was dropped *)
  Lemma final_links_id c a :
    coupled c a -> acc_inv st ds B Tn a ->
    map (final_link (length ds) (c_ids c)) (c_links c) = a_links a.
  Proof.
    intros [_ [C2 [_ C4]]] [I1 _]. rewrite C2, C4. rewrite <- (map_id (a_links a)) at 2. apply map_ext_in.
    intros [i c0] Hin. destruct (I1 i c0 Hin) as [j [cc [-> Hj]]]. unfold final_link. cbn [fst snd option_map].
    rewrite pos_of_id_seq; [reflexivity|]. pose proof (nth_some_lt _ _ _ Hj) as H. rewrite app_length in H. exact H.
  Qed.

  (* ---- (b) the whole step, on ANY partition of the source points into subnets ---- *)
  Theorem find_step_gs_complete gs :
    Permutation (concat gs) (raw_items m no_pred st ds) ->
    (N <= max_size)%nat ->
    exists st' labs added,
      find_step_gs m mem max_size no_pred rel gs st ds = Ok (st', labs, ds ++ added) /\
      Permutation (ds ++ added) B /\ length labs = length (ds ++ added) /\
      (forall j lb, nth_error labs j = Some lb ->
         exists a s, nth_error (live st) a = Some s /\ lb = s_lab s /\ nth_error (ds ++ added) j = Some (Tn a)) /\
      live st' = mk_srcs (now st) labs (ds ++ added) /\ now st' = S (now st).
  Proof.
    intros Hp Hmax.
    assert (Hfst : map fst (raw_items m no_pred st ds) = seq 0 N) by (unfold raw_items; apply mapi_from_fst).
    assert (Hseq : Permutation (map fst (concat gs)) (seq 0 N)) by (rewrite <- Hfst; apply Permutation_map; exact Hp).
    assert (Hlen_items : length (raw_items m no_pred st ds) = N).
    { transitivity (length (map fst (raw_items m no_pred st ds))); [symmetry; apply map_length|rewrite Hfst; apply seq_length]. }
    pose proof Hds as [Hdsn Hdsi].
    destruct (groups_run_c_complete gs (cacc0 ds) {| a_added := []; a_links := [] |}) as [c [a [Erun [_ [Hcpl [Hinv Hpl]]]]]].
    - unfold coupled, cacc0. cbn. rewrite Nat.add_0_r. auto.
    - split; [intros i c []|split; [intros x []|split; [cbn; rewrite app_nil_r; exact Hdsn|intros x []]]].
    - intros it Hin. apply raw_items_valid. eapply Permutation_in; [exact Hp|exact Hin].
    - cbn [a_links map app]. eapply Permutation_NoDup; [apply Permutation_sym; exact Hseq|apply seq_NoDup].
    - intros g Hg. apply Nat.le_trans with (2 := Hmax). rewrite <- Hlen_items, <- (Permutation_length Hp).
      clear - Hg. induction gs as [|g0 gs0 IH]; [destruct Hg|]. cbn [concat]. rewrite app_length.
      destruct Hg as [->|Hg]; [lia|specialize (IH Hg); lia].
    - pose proof (final_links_id c a Hcpl Hinv) as Hfin. destruct Hcpl as [C1 _]. destruct Hinv as [I1 [I2 [I3 I4]]].
      cbn [a_links map app] in Hpl.
      assert (Hall : Permutation (map fst (a_links a)) (seq 0 N)) by (eapply Permutation_trans; [exact Hpl|exact Hseq]).
      assert (HlN : forall i, In i (map fst (a_links a)) <-> (i < N)%nat).
      { intros i. split; intros H.
        - apply (Permutation_in _ Hall) in H. apply in_seq in H. lia.
        - apply (Permutation_in _ (Permutation_sym Hall)). apply in_seq. lia. }
      set (D := ds ++ a_added a) in *.
      assert (HDB : incl D B) by (intros x Hx; apply in_app_or in Hx; destruct Hx; auto).
      assert (Hlink : forall i, (i < N)%nat -> exists j cc, In (i, (Some j, cc)) (a_links a) /\ nth_error D j = Some (Tn i)).
      { intros i Hi. apply HlN in Hi. apply in_map_iff in Hi. destruct Hi as [[i' c0] [E Hin]]. cbn in E. subst i'.
        destruct (I1 i c0 Hin) as [j [cc [-> Hj]]]. exists j, cc. split; assumption. }
      assert (HBD : incl B D).
      { intros q Hq. destruct (R4 q Hq) as [i [Hi <-]]. destruct (Hlink i Hi) as [j [cc [_ Hj]]]. eapply nth_error_In. exact Hj. }
      exists (fst (apply_links mem st D (a_links a))), (snd (apply_links mem st D (a_links a))), (a_added a).
      split; [|split].
      + unfold find_step_gs. rewrite Erun. cbv zeta. rewrite Hfin, C1. fold D. destruct (apply_links mem st D (a_links a)). reflexivity.
      + apply NoDup_Permutation; [exact I3|exact HB|]. intros x. split; [apply HDB|apply HBD].
      + unfold apply_links. destruct (assign_labels st (a_links a) (length D) 0 (next_id st)) as [ls f] eqn:Ea.
        cbn [fst snd live now].
        destruct (assign_labels_spec _ _ _ _ _ _ _ Ea) as [HL [_ Hn]].
        assert (Hun : forall k, unlinked_b (a_links a) k = false).
        { intros k. destruct (unlinked_b (a_links a) k) eqn:E; [|reflexivity]. apply unlinked_in in E. destruct E as [c0 Hin].
          destruct (I1 _ _ Hin) as [j [cc [E _]]]. discriminate. }
        rewrite (remembered_none mem (now st) (a_links a) (live st) 0 Hun), app_nil_r.
        split; [exact HL|split; [|split; reflexivity]].
        intros j lb Hj. pose proof (nth_some_lt _ _ _ Hj) as Hjl. rewrite HL in Hjl.
        destruct (nth_error D j) as [q|] eqn:Eq; [|apply nth_error_None in Eq; lia].
        destruct (R4 q (HDB q (nth_error_In _ _ Eq))) as [i [Hi Eti]].
        destruct (Hlink i Hi) as [j' [cc [Hin Hj']]].
        assert (j' = j).
        { rewrite NoDup_nth_error in I3. apply I3; [eapply nth_some_lt; exact Hj'|]. rewrite Hj', Eti. symmetry. exact Eq. }
        subst j'. destruct (Hn j lb Hj) as [[_ Hs]|[i' [Hs Hy]]]; cbn [Nat.add] in Hs.
        * exfalso. exact (source_of_none _ _ _ _ Hs Hin).
        * destruct (source_of_in _ _ _ Hs) as [c' Hin']. destruct (I1 _ _ Hin') as [j2 [cc2 [E2 Hj2]]]. inversion E2; subst j2 cc2.
          assert (Hi' : (i' < N)%nat) by (apply HlN; change i' with (fst (i', (Some j, c'))); apply in_map; exact Hin').
          destruct (nth_error (live st) i') as [s|] eqn:Es; [|apply nth_error_None in Es; lia].
          exists i', s. split; [exact Es|split; [rewrite Hy; apply lab_of_nth; exact Es|exact Hj2]].
  Qed.

  (* (a) on the subnets of the first model the model of the code IS the first model: every relocated point is
     claimed, nothing is dropped, the links need no renumbering *)
  Theorem find_step_gs_is_find_step :
    (N <= max_size)%nat ->
    find_step_gs m mem max_size no_pred rel (find_groups m no_pred st ds) st ds = find_step m mem max_size no_pred rel st ds.
  Proof.
    intros Hmax. pose proof (find_groups_perm m no_pred st ds) as Hp.
    set (gs := find_groups m no_pred st ds) in *.
    assert (Hfst : map fst (items_of m no_pred st ds) = seq 0 N) by (unfold items_of; apply mapi_from_fst).
    assert (Hseq : Permutation (map fst (concat gs)) (seq 0 N)) by (rewrite <- Hfst; apply Permutation_map; exact Hp).
    assert (Hlen_items : length (items_of m no_pred st ds) = N).
    { transitivity (length (map fst (items_of m no_pred st ds))); [symmetry; apply map_length|rewrite Hfst; apply seq_length]. }
    pose proof Hds as [Hdsn Hdsi].
    destruct (groups_run_c_complete gs (cacc0 ds) {| a_added := []; a_links := [] |}) as [c [a [Erun [Grun [Hcpl [Hinv _]]]]]].
    - unfold coupled, cacc0. cbn. rewrite Nat.add_0_r. auto.
    - split; [intros i c []|split; [intros x []|split; [cbn; rewrite app_nil_r; exact Hdsn|intros x []]]].
    - intros it Hin. apply items_valid. eapply Permutation_in; [exact Hp|exact Hin].
    - cbn [a_links map app]. eapply Permutation_NoDup; [apply Permutation_sym; exact Hseq|apply seq_NoDup].
    - intros g Hg. apply Nat.le_trans with (2 := Hmax). rewrite <- Hlen_items, <- (Permutation_length Hp).
      clear - Hg. induction gs as [|g0 gs0 IH]; [destruct Hg|]. cbn [concat]. rewrite app_length.
      destruct Hg as [->|Hg]; [lia|specialize (IH Hg); lia].
    - unfold find_step_gs, find_step. fold gs. rewrite Erun, Grun. cbv zeta.
      rewrite (final_links_id c a Hcpl Hinv). destruct Hcpl as [-> _]. reflexivity.
  Qed.
End StepGs.

(* ============================================ Part C: frames, movies, detect-then-link *)
Section FrameGs.
  Variables (m : metric) (mem max_size : nat).

  (* the facts about one step that the hypotheses of C14_step_complete grant: the blob [Tn a] source number a
     has to be linked to *)
  Lemma tracks_facts rel st Bp B :
    tracks_inv Bp st -> moves m Bp B -> cross m Bp B -> finds m Bp B rel ->
    exists Tn : nat -> pt,
      (forall a, (a < length (live st))%nat -> In (Tn a) B /\ d2w (mw m) (src_pos no_pred st a) (Tn a) <= mR2 m) /\
      (forall a q, (a < length (live st))%nat -> In q B -> d2w (mw m) (src_pos no_pred st a) q <= mR2 m -> q = Tn a) /\
      (forall a a', (a < length (live st))%nat -> (a' < length (live st))%nat -> Tn a = Tn a' -> a = a') /\
      (forall q, In q B -> exists a, (a < length (live st))%nat /\ Tn a = q) /\
      (forall pos known,
         (forall p, In p pos -> exists a, (a < length (live st))%nat /\ p = src_pos no_pred st a) -> NoDup pos ->
         incl known B -> NoDup known -> unknown_in_range m B pos known <> [] ->
         Permutation (filter (in_range_any m pos) (rel pos known (length (unknown_in_range m B pos known))))
                     (unknown_in_range m B pos known)) /\
      (forall a s, nth_error (live st) a = Some s -> nth_error B (s_lab s) = Some (Tn a)).
  Proof.
    intros [HN [Hlab Hsrc]] [HL Hmv] Hc Hf.
    set (Tn := fun a => match nth_error (live st) a with Some s => nth (s_lab s) B [] | None => [] end).
    assert (Hfacts : forall a, (a < length (live st))%nat -> exists s q,
               nth_error (live st) a = Some s /\ nth_error Bp (s_lab s) = Some (s_pos s) /\
               nth_error B (s_lab s) = Some q /\ Tn a = q /\ src_pos no_pred st a = s_pos s).
    { intros a Ha. destruct (nth_error (live st) a) as [s|] eqn:Es; [|apply nth_error_None in Es; lia].
      pose proof (Hsrc s (nth_error_In _ _ Es)) as Hp. pose proof (nth_some_lt _ _ _ Hp) as Hl. rewrite <- HL in Hl.
      destruct (nth_error B (s_lab s)) as [q|] eqn:Eq; [|apply nth_error_None in Eq; lia].
      exists s, q. split; [reflexivity|split; [exact Hp|split; [exact Eq|split]]].
      - unfold Tn. rewrite Es. apply nth_error_nth. exact Eq.
      - unfold src_pos. rewrite Es. reflexivity. }
    exists Tn. split; [|split; [|split; [|split; [|split]]]].
    - intros a Ha. destruct (Hfacts a Ha) as [s [q [Es [Hp [Hq [-> ->]]]]]]. split; [eapply nth_error_In; exact Hq|].
      eapply Hmv; eassumption.
    - intros a q' Ha Hq' Hle. destruct (Hfacts a Ha) as [s [q [Es [Hp [Hq [-> Epos]]]]]]. rewrite Epos in Hle.
      destruct (In_nth_error _ _ Hq') as [j Hj]. destruct (Nat.eq_dec (s_lab s) j) as [E|E].
      + subst j. congruence.
      + pose proof (Hc _ _ _ _ Hp Hj E). lia.
    - intros a a' Ha Ha' E. destruct (Hfacts a Ha) as [s [q [Es [Hp [Hq [Et Epos]]]]]].
      destruct (Hfacts a' Ha') as [s' [q' [Es' [Hp' [Hq' [Et' Epos']]]]]].
      assert (Eqq : q = q') by congruence. rewrite <- Eqq in Hq'.
      destruct (Nat.eq_dec (s_lab s) (s_lab s')) as [El|El].
      + eapply (NoDup_map_nth s_lab); [exact Hlab|exact Es|exact Es'|exact El].
      + pose proof (Hc _ _ _ _ Hp Hq' El). pose proof (Hmv _ _ _ Hp Hq). lia.
    - intros q Hq. destruct (In_nth_error _ _ Hq) as [i Hi]. pose proof (nth_some_lt _ _ _ Hi) as Hil.
      assert (Hin : In i (map s_lab (live st))).
      { apply (NoDup_length_incl Hlab (l' := seq 0 (length Bp))).
        - rewrite map_length, seq_length. lia.
        - intros lb Hlb. apply in_map_iff in Hlb. destruct Hlb as [s [<- Hs]]. apply in_seq.
          pose proof (nth_some_lt _ _ _ (Hsrc s Hs)). lia.
        - apply in_seq. lia. }
      apply in_map_iff in Hin. destruct Hin as [s [El Hs]]. destruct (In_nth_error _ _ Hs) as [a Ha].
      exists a. split; [eapply nth_some_lt; exact Ha|]. unfold Tn. rewrite Ha, El. apply nth_error_nth. exact Hi.
    - intros pos known Hpos. apply Hf. intros p Hp. destruct (Hpos p Hp) as [a [Ha ->]].
      destruct (Hfacts a Ha) as [s [q [Es [Hp' [_ [_ ->]]]]]]. eapply nth_error_In. exact Hp'.
    - intros a s Es. destruct (Hfacts a (nth_some_lt _ _ _ Es)) as [s' [q [Es' [_ [Hq [Et _]]]]]].
      assert (s' = s) by congruence. subst s'. rewrite Hq, Et. reflexivity.
  Qed.

  (* (a), with the hypotheses of C14_step_complete: on the subnets of the first model (find_groups) the model of
     the code -- only the claimed relocated points enter the frame -- returns what the first model returns *)
  Theorem find_step_gs_coincides rel st Bp B ds :
    tracks_inv Bp st -> moves m Bp B -> cross m Bp B -> given B ds -> finds m Bp B rel ->
    (length Bp <= max_size)%nat ->
    find_step_gs m mem max_size no_pred rel (find_groups m no_pred st ds) st ds = find_step m mem max_size no_pred rel st ds.
  Proof.
    intros Hinv Hmv Hc Hg Hf Hmax. pose proof (blobs_nodup m Bp B Hmv Hc) as HB.
    destruct (tracks_facts rel st Bp B Hinv Hmv Hc Hf) as [Tn [R1 [R2 [R3 [R4 [Hrel _]]]]]].
    apply (find_step_gs_is_find_step m mem max_size rel st ds B Tn HB R1 R2 R3 Hg Hrel).
    destruct Hinv as [HN _]. lia.
  Qed.

  (* (b) = FindLink2.find_step_tracks (C14_step_complete), for the model of the code on ANY partition gs *)
  Theorem find_step_gs_tracks rel gs st Bp B ds :
    Permutation (concat gs) (raw_items m no_pred st ds) ->
    tracks_inv Bp st -> moves m Bp B -> cross m Bp B -> given B ds -> finds m Bp B rel ->
    (length Bp <= max_size)%nat ->
    exists st' labs added,
      find_step_gs m mem max_size no_pred rel gs st ds = Ok (st', labs, ds ++ added) /\
      length labs = length (ds ++ added) /\
      frame_complete B labs (ds ++ added) /\ tracks_inv B st'.
  Proof.
    intros Hgs Hinv Hmv Hc Hg Hf Hmax. pose proof (blobs_nodup m Bp B Hmv Hc) as HB.
    destruct (tracks_facts rel st Bp B Hinv Hmv Hc Hf) as [Tn [R1 [R2 [R3 [R4 [Hrel HTn]]]]]].
    destruct Hinv as [HN _].
    destruct (find_step_gs_complete m mem max_size rel st ds B Tn HB R1 R2 R3 Hg Hrel R4 gs Hgs) as
        [st' [labs [added [E [HP [HLl [Hpt [Hlive Hnow]]]]]]]]; [lia|].
    exists st', labs, added. split; [exact E|]. split; [exact HLl|].
    assert (Hpt' : forall j lb, nth_error labs j = Some lb -> nth_error (ds ++ added) j = nth_error B lb).
    { intros j lb Hj. destruct (Hpt j lb Hj) as [a [s [Es [-> Hd]]]]. rewrite Hd. symmetry. apply HTn. exact Es. }
    assert (HD : NoDup (ds ++ added)) by (eapply Permutation_NoDup; [apply Permutation_sym; exact HP|exact HB]).
    split; [apply frame_complete_intro; assumption|].
    unfold tracks_inv. rewrite Hlive. split; [|split].
    - rewrite mk_srcs_length by exact HLl. apply Permutation_length. exact HP.
    - rewrite mk_srcs_labs by exact HLl. apply NoDup_nth_intro. intros k1 k2 y Hne H1 H2.
      rewrite NoDup_nth_error in HD. apply Hne. apply HD.
      + rewrite <- HLl. eapply nth_some_lt. exact H1.
      + rewrite (Hpt' k1 y H1), (Hpt' k2 y H2). reflexivity.
    - intros s Hs. destruct (mk_srcs_inv _ _ _ _ Hs) as [j [H1 H2]]. rewrite <- (Hpt' j _ H1). exact H2.
  Qed.

  (* ---- whole movies, the grouping of every step any partition of the source points ---- *)
  Variable grp : grouping.
  Hypothesis Hgrp : forall st ds, Permutation (concat (grp st ds)) (raw_items m no_pred st ds).

  Theorem find_run_gs_complete : forall frames Bp st,
    tracks_inv Bp st -> movie_ok m Bp frames -> (length Bp <= max_size)%nat ->
    exists out, find_run_gs m mem max_size no_pred grp st (map linker_input frames) = Ok out /\ out_complete frames out.
  Proof.
    induction frames as [|[[B ds] rel] frames IH]; intros Bp st Hinv Hok Hmax.
    - exists []. split; [reflexivity|exact I].
    - destruct Hok as [Hmv [Hc [Hg [Hf Hok]]]].
      destruct (find_step_gs_tracks rel (grp st ds) st Bp B ds (Hgrp st ds) Hinv Hmv Hc Hg Hf Hmax) as [st' [labs [added [E [_ [Hfc Hinv']]]]]].
      destruct (IH B st' Hinv' Hok) as [out [Er Hout]]; [destruct Hmv as [HL _]; rewrite HL; exact Hmax|].
      exists ((labs, ds ++ added) :: out). cbn [map linker_input fst snd find_run_gs]. rewrite E, Er.
      split; [reflexivity|]. cbn [out_complete]. split; [exists added; reflexivity|split; assumption].
  Qed.

  Theorem find_link_gs_complete_prop B0 frames :
    movie_ok m B0 frames -> (length B0 <= max_size)%nat ->
    exists out, find_link_gs m mem max_size no_pred grp B0 (map linker_input frames)
                = Ok ((seq 0 (length B0), B0) :: out) /\ out_complete frames out.
  Proof.
    intros Hok Hmax. pose proof (init_tracks B0) as Hinv. unfold find_link_gs. unfold init_state in *. cbn [fst] in Hinv.
    destruct (find_run_gs_complete frames B0 _ Hinv Hok Hmax) as [out [E Hout]]. exists out. rewrite E. split; [reflexivity|exact Hout].
  Qed.

  (* = FindLink2.find_link_complete (C14_movie_complete) for the model of the code *)
  Theorem find_link_gs_complete B0 (frames : list bframe) :
    movie_hyp_b m B0 (map fst frames) = true -> oracles_find m B0 frames ->
    (length B0 <= max_size)%nat ->
    exists out, find_link_gs m mem max_size no_pred grp B0 (map linker_input frames)
                = Ok ((seq 0 (length B0), B0) :: out) /\ out_complete frames out.
  Proof.
    intros Hb Ho Hmax. apply find_link_gs_complete_prop; [|exact Hmax]. apply movie_hyp_sound; assumption.
  Qed.

  (* = FindLink2.find_link_equals_detect_then_link (C14_equals_detect_then_link) for the model of the code *)
  Theorem find_link_gs_equals_detect_then_link B0 (frames : list bframe) :
    movie_hyp_b m B0 (map fst frames) = true -> oracles_find m B0 frames ->
    (length B0 <= max_size)%nat ->
    exists out dl,
      find_link_gs m mem max_size no_pred grp B0 (map linker_input frames) = Ok out /\
      link_iter m mem max_size no_pred (B0 :: map (fun f : bframe => fst (fst f)) frames) = Ok dl /\
      same_tracks out dl (B0 :: map (fun f : bframe => fst (fst f)) frames).
  Proof.
    intros Hb Ho Hmax. pose proof (movie_hyp_sound m frames B0 Hb Ho) as Hok.
    destruct (find_link_gs_complete_prop B0 frames Hok Hmax) as [out [E Hout]].
    eexists. eexists. split; [exact E|]. split; [apply link_iter_tracks; [apply movie_blobs_ok; exact Hok|exact Hmax]|].
    cbn [map same_tracks]. split; [apply Permutation_refl|apply out_complete_same; exact Hout].
  Qed.
End FrameGs.
