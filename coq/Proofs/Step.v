(* One linking step of the model is the Crocker-Grier optimum over all sources
   (previous frame + remembered) and raises exactly when a subnet is oversize. *)
From Coq Require Import ZArith List Bool Lia Permutation.
From TP Require Import Model.Assign Model.Link Proofs.BnB Proofs.Opt Proofs.Cands Proofs.Comps.
Import ListNotations.
Open Scope Z_scope.

Definition strip (p : pair_t) : link_t := (fst (fst p), snd p).

Definition item_ok (it : item) : Prop :=
  sorted (snd it) /\ Forall (fun dc : cand => 0 <= snd dc) (snd it) /\ exists c, In (None, c) (snd it).

(* ---- sort_items ---- *)
Lemma insert_i_perm x l : Permutation (insert_i x l) (x :: l).
Proof.
  induction l as [|y l IH]; cbn [insert_i]; [apply Permutation_refl|].
  destruct (length (snd y) <? length (snd x))%nat; [|apply Permutation_refl].
  eapply Permutation_trans; [apply perm_skip; exact IH|apply perm_swap].
Qed.
Lemma sort_items_perm l : Permutation (sort_items l) l.
Proof.
  induction l as [|x l IH]; cbn; [constructor|].
  eapply Permutation_trans; [apply insert_i_perm|apply perm_skip; exact IH].
Qed.

Lemma combine_strip (s : list item) (a : list cand) :
  combine (map fst s) a = map strip (combine s a).
Proof. revert a; induction s as [|x s IH]; intros [|y a]; cbn; try reflexivity. f_equal. apply IH. Qed.

Lemma Forall_perm {A} (P : A -> Prop) l l' : Permutation l l' -> Forall P l -> Forall P l'.
Proof. intros HP HF. rewrite Forall_forall in *. intros x Hx. apply HF. eapply Permutation_in; [apply Permutation_sym; exact HP|exact Hx]. Qed.

Lemma items_ok_solver (s : list item) :
  Forall item_ok s ->
  nonneg (map snd s) /\ Forall sorted (map snd s) /\ Forall (fun cs => exists c, In (None, c) cs) (map snd s).
Proof.
  induction 1 as [|it s [H1 [H2 H3]] _ [IH1 [IH2 IH3]]]; cbn; [repeat split; constructor|].
  repeat split; constructor; assumption.
Qed.

Theorem solve_group_spec max_size g :
  Forall item_ok g ->
  (solve_group max_size g = Oversize <-> (max_size < length g)%nat) /\
  (forall l, solve_group max_size g = Ok l -> exists pairs, l = map strip pairs /\ is_opt g pairs).
Proof.
  intros Hok. unfold solve_group. destruct (max_size <? length g)%nat eqn:E.
  - apply Nat.ltb_lt in E. split; [tauto|]. intros l H; discriminate.
  - apply Nat.ltb_ge in E.
    assert (Hs : Forall item_ok (sort_items g)) by (eapply Forall_perm; [apply Permutation_sym, sort_items_perm|exact Hok]).
    destruct (items_ok_solver _ Hs) as [Hn [Hsrt Hnull]].
    destruct (solve_some _ Hn Hsrt Hnull) as [v [a Hsol]]. rewrite Hsol.
    split; [split; [discriminate|lia]|].
    intros l Hl. inversion Hl; subst l. exists (combine (sort_items g) a). split; [apply combine_strip|].
    destruct (solve_is_opt _ _ _ Hn Hsrt Hsol) as [Hopt _].
    eapply is_opt_perm; [apply sort_items_perm|exact Hopt].
Qed.

Theorem solve_groups_spec max_size gs :
  Forall (Forall item_ok) gs ->
  (solve_groups max_size gs = Oversize <-> exists g, In g gs /\ (max_size < length g)%nat) /\
  (forall l, solve_groups max_size gs = Ok l ->
     exists ls, l = map strip (concat ls) /\ Forall2 is_opt gs ls).
Proof.
  induction 1 as [|g gs Hg _ [IHo IHk]]; cbn.
  - split; [split; [discriminate|intros [g [[] _]]]|]. intros l H; inversion H; subst. exists []. split; [reflexivity|constructor].
  - destruct (solve_group_spec max_size g Hg) as [Ho Hk].
    destruct (solve_group max_size g) as [lg|] eqn:Eg.
    + assert (Hng : ~ (max_size < length g)%nat) by (intros Hlt; apply Ho in Hlt; discriminate).
      destruct (solve_groups max_size gs) as [lr|] eqn:Er.
      * split.
        -- split; [discriminate|]. intros [g' [[Hin|Hin] Hlt]]; [subst g'; contradiction|].
           assert (Oversize = @Oversize (list link_t)) by reflexivity.
           destruct IHo as [_ IHo2]. specialize (IHo2 (ex_intro _ g' (conj Hin Hlt))). discriminate.
        -- intros l Hl. inversion Hl; subst l.
           destruct (Hk lg eq_refl) as [pg [Hpg Hog]]. destruct (IHk lr eq_refl) as [ls [Hls Hos]].
           exists (pg :: ls). split; [cbn; rewrite map_app; congruence|constructor; assumption].
      * split; [|intros l Hl; discriminate]. split; [|reflexivity].
        intros _. destruct IHo as [IHo1 _]. destruct (IHo1 eq_refl) as [g' [Hin Hlt]]. exists g'. split; [right; exact Hin|exact Hlt].
    + split; [|intros l Hl; discriminate]. split; [|reflexivity]. intros _. exists g. split; [left; reflexivity|apply Ho; reflexivity].
Qed.

(* ---- items built from geometry are well-formed ---- *)
Lemma mapi_from_Forall {A B} (P : B -> Prop) (f : nat -> A -> B) l : forall i,
  (forall j x, P (f j x)) -> Forall P (mapi_from f i l).
Proof. induction l as [|x l IH]; intros i H; cbn; constructor; [apply H|apply IH; exact H]. Qed.

Lemma items_of_ok m pred st ds : metric_ok m -> Forall item_ok (items_of m pred st ds).
Proof.
  intros Hm. unfold items_of. apply mapi_from_Forall. intros j s. unfold item_ok. cbn.
  split; [apply cands_of_sorted|split; [apply cands_of_nonneg; exact Hm|exists (mR2 m); apply cands_of_null]].
Qed.

Lemma Forall_concat_inv {A} (P : A -> Prop) (ls : list (list A)) : Forall P (concat ls) -> Forall (Forall P) ls.
Proof. induction ls as [|l ls IH]; cbn; intros H; constructor; apply Forall_app in H; destruct H; [assumption|apply IH; assumption]. Qed.

(* The step: optimal over ALL sources at once, or Oversize exactly when some subnet
   (connected group of sources competing for destinations) has more than max_size sources. *)
Theorem step_links_spec m max_size pred st ds :
  metric_ok m ->
  let its := items_of m pred st ds in
  (step_links m max_size pred st ds = Oversize <->
     exists g, In g (components its) /\ (max_size < length g)%nat) /\
  (forall links, step_links m max_size pred st ds = Ok links ->
     exists pairs, links = map strip pairs /\ is_opt its pairs).
Proof.
  intros Hm its. unfold step_links. fold its.
  destruct (components_spec its) as [Hd Hp].
  assert (Hok : Forall (Forall item_ok) (components its)).
  { apply Forall_concat_inv. eapply Forall_perm; [apply Permutation_sym; exact Hp|apply items_of_ok; exact Hm]. }
  destruct (solve_groups_spec max_size _ Hok) as [Ho Hk]. split; [exact Ho|].
  intros links Hl. destruct (Hk links Hl) as [ls [Hls Hopt]].
  exists (concat ls). split; [exact Hls|].
  eapply is_opt_perm; [exact Hp|]. apply is_opt_concat; [apply pw_disj_all_disj; exact Hd|exact Hopt].
Qed.
