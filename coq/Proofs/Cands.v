(* Candidate lists built from geometry are sorted by cost, non-negative, end with
   the null link, and contain exactly the destinations within range. *)
From Coq Require Import ZArith List Bool Lia Permutation.
From TP Require Import Model.Assign Model.Link Proofs.BnB.
Import ListNotations.
Open Scope Z_scope.

Definition metric_ok (m : metric) : Prop := Forall (fun w => 0 <= w) (mw m) /\ 0 <= mR2 m.

Lemma d2w_nonneg w : Forall (fun x => 0 <= x) w -> forall p q, 0 <= d2w w p q.
Proof.
  induction 1 as [|wi w Hwi _ IH]; intros p q; cbn; [lia|].
  destruct p as [|pi p]; [lia|]. destruct q as [|qi q]; [lia|].
  specialize (IH p q). apply Z.add_nonneg_nonneg; [|exact IH].
  apply Z.mul_nonneg_nonneg; [exact Hwi|apply Z.square_nonneg].
Qed.

(* ---- insertion sort on candidates ---- *)
Lemma insert_c_perm x l : Permutation (insert_c x l) (x :: l).
Proof.
  induction l as [|y l IH]; cbn [insert_c]; [apply Permutation_refl|].
  destruct (snd y <? snd x); [|apply Permutation_refl].
  eapply Permutation_trans; [apply perm_skip; exact IH|apply perm_swap].
Qed.
Lemma sort_c_perm l : Permutation (sort_c l) l.
Proof.
  induction l as [|x l IH]; cbn; [constructor|].
  eapply Permutation_trans; [apply insert_c_perm|apply perm_skip; exact IH].
Qed.

Lemma sorted_inv dc l : sorted (dc :: l) -> Forall (fun x : cand => snd dc <= snd x) l /\ sorted l.
Proof. intros H; inversion H; subst; split; assumption. Qed.

Lemma insert_c_sorted x l : sorted l -> sorted (insert_c x l).
Proof.
  induction l as [|y l IH]; intros Hs; cbn [insert_c].
  - constructor; constructor.
  - apply sorted_inv in Hs. destruct Hs as [Hy Hs].
    destruct (snd y <? snd x) eqn:E.
    + apply Z.ltb_lt in E. constructor; [|apply IH; exact Hs].
      rewrite Forall_forall in *. intros z Hz.
      apply (Permutation_in _ (insert_c_perm x l)) in Hz. destruct Hz as [Hz|Hz]; [subst z; lia|apply Hy; exact Hz].
    + apply Z.ltb_ge in E. constructor; [|constructor; assumption].
      constructor; [lia|]. rewrite Forall_forall in *. intros z Hz. specialize (Hy z Hz). lia.
Qed.
Lemma sort_c_sorted l : sorted (sort_c l).
Proof. induction l as [|x l IH]; cbn; [constructor|apply insert_c_sorted; exact IH]. Qed.

Lemma sorted_app_last l x :
  sorted l -> Forall (fun y : cand => snd y <= snd x) l -> sorted (l ++ [x]).
Proof.
  induction l as [|y l IH]; intros Hs Hle; cbn; [constructor; constructor|].
  apply sorted_inv in Hs. destruct Hs as [Hy Hs]. inversion Hle; subst.
  constructor; [|apply IH; assumption].
  apply Forall_app. split; [exact Hy|constructor; [assumption|constructor]].
Qed.

(* ---- real candidates = destinations within range ---- *)
Lemma real_cands_spec m sp ds : forall j d c,
  In (d, c) (real_cands m sp ds j) <->
  exists k q, d = Some (j + k)%nat /\ nth_error ds k = Some q /\ c = d2w (mw m) sp q /\ c <= mR2 m.
Proof.
  induction ds as [|q0 ds IH]; intros j d c; cbn.
  - split; [tauto|]. intros [k [q [_ [H _]]]]. destruct k; discriminate.
  - destruct (d2w (mw m) sp q0 <=? mR2 m) eqn:E.
    + apply Z.leb_le in E. cbn. rewrite IH. split.
      * intros [H|[k [q [Hd [Hn [Hc Hr]]]]]].
        -- inversion H; subst. exists 0%nat, q0. rewrite Nat.add_0_r. auto.
        -- exists (S k), q. rewrite <- Nat.add_succ_comm. auto.
      * intros [k [q [Hd [Hn [Hc Hr]]]]]. destruct k as [|k]; cbn in Hn.
        -- inversion Hn; subst. left. rewrite Nat.add_0_r. reflexivity.
        -- right. exists k, q. rewrite Nat.add_succ_comm. auto.
    + apply Z.leb_gt in E. rewrite IH. split.
      * intros [k [q [Hd [Hn [Hc Hr]]]]]. exists (S k), q. rewrite <- Nat.add_succ_comm. auto.
      * intros [k [q [Hd [Hn [Hc Hr]]]]]. destruct k as [|k]; cbn in Hn.
        -- inversion Hn; subst. lia.
        -- exists k, q. rewrite Nat.add_succ_comm. auto.
Qed.

(* candidates of a source: exactly the destinations within range at their squared
   distance, plus the null link at cost [nullc] *)
Theorem cands_of_spec m nullc sp ds d c :
  In (d, c) (cands_of m nullc sp ds) <->
  (d = None /\ c = nullc) \/
  (exists k q, d = Some k /\ nth_error ds k = Some q /\ c = d2w (mw m) sp q /\ c <= mR2 m).
Proof.
  unfold cands_of. rewrite in_app_iff. split.
  - intros [H|[H|[]]].
    + right. apply (Permutation_in _ (sort_c_perm _)) in H. apply real_cands_spec in H.
      destruct H as [k [q H]]. exists k, q. exact H.
    + inversion H; subst. left; auto.
  - intros [[Hd Hc]|[k [q H]]].
    + subst. right. left. reflexivity.
    + left. apply (Permutation_in _ (Permutation_sym (sort_c_perm _))). apply real_cands_spec.
      exists k, q. exact H.
Qed.

Lemma cands_of_sorted m sp ds : sorted (cands_of m (mR2 m) sp ds).
Proof.
  unfold cands_of. apply sorted_app_last; [apply sort_c_sorted|].
  rewrite Forall_forall. intros [d c] H. apply (Permutation_in _ (sort_c_perm _)) in H.
  apply real_cands_spec in H. destruct H as [k [q [_ [_ [_ Hr]]]]]. exact Hr.
Qed.

Lemma cands_of_nonneg m sp ds : metric_ok m -> Forall (fun dc : cand => 0 <= snd dc) (cands_of m (mR2 m) sp ds).
Proof.
  intros [Hw HR]. rewrite Forall_forall. intros [d c] H. apply cands_of_spec in H. cbn.
  destruct H as [[_ Hc]|[k [q [_ [_ [Hc _]]]]]]; subst c; [exact HR|apply d2w_nonneg; exact Hw].
Qed.

Lemma cands_of_null m nullc sp ds : In (None, nullc) (cands_of m nullc sp ds).
Proof. apply cands_of_spec. left; auto. Qed.
