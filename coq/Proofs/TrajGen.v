(* C20, route T: the functions GENERATED from the current trackpy/filtering.py and
   trackpy/utils.py (Gen/filtering.v, by tools/py2coq_filtering.py) equal the
   hand-written models the C20 theorems are stated about -- for all inputs.

   The generated functions are polymorphic in the pandas interface (Model/PyFiltering.v);
   each section below instantiates it with one of the three models:
     SchemaI  py_filter_stubs / py_filter_clusters / py_filter = st_filter_* of Model/TrajLayout.v,
              py_pandas_sort = pandas_sort fixed (for BOTH values of inplace: the object passed in
              carries the renamed index either way), py_guess_pos_columns = ['y','x'] without 'z';
              then the stages of Model/TrajLayout.v rebuilt on the generated functions
              (g_run_producer, g_run_consumer, g_run_pipeline) equal run_producer / run_consumer /
              run_pipeline fixed, and compose / reachable_from_default are carried over;
     RowsI    py_filter_stubs / py_filter_clusters (threshold, NaN threshold, quantile) / py_filter
              = filter_stubs / filter_clusters / filter_clusters_q / gb_filter of Model/TrajFilter.v;
     BodyI    py_filter_* = d_filter, py_pandas_sort = sort_values (in place / returned) of
              Model/TrajData.v; the data-flow pipeline rebuilt on them (g_d_run) = d_run, and
              same_numbers is carried over. *)
From Coq Require Import ZArith QArith String List Bool Lia.
From TP Require Import Model.TrajFilter Model.TrajLayout Model.TrajData Model.PyFiltering Gen.filtering
                       Proofs.TrajFilter Proofs.TrajLayout Proofs.TrajData.
Import ListNotations.
Local Open Scope string_scope.

Lemma has_col_reidx c i s : has_col c {| idx := i; cols := cols s |} = has_col c s.
Proof. reflexivity. Qed.
Lemma to_of_outcome o : to_outcome (of_outcome o) = Some o.
Proof. now destruct o. Qed.

Ltac schema_step :=
  cbn [SchemaI p_getitem p_contains p_reset_index_drop p_groupby p_gb_filter p_set_index_keep p_count p_mean
       p_quantile DataFrame GroupBy Series rbind catch_KeyError bind to_outcome of_outcome getitems].

Theorem gen_filter_stubs_schema s thr :
  to_outcome (py_filter_stubs SchemaI s thr) = Some (st_filter_stubs fixed s).
Proof.
  unfold py_filter_stubs, st_filter_stubs, getitem. schema_step.
  destruct (has_col "frame" s) eqn:Hf; schema_step; [|reflexivity].
  destruct (has_col "particle" s) eqn:Hp; schema_step; [|reflexivity].
  unfold TrajLayout.reset_index_drop, label. schema_step. rewrite !has_col_reidx, Hp.
  change (has_level "particle" {| idx := [None]; cols := cols s |}) with false. schema_step.
  rewrite has_col_reidx, Hf. schema_step. apply to_of_outcome.
Qed.

Theorem gen_filter_clusters_schema s q thr :
  to_outcome (py_filter_clusters SchemaI s q thr) = Some (st_filter_clusters fixed s).
Proof.
  unfold py_filter_clusters, st_filter_clusters, getitem. schema_step.
  destruct (has_col "frame" s) eqn:Hf; schema_step; [|reflexivity].
  destruct (has_col "particle" s) eqn:Hp; schema_step; [|reflexivity].
  destruct (has_col "size" s) eqn:Hs; schema_step.
  - destruct thr as [t|]; schema_step; cbv zeta;
    unfold TrajLayout.reset_index_drop, label; schema_step; rewrite !has_col_reidx, Hp;
    change (has_level "particle" {| idx := [None]; cols := cols s |}) with false; schema_step;
    rewrite has_col_reidx, Hs; schema_step; apply to_of_outcome.
  - destruct thr as [t|]; schema_step; [|reflexivity].
    cbv zeta. unfold TrajLayout.reset_index_drop, label. schema_step. rewrite !has_col_reidx, Hp.
    change (has_level "particle" {| idx := [None]; cols := cols s |}) with false. schema_step.
    rewrite has_col_reidx, Hs. reflexivity.
Qed.

(* filter(tracks, condition_func): any condition that does not raise on the groups *)
Theorem gen_filter_schema s (f : schema -> res bool) :
  (forall i, exists b, f {| idx := i; cols := cols s |} = ROk b) ->
  to_outcome (py_filter SchemaI s f) =
  Some (TrajLayout.reset_index_drop s >>= label "particle" >>= TrajLayout.set_index ["frame"]).
Proof.
  intros H. unfold py_filter. schema_step. unfold TrajLayout.reset_index_drop. schema_step.
  destruct (label "particle" {| idx := [None]; cols := cols s |}) as [g| |] eqn:E; schema_step; try reflexivity.
  assert (g = {| idx := [None]; cols := cols s |}) as ->.
  { unfold label in E. destruct (has_col _ _), (has_level _ _); congruence. }
  destruct (H [None]) as (b & ->). schema_step. apply to_of_outcome.
Qed.

(* ---- pandas_sort ------------------------------------------------------------------- *)
Lemma rename_fun b o :
  match o with Some nm => if in_by nm b then Some (nm ++ "_index") else o | None => o end
  = option_map (rename b) o.
Proof. destruct o as [n|]; [|reflexivity]. unfold rename. cbn. now destruct (in_by n b). Qed.

Theorem gen_pandas_sort_schema s b inplace :
  py_pandas_sort SchemaI s b inplace =
  rbind (of_outcome (pandas_sort fixed b s)) (fun s' => ROk (s', if inplace then None else Some s')).
Proof.
  rewrite pandas_sort_fixed. unfold py_pandas_sort.
  cbn [SchemaI p_index_name p_index_nlevels p_index_names p_set_index_name p_set_index_names p_sort_values DataFrame].
  destruct s as [i c]. cbn [idx cols].
  assert (M : map (fun name_ => match name_ with Some nm => if in_by nm b then Some (nm ++ "_index") else name_ | None => name_ end) i
              = map (option_map (rename b)) i) by (apply map_ext; intros; apply rename_fun).
  destruct i as [|o [|o2 l]].
  - reflexivity.
  - destruct o as [n|]; cbn [length Z.of_nat map option_map].
    + unfold rename. destruct (in_by n b); reflexivity.
    + reflexivity.
  - assert (G : (Z.of_nat (length (o :: o2 :: l)) >? 1)%Z = true) by (apply Z.gtb_lt; cbn [length]; lia).
    rewrite G. cbn [idx cols]. rewrite M. reflexivity.
Qed.

Theorem gen_guess_pos_columns_schema s :
  py_guess_pos_columns SchemaI s = if has_col "z" s then "z" :: pos_columns else pos_columns.
Proof. unfold py_guess_pos_columns. cbn [SchemaI p_contains]. now destruct (has_col "z" s). Qed.

(* =====================================================================================
   the stages of Model/TrajLayout.v with every call of pandas_sort / guess_pos_columns /
   filter_stubs / filter_clusters replaced by the GENERATED function (SchemaI)
   ===================================================================================== *)
(* pandas_sort(f, by, inplace=True): the caller goes on with the object it passed in *)
Definition g_sort_inplace (b : by_t) (s : schema) : res schema :=
  rbind (py_pandas_sort SchemaI s b true) (fun r => ROk (fst r)).
(* f_sort = pandas_sort(<temporary>, by): the caller goes on with the returned table *)
Definition g_sort_returned (b : by_t) (s : schema) : res schema :=
  rbind (py_pandas_sort SchemaI s b false)
        (fun r => match snd r with Some t => ROk t | None => RRaise EUnmodelled end).

Lemma g_sort_inplace_eq b s : g_sort_inplace b s = of_outcome (pandas_sort fixed b s).
Proof. unfold g_sort_inplace. rewrite gen_pandas_sort_schema. now destruct (pandas_sort fixed b s). Qed.
Lemma g_sort_returned_eq b s : g_sort_returned b s = of_outcome (pandas_sort fixed b s).
Proof. unfold g_sort_returned. rewrite gen_pandas_sort_schema. now destruct (pandas_sort fixed b s). Qed.

Record filter_args := { a_stub_threshold : Z; a_quantile : Q; a_cluster_threshold : option float }.

Section GenStages.
  Variable a : filter_args.

  Definition g_link (s : schema) : res schema :=
    let pos := py_guess_pos_columns SchemaI s in
    rbind (of_outcome (getitems pos s)) (fun s1 =>
    rbind (of_outcome (getitem "frame" s1)) (fun s2 =>
    rbind (g_sort_inplace (ByStr "frame") s2) (fun s3 =>
    of_outcome (add_col "particle" s3)))).

  Definition g_compute_drift (s : schema) : res schema :=
    let pos := py_guess_pos_columns SchemaI s in
    rbind (of_outcome (select (pos ++ ["particle"; "frame"]) s)) (fun s1 =>
    rbind (of_outcome (TrajLayout.reset_index_drop s1)) (fun s2 =>
    rbind (g_sort_returned (ByList ["particle"; "frame"]) s2) (fun fs =>
    of_outcome (Ok {| idx := idx fs; cols := pos ++ ["particle"; "frame_diff"; "frame"] |}
                >>= select (pos ++ ["frame"]) >>= label "frame"
                >>= fun _ => Ok {| idx := [Some "frame"]; cols := pos |})))).

  Definition g_subtract_drift (s : schema) : res schema :=
    rbind (g_compute_drift s) (fun drift =>
    of_outcome ((if has_col "particle" s then TrajLayout.set_index ["frame"; "particle"] s
                 else TrajLayout.set_index ["frame"] s)
                >>= fun t => if has_level "frame" t then getitems (cols drift) t else Missing)).

  Definition g_cluster (s : schema) : res schema :=
    let pos := py_guess_pos_columns SchemaI s in
    of_outcome (getitem "frame" s >>= getitems pos >>= add_col "cluster" >>= add_col "cluster_size").

  Definition g_run_producer (p : producer) (s : schema) : res schema :=
    match p with
    | PLink | PLinkPartial => g_link s
    | PFilterStubs => py_filter_stubs SchemaI s (a_stub_threshold a)
    | PFilterClusters => py_filter_clusters SchemaI s (a_quantile a) (a_cluster_threshold a)
    | PSubtractDrift => g_subtract_drift s
    end.
  Definition g_run_consumer (c : consumer) (s : schema) : res schema :=
    match c with
    | CProd p => g_run_producer p s
    | CComputeDrift => g_compute_drift s
    | CCluster => g_cluster s
    | c => of_outcome (run_consumer fixed c s)
    end.
  Fixpoint g_run_pipeline (ps : list producer) (s : schema) : res schema :=
    match ps with
    | [] => ROk s
    | p :: ps' => rbind (g_run_producer p s) (g_run_pipeline ps')
    end.

  Lemma of_outcome_bind o f : of_outcome (o >>= f) = rbind (of_outcome o) (fun s => of_outcome (f s)).
  Proof. now destruct o. Qed.
  Lemma rbind_ext {A B} (x : res A) (k k' : A -> res B) : (forall v, k v = k' v) -> rbind x k = rbind x k'.
  Proof. intros H. destruct x; cbn; [apply H|reflexivity]. Qed.

  Lemma rbind_assoc {A B C} (x : res A) (f : A -> res B) (g : B -> res C) :
    rbind (rbind x f) g = rbind x (fun v => rbind (f v) g).
  Proof. now destruct x. Qed.

  (* 2-D tables (no column 'z'): guess_pos_columns gives the model's ['y', 'x'] *)
  Lemma g_link_eq s : has_col "z" s = false -> g_link s = of_outcome (st_link fixed s).
  Proof.
    intros Hz. unfold g_link, st_link. rewrite gen_guess_pos_columns_schema, Hz. cbv zeta.
    rewrite !of_outcome_bind, !rbind_assoc. repeat (apply rbind_ext; intros ?).
    now rewrite g_sort_inplace_eq.
  Qed.

  Lemma g_compute_drift_eq s : has_col "z" s = false -> g_compute_drift s = of_outcome (st_compute_drift fixed s).
  Proof.
    intros Hz. unfold g_compute_drift, st_compute_drift. cbn [drift_sorts_copy fixed].
    rewrite gen_guess_pos_columns_schema, Hz. cbv zeta. unfold drift_cols.
    rewrite !of_outcome_bind, !rbind_assoc. repeat (apply rbind_ext; intros ?).
    rewrite g_sort_returned_eq. apply rbind_ext. intros fs. rewrite !of_outcome_bind, !rbind_assoc. reflexivity.
  Qed.
End GenStages.

Section GenStages2.
  Variable a : filter_args.

  Lemma bind_ok o f d : o >>= f = Ok d -> exists s, o = Ok s /\ f s = Ok d.
  Proof. destruct o; cbn; intros H; [eauto|discriminate..]. Qed.
  Lemma bind_const_ok o r d : (o >>= fun _ => Ok r) = Ok d -> d = r.
  Proof. destruct o; cbn; congruence. Qed.

  Lemma compute_drift_cols s d : st_compute_drift fixed s = Ok d -> cols d = pos_columns.
  Proof.
    unfold st_compute_drift. intros H.
    apply bind_ok in H as (fs & _ & H). apply bind_const_ok in H. now subst.
  Qed.

  Lemma g_subtract_drift_eq s : has_col "z" s = false -> g_subtract_drift s = of_outcome (st_subtract_drift fixed s).
  Proof.
    intros Hz. unfold g_subtract_drift, st_subtract_drift. rewrite g_compute_drift_eq by exact Hz.
    destruct (st_compute_drift fixed s) as [d| |] eqn:E; cbn [of_outcome rbind bind]; try reflexivity.
    now rewrite (compute_drift_cols _ _ E).
  Qed.

  Lemma g_cluster_eq s : has_col "z" s = false -> g_cluster s = of_outcome (st_cluster fixed s).
  Proof.
    intros Hz. unfold g_cluster, st_cluster. cbn [cluster_by_values fixed].
    now rewrite gen_guess_pos_columns_schema, Hz.
  Qed.

  (* every producer / consumer built on the generated functions IS the model's *)
  Theorem g_run_producer_eq p s : has_col "z" s = false ->
    to_outcome (g_run_producer a p s) = Some (run_producer fixed p s).
  Proof.
    intros Hz. destruct p; cbn [g_run_producer run_producer].
    - rewrite g_link_eq by exact Hz. apply to_of_outcome.
    - rewrite g_link_eq by exact Hz. apply to_of_outcome.
    - apply gen_filter_stubs_schema.
    - apply gen_filter_clusters_schema.
    - rewrite g_subtract_drift_eq by exact Hz. apply to_of_outcome.
  Qed.

  Theorem g_run_consumer_eq c s : has_col "z" s = false ->
    to_outcome (g_run_consumer a c s) = Some (run_consumer fixed c s).
  Proof.
    intros Hz. destruct c as [p| | | | | | |]; cbn [g_run_consumer run_consumer]; try apply to_of_outcome.
    - now apply g_run_producer_eq.
    - rewrite g_compute_drift_eq by exact Hz. apply to_of_outcome.
    - rewrite g_cluster_eq by exact Hz. apply to_of_outcome.
  Qed.

  Lemma to_outcome_ok r s : to_outcome r = Some (Ok s) -> r = ROk s.
  Proof. destruct r as [x|[]]; cbn; congruence. Qed.

  Lemma g_producer_accepts p s : traj_cols s -> has_col "z" s = false ->
    g_run_producer a p s = ROk {| idx := next_idx p (idx s); cols := cols s |}.
  Proof.
    intros H Hz. apply to_outcome_ok. rewrite g_run_producer_eq by exact Hz.
    now rewrite producer_accepts.
  Qed.

  Theorem g_pipeline_runs ps : forall s, traj_cols s -> has_col "z" s = false ->
    g_run_pipeline a ps s = ROk {| idx := pipeline_idx ps (idx s); cols := cols s |}.
  Proof.
    induction ps as [|p ps IH]; intros s H Hz; cbn [g_run_pipeline pipeline_idx].
    - now destruct s.
    - rewrite g_producer_accepts by assumption. cbn [rbind].
      rewrite IH by assumption. reflexivity.
  Qed.

  (* C20_compose for the pipelines built on the generated functions *)
  Theorem g_compose ps s : traj_cols s -> has_col "z" s = false ->
    exists s', g_run_pipeline a ps s = ROk s' /\ traj_cols s' /\ cols s' = cols s /\
               forall c, exists r, g_run_consumer a c s' = ROk r.
  Proof.
    intros H Hz. eexists. split; [now apply g_pipeline_runs|]. split; [exact H|]. split; [reflexivity|].
    intros c. destruct (consumer_accepts c {| idx := pipeline_idx ps (idx s); cols := cols s |} H) as (r & Hr).
    exists r. apply to_outcome_ok. rewrite g_run_consumer_eq by exact Hz. now rewrite Hr.
  Qed.

  Theorem g_reachable_from_default ps s s' :
    traj_cols s -> has_col "z" s = false -> idx s = [None] -> g_run_pipeline a ps s = ROk s' ->
    In (idx s') reachable_layouts /\ cols s' = cols s.
  Proof.
    intros H Hz Hi R. rewrite g_pipeline_runs in R by assumption. injection R as <-. cbn [idx cols].
    split; [|reflexivity]. apply reachable. rewrite Hi. now left.
  Qed.

  (* and the generated pipeline agrees with the model's, stage by stage, on every trajectory table *)
  Theorem g_pipeline_eq ps s : traj_cols s -> has_col "z" s = false ->
    to_outcome (g_run_pipeline a ps s) = Some (run_pipeline fixed ps s).
  Proof. intros H Hz. now rewrite g_pipeline_runs, pipeline_runs. Qed.
End GenStages2.

(* =====================================================================================
   RowsI: the generated filters ARE Model/TrajFilter.v's
   ===================================================================================== *)
Lemma row_col_frame : row_col "frame" = Some (fun r => option_map inject_Z (frame r)).
Proof. reflexivity. Qed.
Lemma row_col_particle : row_col "particle" = Some (fun r => option_map inject_Z (pid r)).
Proof. reflexivity. Qed.
Lemma row_col_size : row_col "size" = Some size.
Proof. reflexivity. Qed.

Lemma somes_map {A B} (f : A -> option B) l : somes (map f l) = flat_map (fun x => opt_list (f x)) l.
Proof. unfold somes. induction l as [|x l IH]; cbn; [reflexivity|now rewrite IH]. Qed.

Lemma count_frame g :
  Z.of_nat (length (somes (map (fun r => option_map inject_Z (frame r)) g))) = Z.of_nat (length (filter has_frame g)).
Proof.
  f_equal. rewrite somes_map. induction g as [|r g IH]; cbn; [reflexivity|].
  unfold has_frame. destruct (frame r); cbn; now rewrite IH.
Qed.

Lemma somes_size g : somes (map size g) = sizes g.
Proof. apply somes_map. Qed.

Lemma first_error_ok {A} (f : A -> res bool) l : (forall x, exists b, f x = ROk b) -> first_error (map f l) = None.
Proof.
  intros H. induction l as [|x l IH]; cbn; [reflexivity|]. destruct (H x) as (b & ->). exact IH.
Qed.

Lemma gb_filter_ext f g rows : (forall x, f x = g x) -> gb_filter f rows = gb_filter g rows.
Proof.
  intros H. rewrite !gb_filter_exact. apply filter_ext. intros r. unfold group_passes.
  destruct (pid r); [apply H|reflexivity].
Qed.

Lemma rows_gb_filter_pure g (func : list row -> res bool) (f : list row -> bool) :
  (forall x, func x = ROk (f x)) -> rows_gb_filter g func = ROk (gb_filter f g).
Proof.
  intros H. unfold rows_gb_filter. rewrite first_error_ok by (intros x; rewrite H; eauto).
  f_equal. apply gb_filter_ext. intros x. now rewrite H.
Qed.

Ltac rows_step :=
  cbn [RowsI p_getitem p_contains p_reset_index_drop p_groupby p_gb_filter p_set_index_keep p_count p_mean
       p_quantile DataFrame GroupBy Series rbind catch_KeyError];
  rewrite ?row_col_frame, ?row_col_particle, ?row_col_size;
  change (String.eqb "particle" "particle") with true; cbn [rbind catch_KeyError].

Theorem gen_filter_stubs_rows rows thr : py_filter_stubs RowsI rows thr = ROk (filter_stubs rows thr).
Proof.
  unfold py_filter_stubs. rows_step.
  rewrite (rows_gb_filter_pure rows _ (stub_func thr)).
  - rows_step. reflexivity.
  - intros x. rows_step. f_equal. unfold stub_func. rewrite count_frame. apply Z.geb_leb.
Qed.

Lemma flt_lt_some m t : flt_lt m (Some t) = match m with Some x => Qltb x t | None => false end.
Proof. now destruct m. Qed.

Theorem gen_filter_clusters_rows_threshold rows q cut :
  py_filter_clusters RowsI rows q (Some (Some cut)) = ROk (filter_clusters rows cut).
Proof.
  unfold py_filter_clusters. rows_step. cbv zeta.
  rewrite (rows_gb_filter_pure rows _ (cluster_func cut)).
  - rows_step. reflexivity.
  - intros x. rows_step. f_equal. unfold cluster_func. now rewrite somes_size, flt_lt_some.
Qed.

Lemma filter_false {A} (f : A -> bool) l : (forall x, f x = false) -> filter f l = [].
Proof. intros H. induction l as [|x l IH]; cbn; [reflexivity|]. now rewrite H. Qed.

Lemma gb_filter_none rows : gb_filter (fun _ => false) rows = [].
Proof.
  rewrite gb_filter_exact. apply filter_false. intros r. unfold group_passes. now destruct (pid r).
Qed.

(* a NaN threshold keeps nothing *)
Theorem gen_filter_clusters_rows_nan rows q : py_filter_clusters RowsI rows q (Some None) = ROk [].
Proof.
  unfold py_filter_clusters. rows_step. cbv zeta.
  rewrite (rows_gb_filter_pure rows _ (fun _ => false)).
  - rows_step. now rewrite gb_filter_none.
  - intros x. rows_step. f_equal. unfold flt_lt, flt_cmp. now destruct (qmean _).
Qed.

(* threshold=None: the cut is the quantile of all sizes *)
Theorem gen_filter_clusters_rows_quantile rows q :
  py_filter_clusters RowsI rows q None = ROk (filter_clusters_q rows q).
Proof.
  unfold filter_clusters_q. rewrite <- somes_size.
  destruct (quantile (somes (map size rows)) q) as [t|] eqn:E.
  - rewrite <- (gen_filter_clusters_rows_threshold rows q t).
    unfold py_filter_clusters. rows_step. now rewrite E.
  - rewrite <- (gen_filter_clusters_rows_nan rows q).
    unfold py_filter_clusters. rows_step. now rewrite E.
Qed.

(* filter(tracks, condition_func) *)
Theorem gen_filter_rows rows (f : list row -> bool) :
  py_filter RowsI rows (fun g => ROk (f g)) = ROk (gb_filter f rows).
Proof.
  unfold py_filter. rows_step. rewrite (rows_gb_filter_pure rows _ f) by reflexivity. rows_step. reflexivity.
Qed.
(* a condition that raises: the first group (in key order) on which it raises decides *)
Theorem gen_filter_rows_raises rows (func : list row -> res bool) e :
  first_error (map (fun k => func (group_rows k rows)) (group_keys rows)) = Some e ->
  py_filter RowsI rows func = RRaise e.
Proof. intros H. unfold py_filter. rows_step. unfold rows_gb_filter. now rewrite H. Qed.

Theorem gen_aliases : py_bust_ghosts = py_filter_stubs /\ py_bust_clusters = py_filter_clusters.
Proof. split; reflexivity. Qed.

(* =====================================================================================
   BodyI: the generated filters / pandas_sort ARE Model/TrajData.v's
   ===================================================================================== *)
Lemma isort_ext {A} (f g : A -> A -> bool) l : (forall x y, f x y = g x y) -> isort f l = isort g l.
Proof.
  intros H. unfold isort. induction l as [|x l IH]; cbn; [reflexivity|]. rewrite IH.
  generalize (fold_right (insert g) [] l) as m. induction m as [|y m IHm]; cbn; [reflexivity|].
  rewrite H. destruct (g x y); [reflexivity|now rewrite IHm].
Qed.

Section BodyGen.
  Variable R : Type.
  Variable fr part : R -> Z.
  Variable k_link k_link_partial : list R -> list R.
  Variable k_keep_stubs k_keep_clusters : list R -> R -> bool.
  Variable drift_t : Type.
  Variable k_drift : list R -> drift_t.
  Variable k_sub : drift_t -> Z -> R -> R.

  Notation BI := (BodyI R fr part).

  Ltac body_step :=
    cbn [BodyI p_getitem p_contains p_reset_index_drop p_groupby p_gb_filter p_set_index_keep p_count p_mean
         p_quantile p_index_name p_index_nlevels p_index_names p_set_index_name p_set_index_names p_sort_values
         DataFrame GroupBy Series rbind catch_KeyError];
    change (String.eqb "particle" "particle") with true;
    change (body_col R fr part "frame") with (Some fr);
    cbn [rbind catch_KeyError].

  Theorem gen_filter_stubs_body keep (b : body R) thr :
    py_filter_stubs (BI keep) b thr = ROk (d_filter R fr keep b).
  Proof. unfold py_filter_stubs. body_step. reflexivity. Qed.

  Theorem gen_filter_clusters_body keep (b : body R) q thr :
    py_filter_clusters (BI keep) b q thr = ROk (d_filter R fr keep b).
  Proof. unfold py_filter_clusters. body_step. destruct thr; body_step; reflexivity. Qed.

  Lemma by_frame_leb_of r1 r2 : leb_of R [fr] r1 r2 = by_frame R fr r1 r2.
  Proof.
    unfold leb_of, by_frame. cbn [map lex_leb].
    destruct (Z.ltb_spec (fr r1) (fr r2)), (Z.eqb_spec (fr r1) (fr r2)), (Z.leb_spec (fr r1) (fr r2)); cbn; try reflexivity; lia.
  Qed.

  (* pandas_sort(f, 'frame', inplace=True): the caller's table is sorted (stable), nothing is returned *)
  Theorem gen_pandas_sort_body_inplace keep (b : body R) :
    py_pandas_sort (BI keep) b (ByStr "frame") true = ROk (sort_values R (by_frame R fr) b, None).
  Proof.
    unfold py_pandas_sort. body_step. cbn [by_keys body_cols]. change (body_col R fr part "frame") with (Some fr).
    cbv iota beta. do 2 f_equal. unfold sort_values. apply isort_ext. intros x y. apply by_frame_leb_of.
  Qed.

  (* pandas_sort(t, ['particle', 'frame']): t is left as it is, the sorted table is returned *)
  Theorem gen_pandas_sort_body_returned keep (b : body R) :
    py_pandas_sort (BI keep) b (ByList ["particle"; "frame"]) false
    = ROk (b, Some (sort_values R (by_particle_frame R fr part) b)).
  Proof. reflexivity. Qed.

  (* the data-flow stages of Model/TrajData.v built on the generated functions *)
  Definition res_get {A} (d : A) (r : res A) : A := match r with ROk v => v | RRaise _ => d end.

  Definition g_d_link (kl : list R -> list R) (b : body R) : body R :=
    (* f = f.copy(); pandas_sort(f, t_column, inplace=True); f['particle'] = ids *)
    let b1 := res_get b (rbind (py_pandas_sort (BI k_keep_stubs) b (ByStr "frame") true) (fun r => ROk (fst r))) in
    combine (map fst b1) (kl (map snd b1)).
  Definition g_d_compute_drift (b : body R) : drift_t :=
    (* f_sort = pandas_sort(traj[cols].reset_index(drop=True), ['particle', 'frame']) *)
    let t := TrajData.reset_index_drop R b in
    let f_sort := res_get t (rbind (py_pandas_sort (BI k_keep_stubs) t (ByList ["particle"; "frame"]) false)
                                   (fun r => match snd r with Some v => ROk v | None => RRaise EUnmodelled end)) in
    k_drift (map snd f_sort).
  Definition g_d_subtract_drift (b : body R) : body R :=
    let d := g_d_compute_drift b in
    let b2 := sort_index R (TrajData.set_index R [fr; part] b) in
    map (fun p => (fst p, k_sub d (nth 0 (fst p) 0%Z) (snd p))) b2.
  Definition g_d_run1 (a : filter_args) (st : dstage) (b : body R) : body R :=
    match st with
    | DLink => g_d_link k_link b
    | DLinkPartial => g_d_link k_link_partial b
    | DFilterStubs => res_get b (py_filter_stubs (BI k_keep_stubs) b (a_stub_threshold a))
    | DFilterClusters => res_get b (py_filter_clusters (BI k_keep_clusters) b (a_quantile a) (a_cluster_threshold a))
    | DSubtractDrift => g_d_subtract_drift b
    end.
  Fixpoint g_d_run (a : filter_args) (ps : list dstage) (b : body R) : body R :=
    match ps with [] => b | st :: ps' => g_d_run a ps' (g_d_run1 a st b) end.

  Notation d_run1 := (d_run1 R fr part k_link k_link_partial k_keep_stubs k_keep_clusters drift_t k_drift k_sub).
  Notation d_run := (d_run R fr part k_link k_link_partial k_keep_stubs k_keep_clusters drift_t k_drift k_sub).

  Lemma g_d_compute_drift_eq b : g_d_compute_drift b = d_compute_drift R fr part drift_t k_drift b.
  Proof. unfold g_d_compute_drift. now rewrite gen_pandas_sort_body_returned. Qed.

  Theorem g_d_run1_eq a st b : g_d_run1 a st b = d_run1 st b.
  Proof.
    destruct st; cbn [g_d_run1 TrajData.d_run1].
    - unfold g_d_link. now rewrite gen_pandas_sort_body_inplace.
    - unfold g_d_link. now rewrite gen_pandas_sort_body_inplace.
    - now rewrite gen_filter_stubs_body.
    - now rewrite gen_filter_clusters_body.
    - unfold g_d_subtract_drift. now rewrite g_d_compute_drift_eq.
  Qed.

  Theorem g_d_run_eq a ps : forall b, g_d_run a ps b = d_run ps b.
  Proof. induction ps as [|st ps IH]; intros b; cbn; [reflexivity|]. now rewrite g_d_run1_eq, IH. Qed.

  (* C20_same_numbers for the pipelines built on the generated functions *)
  Theorem g_same_numbers a ps (b : body R) :
    map snd (g_d_run a ps b) = map snd (g_d_run a ps (default_indexed R b)) /\
    g_d_compute_drift (g_d_run a ps b) = g_d_compute_drift (g_d_run a ps (default_indexed R b)).
  Proof. rewrite !g_d_run_eq, !g_d_compute_drift_eq. apply same_numbers. Qed.
End BodyGen.

(* =====================================================================================
   the headline statements of Properties/C20.v, about the generated functions
   ===================================================================================== *)
Theorem gen_stubs_exact rows threshold :
  py_filter_stubs RowsI rows threshold =
  ROk (filter (fun r => match pid r with
                        | Some p => (threshold <=? observations p rows)%Z
                        | None => false
                        end) rows).
Proof. rewrite gen_filter_stubs_rows. f_equal. apply filter_stubs_exact. Qed.

Theorem gen_clusters_exact rows q cut :
  py_filter_clusters RowsI rows q (Some (Some cut)) =
  ROk (filter (fun r => match pid r with
                        | Some p => match qmean (traj_sizes p rows) with
                                    | Some m => Qltb m cut
                                    | None => false
                                    end
                        | None => false
                        end) rows).
Proof. rewrite gen_filter_clusters_rows_threshold. f_equal. apply filter_clusters_exact. Qed.

Theorem gen_filters_equal_model :
  (forall rows thr, py_filter_stubs RowsI rows thr = ROk (filter_stubs rows thr)) /\
  (forall rows q cut, py_filter_clusters RowsI rows q (Some (Some cut)) = ROk (filter_clusters rows cut)) /\
  (forall rows q, py_filter_clusters RowsI rows q None = ROk (filter_clusters_q rows q)) /\
  (forall rows q, py_filter_clusters RowsI rows q (Some None) = ROk []) /\
  (forall rows f, py_filter RowsI rows (fun g => ROk (f g)) = ROk (gb_filter f rows)) /\
  py_bust_ghosts = py_filter_stubs /\ py_bust_clusters = py_filter_clusters.
Proof.
  split; [|split; [|split; [|split; [|split; [|split]]]]].
  - exact gen_filter_stubs_rows.
  - exact gen_filter_clusters_rows_threshold.
  - exact gen_filter_clusters_rows_quantile.
  - exact gen_filter_clusters_rows_nan.
  - exact gen_filter_rows.
  - reflexivity.
  - reflexivity.
Qed.

Theorem gen_layout_equal_model :
  (forall s thr, to_outcome (py_filter_stubs SchemaI s thr) = Some (st_filter_stubs fixed s)) /\
  (forall s q thr, to_outcome (py_filter_clusters SchemaI s q thr) = Some (st_filter_clusters fixed s)) /\
  (forall s b inplace,
     py_pandas_sort SchemaI s b inplace =
     rbind (of_outcome (pandas_sort fixed b s)) (fun s' => ROk (s', if inplace then None else Some s'))) /\
  (forall s, py_guess_pos_columns SchemaI s = if has_col "z" s then "z" :: pos_columns else pos_columns).
Proof.
  split; [|split; [|split]].
  - exact gen_filter_stubs_schema.
  - exact gen_filter_clusters_schema.
  - exact gen_pandas_sort_schema.
  - exact gen_guess_pos_columns_schema.
Qed.

Theorem gen_stages_equal_model a s : has_col "z" s = false ->
  (forall p, to_outcome (g_run_producer a p s) = Some (run_producer fixed p s)) /\
  (forall c, to_outcome (g_run_consumer a c s) = Some (run_consumer fixed c s)).
Proof. intros Hz. split; intros; [now apply g_run_producer_eq|now apply g_run_consumer_eq]. Qed.

Theorem gen_data_equal_model (R : Type) (fr part : R -> Z) (keep : list R -> R -> bool) (b : body R) :
  (forall thr, py_filter_stubs (BodyI R fr part keep) b thr = ROk (d_filter R fr keep b)) /\
  (forall q thr, py_filter_clusters (BodyI R fr part keep) b q thr = ROk (d_filter R fr keep b)) /\
  py_pandas_sort (BodyI R fr part keep) b (ByStr "frame") true = ROk (sort_values R (by_frame R fr) b, None) /\
  py_pandas_sort (BodyI R fr part keep) b (ByList ["particle"; "frame"]) false
    = ROk (b, Some (sort_values R (by_particle_frame R fr part) b)).
Proof.
  split; [|split; [|split]]; intros.
  - apply gen_filter_stubs_body.
  - apply gen_filter_clusters_body.
  - apply gen_pandas_sort_body_inplace.
  - apply gen_pandas_sort_body_returned.
Qed.
