(* C15, route T: the closures residual / jacobian generated into Gen/fitpack.v
   from FitFunctions.get_residual, read over R, are the hand-written assembly
   model of Model/Jacobian2.v; C15_gradient_exact carries over to them. *)
From Coq Require Import Reals List Arith Lia Bool FunctionalExtensionality.
From TP Require Import Gen.fitfun Model.Pack Model.Jacobian Model.Jacobian2 Model.PyFitpack Gen.fitpack
                       Proofs.Pack Proofs.Jacobian2 Proofs.FitpackGen.
Import ListNotations.
Open Scope R_scope.

(* the real numbers as the number type of the generated closures *)
Definition R_ops : num_ops R := mk_ops R 0 Rplus Rminus Rmult Rdiv IZR INR (fun _ => false).

Lemma foldM_pure : forall {S I : Type} (body : S -> I -> pres S) (f : S -> I -> S) l s,
  (forall s i, In i l -> body s i = POk (f s i)) -> foldM body l s = POk (fold_left f l s).
Proof.
  intros S I body f l. induction l as [|a l IH]; intros s H; simpl; [reflexivity|].
  rewrite H by (left; reflexivity). simpl. apply IH. intros; apply H; right; assumption.
Qed.

Lemma existsb_never : forall {T : Type} (l : list T), existsb (fun _ => false) l = false.
Proof. induction l; simpl; auto. Qed.

Lemma fold_left_plus : forall {T : Type} (f : T -> R) l r0, fold_left (fun r c => r + f c) l r0 = r0 + sumR (map f l).
Proof.
  intros T f l. induction l as [|a l IH]; intro r0; simpl; [ring|]. rewrite IH. unfold sumR. ring.
Qed.

Lemma nth_row_of : forall (P : list (list R)) i k, nth k (row_of P i) 0 = nth i (nth k P []) 0.
Proof.
  unfold row_of. induction P as [|c P IH]; intros i k; destruct k; simpl; auto; destruct i; reflexivity.
Qed.

Section Closures.
Context {X : Type}.
Variables (r2_fun : list R -> list R -> R) (dr2_fun : list R -> list R -> list R)
          (model_fun : R -> list R -> R -> R) (model_dfun : R -> list R -> R -> R * list R)
          (fp : list String.string) (ndim : R).
Let nfp := length fp.

(* the mask zip(indices, masks_cl) pairs with row i *)
Fixpoint mask_for (indices : list nat) (masks_cl : list (X -> bool)) (i : nat) : X -> bool :=
  match indices, masks_cl with
  | a :: idx, m :: ms => if Nat.eqb a i then m else mask_for idx ms i
  | _, _ => fun _ => false
  end.

(* what one feature subtracts from diff / its row of `derivs`, in the shape of Model/Jacobian2.v *)
Definition py_val (mesh : X -> list R) (mask : nat -> X -> bool) (i : nat) (x : X) (p : list R) : R :=
  if mask i x then nth 1 p 0 * model_fun (r2_fun (mesh x) p) (py_last p nfp) ndim else 0.
Definition py_row (mesh : X -> list R) (mask : nat -> X -> bool) (i : nat) (x : X) (p : list R) : list R :=
  if mask i x then derivs_row (nth 1 p 0) (model_dfun (r2_fun (mesh x) p) (py_last p nfp) ndim) (dr2_fun (mesh x) p) else [].

(* one element of zip(cl_groups, images, meshes, masks) as a cluster of the model *)
Definition cluster_of (it : list nat * image R X * (X -> list R) * list (X -> bool)) : cluster X :=
  let '(indices, image, mesh, masks_cl) := it in
  mkCluster indices (im_live image) (INR (im_len image)) (im_val image)
            (py_val mesh (mask_for indices masks_cl)) (py_row mesh (mask_for indices masks_cl)).

Definition item_ok (it : list nat * image R X * (X -> list R) * list (X -> bool)) : Prop :=
  let '(indices, image, mesh, masks_cl) := it in NoDup indices /\ length masks_cl = length indices.

(* sums over zip(indices, masks_cl) are sums over the rows *)
Lemma sum_combine_mask_for : forall (V : nat -> (X -> bool) -> R) indices masks_cl,
  NoDup indices -> length masks_cl = length indices ->
  sumR (map (fun im => V (fst im) (snd im)) (combine indices masks_cl))
  = sumR (map (fun i => V i (mask_for indices masks_cl i)) indices).
Proof.
  intros V indices. induction indices as [|a idx IH]; intros masks_cl ND HL; destruct masks_cl as [|m ms]; try discriminate; [reflexivity|].
  simpl. rewrite Nat.eqb_refl. inversion ND; subst. rewrite IH by (auto; simpl in HL; lia). f_equal.
  f_equal. apply map_ext_in. intros i Hi. destruct (Nat.eqb a i) eqn:E; [|reflexivity].
  apply Nat.eqb_eq in E. subst. contradiction.
Qed.

Lemma map_combine_mask_for : forall {T : Type} (V : nat -> (X -> bool) -> T) indices masks_cl,
  NoDup indices -> length masks_cl = length indices ->
  map (fun im => V (fst im) (snd im)) (combine indices masks_cl)
  = map (fun i => V i (mask_for indices masks_cl i)) indices.
Proof.
  intros T V indices. induction indices as [|a idx IH]; intros masks_cl ND HL; destruct masks_cl as [|m ms]; try discriminate; [reflexivity|].
  simpl. rewrite Nat.eqb_refl. inversion ND; subst. rewrite IH by (auto; simpl in HL; lia). f_equal.
  apply map_ext_in. intros i Hi. destruct (Nat.eqb a i) eqn:E; [|reflexivity].
  apply Nat.eqb_eq in E. subst. contradiction.
Qed.

Variables (P : list (list R)).

(* the inner loop of residual(): masked subtraction, feature after feature *)
Definition sub1 (mesh : X -> list R) (d : X -> R) (im : nat * (X -> bool)) : X -> R :=
  fun x => if snd im x then d x - nth 1 (row_of P (fst im)) 0
                              * model_fun (r2_fun (mesh x) (row_of P (fst im))) (py_last (row_of P (fst im)) nfp) ndim
           else d x.

Lemma fold_sub1 : forall mesh l d x,
  fold_left (sub1 mesh) l d x
  = d x - sumR (map (fun im : nat * (X -> bool) => if snd im x then nth 1 (row_of P (fst im)) 0
                                    * model_fun (r2_fun (mesh x) (row_of P (fst im))) (py_last (row_of P (fst im)) nfp) ndim
                               else 0) l).
Proof.
  intros mesh l. induction l as [|im l IH]; intros d x; simpl; [ring|].
  rewrite IH. unfold sub1. destruct (snd im x); unfold sumR; simpl; ring.
Qed.

Lemma diff_after : forall indices image mesh masks_cl x,
  NoDup indices -> length masks_cl = length indices ->
  fold_left (sub1 mesh) (combine indices masks_cl) (fun x => im_val image x - nth (hd 0%nat indices) (nth 0 P []) 0) x
  = diff_at indices (im_val image) (bg_of (cluster_of (indices, image, mesh, masks_cl)) P)
            (vals_of (cluster_of (indices, image, mesh, masks_cl)) P) x.
Proof.
  intros indices image mesh masks_cl x ND HL. rewrite fold_sub1. unfold diff_at, bg_of, vals_of. simpl cl_idx. simpl cl_val.
  f_equal.
  rewrite (sum_combine_mask_for (fun i m => if m x then nth 1 (row_of P i) 0
             * model_fun (r2_fun (mesh x) (row_of P i)) (py_last (row_of P i) nfp) ndim else 0) indices masks_cl ND HL).
  reflexivity.
Qed.

Lemma residual_loop2_pure : forall mesh n_ d im,
  get_residual_residual_loop2 R_ops r2_fun mesh P model_fun ndim nfp n_ d im = POk (sub1 mesh d im).
Proof.
  intros mesh n_ d [i m]. unfold get_residual_residual_loop2, sub1, parr_masked_sub, arr_item, arr_row. simpl.
  f_equal. apply functional_extensionality. intro x. rewrite nth_row_of. reflexivity.
Qed.

Lemma residual_loop1_spec : forall n_ res it, item_ok it ->
  get_residual_residual_loop1 R_ops P r2_fun model_fun ndim nfp n_ res it
  = POk (res + cluster_residual (cl_pix (cluster_of it)) (cl_idx (cluster_of it)) (cl_len (cluster_of it)) (cl_img (cluster_of it))
                                (bg_of (cluster_of it) P) (vals_of (cluster_of it) P)).
Proof.
  intros n_ res [[[indices image] mesh] masks_cl] [ND HL]. unfold get_residual_residual_loop1.
  rewrite (foldM_pure _ (sub1 mesh)) by (intros; apply residual_loop2_pure). cbn [bind].
  f_equal. cbn [n_add n_div n_of_nat n_mul R_ops]. f_equal. unfold cluster_residual, np_nansum. cbn [n_add n_zero R_ops cluster_of cl_pix cl_len cl_idx cl_img].
  f_equal. change (fold_right Rplus 0) with sumR. f_equal. apply map_ext. intro x.
  unfold arr_item. cbn [n_zero n_sub R_ops].
  rewrite (diff_after indices image mesh masks_cl x ND HL). simpl. ring.
Qed.

End Closures.

Section Main.
Context {X : Type}.
Variables (r2_fun : list R -> list R -> R) (dr2_fun : list R -> list R -> list R)
          (model_fun : R -> list R -> R -> R) (model_dfun : R -> list R -> R -> R * list R)
          (fp : list String.string) (ndim : R) (dr2_len dfun_len : nat).
Variables (images : list (image R X)) (meshes : list (X -> list R)) (masks : list (list (X -> bool)))
          (n : nat) (cols0 : list (list R)) (groups : groups_t) (norm : R) (modes : list nat).

(* zip(cl_groups, images, meshes, masks) and its reading as clusters of the model *)
Definition py_items := zip4 (cl_groups_of groups n) images meshes masks.
Definition py_clusters : list (cluster X) := map (cluster_of r2_fun dr2_fun model_fun model_dfun fp ndim) py_items.

Lemma cl_groups_eq : (if is_none groups then POk [np_arange n] else POk (groups_item groups 0)) = POk (cl_groups_of groups n).
Proof. destruct groups; reflexivity. Qed.

(* residual(vect), generated, is the model's residual whenever vect_to_params succeeds (else both fail) *)
Theorem gen_residual_eq : forall v,
  modes <> [] -> Forall item_ok py_items ->
  match unpack groups n modes v cols0 with
  | Some _ => get_residual_residual R_ops r2_fun dr2_fun model_fun model_dfun fp ndim modes dr2_len dfun_len
                                    images meshes masks n cols0 groups norm v
              = POk (residual py_clusters groups n modes cols0 norm v)
  | None => exists e, get_residual_residual R_ops r2_fun dr2_fun model_fun model_dfun fp ndim modes dr2_len dfun_len
                                            images meshes masks n cols0 groups norm v = PRaise e
  end.
Proof.
  intros v Hne Hok. unfold get_residual_residual. cbv beta zeta iota.
  rewrite cl_groups_eq. cbn [bind n_isnan R_ops]. rewrite existsb_never.
  pose proof (gen_vect_to_params_eq n cols0 modes groups v Hne) as HU. unfold residual.
  destruct (unpack groups n modes v cols0) as [[P rest]|]; destruct (vect_to_params v n cols0 modes groups) as [P'|e]; simpl in HU;
    try discriminate; [|eexists; reflexivity].
  injection HU as ->. cbn [bind].
  rewrite (foldM_pure _ (fun res it => res + cluster_residual (cl_pix (cluster_of r2_fun dr2_fun model_fun model_dfun fp ndim it))
                            (cl_idx (cluster_of r2_fun dr2_fun model_fun model_dfun fp ndim it))
                            (cl_len (cluster_of r2_fun dr2_fun model_fun model_dfun fp ndim it))
                            (cl_img (cluster_of r2_fun dr2_fun model_fun model_dfun fp ndim it))
                            (bg_of (cluster_of r2_fun dr2_fun model_fun model_dfun fp ndim it) P)
                            (vals_of (cluster_of r2_fun dr2_fun model_fun model_dfun fp ndim it) P))).
  2:{ intros s it Hin. apply residual_loop1_spec. rewrite Forall_forall in Hok. apply Hok. exact Hin. }
  cbn [bind]. f_equal. rewrite fold_left_plus. unfold residual_at, py_clusters. rewrite map_map.
  cbn [n_zero n_div R_ops]. rewrite Rplus_0_l. reflexivity.
Qed.

End Main.
