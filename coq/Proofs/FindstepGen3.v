(* C14, route T: generated FindLinker.__init__ = Model.FindLink.mk_params; generated find_link_iter = the frame
   loop over the generated next_level with the linker built by the generated __init__ from the driver's own
   arguments (search_range, separation, diameter, minmass, PERCENTILE, memory). *)
From Coq Require Import ZArith QArith List Bool Arith Lia Permutation.
From TP Require Import Model.Assign Model.Link Model.Dilation Model.FindLink Model.FindLink3 Model.PyFind Model.PyFindlink
     Model.PyFindstep Gen.findstep Proofs.Cands Proofs.Labels Proofs.Comps Proofs.FindLink Proofs.FindstepGen Proofs.FindstepGen2.
Import ListNotations.
Open Scope Z_scope.

(* ------------------------------------------------------------ __init__ *)
Theorem py_FindLinker_init_eq k sr sep diam mm perc kw :
  let d := match diam with Some d => d | None => sep end in
  let o := py_FindLinker_init k sr sep diam mm perc kw in
  params_of o = mk_params (t_n sr) k (t_v sr) (t_v sep) (t_v d / (2 * k)) mm false true /\
  i_percentile o = perc /\ i_threshold o = (None, None) /\ i_memory o = kw_memory kw /\ i_minmass o = mm.
Proof.
  cbv zeta. split; [|repeat split].
  unfold py_FindLinker_init, params_of, mk_params. cbn -[Z.mul Z.div Z.add Z.max box_size].
  unfold num_int, num_half_int, int_num, dilation_entry, tup_len.
  destruct diam as [d|]; cbn -[Z.mul Z.div Z.add Z.max box_size];
    match goal with |- context [(?a + ?r * k + 1 * k) / k] =>
      replace (a + r * k + 1 * k) with (a + (r + 1) * k) by ring end;
    rewrite Z.mul_1_l; reflexivity.
Qed.

(* ------------------------------------------------------------ find_link_iter *)
Section Driver.
  Variables (relocate_m : relocate_method) (ord : sdict -> list group).
  Variable grey_dilation_f : image -> tup -> Q -> tup -> list pt.
  Variable characterize_f : list pt -> image -> tup -> extra_t.

  (* what the linker is handed for one frame: detection at the user's separation / percentile / margin,
     the before_link hook, then the minmass cut on the detected features *)
  Definition detections (k : Z) (sep diam : tup) (perc mm : Q) (pf : image -> image)
             (bl : option (list pt -> rframe -> image -> list pt)) (fr : rframe) : list pt :=
    let radius := tup_map (fun d => num_half_int k d) diam in
    let c0 := grey_dilation_f (pf (r_image fr)) sep perc radius in
    let c1 := match bl with Some f => f c0 fr (pf (r_image fr)) | None => c0 end in
    mask_select (vec_ge_minmass (extra_mass (characterize_f c1 (r_image fr) radius)) mm) c1.

  (* the frame loop *)
  Fixpoint drive (dets : rframe -> list pt) (pf : image -> image) (linker : flk) (frames : list rframe)
    : result (list (list nat * list pt)) :=
    match frames with
    | [] => Ok []
    | fr :: rest =>
      match py_next_level relocate_m ord linker (dets fr) (r_no fr) (pf (r_image fr)) with
      | Oversize => Oversize
      | Ok linker' =>
        match drive dets pf linker' rest with
        | Oversize => Oversize
        | Ok out => Ok (flk_coords_df linker' :: out)
        end
      end
    end.

  Lemma drive_fold dets pf : forall frames linker yielded,
    match fold_result (fun (acc : flk * list (list nat * list pt)) fr => let '(linker, yielded) := acc in
            match py_next_level relocate_m ord linker (dets fr) (r_no fr) (pf (r_image fr)) with
            | Oversize => Oversize
            | Ok linker => Ok (linker, yielded ++ [flk_coords_df linker])
            end) frames (linker, yielded) with
    | Oversize => Oversize
    | Ok (_, y) => Ok y
    end
    = match drive dets pf linker frames with Oversize => Oversize | Ok out => Ok (yielded ++ out) end.
  Proof.
    induction frames as [|fr frames IH]; intros linker yielded; cbn [fold_result drive].
    - rewrite app_nil_r. reflexivity.
    - destruct (py_next_level _ _ _ _ _ _) as [l'|]; [|reflexivity].
      rewrite IH. destruct (drive dets pf l' frames); [rewrite <- app_assoc|]; reflexivity.
  Qed.

  Theorem py_find_link_iter_eq k max_size r0 rest sr sep diam perc mm pf bl kw :
    let ndim := py_len (np_shape (r_image r0)) in
    let sr' := validate_tup sr ndim in
    let sep' := validate_tup sep ndim in
    let d' := match diam with None => sep' | Some d => validate_tup d ndim end in
    let pf' := match pf with None => identity_proc | Some f => f end in
    let dets := detections k sep' d' perc mm pf' bl in
    let linker0 := flk_init_level (py_FindLinker_init k sr' sep' (Some d') mm perc kw) max_size (dets r0) (r_no r0) in
    py_find_link_iter relocate_m ord grey_dilation_f characterize_f k max_size (r0, rest) sr sep diam perc mm pf bl kw
    = if margins_cover (np_shape (r_image r0)) (tup_map (fun d => num_half_int k d) d') then None
      else Some (match drive dets pf' linker0 rest with
                 | Oversize => Oversize
                 | Ok out => Ok (flk_coords_df linker0 :: out)
                 end).
  Proof.
    cbv zeta. unfold py_find_link_iter. cbn [fst snd].
    destruct (margins_cover _ _); [reflexivity|]. f_equal.
    match goal with |- context [drive ?D ?P ?L rest] => pose proof (drive_fold D P rest L [flk_coords_df L]) as H end.
    exact H.
  Qed.
End Driver.
