(* C14, route T: COMPLETENESS for the GENERATED find_link step and driver (Gen/findstep.v).
   The subnets the generated code builds (gen_grouping: code_dict visited in any order that keeps the
   source points) are a partition of the source points (Proofs/FindstepGen4.v), the generated driver is
   find_link_gs on them (py_find_link_iter_model); Proofs/FindstepComplete.v proves completeness of
   find_link_gs for any such grouping. *)
From Coq Require Import ZArith NArith QArith List Bool Arith Lia Permutation.
From TP Require Import Model.Assign Model.Link Model.LinkCheck Model.Dilation Model.FindLink Model.FindLinkCheck
     Model.FindLink2 Model.FindLink3 Model.PyFind Model.PyFindlink Model.PyFindstep Gen.findlink Gen.findstep
     Proofs.Cands Proofs.Labels Proofs.Comps Proofs.FindLink Proofs.FindLink2 Proofs.FindlinkGen
     Proofs.FindstepGen Proofs.FindstepGen2 Proofs.FindstepGen3 Proofs.FindstepSafe Proofs.FindstepGen4
     Proofs.FindstepComplete.
Import ListNotations.
Open Scope Z_scope.

(* ---- the model of the code on the subnets the code builds (code_groups), and one generated step ---- *)
Theorem find_step_c_tracks m mem max_size rel st Bp B ds :
  tracks_inv Bp st -> moves m Bp B -> cross m Bp B -> given B ds -> finds m Bp B rel ->
  (length Bp <= max_size)%nat ->
  exists st' labs added,
    find_step_c m mem max_size no_pred rel st ds = Ok (st', labs, ds ++ added) /\
    length labs = length (ds ++ added) /\
    frame_complete B labs (ds ++ added) /\ tracks_inv B st'.
Proof. unfold find_step_c. apply find_step_gs_tracks. apply code_groups_partition. Qed.

(* the generated next_level (assign_links inside), any relocate method whose oracle finds the blobs *)
Theorem gen_step_complete relocate_m ord (self : flk) coords t im Bp B :
  ord_ok ord -> k_pred self = None ->
  let m := k_met self in
  let rel := relocate_m (params_of (k_init self)) im t (i_threshold (k_init self)) (i_percentile (k_init self)) in
  tracks_inv Bp (k_st self) -> moves m Bp B -> cross m Bp B -> given B coords -> finds m Bp B rel ->
  (length Bp <= k_max self)%nat ->
  exists self' added,
    py_next_level relocate_m ord self coords t im = Ok self' /\
    hash_points self' = coords ++ added /\
    length (k_labs self') = length (coords ++ added) /\
    frame_complete B (k_labs self') (coords ++ added) /\ tracks_inv B (k_st self').
Proof.
  intros Ho Hp m rel Hinv Hmv Hc Hg Hf Hmax.
  pose proof (py_next_level_gen relocate_m ord self coords t im Ho Hp) as H. cbv zeta in H. fold m rel in H.
  destruct (find_step_gs_tracks m (k_mem self) (k_max self) rel (gen_grouping ord m (k_st self) coords) (k_st self) Bp B coords
              (gen_grouping_partition ord m Ho (k_st self) coords) Hinv Hmv Hc Hg Hf Hmax) as [st' [labs [added [E [HL [Hfc Hinv']]]]]].
  rewrite E in H. destruct (py_next_level relocate_m ord self coords t im) as [self'|]; [|discriminate].
  cbn [map_result] in H. unfold flk_view in H. inversion H as [[E1 E2 E3]]. exists self', added.
  split; [reflexivity|]. rewrite E1, E2, E3. auto.
Qed.

(* ---- the generated driver ---- *)
(* a blob movie as the driver sees it: per later frame the true blobs and the reader's frame; the detections
   handed to the linker and the frame's oracle are those of the driver's own frame (frame_of) *)
Definition bframe_of (relocate_m : relocate_method) (init0 : flinit) (dets : rframe -> list pt) (pf : image -> image)
           (Bfr : list pt * rframe) : bframe :=
  (fst Bfr, fst (frame_of relocate_m init0 dets pf (snd Bfr)), snd (frame_of relocate_m init0 dets pf (snd Bfr))).

Lemma linker_input_bframes relocate_m init0 dets pf (movie : list (list pt * rframe)) :
  map linker_input (map (bframe_of relocate_m init0 dets pf) movie) = map (frame_of relocate_m init0 dets pf) (map snd movie).
Proof. rewrite !map_map. apply map_ext. intros [B fr]. reflexivity. Qed.

Lemma bframes_blobs relocate_m init0 dets pf (movie : list (list pt * rframe)) :
  map (fun f : bframe => fst (fst f)) (map (bframe_of relocate_m init0 dets pf) movie) = map fst movie.
Proof. rewrite map_map. apply map_ext. intros [B fr]. reflexivity. Qed.

Section DriverComplete.
  Variables (relocate_m : relocate_method) (ord : sdict -> list group).
  Hypothesis Ho : ord_ok ord.

  Theorem gen_driver_complete gd ch k max_size r0 (movie : list (list pt * rframe)) sr sep diam perc mm pf bl kw B0 :
    let ndim := py_len (np_shape (r_image r0)) in
    let sr' := validate_tup sr ndim in
    let sep' := validate_tup sep ndim in
    let d' := match diam with None => sep' | Some d => validate_tup d ndim end in
    let pf' := match pf with None => identity_proc | Some f => f end in
    let dets := detections gd ch k sep' d' perc mm pf' bl in
    let init0 := py_FindLinker_init k sr' sep' (Some d') mm perc kw in
    let m := fmet (params_of init0) in
    let frames := map (bframe_of relocate_m init0 dets pf') movie in
    margins_cover (np_shape (r_image r0)) (tup_map (fun d => num_half_int k d) d') = false ->
    dets r0 = B0 ->
    movie_hyp_b m B0 (map fst frames) = true -> oracles_find m B0 frames ->
    (length B0 <= max_size)%nat ->
    exists out,
      py_find_link_iter relocate_m ord gd ch k max_size (r0, map snd movie) sr sep diam perc mm pf bl kw
      = Some (Ok ((seq 0 (length B0), B0) :: out)) /\ out_complete frames out.
  Proof.
    intros ndim sr' sep' d' pf' dets init0 m frames Hmc H0 Hb Hf Hmax.
    rewrite (py_find_link_iter_model relocate_m ord gd ch k max_size r0 (map snd movie) sr sep diam perc mm pf bl kw Ho Hmc).
    fold ndim sr' sep' d' pf'. fold dets. fold init0. fold m. rewrite H0.
    rewrite <- (linker_input_bframes relocate_m init0 dets pf' movie). fold frames.
    destruct (find_link_gs_complete m (kw_memory kw) max_size (gen_grouping ord m) (gen_grouping_partition ord m Ho) B0 frames Hb Hf Hmax)
      as [out [E Hout]].
    exists out. rewrite E. split; [reflexivity|exact Hout].
  Qed.

  Theorem gen_driver_equals_detect_then_link gd ch k max_size r0 (movie : list (list pt * rframe)) sr sep diam perc mm pf bl kw B0 :
    let ndim := py_len (np_shape (r_image r0)) in
    let sr' := validate_tup sr ndim in
    let sep' := validate_tup sep ndim in
    let d' := match diam with None => sep' | Some d => validate_tup d ndim end in
    let pf' := match pf with None => identity_proc | Some f => f end in
    let dets := detections gd ch k sep' d' perc mm pf' bl in
    let init0 := py_FindLinker_init k sr' sep' (Some d') mm perc kw in
    let m := fmet (params_of init0) in
    let frames := map (bframe_of relocate_m init0 dets pf') movie in
    margins_cover (np_shape (r_image r0)) (tup_map (fun d => num_half_int k d) d') = false ->
    dets r0 = B0 ->
    movie_hyp_b m B0 (map fst frames) = true -> oracles_find m B0 frames ->
    (length B0 <= max_size)%nat ->
    exists out dl,
      py_find_link_iter relocate_m ord gd ch k max_size (r0, map snd movie) sr sep diam perc mm pf bl kw = Some (Ok out) /\
      link_iter m (kw_memory kw) max_size no_pred (B0 :: map fst movie) = Ok dl /\
      same_tracks out dl (B0 :: map fst movie).
  Proof.
    intros ndim sr' sep' d' pf' dets init0 m frames Hmc H0 Hb Hf Hmax.
    rewrite (py_find_link_iter_model relocate_m ord gd ch k max_size r0 (map snd movie) sr sep diam perc mm pf bl kw Ho Hmc).
    fold ndim sr' sep' d' pf'. fold dets. fold init0. fold m. rewrite H0.
    rewrite <- (linker_input_bframes relocate_m init0 dets pf' movie). fold frames.
    destruct (find_link_gs_equals_detect_then_link m (kw_memory kw) max_size (gen_grouping ord m) (gen_grouping_partition ord m Ho)
                B0 frames Hb Hf Hmax) as [out [dl [E [El Hs]]]].
    unfold frames in El, Hs. rewrite bframes_blobs in El, Hs.
    exists out, dl. rewrite E. split; [reflexivity|split; assumption].
  Qed.
End DriverComplete.

(* what a frame of the blob movie is for the generated relocate with the parameters the generated __init__ derives *)
Lemma bframe_of_gen npp k sr sep diam mm perc kw dets pf B fr :
  bframe_of (gen_reloc npp) (py_FindLinker_init k sr sep diam mm perc kw) dets pf (B, fr)
  = (B, dets fr,
     gen_reloc npp (params_of (py_FindLinker_init k sr sep diam mm perc kw)) (pf (r_image fr)) (r_no fr) (None, None) perc).
Proof. reflexivity. Qed.

(* ------------------------------------------------------------ non-vacuity *)
(* the movie of FindLink2.complete_image_example (three frames, two blobs; every detection of the second
   frame and one of the third withheld), through the GENERATED driver with the generated relocate *)
Definition exg_im0 : image := spots 40 40 [(32, 20, 100); (26, 27, 100)].
Definition exg_im1 : image := spots 40 40 [(33, 20, 100); (26, 28, 100)].
Definition exg_im2 : image := spots 40 40 [(34, 21, 100); (27, 28, 100)].
Definition exg_gd (im : image) (_ : tup) (_ : Q) (_ : tup) : list pt :=
  if pix im [32; 20] =? 100 then [[32; 20]; [26; 27]] else if pix im [27; 28] =? 100 then [[27; 28]] else [].
Definition exg_ch (c : list pt) (_ : image) (_ : tup) : list (option Z) := map (fun _ => Some 100) c.
Definition exg_npp : list Z -> Q -> Q := fun _ _ => Qmake 50 1.
Definition exg_movie : list (list pt * rframe) :=
  [([[33; 20]; [26; 28]], mk_rframe exg_im1 1); ([[34; 21]; [27; 28]], mk_rframe exg_im2 2)].
Definition exg_init : flinit := py_FindLinker_init 1 (mk_tup 5 2) (mk_tup 9 2) (Some (mk_tup 9 2)) 0 (Qmake 64 1) (mk_kw 0 false).
Definition exg_dets : rframe -> list pt :=
  detections exg_gd exg_ch 1 (mk_tup 9 2) (mk_tup 9 2) (Qmake 64 1) 0 identity_proc None.

(* the hypotheses of gen_driver_complete hold on it (the oracle hypothesis for the generated relocate is CHECKED by
   enumeration, finds_b) ... *)
Example gen_driver_complete_example_hyps :
  let frames := map (bframe_of (gen_reloc exg_npp) exg_init exg_dets identity_proc) exg_movie in
  margins_cover (np_shape exg_im0) (tup_map (fun d => num_half_int 1 d) (mk_tup 9 2)) = false /\
  exg_dets (mk_rframe exg_im0 0) = [[32; 20]; [26; 27]] /\
  movie_hyp_b (fmet (params_of exg_init)) [[32; 20]; [26; 27]] (map fst frames) = true /\
  oracles_find (fmet (params_of exg_init)) [[32; 20]; [26; 27]] frames /\ (2 <= 30)%nat.
Proof.
  cbv zeta. split; [vm_compute; reflexivity|]. split; [vm_compute; reflexivity|]. split; [vm_compute; reflexivity|]. split; [|lia].
  cbn [map exg_movie oracles_find bframe_of fst snd]. repeat split; apply finds_b_sound; vm_cast_no_check (@eq_refl bool true).
Qed.

(* ... and the generated driver, run inside Coq, returns what the theorem says: both blobs under their own labels
   in every frame *)
Example gen_driver_complete_example_run :
  py_find_link_iter (gen_reloc exg_npp) (map snd) exg_gd exg_ch 1 30
    (mk_rframe exg_im0 0, map snd exg_movie) (mk_tup 5 2) (mk_tup 9 2) None (Qmake 64 1) 0 None None (mk_kw 0 false)
  = Some (Ok [([0; 1]%nat, [[32; 20]; [26; 27]]); ([0; 1]%nat, [[33; 20]; [26; 28]]); ([1; 0]%nat, [[27; 28]; [34; 21]])]).
Proof. vm_compute. reflexivity. Qed.
