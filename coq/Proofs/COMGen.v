(* Route T for C07: the kernels GENERATED from the trackpy source (Gen/com_kernels.v) compute
   what the hand-written generic kernel model (Model/COM.v: k_loop / k_output / k_run) computes.
   Structure: general loop lemmas; per kernel, the mask loop(s) as folds, one iteration of the
   per-feature loop, the iteration loop (induction on the budget), the per-feature body, the
   outer loop over the features. *)
From Coq Require Import ZArith QArith Qabs List Bool Lia.
From TP Require Import Model.COM Proofs.COM Model.PyKernel Gen.com_kernels Model.COMGen.
Import ListNotations.
Open Scope Z_scope.

Lemma inj_plus : forall a b, (inject_Z a + inject_Z b)%Q = inject_Z (a + b).
Proof. intros. unfold Qplus, inject_Z. cbn [Qnum Qden]. rewrite !Z.mul_1_r. reflexivity. Qed.

Lemma qeqb_inj0 : forall m, Qeq_bool (inject_Z m) 0 = (m =? 0).
Proof. intros. unfold Qeq_bool, inject_Z. cbn [Qnum Qden]. rewrite Z.mul_1_r. destruct m; reflexivity. Qed.

Lemma qltb_inj : forall a b, qltb (inject_Z a) (inject_Z b) = (b >? a).
Proof.
  intros. unfold qltb, Qle_bool, inject_Z. cbn [Qnum Qden]. rewrite !Z.mul_1_r.
  rewrite Z.gtb_ltb, Z.ltb_antisym. reflexivity.
Qed.

Lemma for_range_from_list : forall (A St : Type) (d : A) (body : Z -> St -> St) (f : St -> A -> St) (l : list A) k s,
  (forall i s, (i < length l)%nat -> body (Z.of_nat (k + i)) s = f s (nth i l d)) ->
  for_range_from (length l) (Z.of_nat k) body s = fold_left f l s.
Proof.
  induction l as [|a l IH]; intros k s H; [reflexivity|].
  cbn [length for_range_from fold_left].
  pose proof (H 0%nat s) as H0. rewrite Nat.add_0_r in H0. cbn [nth length] in H0. rewrite H0 by lia.
  replace (Z.of_nat k + 1) with (Z.of_nat (S k)) by lia.
  apply IH. intros i s' Hi. replace (S k + i)%nat with (k + S i)%nat by lia. apply (H (S i)). cbn. lia.
Qed.

Lemma for_range_list : forall (A St : Type) (d : A) (body : Z -> St -> St) (f : St -> A -> St) (l : list A) s,
  (forall i s, (i < length l)%nat -> body (Z.of_nat i) s = f s (nth i l d)) ->
  for_range (Z.of_nat (length l)) body s = fold_left f l s.
Proof.
  intros. unfold for_range. rewrite Nat2Z.id. apply (for_range_from_list A St d body f l 0%nat). exact H.
Qed.


Lemma get1_col : forall d mpts i, get1 (col d mpts) (Z.of_nat i) = ix (nth i mpts []) d.
Proof.
  intros. unfold get1, col. destruct (Z.of_nat i <? 0) eqn:E; [apply Z.ltb_lt in E; lia|].
  rewrite Nat2Z.id. rewrite <- (map_nth (fun p => ix p d) mpts [] i). destruct d; reflexivity.
Qed.



(* outer loop: a body that never breaks and touches the results only through [step] *)
Lemma for_break_feats : forall (St : Type) (getr : St -> list (list cell)) (body : Z -> St -> res (bool * St)) step,
  (forall i s, match step i (getr s) with
               | DivZero => body i s = DivZero
               | Ok r' => exists s', body i s = Ok (false, s') /\ getr s' = r'
               end) ->
  forall n i s, match feats step n i (getr s) with
                | DivZero => for_break_from n i body s = DivZero
                | Ok r' => exists s', for_break_from n i body s = Ok s' /\ getr s' = r'
                end.
Proof.
  intros St getr body step H. induction n as [|n IH]; intros i s.
  - cbn. eexists. split; reflexivity.
  - cbn [feats for_break_from]. specialize (H i s). destruct (step i (getr s)) as [r'|].
    + destruct H as [s' [E G]]. rewrite E. subst r'. apply IH.
    + rewrite H. reflexivity.
Qed.

Lemma to_nat_succ : forall z, 1 <= z -> Z.to_nat z = S (pred (Z.to_nat z)).
Proof. intros. destruct (Z.to_nat z) eqn:E; [lia|reflexivity]. Qed.

Section K2D.
  Variable image : list (list Z).
  Variables rY rX sY sX : Z.
  Variable thresh : Q.
  Variable mpts : list (list Z).

  Lemma moments2D_fold : forall qY qX l px0 a b m, exists px',
    fold_left (fun (s : Z * Q * Q * Q) (p : list Z) =>
                 numba_refine_2D_loop3 image [ix p 0] [ix p 1] qY qX 0 s) l
              (px0, inject_Z a, inject_Z b, inject_Z m)
    = (px',
       inject_Z (fold_left (fun acc p => acc + k_px [rY; rX] (img2 image) [qY; qX] p * ix p 0) l a),
       inject_Z (fold_left (fun acc p => acc + k_px [rY; rX] (img2 image) [qY; qX] p * ix p 1) l b),
       inject_Z (fold_left (fun acc p => acc + k_px [rY; rX] (img2 image) [qY; qX] p) l m)).
  Proof.
    induction l as [|p l IH]; intros; [eexists; reflexivity|].
    cbn [fold_left]. unfold numba_refine_2D_loop3 at 2.
    change (get1 [ix p 0] 0) with (ix p 0). change (get1 [ix p 1] 0) with (ix p 1).
    rewrite !inj_plus.
    change (get2 image (qY + ix p 0) (qX + ix p 1)) with (k_px [rY; rX] (img2 image) [qY; qX] p).
    apply IH.
  Qed.

  Lemma inner2D : forall qY qX px0, exists px',
    for_range (Z.of_nat (length mpts)) (numba_refine_2D_loop3 image (col 0 mpts) (col 1 mpts) qY qX) (px0, 0%Q, 0%Q, 0%Q)
    = (px', inject_Z (k_mom (img2 image) [rY; rX] mpts [qY; qX] 0),
            inject_Z (k_mom (img2 image) [rY; rX] mpts [qY; qX] 1),
            inject_Z (k_mass (img2 image) [rY; rX] mpts [qY; qX])).
  Proof.
    intros.
    rewrite (for_range_list _ _ [] _ (fun s p => numba_refine_2D_loop3 image [ix p 0] [ix p 1] qY qX 0 s)).
    - apply (moments2D_fold qY qX mpts px0 0 0 0).
    - intros i [[[px a] b] m] Hi. unfold numba_refine_2D_loop3. rewrite !get1_col. reflexivity.
  Qed.

  Definition ubY := sY - rY - 1.
  Definition ubX := sX - rX - 1.

  (* one iteration of the model's loop, 2-D, written out *)
  Lemma k_loop_2D : forall n cY cX,
    k_loop (img2 image) [rY; rX] [sY; sX] thresh mpts n [cY; cX] =
    let sq := [cY - rY; cX - rX] in
    let m := k_mass (img2 image) [rY; rX] mpts sq in
    if m =? 0 then KDivZero else
    let offY := (qdiv (k_mom (img2 image) [rY; rX] mpts sq 0) m - inject_Z rY)%Q in
    let offX := (qdiv (k_mom (img2 image) [rY; rX] mpts sq 1) m - inject_Z rX)%Q in
    let st := mkK sq [(offY + inject_Z cY)%Q; (offX + inject_Z cX)%Q] m in
    if Qltb (Qabs offY) thresh && (Qltb (Qabs offX) thresh && true) then KOk st else
    let c' := [k_clip1 (k_shift1 thresh cY offY) rY (sY - 1 - rY); k_clip1 (k_shift1 thresh cX offX) rX (sX - 1 - rX)] in
    match n with O => KOk st | S n' => k_loop (img2 image) [rY; rX] [sY; sX] thresh mpts n' c' end.
  Proof. destruct n; reflexivity. Qed.

  Local Notation state2D := (Q * Q * Z * Z * Q * Z * Q * Q * Q * Q * Q * Z * Z)%type.
  Definition rel2D (st : state2D) (ks : kstate) : Prop :=
    let '(cm_nY, cm_nX, squareY, squareX, mass_, px, cm_iY, cm_iX, offY, offX, oc, coordY, coordX) := st in
    k_square ks = [squareY; squareX] /\ k_cmi ks = [cm_iY; cm_iX] /\ mass_ = inject_Z (k_m ks) /\ k_m ks <> 0 /\
    k_m ks = k_mass (img2 image) [rY; rX] mpts [squareY; squareX].

  Definition body2D := numba_refine_2D_loop2 image rY rX thresh (col 0 mpts) (col 1 mpts) (Z.of_nat (length mpts)) ubY ubX.

  Lemma body2D_eval : forall i a b c d e f g h j k l cY cX, exists px',
    body2D i (a, b, c, d, e, f, g, h, j, k, l, cY, cX) =
    let sq := [cY - rY; cX - rX] in
    let m := k_mass (img2 image) [rY; rX] mpts sq in
    if m =? 0 then DivZero else
    let cnY := qdiv (k_mom (img2 image) [rY; rX] mpts sq 0) m in
    let cnX := qdiv (k_mom (img2 image) [rY; rX] mpts sq 1) m in
    let offY := (cnY - inject_Z rY)%Q in
    let offX := (cnX - inject_Z rX)%Q in
    if Qltb (Qabs offY) thresh && (Qltb (Qabs offX) thresh && true)
    then Ok (true, (cnY, cnX, cY - rY, cX - rX, inject_Z m, px', (offY + inject_Z cY)%Q, (offX + inject_Z cX)%Q, offY, offX, l, cY, cX))
    else Ok (false, (cnY, cnX, cY - rY, cX - rX, inject_Z m, px', (offY + inject_Z cY)%Q, (offX + inject_Z cX)%Q, offY, offX, offX,
                     k_clip1 (k_shift1 thresh cY offY) rY (sY - 1 - rY), k_clip1 (k_shift1 thresh cX offX) rX (sX - 1 - rX))).
  Proof.
    intros. destruct (inner2D (cY - rY) (cX - rX) f) as [px' E]. exists px'.
    unfold body2D, numba_refine_2D_loop2. rewrite E. cbv zeta.
    rewrite !qeqb_inj0.
    destruct (k_mass (img2 image) [rY; rX] mpts [cY - rY; cX - rX] =? 0); [reflexivity|].
    rewrite andb_true_r.
    replace (sY - 1 - rY) with ubY by (unfold ubY; lia). replace (sX - 1 - rX) with ubX by (unfold ubX; lia).
    reflexivity.
  Qed.

  Lemma iter2D : forall n i a b c d e f g h j k l cY cX,
    match k_loop (img2 image) [rY; rX] [sY; sX] thresh mpts n [cY; cX] with
    | KDivZero => for_break_from (S n) i body2D (a, b, c, d, e, f, g, h, j, k, l, cY, cX) = DivZero
    | KOk ks => exists st', for_break_from (S n) i body2D (a, b, c, d, e, f, g, h, j, k, l, cY, cX) = Ok st' /\ rel2D st' ks
    end.
  Proof.
    induction n as [|n IH]; intros; rewrite k_loop_2D; cbn [for_break_from];
      destruct (body2D_eval i a b c d e f g h j k l cY cX) as [px' E]; rewrite E; clear E; cbv zeta;
      destruct (k_mass (img2 image) [rY; rX] mpts [cY - rY; cX - rX] =? 0) eqn:Em; try reflexivity;
      match goal with |- context [if ?c then KOk _ else _] => destruct c end;
      try (eexists; split; [reflexivity|]; cbn; repeat split; apply Z.eqb_neq; exact Em).
    apply IH.
  Qed.

  (* ---- _numba_refine_2D: per-feature body and the whole kernel ---- *)
  Variable coords : list (list Z).
  Variable maxit : Z.
  Hypothesis Hmaxit : 1 <= maxit.
  Variable rawpix : list Z -> Z.
  Variable r2 : list Z.
  Variable x2 : list (list Z).

  Definition start2D (feat : Z) : list Z := [get2 coords feat 0; get2 coords feat 1].
  Definition run2D (characterize : bool) : list Z -> kres output :=
    k_run (img2 image) rawpix [rY; rX] [sY; sX] thresh mpts r2 x2 (Z.to_nat maxit) characterize.

  Local Notation state2D_feat := (Z * Z * Q * Q * Z * Z * Q * Z * Q * Q * Q * Q * Q * list (list cell))%type.

  Lemma feat2D : forall feat (s : state2D_feat),
    match feat_step (run2D false) start2D cells_2D feat (snd s) with
    | DivZero => numba_refine_2D_loop1 image rY rX coords maxit thresh (col 0 mpts) (col 1 mpts) (Z.of_nat (length mpts)) 2 ubY ubX feat s = DivZero
    | Ok r' => exists s', numba_refine_2D_loop1 image rY rX coords maxit thresh (col 0 mpts) (col 1 mpts) (Z.of_nat (length mpts)) 2 ubY ubX feat s
                          = Ok (false, s') /\ snd s' = r'
    end.
  Proof.
    intros feat s.
    destruct s as [[[[[[[[[[[[[cY0 cX0] a] b] c] d] e] f] g] h] j] k] l] results].
    unfold feat_step, run2D, k_run, start2D, numba_refine_2D_loop1, for_break. cbn [snd].
    rewrite (to_nat_succ maxit Hmaxit). cbn [pred].
    pose proof (iter2D (pred (Z.to_nat maxit)) 0 a b c d e f g h j k l (get2 coords feat 0) (get2 coords feat 1)) as H.
    fold body2D.
    destruct (k_loop (img2 image) [rY; rX] [sY; sX] thresh mpts (pred (Z.to_nat maxit)) [get2 coords feat 0; get2 coords feat 1]) as [ks|].
    - destruct H as [st' [E R]]. rewrite E. cbn [bind].
      destruct st' as [[[[[[[[[[[[a' b'] c'] d'] e'] f'] g'] h'] j'] k'] l'] cY'] cX'].
      destruct R as [Rs [Rc [Rm _]]].
      eexists. split; [reflexivity|]. cbn [snd].
      unfold write_cells, cells_2D, k_output. cbn [negb fold_left fst snd o_pos o_mass].
      rewrite Rc, Rm. reflexivity.
    - rewrite H. reflexivity.
  Qed.

  Theorem generated_2D : forall N results,
    numba_refine_2D image rY rX coords N maxit thresh sY sX (col 0 mpts) (col 1 mpts) (Z.of_nat (length mpts)) results
    = feats (feat_step (run2D false) start2D cells_2D) (Z.to_nat N) 0 results.
  Proof.
    intros. unfold numba_refine_2D, for_break. fold ubY ubX.
    pose proof (for_break_feats state2D_feat snd _ _ feat2D (Z.to_nat N) 0
                  (0, 0, 0%Q, 0%Q, 0, 0, 0%Q, 0, 0%Q, 0%Q, 0%Q, 0%Q, 0%Q, results)) as H.
    cbn [snd] in H.
    destruct (feats (feat_step (run2D false) start2D cells_2D) (Z.to_nat N) 0 results) as [r'|].
    - destruct H as [s' [E G]]. cbv zeta. rewrite E. cbn [bind].
      destruct s' as [[[[[[[[[[[[[cY0 cX0] a] b] c] d] e] f] g] h] j] k] l] res']. cbn in G. subst. reflexivity.
    - cbv zeta. rewrite H. reflexivity.
  Qed.
End K2D.

(* ================= _numba_refine_2D_c ================= *)
(* its iteration loop is, after translation, the very term of _numba_refine_2D's *)
Lemma loop2_c_same : numba_refine_2D_c_loop2 = numba_refine_2D_loop2.
Proof. reflexivity. Qed.

Lemma signal_step : forall s px, (if qltb (inject_Z s) (inject_Z px) then inject_Z px else inject_Z s) = inject_Z (if px >? s then px else s).
Proof. intros. rewrite qltb_inj. destruct (px >? s); reflexivity. Qed.

Lemma combine_nth' : forall (A B : Type) (l : list A) (l' : list B) n x y,
  length l = length l' -> nth n (combine l l') (x, y) = (nth n l x, nth n l' y).
Proof. intros. apply combine_nth. assumption. Qed.

Lemma get1_nth : forall l i, get1 l (Z.of_nat i) = nth i l 0.
Proof. intros. unfold get1. destruct (Z.of_nat i <? 0) eqn:E; [apply Z.ltb_lt in E; lia|]. rewrite Nat2Z.id. reflexivity. Qed.

Section K2Dc.
  Variables raw_image image : list (list Z).
  Variables rY rX sY sX : Z.
  Variable thresh : Q.
  Variable mpts : list (list Z).
  Variable r2 : list Z.
  Hypothesis Hr2 : length r2 = length mpts.

  Lemma char_c_fold : forall qY qX pts r2l px0 a b s, length r2l = length pts -> exists px',
    fold_left (fun (st : Z * Q * Q * Q) (wp : Z * list Z) =>
                 numba_refine_2D_c_loop4 raw_image image [ix (snd wp) 0] [ix (snd wp) 1] [fst wp] qY qX 0 st)
              (combine r2l pts) (px0, inject_Z a, inject_Z b, inject_Z s)
    = (px',
       inject_Z (fold_left (fun acc wp => acc + fst wp * k_px [rY; rX] (img2 image) [qY; qX] (snd wp)) (combine r2l pts) a),
       inject_Z (fold_left (fun acc p => acc + k_px [rY; rX] (img2 raw_image) [qY; qX] p) pts b),
       inject_Z (fold_left (fun s p => let px := k_px [rY; rX] (img2 image) [qY; qX] p in if px >? s then px else s) pts s)).
  Proof.
    induction pts as [|p pts IH]; intros r2l px0 a b s Hl; destruct r2l as [|w r2l]; try discriminate; [eexists; reflexivity|].
    cbn [combine fold_left]. unfold numba_refine_2D_c_loop4 at 2. cbn [fst snd].
    change (get1 [ix p 0] 0) with (ix p 0). change (get1 [ix p 1] 0) with (ix p 1). change (get1 [w] 0) with w.
    rewrite !inj_plus. cbv zeta. rewrite signal_step.
    change (get2 image (qY + ix p 0) (qX + ix p 1)) with (k_px [rY; rX] (img2 image) [qY; qX] p).
    change (get2 raw_image (qY + ix p 0) (qX + ix p 1)) with (k_px [rY; rX] (img2 raw_image) [qY; qX] p).
    apply IH. cbn in Hl. lia.
  Qed.

  Lemma char_c : forall qY qX px0, exists px',
    for_range (Z.of_nat (length mpts)) (numba_refine_2D_c_loop4 raw_image image (col 0 mpts) (col 1 mpts) r2 qY qX) (px0, 0%Q, 0%Q, 0%Q)
    = (px',
       inject_Z (fold_left (fun acc wp => acc + fst wp * k_px [rY; rX] (img2 image) [qY; qX] (snd wp)) (combine r2 mpts) 0),
       inject_Z (fold_left (fun acc p => acc + k_px [rY; rX] (img2 raw_image) [qY; qX] p) mpts 0),
       inject_Z (fold_left (fun s p => let px := k_px [rY; rX] (img2 image) [qY; qX] p in if px >? s then px else s) mpts 0)).
  Proof.
    intros.
    replace (length mpts) with (length (combine r2 mpts)) by (rewrite combine_length; lia).
    rewrite (for_range_list _ _ (0, []) _ (fun st (wp : Z * list Z) =>
               numba_refine_2D_c_loop4 raw_image image [ix (snd wp) 0] [ix (snd wp) 1] [fst wp] qY qX 0 st)).
    - apply (char_c_fold qY qX mpts r2 px0 0 0 0 Hr2).
    - intros i [[[px a] b] m] Hi. unfold numba_refine_2D_c_loop4.
      rewrite (combine_nth' _ _ r2 mpts i 0 [] Hr2). cbn [fst snd].
      rewrite !get1_col, get1_nth. reflexivity.
  Qed.

  Hypothesis Hiso : rY = rX.
  Variable coords : list (list Z).
  Variable maxit : Z.
  Hypothesis Hmaxit : 1 <= maxit.
  Variable x2 : list (list Z).

  Definition run2Dc : list Z -> kres output :=
    k_run (img2 image) (img2 raw_image) [rY; rX] [sY; sX] thresh mpts r2 x2 (Z.to_nat maxit) true.

  Local Notation state2Dc_feat := (Z * Z * Q * Q * Z * Z * Q * Z * Q * Q * Q * Q * Q * list (list cell) * Q * Q * Q)%type.
  Definition getr2Dc (s : state2Dc_feat) : list (list cell) := snd (fst (fst (fst s))).

  Lemma iso2D : isotropic [rY; rX] = true.
  Proof. unfold isotropic. cbn. rewrite Hiso, Z.eqb_refl. reflexivity. Qed.

  Lemma feat2Dc : forall feat (s : state2Dc_feat),
    match feat_step run2Dc (start2D coords) cells_2D_c feat (getr2Dc s) with
    | DivZero => numba_refine_2D_c_loop1 raw_image image rY rX coords maxit thresh (col 0 mpts) (col 1 mpts) (Z.of_nat (length mpts)) r2
                   2 3 5 6 (ubY rY sY) (ubX rX sX) feat s = DivZero
    | Ok r' => exists s', numba_refine_2D_c_loop1 raw_image image rY rX coords maxit thresh (col 0 mpts) (col 1 mpts) (Z.of_nat (length mpts)) r2
                   2 3 5 6 (ubY rY sY) (ubX rX sX) feat s = Ok (false, s') /\ getr2Dc s' = r'
    end.
  Proof.
    intros feat s.
    destruct s as [[[[[[[[[[[[[[[[cY0 cX0] a] b] c] d] e] f] g] h] j] k] l] results] rm] rg] sg].
    unfold feat_step, run2Dc, k_run, start2D, numba_refine_2D_c_loop1, for_break, getr2Dc. cbn [snd fst].
    rewrite (to_nat_succ maxit Hmaxit). cbn [pred]. rewrite loop2_c_same.
    pose proof (iter2D image rY rX sY sX thresh mpts (pred (Z.to_nat maxit)) 0 a b c d e f g h j k l (get2 coords feat 0) (get2 coords feat 1)) as H.
    fold (body2D image rY rX sY sX thresh mpts).
    destruct (k_loop (img2 image) [rY; rX] [sY; sX] thresh mpts (pred (Z.to_nat maxit)) [get2 coords feat 0; get2 coords feat 1]) as [ks|].
    - destruct H as [st' [E R]]. rewrite E. cbn [bind].
      destruct st' as [[[[[[[[[[[[a' b'] c'] d'] e'] f'] g'] h'] j'] k'] l'] cY'] cX'].
      destruct R as [Rs [Rc [Rm [Rnz _]]]].
      destruct (char_c c' d' f') as [px' Ec]. rewrite Ec. cbv zeta.
      subst e'. rewrite qeqb_inj0. apply Z.eqb_neq in Rnz. rewrite Rnz.
      eexists. split; [reflexivity|]. cbn [snd fst].
      unfold write_cells, cells_2D_c, size2, signal_of, raw_of, k_output. cbn [negb]. rewrite iso2D.
      cbn [fold_left fst snd o_pos o_mass o_char qx nth]. rewrite Rc, Rs. reflexivity.
    - rewrite H. reflexivity.
  Qed.

  Theorem generated_2D_c : forall N cmask smask results,
    numba_refine_2D_c raw_image image rY rX coords N maxit thresh sY sX (col 0 mpts) (col 1 mpts) (Z.of_nat (length mpts)) r2 cmask smask results
    = feats (feat_step run2Dc (start2D coords) cells_2D_c) (Z.to_nat N) 0 results.
  Proof.
    intros. unfold numba_refine_2D_c, for_break. fold (ubY rY sY) (ubX rX sX).
    pose proof (for_break_feats _ getr2Dc _ _ feat2Dc (Z.to_nat N) 0
                  (0, 0, 0%Q, 0%Q, 0, 0, 0%Q, 0, 0%Q, 0%Q, 0%Q, 0%Q, 0%Q, results, 0%Q, 0%Q, 0%Q)) as H.
    unfold getr2Dc at 1 2 in H. cbn [snd fst] in H.
    destruct (feats (feat_step run2Dc (start2D coords) cells_2D_c) (Z.to_nat N) 0 results) as [r'|].
    - destruct H as [s' [E G]]. cbv zeta. rewrite E. cbn [bind].
      destruct s' as [[[[[[[[[[[[[[[[cY0 cX0] a] b] c] d] e] f] g] h] j] k] l] res'] rm] rg] sg]. cbn in G. subst. reflexivity.
    - cbv zeta. rewrite H. reflexivity.
  Qed.
End K2Dc.

(* ================= _numba_refine_2D_c_a ================= *)
Lemma loop2_c_a_same : numba_refine_2D_c_a_loop2 = numba_refine_2D_loop2.
Proof. reflexivity. Qed.

Section K2Dca.
  Variables raw_image image : list (list Z).
  Variables rY rX sY sX : Z.
  Variable thresh : Q.
  Variable mpts : list (list Z).
  Variables y2 x2 : list Z.
  Hypothesis Hy2 : length y2 = length mpts.
  Hypothesis Hx2 : length x2 = length mpts.

  Lemma char_ca_fold : forall qY qX pts y2l x2l px0 m a b c s, length y2l = length pts -> length x2l = length pts -> exists px',
    fold_left (fun (st : Z * Q * Q * Q * Q * Q) (wp : Z * (Z * list Z)) =>
                 numba_refine_2D_c_a_loop4 raw_image image [ix (snd (snd wp)) 0] [ix (snd (snd wp)) 1] [fst wp] [fst (snd wp)] qY qX 0 st)
              (combine y2l (combine x2l pts)) (px0, inject_Z m, inject_Z a, inject_Z b, inject_Z c, inject_Z s)
    = (px',
       inject_Z (fold_left (fun acc p => acc + k_px [rY; rX] (img2 image) [qY; qX] p) pts m),
       inject_Z (fold_left (fun acc wp => acc + fst wp * k_px [rY; rX] (img2 image) [qY; qX] (snd wp)) (combine y2l pts) a),
       inject_Z (fold_left (fun acc wp => acc + fst wp * k_px [rY; rX] (img2 image) [qY; qX] (snd wp)) (combine x2l pts) b),
       inject_Z (fold_left (fun acc p => acc + k_px [rY; rX] (img2 raw_image) [qY; qX] p) pts c),
       inject_Z (fold_left (fun s p => let px := k_px [rY; rX] (img2 image) [qY; qX] p in if px >? s then px else s) pts s)).
  Proof.
    induction pts as [|p pts IH]; intros y2l x2l px0 m a b c s Hly Hlx;
      destruct y2l as [|wy y2l]; try discriminate; destruct x2l as [|wx x2l]; try discriminate; [eexists; reflexivity|].
    cbn [combine fold_left]. unfold numba_refine_2D_c_a_loop4 at 2. cbn [fst snd].
    change (get1 [ix p 0] 0) with (ix p 0). change (get1 [ix p 1] 0) with (ix p 1).
    change (get1 [wy] 0) with wy. change (get1 [wx] 0) with wx.
    rewrite !inj_plus. cbv zeta. rewrite signal_step.
    change (get2 image (qY + ix p 0) (qX + ix p 1)) with (k_px [rY; rX] (img2 image) [qY; qX] p).
    change (get2 raw_image (qY + ix p 0) (qX + ix p 1)) with (k_px [rY; rX] (img2 raw_image) [qY; qX] p).
    apply IH; cbn in Hly, Hlx; lia.
  Qed.

  Lemma char_ca : forall qY qX px0, exists px',
    for_range (Z.of_nat (length mpts)) (numba_refine_2D_c_a_loop4 raw_image image (col 0 mpts) (col 1 mpts) y2 x2 qY qX)
              (px0, 0%Q, 0%Q, 0%Q, 0%Q, 0%Q)
    = (px',
       inject_Z (k_mass (img2 image) [rY; rX] mpts [qY; qX]),
       inject_Z (fold_left (fun acc wp => acc + fst wp * k_px [rY; rX] (img2 image) [qY; qX] (snd wp)) (combine y2 mpts) 0),
       inject_Z (fold_left (fun acc wp => acc + fst wp * k_px [rY; rX] (img2 image) [qY; qX] (snd wp)) (combine x2 mpts) 0),
       inject_Z (fold_left (fun acc p => acc + k_px [rY; rX] (img2 raw_image) [qY; qX] p) mpts 0),
       inject_Z (fold_left (fun s p => let px := k_px [rY; rX] (img2 image) [qY; qX] p in if px >? s then px else s) mpts 0)).
  Proof.
    intros.
    replace (length mpts) with (length (combine y2 (combine x2 mpts))) by (rewrite !combine_length; lia).
    rewrite (for_range_list _ _ (0, (0, [])) _ (fun st (wp : Z * (Z * list Z)) =>
               numba_refine_2D_c_a_loop4 raw_image image [ix (snd (snd wp)) 0] [ix (snd (snd wp)) 1] [fst wp] [fst (snd wp)] qY qX 0 st)).
    - apply (char_ca_fold qY qX mpts y2 x2 px0 0 0 0 0 0 Hy2 Hx2).
    - intros i [[[[[px m] a] b] c] s] Hi. unfold numba_refine_2D_c_a_loop4.
      rewrite (combine_nth' _ _ y2 (combine x2 mpts) i 0 (0, [])) by (rewrite combine_length; lia).
      rewrite (combine_nth' _ _ x2 mpts i 0 [] Hx2). cbn [fst snd].
      rewrite !get1_col, !get1_nth. reflexivity.
  Qed.

  Hypothesis Haniso : rY <> rX.
  Variable coords : list (list Z).
  Variable maxit : Z.
  Hypothesis Hmaxit : 1 <= maxit.
  Variable r2 : list Z.

  Definition run2Dca : list Z -> kres output :=
    k_run (img2 image) (img2 raw_image) [rY; rX] [sY; sX] thresh mpts r2 [y2; x2] (Z.to_nat maxit) true.

  Local Notation state2Dca_feat := (Z * Z * Q * Q * Z * Z * Q * Z * Q * Q * Q * Q * Q * list (list cell) * Q * Q * Q * Q)%type.
  Definition getr2Dca (s : state2Dca_feat) : list (list cell) := snd (fst (fst (fst (fst s)))).

  Lemma aniso2D : isotropic [rY; rX] = false.
  Proof. unfold isotropic. cbn. rewrite Z.eqb_refl. apply Z.eqb_neq in Haniso. rewrite Z.eqb_sym, Haniso. reflexivity. Qed.

  Lemma feat2Dca : forall feat (s : state2Dca_feat),
    match feat_step run2Dca (start2D coords) cells_2D_c_a feat (getr2Dca s) with
    | DivZero => numba_refine_2D_c_a_loop1 raw_image image rY rX coords maxit thresh (col 0 mpts) (col 1 mpts) (Z.of_nat (length mpts)) y2 x2
                   2 3 4 6 7 (ubY rY sY) (ubX rX sX) feat s = DivZero
    | Ok r' => exists s', numba_refine_2D_c_a_loop1 raw_image image rY rX coords maxit thresh (col 0 mpts) (col 1 mpts) (Z.of_nat (length mpts)) y2 x2
                   2 3 4 6 7 (ubY rY sY) (ubX rX sX) feat s = Ok (false, s') /\ getr2Dca s' = r'
    end.
  Proof.
    intros feat s.
    destruct s as [[[[[[[[[[[[[[[[[cY0 cX0] a] b] c] d] e] f] g] h] j] k] l] results] rm] rgy] rgx] sg].
    unfold feat_step, run2Dca, k_run, start2D, numba_refine_2D_c_a_loop1, for_break, getr2Dca. cbn [snd fst].
    rewrite (to_nat_succ maxit Hmaxit). cbn [pred]. rewrite loop2_c_a_same.
    pose proof (iter2D image rY rX sY sX thresh mpts (pred (Z.to_nat maxit)) 0 a b c d e f g h j k l (get2 coords feat 0) (get2 coords feat 1)) as H.
    fold (body2D image rY rX sY sX thresh mpts).
    destruct (k_loop (img2 image) [rY; rX] [sY; sX] thresh mpts (pred (Z.to_nat maxit)) [get2 coords feat 0; get2 coords feat 1]) as [ks|].
    - destruct H as [st' [E R]]. rewrite E. cbn [bind].
      destruct st' as [[[[[[[[[[[[a' b'] c'] d'] e'] f'] g'] h'] j'] k'] l'] cY'] cX'].
      destruct R as [Rs [Rc [Rm [Rnz Rk]]]].
      destruct (char_ca c' d' f') as [px' Ec]. rewrite Ec. cbv zeta.
      rewrite <- Rk. rewrite !qeqb_inj0. apply Z.eqb_neq in Rnz. rewrite Rnz.
      eexists. split; [reflexivity|]. cbn [snd fst].
      unfold write_cells, cells_2D_c_a, size2, signal_of, raw_of, k_output. cbn [negb]. rewrite aniso2D.
      cbn [map fold_left fst snd o_pos o_mass o_char qx nth]. rewrite Rc, Rs. reflexivity.
    - rewrite H. reflexivity.
  Qed.

  Theorem generated_2D_c_a : forall N cmask smask results,
    numba_refine_2D_c_a raw_image image rY rX coords N maxit thresh sY sX (col 0 mpts) (col 1 mpts) (Z.of_nat (length mpts)) y2 x2 cmask smask results
    = feats (feat_step run2Dca (start2D coords) cells_2D_c_a) (Z.to_nat N) 0 results.
  Proof.
    intros. unfold numba_refine_2D_c_a, for_break. fold (ubY rY sY) (ubX rX sX).
    pose proof (for_break_feats _ getr2Dca _ _ feat2Dca (Z.to_nat N) 0
                  (0, 0, 0%Q, 0%Q, 0, 0, 0%Q, 0, 0%Q, 0%Q, 0%Q, 0%Q, 0%Q, results, 0%Q, 0%Q, 0%Q, 0%Q)) as H.
    unfold getr2Dca at 1 2 in H. cbn [snd fst] in H.
    destruct (feats (feat_step run2Dca (start2D coords) cells_2D_c_a) (Z.to_nat N) 0 results) as [r'|].
    - destruct H as [s' [E G]]. cbv zeta. rewrite E. cbn [bind].
      destruct s' as [[[[[[[[[[[[[[[[[cY0 cX0] a] b] c] d] e] f] g] h] j] k] l] res'] rm] rgy] rgx] sg]. cbn in G. subst. reflexivity.
    - cbv zeta. rewrite H. reflexivity.
  Qed.
End K2Dca.

(* ================= _numba_refine_3D ================= *)
Section K3D.
  Variables raw_image image : list (list (list Z)).
  Variables rZ rY rX sZ sY sX : Z.
  Variable thresh : Q.
  Variable mpts : list (list Z).

  Local Notation rad := [rZ; rY; rX].
  Local Notation pix := (img3 image).
  Local Notation rawp := (img3 raw_image).

  Lemma moments3D_fold : forall qZ qY qX l px0 a b c m, exists px',
    fold_left (fun (s : Z * Q * Q * Q * Q) (p : list Z) =>
                 numba_refine_3D_loop3 image [ix p 0] [ix p 1] [ix p 2] qZ qY qX 0 s) l
              (px0, inject_Z a, inject_Z b, inject_Z c, inject_Z m)
    = (px',
       inject_Z (fold_left (fun acc p => acc + k_px rad pix [qZ; qY; qX] p * ix p 0) l a),
       inject_Z (fold_left (fun acc p => acc + k_px rad pix [qZ; qY; qX] p * ix p 1) l b),
       inject_Z (fold_left (fun acc p => acc + k_px rad pix [qZ; qY; qX] p * ix p 2) l c),
       inject_Z (fold_left (fun acc p => acc + k_px rad pix [qZ; qY; qX] p) l m)).
  Proof.
    induction l as [|p l IH]; intros; [eexists; reflexivity|].
    cbn [fold_left]. unfold numba_refine_3D_loop3 at 2.
    change (get1 [ix p 0] 0) with (ix p 0). change (get1 [ix p 1] 0) with (ix p 1). change (get1 [ix p 2] 0) with (ix p 2).
    rewrite !inj_plus.
    change (get3 image (qZ + ix p 0) (qY + ix p 1) (qX + ix p 2)) with (k_px rad pix [qZ; qY; qX] p).
    apply IH.
  Qed.

  Lemma inner3D : forall qZ qY qX px0, exists px',
    for_range (Z.of_nat (length mpts)) (numba_refine_3D_loop3 image (col 0 mpts) (col 1 mpts) (col 2 mpts) qZ qY qX)
              (px0, 0%Q, 0%Q, 0%Q, 0%Q)
    = (px', inject_Z (k_mom pix rad mpts [qZ; qY; qX] 0), inject_Z (k_mom pix rad mpts [qZ; qY; qX] 1),
            inject_Z (k_mom pix rad mpts [qZ; qY; qX] 2), inject_Z (k_mass pix rad mpts [qZ; qY; qX])).
  Proof.
    intros.
    rewrite (for_range_list _ _ [] _ (fun s p => numba_refine_3D_loop3 image [ix p 0] [ix p 1] [ix p 2] qZ qY qX 0 s)).
    - apply (moments3D_fold qZ qY qX mpts px0 0 0 0 0).
    - intros i [[[[px a] b] c] m] Hi. unfold numba_refine_3D_loop3. rewrite !get1_col. reflexivity.
  Qed.

  Definition ub (s r : Z) := s - r - 1.

  Lemma k_loop_3D : forall n cZ cY cX,
    k_loop pix rad [sZ; sY; sX] thresh mpts n [cZ; cY; cX] =
    let sq := [cZ - rZ; cY - rY; cX - rX] in
    let m := k_mass pix rad mpts sq in
    if m =? 0 then KDivZero else
    let offZ := (qdiv (k_mom pix rad mpts sq 0) m - inject_Z rZ)%Q in
    let offY := (qdiv (k_mom pix rad mpts sq 1) m - inject_Z rY)%Q in
    let offX := (qdiv (k_mom pix rad mpts sq 2) m - inject_Z rX)%Q in
    let st := mkK sq [(offZ + inject_Z cZ)%Q; (offY + inject_Z cY)%Q; (offX + inject_Z cX)%Q] m in
    if Qltb (Qabs offZ) thresh && (Qltb (Qabs offY) thresh && (Qltb (Qabs offX) thresh && true)) then KOk st else
    let c' := [k_clip1 (k_shift1 thresh cZ offZ) rZ (sZ - 1 - rZ); k_clip1 (k_shift1 thresh cY offY) rY (sY - 1 - rY);
               k_clip1 (k_shift1 thresh cX offX) rX (sX - 1 - rX)] in
    match n with O => KOk st | S n' => k_loop pix rad [sZ; sY; sX] thresh mpts n' c' end.
  Proof. destruct n; reflexivity. Qed.

  Local Notation state3D := (Q * Q * Q * Z * Z * Z * Q * Z * Q * Q * Q * Q * Q * Q * Z * Z * Z)%type.
  Definition rel3D (st : state3D) (ks : kstate) : Prop :=
    let '(cm_nZ, cm_nY, cm_nX, squareZ, squareY, squareX, mass_, px, cm_iZ, cm_iY, cm_iX, offZ, offY, offX, coordZ, coordY, coordX) := st in
    k_square ks = [squareZ; squareY; squareX] /\ k_cmi ks = [cm_iZ; cm_iY; cm_iX] /\ mass_ = inject_Z (k_m ks) /\ k_m ks <> 0.

  Definition body3D := numba_refine_3D_loop2 image rZ rY rX thresh (col 0 mpts) (col 1 mpts) (col 2 mpts) (Z.of_nat (length mpts))
                                             (ub sZ rZ) (ub sY rY) (ub sX rX).

  Lemma body3D_eval : forall i a b c d e f g h j k l m n o cZ cY cX, exists px',
    body3D i (a, b, c, d, e, f, g, h, j, k, l, m, n, o, cZ, cY, cX) =
    let sq := [cZ - rZ; cY - rY; cX - rX] in
    let ms := k_mass pix rad mpts sq in
    if ms =? 0 then DivZero else
    let cnZ := qdiv (k_mom pix rad mpts sq 0) ms in
    let cnY := qdiv (k_mom pix rad mpts sq 1) ms in
    let cnX := qdiv (k_mom pix rad mpts sq 2) ms in
    let offZ := (cnZ - inject_Z rZ)%Q in
    let offY := (cnY - inject_Z rY)%Q in
    let offX := (cnX - inject_Z rX)%Q in
    if Qltb (Qabs offZ) thresh && (Qltb (Qabs offY) thresh && (Qltb (Qabs offX) thresh && true))
    then Ok (true, (cnZ, cnY, cnX, cZ - rZ, cY - rY, cX - rX, inject_Z ms, px',
                    (offZ + inject_Z cZ)%Q, (offY + inject_Z cY)%Q, (offX + inject_Z cX)%Q, offZ, offY, offX, cZ, cY, cX))
    else Ok (false, (cnZ, cnY, cnX, cZ - rZ, cY - rY, cX - rX, inject_Z ms, px',
                     (offZ + inject_Z cZ)%Q, (offY + inject_Z cY)%Q, (offX + inject_Z cX)%Q, offZ, offY, offX,
                     k_clip1 (k_shift1 thresh cZ offZ) rZ (sZ - 1 - rZ), k_clip1 (k_shift1 thresh cY offY) rY (sY - 1 - rY),
                     k_clip1 (k_shift1 thresh cX offX) rX (sX - 1 - rX))).
  Proof.
    intros. destruct (inner3D (cZ - rZ) (cY - rY) (cX - rX) h) as [px' E]. exists px'.
    unfold body3D, numba_refine_3D_loop2. rewrite E. cbv zeta.
    rewrite !qeqb_inj0.
    destruct (k_mass pix rad mpts [cZ - rZ; cY - rY; cX - rX] =? 0); [reflexivity|].
    rewrite andb_true_r, andb_assoc.
    replace (sZ - 1 - rZ) with (ub sZ rZ) by (unfold ub; lia). replace (sY - 1 - rY) with (ub sY rY) by (unfold ub; lia).
    replace (sX - 1 - rX) with (ub sX rX) by (unfold ub; lia).
    reflexivity.
  Qed.

  Lemma iter3D : forall nn i a b c d e f g h j k l m n o cZ cY cX,
    match k_loop pix rad [sZ; sY; sX] thresh mpts nn [cZ; cY; cX] with
    | KDivZero => for_break_from (S nn) i body3D (a, b, c, d, e, f, g, h, j, k, l, m, n, o, cZ, cY, cX) = DivZero
    | KOk ks => exists st', for_break_from (S nn) i body3D (a, b, c, d, e, f, g, h, j, k, l, m, n, o, cZ, cY, cX) = Ok st' /\ rel3D st' ks
    end.
  Proof.
    induction nn as [|nn IH]; intros; rewrite k_loop_3D; cbn [for_break_from];
      destruct (body3D_eval i a b c d e f g h j k l m n o cZ cY cX) as [px' E]; rewrite E; clear E; cbv zeta;
      destruct (k_mass pix rad mpts [cZ - rZ; cY - rY; cX - rX] =? 0) eqn:Em; try reflexivity;
      match goal with |- context [if ?c then KOk _ else _] => destruct c end;
      try (eexists; split; [reflexivity|]; cbn; repeat split; apply Z.eqb_neq; exact Em).
    apply IH.
  Qed.

  Variables r2 z2 y2 x2 : list Z.
  Hypothesis Hr2 : length r2 = length mpts.
  Hypothesis Hz2 : length z2 = length mpts.
  Hypothesis Hy2 : length y2 = length mpts.
  Hypothesis Hx2 : length x2 = length mpts.

  Lemma char3i_fold : forall qZ qY qX pts r2l px0 a b s, length r2l = length pts -> exists px',
    fold_left (fun (st : Z * Q * Q * Q) (wp : Z * list Z) =>
                 numba_refine_3D_loop4 raw_image image [ix (snd wp) 0] [ix (snd wp) 1] [ix (snd wp) 2] [fst wp] qZ qY qX 0 st)
              (combine r2l pts) (px0, inject_Z a, inject_Z b, inject_Z s)
    = (px',
       inject_Z (fold_left (fun acc wp => acc + fst wp * k_px rad pix [qZ; qY; qX] (snd wp)) (combine r2l pts) a),
       inject_Z (fold_left (fun acc p => acc + k_px rad rawp [qZ; qY; qX] p) pts b),
       inject_Z (fold_left (fun s p => let px := k_px rad pix [qZ; qY; qX] p in if px >? s then px else s) pts s)).
  Proof.
    induction pts as [|p pts IH]; intros r2l px0 a b s Hl; destruct r2l as [|w r2l]; try discriminate; [eexists; reflexivity|].
    cbn [combine fold_left]. unfold numba_refine_3D_loop4 at 2. cbn [fst snd].
    change (get1 [ix p 0] 0) with (ix p 0). change (get1 [ix p 1] 0) with (ix p 1). change (get1 [ix p 2] 0) with (ix p 2).
    change (get1 [w] 0) with w.
    rewrite !inj_plus. cbv zeta. rewrite signal_step.
    change (get3 image (qZ + ix p 0) (qY + ix p 1) (qX + ix p 2)) with (k_px rad pix [qZ; qY; qX] p).
    change (get3 raw_image (qZ + ix p 0) (qY + ix p 1) (qX + ix p 2)) with (k_px rad rawp [qZ; qY; qX] p).
    apply IH. cbn in Hl. lia.
  Qed.

  Lemma char3i : forall qZ qY qX px0, exists px',
    for_range (Z.of_nat (length mpts)) (numba_refine_3D_loop4 raw_image image (col 0 mpts) (col 1 mpts) (col 2 mpts) r2 qZ qY qX)
              (px0, 0%Q, 0%Q, 0%Q)
    = (px',
       inject_Z (fold_left (fun acc wp => acc + fst wp * k_px rad pix [qZ; qY; qX] (snd wp)) (combine r2 mpts) 0),
       inject_Z (fold_left (fun acc p => acc + k_px rad rawp [qZ; qY; qX] p) mpts 0),
       inject_Z (fold_left (fun s p => let px := k_px rad pix [qZ; qY; qX] p in if px >? s then px else s) mpts 0)).
  Proof.
    intros.
    replace (length mpts) with (length (combine r2 mpts)) by (rewrite combine_length; lia).
    rewrite (for_range_list _ _ (0, []) _ (fun st (wp : Z * list Z) =>
               numba_refine_3D_loop4 raw_image image [ix (snd wp) 0] [ix (snd wp) 1] [ix (snd wp) 2] [fst wp] qZ qY qX 0 st)).
    - apply (char3i_fold qZ qY qX mpts r2 px0 0 0 0 Hr2).
    - intros i [[[px a] b] m] Hi. unfold numba_refine_3D_loop4.
      rewrite (combine_nth' _ _ r2 mpts i 0 [] Hr2). cbn [fst snd].
      rewrite !get1_col, get1_nth. reflexivity.
  Qed.

  Lemma char3a_fold : forall qZ qY qX pts z2l y2l x2l px0 a b c d s,
    length z2l = length pts -> length y2l = length pts -> length x2l = length pts -> exists px',
    fold_left (fun (st : Z * Q * Q * Q * Q * Q) (wp : Z * (Z * (Z * list Z))) =>
                 numba_refine_3D_loop5 raw_image image [ix (snd (snd (snd wp))) 0] [ix (snd (snd (snd wp))) 1] [ix (snd (snd (snd wp))) 2]
                                       [fst wp] [fst (snd wp)] [fst (snd (snd wp))] qZ qY qX 0 st)
              (combine z2l (combine y2l (combine x2l pts))) (px0, inject_Z a, inject_Z b, inject_Z c, inject_Z d, inject_Z s)
    = (px',
       inject_Z (fold_left (fun acc wp => acc + fst wp * k_px rad pix [qZ; qY; qX] (snd wp)) (combine z2l pts) a),
       inject_Z (fold_left (fun acc wp => acc + fst wp * k_px rad pix [qZ; qY; qX] (snd wp)) (combine y2l pts) b),
       inject_Z (fold_left (fun acc wp => acc + fst wp * k_px rad pix [qZ; qY; qX] (snd wp)) (combine x2l pts) c),
       inject_Z (fold_left (fun acc p => acc + k_px rad rawp [qZ; qY; qX] p) pts d),
       inject_Z (fold_left (fun s p => let px := k_px rad pix [qZ; qY; qX] p in if px >? s then px else s) pts s)).
  Proof.
    induction pts as [|p pts IH]; intros z2l y2l x2l px0 a b c d s Hlz Hly Hlx;
      destruct z2l as [|wz z2l]; try discriminate; destruct y2l as [|wy y2l]; try discriminate;
      destruct x2l as [|wx x2l]; try discriminate; [eexists; reflexivity|].
    cbn [combine fold_left]. unfold numba_refine_3D_loop5 at 2. cbn [fst snd].
    change (get1 [ix p 0] 0) with (ix p 0). change (get1 [ix p 1] 0) with (ix p 1). change (get1 [ix p 2] 0) with (ix p 2).
    change (get1 [wz] 0) with wz. change (get1 [wy] 0) with wy. change (get1 [wx] 0) with wx.
    rewrite !inj_plus. cbv zeta. rewrite signal_step.
    change (get3 image (qZ + ix p 0) (qY + ix p 1) (qX + ix p 2)) with (k_px rad pix [qZ; qY; qX] p).
    change (get3 raw_image (qZ + ix p 0) (qY + ix p 1) (qX + ix p 2)) with (k_px rad rawp [qZ; qY; qX] p).
    apply IH; cbn in Hlz, Hly, Hlx; lia.
  Qed.

  Lemma char3a : forall qZ qY qX px0, exists px',
    for_range (Z.of_nat (length mpts)) (numba_refine_3D_loop5 raw_image image (col 0 mpts) (col 1 mpts) (col 2 mpts) z2 y2 x2 qZ qY qX)
              (px0, 0%Q, 0%Q, 0%Q, 0%Q, 0%Q)
    = (px',
       inject_Z (fold_left (fun acc wp => acc + fst wp * k_px rad pix [qZ; qY; qX] (snd wp)) (combine z2 mpts) 0),
       inject_Z (fold_left (fun acc wp => acc + fst wp * k_px rad pix [qZ; qY; qX] (snd wp)) (combine y2 mpts) 0),
       inject_Z (fold_left (fun acc wp => acc + fst wp * k_px rad pix [qZ; qY; qX] (snd wp)) (combine x2 mpts) 0),
       inject_Z (fold_left (fun acc p => acc + k_px rad rawp [qZ; qY; qX] p) mpts 0),
       inject_Z (fold_left (fun s p => let px := k_px rad pix [qZ; qY; qX] p in if px >? s then px else s) mpts 0)).
  Proof.
    intros.
    replace (length mpts) with (length (combine z2 (combine y2 (combine x2 mpts)))) by (rewrite !combine_length; lia).
    rewrite (for_range_list _ _ (0, (0, (0, []))) _ (fun st (wp : Z * (Z * (Z * list Z))) =>
               numba_refine_3D_loop5 raw_image image [ix (snd (snd (snd wp))) 0] [ix (snd (snd (snd wp))) 1] [ix (snd (snd (snd wp))) 2]
                                     [fst wp] [fst (snd wp)] [fst (snd (snd wp))] qZ qY qX 0 st)).
    - apply (char3a_fold qZ qY qX mpts z2 y2 x2 px0 0 0 0 0 0 Hz2 Hy2 Hx2).
    - intros i [[[[[px a] b] c] d] s] Hi. unfold numba_refine_3D_loop5.
      rewrite (combine_nth' _ _ z2 (combine y2 (combine x2 mpts)) i 0 (0, (0, []))) by (rewrite !combine_length; lia).
      rewrite (combine_nth' _ _ y2 (combine x2 mpts) i 0 (0, [])) by (rewrite combine_length; lia).
      rewrite (combine_nth' _ _ x2 mpts i 0 [] Hx2). cbn [fst snd].
      rewrite !get1_col, !get1_nth. reflexivity.
  Qed.

  Variable coords : list (list Z).
  Variable maxit : Z.
  Hypothesis Hmaxit : 1 <= maxit.
  Variable characterize : bool.

  Definition start3D (feat : Z) : list Z := [get2 coords feat 0; get2 coords feat 1; get2 coords feat 2].
  Definition run3D : list Z -> kres output :=
    k_run pix rawp rad [sZ; sY; sX] thresh mpts r2 [z2; y2; x2] (Z.to_nat maxit) characterize.

  (* isotropic = (radiusX == radiusY and radiusX == radiusZ) *)
  Definition iso3 : bool := (rX =? rY) && (rX =? rZ).
  Lemma iso3_eq : iso3 = isotropic rad.
  Proof.
    clear Hr2 Hz2 Hy2 Hx2 Hmaxit.
    unfold iso3, isotropic. cbn [forallb hd]. rewrite Z.eqb_refl, andb_true_r. cbn [andb].
    destruct (Z.eqb_spec rX rY), (Z.eqb_spec rX rZ), (Z.eqb_spec rY rZ); subst; cbn; try reflexivity; try lia.
  Qed.

  Definition colsel (iso : bool) (a b : Z) : Z := if iso then a else b.

  Local Notation state3D_feat :=
    (Z * Z * Z * Q * Q * Q * Z * Z * Z * Q * Z * Q * Q * Q * Q * Q * Q * list (list cell) * Q * Q * Q * Q * Q * Q)%type.
  Definition getr3D (s : state3D_feat) : list (list cell) := snd (fst (fst (fst (fst (fst (fst s)))))).

  Definition loop1_3D (iso : bool) :=
    numba_refine_3D_loop1 raw_image image rZ rY rX coords maxit thresh characterize (col 0 mpts) (col 1 mpts) (col 2 mpts)
      (Z.of_nat (length mpts)) r2 z2 y2 x2 3 iso (colsel iso 4 0) (colsel iso 6 8) (colsel iso 7 9) (colsel iso 0 4) (colsel iso 0 5) (colsel iso 0 6)
      (ub sZ rZ) (ub sY rY) (ub sX rX).

  Lemma feat3D : forall feat (s : state3D_feat),
    match feat_step run3D start3D (cells_3D characterize iso3) feat (getr3D s) with
    | DivZero => loop1_3D iso3 feat s = DivZero
    | Ok r' => exists s', loop1_3D iso3 feat s = Ok (false, s') /\ getr3D s' = r'
    end.
  Proof.
    intros feat s.
    destruct s as [[[[[[[[[[[[[[[[[[[[[[[cZ0 cY0] cX0] a] b] c] d] e] f] g] h] j] k] l] m] n] o] results] rm] rg] rgz] rgy] rgx] sg].
    unfold feat_step, run3D, k_run, start3D, loop1_3D, numba_refine_3D_loop1, for_break, getr3D. cbn [snd fst].
    rewrite (to_nat_succ maxit Hmaxit). cbn [pred].
    pose proof (iter3D (pred (Z.to_nat maxit)) 0 a b c d e f g h j k l m n o (get2 coords feat 0) (get2 coords feat 1) (get2 coords feat 2)) as H.
    fold body3D.
    destruct (k_loop pix rad [sZ; sY; sX] thresh mpts (pred (Z.to_nat maxit)) [get2 coords feat 0; get2 coords feat 1; get2 coords feat 2]) as [ks|].
    2: { rewrite H. reflexivity. }
    destruct H as [st' [E R]]. rewrite E. cbn [bind].
    destruct st' as [[[[[[[[[[[[[[[[a' b'] c'] d'] e'] f'] g'] h'] j'] k'] l'] m'] n'] o'] cZ'] cY'] cX'].
    destruct R as [Rs [Rc [Rm Rnz]]]. apply Z.eqb_neq in Rnz. subst g'.
    pose proof iso3_eq as Hiso.
    unfold write_cells, cells_3D, size2, signal_of, raw_of, k_output.
    destruct characterize; cbn [negb]; [destruct iso3; rewrite <- Hiso|].
    - cbv beta iota zeta. destruct (char3i d' e' f' h') as [px' Ec]. rewrite Ec. cbv beta iota zeta.
      rewrite qeqb_inj0, Rnz. cbn [bind]. cbv beta iota zeta.
      eexists. split; [reflexivity|]. cbn [snd fst].
      cbn [map app fold_left fst snd o_pos o_mass o_char qx nth colsel]. rewrite Rc, Rs. reflexivity.
    - cbv beta iota zeta. destruct (char3a d' e' f' h') as [px' Ec]. rewrite Ec. cbv beta iota zeta.
      rewrite !qeqb_inj0, Rnz. cbn [bind]. cbv beta iota zeta.
      eexists. split; [reflexivity|]. cbn [snd fst].
      cbn [map app fold_left fst snd o_pos o_mass o_char qx nth colsel]. rewrite Rc, Rs. reflexivity.
    - cbn [bind]. cbv beta iota zeta.
      eexists. split; [reflexivity|]. cbn [snd fst].
      cbn [map app fold_left fst snd o_pos o_mass o_char qx nth colsel]. rewrite Rc. reflexivity.
  Qed.

  Theorem generated_3D : forall N results,
    numba_refine_3D raw_image image rZ rY rX coords N maxit thresh characterize sZ sY sX (col 0 mpts) (col 1 mpts) (col 2 mpts)
                    (Z.of_nat (length mpts)) r2 z2 y2 x2 results
    = feats (feat_step run3D start3D (cells_3D characterize iso3)) (Z.to_nat N) 0 results.
  Proof.
    intros. unfold numba_refine_3D, for_break. fold iso3 (ub sZ rZ) (ub sY rY) (ub sX rX).
    pose proof (for_break_feats _ getr3D _ _ feat3D (Z.to_nat N) 0
                  (0, 0, 0, 0%Q, 0%Q, 0%Q, 0, 0, 0, 0%Q, 0, 0%Q, 0%Q, 0%Q, 0%Q, 0%Q, 0%Q, results, 0%Q, 0%Q, 0%Q, 0%Q, 0%Q, 0%Q)) as H.
    unfold getr3D at 1 2 in H. cbn [snd fst] in H. unfold loop1_3D in H.
    destruct (feats (feat_step run3D start3D (cells_3D characterize iso3)) (Z.to_nat N) 0 results) as [r'|].
    - destruct H as [s' [E G]]. destruct iso3; unfold colsel in E; cbv beta iota zeta; rewrite E; cbn [bind];
        destruct s' as [[[[[[[[[[[[[[[[[[[[[[[cZ0 cY0] cX0] a] b] c] d] e] f] g] h] j] k] l] m] n] o] res'] rm] rg] rgz] rgy] rgx] sg];
        cbn in G; subst; reflexivity.
    - destruct iso3; unfold colsel in H; cbv beta iota zeta; rewrite H; reflexivity.
  Qed.
End K3D.

(* ================= the four kernels against refine_numba, arguments as refine_com_arr prepares them ================= *)
Theorem gen_2D_is_model : forall image rawpix rY rX coords N max_iterations thresh sY sX results,
  let radius := [rY; rX] in
  let mpts := mask_points radius in
  numba_refine_2D image rY rX coords N (Z.max 1 max_iterations) thresh sY sX (col 0 mpts) (col 1 mpts) (Z.of_nat (length mpts)) results =
  feats (feat_step (refine_numba (img2 image) rawpix radius [sY; sX] thresh max_iterations false)
                   (fun feat => [get2 coords feat 0; get2 coords feat 1]) cells_2D) (Z.to_nat N) 0 results.
Proof.
  intros. subst radius mpts.
  rewrite (generated_2D image rY rX sY sX thresh (mask_points [rY; rX]) coords (Z.max 1 max_iterations) ltac:(lia) rawpix
                        (r2m [rY; rX]) [x2m [rY; rX] 0; x2m [rY; rX] 1]).
  reflexivity.
Qed.

Theorem gen_2D_c_is_model : forall raw_image image rY rX coords N max_iterations thresh sY sX cmask smask results,
  rY = rX ->
  let radius := [rY; rX] in
  let mpts := mask_points radius in
  numba_refine_2D_c raw_image image rY rX coords N (Z.max 1 max_iterations) thresh sY sX (col 0 mpts) (col 1 mpts) (Z.of_nat (length mpts))
                    (r2m radius) cmask smask results =
  feats (feat_step (refine_numba (img2 image) (img2 raw_image) radius [sY; sX] thresh max_iterations true)
                   (fun feat => [get2 coords feat 0; get2 coords feat 1]) cells_2D_c) (Z.to_nat N) 0 results.
Proof.
  intros. subst radius mpts.
  rewrite (generated_2D_c raw_image image rY rX sY sX thresh (mask_points [rY; rX]) (r2m [rY; rX])
                          ltac:(unfold r2m; apply map_length) H coords (Z.max 1 max_iterations) ltac:(lia)
                          [x2m [rY; rX] 0; x2m [rY; rX] 1]).
  reflexivity.
Qed.

Theorem gen_2D_c_a_is_model : forall raw_image image rY rX coords N max_iterations thresh sY sX cmask smask results,
  rY <> rX ->
  let radius := [rY; rX] in
  let mpts := mask_points radius in
  numba_refine_2D_c_a raw_image image rY rX coords N (Z.max 1 max_iterations) thresh sY sX (col 0 mpts) (col 1 mpts) (Z.of_nat (length mpts))
                      (x2m radius 0) (x2m radius 1) cmask smask results =
  feats (feat_step (refine_numba (img2 image) (img2 raw_image) radius [sY; sX] thresh max_iterations true)
                   (fun feat => [get2 coords feat 0; get2 coords feat 1]) cells_2D_c_a) (Z.to_nat N) 0 results.
Proof.
  intros. subst radius mpts.
  rewrite (generated_2D_c_a raw_image image rY rX sY sX thresh (mask_points [rY; rX]) (x2m [rY; rX] 0) (x2m [rY; rX] 1)
                            ltac:(unfold x2m; apply map_length) ltac:(unfold x2m; apply map_length) H coords (Z.max 1 max_iterations) ltac:(lia)
                            (r2m [rY; rX])).
  reflexivity.
Qed.

Theorem gen_3D_is_model : forall raw_image image rZ rY rX coords N max_iterations thresh characterize sZ sY sX results,
  let radius := [rZ; rY; rX] in
  let mpts := mask_points radius in
  numba_refine_3D raw_image image rZ rY rX coords N (Z.max 1 max_iterations) thresh characterize sZ sY sX
                  (col 0 mpts) (col 1 mpts) (col 2 mpts) (Z.of_nat (length mpts))
                  (r2m radius) (x2m radius 0) (x2m radius 1) (x2m radius 2) results =
  feats (feat_step (refine_numba (img3 image) (img3 raw_image) radius [sZ; sY; sX] thresh max_iterations characterize)
                   (fun feat => [get2 coords feat 0; get2 coords feat 1; get2 coords feat 2])
                   (cells_3D characterize (isotropic radius))) (Z.to_nat N) 0 results.
Proof.
  intros. subst radius mpts.
  rewrite (generated_3D raw_image image rZ rY rX sZ sY sX thresh (mask_points [rZ; rY; rX])
                        (r2m [rZ; rY; rX]) (x2m [rZ; rY; rX] 0) (x2m [rZ; rY; rX] 1) (x2m [rZ; rY; rX] 2)
                        ltac:(unfold r2m; apply map_length) ltac:(unfold x2m; apply map_length)
                        ltac:(unfold x2m; apply map_length) ltac:(unfold x2m; apply map_length)
                        coords (Z.max 1 max_iterations) ltac:(lia) characterize).
  rewrite iso3_eq. reflexivity.
Qed.

(* with Proofs/COM.engines_agree: the row a generated kernel writes is the reference engine's row *)
Theorem generated_row_is_reference_row : forall pix rawpix radius shape thresh max_iterations characterize start cells feat results,
  (0 <= thresh)%Q -> (2 <= length radius)%nat -> Forall (fun r => 1 <= r) radius ->
  ref_nonzero pix radius shape thresh (binary_mask radius) (pred (iters_of max_iterations)) (start feat) = true ->
  feat_step (refine_numba pix rawpix radius shape thresh max_iterations characterize) start cells feat results =
  Ok (write_cells results feat (cells (refine_python pix rawpix radius shape thresh max_iterations characterize (start feat)))).
Proof.
  intros. unfold feat_step. rewrite engines_agree by assumption. rewrite H2. reflexivity.
Qed.
