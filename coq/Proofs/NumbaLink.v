(* numba_link as a whole (Model/NumbaLink.v: array building and read-back, hand model following the
   source line by line; kernel: the GENERATED Gen/numbakernel.v):

     nl_build_ok / nl_build_kernel_inputs   when no source has more than 9 candidates (8 real ones and the
                             null link) the arrays are the expected rows and satisfy [kernel_inputs] with
                             the destination code nl_enc (position in dcands)
     numba_link_machine      the whole path returns exactly the stack machine's answer (ties, up := true)
     numba_link_optimal      ... a minimum-cost one-to-one assignment, of the recursive solver's cost
     numba_link_oversize / numba_link_cap / numba_link_raises_iff   the two SubnetOversizeException exits
     numba_link_empty        an empty subnet: IndexError (the kernel reads tmp_assignments[0])
   for EVERY listing order of the set dcands that loses no element, and every order of the sources. *)
From Coq Require Import ZArith List Bool Arith Lia.
From TP Require Import Model.Assign Model.Link Model.Iterative Proofs.BnB Proofs.Iterative
     Model.PyLinker Model.PyIterative Model.PyNumbakernel Gen.numbakernel Model.NumbaGenCheck
     Proofs.IterativeGen Proofs.NumbakernelGen Model.NumbaLink.
Import ListNotations.
Open Scope Z_scope.

(* ---------- keys, enumerate, dict ---------- *)
Lemma opt_eqb_eq a b : opt_eqb a b = true <-> a = b.
Proof.
  destruct a as [x|], b as [y|]; cbn; split; intros H; try discriminate; try reflexivity.
  - apply Nat.eqb_eq in H. subst. reflexivity.
  - inversion H. apply Nat.eqb_refl.
Qed.

Lemma in_enum_from {T} (l : list T) : forall a z k,
  In (z, k) (combine (map Z.of_nat (seq a (length l))) l) <-> exists i, z = Z.of_nat (a + i) /\ nth_error l i = Some k.
Proof.
  induction l as [|x l IH]; intros a z k.
  - cbn. split; [intros []|]. intros [[|i] [_ H]]; discriminate.
  - cbn [length seq map combine In]. rewrite IH. split.
    + intros [E|[i [Hz Hn]]].
      * inversion E; subst. exists 0%nat. rewrite Nat.add_0_r. split; reflexivity.
      * exists (Datatypes.S i). split; [rewrite Hz; f_equal; lia|exact Hn].
    + intros [[|i] [Hz Hn]].
      * left. cbn in Hn. inversion Hn; subst. rewrite Nat.add_0_r. reflexivity.
      * right. exists i. split; [rewrite Hz; f_equal; lia|exact Hn].
Qed.

Lemma fold_dict_set (l : list (Z * dkey)) : forall m,
  fold_left (fun m (ic : Z * dkey) => dict_set m (snd ic) (fst ic)) l m
  = rev (map (fun ic : Z * dkey => (snd ic, fst ic)) l) ++ m.
Proof.
  induction l as [|x l IH]; intros m; [reflexivity|].
  cbn [fold_left map rev]. rewrite IH. unfold dict_set. rewrite <- app_assoc. reflexivity.
Qed.

Lemma in_dict_enum l k z : In (k, z) (dict_of_enumerate l) <-> exists i, z = Z.of_nat i /\ nth_error l i = Some k.
Proof.
  unfold dict_of_enumerate. rewrite fold_dict_set, app_nil_r, <- in_rev, in_map_iff. unfold py_enumerate. split.
  - intros [[z' k'] [E Hin]]. cbn in E. inversion E; subst. apply in_enum_from in Hin. exact Hin.
  - intros H. exists (z, k). split; [reflexivity|]. apply in_enum_from. exact H.
Qed.

Lemma dict_get_in m k z : dict_get m k = Some z -> In (k, z) m.
Proof.
  unfold dict_get. destruct (find _ m) as [[k' z']|] eqn:E; [|discriminate].
  intros H. inversion H; subst. apply find_some in E. destruct E as [Hin He]. cbn in He.
  apply opt_eqb_eq in He. subst. exact Hin.
Qed.

Lemma dict_get_found m k z : In (k, z) m -> exists z', dict_get m k = Some z'.
Proof.
  intros Hin. unfold dict_get. destruct (find _ m) as [kv|] eqn:E; [eexists; reflexivity|].
  exfalso. pose proof (find_none _ _ E _ Hin) as Hf. cbn in Hf.
  assert (Ht : opt_eqb k k = true) by (apply opt_eqb_eq; reflexivity). congruence.
Qed.

(* ---------- the destination code ---------- *)
Lemma nl_enc_found dc d : In (Some d) dc -> exists i, nl_enc dc d = Z.of_nat i /\ nth_error dc i = Some (Some d).
Proof.
  intros Hin. apply In_nth_error in Hin. destruct Hin as [i0 Hi0].
  destruct (dict_get_found (dict_of_enumerate dc) (Some d) (Z.of_nat i0)) as [z Hz].
  { apply in_dict_enum. exists i0. split; [reflexivity|exact Hi0]. }
  unfold nl_enc. rewrite Hz. apply dict_get_in, in_dict_enum in Hz. exact Hz.
Qed.

Lemma nl_enc_cases dc d :
  (exists i, nl_enc dc d = Z.of_nat i /\ nth_error dc i = Some (Some d)) \/ nl_enc dc d = Z.of_nat (length dc + d).
Proof.
  unfold nl_enc. destruct (dict_get (dict_of_enumerate dc) (Some d)) as [z|] eqn:E; [|right; reflexivity].
  left. apply dict_get_in, in_dict_enum in E. exact E.
Qed.

Lemma nl_enc_nonneg dc d : 0 <= nl_enc dc d.
Proof. destruct (nl_enc_cases dc d) as [[i [E _]]|E]; rewrite E; lia. Qed.

Lemma nl_enc_inj dc d d' : nl_enc dc d = nl_enc dc d' -> d = d'.
Proof.
  intros H.
  destruct (nl_enc_cases dc d) as [[i [E Hn]]|E], (nl_enc_cases dc d') as [[i' [E' Hn']]|E']; rewrite E, E' in H.
  - apply Nat2Z.inj in H. subst i'. congruence.
  - assert (Hi : (i < length dc)%nat) by (apply nth_error_Some; congruence). lia.
  - assert (Hi : (i' < length dc)%nat) by (apply nth_error_Some; congruence). lia.
  - lia.
Qed.

Definition full_map (dc : list dkey) : pydict := dict_set (dict_of_enumerate dc) None (-1).

Lemma full_map_get dc k : k = None \/ In k dc -> dict_get (full_map dc) k = Some (encd (nl_enc dc) k).
Proof.
  intros H. destruct k as [d|].
  - destruct H as [H|H]; [discriminate|].
    unfold full_map, dict_set, dict_get. cbn [find fst opt_eqb].
    destruct (nl_enc_found dc d H) as [i [E Hn]].
    destruct (dict_get_found (dict_of_enumerate dc) (Some d) (Z.of_nat i)) as [z Hz].
    { apply in_dict_enum. exists i. split; [reflexivity|exact Hn]. }
    unfold dict_get in Hz. cbn [encd]. unfold nl_enc, dict_get.
    destruct (find _ (dict_of_enumerate dc)) as [kv|]; [reflexivity|discriminate].
  - reflexivity.
Qed.

(* ---------- map_opt ---------- *)
Lemma map_opt_ext {A B} (f : A -> option B) (g : A -> B) l :
  (forall x, In x l -> f x = Some (g x)) -> map_opt f l = Some (map g l).
Proof.
  induction l as [|x l IH]; intros H; [reflexivity|].
  cbn [map_opt map]. rewrite (H x (or_introl eq_refl)). rewrite IH; [reflexivity|].
  intros y Hy. apply H. right. exact Hy.
Qed.

Lemma map_opt_map {A B C} (f : B -> option C) (g : A -> B) l : map_opt f (map g l) = map_opt (fun x => f (g x)) l.
Proof. induction l as [|x l IH]; [reflexivity|]. cbn [map map_opt]. rewrite IH. reflexivity. Qed.

(* ---------- arrays ---------- *)
Lemma py_set_index_mid {T} (l1 : list T) x l2 n v :
  length l1 = n -> py_set_index (l1 ++ x :: l2) (Z.of_nat n) v = Some (l1 ++ v :: l2).
Proof.
  intros H. subst n. rewrite py_set_index_nat by (rewrite app_length; cbn; lia).
  rewrite set_nth_mid. reflexivity.
Qed.

Lemma py_index_mid {T} (l1 : list T) x l2 n : length l1 = n -> py_index (l1 ++ x :: l2) (Z.of_nat n) = Some x.
Proof.
  intros H. subst n. rewrite py_index_nat, nth_error_app2 by lia. rewrite Nat.sub_diag. reflexivity.
Qed.

Lemma skipn_repeat {T} (v : T) : forall n k, skipn k (repeat v n) = repeat v (n - k).
Proof.
  induction n as [|n IH]; intros [|k]; cbn; try reflexivity. apply IH.
Qed.

Lemma assign_prefix_full v n vals :
  (length vals <= n)%nat ->
  assign_prefix (repeat v n) (Z.of_nat (length vals)) vals = Some (vals ++ repeat v (n - length vals)).
Proof.
  intros H. unfold assign_prefix, slice_stop. rewrite repeat_length.
  destruct (Z.of_nat (length vals) <? 0) eqn:E; [apply Z.ltb_lt in E; lia|].
  rewrite Nat2Z.id, Nat.min_l by exact H. rewrite skipn_repeat.
  destruct vals as [|x [|y t]].
  - cbn. reflexivity.
  - cbn. reflexivity.
  - rewrite Nat.eqb_refl. reflexivity.
Qed.

Lemma set_row_prefix_mid (a1 : list (list Z)) a2 v n j vals :
  length a1 = j -> (length vals <= n)%nat ->
  np_set_row_prefix (a1 ++ repeat v n :: a2) (Z.of_nat j) (Z.of_nat (length vals)) vals
  = Done (a1 ++ (vals ++ repeat v (n - length vals)) :: a2).
Proof.
  intros Hj Hl. unfold np_set_row_prefix. rewrite (py_index_mid _ _ _ _ Hj).
  rewrite assign_prefix_full by exact Hl. rewrite (py_set_index_mid _ _ _ _ _ Hj). reflexivity.
Qed.

(* ---------- the row loop ---------- *)
(* the arrays after the sources [done], with k more rows still untouched *)
Definition st_of (dc : list dkey) (sr2 : Z) (done : list spoint) (k : nat) : nll :=
  mk_nll (map (fun sp : spoint => py_len (forward_cands sp)) done ++ repeat 0 k)
         (map (nl_cands_row dc) done ++ repeat (repeat (-1) 9) k)
         (map (nl_dists_row sr2) done ++ repeat (repeat sr2 9) k).

Definition row_ok (dc : list dkey) (sp : spoint) : Prop :=
  (length (forward_cands sp) <= 9)%nat /\ forall c, In c (forward_cands sp) -> fst c = None \/ In (fst c) dc.

Lemma nl_row_ok dc sr2 done sp k :
  row_ok dc sp ->
  nl_row 9 (full_map dc) (Z.of_nat (length done), sp) (st_of dc sr2 done (Datatypes.S k))
  = Normal (st_of dc sr2 (done ++ [sp]) k).
Proof.
  intros [Hl Hk]. unfold nl_row, st_of.
  change (repeat 0 (Datatypes.S k)) with (0 :: repeat 0 k).
  change (repeat (repeat (-1) 9) (Datatypes.S k)) with (repeat (-1) 9 :: repeat (repeat (-1) 9) k).
  change (repeat (repeat sr2 9) (Datatypes.S k)) with (repeat sr2 9 :: repeat (repeat sr2 9) k).
  cbn [fst snd nl_ncands nl_candsarray nl_distsarray].
  rewrite (py_set_index_mid _ _ _ (length done)) by apply map_length.
  rewrite (py_index_mid _ _ _ (length done)) by apply map_length.
  destruct (9 <? py_len (forward_cands sp)) eqn:E; [apply Z.ltb_lt in E; unfold py_len in E; lia|].
  rewrite (map_opt_ext _ (fun c : cand => encd (nl_enc dc) (fst c))).
  2:{ intros c Hc. apply full_map_get. apply Hk. exact Hc. }
  unfold py_len.
  rewrite <- (map_length (fun c : cand => encd (nl_enc dc) (fst c)) (forward_cands sp)) at 1.
  rewrite set_row_prefix_mid; [|apply map_length|rewrite map_length; exact Hl].
  rewrite <- (map_length (fun c : cand => snd c) (forward_cands sp)) at 1.
  rewrite set_row_prefix_mid; [|apply map_length|rewrite map_length; exact Hl].
  rewrite !map_length. rewrite !map_app. cbn [map]. rewrite <- !app_assoc. cbn [app].
  unfold nl_cands_row, nl_dists_row, py_len. reflexivity.
Qed.

Lemma nl_row_raise dc sr2 done sp k :
  (9 < length (forward_cands sp))%nat ->
  nl_row 9 (full_map dc) (Z.of_nat (length done), sp) (st_of dc sr2 done (Datatypes.S k)) = Raise SubnetOversizeException.
Proof.
  intros Hl. unfold nl_row, st_of.
  change (repeat 0 (Datatypes.S k)) with (0 :: repeat 0 k).
  change (repeat (repeat (-1) 9) (Datatypes.S k)) with (repeat (-1) 9 :: repeat (repeat (-1) 9) k).
  change (repeat (repeat sr2 9) (Datatypes.S k)) with (repeat sr2 9 :: repeat (repeat sr2 9) k).
  cbn [fst snd nl_ncands nl_candsarray nl_distsarray].
  rewrite (py_set_index_mid _ _ _ (length done)) by apply map_length.
  rewrite (py_index_mid _ _ _ (length done)) by apply map_length.
  destruct (9 <? py_len (forward_cands sp)) eqn:E; [reflexivity|apply Z.ltb_ge in E; unfold py_len in E; lia].
Qed.

Lemma nl_loop_ok dc sr2 : forall todo done,
  Forall (row_ok dc) todo ->
  for_list (nl_row 9 (full_map dc)) (combine (map Z.of_nat (seq (length done) (length todo))) todo)
           (st_of dc sr2 done (length todo))
  = Normal (st_of dc sr2 (done ++ todo) 0).
Proof.
  induction todo as [|sp todo IH]; intros done H.
  - cbn. rewrite app_nil_r. reflexivity.
  - inversion H as [|? ? Hsp Hrest]; subst.
    cbn [length seq map combine for_list]. rewrite (nl_row_ok dc sr2 done sp (length todo) Hsp).
    specialize (IH (done ++ [sp]) Hrest). rewrite app_length in IH. cbn [length] in IH.
    rewrite Nat.add_1_r in IH. rewrite IH. rewrite <- app_assoc. reflexivity.
Qed.

Lemma nl_loop_raise dc sr2 : forall good done bad rest,
  Forall (row_ok dc) good -> (9 < length (forward_cands bad))%nat ->
  for_list (nl_row 9 (full_map dc))
           (combine (map Z.of_nat (seq (length done) (length (good ++ bad :: rest)))) (good ++ bad :: rest))
           (st_of dc sr2 done (length (good ++ bad :: rest)))
  = Raise SubnetOversizeException.
Proof.
  induction good as [|sp good IH]; intros done bad rest H Hb.
  - cbn [app length seq map combine for_list]. rewrite (nl_row_raise dc sr2 done bad (length rest) Hb). reflexivity.
  - inversion H as [|? ? Hsp Hrest]; subst.
    cbn [app length seq map combine for_list].
    change (length (good ++ bad :: rest)) with (length (good ++ bad :: rest)).
    rewrite (nl_row_ok dc sr2 done sp (length (good ++ bad :: rest)) Hsp).
    specialize (IH (done ++ [sp]) bad rest Hrest Hb). rewrite app_length in IH. cbn [length] in IH.
    rewrite Nat.add_1_r in IH. exact IH.
Qed.

(* ---------- nl_build ---------- *)
Lemma np_full_len {T} (l : list T) v : np_full (py_len l) v = repeat v (length l).
Proof. unfold np_full, py_len. rewrite Nat2Z.id. reflexivity. Qed.

Lemma np_full2_len {T} (l : list T) v : np_full2 (py_len l) 9 v = repeat (repeat v 9) (length l).
Proof. unfold np_full2, py_len. rewrite Nat2Z.id. reflexivity. Qed.

Lemma covers_row_ok set_list (s_sn : list spoint) sp :
  set_list_covers set_list -> In sp s_sn -> (length (forward_cands sp) <= 9)%nat -> row_ok (nl_dcands set_list s_sn) sp.
Proof.
  intros Hc Hin Hl. split; [exact Hl|]. intros c Hcin. right. unfold nl_dcands. apply Hc.
  apply in_flat_map. exists sp. split; [exact Hin|]. apply in_map. exact Hcin.
Qed.

Lemma nl_build_start set_list (s_sn : list spoint) sr2 ms :
  py_len s_sn <= ms ->
  nl_build set_list s_sn sr2 ms
  = match for_list (nl_row 9 (full_map (nl_dcands set_list s_sn))) (py_enumerate s_sn)
                   (st_of (nl_dcands set_list s_sn) sr2 [] (length s_sn)) with
    | Raise e => Fail e
    | Return v => match v with end
    | Normal st | Continue st | Break st => Done (nl_dcands set_list s_sn, st)
    end.
Proof.
  intros Hms. unfold nl_build, py_list.
  destruct (ms <? py_len s_sn) eqn:E; [apply Z.ltb_lt in E; lia|].
  rewrite np_full_len, !np_full2_len. reflexivity.
Qed.

Theorem nl_build_ok set_list (s_sn : list spoint) sr2 ms :
  set_list_covers set_list -> py_len s_sn <= ms ->
  Forall (fun sp : spoint => (length (forward_cands sp) <= 9)%nat) s_sn ->
  nl_build set_list s_sn sr2 ms = Done (nl_dcands set_list s_sn, st_of (nl_dcands set_list s_sn) sr2 s_sn 0).
Proof.
  intros Hc Hms Hl. rewrite nl_build_start by exact Hms. unfold py_enumerate.
  change (seq 0 (length s_sn)) with (seq (length (@nil spoint)) (length s_sn)).
  rewrite nl_loop_ok; [reflexivity|].
  rewrite Forall_forall in *. intros sp Hin. apply (covers_row_ok set_list s_sn sp Hc Hin). apply Hl. exact Hin.
Qed.

Lemma exists_first {T} (P : T -> Prop) (Q : T -> Prop) (l : list T) :
  (forall x, In x l -> P x \/ Q x) -> Exists Q l ->
  exists good bad rest, l = good ++ bad :: rest /\ Forall P good /\ Q bad.
Proof.
  induction l as [|x l IH]; intros Hd Hex; [inversion Hex|].
  destruct (Hd x (or_introl eq_refl)) as [Hp|Hq].
  - assert (Hex' : Exists Q l \/ Q x) by (inversion Hex; auto).
    destruct Hex' as [Hex'|Hq]; [|exists [], x, l; split; [reflexivity|split; [constructor|exact Hq]]].
    destruct (IH (fun y Hy => Hd y (or_intror Hy)) Hex') as [good [bad [rest [E [Hg Hb]]]]].
    exists (x :: good), bad, rest. split; [rewrite E; reflexivity|]. split; [constructor; assumption|exact Hb].
  - exists [], x, l. split; [reflexivity|split; [constructor|exact Hq]].
Qed.

Theorem nl_build_cap set_list (s_sn : list spoint) sr2 ms :
  set_list_covers set_list -> py_len s_sn <= ms ->
  Exists (fun sp : spoint => (9 < length (forward_cands sp))%nat) s_sn ->
  nl_build set_list s_sn sr2 ms = Fail SubnetOversizeException.
Proof.
  intros Hc Hms Hex. rewrite nl_build_start by exact Hms. unfold py_enumerate.
  destruct (exists_first (fun sp : spoint => (length (forward_cands sp) <= 9)%nat)
              (fun sp : spoint => (9 < length (forward_cands sp))%nat) s_sn) as [good [bad [rest [E [Hg Hb]]]]].
  { intros x _. lia. }
  { exact Hex. }
  set (dc := nl_dcands set_list s_sn).
  change (seq 0 (length s_sn)) with (seq (length (@nil spoint)) (length s_sn)).
  rewrite E at 1 2 3. rewrite nl_loop_raise; [reflexivity| |exact Hb].
  rewrite Forall_forall in *. intros sp Hin. apply (covers_row_ok set_list s_sn sp Hc); [|apply Hg; exact Hin].
  rewrite E. apply in_or_app. left. exact Hin.
Qed.

(* (1) the arrays represent the candidate lists *)
Lemma st_of_kernel_inputs dc sr2 (s_sn : list spoint) :
  kernel_inputs (nl_enc dc) (map snd s_sn)
                (nl_ncands (st_of dc sr2 s_sn 0)) (nl_candsarray (st_of dc sr2 s_sn 0)) (nl_distsarray (st_of dc sr2 s_sn 0)).
Proof.
  unfold st_of. cbn [nl_ncands nl_candsarray nl_distsarray repeat]. rewrite !app_nil_r.
  split; [|split].
  - rewrite map_map. reflexivity.
  - rewrite !map_length. reflexivity.
  - intros p cs i c Hp Hi. rewrite nth_error_map in Hp.
    match type of Hp with option_map _ ?t = _ => destruct t as [sp|] eqn:Esp end; cbn in Hp; [|discriminate]. injection Hp as Hp. subst cs.
    assert (Hlt : (i < length (snd sp))%nat) by (apply nth_error_Some; congruence).
    unfold py_index2. rewrite !py_index_nat. rewrite !(map_nth_error _ _ _ Esp).
    unfold nl_cands_row, nl_dists_row, forward_cands. rewrite !py_index_nat.
    rewrite !nth_error_app1 by (rewrite map_length; exact Hlt).
    rewrite (map_nth_error (fun c0 : cand => encd (nl_enc dc) (fst c0)) _ _ Hi).
    rewrite (map_nth_error (fun c0 : cand => snd c0) _ _ Hi). split; reflexivity.
Qed.

Theorem nl_build_kernel_inputs set_list (s_sn : list spoint) sr2 ms :
  set_list_covers set_list -> py_len s_sn <= ms ->
  Forall (fun sp : spoint => (length (snd sp) <= 9)%nat) s_sn ->
  exists dcands st, nl_build set_list s_sn sr2 ms = Done (dcands, st) /\
    dcands = nl_dcands set_list s_sn /\
    (forall d, 0 <= nl_enc dcands d) /\ (forall d d', nl_enc dcands d = nl_enc dcands d' -> d = d') /\
    kernel_inputs (nl_enc dcands) (map snd s_sn) (nl_ncands st) (nl_candsarray st) (nl_distsarray st) /\
    nl_candsarray st = map (nl_cands_row dcands) s_sn /\ nl_distsarray st = map (nl_dists_row sr2) s_sn.
Proof.
  intros Hc Hms Hl. eexists _, _. split; [apply nl_build_ok; assumption|].
  split; [reflexivity|]. split; [apply nl_enc_nonneg|]. split; [apply nl_enc_inj|].
  split; [apply st_of_kernel_inputs|]. unfold st_of. cbn [nl_candsarray nl_distsarray repeat]. rewrite !app_nil_r. split; reflexivity.
Qed.

(* ---------- read-back ---------- *)
Lemma decode_ok dc (a : list cand) :
  (forall c, In c a -> fst c = None \/ In (fst c) dc) ->
  map_opt (nl_decode dc) (map (fun c : cand => encd (nl_enc dc) (fst c)) a) = Some (map fst a).
Proof.
  intros H. rewrite map_opt_map. apply map_opt_ext. intros [[d|] c] Hin; cbn [fst encd].
  - destruct (H _ Hin) as [E|Hd]; [discriminate|]. cbn [fst] in Hd.
    destruct (nl_enc_found dc d Hd) as [i [E Hn]]. unfold nl_decode. rewrite E.
    destruct (0 <=? Z.of_nat i) eqn:E0; [|apply Z.leb_gt in E0; lia]. rewrite py_index_nat. exact Hn.
  - reflexivity.
Qed.

Lemma decode_none dc n : map_opt (nl_decode dc) (repeat (-1) n) = Some (repeat None n).
Proof. induction n as [|n IH]; [reflexivity|]. cbn [repeat map_opt]. rewrite IH. reflexivity. Qed.

Lemma completion_in A : forall taken a, completion A taken a -> forall c, In c a -> exists cs, In cs A /\ In c cs.
Proof.
  induction 1 as [|cs rest taken d c sigma Hin Ht Hc IH]; intros x Hx; [inversion Hx|].
  destruct Hx as [E|Hx].
  - subst x. exists cs. split; [left; reflexivity|exact Hin].
  - destruct (IH x Hx) as [cs' [H1 H2]]. exists cs'. split; [right; exact H1|exact H2].
Qed.

Lemma machine_completion A v a :
  A <> [] -> mrun true true (cost_full A) (minit A) = Some (Some (v, a)) -> completion A [] a.
Proof.
  intros Hne H. rewrite machine_is_recursive_search in H. inversion H as [H'].
  destruct A as [|cs rest]; [congruence|]. unfold solve_g in H'.
  destruct (sg_sound _ _ _ _ _ _ _ _ _ _ H') as [Hb|[sigma [Hc [Hv Ha]]]]; [discriminate|].
  cbn in Ha. subst a. exact Hc.
Qed.

(* ---------- the whole numba path ---------- *)
Definition machine_dests (n : nat) (b : best_t) : list dkey :=
  match b with Some (v, a) => map fst a | None => repeat None n end.

Theorem numba_link_machine set_list fuel (s_sn : list spoint) sr2 ms :
  set_list_covers set_list -> s_sn <> [] -> py_len s_sn <= ms ->
  Forall (fun sp : spoint => (length (snd sp) <= 9)%nat) s_sn ->
  bound_sum (map snd s_sn) <= lit_1e23 -> (cost_full (map snd s_sn) <= fuel)%nat ->
  exists b, mrun true true (cost_full (map snd s_sn)) (minit (map snd s_sn)) = Some b /\
            py_numba_link set_list fuel s_sn sr2 ms = Done (s_sn, machine_dests (length s_sn) b).
Proof.
  intros Hc Hne Hms Hl Hbd Hf. set (A := map snd s_sn) in *.
  set (dc := nl_dcands set_list s_sn).
  assert (HA : A <> []) by (unfold A; destruct s_sn; [congruence|discriminate]).
  assert (HlenA : length A = length s_sn) by (unfold A; apply map_length).
  unfold py_numba_link. rewrite (nl_build_ok set_list s_sn sr2 ms Hc Hms Hl). fold dc.
  unfold py_list. rewrite !np_full_len.
  destruct (py_kernel_machine (nl_enc dc) A (nl_ncands (st_of dc sr2 s_sn 0)) (nl_candsarray (st_of dc sr2 s_sn 0))
              (nl_distsarray (st_of dc sr2 s_sn 0)) (repeat (-1) (length s_sn)) (repeat 0 (length s_sn)) (repeat 0 (length s_sn))
              (repeat (-1) (length s_sn)) fuel)
    as [b [cnt [st' [Hrun [E [Hk _]]]]]];
    try (rewrite repeat_length; symmetry; exact HlenA);
    try (destruct s_sn; [congruence|reflexivity]).
  - apply nl_enc_nonneg.
  - apply nl_enc_inj.
  - apply st_of_kernel_inputs.
  - exact Hbd.
  - exact HA.
  - exact Hf.
  - exists b. split; [exact Hrun|]. rewrite E. unfold kernel_best in Hk. destruct b as [[v a]|].
    + destruct Hk as [_ Hba]. rewrite Hba. rewrite decode_ok; [reflexivity|].
      intros c Hin. right. pose proof (machine_completion A v a HA Hrun) as Hcomp.
      destruct (completion_in A [] a Hcomp c Hin) as [cs [Hcs Hccs]].
      unfold A in Hcs. apply in_map_iff in Hcs. destruct Hcs as [sp [Esp Hsp]]. subst cs.
      unfold dc, nl_dcands. apply Hc. apply in_flat_map. exists sp. split; [exact Hsp|].
      unfold forward_cands. apply in_map. exact Hccs.
    + rewrite Hk. rewrite decode_none. reflexivity.
Qed.

(* (2) a minimum-cost one-to-one assignment, equal in cost to the recursive solver's *)
Theorem numba_link_optimal set_list fuel (s_sn : list spoint) sr2 ms :
  set_list_covers set_list -> s_sn <> [] -> py_len s_sn <= ms ->
  Forall (fun sp : spoint => (length (snd sp) <= 9)%nat) s_sn ->
  bound_sum (map snd s_sn) <= lit_1e23 -> (cost_full (map snd s_sn) <= fuel)%nat ->
  nonneg (map snd s_sn) -> Forall sorted (map snd s_sn) ->
  Forall (fun cs => exists c, In (None, c) cs) (map snd s_sn) ->
  exists a v a',
    py_numba_link set_list fuel s_sn sr2 ms = Done (s_sn, map fst a) /\
    completion (map snd s_sn) [] a /\
    (forall sigma, completion (map snd s_sn) [] sigma -> total a <= total sigma) /\
    solve (map snd s_sn) = Some (v, a') /\ total a = v.
Proof.
  intros Hc Hne Hms Hl Hbd Hf Hn Hso Hnull.
  destruct (numba_link_machine set_list fuel s_sn sr2 ms Hc Hne Hms Hl Hbd Hf) as [b [Hrun E]].
  set (A := map snd s_sn) in *.
  assert (HA : A <> []) by (unfold A; destruct s_sn; [congruence|discriminate]).
  destruct (solve_some A Hn Hso Hnull) as [v [a' Hsolve]].
  destruct (solve_optimal A v a' Hn Hso Hsolve) as [Hc' [Hv' Ho']].
  destruct b as [[w a]|].
  - destruct (iterative_optimal true true A w a HA Hn Hso Hrun) as [Hca [Hw Ho]].
    exists a, v, a'. split; [exact E|]. split; [exact Hca|]. split.
    + intros sigma Hs. rewrite <- Hw. apply Ho. exact Hs.
    + split; [exact Hsolve|]. pose proof (Ho a' Hc'). pose proof (Ho' a Hca). lia.
  - exfalso. destruct (completion_exists A [] Hnull) as [sigma Hcs].
    rewrite machine_is_recursive_search in Hrun. injection Hrun as Hrun.
    destruct A as [|cs rest]; [congruence|]. unfold solve_g in Hrun.
    pose proof (sg_le_all true true rest cs Hn Hso [] 0 [] None sigma Hcs) as Hle. rewrite Hrun in Hle. exact Hle.
Qed.

(* (3) the exceptional exits *)
Theorem numba_link_oversize set_list fuel (s_sn : list spoint) sr2 ms :
  ms < py_len s_sn -> py_numba_link set_list fuel s_sn sr2 ms = Fail SubnetOversizeException.
Proof.
  intros H. unfold py_numba_link, nl_build, py_list.
  destruct (ms <? py_len s_sn) eqn:E; [reflexivity|apply Z.ltb_ge in E; lia].
Qed.

Theorem numba_link_cap set_list fuel (s_sn : list spoint) sr2 ms :
  set_list_covers set_list -> py_len s_sn <= ms ->
  Exists (fun sp : spoint => (9 < length (snd sp))%nat) s_sn ->
  py_numba_link set_list fuel s_sn sr2 ms = Fail SubnetOversizeException.
Proof.
  intros Hc Hms Hex. unfold py_numba_link. rewrite (nl_build_cap set_list s_sn sr2 ms Hc Hms Hex). reflexivity.
Qed.

Theorem numba_link_raises_iff set_list fuel (s_sn : list spoint) sr2 ms :
  set_list_covers set_list -> s_sn <> [] ->
  bound_sum (map snd s_sn) <= lit_1e23 -> (cost_full (map snd s_sn) <= fuel)%nat ->
  (py_numba_link set_list fuel s_sn sr2 ms = Fail SubnetOversizeException <->
   ms < py_len s_sn \/ Exists (fun sp : spoint => (9 < length (snd sp))%nat) s_sn).
Proof.
  intros Hc Hne Hbd Hf. split.
  - intros H. destruct (Z_lt_dec ms (py_len s_sn)) as [Hlt|Hge]; [left; exact Hlt|]. right.
    destruct (Exists_dec (fun sp : spoint => (9 < length (snd sp))%nat) s_sn) as [Hex|Hnex]; [|exact Hex|].
    { intros sp. destruct (lt_dec 9 (length (snd sp))); [left|right]; assumption. }
    exfalso.
    assert (Hl : Forall (fun sp : spoint => (length (snd sp) <= 9)%nat) s_sn).
    { apply Forall_forall. intros sp Hin. destruct (le_dec (length (snd sp)) 9) as [Hle|Hgt]; [exact Hle|].
      exfalso. apply Hnex. apply Exists_exists. exists sp. split; [exact Hin|lia]. }
    destruct (numba_link_machine set_list fuel s_sn sr2 ms Hc Hne ltac:(lia) Hl Hbd Hf) as [b [_ E]]. congruence.
  - intros [Hlt|Hex].
    + apply numba_link_oversize. exact Hlt.
    + destruct (Z_lt_dec ms (py_len s_sn)) as [Hlt|Hge]; [apply numba_link_oversize; exact Hlt|].
      apply numba_link_cap; [exact Hc|lia|exact Hex].
Qed.

Theorem numba_link_empty set_list fuel sr2 ms :
  0 <= ms -> py_numba_link set_list (Datatypes.S fuel) [] sr2 ms = Fail IndexError.
Proof.
  intros H. unfold py_numba_link, nl_build, py_list.
  change (py_len (@nil spoint)) with 0. destruct (ms <? 0) eqn:E; [apply Z.ltb_lt in E; lia|].
  reflexivity.
Qed.

(* list(set) in any order is a covering lister; so is the insertion-order lister used by examples *)
Lemma exact_covers set_list : set_list_exact set_list -> set_list_covers set_list.
Proof. intros H l x Hin. apply (proj2 (H l)). exact Hin. Qed.

Lemma dedup_covers : set_list_covers dedup.
Proof.
  intros l. induction l as [|y l IH]; intros x Hin; [inversion Hin|].
  cbn [dedup]. destruct (opt_eqb y x) eqn:E.
  - apply opt_eqb_eq in E. left. exact E.
  - right. apply filter_In. destruct Hin as [Hy|Hin]; [subst; assert (opt_eqb x x = true) by (apply opt_eqb_eq; reflexivity); congruence|].
    split; [apply IH; exact Hin|]. rewrite E. reflexivity.
Qed.
