(* coords_from_df (stable argsort + unique/split + range walk) yields exactly, for every
   frame number from the smallest to the largest, the rows of that frame in input order. *)
From Coq Require Import ZArith List Bool Lia Permutation.
From TP Require Import Model.Assign Model.Link Model.LinkTable Model.CoordsFromDf Proofs.LinkTable.
Import ListNotations.
Open Scope Z_scope.

Definition ft (t : Z) (r : row) : bool := r_frame r =? t.

Inductive nd : list row -> Prop :=
| nd_nil : nd []
| nd_cons r l : Forall (fun x => r_frame r <= r_frame x) l -> nd l -> nd (r :: l).

(* ---- the stable sort ---- *)
Lemma insert_r_perm r l : Permutation (insert_r r l) (r :: l).
Proof.
  induction l as [|x l IH]; cbn; [apply Permutation_refl|].
  destruct (r_frame x <? r_frame r); [|apply Permutation_refl].
  eapply Permutation_trans; [apply perm_skip; exact IH|apply perm_swap].
Qed.
Lemma sort_rows_perm l : Permutation (sort_rows l) l.
Proof. induction l as [|x l IH]; [constructor|]. change (sort_rows (x :: l)) with (insert_r x (sort_rows l)). eapply Permutation_trans; [apply insert_r_perm|apply perm_skip; exact IH]. Qed.

Lemma insert_r_nd r l : nd l -> nd (insert_r r l).
Proof.
  induction 1 as [|x l Hx Hl IH]; cbn; [repeat constructor|].
  destruct (r_frame x <? r_frame r) eqn:E.
  - apply Z.ltb_lt in E. constructor; [|exact IH].
    rewrite Forall_forall in *. intros y Hy. apply (Permutation_in _ (insert_r_perm r l)) in Hy.
    destruct Hy as [Hy|Hy]; [subst y; lia|apply Hx; exact Hy].
  - apply Z.ltb_ge in E. constructor; [|constructor; assumption].
    constructor; [exact E|]. rewrite Forall_forall in *. intros y Hy. specialize (Hx y Hy). lia.
Qed.
Lemma sort_rows_nd l : nd (sort_rows l).
Proof. induction l as [|x l IH]; [constructor|]. change (sort_rows (x :: l)) with (insert_r x (sort_rows l)). apply insert_r_nd; exact IH. Qed.

(* stability: the rows of one frame keep their input order *)
Lemma filter_insert t r l :
  filter (ft t) (insert_r r l) = if ft t r then r :: filter (ft t) l else filter (ft t) l.
Proof.
  induction l as [|x l IH]; cbn; [destruct (ft t r); reflexivity|].
  destruct (r_frame x <? r_frame r) eqn:E; cbn.
  - rewrite IH. destruct (ft t r) eqn:Er; [|reflexivity].
    assert (ft t x = false). { unfold ft in *. apply Z.eqb_eq in Er. apply Z.ltb_lt in E. apply Z.eqb_neq. lia. }
    rewrite H. reflexivity.
  - destruct (ft t r); reflexivity.
Qed.
Lemma filter_sort t l : filter (ft t) (sort_rows l) = filter (ft t) l.
Proof.
  induction l as [|x l IH]; [reflexivity|]. change (sort_rows (x :: l)) with (insert_r x (sort_rows l)).
  rewrite filter_insert, IH. cbn. reflexivity.
Qed.

(* ---- runs of equal frame ---- *)
Fixpoint runs_ok (lo : Z) (rs : list (Z * list row)) : Prop :=
  match rs with
  | [] => True
  | (t, fr) :: rest => lo <= t /\ fr <> [] /\ Forall (fun r => r_frame r = t) fr /\ runs_ok (t + 1) rest
  end.

Lemma runs_ok_weaken lo lo' rs : lo' <= lo -> runs_ok lo rs -> runs_ok lo' rs.
Proof. destruct rs as [|[t fr] rest]; cbn; [tauto|]. intros H [H1 H2]. split; [lia|exact H2]. Qed.

Lemma runs_concat l : concat (map snd (runs l)) = l.
Proof.
  induction l as [|r l IH]; cbn; [reflexivity|].
  destruct (runs l) as [|[t rs] rest] eqn:E; cbn in *; [rewrite <- IH; reflexivity|].
  destruct (r_frame r =? t); cbn; rewrite <- IH; reflexivity.
Qed.

Lemma runs_nd l : nd l -> forall lo, (forall r, In r l -> lo <= r_frame r) -> runs_ok lo (runs l).
Proof.
  induction 1 as [|r l Hr Hl IH]; intros lo Hlo; cbn; [exact I|].
  assert (IH' : runs_ok (r_frame r) (runs l)).
  { apply IH. rewrite Forall_forall in Hr. exact Hr. }
  assert (Hlor : lo <= r_frame r) by (apply Hlo; left; reflexivity).
  destruct (runs l) as [|[t rs] rest] eqn:E.
  - cbn. repeat split; [exact Hlor|discriminate|repeat constructor].
  - cbn in IH'. destruct IH' as [H1 [H2 [H3 H4]]].
    destruct (r_frame r =? t) eqn:Et.
    + apply Z.eqb_eq in Et. cbn. repeat split; [lia|discriminate|constructor; assumption|exact H4].
    + apply Z.eqb_neq in Et. cbn. repeat split; [exact Hlor|discriminate|repeat constructor|lia|exact H2|exact H3|exact H4].
Qed.

Lemma runs_ok_ge lo rs : runs_ok lo rs -> forall r, In r (concat (map snd rs)) -> lo <= r_frame r.
Proof.
  revert lo; induction rs as [|[t fr] rest IH]; intros lo H r Hr; cbn in *; [destruct Hr|].
  destruct H as [H1 [_ [H3 H4]]]. apply in_app_or in Hr. destruct Hr as [Hr|Hr].
  - rewrite Forall_forall in H3. rewrite (H3 r Hr). exact H1.
  - specialize (IH _ H4 r Hr). lia.
Qed.

(* ---- the range walk ---- *)
Fixpoint zr (t : Z) (n : nat) : list Z := match n with O => [] | S n' => t :: zr (t + 1) n' end.

Lemma zr_ge t n u : In u (zr t n) -> t <= u.
Proof. revert t; induction n as [|n IH]; intros t H; cbn in H; [destruct H|]. destruct H as [H|H]; [lia|specialize (IH _ H); lia]. Qed.

Lemma filter_none t l : (forall r, In r l -> r_frame r <> t) -> filter (ft t) l = [].
Proof.
  induction l as [|x l IH]; intros H; cbn; [reflexivity|].
  assert (ft t x = false) by (unfold ft; apply Z.eqb_neq; apply H; left; reflexivity).
  rewrite H0. apply IH. intros r Hr. apply H. right; exact Hr.
Qed.
Lemma filter_all_t t l : Forall (fun r => r_frame r = t) l -> filter (ft t) l = l.
Proof. induction 1 as [|x l Hx _ IH]; cbn; [reflexivity|]. unfold ft at 1. rewrite Hx, Z.eqb_refl, IH. reflexivity. Qed.

Lemma walk_spec : forall n t rs, runs_ok t rs ->
  walk t n rs = map (fun u => filter (ft u) (concat (map snd rs))) (zr t n).
Proof.
  induction n as [|n IH]; intros t rs Hok; [reflexivity|].
  cbn [walk zr map]. destruct rs as [|[t' fr] rest].
  - cbn. f_equal. rewrite (IH (t + 1) [] I). reflexivity.
  - cbn in Hok. destruct Hok as [H1 [H2 [H3 H4]]]. cbn [map snd concat].
    destruct (t =? t') eqn:E.
    + apply Z.eqb_eq in E. subst t'. f_equal.
      * rewrite filter_app, (filter_all_t t fr H3), filter_none, app_nil_r; [reflexivity|].
        intros r Hr. pose proof (runs_ok_ge _ _ H4 r Hr). lia.
      * rewrite (IH (t + 1) rest H4). apply map_ext_in. intros u Hu. apply zr_ge in Hu.
        rewrite filter_app, (filter_none u fr); [reflexivity|].
        intros r Hr. rewrite Forall_forall in H3. rewrite (H3 r Hr). lia.
    + apply Z.eqb_neq in E. f_equal.
      * symmetry. apply filter_none. intros r Hr.
        assert (Hok' : runs_ok t' ((t', fr) :: rest)) by (cbn; repeat split; [lia|assumption|assumption|assumption]).
        pose proof (runs_ok_ge _ _ Hok' r Hr). cbn in H. lia.
      * assert (Hok' : runs_ok (t + 1) ((t', fr) :: rest)) by (cbn; repeat split; [lia|assumption|assumption|assumption]).
        rewrite (IH (t + 1) _ Hok'). reflexivity.
Qed.

Lemma frames_from_map rows : forall n t, frames_from t n rows = map (fun u => filter (ft u) rows) (zr t n).
Proof. induction n as [|n IH]; intros t; cbn; [reflexivity|]. rewrite IH. reflexivity. Qed.

(* ---- first and last frame number ---- *)
Lemma zmin_attained l d : In (zmin_list l d) (d :: l).
Proof.
  unfold zmin_list. induction l as [|a l IH]; cbn [fold_right]; [left; reflexivity|].
  destruct (Z.min_spec a (fold_right Z.min d l)) as [[_ E]|[_ E]]; rewrite E.
  - right. left. reflexivity.
  - destruct IH as [IH|IH]; [left; exact IH|right; right; exact IH].
Qed.
Lemma zmax_attained l d : In (zmax_list l d) (d :: l).
Proof.
  unfold zmax_list. induction l as [|a l IH]; cbn [fold_right]; [left; reflexivity|].
  destruct (Z.max_spec a (fold_right Z.max d l)) as [[_ E]|[_ E]]; rewrite E.
  - destruct IH as [IH|IH]; [left; exact IH|right; right; exact IH].
  - right. left. reflexivity.
Qed.

Lemma runs_head r l : exists fr rest, runs (r :: l) = (r_frame r, fr) :: rest.
Proof.
  cbn. destruct (runs l) as [|[t rs] rest]; [eauto|]. destruct (r_frame r =? t) eqn:E; [apply Z.eqb_eq in E; subst t|]; eauto.
Qed.

Lemma runs_last_time : forall l d, l <> [] -> fst (last (runs l) d) = r_frame (last l {| r_id := 0; r_frame := 0; r_pos := [] |}).
Proof.
  induction l as [|r l IH]; intros d Hne; [congruence|].
  destruct l as [|r2 l2]; [reflexivity|].
  assert (Hne2 : r2 :: l2 <> []) by discriminate.
  change (last (r :: r2 :: l2) _) with (last (r2 :: l2) {| r_id := 0; r_frame := 0; r_pos := [] |}).
  rewrite <- (IH d Hne2).
  destruct (runs_head r2 l2) as [fr [rest E]].
  cbn [runs]. cbn [runs] in E. rewrite E.
  destruct (r_frame r =? r_frame r2); cbn; destruct rest; reflexivity.
Qed.

Lemma nd_head_min r l : nd (r :: l) -> forall x, In x (r :: l) -> r_frame r <= r_frame x.
Proof. intros H x [E|Hx]; [subst; lia|]. inversion H; subst. rewrite Forall_forall in H2. apply H2. exact Hx. Qed.
Lemma nd_last_max : forall l d, nd l -> forall x, In x l -> r_frame x <= r_frame (last l d).
Proof.
  induction l as [|r l IH]; intros d H x Hx; [destruct Hx|].
  inversion H as [|? ? Hr Hl]; subst. destruct l as [|r2 l2].
  - destruct Hx as [E|[]]. subst. cbn. lia.
  - change (last (r :: r2 :: l2) d) with (last (r2 :: l2) d). destruct Hx as [E|Hx].
    + subst x. rewrite Forall_forall in Hr. pose proof (Hr r2 (or_introl eq_refl)).
      pose proof (IH d Hl r2 (or_introl eq_refl)). lia.
    + apply IH; assumption.
Qed.

Lemma last_in {A} (l : list A) d : l <> [] -> In (last l d) l.
Proof. induction l as [|a l IH]; intros H; [congruence|]. destruct l as [|b l']; [left; reflexivity|]. right. apply IH. discriminate. Qed.

(* ---- main theorem ---- *)
Theorem coords_from_df_spec rows : coords_from_df rows = table_frames rows.
Proof.
  destruct rows as [|r0 rows']; [reflexivity|].
  unfold coords_from_df, table_frames. cbv zeta. set (rows := r0 :: rows').
  set (L := sort_rows rows).
  assert (HP : Permutation L rows) by apply sort_rows_perm.
  assert (Hnd : nd L) by apply sort_rows_nd.
  destruct L as [|h L'] eqn:EL.
  { apply Permutation_nil in HP. discriminate. }
  destruct (runs_head h L') as [fr0 [rest Eruns]]. rewrite Eruns.
  set (ts := map r_frame rows).
  (* smallest and largest frame number *)
  assert (Hlo : zmin_list ts (r_frame r0) = r_frame h).
  { destruct (zmin_le ts (r_frame r0)) as [Hd Hall]. pose proof (zmin_attained ts (r_frame r0)) as Hat.
    assert (Hin_h : In (r_frame h) ts) by (apply in_map; eapply Permutation_in; [exact HP|left; reflexivity]).
    assert (Hmin_h : forall v, In v (r_frame r0 :: ts) -> r_frame h <= v).
    { intros v Hv. assert (Hv' : In v ts) by (destruct Hv as [Hv|Hv]; [subst v; apply in_map; left; reflexivity|exact Hv]).
      apply in_map_iff in Hv'. destruct Hv' as [x [E Hx]]. subst v. apply (nd_head_min h L' Hnd).
      eapply Permutation_in; [apply Permutation_sym; exact HP|exact Hx]. }
    pose proof (Hmin_h _ Hat). pose proof (Hall _ Hin_h). lia. }
  assert (Hhi : zmax_list ts (r_frame r0) = fst (last rest (r_frame h, fr0))).
  { assert (E1 : fst (last rest (r_frame h, fr0)) = fst (last (runs (h :: L')) (r_frame h, fr0))).
    { rewrite Eruns. destruct rest; reflexivity. }
    rewrite E1, (runs_last_time (h :: L') _ ltac:(discriminate)).
    set (lst := last (h :: L') {| r_id := 0; r_frame := 0; r_pos := [] |}).
    destruct (zmax_ge ts (r_frame r0)) as [Hd Hall]. pose proof (zmax_attained ts (r_frame r0)) as Hat.
    assert (Hin_l : In (r_frame lst) ts).
    { apply in_map. eapply Permutation_in; [exact HP|apply last_in; discriminate]. }
    assert (Hmax_l : forall v, In v (r_frame r0 :: ts) -> v <= r_frame lst).
    { intros v Hv. assert (Hv' : In v ts) by (destruct Hv as [Hv|Hv]; [subst v; apply in_map; left; reflexivity|exact Hv]).
      apply in_map_iff in Hv'. destruct Hv' as [x [E Hx]]. subst v. apply nd_last_max; [exact Hnd|].
      eapply Permutation_in; [apply Permutation_sym; exact HP|exact Hx]. }
    pose proof (Hmax_l _ Hat). pose proof (Hall _ Hin_l). lia. }
  rewrite Hlo, Hhi. rewrite <- Eruns.
  rewrite walk_spec.
  - rewrite runs_concat, frames_from_map. apply map_ext. intros u. rewrite <- EL. apply filter_sort.
  - apply runs_nd; [exact Hnd|]. intros r Hr. apply (nd_head_min h L' Hnd). exact Hr.
Qed.
