(* Proofs for C09: equivariance of the discrete locate pipeline under translation
   inside a blank canvas and (maxima stage) under transposition; batch = tagged
   concatenation for either map function; monitor soundness; F13 witness. *)
From Coq Require Import ZArith NArith QArith Qabs List Bool Arith Lia Permutation.
From TP Require Import Model.Dilation Model.COM Model.Equivariance Proofs.COM Proofs.Dilation.
Import ListNotations.
Open Scope Z_scope.

(* ===================================================================== batch *)
Section BatchProofs.
  Variables frame row : Type.
  Variable locate : frame -> list row.
  Variable frame_no : frame -> option nat.

  Lemma batch_loop_spec : forall seen fs pre acc,
    concat (batch_loop frame row frame_no (pre ++ fs) (length pre)
                       (map Some (run_map (located frame row locate frame_no seen) fs)) acc) =
    concat acc ++ tagged_from frame row locate frame_no (length pre) fs.
  Proof.
    intros seen fs. induction fs as [|f fs IH]; intros pre acc; cbn.
    - rewrite app_nil_r. reflexivity.
    - assert (E : nth_error (pre ++ f :: fs) (length pre) = Some f).
      { rewrite nth_error_app2 by lia. rewrite Nat.sub_diag. reflexivity. }
      rewrite E.
      assert (T : (match (if seen then frame_no f else None) with
                   | Some k => k
                   | None => match frame_no f with Some k => k | None => length pre end
                   end) = number_of frame frame_no (length pre) f).
      { unfold number_of. destruct seen; destruct (frame_no f); reflexivity. }
      rewrite T.
      replace (pre ++ f :: fs) with ((pre ++ [f]) ++ fs) by (rewrite <- app_assoc; reflexivity).
      replace (S (length pre)) with (length (pre ++ [f])) by (rewrite app_length; cbn; lia).
      unfold run_map in IH. rewrite IH.
      destruct (map (fun x => (x, number_of frame frame_no (length pre) f)) (locate f)) as [|r0 rs] eqn:Em.
      + reflexivity.
      + rewrite concat_app. cbn [concat]. rewrite app_nil_r, <- app_assoc. reflexivity.
  Qed.

  (* in-process map: batch is the tagged concatenation, whether or not locate saw frame_no *)
  Theorem batch_map_spec : forall seen frames,
    batch_map frame row locate frame_no seen frames = tagged_from frame row locate frame_no 0 frames.
  Proof.
    intros. unfold batch_map. exact (batch_loop_spec seen frames [] []).
  Qed.

  Lemma find_completed : forall (A B : Type) (g : A -> B) (xs : list A) i x sched,
    nth_error xs i = Some x -> In i sched ->
    find (fun c : nat * B => Nat.eqb (fst c) i)
         (flat_map (fun j => match nth_error xs j with Some y => [(j, g y)] | None => [] end) sched) = Some (i, g x).
  Proof.
    intros A B g xs i x sched Hx. induction sched as [|j sched IH]; intros Hin; [destruct Hin|].
    cbn [flat_map]. destruct (Nat.eq_dec j i) as [->|Hne].
    - rewrite Hx. cbn. rewrite Nat.eqb_refl. reflexivity.
    - destruct Hin as [E|Hin]; [congruence|].
      destruct (nth_error xs j); cbn.
      + destruct (Nat.eqb_spec j i); [congruence|]. apply IH, Hin.
      + apply IH, Hin.
  Qed.

  Lemma map_nth_error_seq : forall (A B : Type) (g : A -> B) (xs : list A),
    map (fun i => option_map g (nth_error xs i)) (seq 0 (length xs)) = map Some (map g xs).
  Proof.
    intros A B g xs. induction xs as [|x xs IH]; [reflexivity|].
    cbn [length seq map]. cbn [nth_error option_map]. f_equal.
    rewrite <- seq_shift, map_map. exact IH.
  Qed.

  (* Pool.imap hands out exactly what map computes, whatever the completion order *)
  Theorem imap_is_map : forall (A B : Type) (sched : list nat) (g : A -> B) (xs : list A),
    (forall i, (i < length xs)%nat -> In i sched) ->
    run_imap sched g xs = map Some (run_map g xs).
  Proof.
    intros A B sched g xs Hs. unfold run_imap, run_map. rewrite <- map_nth_error_seq.
    apply map_ext_in. intros i Hi. apply in_seq in Hi.
    destruct (nth_error xs i) as [x|] eqn:Ex.
    - rewrite (find_completed A B g xs i x sched Ex) by (apply Hs; lia). reflexivity.
    - apply nth_error_None in Ex. lia.
  Qed.

  Theorem batch_imap_spec : forall sched seen frames,
    (forall i, (i < length frames)%nat -> In i sched) ->
    batch_imap frame row locate frame_no sched seen frames = tagged_from frame row locate frame_no 0 frames.
  Proof.
    intros sched seen frames Hs. unfold batch_imap. rewrite imap_is_map by exact Hs.
    exact (batch_loop_spec seen frames [] []).
  Qed.

  (* any number of workers, any completion order, attribute visible to the worker or not *)
  Corollary batch_process_independent : forall sched seen seen' frames,
    (forall i, (i < length frames)%nat -> In i sched) ->
    batch_imap frame row locate frame_no sched seen frames = batch_map frame row locate frame_no seen' frames.
  Proof. intros. rewrite batch_imap_spec, batch_map_spec by assumption. reflexivity. Qed.
End BatchProofs.

(* ================================================================ F13 witness *)
Lemma ecc_num_transpose_diff : forall u l c r d,
  ecc_num cos3 sin3 [u; l; c; r; d] - ecc_num cos3 sin3 (nb_transpose [u; l; c; r; d]) = 4 * c * (l + r - u - d).
Proof. intros. unfold ecc_num, wsum, cos3, sin3, nb_transpose, zsum. cbn [combine map fold_right fst snd]. ring. Qed.

Theorem ecc_transpose_refuted :
  exists nb, zsum (nb_transpose nb) = zsum nb /\ nth 2 (nb_transpose nb) 0 = nth 2 nb 0 /\
             ecc_num cos3 sin3 (nb_transpose nb) <> ecc_num cos3 sin3 nb.
Proof. exists [10; 20; 50; 20; 10]. repeat split. vm_compute. discriminate. Qed.

(* ==================================================================== monitor *)
Open Scope Q_scope.
Definition near_P (tol a b : Q) : Prop := Qabs (a - b) <= tol * (1 + Qabs a).
Definition near_opt_P (tol : Q) (a b : option Q) : Prop :=
  match a, b with
  | None, None => True
  | Some x, Some y => near_P tol x y
  | _, _ => False
  end.
(* row b is row a with the position moved by d (to tolp), the exact columns equal,
   the float statistics equal to tol, NaN exactly where a has NaN *)
Definition trow_related (tolp tol : Q) (d : list Q) (a b : trow) : Prop :=
  Forall2 (fun xd y => near_P tolp (fst xd + snd xd) y) (combine (fst (fst a)) d) (fst (fst b)) /\
  Forall2 Qeq (snd (fst a)) (snd (fst b)) /\
  Forall2 (near_opt_P tol) (snd a) (snd b).
Close Scope Q_scope.

Lemma all2_Forall2 : forall (A B : Type) (f : A -> B -> bool) (R : A -> B -> Prop),
  (forall a b, f a b = true -> R a b) -> forall l m, Equivariance.all2 f l m = true -> Forall2 R l m.
Proof.
  intros A B f R H. induction l as [|a l IH]; intros [|b m] E; cbn in E; try discriminate; constructor.
  - apply H. apply andb_prop in E. tauto.
  - apply IH. apply andb_prop in E. tauto.
Qed.

Lemma near_sound : forall tol a b, near tol a b = true -> near_P tol a b.
Proof. intros. unfold near in H. apply Qle_bool_iff in H. exact H. Qed.

Lemma row_code_sound : forall tolp tol d a b, row_code tolp tol d a b = 0%N -> trow_related tolp tol d a b.
Proof.
  intros tolp tol d [[pa ea] fa] [[pb eb] fb]. unfold row_code, trow_related. cbn [fst snd].
  destruct (Equivariance.all2 _ (combine pa d) pb) eqn:E1; cbn [negb]; [|discriminate].
  destruct (Equivariance.all2 Qeq_bool ea eb) eqn:E2; cbn [negb]; [|discriminate].
  destruct (Equivariance.all2 (near_opt tol) fa fb) eqn:E3; cbn [negb]; [|discriminate].
  intros _. repeat split.
  - eapply all2_Forall2; [|exact E1]. intros x y H. apply near_sound, H.
  - eapply all2_Forall2; [|exact E2]. intros x y H. apply Qeq_bool_iff, H.
  - eapply all2_Forall2; [|exact E3]. intros [x|] [y|] H; cbn in *; try discriminate; auto. apply near_sound, H.
Qed.

Lemma table_code_sound : forall tolp tol d A B, table_code tolp tol d A B = 0%N -> Forall2 (trow_related tolp tol d) A B.
Proof.
  induction A as [|a A IH]; intros [|b B] E; cbn in E; try discriminate; constructor.
  - apply row_code_sound. destruct (row_code tolp tol d a b); [reflexivity|cbn in E; discriminate].
  - apply IH. destruct (row_code tolp tol d a b); [exact E|cbn in E; discriminate].
Qed.

Theorem check_moved_sound : forall tolp tol d A B,
  check_moved tolp tol d A B = 0%N -> Forall2 (trow_related tolp tol d) A B.
Proof.
  intros. unfold check_moved in H.
  match type of H with context [forallb ?f A] => destruct (forallb f A) end; simpl negb in H; cbv iota in H; [|discriminate].
  apply table_code_sound, H.
Qed.

Theorem check_transposed_sound : forall tolp tol A B,
  check_transposed tolp tol A B = 0%N ->
  exists z, Forall2 (trow_related tolp tol z) A (map rev_pos B) /\ Forall (fun q => q = 0%Q) z.
Proof.
  intros. unfold check_transposed in H. eexists. split; [apply table_code_sound, H|].
  apply Forall_forall. intros q Hq. apply repeat_spec in Hq. exact Hq.
Qed.

(* ============================================================ vector lemmas *)
Lemma vadd_length : forall p d, length p = length d -> length (vadd p d) = length d.
Proof. induction p as [|x p IH]; intros [|y d] H; cbn in *; try discriminate; auto. Qed.

Lemma vsub_length : forall q d, length q = length d -> length (vsub q d) = length d.
Proof. induction q as [|x q IH]; intros [|y d] H; cbn in *; try discriminate; auto. Qed.

Lemma vadd_vsub : forall q d, length q = length d -> vadd (vsub q d) d = q.
Proof.
  induction q as [|x q IH]; intros [|y d] H; cbn in *; try discriminate; auto.
  f_equal; [lia|apply IH; lia].
Qed.

Lemma vadd_inj : forall p p' d, length p = length d -> length p' = length d -> vadd p d = vadd p' d -> p = p'.
Proof.
  induction p as [|x p IH]; intros [|x' p'] [|y d] H1 H2 E; cbn in *; try discriminate; auto.
  inversion E. f_equal; [lia|apply (IH p' d); [lia|lia|assumption]].
Qed.

Lemma ix_vadd : forall c d k, length c = length d -> ix (vadd c d) k = ix c k + ix d k.
Proof.
  unfold ix. induction c as [|x c IH]; intros [|y d] k H; cbn in *; try discriminate.
  - destruct k; reflexivity.
  - destruct k; [reflexivity|]. apply IH. lia.
Qed.

Lemma list_eq_ix : forall a b : list Z, length a = length b -> (forall k, (k < length a)%nat -> ix a k = ix b k) -> a = b.
Proof.
  unfold ix. induction a as [|x a IH]; intros [|y b] H E; cbn in *; try discriminate; auto.
  f_equal.
  - apply (E 0%nat). lia.
  - apply IH; [lia|]. intros k Hk. apply (E (S k)). lia.
Qed.

Lemma NoDup_map_inj_in : forall (A B : Type) (f : A -> B) (l : list A),
  (forall x y, In x l -> In y l -> f x = f y -> x = y) -> NoDup l -> NoDup (map f l).
Proof.
  induction l as [|a l IH]; intros Hinj Hn; cbn; [constructor|].
  inversion Hn; subst. constructor.
  - intros Hin. apply in_map_iff in Hin. destruct Hin as [x [E Hx]].
    assert (x = a) by (apply Hinj; [right; exact Hx|left; reflexivity|exact E]). subst. contradiction.
  - apply IH; [|assumption]. intros x y Hx Hy. apply Hinj; right; assumption.
Qed.

Lemma filter_map_comm : forall (A B : Type) (f : B -> bool) (g : A -> B) (l : list A),
  filter f (map g l) = map g (filter (fun x => f (g x)) l).
Proof. induction l as [|a l IH]; cbn; [reflexivity|]. destruct (f (g a)); cbn; rewrite IH; reflexivity. Qed.

Lemma Forall3_length : forall (A B C : Type) (R : A -> B -> C -> Prop) a b c,
  Forall3 R a b c -> length a = length b /\ length b = length c.
Proof. intros. induction H; cbn; lia. Qed.

Lemma in_box_vadd : forall sizes p q d,
  length p = length d -> length q = length d -> length sizes = length d ->
  (in_box sizes (vadd p d) (vadd q d) <-> in_box sizes p q).
Proof.
  unfold in_box. induction sizes as [|s sizes IH]; intros [|i p] [|j q] [|e d] H1 H2 H3; cbn in *; try discriminate.
  - split; constructor.
  - split; intros H; inversion H; subst; constructor; try lia; apply (IH p q d); try lia; assumption.
Qed.

Lemma in_bounds_vadd_len : forall sh p, in_bounds sh p -> length p = length sh.
Proof. exact in_bounds_length. Qed.

(* ======================================= maxima stage under translation *)
(* every non-zero pixel lies inside the declared shape and keeps the margin from the edge *)
Definition content_inside (mg : list Z) (im : image) : Prop :=
  forall p, pix im p <> 0 -> in_bounds (shape im) p /\ outside_margin (shape im) mg p.

Definition nzb (v : Z) : bool := negb (v =? 0).

Lemma not_black_as_map : forall im,
  not_black im = map (pix im) (filter (fun p => nzb (pix im p)) (coords (shape im))).
Proof. intros. unfold not_black. apply filter_map_comm. Qed.

Section MovedMaxima.
  Variable percentile : list Z -> Q.
  Hypothesis percentile_perm : forall l l', Permutation l l' -> percentile l = percentile l'.
  Hypothesis percentile_nonneg : forall l, (forall v, In v l -> 0 <= v) -> (0 <= percentile l)%Q.

  Variables (d : list Z) (im1 im2 : image) (mg : list Z).
  Hypothesis Hmoved : moved d im1 im2.
  Hypothesis Hd : length d = length (shape im1).
  Hypothesis Hin1 : content_inside mg im1.
  Hypothesis Hin2 : content_inside mg im2.

  Let n := length (shape im1).

  Lemma pix2_vadd : forall p, length p = n -> pix im2 (vadd p d) = pix im1 p.
  Proof. intros. apply Hmoved. exact H. Qed.

  Lemma pix2_any : forall q, length q = n -> pix im2 q = pix im1 (vsub q d).
  Proof.
    intros q Hq. rewrite <- (vadd_vsub q d) at 1 by (unfold n in Hq; lia).
    apply pix2_vadd. rewrite vsub_length; unfold n in *; lia.
  Qed.

  Lemma shape2_len : length (shape im2) = n.
  Proof. apply Hmoved. Qed.

  Lemma support_moved :
    Permutation (filter (fun p => nzb (pix im2 p)) (coords (shape im2)))
                (map (fun p => vadd p d) (filter (fun p => nzb (pix im1 p)) (coords (shape im1)))).
  Proof.
    apply NoDup_Permutation.
    - apply NoDup_filter, nodup_coords.
    - apply NoDup_map_inj_in; [|apply NoDup_filter, nodup_coords].
      intros x y Hx Hy E. apply filter_In in Hx, Hy. destruct Hx as [Hx _], Hy as [Hy _].
      apply in_coords, in_bounds_length in Hx. apply in_coords, in_bounds_length in Hy.
      apply (vadd_inj x y d); [lia|lia|exact E].
    - intros q. rewrite filter_In, in_map_iff. unfold nzb. split.
      + intros [Hq Hnz]. apply in_coords in Hq. pose proof (in_bounds_length _ _ Hq) as HL.
        rewrite shape2_len in HL.
        exists (vsub q d). split; [apply vadd_vsub; unfold n in HL; lia|].
        apply filter_In. rewrite <- pix2_any by exact HL. split; [|exact Hnz].
        apply in_coords. apply Hin1. rewrite <- pix2_any by exact HL.
        apply negb_true_iff, Z.eqb_neq in Hnz. exact Hnz.
      + intros [p [<- Hp]]. apply filter_In in Hp. destruct Hp as [Hp Hnz].
        apply in_coords in Hp. pose proof (in_bounds_length _ _ Hp) as HL.
        rewrite pix2_vadd by exact HL. split; [|exact Hnz].
        apply in_coords. apply Hin2. rewrite pix2_vadd by exact HL.
        apply negb_true_iff, Z.eqb_neq in Hnz. exact Hnz.
  Qed.

  (* the non-zero pixels are the same multiset *)
  Lemma not_black_moved : Permutation (not_black im2) (not_black im1).
  Proof.
    rewrite !not_black_as_map.
    eapply Permutation_trans; [apply Permutation_map, support_moved|].
    rewrite map_map. erewrite map_ext_in; [apply Permutation_refl|].
    intros p Hp. apply filter_In in Hp. destruct Hp as [Hp _].
    apply in_coords, in_bounds_length in Hp. apply pix2_vadd. exact Hp.
  Qed.

  Hypothesis Hpos : forall p, 0 <= pix im1 p.

  Lemma threshold_moved : percentile (not_black im2) = percentile (not_black im1).
  Proof. apply percentile_perm, not_black_moved. Qed.

  Lemma threshold_nonneg : (0 <= percentile (not_black im1))%Q.
  Proof.
    apply percentile_nonneg. intros v Hv. unfold not_black in Hv. apply filter_In in Hv.
    destruct Hv as [Hv _]. apply in_map_iff in Hv. destruct Hv as [p [<- _]]. apply Hpos.
  Qed.

  Lemma above_threshold_nonzero : forall v, (percentile (not_black im1) < inject_Z v)%Q -> v <> 0.
  Proof.
    intros v Hv E. subst v. pose proof threshold_nonneg as H0.
    apply (Qlt_irrefl 0). eapply Qle_lt_trans; [exact H0|exact Hv].
  Qed.

  Variable sizes : list Z.
  Hypothesis Hsizes : length sizes = n.
  Hypothesis Hmg : length mg = n.

  Lemma admissible_moved : forall p, length p = n ->
    (admissible im2 sizes mg (percentile (not_black im2)) (vadd p d) <->
     admissible im1 sizes mg (percentile (not_black im1)) p).
  Proof.
    intros p HL. unfold admissible. rewrite threshold_moved, pix2_vadd by exact HL. split.
    - intros [Hb [Ht [Hm Ho]]].
      pose proof (above_threshold_nonzero _ Ht) as Hnz. destruct (Hin1 p Hnz) as [Hb1 Ho1].
      repeat split; try assumption.
      intros q Hq. pose proof (Forall3_length _ _ _ _ _ _ _ Hq) as [L1 L2].
      rewrite <- (pix2_vadd q) by lia. apply Hm.
      apply in_box_vadd; unfold n in *; try lia. exact Hq.
    - intros [Hb [Ht [Hm Ho]]].
      pose proof (above_threshold_nonzero _ Ht) as Hnz.
      assert (Hnz2 : pix im2 (vadd p d) <> 0) by (rewrite pix2_vadd by exact HL; exact Hnz).
      destruct (Hin2 _ Hnz2) as [Hb2 Ho2].
      repeat split; try assumption.
      intros q Hq. pose proof (Forall3_length _ _ _ _ _ _ _ Hq) as [L1 L2].
      rewrite vadd_length in L2 by (unfold n in *; lia).
      rewrite pix2_any by (unfold n in *; lia). apply Hm.
      apply (in_box_vadd sizes p (vsub q d) d); unfold n in *; try lia.
      + rewrite vsub_length; lia.
      + rewrite vadd_vsub by lia. exact Hq.
  Qed.
End MovedMaxima.

Section MovedLocate.
  Variable percentile : list Z -> Q.
  Hypothesis percentile_perm : forall l l', Permutation l l' -> percentile l = percentile l'.
  Hypothesis percentile_nonneg : forall l, (forall v, In v l -> 0 <= v) -> (0 <= percentile l)%Q.

  Variables (d : list Z) (im1 im2 : image) (P : lparams).
  Hypothesis Hmoved : moved d im1 im2.
  Hypothesis Hd : length d = length (shape im1).
  Hypothesis Hsep : length (lp_sep P) = length (shape im1).
  Hypothesis Hmg : length (lp_margin P) = length (shape im1).
  Hypothesis Hsz : Forall (fun s => 1 <= s) (sizes_of im1 (lp_sep P)).
  Hypothesis Hin1 : content_inside (lp_margin P) im1.
  Hypothesis Hin2 : content_inside (lp_margin P) im2.
  Hypothesis Hpos : forall p, 0 <= pix im1 p.

  Lemma sizes_of_moved : sizes_of im2 (lp_sep P) = sizes_of im1 (lp_sep P).
  Proof. unfold sizes_of. destruct Hmoved as [E _]. rewrite E. reflexivity. Qed.

  Lemma maxima_spec1 : forall p,
    In p (find_maxima percentile P im1) <->
    not_black im1 <> [] /\ admissible im1 (sizes_of im1 (lp_sep P)) (lp_margin P) (percentile (not_black im1)) p.
  Proof.
    intros p. unfold find_maxima.
    pose proof (maxima_exact percentile false im1 (lp_sep P) (Some (lp_margin P)) p) as H.
    cbv zeta in H. rewrite convert_to_int_integer in H. cbn [eff_margin] in H. apply H; assumption.
  Qed.

  Lemma maxima_spec2 : forall p,
    In p (find_maxima percentile P im2) <->
    not_black im2 <> [] /\ admissible im2 (sizes_of im1 (lp_sep P)) (lp_margin P) (percentile (not_black im2)) p.
  Proof.
    intros p. unfold find_maxima.
    pose proof (maxima_exact percentile false im2 (lp_sep P) (Some (lp_margin P)) p) as H.
    cbv zeta in H. rewrite convert_to_int_integer in H. cbn [eff_margin] in H.
    rewrite sizes_of_moved in H. destruct Hmoved as [E _]. apply H; try rewrite E; assumption.
  Qed.

  Lemma not_black_nil_iff : not_black im2 <> [] <-> not_black im1 <> [].
  Proof.
    pose proof (not_black_moved d im1 im2 (lp_margin P) Hmoved Hd Hin1 Hin2) as Hp.
    split; intros H E; apply H; rewrite E in Hp.
    - apply Permutation_nil, Permutation_sym. exact Hp.
    - apply Permutation_nil. exact Hp.
  Qed.

  (* (1) the maxima found on the moved image are exactly the moved maxima *)
  Theorem maxima_moved : forall q,
    In q (find_maxima percentile P im2) <-> exists p, q = vadd p d /\ In p (find_maxima percentile P im1).
  Proof.
    intros q.
    assert (Hs : length (sizes_of im1 (lp_sep P)) = length (shape im1)).
    { unfold sizes_of. rewrite map_length. exact Hsep. }
    pose proof (admissible_moved percentile percentile_perm percentile_nonneg d im1 im2 (lp_margin P)
                  Hmoved Hd Hin1 Hin2 Hpos (sizes_of im1 (lp_sep P)) Hs Hmg) as HA.
    rewrite maxima_spec2. split.
    - intros [Hnb Had].
      assert (HL : length q = length (shape im1)).
      { destruct Had as [Hb _]. apply in_bounds_length in Hb. destruct Hmoved as [E _]. lia. }
      exists (vsub q d). split; [symmetry; apply vadd_vsub; lia|].
      apply maxima_spec1. split; [apply not_black_nil_iff, Hnb|].
      apply HA; [rewrite vsub_length; lia|]. rewrite vadd_vsub by lia. exact Had.
    - intros [p [-> Hp]]. apply maxima_spec1 in Hp. destruct Hp as [Hnb Had].
      split; [apply not_black_nil_iff, Hnb|].
      apply HA; [|exact Had]. destruct Had as [Hb _]. apply in_bounds_length in Hb. exact Hb.
  Qed.

  Lemma maxima_length : forall p, In p (find_maxima percentile P im1) -> length p = length (shape im1).
  Proof. intros p Hp. apply maxima_spec1 in Hp. destruct Hp as [_ [Hb _]]. apply in_bounds_length, Hb. Qed.

  Corollary maxima_moved_perm :
    Permutation (find_maxima percentile P im2) (map (fun p => vadd p d) (find_maxima percentile P im1)).
  Proof.
    apply NoDup_Permutation.
    - apply maxima_nodup.
    - apply NoDup_map_inj_in; [|apply maxima_nodup].
      intros x y Hx Hy E. apply maxima_length in Hx, Hy. apply (vadd_inj x y d); [lia|lia|exact E].
    - intros q. rewrite maxima_moved, in_map_iff. split; intros [p [E Hp]]; exists p; split; auto.
  Qed.
End MovedLocate.

(* ==================================== refinement (Model/COM) under translation *)
(* the window may move k more steps in any direction without touching the clip bounds *)
Definition room (radius sh : list Z) (k : nat) (c : list Z) : Prop :=
  forall j, (j < length radius)%nat ->
    ix radius j + Z.of_nat k <= ix c j <= ix sh j - 1 - ix radius j - Z.of_nat k.

Lemma r_shift1_add : forall t c e o, r_shift1 t (c + e) o = r_shift1 t c o + e.
Proof. intros. unfold r_shift1. destruct (Qltb t o), (Qltb o (- t)); lia. Qed.

Lemma r_shift1_near : forall t c o, c - 1 <= r_shift1 t c o <= c + 1.
Proof. intros. unfold r_shift1. destruct (Qltb t o), (Qltb o (- t)); lia. Qed.

Lemma r_clip1_id : forall c lo hi, lo <= c <= hi -> r_clip1 c lo hi = c.
Proof. intros. unfold r_clip1. lia. Qed.

Lemma ix_map_seq_out : forall (f : nat -> Z) n k, (n <= k)%nat -> ix (map f (seq 0 n)) k = 0.
Proof. intros. unfold ix. apply nth_overflow. rewrite map_length, seq_length. exact H. Qed.

Section MovedRefine.
  Variables pix1 pix2 raw1 raw2 : list Z -> Z.
  Variables (radius sh1 sh2 d : list Z) (thresh : Q) (mask : list Z -> bool).
  Let n := length radius.
  Hypothesis Hd : length d = n.
  Hypothesis Hpix : forall p, length p = n -> pix2 (vadd p d) = pix1 p.
  Hypothesis Hraw : forall p, length p = n -> raw2 (vadd p d) = raw1 p.

  Lemma at_win_vadd : forall c p, length c = n -> at_win radius (vadd c d) p = vadd (at_win radius c p) d.
  Proof.
    intros c p Hc. unfold at_win, dims, ndim. fold n.
    apply list_eq_ix.
    - rewrite vadd_length; rewrite map_length, seq_length; lia.
    - intros k Hk. rewrite map_length, seq_length in Hk.
      rewrite ix_vadd by (rewrite map_length, seq_length; lia).
      rewrite !ix_map_seq by exact Hk. rewrite ix_vadd by lia. lia.
  Qed.

  Lemma at_win_length : forall c p, length (at_win radius c p) = n.
  Proof. intros. unfold at_win, dims, ndim. rewrite map_length, seq_length. reflexivity. Qed.

  Lemma nbh_moved : forall c p, length c = n -> nbh pix2 radius mask (vadd c d) p = nbh pix1 radius mask c p.
  Proof.
    intros c p Hc. unfold nbh. destruct (mask p); [|reflexivity].
    rewrite at_win_vadd by exact Hc. apply Hpix, at_win_length.
  Qed.

  Lemma nb_sum_moved : forall c, length c = n -> nb_sum pix2 radius mask (vadd c d) = nb_sum pix1 radius mask c.
  Proof. intros c Hc. unfold nb_sum. f_equal. apply map_ext. intros p. apply nbh_moved, Hc. Qed.

  Lemma nb_moment_moved : forall c k, length c = n ->
    nb_moment pix2 radius mask (vadd c d) k = nb_moment pix1 radius mask c k.
  Proof. intros c k Hc. unfold nb_moment. f_equal. apply map_ext. intros p. rewrite nbh_moved by exact Hc. reflexivity. Qed.

  Lemma safe_com_moved : forall c, length c = n -> safe_com pix2 radius mask (vadd c d) = safe_com pix1 radius mask c.
  Proof.
    intros c Hc. unfold safe_com. rewrite nb_sum_moved by exact Hc.
    destruct (nb_sum pix1 radius mask c =? 0); [reflexivity|].
    apply map_ext. intros k. rewrite nb_moment_moved by exact Hc. reflexivity.
  Qed.

  (* positions: every component moved by d, as rationals *)
  Lemma cmi_moved : forall (off : nat -> Q) c, length c = n ->
    pos_moved d (map (fun k => (off k + inject_Z (ix c k))%Q) (seq 0 n))
                (map (fun k => (off k + inject_Z (ix (vadd c d) k))%Q) (seq 0 n)).
  Proof.
    intros off c Hc. split; [rewrite !map_length; reflexivity|].
    intros k Hk. rewrite map_length, seq_length in Hk.
    rewrite !qx_map_seq by exact Hk. rewrite ix_vadd by lia. rewrite inject_Z_plus. ring.
  Qed.

  Lemma ref_loop_moved : forall k c, length c = n -> room radius sh1 k c -> room radius sh2 k (vadd c d) ->
    let s1 := ref_loop pix1 radius sh1 thresh mask k c in
    let s2 := ref_loop pix2 radius sh2 thresh mask k (vadd c d) in
    r_rect s2 = vadd (r_rect s1) d /\ length (r_rect s1) = n /\ pos_moved d (r_cmi s1) (r_cmi s2).
  Proof.
    induction k as [|k IH]; intros c Hc R1 R2; cbn zeta; cbn [ref_loop];
      rewrite safe_com_moved by exact Hc; unfold dims, ndim; fold n;
      set (off := map (fun j => (qx (safe_com pix1 radius mask c) j - inject_Z (ix radius j))%Q) (seq 0 n));
      destruct (all_lt thresh off).
    - cbn. split; [reflexivity|]. split; [exact Hc|]. apply (cmi_moved (fun j => qx off j) c Hc).
    - cbn. split; [reflexivity|]. split; [exact Hc|]. apply (cmi_moved (fun j => qx off j) c Hc).
    - cbn. split; [reflexivity|]. split; [exact Hc|]. apply (cmi_moved (fun j => qx off j) c Hc).
    - set (c1 := map (fun j => r_clip1 (r_shift1 thresh (ix c j) (qx off j)) (ix radius j) (upper radius sh1 j)) (seq 0 n)).
      set (c2 := map (fun j => r_clip1 (r_shift1 thresh (ix (vadd c d) j) (qx off j)) (ix radius j) (upper radius sh2 j)) (seq 0 n)).
      assert (E1 : forall j, (j < n)%nat -> ix c1 j = r_shift1 thresh (ix c j) (qx off j)).
      { intros j Hj. unfold c1. rewrite ix_map_seq by exact Hj. apply r_clip1_id.
        pose proof (R1 j Hj). pose proof (r_shift1_near thresh (ix c j) (qx off j)). unfold upper. lia. }
      assert (E2 : forall j, (j < n)%nat -> ix c2 j = r_shift1 thresh (ix c j) (qx off j) + ix d j).
      { intros j Hj. unfold c2. rewrite ix_map_seq by exact Hj. rewrite <- r_shift1_add, <- ix_vadd by lia.
        apply r_clip1_id.
        pose proof (R2 j Hj). pose proof (r_shift1_near thresh (ix (vadd c d) j) (qx off j)). unfold upper. lia. }
      assert (L1 : length c1 = n) by (unfold c1; rewrite map_length, seq_length; reflexivity).
      assert (Ec : c2 = vadd c1 d).
      { apply list_eq_ix.
        - unfold c2. rewrite map_length, seq_length, vadd_length; lia.
        - intros j Hj. unfold c2 in Hj. rewrite map_length, seq_length in Hj.
          rewrite ix_vadd by lia. rewrite E1, E2 by exact Hj. reflexivity. }
      rewrite Ec. apply IH.
      + exact L1.
      + intros j Hj. rewrite E1 by exact Hj.
        pose proof (R1 j Hj). pose proof (r_shift1_near thresh (ix c j) (qx off j)). lia.
      + intros j Hj. rewrite <- Ec, E2 by exact Hj. pose proof (R2 j Hj).
        rewrite ix_vadd in H by lia.
        pose proof (r_shift1_near thresh (ix c j) (qx off j)). lia.
  Qed.

  Lemma ref_output_moved : forall charz s1 s2,
    r_rect s2 = vadd (r_rect s1) d -> length (r_rect s1) = n -> pos_moved d (r_cmi s1) (r_cmi s2) ->
    row_moved d (ref_output pix1 raw1 radius mask charz s1) (ref_output pix2 raw2 radius mask charz s2).
  Proof.
    intros charz s1 s2 Er Hl Hp. unfold ref_output, row_moved. rewrite Er.
    rewrite nb_sum_moved by exact Hl.
    assert (Hn : forall p, nbh pix2 radius mask (vadd (r_rect s1) d) p = nbh pix1 radius mask (r_rect s1) p)
      by (intros; apply nbh_moved, Hl).
    destruct charz; cbn [negb o_pos o_mass o_char]; [|repeat split; [apply Hp|apply Hp]].
    split; [exact Hp|]. split; [reflexivity|]. f_equal. f_equal; [f_equal|].
    - destruct (isotropic radius).
      + f_equal. f_equal. f_equal. apply map_ext. intros p. rewrite Hn. reflexivity.
      + unfold dims, ndim. apply map_ext. intros k. f_equal. f_equal. f_equal. apply map_ext. intros p. rewrite Hn. reflexivity.
    - f_equal. apply map_ext. exact Hn.
    - f_equal. apply map_ext. intros p. destruct (mask p); [|reflexivity].
      rewrite at_win_vadd by exact Hl. apply Hraw, at_win_length.
  Qed.
End MovedRefine.

(* =========================== the discrete pipeline under translation, composed *)
Lemma Forall2_map_in : forall (A B C : Type) (R : B -> C -> Prop) (f : A -> B) (g : A -> C) (l : list A),
  (forall x, In x l -> R (f x) (g x)) -> Forall2 R (map f l) (map g l).
Proof.
  induction l as [|a l IH]; intros H; cbn; constructor.
  - apply H. left; reflexivity.
  - apply IH. intros x Hx. apply H. right; exact Hx.
Qed.

(* every bright pixel can serve as the start of a refinement that never reaches the
   clip bounds, in either placement: it keeps radius + (iterations - 1) from the edges *)
Definition content_has_room (P : lparams) (d : list Z) (im1 im2 : image) : Prop :=
  forall p, pix im1 p <> 0 ->
    room (lp_radius P) (shape im1) (pred (iters_of (lp_maxit P))) p /\
    room (lp_radius P) (shape im2) (pred (iters_of (lp_maxit P))) (vadd p d).

Theorem refine_at_moved : forall P d im1 im2 start,
  moved d im1 im2 -> length d = length (shape im1) -> length (lp_radius P) = length (shape im1) ->
  length start = length (shape im1) ->
  room (lp_radius P) (shape im1) (pred (iters_of (lp_maxit P))) start ->
  room (lp_radius P) (shape im2) (pred (iters_of (lp_maxit P))) (vadd start d) ->
  row_moved d (refine_at P im1 start) (refine_at P im2 (vadd start d)).
Proof.
  intros P d im1 im2 start [_ Hm] Hd Hr Hs R1 R2.
  unfold refine_at, refine_python, ref_run.
  assert (Hpix : forall p, length p = length (lp_radius P) -> pix im2 (vadd p d) = pix im1 p)
    by (intros p Hp; apply Hm; lia).
  destruct (ref_loop_moved (pix im1) (pix im2) (lp_radius P) (shape im1) (shape im2) d (lp_thresh P)
              (binary_mask (lp_radius P)) ltac:(lia) Hpix (pred (iters_of (lp_maxit P))) start ltac:(lia) R1 R2)
    as [E1 [E2 E3]].
  apply ref_output_moved; try assumption. lia.
Qed.

Section MovedPipeline.
  Variable percentile : list Z -> Q.
  Hypothesis percentile_perm : forall l l', Permutation l l' -> percentile l = percentile l'.
  Hypothesis percentile_nonneg : forall l, (forall v, In v l -> 0 <= v) -> (0 <= percentile l)%Q.

  (* (2) locate's table before the tail, on the moved image: the same rows, each
     position moved by d, every other column identical (as a multiset of rows) *)
  Theorem locate_discrete_moved : forall d im1 im2 P,
    moved d im1 im2 ->
    length d = length (shape im1) ->
    length (lp_sep P) = length (shape im1) -> length (lp_margin P) = length (shape im1) ->
    length (lp_radius P) = length (shape im1) ->
    Forall (fun s => 1 <= s) (sizes_of im1 (lp_sep P)) ->
    (forall p, 0 <= pix im1 p) ->
    content_inside (lp_margin P) im1 -> content_inside (lp_margin P) im2 ->
    content_has_room P d im1 im2 ->
    exists rows, Permutation (locate_discrete percentile P im2) rows /\
                 Forall2 (row_moved d) (locate_discrete percentile P im1) rows.
  Proof.
    intros d im1 im2 P Hm Hd Hsep Hmg Hrad Hsz Hpos Hin1 Hin2 Hroom.
    exists (map (refine_at P im2) (map (fun p => vadd p d) (find_maxima percentile P im1))). split.
    - unfold locate_discrete. apply Permutation_map.
      apply (maxima_moved_perm percentile percentile_perm percentile_nonneg d im1 im2 P); assumption.
    - unfold locate_discrete. rewrite map_map. apply Forall2_map_in. intros p Hp.
      pose proof (maxima_length percentile im1 P Hsep Hmg Hsz p Hp) as HL.
      apply (maxima_spec1 percentile im1 P Hsep Hmg Hsz) in Hp. destruct Hp as [_ [_ [Ht _]]].
      pose proof (above_threshold_nonzero percentile percentile_nonneg im1 Hpos _ Ht) as Hnz.
      destruct (Hroom p Hnz) as [R1 R2].
      apply refine_at_moved; assumption.
  Qed.
End MovedPipeline.

(* ============================================ blank canvases built by [embed] *)
Fixpoint inb (sh p : list Z) : bool :=
  match sh, p with
  | [], [] => true
  | n :: sh', i :: p' => (0 <=? i) && (i <? n) && inb sh' p'
  | _, _ => false
  end.

Lemma inb_iff : forall sh p, inb sh p = true <-> in_bounds sh p.
Proof.
  unfold in_bounds. induction sh as [|n sh IH]; intros [|i p]; cbn.
  - split; [constructor|reflexivity].
  - split; [discriminate|intros H; inversion H].
  - split; [discriminate|intros H; inversion H].
  - rewrite !andb_true_iff, IH, Z.leb_le, Z.ltb_lt. split.
    + intros [[? ?] ?]. constructor; [lia|assumption].
    + intros H. inversion H; subst. repeat split; try lia. assumption.
Qed.

Lemma nth_error_zrange : forall n i, 0 <= i < n -> nth_error (zrange n) (Z.to_nat i) = Some i.
Proof.
  intros n i H. unfold zrange.
  rewrite (map_nth_error Z.of_nat (Z.to_nat i) (seq 0 (Z.to_nat n)) (d := Z.to_nat i)); [f_equal; lia|].
  rewrite (nth_error_nth' _ 0%nat) by (rewrite seq_length; lia). rewrite seq_nth by lia. reflexivity.
Qed.

Lemma get_arr_of : forall sh f p, get (arr_of sh f) p = if inb sh p then f p else 0.
Proof.
  induction sh as [|n sh IH]; intros f [|i p]; cbn [arr_of get inb]; try reflexivity.
  destruct (i <? 0) eqn:E0.
  - apply Z.ltb_lt in E0. destruct (0 <=? i) eqn:E1; [apply Z.leb_le in E1; lia|reflexivity].
  - apply Z.ltb_ge in E0. destruct (0 <=? i) eqn:E1; [|apply Z.leb_gt in E1; lia]. cbn [andb].
    destruct (i <? n) eqn:E2.
    + apply Z.ltb_lt in E2.
      rewrite (map_nth_error _ _ _ (nth_error_zrange n i ltac:(lia))). cbn [andb]. rewrite IH. reflexivity.
    + apply Z.ltb_ge in E2. cbn [andb].
      destruct (nth_error _ (Z.to_nat i)) eqn:En; [|reflexivity].
      assert (nth_error (map (fun i0 => arr_of sh (fun c => f (i0 :: c))) (zrange n)) (Z.to_nat i) = None).
      { apply nth_error_None. unfold zrange. rewrite !map_length, seq_length. lia. }
      congruence.
Qed.

Lemma pix_embed : forall sh off im q,
  pix (embed sh off im) q = if inb sh q then pix im (vsub q off) else 0.
Proof. intros. unfold embed, pix at 1. cbn [data]. rewrite get_arr_of. reflexivity. Qed.

Lemma vsub_vadd_vsub : forall p a b, length p = length a -> length b = length a ->
  vsub (vadd p (vsub b a)) b = vsub p a.
Proof.
  induction p as [|x p IH]; intros [|y a] [|z b] H1 H2; cbn in *; try discriminate; auto.
  f_equal; [lia|apply IH; lia].
Qed.

Lemma vadd_vsub_swap : forall p a b, length p = length a -> length b = length a ->
  vadd (vsub p a) b = vadd p (vsub b a).
Proof.
  induction p as [|x p IH]; intros [|y a] [|z b] H1 H2; cbn in *; try discriminate; auto.
  f_equal; [lia|apply IH; lia].
Qed.

(* the same content pasted at two offsets into two blank canvases: the second image is
   the first one moved by the offset difference, provided the content fits in both *)
Theorem embed_moved : forall content sh1 off1 sh2 off2,
  length off1 = length sh1 -> length off2 = length sh1 -> length sh2 = length sh1 ->
  (forall c, length c = length sh1 -> pix content c <> 0 ->
             in_bounds sh1 (vadd c off1) /\ in_bounds sh2 (vadd c off2)) ->
  moved (vsub off2 off1) (embed sh1 off1 content) (embed sh2 off2 content).
Proof.
  intros content sh1 off1 sh2 off2 L1 L2 L3 Hfit. split; [cbn; exact L3|].
  intros p Hp. cbn [embed shape] in Hp. rewrite !pix_embed.
  rewrite vsub_vadd_vsub by lia.
  destruct (Z.eq_dec (pix content (vsub p off1)) 0) as [E|E].
  - rewrite E. destruct (inb sh2 _), (inb sh1 p); reflexivity.
  - destruct (Hfit (vsub p off1) ltac:(rewrite vsub_length; lia) E) as [B1 B2].
    rewrite vadd_vsub in B1 by lia. rewrite vadd_vsub_swap in B2 by lia.
    apply inb_iff in B1, B2. rewrite B1, B2. reflexivity.
Qed.


(* ------------------------------------ the premises hold for embedded content *)
(* the content box [off, off + csh) keeps distance m (>= 0) from both ends of every axis *)
Fixpoint fitsb (sh off csh m : list Z) : bool :=
  match sh, off, csh, m with
  | [], [], [], [] => true
  | n :: sh', o :: off', c :: csh', k :: m' => (0 <=? k) && (k <=? o) && (o + c <=? n - k) && fitsb sh' off' csh' m'
  | _, _, _, _ => false
  end.

Lemma fitsb_spec : forall sh off csh m c, fitsb sh off csh m = true -> in_bounds csh c ->
  in_bounds sh (vadd c off) /\ outside_margin sh m (vadd c off).
Proof.
  unfold in_bounds, outside_margin.
  induction sh as [|n sh IH]; intros [|o off] [|cs csh] [|k m] c H Hc; cbn in H; try discriminate.
  - inversion Hc; subst. cbn. split; constructor.
  - apply andb_prop in H. destruct H as [H F4]. apply andb_prop in H. destruct H as [H F3].
    apply andb_prop in H. destruct H as [F1 F2]. apply Z.leb_le in F1, F2, F3.
    inversion Hc as [|? y ? c' Hy Hc']; subst.
    destruct (IH off csh m c' F4 Hc') as [A B]. cbn. split; constructor; try lia; assumption.
Qed.

Lemma fitsb_length : forall sh off csh m, fitsb sh off csh m = true ->
  length off = length sh /\ length csh = length sh /\ length m = length sh.
Proof.
  induction sh as [|n sh IH]; intros [|o off] [|cs csh] [|k m] H; cbn in H; try discriminate; [cbn; auto|].
  apply andb_prop in H. destruct H as [_ H]. destruct (IH _ _ _ H) as [A [B C]]. cbn. lia.
Qed.

Lemma vadd_vadd_vsub : forall c a b, length c = length a -> length b = length a ->
  vadd (vadd c a) (vsub b a) = vadd c b.
Proof.
  induction c as [|x c IH]; intros [|y a] [|z b] H1 H2; cbn in *; try discriminate; auto.
  f_equal; [lia|apply IH; lia].
Qed.

Lemma ix_map_add : forall (l : list Z) k j, (j < length l)%nat -> ix (map (fun r => r + k) l) j = ix l j + k.
Proof.
  unfold ix. intros. rewrite (nth_indep _ 0 (0 + k)) by (rewrite map_length; lia).
  rewrite (map_nth (fun r => r + k)). reflexivity.
Qed.

Lemma outside_margin_ix : forall sh m p, outside_margin sh m p ->
  forall j, (j < length m)%nat -> ix m j <= ix p j <= ix sh j - ix m j - 1.
Proof.
  unfold outside_margin, ix. intros sh m p H. induction H; intros j Hj; cbn in Hj; [lia|].
  destruct j; cbn; [lia|]. apply IHForall3. lia.
Qed.

Lemma embed_support : forall sh off content p,
  length off = length sh -> (forall c, pix content c <> 0 -> in_bounds (shape content) c) ->
  pix (embed sh off content) p <> 0 ->
  exists c, p = vadd c off /\ in_bounds (shape content) c /\ pix content c <> 0.
Proof.
  intros sh off content p L Hw Hp. rewrite pix_embed in Hp.
  destruct (inb sh p) eqn:E; [|congruence]. apply inb_iff, in_bounds_length in E.
  exists (vsub p off). split; [symmetry; apply vadd_vsub; lia|]. split; [apply Hw|]; exact Hp.
Qed.

Theorem embed_content_inside : forall sh off content mg,
  length off = length sh -> (forall c, pix content c <> 0 -> in_bounds (shape content) c) ->
  fitsb sh off (shape content) mg = true ->
  content_inside mg (embed sh off content).
Proof.
  intros sh off content mg L Hw Hf p Hp.
  destruct (embed_support sh off content p L Hw Hp) as [c [-> [Hc _]]].
  cbn [embed shape]. apply (fitsb_spec sh off (shape content) mg c Hf Hc).
Qed.

Theorem embed_has_room : forall P content sh1 off1 sh2 off2,
  length off1 = length sh1 -> length off2 = length sh1 -> length sh2 = length sh1 ->
  (forall c, pix content c <> 0 -> in_bounds (shape content) c) ->
  let m := map (fun r => r + Z.of_nat (pred (iters_of (lp_maxit P)))) (lp_radius P) in
  fitsb sh1 off1 (shape content) m = true -> fitsb sh2 off2 (shape content) m = true ->
  content_has_room P (vsub off2 off1) (embed sh1 off1 content) (embed sh2 off2 content).
Proof.
  intros P content sh1 off1 sh2 off2 L1 L2 L3 Hw m F1 F2 p Hp.
  destruct (embed_support sh1 off1 content p L1 Hw Hp) as [c [-> [Hc _]]].
  pose proof (in_bounds_length _ _ Hc) as Lc.
  destruct (fitsb_spec _ _ _ _ c F1 Hc) as [B1 O1]. destruct (fitsb_spec _ _ _ _ c F2 Hc) as [B2 O2].
  destruct (fitsb_length _ _ _ _ F1) as [_ [Lcs _]].
  assert (E : vadd (vadd c off1) (vsub off2 off1) = vadd c off2) by (apply vadd_vadd_vsub; lia).
  cbn [embed shape]. rewrite E. unfold room. split; intros j Hj.
  - pose proof (outside_margin_ix _ _ _ O1 j) as H. unfold m in H. rewrite map_length in H. specialize (H Hj).
    rewrite !ix_map_add in H by exact Hj. lia.
  - pose proof (outside_margin_ix _ _ _ O2 j) as H. unfold m in H. rewrite map_length in H. specialize (H Hj).
    rewrite !ix_map_add in H by exact Hj. lia.
Qed.

(* ---------------------------------------------------- a concrete instance *)
Definition tab (sh : list Z) (f : list Z -> Z) : image := {| shape := sh; data := arr_of sh f |}.

Lemma tab_wf : forall sh f c, pix (tab sh f) c <> 0 -> in_bounds sh c.
Proof.
  intros sh f c H. unfold tab, pix in H. cbn [data] in H. rewrite get_arr_of in H.
  destruct (inb sh c) eqn:E; [apply inb_iff, E|congruence].
Qed.

Lemma tab_nonneg : forall sh f, (forall c, 0 <= f c) -> forall c, 0 <= pix (tab sh f) c.
Proof. intros sh f H c. unfold tab, pix. cbn [data]. rewrite get_arr_of. destruct (inb sh c); [apply H|lia]. Qed.

Lemma embed_nonneg : forall sh off content, (forall c, 0 <= pix content c) -> forall p, 0 <= pix (embed sh off content) p.
Proof. intros. rewrite pix_embed. destruct (inb sh p); [apply H|lia]. Qed.

(* a 5x5 blob, pasted at (4,5) into a 14x15 canvas and at (7,4) into a 16x14 canvas *)
Definition ex_blob (c : list Z) : Z :=
  Z.max 0 (9 - 2 * ((ix c 0 - 2) * (ix c 0 - 2) + (ix c 1 - 2) * (ix c 1 - 2))).
Definition ex_content : image := tab [5; 5] ex_blob.
Definition ex_P : lparams := mkLP [3#1; 3#1]%Q [1; 1] [1; 1] (3 # 5) 3 true.
Definition ex_im1 : image := embed [14; 15] [4; 5] ex_content.
Definition ex_im2 : image := embed [16; 14] [7; 4] ex_content.
Definition ex_d : list Z := vsub [7; 4] [4; 5].
Definition ex_percentile (l : list Z) : Q := 1 # 2.

Lemma ex_premises :
  moved ex_d ex_im1 ex_im2 /\
  length ex_d = length (shape ex_im1) /\
  length (lp_sep ex_P) = length (shape ex_im1) /\ length (lp_margin ex_P) = length (shape ex_im1) /\
  length (lp_radius ex_P) = length (shape ex_im1) /\
  Forall (fun s => 1 <= s) (sizes_of ex_im1 (lp_sep ex_P)) /\
  (forall p, 0 <= pix ex_im1 p) /\
  content_inside (lp_margin ex_P) ex_im1 /\ content_inside (lp_margin ex_P) ex_im2 /\
  content_has_room ex_P ex_d ex_im1 ex_im2.
Proof.
  assert (Hw : forall c, pix ex_content c <> 0 -> in_bounds (shape ex_content) c) by (intros c; apply tab_wf).
  assert (H1 : moved ex_d ex_im1 ex_im2).
  { apply embed_moved; try reflexivity. intros c Lc Hc. apply Hw in Hc.
    split; [apply (fitsb_spec [14; 15] [4; 5] [5; 5] [0; 0] c eq_refl Hc)|apply (fitsb_spec [16; 14] [7; 4] [5; 5] [0; 0] c eq_refl Hc)]. }
  assert (H6 : Forall (fun s => 1 <= s) (sizes_of ex_im1 (lp_sep ex_P))).
  { assert (E : sizes_of ex_im1 (lp_sep ex_P) = [4; 4]) by (vm_compute; reflexivity).
    rewrite E. repeat constructor; lia. }
  assert (H7 : forall p, 0 <= pix ex_im1 p).
  { apply embed_nonneg, tab_nonneg. intros c. apply Z.le_max_l. }
  assert (H8 : content_inside (lp_margin ex_P) ex_im1) by (apply embed_content_inside; [reflexivity|exact Hw|reflexivity]).
  assert (H9 : content_inside (lp_margin ex_P) ex_im2) by (apply embed_content_inside; [reflexivity|exact Hw|reflexivity]).
  assert (H10 : content_has_room ex_P ex_d ex_im1 ex_im2) by (apply embed_has_room; try reflexivity; exact Hw).
  exact (conj H1 (conj eq_refl (conj eq_refl (conj eq_refl (conj eq_refl (conj H6 (conj H7 (conj H8 (conj H9 H10))))))))).
Qed.

(* the instance is not trivial: one feature, found at (6,7) resp. (9,6) *)
Lemma ex_nontrivial :
  find_maxima ex_percentile ex_P ex_im1 = [[6; 7]] /\ find_maxima ex_percentile ex_P ex_im2 = [[9; 6]] /\
  map o_mass (locate_discrete ex_percentile ex_P ex_im1) = [37].
Proof. vm_compute. repeat split. Qed.

(* ======================================= maxima stage under transposition *)
Lemma Forall3_app : forall (A B C : Type) (R : A -> B -> C -> Prop) a b c a' b' c',
  Forall3 R a b c -> Forall3 R a' b' c' -> Forall3 R (a ++ a') (b ++ b') (c ++ c').
Proof. intros. induction H; cbn; [assumption|constructor; assumption]. Qed.

Lemma Forall3_rev1 : forall (A B C : Type) (R : A -> B -> C -> Prop) a b c,
  Forall3 R a b c -> Forall3 R (rev a) (rev b) (rev c).
Proof.
  intros. induction H; cbn; [constructor|].
  apply Forall3_app; [assumption|constructor; [assumption|constructor]].
Qed.

Lemma Forall3_rev : forall (A B C : Type) (R : A -> B -> C -> Prop) a b c,
  Forall3 R (rev a) (rev b) c <-> Forall3 R a b (rev c).
Proof.
  intros. split; intros H; apply Forall3_rev1 in H; rewrite ?rev_involutive in H; exact H.
Qed.

Lemma Forall2_rev1 : forall (A B : Type) (R : A -> B -> Prop) a b, Forall2 R a b -> Forall2 R (rev a) (rev b).
Proof.
  intros. induction H; cbn; [constructor|]. apply Forall2_app; [assumption|constructor; [assumption|constructor]].
Qed.

Lemma in_bounds_rev : forall sh q, in_bounds (rev sh) q <-> in_bounds sh (rev q).
Proof.
  unfold in_bounds. intros. split; intros H; apply Forall2_rev1 in H; rewrite ?rev_involutive in H; exact H.
Qed.

Section TransposedMaxima.
  Variable percentile : list Z -> Q.
  Hypothesis percentile_perm : forall l l', Permutation l l' -> percentile l = percentile l'.
  Variables (im1 im2 : image) (P : lparams).
  Hypothesis Ht : transposed im1 im2.
  Hypothesis Hsep : length (lp_sep P) = length (shape im1).
  Hypothesis Hmg : length (lp_margin P) = length (shape im1).
  Hypothesis Hsz : Forall (fun s => 1 <= s) (sizes_of im1 (lp_sep P)).

  Lemma pix2_rev : forall q, pix im2 q = pix im1 (rev q).
  Proof. intros q. destruct Ht as [_ H]. rewrite <- (rev_involutive q) at 1. apply H. Qed.

  Lemma support_transposed :
    Permutation (filter (fun p => nzb (pix im2 p)) (coords (shape im2)))
                (map (@rev Z) (filter (fun p => nzb (pix im1 p)) (coords (shape im1)))).
  Proof.
    apply NoDup_Permutation.
    - apply NoDup_filter, nodup_coords.
    - apply NoDup_map_inj_in; [|apply NoDup_filter, nodup_coords].
      intros x y _ _ E. rewrite <- (rev_involutive x), <- (rev_involutive y), E. reflexivity.
    - intros q. rewrite filter_In, in_map_iff, in_coords. destruct Ht as [Es _]. rewrite Es, in_bounds_rev. split.
      + intros [Hb Hnz]. exists (rev q). split; [apply rev_involutive|].
        apply filter_In. rewrite in_coords, <- pix2_rev. split; assumption.
      + intros [p [<- Hp]]. apply filter_In in Hp. rewrite in_coords in Hp.
        rewrite rev_involutive, pix2_rev, rev_involutive. exact Hp.
  Qed.

  Lemma not_black_transposed : Permutation (not_black im2) (not_black im1).
  Proof.
    rewrite !not_black_as_map.
    eapply Permutation_trans; [apply Permutation_map, support_transposed|].
    rewrite map_map. erewrite map_ext; [apply Permutation_refl|].
    intros p. cbv beta. rewrite pix2_rev, rev_involutive. reflexivity.
  Qed.

  Lemma sizes_of_transposed : sizes_of im2 (lp_sep (lp_rev P)) = rev (sizes_of im1 (lp_sep P)).
  Proof.
    unfold sizes_of, lp_rev. cbn [lp_sep]. destruct Ht as [Es _]. rewrite Es, rev_length, map_rev. reflexivity.
  Qed.

  (* (4) the maxima of the transposed image (parameters reversed with the axes) are the
     transposed maxima *)
  Theorem maxima_transposed : forall q,
    In q (find_maxima percentile (lp_rev P) im2) <-> In (rev q) (find_maxima percentile P im1).
  Proof.
    intros q. unfold find_maxima.
    pose proof (maxima_exact percentile false im1 (lp_sep P) (Some (lp_margin P)) (rev q)) as H1.
    pose proof (maxima_exact percentile false im2 (lp_sep (lp_rev P)) (Some (lp_margin (lp_rev P))) q) as H2.
    cbv zeta in H1, H2. rewrite convert_to_int_integer in H1, H2. cbn [eff_margin] in H1, H2.
    destruct Ht as [Es Hp].
    rewrite H1 by assumption.
    rewrite H2; [| unfold lp_rev; cbn [lp_sep]; rewrite Es, !rev_length; assumption
                 | unfold lp_rev; cbn [lp_margin]; rewrite Es, !rev_length; assumption
                 | rewrite sizes_of_transposed; apply Forall_rev; assumption ].
    rewrite sizes_of_transposed.
    assert (Enb : not_black im2 <> [] <-> not_black im1 <> []).
    { pose proof not_black_transposed as Hperm.
      split; intros H E; apply H; rewrite E in Hperm.
      - apply Permutation_nil, Permutation_sym. exact Hperm.
      - apply Permutation_nil. exact Hperm. }
    rewrite Enb, (percentile_perm _ _ not_black_transposed).
    unfold admissible, lp_rev. cbn [lp_margin]. rewrite Es, in_bounds_rev, pix2_rev.
    unfold outside_margin. rewrite Forall3_rev.
    assert (Hbox : (forall q', in_box (rev (sizes_of im1 (lp_sep P))) q q' -> pix im2 q' <= pix im1 (rev q)) <->
                   (forall p', in_box (sizes_of im1 (lp_sep P)) (rev q) p' -> pix im1 p' <= pix im1 (rev q))).
    { unfold in_box. split.
      - intros H p' Hp'. rewrite <- (rev_involutive p'), <- pix2_rev. apply H.
        rewrite <- (rev_involutive q). apply Forall3_rev. rewrite !rev_involutive. exact Hp'.
      - intros H q' Hq'. rewrite pix2_rev. apply H.
        rewrite <- (rev_involutive q) in Hq'. apply Forall3_rev in Hq'. exact Hq'. }
    rewrite Hbox. reflexivity.
  Qed.
End TransposedMaxima.

Theorem transpose_transposed : forall im,
  (forall p, pix im p <> 0 -> in_bounds (shape im) p) -> transposed im (transpose im).
Proof.
  intros im Hw. split; [reflexivity|]. intros p. unfold transpose, pix at 1. cbn [data].
  rewrite get_arr_of, rev_involutive.
  destruct (inb (rev (shape im)) (rev p)) eqn:E; [reflexivity|].
  destruct (Z.eq_dec (pix im p) 0) as [E0|E0]; [symmetry; exact E0|].
  apply Hw in E0.
  assert (H : in_bounds (rev (shape im)) (rev p)) by (apply in_bounds_rev; rewrite rev_involutive; exact E0).
  apply inb_iff in H. congruence.
Qed.

Lemma ex_transposed : transposed ex_im1 (transpose ex_im1) /\
  find_maxima ex_percentile (lp_rev ex_P) (transpose ex_im1) = [[7; 6]].
Proof.
  split; [|vm_compute; reflexivity].
  apply transpose_transposed. intros p Hp. unfold ex_im1 in *. rewrite pix_embed in Hp. cbn [embed shape].
  destruct (inb [14; 15] p) eqn:E; [apply inb_iff, E|congruence].
Qed.

(* batch on three frames (a frame = the number of its features), frame_no on even frames,
   workers finishing in the order 2, 0, 1 *)
Lemma ex_batch :
  batch_imap nat nat (fun n => seq 0 n) (fun n => if Nat.even n then Some (10 + n)%nat else None) [2; 0; 1]%nat false [3; 0; 2]%nat
  = [(0, 0); (1, 0); (2, 0); (0, 12); (1, 12)]%nat.
Proof. vm_compute. reflexivity. Qed.
