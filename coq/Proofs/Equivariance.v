(* Proofs for C09: equivariance of the discrete locate pipeline under translation
   inside a blank canvas and (maxima stage) under transposition; batch = tagged
   concatenation for either map function; monitor soundness; F13 witness. *)
From Coq Require Import ZArith NArith QArith Qabs List Bool Arith Lia Permutation.
From TP Require Import Model.Dilation Model.COM Model.Equivariance Proofs.Dilation Proofs.COM.
Import ListNotations.
Open Scope Z_scope.

(* ===================================================================== batch *)
Section BatchProofs.
  Variables frame row : Type.
  Variable locate : frame -> list row.
  Variable frame_no : frame -> option nat.

  Lemma batch_loop_spec : forall seen fs pre acc,
    concat (batch_loop frame row frame_no (pre ++ fs) (length pre)
                       (map Some (run_map (located frame row locate frame_no seen) fs)) acc) =
    concat acc ++ tagged_from frame row locate frame_no (length pre) fs.
  Proof.
    intros seen fs. induction fs as [|f fs IH]; intros pre acc; cbn.
    - rewrite app_nil_r. reflexivity.
    - assert (E : nth_error (pre ++ f :: fs) (length pre) = Some f).
      { rewrite nth_error_app2 by lia. rewrite Nat.sub_diag. reflexivity. }
      rewrite E.
      assert (T : (match (if seen then frame_no f else None) with
                   | Some k => k
                   | None => match frame_no f with Some k => k | None => length pre end
                   end) = number_of frame frame_no (length pre) f).
      { unfold number_of. destruct seen; destruct (frame_no f); reflexivity. }
      rewrite T.
      replace (pre ++ f :: fs) with ((pre ++ [f]) ++ fs) by (rewrite <- app_assoc; reflexivity).
      replace (S (length pre)) with (length (pre ++ [f])) by (rewrite app_length; cbn; lia).
      unfold run_map in IH. rewrite IH.
      destruct (map (fun x => (x, number_of frame frame_no (length pre) f)) (locate f)) as [|r0 rs] eqn:Em.
      + reflexivity.
      + rewrite concat_app. cbn [concat]. rewrite app_nil_r, <- app_assoc. reflexivity.
  Qed.

  (* in-process map: batch is the tagged concatenation, whether or not locate saw frame_no *)
  Theorem batch_map_spec : forall seen frames,
    batch_map frame row locate frame_no seen frames = tagged_from frame row locate frame_no 0 frames.
  Proof.
    intros. unfold batch_map. exact (batch_loop_spec seen frames [] []).
  Qed.

  Lemma find_completed : forall (A B : Type) (g : A -> B) (xs : list A) i x sched,
    nth_error xs i = Some x -> In i sched ->
    find (fun c : nat * B => Nat.eqb (fst c) i)
         (flat_map (fun j => match nth_error xs j with Some y => [(j, g y)] | None => [] end) sched) = Some (i, g x).
  Proof.
    intros A B g xs i x sched Hx. induction sched as [|j sched IH]; intros Hin; [destruct Hin|].
    cbn [flat_map]. destruct (Nat.eq_dec j i) as [->|Hne].
    - rewrite Hx. cbn. rewrite Nat.eqb_refl. reflexivity.
    - destruct Hin as [E|Hin]; [congruence|].
      destruct (nth_error xs j); cbn.
      + destruct (Nat.eqb_spec j i); [congruence|]. apply IH, Hin.
      + apply IH, Hin.
  Qed.

  Lemma map_nth_error_seq : forall (A B : Type) (g : A -> B) (xs : list A),
    map (fun i => option_map g (nth_error xs i)) (seq 0 (length xs)) = map Some (map g xs).
  Proof.
    intros A B g xs. induction xs as [|x xs IH]; [reflexivity|].
    cbn [length seq map]. cbn [nth_error option_map]. f_equal.
    rewrite <- seq_shift, map_map. exact IH.
  Qed.

  (* Pool.imap hands out exactly what map computes, whatever the completion order *)
  Theorem imap_is_map : forall (A B : Type) (sched : list nat) (g : A -> B) (xs : list A),
    (forall i, (i < length xs)%nat -> In i sched) ->
    run_imap sched g xs = map Some (run_map g xs).
  Proof.
    intros A B sched g xs Hs. unfold run_imap, run_map. rewrite <- map_nth_error_seq.
    apply map_ext_in. intros i Hi. apply in_seq in Hi.
    destruct (nth_error xs i) as [x|] eqn:Ex.
    - rewrite (find_completed A B g xs i x sched Ex) by (apply Hs; lia). reflexivity.
    - apply nth_error_None in Ex. lia.
  Qed.

  Theorem batch_imap_spec : forall sched seen frames,
    (forall i, (i < length frames)%nat -> In i sched) ->
    batch_imap frame row locate frame_no sched seen frames = tagged_from frame row locate frame_no 0 frames.
  Proof.
    intros sched seen frames Hs. unfold batch_imap. rewrite imap_is_map by exact Hs.
    exact (batch_loop_spec seen frames [] []).
  Qed.

  (* any number of workers, any completion order, attribute visible to the worker or not *)
  Corollary batch_process_independent : forall sched seen seen' frames,
    (forall i, (i < length frames)%nat -> In i sched) ->
    batch_imap frame row locate frame_no sched seen frames = batch_map frame row locate frame_no seen' frames.
  Proof. intros. rewrite batch_imap_spec, batch_map_spec by assumption. reflexivity. Qed.
End BatchProofs.

(* ================================================================ F13 witness *)
Lemma ecc_num_transpose_diff : forall u l c r d,
  ecc_num cos3 sin3 [u; l; c; r; d] - ecc_num cos3 sin3 (nb_transpose [u; l; c; r; d]) = 4 * c * (l + r - u - d).
Proof. intros. unfold ecc_num, wsum, cos3, sin3, nb_transpose, zsum. cbn [combine map fold_right fst snd]. ring. Qed.

Theorem ecc_transpose_refuted :
  exists nb, zsum (nb_transpose nb) = zsum nb /\ nth 2 (nb_transpose nb) 0 = nth 2 nb 0 /\
             ecc_num cos3 sin3 (nb_transpose nb) <> ecc_num cos3 sin3 nb.
Proof. exists [10; 20; 50; 20; 10]. repeat split. vm_compute. discriminate. Qed.

(* ==================================================================== monitor *)
Open Scope Q_scope.
Definition near_P (tol a b : Q) : Prop := Qabs (a - b) <= tol * (1 + Qabs a).
Definition near_opt_P (tol : Q) (a b : option Q) : Prop :=
  match a, b with
  | None, None => True
  | Some x, Some y => near_P tol x y
  | _, _ => False
  end.
(* row b is row a with the position moved by d (to tolp), the exact columns equal,
   the float statistics equal to tol, NaN exactly where a has NaN *)
Definition trow_related (tolp tol : Q) (d : list Q) (a b : trow) : Prop :=
  Forall2 (fun xd y => near_P tolp (fst xd + snd xd) y) (combine (fst (fst a)) d) (fst (fst b)) /\
  Forall2 Qeq (snd (fst a)) (snd (fst b)) /\
  Forall2 (near_opt_P tol) (snd a) (snd b).
Close Scope Q_scope.

Lemma all2_Forall2 : forall (A B : Type) (f : A -> B -> bool) (R : A -> B -> Prop),
  (forall a b, f a b = true -> R a b) -> forall l m, Equivariance.all2 f l m = true -> Forall2 R l m.
Proof.
  intros A B f R H. induction l as [|a l IH]; intros [|b m] E; cbn in E; try discriminate; constructor.
  - apply H. apply andb_prop in E. tauto.
  - apply IH. apply andb_prop in E. tauto.
Qed.

Lemma near_sound : forall tol a b, near tol a b = true -> near_P tol a b.
Proof. intros. unfold near in H. apply Qle_bool_iff in H. exact H. Qed.

Lemma row_code_sound : forall tolp tol d a b, row_code tolp tol d a b = 0%N -> trow_related tolp tol d a b.
Proof.
  intros tolp tol d [[pa ea] fa] [[pb eb] fb]. unfold row_code, trow_related. cbn [fst snd].
  destruct (Equivariance.all2 _ (combine pa d) pb) eqn:E1; cbn [negb]; [|discriminate].
  destruct (Equivariance.all2 Qeq_bool ea eb) eqn:E2; cbn [negb]; [|discriminate].
  destruct (Equivariance.all2 (near_opt tol) fa fb) eqn:E3; cbn [negb]; [|discriminate].
  intros _. repeat split.
  - eapply all2_Forall2; [|exact E1]. intros x y H. apply near_sound, H.
  - eapply all2_Forall2; [|exact E2]. intros x y H. apply Qeq_bool_iff, H.
  - eapply all2_Forall2; [|exact E3]. intros [x|] [y|] H; cbn in *; try discriminate; auto. apply near_sound, H.
Qed.

Lemma table_code_sound : forall tolp tol d A B, table_code tolp tol d A B = 0%N -> Forall2 (trow_related tolp tol d) A B.
Proof.
  induction A as [|a A IH]; intros [|b B] E; cbn in E; try discriminate; constructor.
  - apply row_code_sound. destruct (row_code tolp tol d a b); [reflexivity|cbn in E; discriminate].
  - apply IH. destruct (row_code tolp tol d a b); [exact E|cbn in E; discriminate].
Qed.

Theorem check_moved_sound : forall tolp tol d A B,
  check_moved tolp tol d A B = 0%N -> Forall2 (trow_related tolp tol d) A B.
Proof.
  intros. unfold check_moved in H. destruct (forallb _ A); cbn in H; [|discriminate].
  apply table_code_sound, H.
Qed.

Theorem check_transposed_sound : forall tolp tol A B,
  check_transposed tolp tol A B = 0%N ->
  exists z, Forall2 (trow_related tolp tol z) A (map rev_pos B) /\ Forall (fun q => q = 0%Q) z.
Proof.
  intros. unfold check_transposed in H. eexists. split; [apply table_code_sound, H|].
  apply Forall_forall. intros q Hq. apply repeat_spec in Hq. exact Hq.
Qed.
