(* Proofs about the model of the static error on all its columns
   (Model/StaticError.v): no ep / ep_x / ep_y / ep_z entry is ever negative, for both
   branches of _static_error, in locate and in static_error; the columns carry the
   documented names and one entry per feature; and the model agrees, entry by entry,
   with the per-row formula of the tail model (Model/LocateTail.ep_row) that the
   correspondence run of vp/props/c08.py compares with locate's own ep columns. *)
From Coq Require Import ZArith QArith List Bool String Lia Lqa.
From TP Require Import Model.COM Model.LocateTail Model.LocateTailSpec Model.LocatePipe Model.StaticError.
From TP Require Proofs.LocateTail.
Import ListNotations.
Open Scope Q_scope.

(* ------------------------------------------------------------ the mapping *)
Lemma nan_if_negative_ok : forall v, ep_not_negative (nan_if_negative v).
Proof.
  intros [| | |e]; cbn; auto.
  destruct (Qltb e 0) eqn:E; cbn; auto. now apply Proofs.LocateTail.Qltb_ge in E.
Qed.

Lemma nan_negative_ok : forall e,
  Forall (Forall ep_not_negative) (ep_table (nan_negative e)).
Proof.
  intros [col|rows]; cbn [nan_negative ep_table]; rewrite Forall_forall; intros r Hr.
  - apply in_map_iff in Hr. destruct Hr as [v [<- Hv]].
    apply in_map_iff in Hv. destruct Hv as [w [<- _]].
    constructor; [apply nan_if_negative_ok|constructor].
  - apply in_map_iff in Hr. destruct Hr as [r0 [<- _]].
    rewrite Forall_forall. intros v Hv. apply in_map_iff in Hv. destruct Hv as [w [<- _]].
    apply nan_if_negative_ok.
Qed.

(* a column of a frame built from rows that are nowhere negative is nowhere negative *)
Lemma columns_of_ok : forall names rows,
  Forall (Forall ep_not_negative) rows ->
  Forall (fun c => Forall ep_not_negative (snd c)) (columns_of names rows).
Proof.
  intros names rows H. unfold columns_of. rewrite Forall_forall. intros c Hc.
  apply in_map_iff in Hc. destruct Hc as [[k n] [<- _]]. cbn [fst snd].
  rewrite Forall_forall. intros v Hv. apply in_map_iff in Hv. destruct Hv as [r [<- Hr]].
  rewrite Forall_forall in H. specialize (H r Hr).
  destruct (nth_in_or_default k r FNaN) as [Hin| ->]; [|exact I].
  rewrite Forall_forall in H. now apply H.
Qed.

Lemma columns_of_names : forall names rows, map fst (columns_of names rows) = names.
Proof.
  intros names rows. unfold columns_of. rewrite map_map. cbn [fst].
  generalize 0%nat. induction names as [|n names IH]; intro k; cbn; [reflexivity|].
  now rewrite IH.
Qed.

Lemma columns_of_lengths : forall names rows,
  Forall (fun c => List.length (snd c) = List.length rows) (columns_of names rows).
Proof.
  intros. unfold columns_of. rewrite Forall_forall. intros c Hc.
  apply in_map_iff in Hc. destruct Hc as [kn [<- _]]. cbn [snd]. now rewrite map_length.
Qed.

Section SE.
  Variable sqrtf : Q -> Q.

  (* ---------------------------------------------------- locate: all ep columns *)
  Theorem locate_ep_not_negative : forall radius noise_size black noise raw_mass,
    Forall (fun c => Forall ep_not_negative (snd c))
           (locate_ep sqrtf radius noise_size black noise raw_mass).
  Proof.
    intros. unfold locate_ep, locate_ep_arr.
    pose proof (nan_negative_ok
                  (static_error_arr sqrtf (map (locate_mass radius black) raw_mass) (NScalar noise) radius noise_size)) as H.
    destruct (nan_negative _) as [col|rows]; cbn [ep_table] in H.
    - constructor; [|constructor]. cbn [snd]. rewrite Forall_forall. intros v Hv.
      rewrite Forall_forall in H. specialize (H [v] (in_map (fun v => [v]) col v Hv)).
      now inversion H.
    - now apply columns_of_ok.
  Qed.

  (* which columns: 'ep' when all radii and all noise sizes agree, otherwise one
     'ep_<axis>' per position column; one entry per feature in each *)
  Theorem locate_ep_columns : forall radius noise_size black noise raw_mass,
    map fst (locate_ep sqrtf radius noise_size black noise raw_mass) =
      (if ep_iso radius noise_size then ["ep"%string]
       else map (fun cc => ("ep_" ++ cc)%string) (pos_columns (List.length radius))) /\
    Forall (fun c => List.length (snd c) = List.length raw_mass)
           (locate_ep sqrtf radius noise_size black noise raw_mass).
  Proof.
    intros. unfold locate_ep, locate_ep_arr, static_error_arr, ep_iso.
    destruct (isotropic radius && all_equal_Q noise_size); cbn [nan_negative].
    - split; [reflexivity|]. constructor; [|constructor]. cbn [snd]. now rewrite !map_length.
    - split; [apply columns_of_names|].
      pose proof (columns_of_lengths (map (fun cc => ("ep_" ++ cc)%string) (pos_columns (List.length radius)))
        (map (map nan_if_negative)
             (map (fun x => map (fun c => fmul x (FVal c)) (zipmul noise_size (coord_moments sqrtf radius)))
                  (map (fdiv noise) (map (locate_mass radius black) raw_mass))))) as H.
      rewrite !map_length in H. exact H.
  Qed.

  (* ---------------------------------------------------- static_error: all ep columns *)
  Theorem static_error_not_negative : forall mass noise diameter noise_size,
    Forall (fun c => Forall ep_not_negative (snd c))
           (static_error sqrtf mass noise diameter noise_size).
  Proof.
    intros. unfold static_error.
    pose proof (nan_negative_ok
                  (static_error_arr sqrtf mass noise (map (fun d => (d / 2)%Z) (rev diameter)) (rev noise_size))) as H.
    destruct (nan_negative _) as [col|rows]; cbn [ep_table] in H.
    - constructor; [|constructor]. cbn [snd]. rewrite Forall_forall. intros v Hv.
      rewrite Forall_forall in H. specialize (H [v] (in_map (fun v => [v]) col v Hv)).
      now inversion H.
    - now apply columns_of_ok.
  Qed.
End SE.

(* ------------------------------------------- agreement with the tail's ep_row *)
Lemma fsign_p : forall x p n z, 0 < x -> fsign x p n z = p.
Proof. intros. unfold fsign. now rewrite (proj2 (Proofs.LocateTail.Qltb_lt 0 x)). Qed.
Lemma fsign_n : forall x p n z, x < 0 -> fsign x p n z = n.
Proof.
  intros x p n z H. unfold fsign.
  rewrite (proj2 (Proofs.LocateTail.Qltb_ge 0 x)) by now apply Qlt_le_weak.
  now rewrite (proj2 (Proofs.LocateTail.Qltb_lt x 0)).
Qed.
Lemma fsign_z : forall x p n z, x == 0 -> fsign x p n z = z.
Proof.
  intros x p n z H. unfold fsign.
  rewrite (proj2 (Proofs.LocateTail.Qltb_ge 0 x)) by (rewrite H; apply Qle_refl).
  rewrite (proj2 (Proofs.LocateTail.Qltb_ge x 0)) by (rewrite H; apply Qle_refl). reflexivity.
Qed.

Ltac sgn x := destruct (Q_dec 0 x) as [[?|?]|?].
Ltac solve_sign :=
  repeat match goal with
  | |- context [fsign ?t _ _ _] =>
     first [ rewrite (fsign_p t) by (try assumption; nra)
           | rewrite (fsign_n t) by (try assumption; nra)
           | rewrite (fsign_z t) by (try assumption; try (symmetry; assumption); nra) ]
  end.

Lemma feq_refl : forall a, feq a a.
Proof. intros [| | |x]; cbn; auto. reflexivity. Qed.

Lemma nan_if_negative_feq : forall a b, feq a b -> feq (nan_if_negative a) (nan_if_negative b).
Proof.
  intros [| | |x] [| | |y]; cbn; try tauto. intros H.
  destruct (Qltb x 0) eqn:Ex, (Qltb y 0) eqn:Ey; cbn; auto.
  - apply Proofs.LocateTail.Qltb_lt in Ex. apply Proofs.LocateTail.Qltb_ge in Ey. rewrite H in Ex. lra.
  - apply Proofs.LocateTail.Qltb_ge in Ex. apply Proofs.LocateTail.Qltb_lt in Ey. rewrite H in Ex. lra.
Qed.

(* N_S * noise_size[0] * coord_moments[0]  =  N_S * (noise_size[0] * coord_moments[0]) *)
Lemma fmul_assoc_val : forall x a b, feq (fmul (fmul x (FVal a)) (FVal b)) (fmul x (FVal (a * b))).
Proof.
  intros [| | |q] a b; cbn [fmul]; [exact I| | |cbn; ring].
  - sgn a; sgn b; solve_sign; cbn [fmul]; solve_sign; exact I.
  - sgn a; sgn b; solve_sign; cbn [fmul]; solve_sign; exact I.
Qed.

Lemma ep_raw_eq : forall nz bl npx c raw,
  ep_raw (Some nz) (Some bl) npx c raw =
  if Qeq_bool (raw - npx * bl) 0 then fsign (nz * c) FPInf FNInf FNaN
  else FVal (nz / (raw - npx * bl) * c).
Proof. reflexivity. Qed.

(* one entry:  noise / (raw_mass - Npx * black_level) * c *)
Lemma entry_is_ep_raw : forall noise black npx c raw,
  feq (fmul (fdiv (of_opt noise) (fsub (FVal raw) (fmul (FVal npx) (of_opt black)))) (FVal c))
      (ep_raw noise black npx c raw).
Proof.
  intros [nz|] [bl|] npx c raw; [|cbn; exact I..].
  rewrite ep_raw_eq. cbn [of_opt fmul fsub fneg fadd fdiv].
  change (raw + - (npx * bl)) with (raw - npx * bl).
  destruct (Qeq_bool (raw - npx * bl) 0).
  - sgn nz; sgn c; solve_sign; cbn [fmul]; solve_sign; exact I.
  - cbn. reflexivity.
Qed.

Section Agree.
  Variable sqrtf : Q -> Q.

  Theorem locate_ep_is_tail_ep : forall radius noise_size black noise raws,
    Forall2 (Forall2 feq)
      (ep_table (locate_ep_arr sqrtf radius noise_size (of_opt black) (of_opt noise) raws))
      (map (fun raw => ep_row noise black (inject_Z (n_mask radius)) (ep_consts sqrtf radius noise_size)
                              (mkrow [] 0 0 raw)) raws).
  Proof.
    intros. unfold locate_ep_arr, static_error_arr, ep_consts, ep_iso, ep_row, ep_one.
    destruct (isotropic radius && all_equal_Q noise_size); cbn [nan_negative ep_table r_raw].
    - rewrite !map_map. induction raws as [|raw raws IH]; cbn [map]; [constructor|]. constructor; [|exact IH].
      constructor; [|constructor].
      apply nan_if_negative_feq. unfold locate_mass.
      pose proof (fmul_assoc_val
        (fdiv (of_opt noise) (fsub (FVal raw) (fmul (FVal (inject_Z (n_mask radius))) (of_opt black))))
        (hd 0 noise_size) (hd 0 (coord_moments sqrtf radius))) as A.
      pose proof (entry_is_ep_raw noise black (inject_Z (n_mask radius))
        (hd 0 noise_size * hd 0 (coord_moments sqrtf radius)) raw) as B.
      revert A B.
      generalize (fmul (fmul (fdiv (of_opt noise) (fsub (FVal raw) (fmul (FVal (inject_Z (n_mask radius))) (of_opt black))))
                             (FVal (hd 0 noise_size))) (FVal (hd 0 (coord_moments sqrtf radius)))).
      generalize (fmul (fdiv (of_opt noise) (fsub (FVal raw) (fmul (FVal (inject_Z (n_mask radius))) (of_opt black))))
                       (FVal (hd 0 noise_size * hd 0 (coord_moments sqrtf radius)))).
      generalize (ep_raw noise black (inject_Z (n_mask radius)) (hd 0 noise_size * hd 0 (coord_moments sqrtf radius)) raw).
      intros [| | |x] [| | |y] [| | |z]; cbn; auto; try contradiction.
      intros A B. now rewrite A.
    - rewrite !map_map. set (k := zipmul noise_size (coord_moments sqrtf radius)).
      induction raws as [|raw raws IH]; cbn [map]; [constructor|]. constructor; [|exact IH].
      clear IH. induction k as [|c cs IHc]; cbn [map]; [constructor|]. constructor; [|exact IHc].
      apply nan_if_negative_feq. apply entry_is_ep_raw.
  Qed.
End Agree.

(* ------------------------------------------- the comparison is a sound monitor *)
From Coq Require Import Qabs NArith.
From TP Require Import Model.LocateTailCheck Model.StaticErrorCheck.

Lemma corr_ep_one_sound : forall tol m i, 0 <= tol -> tol <= 1 ->
  corr_ep_one tol m i = 0%N -> ep_not_negative m -> ep_not_negative i.
Proof.
  intros tol [| | |e] [| | |e'] T0 T1; cbn [corr_ep_one ep_not_negative]; try (intro; discriminate); auto.
  destruct (Qle_bool (Qabs (e - e')) (tol * Qabs e)) eqn:E; [|intro; discriminate]. intros _ He.
  apply Qle_bool_iff in E. rewrite (Qabs_pos e He) in E.
  apply Qabs_Qle_condition in E. destruct E as [_ E]. nra.
Qed.

Lemma corr_ep_cols_sound : forall tol m i, 0 <= tol -> tol <= 1 ->
  corr_ep_cols tol m i = 0%N -> Forall ep_not_negative m -> Forall ep_not_negative i.
Proof.
  intros tol m. induction m as [|a m IH]; intros [|b i] T0 T1 H Hm; cbn in H; try discriminate.
  - constructor.
  - destruct (corr_ep_one tol a b) eqn:E; [|discriminate].
    inversion Hm; subst. constructor.
    + eapply corr_ep_one_sound; eauto.
    + apply IH; auto.
Qed.

Lemma cols_code_sound : forall tol model impl, 0 <= tol -> tol <= 1 ->
  cols_code tol model impl = 0%N ->
  map fst impl = map fst model /\
  (Forall (fun c => Forall ep_not_negative (snd c)) model ->
   Forall (fun c => Forall ep_not_negative (snd c)) impl).
Proof.
  intros tol model. induction model as [|[n c] model IH]; intros [|[n' c'] impl] T0 T1 H; cbn in H; try discriminate.
  - split; [reflexivity|]. intros _. constructor.
  - destruct (String.eqb n n') eqn:En; cbn in H; [|discriminate].
    apply String.eqb_eq in En. subst n'.
    destruct (corr_ep_cols tol c c') as [|p] eqn:Ec.
    + destruct (IH impl T0 T1 H) as [Hn Hs]. split; [cbn; now rewrite Hn|].
      intros Hm. inversion Hm; subst. constructor; [|now apply Hs].
      cbn [snd] in *. eapply corr_ep_cols_sound; eauto.
    + exfalso. destruct p as [[?|?|]|[?|?|]|]; cbn in H; discriminate.
Qed.

(* code 0 on the implementation's columns: they carry the model's names in the model's
   order and none of their entries is negative *)
Theorem check_se_sound : forall tol c, 0 <= tol -> tol <= 1 -> check_se tol c = 0%N ->
  let observed := match c with SELocate _ _ _ _ _ _ o => o | SEStatic _ _ _ _ _ o => o end in
  Forall (fun col => Forall ep_not_negative (snd col)) observed /\
  map fst observed =
    match c with
    | SELocate t radius ns black noise raws _ => map fst (locate_ep (sqrt_table t) radius ns black noise raws)
    | SEStatic t mass noise diameter ns _ => map fst (static_error (sqrt_table t) mass noise diameter ns)
    end.
Proof.
  intros tol [t radius ns black noise raws obs|t mass noise diameter ns obs] T0 T1 H; cbn [check_se] in H; cbv zeta;
    destruct (cols_code_sound _ _ _ T0 T1 H) as [Hn Hs]; split; auto; apply Hs.
  - apply locate_ep_not_negative.
  - apply static_error_not_negative.
Qed.
