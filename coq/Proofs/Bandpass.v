(* C10: the model of trackpy's bandpass (Model/Bandpass.v: separable passes over
   nested lists, each overwriting the running result) computes, pixel for pixel,
   the declarative filter of Model/BandpassSpec.v (nested sums over offsets),
   and the consequences: shape, sign, homogeneity, transposition, guard. *)
From Coq Require Import ZArith QArith Qabs Qround List Bool Lia Setoid Morphisms.
From TP Require Import Model.Bandpass Model.BandpassSpec.
Import ListNotations.
Open Scope Q_scope.

(* ====================================================================== *)
(* A. finite sums                                                          *)
(* ====================================================================== *)
Lemma Qsum_ext n f g : (forall k, (k < n)%nat -> f k == g k) -> Qsum n f == Qsum n g.
Proof.
  induction n; intros E; cbn [Qsum]. reflexivity.
  rewrite IHn, (E n) by (intros; try apply E; lia). reflexivity.
Qed.

Lemma Qsum_zero n f : (forall k, (k < n)%nat -> f k == 0) -> Qsum n f == 0.
Proof.
  induction n; intros E; cbn [Qsum]. reflexivity.
  rewrite IHn, (E n) by (intros; try apply E; lia). ring.
Qed.

Lemma Qsum_scale c n f : c * Qsum n f == Qsum n (fun k => c * f k).
Proof. induction n; cbn [Qsum]. ring. rewrite <- IHn. ring. Qed.

Lemma Qsum_plus n f g : Qsum n f + Qsum n g == Qsum n (fun k => f k + g k).
Proof. induction n; cbn [Qsum]. ring. rewrite <- IHn. ring. Qed.

Lemma Qsum_head n f : Qsum (S n) f == f 0%nat + Qsum n (fun k => f (S k)).
Proof.
  induction n. cbn [Qsum]. ring.
  cbn [Qsum] in *. rewrite IHn. ring.
Qed.

Lemma Qsum_swap n m (f : nat -> nat -> Q) :
  Qsum n (fun a => Qsum m (fun b => f a b)) == Qsum m (fun b => Qsum n (fun a => f a b)).
Proof.
  induction n; cbn [Qsum].
  - symmetry. apply Qsum_zero. reflexivity.
  - rewrite IHn, Qsum_plus. reflexivity.
Qed.

Lemma Qsum_rev n f : Qsum n f == Qsum n (fun k => f (n - 1 - k)%nat).
Proof.
  induction n. reflexivity.
  rewrite (Qsum_head n (fun k => f (S n - 1 - k)%nat)). cbn [Qsum]. rewrite IHn.
  replace (S n - 1 - 0)%nat with n by lia.
  rewrite Qplus_comm. apply Qplus_comp; [reflexivity|].
  apply Qsum_ext. intros k Hk. replace (S n - 1 - S k)%nat with (n - 1 - k)%nat by lia. reflexivity.
Qed.

Lemma Qsum_sym_ext r f g :
  (forall x, (- r <= x <= r)%Z -> f x == g x) -> Qsum_sym r f == Qsum_sym r g.
Proof.
  intros E. unfold Qsum_sym. apply Qsum_ext. intros k Hk. apply E. lia.
Qed.

Lemma Qsum_sym_scale c r f : c * Qsum_sym r f == Qsum_sym r (fun x => c * f x).
Proof. unfold Qsum_sym. apply Qsum_scale. Qed.

Lemma Qsum_sym_swap r s (f : Z -> Z -> Q) :
  Qsum_sym r (fun a => Qsum_sym s (fun b => f a b)) == Qsum_sym s (fun b => Qsum_sym r (fun a => f a b)).
Proof. unfold Qsum_sym. apply Qsum_swap. Qed.

Lemma Qsum_sym_zero r f : (forall x, (- r <= x <= r)%Z -> f x == 0) -> Qsum_sym r f == 0.
Proof. intros E. unfold Qsum_sym. apply Qsum_zero. intros. apply E. lia. Qed.

(* sum over x = sum over -x *)
Lemma Qsum_sym_flip r f : Qsum_sym r f == Qsum_sym r (fun x => f (- x)%Z).
Proof.
  unfold Qsum_sym. destruct (Z_lt_le_dec r 0) as [N|P].
  - replace (Z.to_nat (2 * r + 1)) with 0%nat by lia. reflexivity.
  - rewrite Qsum_rev. apply Qsum_ext. intros k Hk.
    replace (Z.of_nat (Z.to_nat (2 * r + 1) - 1 - k) - r)%Z with (- (Z.of_nat k - r))%Z by lia.
    reflexivity.
Qed.

(* ====================================================================== *)
(* B. vectors, linear functionals, the two line filters                    *)
(* ====================================================================== *)
Lemma qadd_correct a b : qadd a b == a + b.
Proof.
  unfold qadd. destruct a as [na da], b as [nb db]; cbn [Qnum Qden].
  destruct (Z.eqb_spec na 0) as [->|_].
  { unfold Qeq, Qplus; cbn [Qnum Qden]. rewrite Pos2Z.inj_mul. ring. }
  destruct (Z.eqb_spec nb 0) as [->|_].
  { unfold Qeq, Qplus; cbn [Qnum Qden]. rewrite Pos2Z.inj_mul. ring. }
  destruct (Pos.eqb_spec da db) as [->|_].
  { unfold Qeq, Qplus; cbn [Qnum Qden]. rewrite Pos2Z.inj_mul. ring. }
  apply Qred_correct.
Qed.

Lemma qdiv_correct a b : qdiv a b == a / b.
Proof.
  unfold qdiv. destruct a as [na da], b as [nb db]; cbn [Qnum Qden].
  destruct nb as [|p|p]; try reflexivity.
  destruct (Pos.eqb_spec da db) as [->|_]; try reflexivity.
  unfold Qdiv, Qinv, Qmult, Qeq; cbn [Qnum Qden]. rewrite !Pos2Z.inj_mul. ring.
Qed.

Record linear {T} (o : ops T) (pr : T -> Q) : Prop := mklin {
  lin_zero : pr (tzero o) == 0;
  lin_add : forall a b, pr (tadd o a b) == pr a + pr b;
  lin_scale : forall c a, pr (tscale o c a) == c * pr a }.

Lemma linear_q : linear qops (fun x => x).
Proof. split; cbn; intros. reflexivity. apply qadd_correct. reflexivity. Qed.

Lemma nth_nil {A} j (d : A) : nth j [] d = d.
Proof. destruct j; reflexivity. Qed.

Lemma linear_lift {T} (o : ops T) pr (j : nat) :
  linear o pr -> linear (lops o) (fun l => pr (nth j l (tzero o))).
Proof.
  intros L. split; cbn [lops tzero tadd tscale].
  - rewrite nth_nil. apply L.
  - intros a. revert j. induction a as [|x a IH]; intros j b.
    + cbn [vadd]. rewrite nth_nil, (lin_zero _ _ L). ring.
    + destruct b as [|y b].
      * cbn [vadd]. rewrite nth_nil, (lin_zero _ _ L). ring.
      * cbn [vadd]. destruct j; cbn [nth]. apply L. apply IH.
  - intros c a. revert j. induction a as [|x a IH]; intros j.
    + cbn [map]. rewrite nth_nil, (lin_zero _ _ L). ring.
    + cbn [map]. destruct j; cbn [nth]. apply L. apply IH.
Qed.

Lemma nth_map_seq {A} (f : nat -> A) n i d : (i < n)%nat -> nth i (map f (seq 0 n)) d = f i.
Proof.
  intros Hi. rewrite nth_indep with (d' := f 0%nat) by (rewrite map_length, seq_length; lia).
  rewrite map_nth, seq_nth by lia. reflexivity.
Qed.

Lemma nth_map_in {A B} (f : A -> B) l i d d' : (i < length l)%nat -> nth i (map f l) d' = f (nth i l d).
Proof.
  intros Hi. rewrite nth_indep with (d' := f d) by (rewrite map_length; lia). apply map_nth.
Qed.

Section LineLemmas.
  Context {T : Type} (o : ops T) (pr : T -> Q) (L : linear o pr).

  Lemma wsum_pr w xs i :
    pr (wsum o w xs i) == Qsum (length w) (fun k => nth k w 0 * pr (get0 o xs (i + Z.of_nat k))).
  Proof.
    revert i. induction w as [|c w IH]; intros i.
    - cbn. apply L.
    - cbn [wsum length]. rewrite (lin_add _ _ L), (lin_scale _ _ L), IH, Qsum_head.
      cbn [nth]. replace (i + Z.of_nat 0)%Z with i by lia.
      apply Qplus_comp; [reflexivity|]. apply Qsum_ext. intros k _.
      replace (i + 1 + Z.of_nat k)%Z with (i + Z.of_nat (S k))%Z by lia. reflexivity.
  Qed.

  Lemma bsum_pr n xs i :
    pr (bsum o n xs i) == Qsum n (fun k => pr (getn o xs (i + Z.of_nat k))).
  Proof.
    revert i. induction n as [|n IH]; intros i.
    - cbn. apply L.
    - cbn [bsum]. rewrite (lin_add _ _ L), IH, Qsum_head.
      replace (i + Z.of_nat 0)%Z with i by lia.
      apply Qplus_comp; [reflexivity|]. apply Qsum_ext. intros k _.
      replace (i + 1 + Z.of_nat k)%Z with (i + Z.of_nat (S k))%Z by lia. reflexivity.
  Qed.

  Lemma corr_pr w xs i : (i < length xs)%nat ->
    pr (nth i (correlate1d o w xs) (tzero o)) ==
    Qsum (length w) (fun k => nth k w 0 * pr (get0 o xs (Z.of_nat i - radius w + Z.of_nat k))).
  Proof. intros Hi. unfold correlate1d. rewrite nth_map_seq by exact Hi. apply wsum_pr. Qed.

  Lemma unif_pr s xs i : (i < length xs)%nat ->
    pr (nth i (uniform1d o s xs) (tzero o)) ==
    (1 # Z.to_pos s) * Qsum (Z.to_nat s) (fun k => pr (getn o xs (Z.of_nat i - s / 2 + Z.of_nat k))).
  Proof.
    intros Hi. unfold uniform1d. rewrite nth_map_seq by exact Hi.
    rewrite (lin_scale _ _ L), bsum_pr. reflexivity.
  Qed.
End LineLemmas.

Lemma corr_length {T} (o : ops T) w xs : length (correlate1d o w xs) = length xs.
Proof. unfold correlate1d. rewrite map_length, seq_length. reflexivity. Qed.
Lemma unif_length {T} (o : ops T) s xs : length (uniform1d o s xs) = length xs.
Proof. unfold uniform1d. rewrite map_length, seq_length. reflexivity. Qed.

(* ====================================================================== *)
(* C. shapes: a pass along the outer axis keeps the shape of the elements  *)
(* ====================================================================== *)
Definition inr {A} (xs : list A) (i : Z) : bool := (0 <=? i)%Z && (i <? Z.of_nat (length xs))%Z.

Lemma get0_out {T} (o : ops T) xs i : inr xs i = false -> get0 o xs i = tzero o.
Proof.
  unfold get0, inr. intros E. destruct (Z.ltb_spec i 0); [reflexivity|].
  apply nth_overflow. destruct (Z.leb_spec 0 i); destruct (Z.ltb_spec i (Z.of_nat (length xs))); cbn in E; try discriminate; lia.
Qed.

Lemma get0_in {T} (o : ops T) xs i : inr xs i = true ->
  get0 o xs i = nth (Z.to_nat i) xs (tzero o) /\ (Z.to_nat i < length xs)%nat.
Proof.
  unfold get0, inr. intros E.
  destruct (Z.leb_spec 0 i); destruct (Z.ltb_spec i (Z.of_nat (length xs))); cbn in E; try discriminate.
  destruct (Z.ltb_spec i 0); [lia|]. split; [reflexivity|lia].
Qed.

Lemma clampn_lt n i : (0 < n)%nat -> (clampn n i < n)%nat.
Proof. unfold clampn. destruct (i <? 0)%Z; lia. Qed.

Lemma clampn_clamp n i : (0 < n)%nat -> clampn n i = Z.to_nat (clamp n i).
Proof. unfold clampn, clamp. destruct (Z.ltb_spec i 0); lia. Qed.

Lemma clamp_range n i : (0 < n)%nat -> (0 <= clamp n i < Z.of_nat n)%Z.
Proof. unfold clamp. lia. Qed.

Lemma clamp_id n i : (0 <= i < Z.of_nat n)%Z -> clamp n i = i.
Proof. unfold clamp. lia. Qed.

Lemma vadd_nil_r {T} f (a : list T) : vadd f a [] = a.
Proof. destruct a; reflexivity. Qed.

Lemma Forall_vadd {T} (P : T -> Prop) f a b :
  (forall x y, P x -> P y -> P (f x y)) -> Forall P a -> Forall P b -> Forall P (vadd f a b).
Proof.
  intros Pf Ha. revert b. induction Ha as [|x a Px Ha IH]; intros b Hb; cbn [vadd]. exact Hb.
  destruct Hb as [|y b Py Hb]. constructor; assumption. constructor; auto.
Qed.

Lemma vadd_length {T} f (a b : list T) : length a = length b -> length (vadd f a b) = length a.
Proof.
  revert b. induction a as [|x a IH]; intros [|y b] E; cbn in *; try congruence. rewrite IH; congruence.
Qed.

Section Shape.
  Context {T : Type} (o : ops T) (good : list T -> Prop).
  Hypothesis good_add : forall a b, good a -> good b -> good (vadd (tadd o) a b).
  Hypothesis good_scale : forall c a, good a -> good (map (tscale o c) a).

  Lemma wsum_shape_aux w xs i0 : Forall good xs ->
    wsum (lops o) w xs i0 = [] \/ good (wsum (lops o) w xs i0).
  Proof.
    intros G. revert i0. induction w as [|c w IH]; intros i0. left; reflexivity.
    cbn [wsum lops tadd tscale tzero].
    destruct (inr xs i0) eqn:E.
    - right. apply (get0_in (lops o)) in E as [-> Hlt].
      assert (GA : good (map (tscale o c) (nth (Z.to_nat i0) xs (tzero (lops o))))).
      { apply good_scale. rewrite Forall_forall in G. apply G, nth_In, Hlt. }
      destruct (IH (i0 + 1)%Z) as [-> | GR]. rewrite vadd_nil_r. exact GA. apply good_add; assumption.
    - rewrite (get0_out (lops o)) by exact E. cbn [lops tzero map vadd]. apply IH.
  Qed.

  Lemma wsum_shape w xs i0 k : Forall good xs -> (k < length w)%nat ->
    inr xs (i0 + Z.of_nat k) = true -> good (wsum (lops o) w xs i0).
  Proof.
    intros G. revert i0 k. induction w as [|c w IH]; intros i0 k Hk E. cbn in Hk; lia.
    cbn [wsum lops tadd tscale tzero].
    destruct k as [|k].
    - replace (i0 + Z.of_nat 0)%Z with i0 in E by lia.
      apply (get0_in (lops o)) in E as [-> Hlt].
      assert (GA : good (map (tscale o c) (nth (Z.to_nat i0) xs (tzero (lops o))))).
      { apply good_scale. rewrite Forall_forall in G. apply G, nth_In, Hlt. }
      destruct (wsum_shape_aux w xs (i0 + 1)%Z G) as [-> | GR]. rewrite vadd_nil_r. exact GA. apply good_add; assumption.
    - assert (GR : good (wsum (lops o) w xs (i0 + 1))).
      { apply (IH _ k). cbn in Hk; lia. replace (i0 + 1 + Z.of_nat k)%Z with (i0 + Z.of_nat (S k))%Z by lia. exact E. }
      destruct (inr xs i0) eqn:E0.
      + apply (get0_in (lops o)) in E0 as [-> Hlt]. apply good_add; [|exact GR].
        apply good_scale. rewrite Forall_forall in G. apply G, nth_In, Hlt.
      + rewrite (get0_out (lops o)) by exact E0. cbn [lops tzero map vadd]. exact GR.
  Qed.

  Lemma bsum_shape n xs i0 : Forall good xs -> xs <> [] -> (0 < n)%nat -> good (bsum (lops o) n xs i0).
  Proof.
    intros G NE. revert i0. induction n as [|n IH]; intros i0 Hn. lia.
    cbn [bsum lops tadd].
    assert (GA : good (getn (lops o) xs i0)).
    { unfold getn. rewrite Forall_forall in G. apply G, nth_In, clampn_lt. destruct xs; [congruence|cbn; lia]. }
    destruct n as [|n]. cbn [bsum lops tzero]. rewrite vadd_nil_r. exact GA.
    apply good_add. exact GA. apply IH. lia.
  Qed.

  Lemma corr_shape w xs : Forall good xs -> w <> [] -> Forall good (correlate1d (lops o) w xs).
  Proof.
    intros G NE. unfold correlate1d. rewrite Forall_forall. intros y Hy.
    apply in_map_iff in Hy as [i [<- Hi]]. apply in_seq in Hi.
    apply (wsum_shape w xs _ (length w / 2)%nat G).
    - apply Nat.div_lt; [destruct w; [congruence|cbn; lia]|lia].
    - unfold radius, inr. apply andb_true_intro. split; [apply Z.leb_le|apply Z.ltb_lt]; lia.
  Qed.

  Lemma unif_shape s xs : Forall good xs -> (1 <= s)%Z -> Forall good (uniform1d (lops o) s xs).
  Proof.
    intros G Hs. unfold uniform1d. rewrite Forall_forall. intros y Hy.
    apply in_map_iff in Hy as [i [<- Hi]]. apply in_seq in Hi.
    cbn [lops tscale]. apply good_scale. apply bsum_shape. exact G.
    destruct xs; [cbn in Hi; lia|congruence]. lia.
  Qed.
End Shape.

(* ====================================================================== *)
(* D. the Gaussian kernel of the model is the truncated normalised Gaussian *)
(* ====================================================================== *)
Lemma Qlt_b_le a b : Qlt_b a b = negb (Qle_bool b a).
Proof. reflexivity. Qed.

Lemma Qle_bool_false a b : Qle_bool a b = false -> b < a.
Proof.
  intros E. apply Qnot_le_lt. intros L. apply Qle_bool_iff in L. congruence.
Qed.

Lemma arange_length lo n : length (arange lo n) = n.
Proof. revert lo. induction n; intros; cbn; auto. Qed.

Lemma arange_nth lo n k d : (k < n)%nat -> nth k (arange lo n) d = (lo + Z.of_nat k)%Z.
Proof.
  revert lo k. induction n; intros lo k Hk. lia.
  destruct k; cbn [arange nth]. lia. rewrite IHn by lia. lia.
Qed.

Lemma qsum_list_arange (f : Z -> Q) lo n :
  qsum_list (map f (arange lo n)) == Qsum n (fun k => f (lo + Z.of_nat k)%Z).
Proof.
  revert lo. induction n; intros lo. reflexivity.
  cbn [arange map qsum_list fold_right]. fold (qsum_list (map f (arange (lo + 1) n))).
  rewrite qadd_correct, IHn, Qsum_head. replace (lo + Z.of_nat 0)%Z with lo by lia.
  apply Qplus_comp; [reflexivity|]. apply Qsum_ext. intros k _.
  replace (lo + 1 + Z.of_nat k)%Z with (lo + Z.of_nat (S k))%Z by lia. reflexivity.
Qed.

Lemma half_width_floor t s : 0 <= t -> 0 < s ->
  half_width s t = Qfloor (t * s + (1 # 2)) /\ (0 <= half_width s t)%Z.
Proof.
  intros Ht Hs. unfold half_width, Qtrunc.
  assert (P : 0 <= t * s + (1 # 2)).
  { apply Qle_trans with (0 + 0). discriminate.
    apply Qplus_le_compat; [apply Qmult_le_0_compat; [exact Ht|apply Qlt_le_weak; exact Hs]|discriminate]. }
  destruct (t * s + (1 # 2)) as [n d]. cbn [Qnum Qden Qfloor].
  assert (0 <= n)%Z by (unfold Qle in P; cbn in P; lia).
  rewrite Z.quot_div_nonneg by lia. split; [reflexivity|apply Z.div_pos; lia].
Qed.

Lemma radius_odd (w : list Q) l : (0 <= l)%Z -> length w = Z.to_nat (2 * l + 1) -> radius w = l.
Proof.
  intros Hl E. unfold radius. rewrite E, Nat2Z.inj_div, Z2Nat.id by lia.
  symmetry. apply Z.div_unique with (r := 1%Z); lia.
Qed.

(* kernel as a function of the offset from its centre *)
Definition kf (w : list Q) (x : Z) : Q := nth (Z.to_nat (x + radius w)) w 0.

Lemma sum_kernel_sym w l c (F : Z -> Q) : (0 <= l)%Z -> length w = Z.to_nat (2 * l + 1) ->
  Qsum (length w) (fun k => nth k w 0 * F (c - radius w + Z.of_nat k)%Z)
  == Qsum_sym l (fun x => kf w x * F (c + x)%Z).
Proof.
  intros Hl E. unfold Qsum_sym, kf. rewrite (radius_odd w l Hl E), E.
  apply Qsum_ext. intros k Hk.
  replace (Z.to_nat (Z.of_nat k - l + l)) with k by lia.
  replace (c + (Z.of_nat k - l))%Z with (c - l + Z.of_nat k)%Z by lia. reflexivity.
Qed.

Section Kernel.
  Variables (t : Q) (p : axis_par).
  Hypothesis Ht : 0 <= t.
  Hypothesis Hs : Qle_bool (sigma p) 0 = false.

  Let l := gauss_hw t (sigma p).

  Lemma kern_hw : l = half_width (sigma p) t /\ (0 <= l)%Z.
  Proof.
    unfold l, gauss_hw. rewrite Hs.
    destruct (half_width_floor t (sigma p) Ht (Qle_bool_false _ _ Hs)) as [E P]. rewrite <- E. auto.
  Qed.

  Lemma kern_length : length (kern t p) = Z.to_nat (2 * l + 1).
  Proof.
    destruct kern_hw as [E _]. unfold kern, gaussian_kernel. rewrite !map_length, arange_length, <- E. reflexivity.
  Qed.

  Lemma kern_weight x : (- l <= x <= l)%Z -> kf (kern t p) x == gauss_w t (sigma p) (expo p) x.
  Proof.
    intros Hx. destruct kern_hw as [E Pl]. unfold kf. rewrite (radius_odd _ l Pl kern_length).
    unfold gauss_w. rewrite Hs. fold l.
    unfold kern, gaussian_kernel. rewrite <- E.
    set (n := Z.to_nat (2 * l + 1)).
    set (f := fun xi : Z => nth (Z.abs_nat xi) (expo p) 0).
    rewrite nth_map_in with (d := 0) by (rewrite map_length, arange_length; unfold n; lia).
    rewrite nth_map_in with (d := 0%Z) by (rewrite arange_length; unfold n; lia).
    rewrite arange_nth by (unfold n; lia).
    rewrite qdiv_correct, qsum_list_arange.
    replace (- l + Z.of_nat (Z.to_nat (x + l)))%Z with x by lia.
    apply Qdiv_comp. reflexivity.
    unfold Qsum_sym. fold n. apply Qsum_ext. intros k _. unfold f, gtab.
    replace (- l + Z.of_nat k)%Z with (Z.of_nat k - l)%Z by lia. reflexivity.
  Qed.

  Lemma kern_nonempty : kern t p <> [].
  Proof.
    destruct kern_hw as [_ Pl]. intros E. pose proof kern_length as K. rewrite E in K. cbn [length] in K. lia.
  Qed.
End Kernel.

(* ====================================================================== *)
(* E. 2-D: every pass, seen through the zero- / edge-extended image         *)
(* ====================================================================== *)
Lemma inside_inr {A} (xs : list A) n i : length xs = n -> inside n i = inr xs i.
Proof. intros <-. reflexivity. Qed.

Lemma inside_true n i : inside n i = true <-> (0 <= i < Z.of_nat n)%Z.
Proof. unfold inside. rewrite andb_true_iff, Z.leb_le, Z.ltb_lt. tauto. Qed.

Lemma rect2_row H W im i : rect2 H W im -> (i < H)%nat -> length (nth i im []) = W.
Proof. intros [Le F] Hi. rewrite Forall_forall in F. apply F, nth_In. lia. Qed.

Ltac lenlia R := let L := fresh "L" in pose proof R as [L _]; unfold row in *; rewrite ?L; lia.

Section TwoD.
  Variables H W : nat.
  Notation ZE := (zero_ext2 H W).
  Notation EE := (edge_ext2 H W).

  Lemma get0_rows im i' j : rect2 H W im -> (j < W)%nat ->
    nth j (get0 rops im i') 0 = ZE im i' (Z.of_nat j).
  Proof.
    intros R Hj. unfold zero_ext2, px2. rewrite (inside_inr im H i') by apply R.
    assert (Ij : inside W (Z.of_nat j) = true) by (apply inside_true; lia). rewrite Ij, andb_true_r.
    destruct (inr im i') eqn:E.
    - apply (get0_in rops) in E as [-> _]. rewrite Nat2Z.id. reflexivity.
    - rewrite (get0_out rops) by exact E. apply nth_nil.
  Qed.

  Lemma get0_cols im i j' : rect2 H W im -> (0 <= i < Z.of_nat H)%Z ->
    get0 qops (nth (Z.to_nat i) im []) j' = ZE im i j'.
  Proof.
    intros R Hi. unfold zero_ext2, px2.
    assert (Ii : inside H i = true) by (apply inside_true; lia). rewrite Ii, andb_true_l.
    rewrite (inside_inr (nth (Z.to_nat i) im []) W j') by (apply (rect2_row H W); [exact R|lia]).
    destruct (inr _ j') eqn:E.
    - apply (get0_in qops) in E as [-> _]. reflexivity.
    - rewrite (get0_out qops) by exact E. reflexivity.
  Qed.

  Lemma getn_rows im i' j : rect2 H W im -> (0 < H)%nat -> (j < W)%nat ->
    nth j (getn rops im i') 0 = EE im i' (Z.of_nat j).
  Proof.
    intros R HH Hj. unfold edge_ext2, px2, getn, row. destruct R as [Le _]. rewrite Le.
    rewrite clampn_clamp by exact HH. rewrite (clamp_id W) by lia. rewrite Nat2Z.id. reflexivity.
  Qed.

  Lemma getn_cols im i j' : rect2 H W im -> (0 <= i < Z.of_nat H)%Z -> (0 < W)%nat ->
    getn qops (nth (Z.to_nat i) im []) j' = EE im i j'.
  Proof.
    intros R Hi HW. unfold edge_ext2, px2, getn.
    rewrite (rect2_row H W im) by (try exact R; lia).
    rewrite clampn_clamp by exact HW. rewrite (clamp_id H) by lia. reflexivity.
  Qed.

  Lemma ZE_out_col im i j : inside W j = false -> ZE im i j = 0.
  Proof. intros E. unfold zero_ext2. rewrite E, andb_false_r. reflexivity. Qed.
  Lemma ZE_out_row im i j : inside H i = false -> ZE im i j = 0.
  Proof. intros E. unfold zero_ext2. rewrite E. reflexivity. Qed.
  Lemma ZE_in im i j : (0 <= i < Z.of_nat H)%Z -> (0 <= j < Z.of_nat W)%Z -> ZE im i j = px2 im i j.
  Proof.
    intros Hi Hj. unfold zero_ext2.
    rewrite (proj2 (inside_true H i) Hi), (proj2 (inside_true W j) Hj). reflexivity.
  Qed.

  (* shapes of the passes *)
  Lemma rect2_along0 (F : line_filter) im :
    (forall xs : list row, length (F row rops xs) = length xs) ->
    (forall xs : list row, Forall (fun r => length r = W) xs -> Forall (fun r => length r = W) (F row rops xs)) ->
    rect2 H W im -> rect2 H W (along2 F 0 im).
  Proof. intros FL FS [Le Fo]. split; cbn [along2]. rewrite FL. exact Le. apply FS, Fo. Qed.

  Lemma rect2_along1 (F : line_filter) im :
    (forall xs : row, length (F Q qops xs) = length xs) ->
    rect2 H W im -> rect2 H W (along2 F 1 im).
  Proof.
    intros FL [Le Fo]. split; cbn [along2]. rewrite map_length. exact Le.
    rewrite Forall_forall in *. intros r Hr. apply in_map_iff in Hr as [r0 [<- Hr0]]. rewrite FL. apply Fo, Hr0.
  Qed.

  Lemma row_add_len (a b : row) : length a = W -> length b = W -> length (vadd (tadd qops) a b) = W.
  Proof. intros. rewrite vadd_length; congruence. Qed.
  Lemma row_scale_len c (a : row) : length a = W -> length (map (tscale qops c) a) = W.
  Proof. intros. rewrite map_length. assumption. Qed.

  Lemma rect2_gauss w a im : w <> [] -> rect2 H W im -> rect2 H W (along2 (gauss_filter w) a im).
  Proof.
    intros NE R. destruct a.
    - apply rect2_along0; [intros; apply corr_length| |exact R].
      intros xs G. apply (corr_shape qops (fun r => length r = W) row_add_len row_scale_len); assumption.
    - apply rect2_along1; [intros; apply corr_length|exact R].
  Qed.

  Lemma rect2_box s a im : (1 <= s)%Z -> rect2 H W im -> rect2 H W (along2 (box_filter s) a im).
  Proof.
    intros Hs R. destruct a.
    - apply rect2_along0; [intros; apply unif_length| |exact R].
      intros xs G. apply (unif_shape qops (fun r => length r = W) row_add_len row_scale_len); assumption.
    - apply rect2_along1; [intros; apply unif_length|exact R].
  Qed.

  Lemma rect2_len im : rect2 H W im -> @length row im = H.
  Proof. intros [Le _]. exact Le. Qed.

  (* Gaussian pass along axis 0: valid for EVERY column index j *)
  Lemma gauss0_ZE w im i j : rect2 H W im -> (0 <= i < Z.of_nat H)%Z ->
    ZE (along2 (gauss_filter w) 0 im) i j ==
    Qsum (length w) (fun k => nth k w 0 * ZE im (i - radius w + Z.of_nat k) j).
  Proof.
    intros R Hi. destruct (inside W j) eqn:Ij.
    - apply inside_true in Ij. rewrite ZE_in by assumption. unfold px2. cbn [along2 gauss_filter].
      pose proof (corr_pr rops _ (linear_lift qops _ (Z.to_nat j) linear_q) w im (Z.to_nat i)) as P.
      cbn [tzero rops lops qops] in P. rewrite P by (lenlia R). clear P.
      apply Qsum_ext. intros k _. rewrite Z2Nat.id by lia.
      pose proof (get0_rows im (i - radius w + Z.of_nat k) (Z.to_nat j) R) as B.
      cbn [tzero rops lops qops] in B. rewrite B by lia. rewrite Z2Nat.id by lia. reflexivity.
    - rewrite ZE_out_col by exact Ij. symmetry. apply Qsum_zero. intros k _.
      rewrite ZE_out_col by exact Ij. ring.
  Qed.

  (* Gaussian pass along axis 1: valid for EVERY row index i *)
  Lemma gauss1_ZE w im i j : rect2 H W im -> (0 <= j < Z.of_nat W)%Z ->
    ZE (along2 (gauss_filter w) 1 im) i j ==
    Qsum (length w) (fun k => nth k w 0 * ZE im i (j - radius w + Z.of_nat k)).
  Proof.
    intros R Hj. destruct (inside H i) eqn:Ii.
    - apply inside_true in Ii. rewrite ZE_in by assumption. unfold px2. cbn [along2 gauss_filter].
      rewrite nth_map_in with (d := []) by (lenlia R).
      pose proof (corr_pr qops _ linear_q w (nth (Z.to_nat i) im []) (Z.to_nat j)) as P.
      cbn [tzero qops] in P. rewrite P by (rewrite (rect2_row H W) by (try exact R; lia); lia). clear P.
      apply Qsum_ext. intros k _. rewrite Z2Nat.id by lia.
      rewrite get0_cols by assumption. reflexivity.
    - rewrite ZE_out_row by exact Ii. symmetry. apply Qsum_zero. intros k _.
      rewrite ZE_out_row by exact Ii. ring.
  Qed.

  Lemma box0_EE s im i j : rect2 H W im -> (0 <= i < Z.of_nat H)%Z -> (0 < W)%nat ->
    EE (along2 (box_filter s) 0 im) i j ==
    (1 # Z.to_pos s) * Qsum (Z.to_nat s) (fun k => EE im (i - s / 2 + Z.of_nat k) j).
  Proof.
    intros R Hi HW. unfold edge_ext2 at 1. rewrite (clamp_id H i) by exact Hi.
    pose proof (clamp_range W j HW) as Cj. unfold px2. cbn [along2 box_filter].
    pose proof (unif_pr rops _ (linear_lift qops _ (Z.to_nat (clamp W j)) linear_q) s im (Z.to_nat i)) as P.
    cbn [tzero rops lops qops] in P. rewrite P by (lenlia R). clear P.
    apply Qmult_comp; [reflexivity|]. apply Qsum_ext. intros k _. rewrite Z2Nat.id by lia.
    pose proof (getn_rows im (i - s / 2 + Z.of_nat k) (Z.to_nat (clamp W j)) R) as B.
    cbn [tzero rops lops qops] in B. rewrite B by lia. rewrite Z2Nat.id by lia.
    unfold edge_ext2. rewrite (clamp_id W (clamp W j)) by lia. reflexivity.
  Qed.

  Lemma box1_EE s im i j : rect2 H W im -> (0 <= j < Z.of_nat W)%Z -> (0 < H)%nat ->
    EE (along2 (box_filter s) 1 im) i j ==
    (1 # Z.to_pos s) * Qsum (Z.to_nat s) (fun k => EE im i (j - s / 2 + Z.of_nat k)).
  Proof.
    intros R Hj HH. unfold edge_ext2 at 1. rewrite (clamp_id W j) by exact Hj.
    pose proof (clamp_range H i HH) as Ci. unfold px2. cbn [along2 box_filter].
    rewrite nth_map_in with (d := []) by (lenlia R).
    pose proof (unif_pr qops _ linear_q s (nth (Z.to_nat (clamp H i)) im []) (Z.to_nat j)) as P.
    cbn [tzero qops] in P. rewrite P by (rewrite (rect2_row H W) by (try exact R; lia); lia). clear P.
    apply Qmult_comp; [reflexivity|]. apply Qsum_ext. intros k _. rewrite Z2Nat.id by lia.
    rewrite getn_cols by (try assumption; lia).
    unfold edge_ext2. rewrite (clamp_id H (clamp H i)) by lia. reflexivity.
  Qed.
End TwoD.

(* ====================================================================== *)
(* F. composing the passes (2-D)                                            *)
(* ====================================================================== *)
Lemma Qsum_sym_0 f : Qsum_sym 0 f == f 0%Z.
Proof.
  unfold Qsum_sym. change (Z.to_nat (2 * 0 + 1)) with 1%nat. cbn [Qsum].
  change (Z.of_nat 0 - 0)%Z with 0%Z. ring.
Qed.

Lemma Qdiv_1 x : x / 1 == x.
Proof. unfold Qdiv. change (/ 1) with 1. ring. Qed.

Lemma inv_pos_inject s : (0 < s)%Z -> (1 # Z.to_pos s) == / inject_Z s.
Proof. intros Hs. destruct s; try lia. reflexivity. Qed.

Lemma odd_halves s : Z.odd s = true -> (s / 2 = box_hw s /\ s = 2 * box_hw s + 1)%Z.
Proof.
  intros O. apply Z.odd_spec in O as [m ->]. unfold box_hw.
  replace (2 * m + 1 - 1)%Z with (2 * m)%Z by lia.
  assert ((2 * m + 1) / 2 = m)%Z by (symmetry; apply Z.div_unique with (r := 1%Z); lia).
  assert ((2 * m) / 2 = m)%Z by (symmetry; apply Z.div_unique with (r := 0%Z); lia).
  lia.
Qed.

Lemma clip_compat thr v v' : v == v' -> clip thr v == clip thr v'.
Proof.
  intros E. unfold clip.
  destruct (Qle_bool thr v) eqn:A, (Qle_bool thr v') eqn:B; try assumption; try reflexivity.
  - apply Qle_bool_iff in A. rewrite E in A. apply Qle_bool_iff in A. congruence.
  - apply Qle_bool_iff in B. rewrite <- E in B. apply Qle_bool_iff in B. congruence.
Qed.

Lemma nth_map2 {A B C} (f : A -> B -> C) a b i da db dc :
  (i < length a)%nat -> (i < length b)%nat -> nth i (map2 f a b) dc = f (nth i a da) (nth i b db).
Proof.
  revert b i. induction a as [|x a IH]; intros [|y b] i Ha Hb; cbn in *; try lia.
  destruct i. reflexivity. apply IH; lia.
Qed.

Lemma map2_length {A B C} (f : A -> B -> C) a b : length a = length b -> length (map2 f a b) = length a.
Proof.
  revert b. induction a as [|x a IH]; intros [|y b] E; cbn in *; try congruence. rewrite IH; congruence.
Qed.

Definition gstep2 (t : Q) (a : nat) (p : axis_par) (x : img2) : img2 :=
  if Qlt_b 0 (sigma p) then along2 (gauss_filter (kern t p)) a x else x.
Definition bstep2 (a : nat) (p : axis_par) (x : img2) : img2 :=
  if (1 <? size p)%Z then along2 (box_filter (size p)) a x else x.

Lemma lowpass2_unfold t py px im : lowpass2 t py px im = gstep2 t 1 px (gstep2 t 0 py im).
Proof. reflexivity. Qed.

Lemma boxcar2_unfold py px im :
  boxcar2 py px im =
  if Z.odd (size py) && Z.odd (size px) then Some (bstep2 1 px (bstep2 0 py im)) else None.
Proof.
  unfold boxcar2, boxcar_g. cbn [forallb]. rewrite andb_true_r.
  destruct (Z.odd (size py) && Z.odd (size px)); reflexivity.
Qed.

Section TwoDCompose.
  Variables (H W : nat) (t : Q).
  Hypothesis Ht : 0 <= t.
  Notation ZE := (zero_ext2 H W).
  Notation EE := (edge_ext2 H W).
  Notation lw p := (gauss_hw t (sigma p)).
  Notation gw p := (gauss_w t (sigma p) (expo p)).

  Lemma gstep2_rect a p im : rect2 H W im -> rect2 H W (gstep2 t a p im).
  Proof.
    intros R. unfold gstep2. rewrite Qlt_b_le. destruct (Qle_bool (sigma p) 0) eqn:Hs; cbn [negb]. exact R.
    apply rect2_gauss; [apply kern_nonempty; assumption|exact R].
  Qed.

  Lemma bstep2_rect a p im : rect2 H W im -> rect2 H W (bstep2 a p im).
  Proof.
    intros R. unfold bstep2. destruct (Z.ltb_spec 1 (size p)); [|exact R].
    apply rect2_box; [lia|exact R].
  Qed.

  Lemma gstep2_0 p im i j : rect2 H W im -> (0 <= i < Z.of_nat H)%Z ->
    ZE (gstep2 t 0 p im) i j == Qsum_sym (lw p) (fun a => gw p a * ZE im (i + a) j).
  Proof.
    intros R Hi. unfold gstep2. rewrite Qlt_b_le. destruct (Qle_bool (sigma p) 0) eqn:Hs; cbn [negb].
    - unfold gauss_hw, gauss_w. rewrite Hs, Qsum_sym_0. replace (i + 0)%Z with i by lia. ring.
    - destruct (kern_hw t p Ht Hs) as [_ Pl].
      rewrite gauss0_ZE by assumption.
      rewrite (sum_kernel_sym (kern t p) (lw p) i (fun i' => ZE im i' j) Pl (kern_length t p Ht Hs)).
      apply Qsum_sym_ext. intros x Hx. rewrite (kern_weight t p Ht Hs x Hx). reflexivity.
  Qed.

  Lemma gstep2_1 p im i j : rect2 H W im -> (0 <= j < Z.of_nat W)%Z ->
    ZE (gstep2 t 1 p im) i j == Qsum_sym (lw p) (fun b => gw p b * ZE im i (j + b)).
  Proof.
    intros R Hj. unfold gstep2. rewrite Qlt_b_le. destruct (Qle_bool (sigma p) 0) eqn:Hs; cbn [negb].
    - unfold gauss_hw, gauss_w. rewrite Hs, Qsum_sym_0. replace (j + 0)%Z with j by lia. ring.
    - destruct (kern_hw t p Ht Hs) as [_ Pl].
      rewrite gauss1_ZE by assumption.
      rewrite (sum_kernel_sym (kern t p) (lw p) j (fun j' => ZE im i j') Pl (kern_length t p Ht Hs)).
      apply Qsum_sym_ext. intros x Hx. rewrite (kern_weight t p Ht Hs x Hx). reflexivity.
  Qed.

  Lemma box_sum_sym s c (F : Z -> Q) : Z.odd s = true -> (1 <= s)%Z ->
    (1 # Z.to_pos s) * Qsum (Z.to_nat s) (fun k => F (c - s / 2 + Z.of_nat k)%Z)
    == Qsum_sym (box_hw s) (fun x => F (c + x)%Z) / inject_Z (2 * box_hw s + 1).
  Proof.
    intros O Hs. destruct (odd_halves s O) as [E1 E2]. rewrite E1.
    rewrite inv_pos_inject by lia. unfold Qsum_sym. rewrite <- E2.
    unfold Qdiv. rewrite Qmult_comm. apply Qmult_comp; [|reflexivity].
    apply Qsum_ext. intros k _.
    replace (c + (Z.of_nat k - box_hw s))%Z with (c - box_hw s + Z.of_nat k)%Z by lia. reflexivity.
  Qed.

  Lemma bstep2_0 p im i j : rect2 H W im -> (0 <= i < Z.of_nat H)%Z -> (0 < W)%nat ->
    Z.odd (size p) = true -> (1 <= size p)%Z ->
    EE (bstep2 0 p im) i j ==
    Qsum_sym (box_hw (size p)) (fun a => EE im (i + a) j) / inject_Z (2 * box_hw (size p) + 1).
  Proof.
    intros R Hi HW O Hs. unfold bstep2. destruct (Z.ltb_spec 1 (size p)).
    - rewrite box0_EE by assumption. apply (box_sum_sym (size p) i (fun i' => EE im i' j) O Hs).
    - assert (E : size p = 1%Z) by lia. rewrite E. unfold box_hw.
      change ((1 - 1) / 2)%Z with 0%Z. rewrite Qsum_sym_0. replace (i + 0)%Z with i by lia.
      change (inject_Z (2 * 0 + 1)) with 1. symmetry. apply Qdiv_1.
  Qed.

  Lemma bstep2_1 p im i j : rect2 H W im -> (0 <= j < Z.of_nat W)%Z -> (0 < H)%nat ->
    Z.odd (size p) = true -> (1 <= size p)%Z ->
    EE (bstep2 1 p im) i j ==
    Qsum_sym (box_hw (size p)) (fun b => EE im i (j + b)) / inject_Z (2 * box_hw (size p) + 1).
  Proof.
    intros R Hj HH O Hs. unfold bstep2. destruct (Z.ltb_spec 1 (size p)).
    - rewrite box1_EE by assumption. apply (box_sum_sym (size p) j (fun j' => EE im i j') O Hs).
    - assert (E : size p = 1%Z) by lia. rewrite E. unfold box_hw.
      change ((1 - 1) / 2)%Z with 0%Z. rewrite Qsum_sym_0. replace (j + 0)%Z with j by lia.
      change (inject_Z (2 * 0 + 1)) with 1. symmetry. apply Qdiv_1.
  Qed.

  Lemma lowpass2_rect py px im : rect2 H W im -> rect2 H W (lowpass2 t py px im).
  Proof. intros R. rewrite lowpass2_unfold. apply gstep2_rect, gstep2_rect, R. Qed.

  (* the two Gaussian passes compose to the double sum *)
  Lemma lowpass2_pointwise py px im i j :
    rect2 H W im -> (0 <= i < Z.of_nat H)%Z -> (0 <= j < Z.of_nat W)%Z ->
    px2 (lowpass2 t py px im) i j == smooth2 H W (lw py) (lw px) (gw py) (gw px) im i j.
  Proof.
    intros R Hi Hj. rewrite <- (ZE_in H W) by assumption. rewrite lowpass2_unfold.
    rewrite gstep2_1 by (try apply gstep2_rect; assumption).
    unfold smooth2. rewrite Qsum_sym_swap. apply Qsum_sym_ext. intros b _.
    rewrite gstep2_0 by assumption. rewrite Qsum_sym_scale.
    apply Qsum_sym_ext. intros a _. ring.
  Qed.

  Lemma boxcar2_pointwise py px im bg i j :
    boxcar2 py px im = Some bg -> (1 <= size py)%Z -> (1 <= size px)%Z ->
    rect2 H W im -> (0 <= i < Z.of_nat H)%Z -> (0 <= j < Z.of_nat W)%Z ->
    rect2 H W bg /\
    px2 bg i j == average2 H W (box_hw (size py)) (box_hw (size px)) im i j.
  Proof.
    intros E Sy Sx R Hi Hj. rewrite boxcar2_unfold in E.
    destruct (Z.odd (size py)) eqn:Oy; [|discriminate]. destruct (Z.odd (size px)) eqn:Ox; [|discriminate].
    cbn [andb] in E. injection E as <-. split. apply bstep2_rect, bstep2_rect, R.
    assert (EEin : forall x, rect2 H W x -> px2 x i j = EE x i j).
    { intros x _. unfold edge_ext2. rewrite !clamp_id by assumption. reflexivity. }
    rewrite EEin by (apply bstep2_rect, bstep2_rect, R).
    rewrite bstep2_1 by (try apply bstep2_rect; try assumption; lia).
    unfold average2.
    rewrite inject_Z_mult. unfold Qdiv. rewrite Qinv_mult_distr, Qmult_assoc.
    apply Qmult_comp; [|reflexivity].
    rewrite Qsum_sym_swap. rewrite Qmult_comm, Qsum_sym_scale. apply Qsum_sym_ext. intros b _.
    rewrite bstep2_0 by (try assumption; lia). unfold Qdiv. ring.
  Qed.
End TwoDCompose.

(* ====================================================================== *)
(* G. bandpass, 2-D: the theorems                                           *)
(* ====================================================================== *)
Lemma rect2_map H W (f : Q -> Q) A : rect2 H W A -> rect2 H W (map (map f) A).
Proof.
  intros [Le Fo]. split. rewrite map_length. exact Le.
  rewrite Forall_forall in *. intros r Hr. apply in_map_iff in Hr as [r0 [<- Hr0]].
  rewrite map_length. apply Fo, Hr0.
Qed.

Lemma rect2_map2 H W (g : Q -> Q -> Q) A B : rect2 H W A -> rect2 H W B -> rect2 H W (map2 (map2 g) A B).
Proof.
  intros [LA FA] [LB FB]. split. rewrite map2_length; congruence.
  clear LA LB. revert B FB. induction FA as [|a A Pa FA IH]; intros B FB; cbn [map2]. constructor.
  destruct FB as [|b B Pb FB]; constructor. rewrite map2_length; congruence. apply IH, FB.
Qed.

Lemma px2_map H W (f : Q -> Q) A i j : rect2 H W A -> (0 <= i < Z.of_nat H)%Z -> (0 <= j < Z.of_nat W)%Z ->
  px2 (map (map f) A) i j = f (px2 A i j).
Proof.
  intros R Hi Hj. unfold px2. rewrite nth_map_in with (d := []) by (lenlia R).
  rewrite nth_map_in with (d := 0) by (rewrite (rect2_row H W) by (try exact R; lia); lia). reflexivity.
Qed.

Lemma px2_map2 H W (g : Q -> Q -> Q) A B i j : rect2 H W A -> rect2 H W B ->
  (0 <= i < Z.of_nat H)%Z -> (0 <= j < Z.of_nat W)%Z ->
  px2 (map2 (map2 g) A B) i j = g (px2 A i j) (px2 B i j).
Proof.
  intros RA RB Hi Hj. unfold px2.
  rewrite nth_map2 with (da := []) (db := []) by (first [lenlia RA | lenlia RB]).
  rewrite nth_map2 with (da := 0) (db := 0); [reflexivity| |];
    rewrite (rect2_row H W) by (first [exact RA | exact RB | lia]); lia.
Qed.

Lemma guard2_spec py px :
  guard [py; px] = true <-> (inject_Z (size py) <= sigma py \/ inject_Z (size px) <= sigma px).
Proof.
  unfold guard. cbn [existsb]. rewrite orb_false_r, orb_true_iff, !Qle_bool_iff. tauto.
Qed.

Lemma clip_below_sign thr d : clip_below thr d == 0 \/ (thr <= d /\ clip_below thr d = d).
Proof.
  unfold clip_below. destruct (Qle_bool thr d) eqn:E. right. split. apply Qle_bool_iff, E. reflexivity.
  left. reflexivity.
Qed.

Lemma clip_below_scale c thr d : 0 < c -> clip_below (c * thr) (c * d) == c * clip_below thr d.
Proof.
  intros Hc. unfold clip_below.
  destruct (Qle_bool thr d) eqn:A, (Qle_bool (c * thr) (c * d)) eqn:B; try reflexivity; try ring.
  - apply Qle_bool_iff in A. apply (proj2 (Qmult_le_l _ _ c Hc)) in A. apply Qle_bool_iff in A. congruence.
  - apply Qle_bool_iff in B. apply (proj1 (Qmult_le_l _ _ c Hc)) in B. apply Qle_bool_iff in B. congruence.
Qed.

Section TwoDMain.
  Variables (H W : nat) (t : Q) (py px : axis_par).
  Hypothesis Ht : 0 <= t.
  Hypothesis Sy : (1 <= size py)%Z.
  Hypothesis Sx : (1 <= size px)%Z.
  Notation doc thr := (documented2 H W t (sigma py) (sigma px) (expo py) (expo px) (size py) (size px) thr).
  Notation dif := (difference2 H W t (sigma py) (sigma px) (expo py) (expo px) (size py) (size px)).

  Theorem bandpass2_pointwise thr im out :
    rect2 H W im -> bandpass2 t py px thr im = Ok out ->
    rect2 H W out /\
    forall i j, (0 <= i < Z.of_nat H)%Z -> (0 <= j < Z.of_nat W)%Z -> px2 out i j == doc thr im i j.
  Proof.
    intros R E. unfold bandpass2, bandpass2_pre in E.
    destruct (guard [py; px]); [discriminate|].
    destruct (boxcar2 py px im) as [bg|] eqn:B; [|discriminate].
    cbn [map_outcome] in E. injection E as <-.
    assert (Rbg : rect2 H W bg).
    { rewrite boxcar2_unfold in B. destruct (Z.odd (size py) && Z.odd (size px)); [|discriminate].
      injection B as <-. apply bstep2_rect, bstep2_rect, R. }
    pose proof (lowpass2_rect H W t Ht py px im R) as Rlp.
    split. apply rect2_map, rect2_map2; assumption.
    intros i j Hi Hj.
    rewrite (px2_map H W) by (try apply rect2_map2; assumption).
    rewrite (px2_map2 H W) by assumption.
    unfold documented2, difference2. apply clip_compat. unfold Qminus. apply Qplus_comp.
    - apply lowpass2_pointwise; assumption.
    - apply Qopp_comp. apply (boxcar2_pointwise H W py px im bg i j B Sy Sx R Hi Hj).
  Qed.

  (* which of the three outcomes: decided by the parameters alone *)
  Theorem bandpass2_outcome thr im :
    match bandpass2 t py px thr im with
    | ErrScale => inject_Z (size py) <= sigma py \/ inject_Z (size px) <= sigma px
    | ErrEven => (sigma py < inject_Z (size py) /\ sigma px < inject_Z (size px)) /\
                 (Z.odd (size py) = false \/ Z.odd (size px) = false)
    | Ok _ => (sigma py < inject_Z (size py) /\ sigma px < inject_Z (size px)) /\
              Z.odd (size py) = true /\ Z.odd (size px) = true
    end.
  Proof.
    unfold bandpass2, bandpass2_pre. destruct (guard [py; px]) eqn:G.
    - apply guard2_spec, G.
    - assert (NG : sigma py < inject_Z (size py) /\ sigma px < inject_Z (size px)).
      { unfold guard in G. cbn [existsb] in G. rewrite orb_false_r in G. apply orb_false_iff in G as [G1 G2].
        split; apply Qle_bool_false; assumption. }
      rewrite boxcar2_unfold.
      destruct (Z.odd (size py)) eqn:Oy, (Z.odd (size px)) eqn:Ox; cbn [andb map_outcome]; auto.
  Qed.

  Theorem bandpass2_guard thr im :
    bandpass2 t py px thr im = ErrScale <->
    (inject_Z (size py) <= sigma py \/ inject_Z (size px) <= sigma px).
  Proof.
    pose proof (bandpass2_outcome thr im) as O. split.
    - intros E. rewrite E in O. exact O.
    - intros G. destruct (bandpass2 t py px thr im); [|reflexivity|];
        destruct O as [[A B] _]; destruct G as [G|G];
        [apply Qle_not_lt in G; contradiction|apply Qle_not_lt in G; contradiction
        |apply Qle_not_lt in G; contradiction|apply Qle_not_lt in G; contradiction].
  Qed.

  (* the outcome kind does not depend on the image or the threshold *)
  Lemma bandpass2_ok_indep thr im out thr' im' :
    bandpass2 t py px thr im = Ok out -> exists out', bandpass2 t py px thr' im' = Ok out'.
  Proof.
    intros E. pose proof (bandpass2_outcome thr im) as O. rewrite E in O. destruct O as [[A B] [Oy Ox]].
    pose proof (bandpass2_outcome thr' im') as O'. destruct (bandpass2 t py px thr' im') as [o| |].
    - eauto.
    - destruct O' as [G|G]; apply Qle_not_lt in G; contradiction.
    - destruct O' as [_ [G|G]]; congruence.
  Qed.

  Theorem bandpass2_sign thr im out i j :
    rect2 H W im -> bandpass2 t py px thr im = Ok out ->
    (0 <= i < Z.of_nat H)%Z -> (0 <= j < Z.of_nat W)%Z ->
    (px2 out i j == 0 \/ thr <= px2 out i j) /\
    (0 <= thr -> 0 <= px2 out i j) /\
    (px2 out i j < 0 <-> (thr <= dif im i j /\ dif im i j < 0)).
  Proof.
    intros R E Hi Hj. destruct (bandpass2_pointwise thr im out R E) as [_ P].
    specialize (P i j Hi Hj). unfold documented2 in P. set (d := dif im i j) in *.
    destruct (clip_below_sign thr d) as [Z0 | [Le Eq]].
    - rewrite Z0 in P. split; [left; exact P|]. split. intros _. rewrite P. apply Qle_refl.
      split. intros N. rewrite P in N. discriminate.
      intros [Le N]. unfold clip_below in Z0. apply Qle_bool_iff in Le. rewrite Le in Z0.
      rewrite Z0 in N. discriminate.
    - rewrite Eq in P. split; [right; rewrite P; exact Le|]. split.
      intros T0. rewrite P. apply Qle_trans with thr; assumption.
      rewrite P. tauto.
  Qed.
End TwoDMain.

(* ---------- homogeneity and transposition (2-D) --------------------------- *)
Lemma ZE2_scale H W c im i j : rect2 H W im ->
  zero_ext2 H W (scale2 c im) i j == c * zero_ext2 H W im i j.
Proof.
  intros R. unfold zero_ext2. destruct (inside H i && inside W j) eqn:E; [|ring].
  apply andb_true_iff in E as [Ei Ej]. apply inside_true in Ei. apply inside_true in Ej.
  unfold scale2. rewrite (px2_map H W) by assumption. reflexivity.
Qed.

Lemma EE2_scale H W c im i j : rect2 H W im -> (0 < H)%nat -> (0 < W)%nat ->
  edge_ext2 H W (scale2 c im) i j == c * edge_ext2 H W im i j.
Proof.
  intros R HH HW. unfold edge_ext2, scale2.
  rewrite (px2_map H W) by (try assumption; apply clamp_range; assumption). reflexivity.
Qed.

Lemma difference2_scale H W t sy sx Ey Ex ly lx c im i j :
  rect2 H W im -> (0 < H)%nat -> (0 < W)%nat ->
  difference2 H W t sy sx Ey Ex ly lx (scale2 c im) i j == c * difference2 H W t sy sx Ey Ex ly lx im i j.
Proof.
  intros R HH HW. unfold difference2.
  assert (S : forall l1 l2 g1 g2, smooth2 H W l1 l2 g1 g2 (scale2 c im) i j == c * smooth2 H W l1 l2 g1 g2 im i j).
  { intros. unfold smooth2. rewrite Qsum_sym_scale. apply Qsum_sym_ext. intros a _.
    rewrite Qsum_sym_scale. apply Qsum_sym_ext. intros b _. rewrite ZE2_scale by exact R. ring. }
  assert (A : forall b1 b2, average2 H W b1 b2 (scale2 c im) i j == c * average2 H W b1 b2 im i j).
  { intros. unfold average2, Qdiv. rewrite Qmult_assoc. apply Qmult_comp; [|reflexivity].
    rewrite Qsum_sym_scale. apply Qsum_sym_ext. intros a _.
    rewrite Qsum_sym_scale. apply Qsum_sym_ext. intros b _. apply EE2_scale; assumption. }
  rewrite S, A. ring.
Qed.

Theorem bandpass2_homogeneous H W t py px c thr im out :
  0 <= t -> (1 <= size py)%Z -> (1 <= size px)%Z -> 0 < c ->
  rect2 H W im -> bandpass2 t py px thr im = Ok out ->
  exists out', bandpass2 t py px (c * thr) (scale2 c im) = Ok out' /\ rect2 H W out' /\
    forall i j, (0 <= i < Z.of_nat H)%Z -> (0 <= j < Z.of_nat W)%Z -> px2 out' i j == c * px2 out i j.
Proof.
  intros Ht Sy Sx Hc R E.
  destruct (bandpass2_ok_indep t py px thr im out (c * thr) (scale2 c im) E) as [out' E'].
  exists out'. split. exact E'.
  assert (R' : rect2 H W (scale2 c im)) by (apply rect2_map, R).
  destruct (bandpass2_pointwise H W t py px Ht Sy Sx thr im out R E) as [_ P].
  destruct (bandpass2_pointwise H W t py px Ht Sy Sx (c * thr) (scale2 c im) out' R' E') as [Ro' P'].
  split. exact Ro'. intros i j Hi Hj. rewrite P', P by assumption.
  unfold documented2. rewrite <- clip_below_scale by exact Hc. apply clip_compat.
  apply difference2_scale; [exact R|lia|lia].
Qed.

Lemma ZE2_transposed H W A B i j : transposed2 H W A B -> zero_ext2 W H B j i = zero_ext2 H W A i j.
Proof.
  intros (_ & _ & T). unfold zero_ext2. rewrite andb_comm.
  destruct (inside H i && inside W j) eqn:E; [|reflexivity].
  apply andb_true_iff in E as [Ei Ej]. apply T; apply inside_true; assumption.
Qed.

Lemma EE2_transposed H W A B i j : transposed2 H W A B -> (0 < H)%nat -> (0 < W)%nat ->
  edge_ext2 W H B j i = edge_ext2 H W A i j.
Proof. intros (_ & _ & T) HH HW. unfold edge_ext2. apply T; apply clamp_range; assumption. Qed.

Lemma documented2_transposed H W t sy sx Ey Ex ly lx thr A B i j :
  transposed2 H W A B -> (0 < H)%nat -> (0 < W)%nat ->
  documented2 W H t sx sy Ex Ey lx ly thr B j i == documented2 H W t sy sx Ey Ex ly lx thr A i j.
Proof.
  intros T HH HW. unfold documented2. apply clip_compat. unfold difference2, Qminus. apply Qplus_comp.
  - unfold smooth2. rewrite Qsum_sym_swap. apply Qsum_sym_ext. intros a _. apply Qsum_sym_ext. intros b _.
    rewrite (ZE2_transposed H W A B _ _ T). ring.
  - apply Qopp_comp. unfold average2. rewrite Qsum_sym_swap.
    replace ((2 * box_hw lx + 1) * (2 * box_hw ly + 1))%Z with ((2 * box_hw ly + 1) * (2 * box_hw lx + 1))%Z by ring.
    apply Qmult_comp; [|reflexivity].
    apply Qsum_sym_ext. intros a _. apply Qsum_sym_ext. intros b _.
    rewrite (EE2_transposed H W A B _ _ T HH HW). reflexivity.
Qed.

Theorem bandpass2_transpose H W t py px thr A B oA oB :
  0 <= t -> (1 <= size py)%Z -> (1 <= size px)%Z ->
  transposed2 H W A B ->
  bandpass2 t py px thr A = Ok oA -> bandpass2 t px py thr B = Ok oB ->
  rect2 H W oA /\ rect2 W H oB /\
  forall i j, (0 <= i < Z.of_nat H)%Z -> (0 <= j < Z.of_nat W)%Z -> px2 oB j i == px2 oA i j.
Proof.
  intros Ht Sy Sx T EA EB. pose proof T as (RA & RB & _).
  destruct (bandpass2_pointwise H W t py px Ht Sy Sx thr A oA RA EA) as [RoA PA].
  destruct (bandpass2_pointwise W H t px py Ht Sx Sy thr B oB RB EB) as [RoB PB].
  split. exact RoA. split. exact RoB. intros i j Hi Hj.
  rewrite PA, PB by assumption. apply documented2_transposed; [exact T|lia|lia].
Qed.

(* ---------- the Gaussian weights: even, normalised; convolution form ------- *)
Lemma gauss_w_even t s E x : gauss_w t s E (- x) = gauss_w t s E x.
Proof. unfold gauss_w, gtab. replace (Z.abs_nat (- x)) with (Z.abs_nat x) by lia. reflexivity. Qed.

Lemma gauss_w_normalised t s E :
  ~ Qsum_sym (gauss_hw t s) (gtab E) == 0 -> Qsum_sym (gauss_hw t s) (gauss_w t s E) == 1.
Proof.
  intros NZ. unfold gauss_w. destruct (Qle_bool s 0) eqn:Hs.
  - unfold gauss_hw. rewrite Hs. apply Qsum_sym_0.
  - set (S := Qsum_sym (gauss_hw t s) (gtab E)) in *.
    rewrite (Qsum_sym_ext _ _ (fun x => / S * gtab E x)) by (intros; unfold Qdiv; ring).
    rewrite <- Qsum_sym_scale. fold S. field. exact NZ.
Qed.

Theorem smooth2_convolution H W t sy sx Ey Ex im i j :
  smooth2 H W (gauss_hw t sy) (gauss_hw t sx) (gauss_w t sy Ey) (gauss_w t sx Ex) im i j ==
  Qsum_sym (gauss_hw t sy) (fun a => Qsum_sym (gauss_hw t sx) (fun b =>
    gauss_w t sy Ey a * gauss_w t sx Ex b * zero_ext2 H W im (i - a) (j - b))).
Proof.
  unfold smooth2. rewrite Qsum_sym_flip. apply Qsum_sym_ext. intros a _.
  rewrite Qsum_sym_flip. apply Qsum_sym_ext. intros b _.
  rewrite !gauss_w_even. replace (i + - a)%Z with (i - a)%Z by lia. replace (j + - b)%Z with (j - b)%Z by lia.
  reflexivity.
Qed.

Lemma kern_is_gaussian (t : Q) (p : axis_par) :
  0 <= t -> Qle_bool (sigma p) 0 = false ->
  length (kern t p) = Z.to_nat (2 * gauss_hw t (sigma p) + 1) /\
  forall x, (- gauss_hw t (sigma p) <= x <= gauss_hw t (sigma p))%Z ->
    kf (kern t p) x == gauss_w t (sigma p) (expo p) x.
Proof. intros Ht Hs. split. exact (kern_length t p Ht Hs). exact (kern_weight t p Ht Hs). Qed.
