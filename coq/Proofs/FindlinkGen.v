(* Route T for C14: the functions GENERATED from the current source text of
   trackpy/linking/find_link.py (Gen/findlink.v, by tools/py2coq_findlink.py; vocabulary
   Model/PyFindlink.v) equal the hand-written model the C14 theorems are stated about
   (Model/FindLink.v), for all inputs.

     py_percentile_threshold_eq        the cache: recomputed exactly when curr_t differs from the cached
                                       frame number; the value is the frame's threshold [thr_of]
     py_get_relocate_candidates_eq     generated get_relocate_candidates = Model.FindLink.relocate_cands
                                       (fixed = true: the code as it is now) at that threshold
     py_relocate_eq                    generated relocate = Model.FindLink.relocate
     py_relocate_image_reloc           ... = the relocation oracle image_reloc of the C14 theorems *)
From Coq Require Import ZArith QArith Qround List Bool Arith Lia Permutation.
From TP Require Import Model.Assign Model.Link Model.Dilation Model.FindLink Model.PyFind Model.PyFindlink
     Proofs.Dilation Proofs.FindGen Proofs.Cands Proofs.FindLink.
From TP Require Import Gen.findlink.
Import ListNotations.
Open Scope Z_scope.

(* ============================================================ the threshold cache *)
Definition fresh_thr (npp : list Z -> Q -> Q) (self : flinker) : option Q :=
  match not_black (fl_image self) with [] => None | l => Some (npp l (fl_percentile self)) end.

Definition cached (self : flinker) : bool := optZ_eq (Some (fl_curr_t self)) (fst (fl_threshold self)).

(* the threshold get_relocate_candidates works with *)
Definition thr_of (npp : list Z -> Q -> Q) (self : flinker) : option Q :=
  if cached self then snd (fl_threshold self) else fresh_thr npp self.

Definition after_thr (npp : list Z -> Q -> Q) (self : flinker) : flinker :=
  if cached self then self else set_fl_threshold self (Some (fl_curr_t self), fresh_thr npp self).

Theorem py_percentile_threshold_eq npp self :
  py_percentile_threshold npp self (fl_percentile self) = (thr_of npp self, after_thr npp self).
Proof.
  unfold py_percentile_threshold, thr_of, after_thr, cached, fresh_thr.
  destruct (fl_threshold self) as [fno thr] eqn:E. cbn [fst snd].
  destruct (optZ_eq (Some (fl_curr_t self)) fno); cbn [negb]; [reflexivity|].
  change (np_nonzero_values (nd (fl_image self))) with (not_black (fl_image self)).
  rewrite py_len_nil_iff. destruct (not_black (fl_image self)); reflexivity.
Qed.

Lemma optZ_eq_refl a : optZ_eq a a = true.
Proof. destruct a; cbn; [apply Z.eqb_refl|reflexivity]. Qed.

(* within a frame the threshold is computed once: after any call it is cached, and the
   cached value is the one the call used *)
Theorem threshold_cached_after npp self :
  cached (after_thr npp self) = true /\ thr_of npp (after_thr npp self) = thr_of npp self /\
  after_thr npp (after_thr npp self) = after_thr npp self.
Proof.
  unfold after_thr, thr_of. destruct (cached self) eqn:E.
  - rewrite E. auto.
  - assert (H : cached (set_fl_threshold self (Some (fl_curr_t self), fresh_thr npp self)) = true).
    { unfold cached, set_fl_threshold. cbn. apply Z.eqb_refl. }
    rewrite H. auto.
Qed.

(* a new frame (curr_t differs from the cached frame number) recomputes *)
Theorem threshold_recomputed npp self :
  cached self = false -> thr_of npp self = fresh_thr npp self.
Proof. unfold thr_of. intros ->. reflexivity. Qed.

Lemma after_thr_fields npp self :
  fl_P (after_thr npp self) = fl_P self /\ fl_image (after_thr npp self) = fl_image self /\
  fl_curr_t (after_thr npp self) = fl_curr_t self /\ fl_known (after_thr npp self) = fl_known self /\
  fl_percentile (after_thr npp self) = fl_percentile self.
Proof. unfold after_thr. destruct (cached self); cbn; auto. Qed.

(* ============================================================ small list facts *)
Lemma sumZ_zero {A} (l : list A) : sumZ (map (fun _ => 0) l) = 0.
Proof. induction l; cbn; [reflexivity|exact IHl]. Qed.

Lemma len0_nil {A} (l : list A) : (Z.of_nat (length l) =? 0) = true -> l = [].
Proof. destruct l; [reflexivity|]. cbn [length]. intros H. apply Z.eqb_eq in H. lia. Qed.

Lemma mask_select_map_filter {A} (p : A -> bool) (l : list A) : mask_select (map p l) l = filter p l.
Proof.
  unfold mask_select. induction l as [|x l IH]; [reflexivity|].
  cbn. destruct (p x); cbn; rewrite IH; reflexivity.
Qed.

Lemma mask_select_map2 {A B} (p : A -> bool) (g : A -> B) (l : list A) :
  mask_select (map p l) (map g l) = map g (filter p l).
Proof.
  unfold mask_select. induction l as [|x l IH]; [reflexivity|].
  cbn. destruct (p x); cbn; rewrite IH; reflexivity.
Qed.

Lemma fold_rel_filter (p : pt -> bool) (q : eucl_pt -> bool) (w : list Z) (l : list pt) :
  (forall a, q (w, a) = p a) -> forall acc,
  fold_left (fun acc (it : pt * eucl_pt) => if q (snd it) then rel_append acc (fst it) else acc)
            (combine l (map (fun r => (w, r)) l)) acc
  = Rel (rel_abs acc ++ filter p l).
Proof.
  intros Hq. induction l as [|x l IH]; intros acc; cbn.
  - rewrite app_nil_r. destruct acc; reflexivity.
  - rewrite IH, Hq. destruct (p x); cbn; [rewrite <- app_assoc|]; reflexivity.
Qed.

Lemma combine_map_self {A B} (g : A -> B) (l : list A) : combine l (map g l) = map (fun a => (a, g a)) l.
Proof. induction l as [|a l IH]; cbn; [reflexivity|]. rewrite IH. reflexivity. Qed.

(* ============================================================ argsort / minmass selection *)
Section SortBy.
  Context {A : Type} (key : A -> option Z).
  Fixpoint insert_by (x : A) (l : list A) : list A :=
    match l with
    | [] => [x]
    | y :: l' => if mass_ge (key y) (key x) then y :: insert_by x l' else x :: y :: l'
    end.
  Definition sort_by (l : list A) : list A := fold_right insert_by [] l.
  Lemma insert_by_in x l y : In y (insert_by x l) -> y = x \/ In y l.
  Proof.
    induction l as [|z l IH]; cbn; [intuition|].
    destruct (mass_ge (key z) (key x)); cbn; intuition.
  Qed.
  Lemma sort_by_in l y : In y (sort_by l) -> In y l.
  Proof.
    induction l as [|x l IH]; cbn; [auto|]. intros H. apply insert_by_in in H. intuition.
  Qed.
End SortBy.

Lemma sort_by_map {A B} (k1 : A -> option Z) (k2 : B -> option Z) (g : A -> B) :
  (forall x, k2 (g x) = k1 x) -> forall l, map g (sort_by k1 l) = sort_by k2 (map g l).
Proof.
  intros Hk. assert (Hi : forall x l, map g (insert_by k1 x l) = insert_by k2 (g x) (map g l)).
  { intros x l. induction l as [|y l IH]; cbn; [reflexivity|].
    rewrite !Hk. destruct (mass_ge (k1 y) (k1 x)); cbn; [rewrite IH|]; reflexivity. }
  unfold sort_by. induction l as [|x l IH]; cbn [fold_right map]; [reflexivity|]. rewrite Hi. f_equal. exact IH.
Qed.

Lemma sort_m_by l : sort_m l = sort_by (fun x : cm => snd x) l.
Proof.
  assert (Hi : forall x l, insert_m x l = insert_by (fun x : cm => snd x) x l).
  { intros x l0. induction l0 as [|y l0 IH]; cbn; [reflexivity|]. rewrite IH. reflexivity. }
  unfold sort_m, sort_by. induction l as [|x l IH]; cbn; [reflexivity|]. rewrite IH, Hi. reflexivity.
Qed.

Lemma sort_im_by l : fold_right insert_im [] l = sort_by (fun x : imass => snd x) l.
Proof.
  assert (Hi : forall x l, insert_im x l = insert_by (fun x : imass => snd x) x l).
  { intros x l0. induction l0 as [|y l0 IH]; cbn; [reflexivity|]. rewrite IH. reflexivity. }
  unfold sort_by. induction l as [|x l IH]; cbn; [reflexivity|]. rewrite IH, Hi. reflexivity.
Qed.

Lemma enum_nth {A} (d : A) (l : list A) : forall s i x,
  In (i, x) (combine (seq s (length l)) l) -> (s <= i)%nat /\ nth (i - s) l d = x.
Proof.
  induction l as [|y l IH]; intros s i x H; cbn in H; [contradiction|].
  destruct H as [H|H].
  - inversion H; subst. rewrite Nat.sub_diag. split; [lia|reflexivity].
  - apply IH in H. destruct H as [H1 H2]. split; [lia|].
    replace (i - s)%nat with (S (i - S s)) by lia. exact H2.
Qed.

Lemma map_combine_r {A B C} (g : B -> C) (a : list A) : forall (b : list B),
  map (fun x : A * B => (fst x, g (snd x))) (combine a b) = combine a (map g b).
Proof. induction a as [|x a IH]; intros [|y b]; cbn; [reflexivity..|]. rewrite IH. reflexivity. Qed.

Lemma map_snd_combine_seq {A} (l : list A) : forall s, map snd (combine (seq s (length l)) l) = l.
Proof. induction l as [|x l IH]; intros s; cbn; [reflexivity|]. rewrite IH. reflexivity. Qed.

Lemma filter_map_comm {A B} (g : A -> B) (p : B -> bool) (l : list A) :
  filter p (map g l) = map g (filter (fun x => p (g x)) l).
Proof. induction l as [|x l IH]; cbn; [reflexivity|]. destruct (p (g x)); cbn; rewrite IH; reflexivity. Qed.

Lemma combine_map_nth {A B} (da : A) (db : B) (a : list A) (b : list B) (idx : list nat) :
  combine (map (fun i => nth i a da) idx) (map (fun i => nth i b db) idx)
  = map (fun i => (nth i a da, nth i b db)) idx.
Proof. induction idx as [|i idx IH]; cbn; [reflexivity|]. rewrite IH. reflexivity. Qed.

(* coords[mask] paired with mass[mask], mask = order[mass[order] >= minmass], order = argsort(mass)[::-1]:
   the candidates sorted by decreasing mass (stable, NaN first), those below minmass or NaN removed *)
Lemma argsort_select (mm : Q) (coords : list pt) (mass : list (option Z)) :
  length coords = length mass ->
  let order := np_argsort_rev mass in
  let mask := mask_select (vec_ge_minmass (take_mass mass order) mm) order in
  combine (map (fun i => nth i coords []) mask) (take_mass mass mask)
  = filter (fun x : cm => mass_ok mm (snd x)) (sort_m (combine coords mass)).
Proof.
  intros Hlen order mask.
  set (CM := combine coords mass).
  set (L3 := combine (seq 0 (length CM)) CM).
  set (k3 := fun x : nat * cm => snd (snd x)).
  set (S3 := sort_by k3 L3).
  assert (HlenCM : length CM = length mass).
  { unfold CM. rewrite combine_length, Hlen. apply Nat.min_id. }
  (* order = map fst S3 *)
  assert (Hord : order = map fst S3).
  { unfold order, np_argsort_rev. rewrite sort_im_by.
    replace (combine (seq 0 (length mass)) mass)
      with (map (fun x : nat * cm => (fst x, snd (snd x))) L3).
    2:{ unfold L3. rewrite map_combine_r. rewrite HlenCM. f_equal.
        unfold CM. clear -Hlen. revert mass Hlen. induction coords as [|c coords IH]; intros [|m mass] H; cbn in *; try discriminate; [reflexivity|].
        f_equal. apply IH. lia. }
    rewrite <- (sort_by_map k3 (fun x : imass => snd x) (fun x : nat * cm => (fst x, snd (snd x)))) by reflexivity.
    rewrite map_map. reflexivity. }
  (* sort_m CM = map snd S3 *)
  assert (Hsm : sort_m CM = map snd S3).
  { rewrite sort_m_by. unfold S3.
    rewrite (sort_by_map k3 (fun x : cm => snd x) snd) by reflexivity.
    unfold L3. rewrite map_snd_combine_seq. reflexivity. }
  (* every element of S3 is (i, (coords[i], mass[i])) *)
  assert (Hel : forall x, In x S3 -> nth (fst x) coords [] = fst (snd x) /\ nth (fst x) mass None = snd (snd x)).
  { intros [i [c m]] Hin. apply sort_by_in in Hin. unfold L3 in Hin.
    apply (enum_nth ([], None)) in Hin. destruct Hin as [_ Hn]. rewrite Nat.sub_0_r in Hn.
    unfold CM in Hn. rewrite combine_nth in Hn by exact Hlen. inversion Hn. cbn. auto. }
  assert (Hmask : mask = map fst (filter (fun x => mass_ok mm (k3 x)) S3)).
  { unfold mask, vec_ge_minmass, take_mass. rewrite Hord, !map_map.
    rewrite (map_ext_in (fun x => mass_ok mm (nth (fst x) mass None)) (fun x => mass_ok mm (k3 x))).
    2:{ intros x Hx. destruct (Hel x Hx) as [_ H2]. rewrite H2. reflexivity. }
    apply mask_select_map2. }
  unfold take_mass. rewrite combine_map_nth, Hmask, map_map, Hsm, filter_map_comm.
  apply map_ext_in. intros x Hx. apply filter_In in Hx. destruct Hx as [Hx _].
  destruct (Hel x Hx) as [H1 H2]. rewrite H1, H2. destruct x as [i [c m]]; reflexivity.
Qed.

(* ============================================================ get_relocate_candidates *)
(* what a returned pair (coords, extra_data) means as a candidate list *)
Definition cands_of (r : option (list pt) * option extra_t) : list cm :=
  match r with
  | (Some cs, Some ms) => combine cs ms
  | _ => []
  end.

(* the model from the masked slice [f] on *)
Definition core (P : fparams) (sh : list Z) (bx : list (Z * Z)) (pos : list pt) (f : pt -> Z) (t : Q) : list cm :=
  let px := box_pixels bx in
  let sizes := map (fun _ => dil P) sh in
  let maxima := filter (is_peak f sizes t) px in
  let margin := map (fun _ => rad P) sh in
  let inner := filter (fun a => negb (near_edge sh margin a)) maxima in
  let ranged := filter (fun a => existsb (fun p => d2w (mw (fmet P)) p a <=? mR2 (fmet P)) pos) inner in
  let kept := drop_close (map inject_Z) ranged (map (fun _ => sepQ P) sh) (Some (map f ranged)) in
  let chars := sort_m (map (fun a => (a, char_mass f bx (rad P) a)) kept) in
  filter (fun x => mass_ok (minmass P) (snd x)) chars.

Lemma is_peak_ext f g sizes t a : (forall x, f x = g x) -> is_peak f sizes t a = is_peak g sizes t a.
Proof.
  intros H. unfold is_peak, dil_at. rewrite H. rewrite (map_ext f g) by exact H. reflexivity.
Qed.

Lemma char_mass_ext f g bx r a : (forall x, f x = g x) -> char_mass f bx r a = char_mass g bx r a.
Proof. intros H. unfold char_mass. rewrite (map_ext f g) by exact H. reflexivity. Qed.

Lemma core_ext P sh bx pos f g t : (forall x, f x = g x) -> core P sh bx pos f t = core P sh bx pos g t.
Proof.
  intros H. unfold core.
  rewrite (filter_ext (is_peak f (map (fun _ => dil P) sh) t) (is_peak g (map (fun _ => dil P) sh) t))
    by (intros a; apply is_peak_ext, H).
  rewrite (map_ext f g) by exact H.
  rewrite (map_ext (fun a => (a, char_mass f bx (rad P) a)) (fun a => (a, char_mass g bx (rad P) a)))
    by (intros a; rewrite (char_mass_ext f g) by exact H; reflexivity).
  reflexivity.
Qed.

Lemma all_lt_no_peak f sizes t px :
  forallb (fun a => lt_thr t (f a)) px = true -> filter (is_peak f sizes t) px = [].
Proof.
  induction px as [|a px IH]; cbn; [reflexivity|]. intros H. apply andb_true_iff in H. destruct H as [H1 H2].
  rewrite (IH H2). unfold is_peak, gt_thr. unfold lt_thr in H1. apply Z.ltb_lt in H1.
  destruct (Qnum t <? f a * Z.pos (Qden t)) eqn:E; [apply Z.ltb_lt in E; lia|reflexivity].
Qed.

(* the generated code from "threshold is not None" on, on the masked slice (bx, f) *)
Lemma gen_tail self0 self pos bx origin f t :
  fl_P self = fl_P self0 -> fl_image self = fl_image self0 -> fl_known self = fl_known self0 ->
  fixed (fl_P self0) = true ->
  let im_masked := mk_sl bx f in
  cands_of (fst (
  if (sl_all_lt im_masked t) then
    ((None, None), self)
  else
  let dilation := (sl_grey_dilation im_masked (fl_dilation_size self)) in
  let maxima := (slb_and (sl_eq im_masked dilation) (sl_gt im_masked t)) in
  if (slb_sum maxima =? 0) then
    ((None, None), self)
  else
  let coords := (sl_argwhere maxima) in
  let shape := (np_shape (fl_image self)) in
  let abs_coords := (rel_add_origin coords origin) in
  let near_edge := (np_any_rows (mat_or (rows_lt abs_coords (ztup_vec (fl_radius self))) (rows_gt abs_coords (vec_sub_scalar (vec_sub shape (ztup_vec (fl_radius self))) 1)))) in
  let coords := (rel_select (vec_not near_edge) coords) in
  if (rel_len coords =? 0) then
    ((None, None), self)
  else
  let coords_rescaled := (hash_to_eucl (fl_hash self) (rel_add_origin coords origin)) in
  let pos_rescaled := (hash_to_eucl (fl_hash self) pos) in
  let coords_ok := rel_empty in
  let coords_ok :=
    fold_left (fun coords_ok it =>
      let coord := fst it in
      let coord_rescaled := snd it in
      let dists := (eucl_dists coord_rescaled pos_rescaled) in
      let coords_ok :=
        if (np_any (vec_le_range dists (fl_search_range self))) then
          let coords_ok := (rel_append coords_ok coord) in
          coords_ok
        else
          coords_ok in
      coords_ok) (rel_zip coords coords_rescaled) coords_ok in
  if (rel_len coords_ok =? 0) then
    ((None, None), self)
  else
  let coords := (np_array_rel coords_ok) in
  let coords := (find_drop_close coords (fl_separation self) (map (fun c => (sl_index im_masked c)) (rel_rows coords))) in
  if false then
    ((None, None), self)
  else
  let scale_factor := (image_scale_factor (fl_image self)) in
  let extra_data := (characterize_mass coords im_masked (fl_radius self) scale_factor) in
  let mass := (extra_mass extra_data) in
  let order := (np_argsort_rev mass) in
  let mask := (mask_select (vec_ge_minmass (take_mass mass order) (fl_minmass self)) order) in
  let extra_data := (extra_take extra_data mask) in
  ((Some (rel_add_origin (rel_take coords mask) origin), Some extra_data), self)))
  = core (fl_P self0) (shape (fl_image self0)) bx pos f t.
Proof.
  intros HP Him Hkn Hfix im_masked.
  unfold core.
  set (P := fl_P self0) in *. set (sh := shape (fl_image self0)).
  set (px := box_pixels bx). set (sizes := map (fun _ => dil P) sh).
  set (M := filter (is_peak f sizes t) px).
  destruct (sl_all_lt im_masked t) eqn:Eall.
  { unfold sl_all_lt in Eall. cbn [sl_at sl_box im_masked] in Eall.
    unfold M, px. rewrite (all_lt_no_peak _ sizes _ _ Eall). reflexivity. }
  cbv zeta.
  assert (HM : rel_abs (sl_argwhere (slb_and (sl_eq im_masked (sl_grey_dilation im_masked (fl_dilation_size self))) (sl_gt im_masked t))) = M).
  { unfold sl_argwhere, slb_and, sl_eq, sl_gt, sl_grey_dilation, fl_dilation_size, ztup_vec, M. cbn.
    rewrite HP, Him. apply filter_ext. intros a. unfold is_peak. fold P sh sizes.
    destruct (gt_thr t (f a)); [apply andb_true_r|apply andb_false_r]. }
  unfold slb_sum. rewrite HM.
  destruct (Z.of_nat (length M) =? 0) eqn:EM.
  { apply len0_nil in EM. rewrite EM. reflexivity. }
  set (margin := map (fun _ => rad P) sh).
  set (I := filter (fun a => negb (near_edge sh margin a)) M).
  unfold rel_add_origin. rewrite !HM.
  assert (HI : rel_select (vec_not (np_any_rows (mat_or (rows_lt M (ztup_vec (fl_radius self)))
             (rows_gt M (vec_sub_scalar (vec_sub (np_shape (fl_image self)) (ztup_vec (fl_radius self))) 1)))))
             (sl_argwhere (slb_and (sl_eq im_masked (sl_grey_dilation im_masked (fl_dilation_size self))) (sl_gt im_masked t)))
             = Rel I).
  { unfold rel_select. rewrite HM. rewrite gen_near_edge. unfold vec_not. rewrite map_map.
    unfold np_shape, fl_radius, ztup_vec. cbn [zt_v zt_sh]. rewrite HP, Him. fold P sh margin.
    rewrite mask_select_map_filter. reflexivity. }
  rewrite HI. unfold rel_len. cbn [rel_abs].
  match goal with |- context [if ?c then _ else _] => destruct c eqn:EI end.
  { apply len0_nil in EI. rewrite EI. reflexivity. }
  set (Rg := filter (fun a => existsb (fun p => d2w (mw (fmet P)) p a <=? mR2 (fmet P)) pos) I).
  cbn [rel_abs].
  match goal with |- context [fold_left ?F ?L rel_empty] => assert (HR : fold_left F L rel_empty = Rel Rg) end.
  { unfold rel_zip, hash_to_eucl, fl_hash. cbn [rel_abs h_met].
    rewrite (fold_rel_filter (fun a => existsb (fun p => d2w (mw (fmet P)) p a <=? mR2 (fmet P)) pos)
               (fun c => np_any (vec_le_range (eucl_dists c (map (fun r => (mw (fmet (fl_P self)), r)) pos)) (fl_search_range self)))).
    - reflexivity.
    - intros a. unfold vec_le_range, eucl_dists, fl_search_range. rewrite !map_map. rewrite HP. fold P. cbn [fst snd].
      apply existsb_id_map. }
  rewrite HR. cbn [rel_abs].
  match goal with |- context [if ?c then _ else _] => destruct c eqn:ER end.
  { apply len0_nil in ER. rewrite ER. reflexivity. }
  unfold np_array_rel, rel_rows, find_drop_close, sl_index, fl_separation, qtup_vec. cbn [rel_abs qt_k qt_vk qt_sh sl_at im_masked].
  rewrite HP, Him. fold P sh. change (Qmake (sepk P) (Z.to_pos (fk P))) with (sepQ P).
  set (K := drop_close (map inject_Z) Rg (map (fun _ => sepQ P) sh) (Some (map f Rg))).
  unfold characterize_mass, extra_mass, extra_take, rel_take, fl_radius, fl_minmass. cbn [rel_abs zt_v sl_at sl_box fst cands_of].
  rewrite HP. fold P.
  rewrite argsort_select by (rewrite map_length; reflexivity).
  f_equal. f_equal. cbn [sl_at sl_box im_masked]. apply combine_map_self.
Qed.

Lemma core_model P im bx pos f t :
  fixed P = true ->
  core P (shape im) bx pos f t =
  (let sh := shape im in
   let px := box_pixels bx in
   let sizes := map (fun _ => dil P) sh in
   let maxima := filter (is_peak f sizes t) px in
   let margin := map (fun _ => rad P) sh in
   let origin := map fst bx in
   let inner := filter (fun a => negb (near_edge sh margin (if fixed P then a else vsub a origin))) maxima in
   let ranged := filter (fun a => existsb (fun p => d2w (mw (fmet P)) p a <=? mR2 (fmet P)) pos) inner in
   let kept := drop_close (map inject_Z) ranged (map (fun _ => sepQ P) sh) (Some (map f ranged)) in
   let chars := sort_m (map (fun a => (a, char_mass f bx (rad P) a)) kept) in
   if fixed P then filter (fun x => mass_ok (minmass P) (snd x)) chars
   else firstn (length (filter (fun x => mass_ok (minmass P) (snd x)) chars)) chars).
Proof. intros H. unfold core. rewrite H. reflexivity. Qed.

Ltac both_if E :=
  match goal with |- context [if ?c then _ else _] => destruct c eqn:E end;
  match goal with |- _ = (if ?c then _ else _) =>
    let H := fresh in assert (H : c = _) by exact E; rewrite H; clear H end.

(* generated get_relocate_candidates = the model's relocate_cands, at the (cached) threshold of the frame *)
Theorem py_get_relocate_candidates_eq npp self pos :
  fixed (fl_P self) = true ->
  cands_of (fst (py_get_relocate_candidates npp self pos)) =
  relocate_cands (fl_P self) (fl_image self) (thr_of npp self) pos (fl_known self).
Proof.
  intros Hfix. unfold py_get_relocate_candidates, relocate_cands, np_atleast_2d, slice_image, fl_slice_radius.
  set (P := fl_P self) in *. set (im := fl_image self).
  destruct (slice_box (shape im) (slr P) pos) as [bx|] eqn:Ebx.
  2:{ unfold sl_sum. cbn [sl_at sl_box]. rewrite sumZ_zero. reflexivity. }
  cbv zeta. unfold sl_sum at 1. cbn [sl_at sl_box].
  both_if E1; [reflexivity|].
  unfold sl_sum at 1. unfold mask_image at 1. cbn [sl_at sl_box].
  change (mslice P im bx pos []) with
    (fun a : pt => if in_rng bx a then if near_any 1 (slr P) pos a then pix im a else 0 else 0).
  both_if E2; [reflexivity|].
  rewrite py_percentile_threshold_eq.
  destruct (thr_of npp self) as [t|].
  2:{ destruct (hash_query_points (fl_hash self) pos (fl_bg_radius self)); reflexivity. }
  destruct (after_thr_fields npp self) as [H1 [H2 [_ [H4 _]]]].
  transitivity (core P (shape im) bx pos (mslice P im bx pos (background P pos (fl_known self))) t).
  2:{ unfold core. rewrite Hfix. reflexivity. }
  unfold hash_query_points, background, fl_hash, fl_bg_radius. cbn [h_k h_points]. fold P.
  destruct (filter (fun b : pt => near_any (fk P) (bgk P) pos b) (fl_known self)) as [|b0 bg] eqn:Ebg.
  - unfold mask_image. cbn [sl_box sl_at].
    rewrite (gen_tail self (after_thr npp self) pos bx (map fst bx) _ t H1 H2 H4 Hfix).
    fold P im. apply core_ext. intros a. unfold mslice.
    destruct (in_rng bx a), (near_any 1 (slr P) pos a); reflexivity.
  - unfold mask_image_invert, mask_image, fl_separation. cbn [sl_box sl_at qt_k qt_vk].
    rewrite (gen_tail self (after_thr npp self) pos bx (map fst bx) _ t H1 H2 H4 Hfix).
    fold P im. apply core_ext. intros a. unfold mslice.
    destruct (in_rng bx a), (near_any 1 (slr P) pos a), (close_any (fk P) (sepk P) (b0 :: bg) a); reflexivity.
Qed.

(* shape of the result: the object changes at most in its threshold cache; both components are
   None or both are given, with one mass per coordinate row *)
Ltac early := match goal with |- context [if ?c then (None, None, ?s) else _] => destruct c end.

Lemma py_get_relocate_candidates_shape npp self pos :
  (snd (py_get_relocate_candidates npp self pos) = self \/
   snd (py_get_relocate_candidates npp self pos) = after_thr npp self) /\
  (fst (py_get_relocate_candidates npp self pos) = (None, None) \/
   exists cs ms, fst (py_get_relocate_candidates npp self pos) = (Some cs, Some ms) /\ length cs = length ms).
Proof.
  unfold py_get_relocate_candidates.
  destruct (slice_image (np_atleast_2d pos) (fl_image self) (fl_slice_radius self)) as [im_unmasked origin].
  early; [cbn; auto|]. early; [cbn; auto|].
  rewrite py_percentile_threshold_eq.
  destruct (thr_of npp self); [|cbn; auto].
  early; [cbn; auto|]. cbv zeta. early; [cbn; auto|]. early; [cbn; auto|]. early; [cbn; auto|].
  cbn [fst snd]. split; [auto|]. right. eexists. eexists. split; [reflexivity|].
  unfold rel_add_origin, rel_take, extra_take, take_mass. cbn [rel_abs]. rewrite !map_length. reflexivity.
Qed.

Theorem py_get_relocate_candidates_state npp self pos :
  snd (py_get_relocate_candidates npp self pos) = self \/
  snd (py_get_relocate_candidates npp self pos) = after_thr npp self.
Proof. exact (proj1 (py_get_relocate_candidates_shape npp self pos)). Qed.

(* ============================================================ relocate *)
Lemma firstn_min {A} n (l : list A) : firstn (Nat.min n (length l)) l = firstn n l.
Proof.
  destruct (Nat.le_ge_cases n (length l)) as [H|H].
  - rewrite Nat.min_l by exact H. reflexivity.
  - rewrite Nat.min_r by exact H. rewrite firstn_all, firstn_all2 by exact H. reflexivity.
Qed.

Lemma firstn_combine_fst {A B} n : forall (a : list A) (b : list B),
  length a = length b -> map fst (firstn n (combine a b)) = firstn n a.
Proof.
  induction n as [|n IH]; intros [|x a] [|y b] H; cbn in *; try discriminate; try reflexivity.
  rewrite IH by lia. reflexivity.
Qed.

(* generated relocate(pos, n) = Model.FindLink.relocate: the n best candidates *)
Theorem py_relocate_eq npp self pos n :
  fixed (fl_P self) = true ->
  fst (py_relocate npp self pos n) =
  relocate (fl_P self) (fl_image self) (thr_of npp self) pos (fl_known self) n.
Proof.
  intros Hfix. unfold py_relocate, relocate.
  rewrite <- (py_get_relocate_candidates_eq npp self pos Hfix).
  destruct (proj2 (py_get_relocate_candidates_shape npp self pos)) as [H|[cs [ms [H Hl]]]].
  - destruct (py_get_relocate_candidates npp self pos) as [[c e] s]. cbn [fst] in H. inversion H. subst.
    cbn. destruct n; reflexivity.
  - destruct (py_get_relocate_candidates npp self pos) as [[c e] s]. cbn [fst] in H. inversion H. subst.
    cbn [fst cands_of]. unfold py_set, points_from_arr. rewrite firstn_min.
    symmetry. apply firstn_combine_fst. exact Hl.
Qed.

Theorem py_relocate_state npp self pos n :
  snd (py_relocate npp self pos n) = snd (py_get_relocate_candidates npp self pos).
Proof.
  unfold py_relocate. destruct (py_get_relocate_candidates npp self pos) as [[[c|] e] s]; reflexivity.
Qed.

(* ... hence = the relocation oracle the C14 theorems speak about *)
Definition mk_self (P : fparams) (im : image) (t : Z) (known : list pt) (cache : option Z * option Q) (perc : Q) : flinker :=
  mk_flinker P im t known cache perc.

Theorem py_relocate_image_reloc npp self pos n :
  fixed (fl_P self) = true ->
  fst (py_relocate npp self pos n) =
  image_reloc (fl_P self) (fl_image self) (thr_of npp self) pos (fl_known self) n.
Proof. exact (py_relocate_eq npp self pos n). Qed.

(* ============================================================ the C14 theorems for the generated code *)
Section Restated.
  Variable npp : list Z -> Q -> Q.
  Variable self : flinker.
  Variable pos : list pt.
  Hypothesis Hfix : fixed (fl_P self) = true.
  Hypothesis Hthr : forall t0, thr_of npp self = Some t0 -> (0 <= t0)%Q.

  Let out := cands_of (fst (py_get_relocate_candidates npp self pos)).

  Lemma gen_cand_far_from_known :
    Forall (fun p => length p = length (shape (fl_image self))) pos ->
    Forall (fun b => length b = length (shape (fl_image self))) (fl_known self) ->
    bg_covers (fl_P self) ->
    forall x b, In x out -> In b (fl_known self) -> far (fk (fl_P self)) (sepk (fl_P self)) (fst x) b.
  Proof.
    unfold out. rewrite (py_get_relocate_candidates_eq npp self pos Hfix).
    intros Hp Hk Hc. exact (cand_far_from_known _ _ _ _ _ Hthr Hp Hk Hc).
  Qed.

  Lemma gen_cand_in_range :
    forall x, In x out -> exists p, In p pos /\ in_range (fmet (fl_P self)) p (fst x).
  Proof.
    unfold out. rewrite (py_get_relocate_candidates_eq npp self pos Hfix).
    exact (cand_in_range _ _ _ _ _ Hthr).
  Qed.

  Lemma gen_cand_pairwise :
    0 < fk (fl_P self) -> 0 < sepk (fl_P self) ->
    NoDup (map fst out) /\
    forall x y, In x out -> In y out -> fst x <> fst y -> far (fk (fl_P self)) (sepk (fl_P self)) (fst x) (fst y).
  Proof.
    unfold out. rewrite (py_get_relocate_candidates_eq npp self pos Hfix).
    intros Hk Hs. split; [apply cands_nodup|exact (cands_pairwise_far _ _ _ _ _ Hthr Hk Hs)].
  Qed.

  Lemma gen_cand_margin_mass :
    forall x, In x out ->
      off_margin (shape (fl_image self)) (rad (fl_P self)) (fst x) /\
      exists v, snd x = Some v /\ (minmass (fl_P self) <= inject_Z v)%Q.
  Proof.
    unfold out. rewrite (py_get_relocate_candidates_eq npp self pos Hfix).
    exact (cand_margin_mass _ _ _ _ _ Hthr Hfix).
  Qed.
End Restated.

(* the generated relocate, as the relocation oracle of one frame: the object with the frame's
   image, frame number, threshold cache; [known] = the points self.hash holds at the call *)
Definition gen_reloc (npp : list Z -> Q -> Q) (P : fparams) (im : image) (curr_t : Z)
           (cache : option Z * option Q) (perc : Q) : reloc_fn :=
  fun pos known n => fst (py_relocate npp (mk_flinker P im curr_t known cache perc) pos n).

(* the threshold does not depend on the known points *)
Definition frame_thr (npp : list Z -> Q -> Q) (im : image) (curr_t : Z) (cache : option Z * option Q) (perc : Q) : option Q :=
  thr_of npp (mk_flinker (mk_params 0 1 0 0 0 0 false true) im curr_t [] cache perc).

Lemma gen_reloc_image_reloc npp P im curr_t cache perc :
  fixed P = true ->
  forall pos known n,
    gen_reloc npp P im curr_t cache perc pos known n = image_reloc P im (frame_thr npp im curr_t cache perc) pos known n.
Proof.
  intros Hfix pos known n. unfold gen_reloc.
  rewrite py_relocate_image_reloc by exact Hfix. reflexivity.
Qed.

Lemma gen_reloc_ok npp P im curr_t cache perc :
  bg_covers P -> fixed P = true ->
  (forall t0, frame_thr npp im curr_t cache perc = Some t0 -> (0 <= t0)%Q) ->
  rel_ok (gen_reloc npp P im curr_t cache perc) (length (shape im)) (fk P) (sepk P) (off_margin (shape im) (rad P)).
Proof.
  intros Hc Hfix Ht pos known cnt Hp Hk.
  rewrite (gen_reloc_image_reloc npp P im curr_t cache perc Hfix).
  exact (image_reloc_ok P im _ Hc Hfix Ht pos known cnt Hp Hk).
Qed.

(* a movie handed to the model of find_link with, as the relocation oracle of every frame, the
   GENERATED relocate on that frame's image: per frame the detections and (image, frame number,
   threshold cache before the frame, percentile) *)
Definition gframe := (list pt * (image * Z * (option Z * option Q) * Q))%type.
Definition g_im (fr : gframe) : image := fst (fst (fst (snd fr))).
Definition g_t (fr : gframe) : Z := snd (fst (fst (snd fr))).
Definition g_cache (fr : gframe) : option Z * option Q := snd (fst (snd fr)).
Definition g_perc (fr : gframe) : Q := snd (snd fr).
Definition g_input (npp : list Z -> Q -> Q) (P : fparams) (fr : gframe) : list pt * reloc_fn :=
  (fst fr, gen_reloc npp P (g_im fr) (g_t fr) (g_cache fr) (g_perc fr)).
Definition gframe_ok (npp : list Z -> Q -> Q) (P : fparams) (sh : list Z) (fr : gframe) : Prop :=
  shape (g_im fr) = sh /\
  (forall t0, frame_thr npp (g_im fr) (g_t fr) (g_cache fr) (g_perc fr) = Some t0 -> (0 <= t0)%Q) /\
  separated (fk P) (sepk P) (fst fr) /\ Forall (fun p => length p = length sh) (fst fr).

Theorem gen_movie_safe npp P mem max_size sh f0 (frames : list gframe) out :
  metric_ok (fmet P) -> 0 < sepk P -> bg_covers P -> fixed P = true ->
  Forall (fun p => length p = length sh) f0 ->
  Forall (gframe_ok npp P sh) frames ->
  find_link_model (fmet P) mem max_size no_pred f0 (map (g_input npp P) frames) = Ok out ->
  exists labs0 out', out = (labs0, f0) :: out' /\ length labs0 = length f0 /\ NoDup labs0 /\
                     run_ok (fmet P) (fk P) (sepk P) (off_margin sh (rad P)) [f0] (map (g_input npp P) frames) out'.
Proof.
  intros Hm HS Hc Hfix Hf0 Hfr Hrun.
  apply (find_link_safe (fmet P) mem max_size (length sh) (fk P) (sepk P) (off_margin sh (rad P)) Hm HS f0 _ out Hf0); [|exact Hrun].
  rewrite Forall_map. eapply Forall_impl; [|exact Hfr].
  intros fr [Hsh [Ht [Hsep Hlen]]]. unfold input_ok, g_input. cbn [fst snd].
  split; [|split; assumption].
  rewrite <- Hsh. apply gen_reloc_ok; assumption.
Qed.
