(* C09, arbitrary axis orders (np.transpose(image, axes)) for the discrete pipeline.

   Generalises Proofs/Equivariance.maxima_transposed and Proofs/Equivariance2 (full
   reversal, numpy .T) to ANY permutation of the axes of an image with any number of
   axes:  im2 = np.transpose(im1, axes), i.e.  im2.shape[k] = im1.shape[axes[k]]  and
   im2[q] = im1[p]  whenever  q[k] = p[axes[k]].  Per-axis parameters and coordinates
   are taken in the same order ([permute]).  *)
From Coq Require Import ZArith NArith QArith Qabs List Bool Arith Lia Permutation.
From TP Require Import Model.Dilation Model.COM Model.Equivariance Proofs.COM Proofs.Dilation Proofs.Equivariance Proofs.Equivariance2.
Import ListNotations.
Open Scope Z_scope.

(* v taken in the axis order [axes]:  result[k] = v[axes[k]] *)
Definition permute {A : Type} (def : A) (axes : list nat) (v : list A) : list A :=
  map (fun a => nth a v def) axes.
Notation zperm := (permute 0%Z).
Notation qperm := (permute 0%Q).

(* inv is the inverse of the axis order axes on 0..n-1 (np.argsort(axes)) *)
Definition axes_inverse (n : nat) (axes inv : list nat) : Prop :=
  length axes = n /\
  forall k, (k < n)%nat -> (nth k axes 0 < n)%nat /\ nth (nth k axes 0%nat) inv 0%nat = k.
Definition axes_pair (n : nat) (axes inv : list nat) : Prop :=
  axes_inverse n axes inv /\ axes_inverse n inv axes.

(* np.transpose(im1, axes) *)
Definition axes_permuted (axes : list nat) (im1 im2 : image) : Prop :=
  shape im2 = zperm axes (shape im1) /\
  forall p, length p = length (shape im1) -> pix im2 (zperm axes p) = pix im1 p.

Definition lp_perm (axes : list nat) (P : lparams) : lparams :=
  mkLP (qperm axes (lp_sep P)) (zperm axes (lp_margin P)) (zperm axes (lp_radius P))
       (lp_thresh P) (lp_maxit P) (lp_char P).

(* "row b is row a seen in the image with permuted axes": position columns permuted, mass,
   signal, raw_mass identical; sizes: a single (isotropic) size identical, per-axis sizes permuted *)
Definition char_permuted (axes : list nat) (a b : option (list Q * Z * Z)) : Prop :=
  match a, b with
  | None, None => True
  | Some (sizes, signal, raw_mass), Some (sizes', signal', raw_mass') =>
      (sizes' = if (length sizes =? 1)%nat then sizes else qperm axes sizes) /\
      signal' = signal /\ raw_mass' = raw_mass
  | _, _ => False
  end.
Definition row_permuted (axes : list nat) (a b : output) : Prop :=
  o_pos b = qperm axes (o_pos a) /\ o_mass b = o_mass a /\ char_permuted axes (o_char a) (o_char b).

(* ============================================================== permute, basics *)
Lemma axes_pair_sym : forall n axes inv, axes_pair n axes inv -> axes_pair n inv axes.
Proof. intros n axes inv [H1 H2]. split; assumption. Qed.

Section PermuteBasics.
  Variables (n : nat) (axes inv : list nat).
  Hypothesis Hax : axes_pair n axes inv.

  Lemma axes_len : length axes = n.
  Proof. apply Hax. Qed.

  Lemma axes_lt : forall k, (k < n)%nat -> (nth k axes 0 < n)%nat.
  Proof. intros k Hk. apply Hax, Hk. Qed.

  Lemma axes_in_lt : forall a, In a axes -> (a < n)%nat.
  Proof.
    intros a Ha. destruct (In_nth _ _ 0%nat Ha) as [k [Hk <-]]. apply axes_lt. rewrite <- axes_len. exact Hk.
  Qed.

  Lemma inv_axes : forall k, (k < n)%nat -> nth (nth k axes 0%nat) inv 0%nat = k.
  Proof. intros k Hk. apply Hax, Hk. Qed.

  Lemma axes_inv : forall j, (j < n)%nat -> (nth j inv 0 < n)%nat /\ nth (nth j inv 0%nat) axes 0%nat = j.
  Proof. intros j Hj. apply Hax, Hj. Qed.

  Lemma axes_perm_seq : Permutation axes (seq 0 n).
  Proof.
    apply NoDup_Permutation_bis.
    - apply (NoDup_nth axes 0%nat). intros i j Hi Hj E. rewrite axes_len in Hi, Hj.
      rewrite <- (inv_axes i Hi), <- (inv_axes j Hj), E. reflexivity.
    - rewrite seq_length, axes_len. lia.
    - intros a Ha. apply in_seq. pose proof (axes_in_lt a Ha). lia.
  Qed.

  Section Poly.
    Variables (A : Type) (def : A).

    Lemma permute_length : forall v : list A, length (permute def axes v) = n.
    Proof. intros. unfold permute. rewrite map_length. apply axes_len. Qed.

    Lemma nth_permute : forall (v : list A) k, (k < n)%nat ->
      nth k (permute def axes v) def = nth (nth k axes 0%nat) v def.
    Proof.
      intros v k Hk. unfold permute.
      rewrite (nth_indep _ def ((fun a => nth a v def) 0%nat)) by (rewrite map_length, axes_len; exact Hk).
      apply (map_nth (fun a => nth a v def)).
    Qed.

    (* a list built per axis from the ingredients of axis axes[k] is the permuted list *)
    Lemma map_seq_permute : forall (f g : nat -> A),
      (forall k, (k < n)%nat -> g k = f (nth k axes 0%nat)) ->
      map g (seq 0 n) = permute def axes (map f (seq 0 n)).
    Proof.
      intros f g H. apply (nth_ext _ _ def def).
      - rewrite permute_length, map_length, seq_length. reflexivity.
      - intros k Hk. rewrite map_length, seq_length in Hk.
        rewrite nth_permute by exact Hk. rewrite !nth_map_seq by (try apply axes_lt; exact Hk).
        cbn [Nat.add]. apply H, Hk.
    Qed.

    Lemma permute_as_perm : forall v : list A, length v = n -> Permutation (permute def axes v) v.
    Proof.
      intros v L. unfold permute.
      eapply Permutation_trans; [apply Permutation_map, axes_perm_seq|].
      replace (map (fun a => nth a v def) (seq 0 n)) with v; [apply Permutation_refl|].
      apply (nth_ext _ _ def def).
      - rewrite map_length, seq_length. exact L.
      - intros k Hk. rewrite nth_map_seq by lia. reflexivity.
    Qed.
  End Poly.

  Lemma permute_map : forall (A B : Type) (da : A) (db : B) (h : A -> B) (v : list A), length v = n ->
    map h (permute da axes v) = permute db axes (map h v).
  Proof.
    intros A B da db h v L. unfold permute. rewrite map_map. apply map_ext_in. intros a Ha.
    apply axes_in_lt in Ha.
    rewrite (nth_indep (map h v) db (h da)) by (rewrite map_length; lia).
    symmetry. apply map_nth.
  Qed.
End PermuteBasics.

Lemma permute_cancel : forall n axes inv (A : Type) (def : A) (v : list A),
  axes_pair n axes inv -> length v = n -> permute def axes (permute def inv v) = v.
Proof.
  intros n axes inv A def v Hax L. apply (nth_ext _ _ def def).
  - rewrite (permute_length n axes inv Hax). symmetry; exact L.
  - intros k Hk. rewrite (permute_length n axes inv Hax) in Hk.
    rewrite (nth_permute n axes inv Hax) by exact Hk.
    pose proof (axes_lt n axes inv Hax k Hk) as Hlt.
    rewrite (nth_permute n inv axes (axes_pair_sym _ _ _ Hax)) by exact Hlt.
    rewrite (inv_axes n axes inv Hax) by exact Hk. reflexivity.
Qed.

Lemma ix_permute : forall n axes inv v k, axes_pair n axes inv -> (k < n)%nat ->
  ix (zperm axes v) k = ix v (nth k axes 0%nat).
Proof. intros. unfold ix. eapply nth_permute; eassumption. Qed.

Lemma qx_permute : forall n axes inv v k, axes_pair n axes inv -> (k < n)%nat ->
  qx (qperm axes v) k = qx v (nth k axes 0%nat).
Proof. intros. unfold qx. eapply nth_permute; eassumption. Qed.

Lemma permute_inj : forall n axes inv (A : Type) (def : A) (v w : list A),
  axes_pair n axes inv -> length v = n -> length w = n ->
  permute def axes v = permute def axes w -> v = w.
Proof.
  intros n axes inv A def v w Hax Lv Lw E.
  rewrite <- (permute_cancel n inv axes A def v (axes_pair_sym _ _ _ Hax) Lv).
  rewrite <- (permute_cancel n inv axes A def w (axes_pair_sym _ _ _ Hax) Lw).
  rewrite E. reflexivity.
Qed.

(* -------------------------------------------- order-insensitive folds *)
Lemma forallb_perm : forall (A : Type) (f : A -> bool) l l', Permutation l l' -> forallb f l = forallb f l'.
Proof.
  intros A f l l' H. induction H; cbn [forallb].
  - reflexivity.
  - rewrite IHPermutation. reflexivity.
  - rewrite !andb_assoc, (andb_comm (f y)). reflexivity.
  - congruence.
Qed.

Lemma qsum_perm : forall l l', Permutation l l' -> (fold_right Qplus 0 l == fold_right Qplus 0 l')%Q.
Proof.
  intros l l' H. induction H; cbn [fold_right].
  - reflexivity.
  - rewrite IHPermutation. reflexivity.
  - ring.
  - rewrite IHPermutation1. exact IHPermutation2.
Qed.

(* ------------------------------------------- index-wise Forall2 / Forall3 *)
Lemma Forall3_ix : forall (R : Z -> Z -> Z -> Prop) a b c,
  Forall3 R a b c <->
  (length b = length a /\ length c = length a /\ forall k, (k < length a)%nat -> R (ix a k) (ix b k) (ix c k)).
Proof.
  intros R a b c. split.
  - intros H. induction H; cbn [length]; [repeat split; intros k Hk; inversion Hk|].
    destruct IHForall3 as [L1 [L2 Hk]]. repeat split; try lia.
    intros [|k] Hlt; [exact H|]. apply Hk. lia.
  - revert b c. induction a as [|x a IH]; intros [|y b] [|z c] [L1 [L2 H]]; cbn in L1, L2; try discriminate.
    + constructor.
    + constructor; [apply (H 0%nat); cbn; lia|].
      apply IH. repeat split; try lia. intros k Hk. apply (H (S k)). cbn; lia.
Qed.

Lemma in_bounds_ix : forall sh p,
  in_bounds sh p <-> (length p = length sh /\ forall k, (k < length sh)%nat -> 0 <= ix p k < ix sh k).
Proof.
  intros sh p. unfold in_bounds. split.
  - intros H. induction H; cbn [length]; [split; [reflexivity|intros k Hk; inversion Hk]|].
    destruct IHForall2 as [L Hk]. split; [lia|]. intros [|k] Hlt; [exact H|]. apply Hk. lia.
  - revert p. induction sh as [|x sh IH]; intros [|y p] [L H]; cbn in L; try discriminate.
    + constructor.
    + constructor; [apply (H 0%nat); cbn; lia|].
      apply IH. split; [lia|]. intros k Hk. apply (H (S k)). cbn; lia.
Qed.

Section PermuteRelations.
  Variables (n : nat) (axes inv : list nat).
  Hypothesis Hax : axes_pair n axes inv.

  Lemma Forall3_permute1 : forall (R : Z -> Z -> Z -> Prop) a b c,
    length a = n -> Forall3 R a b c -> Forall3 R (zperm axes a) (zperm axes b) (zperm axes c).
  Proof.
    intros R a b c La H. apply Forall3_ix in H. destruct H as [Lb [Lc H]].
    apply Forall3_ix. rewrite !(permute_length n axes inv Hax). repeat split.
    intros k Hk. rewrite !(ix_permute n axes inv) by assumption. apply H.
    rewrite La. apply (axes_lt n axes inv Hax), Hk.
  Qed.
End PermuteRelations.

Lemma Forall3_permute : forall n axes inv (R : Z -> Z -> Z -> Prop) a b c,
  axes_pair n axes inv -> length a = n -> length b = n -> length c = n ->
  (Forall3 R (zperm axes a) (zperm axes b) (zperm axes c) <-> Forall3 R a b c).
Proof.
  intros n axes inv R a b c Hax La Lb Lc. split.
  - intros H. apply (Forall3_permute1 n inv axes (axes_pair_sym _ _ _ Hax)) in H.
    + rewrite !(permute_cancel n inv axes) in H by (try apply axes_pair_sym; assumption). exact H.
    + apply (permute_length n axes inv Hax).
  - apply (Forall3_permute1 n axes inv Hax). exact La.
Qed.

Lemma in_bounds_permute1 : forall n axes inv sh p, axes_pair n axes inv -> length sh = n ->
  in_bounds sh p -> in_bounds (zperm axes sh) (zperm axes p).
Proof.
  intros n axes inv sh p Hax Ls H. apply in_bounds_ix in H. destruct H as [Lp H].
  apply in_bounds_ix. rewrite !(permute_length n axes inv Hax). split; [reflexivity|].
  intros k Hk. rewrite !(ix_permute n axes inv) by assumption. apply H.
  rewrite Ls. apply (axes_lt n axes inv Hax), Hk.
Qed.

Lemma in_bounds_permute : forall n axes inv sh p, axes_pair n axes inv -> length sh = n -> length p = n ->
  (in_bounds (zperm axes sh) (zperm axes p) <-> in_bounds sh p).
Proof.
  intros n axes inv sh p Hax Ls Lp. split.
  - intros H. apply (in_bounds_permute1 n inv axes _ _ (axes_pair_sym _ _ _ Hax)) in H.
    + rewrite !(permute_cancel n inv axes) in H by (try apply axes_pair_sym; assumption). exact H.
    + apply (permute_length n axes inv Hax).
  - apply (in_bounds_permute1 n axes inv); assumption.
Qed.

(* ======================================= maxima stage under an axis permutation *)
Section PermutedMaxima.
  Variable percentile : list Z -> Q.
  Hypothesis percentile_perm : forall l l', Permutation l l' -> percentile l = percentile l'.
  Variables (axes inv : list nat) (im1 im2 : image) (P : lparams).
  Let n := length (shape im1).
  Hypothesis Hax : axes_pair n axes inv.
  Hypothesis Ht : axes_permuted axes im1 im2.
  Hypothesis Hsep : length (lp_sep P) = length (shape im1).
  Hypothesis Hmg : length (lp_margin P) = length (shape im1).
  Hypothesis Hsz : Forall (fun s => 1 <= s) (sizes_of im1 (lp_sep P)).

  Let Hinv : axes_pair n inv axes := axes_pair_sym _ _ _ Hax.

  Lemma shape2_perm : shape im2 = zperm axes (shape im1).
  Proof. apply Ht. Qed.

  Lemma shape2_length : length (shape im2) = n.
  Proof. rewrite shape2_perm. apply (permute_length n axes inv Hax). Qed.

  Lemma pix2_perm : forall p, length p = n -> pix im2 (zperm axes p) = pix im1 p.
  Proof. intros p Lp. apply Ht. exact Lp. Qed.

  Lemma pix2_inv : forall q, length q = n -> pix im2 q = pix im1 (zperm inv q).
  Proof.
    intros q Lq. rewrite <- (permute_cancel n axes inv Z 0 q Hax Lq) at 1.
    apply pix2_perm. apply (permute_length n inv axes Hinv).
  Qed.

  Lemma support_permuted :
    Permutation (filter (fun p => nzb (pix im2 p)) (coords (shape im2)))
                (map (zperm axes) (filter (fun p => nzb (pix im1 p)) (coords (shape im1)))).
  Proof.
    apply NoDup_Permutation.
    - apply NoDup_filter, nodup_coords.
    - apply NoDup_map_inj_in; [|apply NoDup_filter, nodup_coords].
      intros x y Hx Hy E. apply filter_In in Hx, Hy. destruct Hx as [Hx _], Hy as [Hy _].
      apply in_coords, in_bounds_length in Hx. apply in_coords, in_bounds_length in Hy.
      apply (permute_inj n axes inv Z 0 x y Hax Hx Hy E).
    - intros q. rewrite filter_In, in_map_iff, in_coords. split.
      + intros [Hb Hnz]. pose proof (in_bounds_length _ _ Hb) as Lq. rewrite shape2_length in Lq.
        exists (zperm inv q). split; [apply (permute_cancel n axes inv); assumption|].
        apply filter_In. rewrite in_coords, <- pix2_inv by exact Lq. split; [|exact Hnz].
        apply (in_bounds_permute n axes inv); [exact Hax|reflexivity|apply (permute_length n inv axes Hinv)|].
        rewrite (permute_cancel n axes inv) by assumption. rewrite <- shape2_perm. exact Hb.
      + intros [p [<- Hp]]. apply filter_In in Hp. rewrite in_coords in Hp. destruct Hp as [Hb Hnz].
        pose proof (in_bounds_length _ _ Hb) as Lp.
        rewrite pix2_perm by exact Lp. split; [|exact Hnz].
        rewrite shape2_perm. apply (in_bounds_permute1 n axes inv); [exact Hax|reflexivity|exact Hb].
  Qed.

  Lemma not_black_permuted : Permutation (not_black im2) (not_black im1).
  Proof.
    rewrite !not_black_as_map.
    eapply Permutation_trans; [apply Permutation_map, support_permuted|].
    rewrite map_map. erewrite map_ext_in; [apply Permutation_refl|].
    intros p Hp. apply filter_In in Hp. destruct Hp as [Hp _].
    apply in_coords, in_bounds_length in Hp. apply pix2_perm, Hp.
  Qed.

  Lemma sizes_of_permuted : sizes_of im2 (lp_sep (lp_perm axes P)) = zperm axes (sizes_of im1 (lp_sep P)).
  Proof.
    unfold sizes_of, lp_perm. cbn [lp_sep]. rewrite shape2_length. fold n.
    apply (permute_map n axes inv Hax). exact Hsep.
  Qed.

  Lemma maxima2_length : forall q, In q (find_maxima percentile (lp_perm axes P) im2) -> length q = n.
  Proof.
    intros q H. unfold find_maxima in H.
    pose proof (maxima_exact percentile false im2 (lp_sep (lp_perm axes P)) (Some (lp_margin (lp_perm axes P))) q) as H2.
    cbv zeta in H2. rewrite convert_to_int_integer in H2. cbn [eff_margin] in H2.
    rewrite H2 in H.
    - destruct H as [_ [Hb _]]. apply in_bounds_length in Hb. rewrite shape2_length in Hb. exact Hb.
    - unfold lp_perm; cbn [lp_sep]. rewrite shape2_length. apply (permute_length n axes inv Hax).
    - unfold lp_perm; cbn [lp_margin]. rewrite shape2_length. apply (permute_length n axes inv Hax).
    - rewrite sizes_of_permuted. apply Forall_forall. intros s Hs.
      rewrite Forall_forall in Hsz. apply Hsz.
      apply (Permutation_in s (permute_as_perm n axes inv Hax Z 0 (sizes_of im1 (lp_sep P))
               ltac:(unfold sizes_of; rewrite map_length; exact Hsep))). exact Hs.
  Qed.

  (* the maxima of the axis-permuted image (parameters permuted alike) are the permuted maxima *)
  Theorem maxima_permuted : forall p, length p = n ->
    (In (zperm axes p) (find_maxima percentile (lp_perm axes P) im2) <-> In p (find_maxima percentile P im1)).
  Proof.
    intros p Lp. unfold find_maxima.
    pose proof (maxima_exact percentile false im1 (lp_sep P) (Some (lp_margin P)) p) as H1.
    pose proof (maxima_exact percentile false im2 (lp_sep (lp_perm axes P)) (Some (lp_margin (lp_perm axes P))) (zperm axes p)) as H2.
    cbv zeta in H1, H2. rewrite convert_to_int_integer in H1, H2. cbn [eff_margin] in H1, H2.
    assert (Lsz : length (sizes_of im1 (lp_sep P)) = n) by (unfold sizes_of; rewrite map_length; exact Hsep).
    rewrite H1 by assumption.
    rewrite H2; [| unfold lp_perm; cbn [lp_sep]; rewrite shape2_length; apply (permute_length n axes inv Hax)
                 | unfold lp_perm; cbn [lp_margin]; rewrite shape2_length; apply (permute_length n axes inv Hax)
                 | rewrite sizes_of_permuted; apply Forall_forall; intros s Hs;
                   rewrite Forall_forall in Hsz; apply Hsz;
                   apply (Permutation_in s (permute_as_perm n axes inv Hax Z 0 _ Lsz)); exact Hs ].
    rewrite sizes_of_permuted.
    assert (Enb : not_black im2 <> [] <-> not_black im1 <> []).
    { pose proof not_black_permuted as Hperm.
      split; intros H E; apply H; rewrite E in Hperm.
      - apply Permutation_nil, Permutation_sym. exact Hperm.
      - apply Permutation_nil. exact Hperm. }
    rewrite Enb, (percentile_perm _ _ not_black_permuted).
    unfold admissible, lp_perm. cbn [lp_margin]. rewrite shape2_perm, pix2_perm by exact Lp.
    rewrite (in_bounds_permute n axes inv) by (try reflexivity; assumption).
    unfold outside_margin. rewrite (Forall3_permute n axes inv) by (try reflexivity; assumption).
    assert (Hbox : (forall q', in_box (zperm axes (sizes_of im1 (lp_sep P))) (zperm axes p) q' -> pix im2 q' <= pix im1 p) <->
                   (forall p', in_box (sizes_of im1 (lp_sep P)) p p' -> pix im1 p' <= pix im1 p)).
    { unfold in_box. split.
      - intros H p' Hp'. pose proof (Forall3_length _ _ _ _ _ _ _ Hp') as [_ L2].
        rewrite <- (pix2_perm p') by lia. apply H.
        apply (Forall3_permute n axes inv); try assumption; lia.
      - intros H q' Hq'. pose proof (Forall3_length _ _ _ _ _ _ _ Hq') as [_ L2].
        rewrite (permute_length n axes inv Hax) in L2.
        rewrite pix2_inv by lia. apply H.
        apply (Forall3_permute n axes inv); try assumption.
        + apply (permute_length n inv axes Hinv).
        + rewrite (permute_cancel n axes inv) by (try assumption; lia). exact Hq'. }
    rewrite Hbox. reflexivity.
  Qed.

  Corollary maxima_permuted_perm :
    Permutation (find_maxima percentile (lp_perm axes P) im2) (map (zperm axes) (find_maxima percentile P im1)).
  Proof.
    apply NoDup_Permutation.
    - apply maxima_nodup.
    - apply NoDup_map_inj_in; [|apply maxima_nodup].
      intros x y Hx Hy E.
      apply (maxima_length percentile im1 P Hsep Hmg Hsz) in Hx, Hy.
      apply (permute_inj n axes inv Z 0 x y Hax Hx Hy E).
    - intros q. rewrite in_map_iff. split.
      + intros H. pose proof (maxima2_length q H) as Lq.
        exists (zperm inv q). split; [apply (permute_cancel n axes inv); assumption|].
        apply maxima_permuted; [apply (permute_length n inv axes Hinv)|].
        rewrite (permute_cancel n axes inv) by assumption. exact H.
      + intros [p [<- Hp]]. apply maxima_permuted; [|exact Hp].
        apply (maxima_length percentile im1 P Hsep Hmg Hsz p Hp).
  Qed.
End PermutedMaxima.
